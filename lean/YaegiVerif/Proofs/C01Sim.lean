import YaegiVerif.Model.Cfg
/-
  C01 — simulation proof: the CFG produced by `compile`, executed by the closure loop, reaches
  exactly the outcome of the big-step Go semantics.  Exact-step formulation: `steps code n`.
-/
namespace YaegiVerif.Core

theorem compileCond_length (c : BExpr) (base t f : Nat) : (compileCond c base t f).length = c.size := by
  induction c generalizing base t f with
  | cmp op a b => rfl
  | not a ih => simp [compileCond, BExpr.size, ih]
  | land a b iha ihb => simp [compileCond, BExpr.size, iha, ihb]
  | lor a b iha ihb => simp [compileCond, BExpr.size, iha, ihb]

mutual
theorem compile_length (ent : Nat → Nat) (fin : Nat) : (s : Stmt) → ∀ (ls : List (Nat × Nat)) (base next brk cont : Nat),
    (compile ent fin ls s base next brk cont).length = s.size
  | .skip, _, _, _, _, _ => rfl
  | .seq a b, ls, base, next, brk, cont => by
    simp [compile, Stmt.size, compile_length ent fin a, compile_length ent fin b]
  | .assign _ _, _, _, _, _, _ => rfl
  | .print _, _, _, _, _, _ => rfl
  | .ite c t e, ls, base, next, brk, cont => by
    simp [compile, Stmt.size, compileCond_length, compile_length ent fin t, compile_length ent fin e]; omega
  | .loop c body post, ls, base, next, brk, cont => by
    simp [compile, Stmt.size, compileCond_length, compile_length ent fin body, compile_length ent fin post]; omega
  | .brk, _, _, _, _, _ => rfl
  | .cont, _, _, _, _, _ => rfl
  | .switch cs, ls, base, next, brk, cont => by
    simp [compile, Stmt.size, compileClauses_length ent fin cs]
  | .ret _, _, _, _, _, _ => rfl
  | .call _ _ _, _, _, _, _, _ => rfl
  | .brkL _, _, _, _, _, _ => rfl
  | .contL _, _, _, _, _, _ => rfl
theorem compileClauses_length (ent : Nat → Nat) (fin : Nat) : (cs : Clauses) → ∀ (ls : List (Nat × Nat)) (base next cont : Nat),
    (compileClauses ent fin ls cs base next cont).length = cs.size
  | .nil, _, _, _, _ => rfl
  | .cons c body fall rest, ls, base, next, cont => by
    simp [compileClauses, Clauses.size, compileCond_length, compile_length ent fin body, compileClauses_length ent fin rest]; omega
end

theorem steps_add (code : List Instr) (m n : Nat) (st : MState) :
    steps code (m + n) st = (steps code m st).bind (steps code n) := by
  induction m generalizing st with
  | zero => simp [steps]
  | succ m ih =>
    rw [Nat.succ_add]
    simp only [steps]
    cases h : step code st with
    | none => simp
    | some st' => simp [ih]

/-- `steps` composes -/
theorem steps_trans {code : List Instr} {m n : Nat} {a b c : MState}
    (h1 : steps code m a = some b) (h2 : steps code n b = some c) : steps code (m + n) a = some c := by
  rw [steps_add, h1]; exact h2

/-- the fragment `frag` sits in `code` at address `base` -/
def Embeds (code frag : List Instr) (base : Nat) : Prop :=
  ∀ i, i < frag.length → code[base + i]? = frag[i]?

theorem Embeds.left {code a b : List Instr} {base : Nat} (h : Embeds code (a ++ b) base) : Embeds code a base := by
  intro i hi
  have := h i (by simp; omega)
  rw [this, List.getElem?_append_left hi]

theorem Embeds.right {code a b : List Instr} {base : Nat} (h : Embeds code (a ++ b) base) :
    Embeds code b (base + a.length) := by
  intro i hi
  have := h (a.length + i) (by simp; omega)
  rw [← Nat.add_assoc] at this
  rw [this, List.getElem?_append_right (by omega)]
  simp

theorem Embeds.head {code : List Instr} {i : Instr} {base : Nat} (h : Embeds code [i] base) : code[base]? = some i := by
  have := h 0 (by simp)
  simpa using this

/-- conditions: the branch graph reaches `t` or `f` according to the short-circuit value, or panics -/
theorem cond_sim (code : List Instr) (s : St) (σ : List Frame) (c : BExpr) :
    ∀ (base t f : Nat), Embeds code (compileCond c base t f) base →
      (∀ v, c.eval s = some v → ∃ n, steps code n (.run base s σ) = some (.run (if v then t else f) s σ)) ∧
      (c.eval s = none → ∃ n, steps code n (.run base s σ) = some (.panicked s)) := by
  induction c with
  | cmp op a b =>
    intro base t f h
    have hc := Embeds.head (by simpa [compileCond] using h)
    constructor
    · intro v hv
      refine ⟨1, ?_⟩
      simp only [BExpr.eval] at hv
      cases ha : a.eval s <;> cases hb : b.eval s <;> simp [ha, hb] at hv
      subst hv
      simp [steps, step, hc, ha, hb]
    · intro hv
      refine ⟨1, ?_⟩
      simp only [BExpr.eval] at hv
      cases ha : a.eval s <;> cases hb : b.eval s <;> simp [ha, hb] at hv <;> simp [steps, step, hc, ha, hb]
  | not a ih =>
    intro base t f h
    obtain ⟨h1, h2⟩ := ih base f t (by simpa [compileCond] using h)
    constructor
    · intro v hv
      simp only [BExpr.eval, Option.map_eq_some_iff] at hv
      obtain ⟨w, hw, rfl⟩ := hv
      obtain ⟨n, hn⟩ := h1 w hw
      exact ⟨n, by cases w <;> simpa using hn⟩
    · intro hv
      simp only [BExpr.eval, Option.map_eq_none_iff] at hv
      exact h2 hv
  | land a b iha ihb =>
    intro base t f h
    simp only [compileCond] at h
    obtain ⟨a1, a2⟩ := iha base (base + a.size) f h.left
    have hr := h.right
    rw [compileCond_length] at hr
    obtain ⟨b1, b2⟩ := ihb (base + a.size) t f hr
    constructor
    · intro v hv
      simp only [BExpr.eval] at hv
      cases ha : a.eval s with
      | none => simp [ha] at hv
      | some w =>
        cases w with
        | true =>
          simp only [ha] at hv
          obtain ⟨n1, hn1⟩ := a1 true ha
          obtain ⟨n2, hn2⟩ := b1 v hv
          exact ⟨n1 + n2, steps_trans (by simpa using hn1) hn2⟩
        | false =>
          simp only [ha, Option.some.injEq] at hv
          subst hv
          obtain ⟨n1, hn1⟩ := a1 false ha
          exact ⟨n1, by simpa using hn1⟩
    · intro hv
      simp only [BExpr.eval] at hv
      cases ha : a.eval s with
      | none => exact a2 ha
      | some w =>
        cases w with
        | true =>
          simp only [ha] at hv
          obtain ⟨n1, hn1⟩ := a1 true ha
          obtain ⟨n2, hn2⟩ := b2 hv
          exact ⟨n1 + n2, steps_trans (by simpa using hn1) hn2⟩
        | false => simp [ha] at hv
  | lor a b iha ihb =>
    intro base t f h
    simp only [compileCond] at h
    obtain ⟨a1, a2⟩ := iha base t (base + a.size) h.left
    have hr := h.right
    rw [compileCond_length] at hr
    obtain ⟨b1, b2⟩ := ihb (base + a.size) t f hr
    constructor
    · intro v hv
      simp only [BExpr.eval] at hv
      cases ha : a.eval s with
      | none => simp [ha] at hv
      | some w =>
        cases w with
        | false =>
          simp only [ha] at hv
          obtain ⟨n1, hn1⟩ := a1 false ha
          obtain ⟨n2, hn2⟩ := b1 v hv
          exact ⟨n1 + n2, steps_trans (by simpa using hn1) hn2⟩
        | true =>
          simp only [ha, Option.some.injEq] at hv
          subst hv
          obtain ⟨n1, hn1⟩ := a1 true ha
          exact ⟨n1, by simpa using hn1⟩
    · intro hv
      simp only [BExpr.eval] at hv
      cases ha : a.eval s with
      | none => exact a2 ha
      | some w =>
        cases w with
        | false =>
          simp only [ha] at hv
          obtain ⟨n1, hn1⟩ := a1 false ha
          obtain ⟨n2, hn2⟩ := b2 hv
          exact ⟨n1 + n2, steps_trans (by simpa using hn1) hn2⟩
        | true => simp [ha] at hv

/-- a post statement is a simple statement: it can only end normally or panic -/
def Stmt.simple : Stmt → Bool
  | .skip => true
  | .assign _ _ => true
  | .print _ => true
  | _ => false

mutual
/-- well-formed: every loop's post statement is simple (Go's grammar) -/
def Stmt.wf : Stmt → Bool
  | .seq a b => a.wf && b.wf
  | .ite _ t e => t.wf && e.wf
  | .loop _ body post => body.wf && post.simple && post.wf
  | .switch cs => cs.wf
  | _ => true
def Clauses.wf : Clauses → Bool
  | .nil => true
  | .cons _ body _ rest => body.wf && rest.wf
end

/-- where the machine is after a statement that ended with signal `sig` -/
def target (next brk cont fin : Nat) (ls : List (Nat × Nat)) (σ : List Frame) : Sig → St → MState
  | .normal, s => .run next s σ
  | .brk, s => .run brk s σ
  | .cont, s => .run cont s σ
  | .panic, s => .panicked s
  | .ret v, s => doReturn v s σ
  | .brkL n, s => .run (labelBrk ls n fin) s σ
  | .contL n, s => .run (labelCont ls n fin) s σ

theorem simple_sig {fs : Funs} {f : Nat} {p : Stmt} {s s' : St} {sig : Sig} (hs : p.simple = true)
    (h : exec fs f p s = some (sig, s')) : sig = .normal ∨ sig = .panic := by
  cases f with
  | zero => simp [exec] at h
  | succ f =>
    cases p <;> simp [Stmt.simple] at hs
    · simp [exec] at h; exact Or.inl h.1.symm
    · simp only [exec] at h
      split at h <;> simp at h <;> simp [← h.1]
    · simp only [exec] at h
      split at h <;> simp at h <;> simp [← h.1]

/-- simulation statement for statements, at a given amount of fuel -/
def SimStmt (code : List Instr) (fs : Funs) (ent : Nat → Nat) (fuel : Nat) : Prop :=
  ∀ (p : Stmt) (s s' : St) (sig : Sig) (base next brk cont fin : Nat) (ls : List (Nat × Nat)) (σ : List Frame),
    p.wf = true →
    exec fs fuel p s = some (sig, s') →
    Embeds code (compile ent fin ls p base next brk cont) base →
    ∃ n, steps code n (.run base s σ) = some (target next brk cont fin ls σ sig s')

/-- … for the clause list of a switch entered at its first test (`break` leaves the switch) -/
def SimClauses (code : List Instr) (fs : Funs) (ent : Nat → Nat) (fuel : Nat) : Prop :=
  ∀ (cs : Clauses) (s s' : St) (sig : Sig) (base next cont fin : Nat) (ls : List (Nat × Nat)) (σ : List Frame),
    cs.wf = true →
    execClauses fs fuel cs s = some (sig, s') →
    Embeds code (compileClauses ent fin ls cs base next cont) base →
    ∃ n, steps code n (.run base s σ) = some (target next next cont fin ls σ sig s')

/-- … and entered at the body of its first clause (after a `fallthrough`) -/
def SimFall (code : List Instr) (fs : Funs) (ent : Nat → Nat) (fuel : Nat) : Prop :=
  ∀ (cs : Clauses) (s s' : St) (sig : Sig) (base next cont fin : Nat) (ls : List (Nat × Nat)) (σ : List Frame),
    cs.wf = true →
    execFall fs fuel cs s = some (sig, s') →
    Embeds code (compileClauses ent fin ls cs base next cont) base →
    ∃ n, steps code n (.run (cs.bodyStart base) s σ) = some (target next next cont fin ls σ sig s')

/-- the body of a selected clause, then either the exit of the switch or the next body -/
theorem clause_body (code : List Instr) (fs : Funs) (ent : Nat → Nat) (f : Nat)
    (hS : SimStmt code fs ent f) (hF : SimFall code fs ent f)
    (c : BExpr) (body : Stmt) (fall : Bool) (rest : Clauses) (s s' : St) (sig : Sig) (base next cont fin : Nat)
    (ls : List (Nat × Nat)) (σ : List Frame)
    (hwb : body.wf = true) (hwr : rest.wf = true)
    (hemb : Embeds code (compileClauses ent fin ls (.cons c body fall rest) base next cont) base)
    (h : (match exec fs f body s with
          | some (.normal, s1) => if fall then execFall fs f rest s1 else some (.normal, s1)
          | r => r) = some (sig, s')) :
    ∃ n, steps code n (.run (base + c.size) s σ) = some (target next next cont fin ls σ sig s') := by
  simp only [compileClauses] at hemb
  have hbody := hemb.left.right
  have hrest := hemb.right
  rw [compileCond_length] at hbody
  rw [List.length_append, compileCond_length, compile_length ent fin, ← Nat.add_assoc] at hrest
  cases hx : exec fs f body s with
  | none => simp [hx] at h
  | some r =>
    obtain ⟨sg, s1⟩ := r
    obtain ⟨n1, hn1⟩ := hS body s s1 sg (base + c.size)
      (if fall then rest.bodyStart (base + c.size + body.size) else next) next cont fin ls σ hwb hx hbody
    cases sg with
    | normal =>
      simp only [hx] at h
      cases fall with
      | true =>
        simp only [if_true] at h hn1
        obtain ⟨n2, hn2⟩ := hF rest s1 s' sig (base + c.size + body.size) next cont fin ls σ hwr h hrest
        exact ⟨n1 + n2, steps_trans (by simpa [target] using hn1) hn2⟩
      | false =>
        simp only [Bool.false_eq_true, if_false, Option.some.injEq, Prod.mk.injEq] at h hn1
        obtain ⟨rfl, rfl⟩ := h
        exact ⟨n1, by simpa [target] using hn1⟩
    | brk =>
      simp only [hx, Option.some.injEq, Prod.mk.injEq] at h
      obtain ⟨rfl, rfl⟩ := h
      exact ⟨n1, by simpa [target] using hn1⟩
    | cont =>
      simp only [hx, Option.some.injEq, Prod.mk.injEq] at h
      obtain ⟨rfl, rfl⟩ := h
      exact ⟨n1, by simpa [target] using hn1⟩
    | panic =>
      simp only [hx, Option.some.injEq, Prod.mk.injEq] at h
      obtain ⟨rfl, rfl⟩ := h
      exact ⟨n1, by simpa [target] using hn1⟩
    | ret v =>
      simp only [hx, Option.some.injEq, Prod.mk.injEq] at h
      obtain ⟨rfl, rfl⟩ := h
      exact ⟨n1, by simpa [target] using hn1⟩
    | brkL k =>
      simp only [hx, Option.some.injEq, Prod.mk.injEq] at h
      obtain ⟨rfl, rfl⟩ := h
      exact ⟨n1, by simpa [target] using hn1⟩
    | contL k =>
      simp only [hx, Option.some.injEq, Prod.mk.injEq] at h
      obtain ⟨rfl, rfl⟩ := h
      exact ⟨n1, by simpa [target] using hn1⟩

theorem callResult_none (s : St) (x : Nat) : callResult s x none = none := rfl
theorem callResult_ret (s s1 : St) (x : Nat) (v : Val) :
    callResult s x (some (.ret v, s1)) = some (.normal, { vars := (s.set x v).vars, out := s1.out }) := rfl
theorem callResult_panic (s s1 : St) (x : Nat) : callResult s x (some (.panic, s1)) = some (.panic, s1) := rfl
theorem callResult_normal (s s1 : St) (x : Nat) :
    callResult s x (some (.normal, s1)) = some (.normal, { vars := (s.set x 0).vars, out := s1.out }) := rfl
theorem callResult_brk (s s1 : St) (x : Nat) :
    callResult s x (some (.brk, s1)) = some (.normal, { vars := (s.set x 0).vars, out := s1.out }) := rfl
theorem callResult_cont (s s1 : St) (x : Nat) :
    callResult s x (some (.cont, s1)) = some (.normal, { vars := (s.set x 0).vars, out := s1.out }) := rfl

theorem callResult_brkL (s s1 : St) (x k : Nat) :
    callResult s x (some (.brkL k, s1)) = some (.normal, { vars := (s.set x 0).vars, out := s1.out }) := rfl
theorem callResult_contL (s s1 : St) (x k : Nat) :
    callResult s x (some (.contL k, s1)) = some (.normal, { vars := (s.set x 0).vars, out := s1.out }) := rfl

/-- every declared function's graph (body followed by `return 0`) sits in `code` at its entry -/
def FunsEmbed (code : List Instr) (fs : Funs) (ent : Nat → Nat) : Prop :=
  ∀ (g : Nat) (body : Stmt), lookupFn fs g = some body → Embeds code (compileFn ent body (ent g)) (ent g)

/-- every function body is well formed -/
def Funs.wf (fs : Funs) : Prop := ∀ (g : Nat) (body : Stmt), lookupFn fs g = some body → body.wf = true

/-- **simulation**: every big-step execution is reproduced step by step by the compiled graph -/
theorem sim_all (code : List Instr) (fs : Funs) (ent : Nat → Nat) (hfe : FunsEmbed code fs ent) (hfw : Funs.wf fs) :
    ∀ (fuel : Nat), SimStmt code fs ent fuel ∧ SimClauses code fs ent fuel ∧ SimFall code fs ent fuel := by
  intro fuel
  induction fuel with
  | zero =>
    refine ⟨?_, ?_, ?_⟩
    · intro p s s' sig base next brk cont fin ls σ _ h; simp [exec] at h
    · intro cs s s' sig base next cont fin ls σ _ h; simp [execClauses] at h
    · intro cs s s' sig base next cont fin ls σ _ h; simp [execFall] at h
  | succ f ihall =>
    obtain ⟨ih, ihC, ihF⟩ := ihall
    refine ⟨?_, ?_, ?_⟩
    rotate_left
    · -- clauses entered at the first test
      intro cs s s' sig base next cont fin ls σ hwf h hemb
      cases cs with
      | nil =>
        simp only [execClauses, Option.some.injEq, Prod.mk.injEq] at h
        obtain ⟨rfl, rfl⟩ := h
        have hc := Embeds.head (by simpa [compileClauses] using hemb)
        exact ⟨1, by simp [steps, step, hc, target]⟩
      | cons c body fall rest =>
        simp only [Clauses.wf, Bool.and_eq_true] at hwf
        have hemb0 := hemb
        simp only [compileClauses] at hemb
        have hcnd := hemb.left.left
        have hrest := hemb.right
        rw [List.length_append, compileCond_length, compile_length ent fin, ← Nat.add_assoc] at hrest
        obtain ⟨c1, c2⟩ := cond_sim code s σ c base (base + c.size) (base + c.size + body.size) hcnd
        simp only [execClauses] at h
        cases hc : c.eval s with
        | none =>
          simp only [hc, Option.some.injEq, Prod.mk.injEq] at h
          obtain ⟨rfl, rfl⟩ := h
          exact c2 hc
        | some v =>
          obtain ⟨n1, hn1⟩ := c1 v hc
          cases v with
          | false =>
            simp only [hc] at h
            obtain ⟨n2, hn2⟩ := ihC rest s s' sig (base + c.size + body.size) next cont fin ls σ hwf.2 h hrest
            exact ⟨n1 + n2, steps_trans (by simpa using hn1) hn2⟩
          | true =>
            simp only [hc] at h
            obtain ⟨n2, hn2⟩ := clause_body code fs ent f ih ihF c body fall rest s s' sig base next cont fin ls σ hwf.1 hwf.2 hemb0 h
            exact ⟨n1 + n2, steps_trans (by simpa using hn1) hn2⟩
    · -- clauses entered at the first body (fallthrough)
      intro cs s s' sig base next cont fin ls σ hwf h hemb
      cases cs with
      | nil =>
        simp only [execFall, Option.some.injEq, Prod.mk.injEq] at h
        obtain ⟨rfl, rfl⟩ := h
        have hc := Embeds.head (by simpa [compileClauses] using hemb)
        exact ⟨1, by simp [steps, step, hc, target, Clauses.bodyStart]⟩
      | cons c body fall rest =>
        simp only [Clauses.wf, Bool.and_eq_true] at hwf
        simp only [execFall] at h
        simpa [Clauses.bodyStart] using
          clause_body code fs ent f ih ihF c body fall rest s s' sig base next cont fin ls σ hwf.1 hwf.2 hemb h
    -- statements
    intro p s s' sig base next brk cont fin ls σ hwf h hemb
    cases p with
    | skip =>
      simp only [exec, Option.some.injEq, Prod.mk.injEq] at h
      obtain ⟨rfl, rfl⟩ := h
      have hc := Embeds.head (by simpa [compile] using hemb)
      exact ⟨1, by simp [steps, step, hc, target]⟩
    | brk =>
      simp only [exec, Option.some.injEq, Prod.mk.injEq] at h
      obtain ⟨rfl, rfl⟩ := h
      have hc := Embeds.head (by simpa [compile] using hemb)
      exact ⟨1, by simp [steps, step, hc, target]⟩
    | cont =>
      simp only [exec, Option.some.injEq, Prod.mk.injEq] at h
      obtain ⟨rfl, rfl⟩ := h
      have hc := Embeds.head (by simpa [compile] using hemb)
      exact ⟨1, by simp [steps, step, hc, target]⟩
    | brkL k =>
      simp only [exec, Option.some.injEq, Prod.mk.injEq] at h
      obtain ⟨rfl, rfl⟩ := h
      have hc := Embeds.head (by simpa [compile] using hemb)
      exact ⟨1, by simp [steps, step, hc, target]⟩
    | contL k =>
      simp only [exec, Option.some.injEq, Prod.mk.injEq] at h
      obtain ⟨rfl, rfl⟩ := h
      have hc := Embeds.head (by simpa [compile] using hemb)
      exact ⟨1, by simp [steps, step, hc, target]⟩
    | assign x e =>
      have hc := Embeds.head (by simpa [compile] using hemb)
      simp only [exec] at h
      cases he : e.eval s with
      | none =>
        simp only [he, Option.some.injEq, Prod.mk.injEq] at h
        obtain ⟨rfl, rfl⟩ := h
        exact ⟨1, by simp [steps, step, hc, he, target]⟩
      | some v =>
        simp only [he, Option.some.injEq, Prod.mk.injEq] at h
        obtain ⟨rfl, rfl⟩ := h
        exact ⟨1, by simp [steps, step, hc, he, target]⟩
    | print e =>
      have hc := Embeds.head (by simpa [compile] using hemb)
      simp only [exec] at h
      cases he : e.eval s with
      | none =>
        simp only [he, Option.some.injEq, Prod.mk.injEq] at h
        obtain ⟨rfl, rfl⟩ := h
        exact ⟨1, by simp [steps, step, hc, he, target]⟩
      | some v =>
        simp only [he, Option.some.injEq, Prod.mk.injEq] at h
        obtain ⟨rfl, rfl⟩ := h
        exact ⟨1, by simp [steps, step, hc, he, target]⟩
    | seq a b =>
      simp only [Stmt.wf, Bool.and_eq_true] at hwf
      simp only [compile] at hemb
      have ha := hemb.left
      have hb := hemb.right
      rw [compile_length ent fin] at hb
      simp only [exec] at h
      cases hx : exec fs f a s with
      | none => simp [hx] at h
      | some r =>
        obtain ⟨sg, s1⟩ := r
        obtain ⟨n1, hn1⟩ := ih a s s1 sg base (base + a.size) brk cont fin ls σ hwf.1 hx ha
        cases sg with
        | normal =>
          simp only [hx] at h
          obtain ⟨n2, hn2⟩ := ih b s1 s' sig (base + a.size) next brk cont fin ls σ hwf.2 h hb
          exact ⟨n1 + n2, steps_trans hn1 hn2⟩
        | brk =>
          simp only [hx, Option.some.injEq, Prod.mk.injEq] at h
          obtain ⟨rfl, rfl⟩ := h
          exact ⟨n1, hn1⟩
        | cont =>
          simp only [hx, Option.some.injEq, Prod.mk.injEq] at h
          obtain ⟨rfl, rfl⟩ := h
          exact ⟨n1, hn1⟩
        | panic =>
          simp only [hx, Option.some.injEq, Prod.mk.injEq] at h
          obtain ⟨rfl, rfl⟩ := h
          exact ⟨n1, hn1⟩
        | ret v =>
          simp only [hx, Option.some.injEq, Prod.mk.injEq] at h
          obtain ⟨rfl, rfl⟩ := h
          exact ⟨n1, hn1⟩
        | brkL k =>
          simp only [hx, Option.some.injEq, Prod.mk.injEq] at h
          obtain ⟨rfl, rfl⟩ := h
          exact ⟨n1, hn1⟩
        | contL k =>
          simp only [hx, Option.some.injEq, Prod.mk.injEq] at h
          obtain ⟨rfl, rfl⟩ := h
          exact ⟨n1, hn1⟩
    | ite c t e =>
      simp only [Stmt.wf, Bool.and_eq_true] at hwf
      simp only [compile] at hemb
      have hcnd := hemb.left.left
      have ht := hemb.left.right
      have he := hemb.right
      rw [compileCond_length] at ht
      rw [List.length_append, compileCond_length, compile_length ent fin, ← Nat.add_assoc] at he
      obtain ⟨c1, c2⟩ := cond_sim code s σ c base (base + c.size) (base + c.size + t.size) hcnd
      simp only [exec] at h
      cases hc : c.eval s with
      | none =>
        simp only [hc, Option.some.injEq, Prod.mk.injEq] at h
        obtain ⟨rfl, rfl⟩ := h
        exact c2 hc
      | some v =>
        obtain ⟨n1, hn1⟩ := c1 v hc
        cases v with
        | true =>
          simp only [hc] at h
          obtain ⟨n2, hn2⟩ := ih t s s' sig (base + c.size) next brk cont fin ls σ hwf.1 h ht
          exact ⟨n1 + n2, steps_trans (by simpa using hn1) hn2⟩
        | false =>
          simp only [hc] at h
          obtain ⟨n2, hn2⟩ := ih e s s' sig (base + c.size + t.size) next brk cont fin ls σ hwf.2 h he
          exact ⟨n1 + n2, steps_trans (by simpa using hn1) hn2⟩
    | loop c body post =>
      have hwf0 := hwf
      simp only [Stmt.wf, Bool.and_eq_true] at hwf
      obtain ⟨⟨hwb, hsimple⟩, hwp⟩ := hwf
      have hemb0 := hemb
      simp only [compile] at hemb
      have hcnd := hemb.left.left
      have hbody := hemb.left.right
      have hpost := hemb.right
      rw [compileCond_length] at hbody
      rw [List.length_append, compileCond_length, compile_length ent fin, ← Nat.add_assoc] at hpost
      obtain ⟨c1, c2⟩ := cond_sim code s σ c base (base + c.size) next hcnd
      simp only [exec] at h
      cases hc : c.eval s with
      | none =>
        simp only [hc, Option.some.injEq, Prod.mk.injEq] at h
        obtain ⟨rfl, rfl⟩ := h
        exact c2 hc
      | some v =>
        obtain ⟨n1, hn1⟩ := c1 v hc
        cases v with
        | false =>
          simp only [hc, Option.some.injEq, Prod.mk.injEq] at h
          obtain ⟨rfl, rfl⟩ := h
          exact ⟨n1, by simpa [target] using hn1⟩
        | true =>
          simp only [hc] at h
          cases hx : exec fs f body s with
          | none => rw [hx] at h; simp [loopStep] at h
          | some r =>
            obtain ⟨sg, s1⟩ := r
            rw [hx] at h
            obtain ⟨n2, hn2⟩ := ih body s s1 sg (base + c.size) (base + c.size + body.size) next
              (base + c.size + body.size) fin ((next, base + c.size + body.size) :: ls) σ hwb hx hbody
            have hreach : steps code (n1 + n2) (.run base s σ) =
                some (target (base + c.size + body.size) next (base + c.size + body.size) fin
                  ((next, base + c.size + body.size) :: ls) σ sg s1) :=
              steps_trans (by simpa using hn1) hn2
            -- after a normal end, a `continue` or a `continue L` naming this loop the machine is at the post statement
            have post_case : (sg = .normal ∨ sg = .cont ∨ sg = .contL 0) →
                (match exec fs f post s1 with
                  | some (.normal, s2) => exec fs f (.loop c body post) s2
                  | some (.panic, s2) => some (.panic, s2)
                  | some (_, s2) => some (.panic, s2)
                  | none => none) = some (sig, s') →
                ∃ n, steps code n (.run base s σ) = some (target next brk cont fin ls σ sig s') := by
              intro hsg hh
              have hat : steps code (n1 + n2) (.run base s σ) = some (.run (base + c.size + body.size) s1 σ) := by
                rcases hsg with rfl | rfl | rfl <;> simpa [target, labelCont] using hreach
              cases hp : exec fs f post s1 with
              | none => simp [hp] at hh
              | some r2 =>
                obtain ⟨sg2, s2⟩ := r2
                obtain ⟨n3, hn3⟩ := ih post s1 s2 sg2 (base + c.size + body.size) base next
                  (base + c.size + body.size) fin ls σ hwp hp hpost
                rcases simple_sig hsimple hp with rfl | rfl
                · simp only [hp] at hh
                  obtain ⟨n4, hn4⟩ := ih (.loop c body post) s2 s' sig base next brk cont fin ls σ hwf0 hh hemb0
                  exact ⟨n1 + n2 + n3 + n4, steps_trans (steps_trans hat (by simpa [target] using hn3)) hn4⟩
                · simp only [hp, Option.some.injEq, Prod.mk.injEq] at hh
                  obtain ⟨rfl, rfl⟩ := hh
                  exact ⟨n1 + n2 + n3, steps_trans hat (by simpa [target] using hn3)⟩
            cases sg with
            | brk =>
              simp only [loopStep, Option.some.injEq, Prod.mk.injEq] at h
              obtain ⟨rfl, rfl⟩ := h
              exact ⟨n1 + n2, by simpa [target] using hreach⟩
            | panic =>
              simp only [loopStep, Option.some.injEq, Prod.mk.injEq] at h
              obtain ⟨rfl, rfl⟩ := h
              exact ⟨n1 + n2, by simpa [target] using hreach⟩
            | ret v =>
              simp only [loopStep, Option.some.injEq, Prod.mk.injEq] at h
              obtain ⟨rfl, rfl⟩ := h
              exact ⟨n1 + n2, by simpa [target] using hreach⟩
            | normal =>
              simp only [loopStep] at h
              exact post_case (Or.inl rfl) h
            | cont =>
              simp only [loopStep] at h
              exact post_case (Or.inr (Or.inl rfl)) h
            | brkL k =>
              cases k with
              | zero =>
                simp only [loopStep, Option.some.injEq, Prod.mk.injEq] at h
                obtain ⟨rfl, rfl⟩ := h
                exact ⟨n1 + n2, by simpa [target, labelBrk] using hreach⟩
              | succ k =>
                simp only [loopStep, Option.some.injEq, Prod.mk.injEq] at h
                obtain ⟨rfl, rfl⟩ := h
                exact ⟨n1 + n2, by simpa [target, labelBrk] using hreach⟩
            | contL k =>
              cases k with
              | zero =>
                simp only [loopStep] at h
                exact post_case (Or.inr (Or.inr rfl)) h
              | succ k =>
                simp only [loopStep, Option.some.injEq, Prod.mk.injEq] at h
                obtain ⟨rfl, rfl⟩ := h
                exact ⟨n1 + n2, by simpa [target, labelCont] using hreach⟩
    | switch cs =>
      simp only [Stmt.wf] at hwf
      simp only [compile] at hemb
      simp only [exec] at h
      cases hx : execClauses fs f cs s with
      | none => simp [hx] at h
      | some r =>
        obtain ⟨sg, s1⟩ := r
        obtain ⟨n1, hn1⟩ := ihC cs s s1 sg base next cont fin ls σ hwf hx hemb
        cases sg with
        | brk =>
          simp only [hx, Option.some.injEq, Prod.mk.injEq] at h
          obtain ⟨rfl, rfl⟩ := h
          exact ⟨n1, by simpa [target] using hn1⟩
        | normal =>
          simp only [hx, Option.some.injEq, Prod.mk.injEq] at h
          obtain ⟨rfl, rfl⟩ := h
          exact ⟨n1, by simpa [target] using hn1⟩
        | cont =>
          simp only [hx, Option.some.injEq, Prod.mk.injEq] at h
          obtain ⟨rfl, rfl⟩ := h
          exact ⟨n1, by simpa [target] using hn1⟩
        | panic =>
          simp only [hx, Option.some.injEq, Prod.mk.injEq] at h
          obtain ⟨rfl, rfl⟩ := h
          exact ⟨n1, by simpa [target] using hn1⟩
        | ret v =>
          simp only [hx, Option.some.injEq, Prod.mk.injEq] at h
          obtain ⟨rfl, rfl⟩ := h
          exact ⟨n1, by simpa [target] using hn1⟩
        | brkL k =>
          simp only [hx, Option.some.injEq, Prod.mk.injEq] at h
          obtain ⟨rfl, rfl⟩ := h
          exact ⟨n1, by simpa [target] using hn1⟩
        | contL k =>
          simp only [hx, Option.some.injEq, Prod.mk.injEq] at h
          obtain ⟨rfl, rfl⟩ := h
          exact ⟨n1, by simpa [target] using hn1⟩
    | ret e =>
      have hc := Embeds.head (by simpa [compile] using hemb)
      simp only [exec] at h
      cases he : e.eval s with
      | none =>
        simp only [he, Option.some.injEq, Prod.mk.injEq] at h
        obtain ⟨rfl, rfl⟩ := h
        exact ⟨1, by simp [steps, step, hc, he, target]⟩
      | some v =>
        simp only [he, Option.some.injEq, Prod.mk.injEq] at h
        obtain ⟨rfl, rfl⟩ := h
        exact ⟨1, by simp [steps, step, hc, he, target]⟩
    | call x g args =>
      have hc := Embeds.head (by simpa [compile] using hemb)
      simp only [exec] at h
      cases ha : evalArgs s args with
      | none =>
        simp only [ha, Option.some.injEq, Prod.mk.injEq] at h
        obtain ⟨rfl, rfl⟩ := h
        exact ⟨1, by simp [steps, step, hc, ha, target]⟩
      | some vals =>
        simp only [ha] at h
        cases hl : lookupFn fs g with
        | none => simp [hl] at h
        | some body =>
          simp only [hl] at h
          have hembF := hfe g body hl
          unfold compileFn at hembF
          have hb := hembF.left
          have hret := Embeds.head hembF.right
          rw [compile_length ent (ent g + body.size)] at hret
          have h0 : steps code 1 (.run base s σ) =
              some (.run (ent g) (calleeSt s vals) (⟨next, s.vars, x⟩ :: σ)) := by
            simp [steps, step, hc, ha]
          cases hx : exec fs f body (calleeSt s vals) with
          | none => rw [hx, callResult_none] at h; exact absurd h (by simp)
          | some r =>
            obtain ⟨sg, s1⟩ := r
            obtain ⟨n1, hn1⟩ := ih body (calleeSt s vals) s1 sg (ent g) (ent g + body.size) (ent g + body.size)
              (ent g + body.size) (ent g + body.size) [] (⟨next, s.vars, x⟩ :: σ) (hfw g body hl) hx hb
            -- a body that falls off its end reaches the trailing `return 0`
            have fell : target (ent g + body.size) (ent g + body.size) (ent g + body.size) (ent g + body.size) []
                  (⟨next, s.vars, x⟩ :: σ) sg s1 = .run (ent g + body.size) s1 (⟨next, s.vars, x⟩ :: σ) →
                steps code (1 + n1 + 1) (.run base s σ) =
                  some (.run next { vars := (s.set x 0).vars, out := s1.out } σ) := by
              intro ht
              rw [ht] at hn1
              refine steps_trans (steps_trans h0 hn1) ?_
              simp [steps, step, hret, Expr.eval, doReturn, St.set]
            cases sg with
            | ret v =>
              rw [hx, callResult_ret] at h
              simp only [Option.some.injEq, Prod.mk.injEq] at h
              obtain ⟨rfl, rfl⟩ := h
              exact ⟨1 + n1, steps_trans h0 (by simpa [target, doReturn, St.set] using hn1)⟩
            | panic =>
              rw [hx, callResult_panic] at h
              simp only [Option.some.injEq, Prod.mk.injEq] at h
              obtain ⟨rfl, rfl⟩ := h
              exact ⟨1 + n1, steps_trans h0 (by simpa [target] using hn1)⟩
            | normal =>
              rw [hx, callResult_normal] at h
              simp only [Option.some.injEq, Prod.mk.injEq] at h
              obtain ⟨rfl, rfl⟩ := h
              exact ⟨1 + n1 + 1, by simpa [target] using fell rfl⟩
            | brk =>
              rw [hx, callResult_brk] at h
              simp only [Option.some.injEq, Prod.mk.injEq] at h
              obtain ⟨rfl, rfl⟩ := h
              exact ⟨1 + n1 + 1, by simpa [target] using fell rfl⟩
            | cont =>
              rw [hx, callResult_cont] at h
              simp only [Option.some.injEq, Prod.mk.injEq] at h
              obtain ⟨rfl, rfl⟩ := h
              exact ⟨1 + n1 + 1, by simpa [target] using fell rfl⟩
            | brkL k =>
              rw [hx, callResult_brkL] at h
              simp only [Option.some.injEq, Prod.mk.injEq] at h
              obtain ⟨rfl, rfl⟩ := h
              exact ⟨1 + n1 + 1, by simpa [target] using fell (by simp [target, labelBrk])⟩
            | contL k =>
              rw [hx, callResult_contL] at h
              simp only [Option.some.injEq, Prod.mk.injEq] at h
              obtain ⟨rfl, rfl⟩ := h
              exact ⟨1 + n1 + 1, by simpa [target] using fell (by simp [target, labelCont])⟩

/-- statements (the form used by the property theorems) -/
theorem sim (code : List Instr) (fs : Funs) (ent : Nat → Nat) (hfe : FunsEmbed code fs ent) (hfw : Funs.wf fs)
    (fuel : Nat) (p : Stmt) (s s' : St) (sig : Sig) (base next brk cont fin : Nat) (ls : List (Nat × Nat))
    (σ : List Frame) (hwf : p.wf = true) (h : exec fs fuel p s = some (sig, s'))
    (hemb : Embeds code (compile ent fin ls p base next brk cont) base) :
    ∃ n, steps code n (.run base s σ) = some (target next brk cont fin ls σ sig s') :=
  (sim_all code fs ent hfe hfw fuel).1 p s s' sig base next brk cont fin ls σ hwf h hemb

theorem compileFn_length (ent : Nat → Nat) (b : Stmt) (base : Nat) :
    (compileFn ent b base).length = b.size + 1 := by
  simp [compileFn, compile_length ent]

/-- layout: the graph of function `g` sits at its offset inside the block of function graphs -/
theorem compileFuns_embeds (ent : Nat → Nat) : ∀ (fs : Funs) (base g : Nat) (body : Stmt),
    lookupFn fs g = some body →
    ∀ i, i < (compileFn ent body (base + offset fs g)).length →
      (compileFuns ent fs base)[offset fs g + i]? = (compileFn ent body (base + offset fs g))[i]? := by
  intro fs
  induction fs with
  | nil => intro base g body h; simp [lookupFn] at h
  | cons b bs ih =>
    intro base g body h i hi
    cases g with
    | zero =>
      simp only [lookupFn, Option.some.injEq] at h
      subst h
      simp only [offset, Nat.add_zero, Nat.zero_add, compileFuns] at hi ⊢
      rw [List.getElem?_append_left hi]
    | succ g =>
      simp only [lookupFn] at h
      simp only [offset, compileFuns] at hi ⊢
      have hlen := compileFn_length ent b base
      rw [List.getElem?_append_right (by omega)]
      have := ih (base + b.size + 1) g body h i (by
        have e : base + b.size + 1 + offset bs g = base + (b.size + 1 + offset bs g) := by omega
        rw [e]; exact hi)
      have e1 : b.size + 1 + offset bs g + i - (compileFn ent b base).length = offset bs g + i := by omega
      have e2 : base + b.size + 1 + offset bs g = base + (b.size + 1 + offset bs g) := by omega
      rw [e1, this, e2]

/-- the compiled program contains main at 0 and every declared function at its entry -/
theorem compileProg_main (fs : Funs) (main : Stmt) :
    Embeds (compileProg fs main) (compileFn (entryOf main fs) main 0) 0 := by
  intro i hi
  simp only [compileProg, Nat.zero_add]
  rw [List.getElem?_append_left hi]

theorem compileProg_funs (fs : Funs) (main : Stmt) :
    FunsEmbed (compileProg fs main) fs (entryOf main fs) := by
  intro g body h i hi
  have hlen := compileFn_length (entryOf main fs) main 0
  simp only [compileProg, entryOf] at hi ⊢
  rw [List.getElem?_append_right (by omega)]
  have := compileFuns_embeds (entryOf main fs) fs (main.size + 1) g body h i hi
  have e : main.size + 1 + offset fs g + i - (compileFn (entryOf main fs) main 0).length = offset fs g + i := by
    omega
  rw [e]
  exact this

end YaegiVerif.Core
