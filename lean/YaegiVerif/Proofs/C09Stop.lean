import YaegiVerif.Model.RunId
import YaegiVerif.Proofs.C09Inv
/-
  Helper lemmas for C09: what a goroutine can still do once every frame is stale and `done` is closed.
-/
namespace YaegiVerif.Proofs.C09
open YaegiVerif.RunId

/-- goroutine-local part of the post-cancellation invariant: every frame is stale; a goroutine that has not made
    its frame yet will get the (stale) id of the frame that started it, or belongs to a function value of the
    cancelled evaluation (its frame will get the dead id); a blocked operation races the closed channel; the operation
    in flight, if any, runs on a frame whose done channel is the closed one, and if it is a call or a `go` statement
    of a function value, that function value belongs to the cancelled evaluation, not to an earlier one -/
structure DeadG (F : RunIdFacts) (cur : Nat) (g : G) : Prop where
  stale : ∀ fr ∈ g.stack, fr.id < cur
  pend : ∀ pd, g.pending = some pd →
    (F.site pd.site = .parent ∧ pd.pid < cur) ∨ (F.site pd.site = .epoch ∧ childEarly pd.site pd.pearly = false)
  rel : ∀ k r, g.blocked = some (k, r) → r = true
  wf : g.blocked.isSome = true → g.armed = false
  arm : g.armed = true → ∀ fr rest, g.stack = fr :: rest →
    fr.cur = true ∧ fr.pc.canc F = true ∧
    (∀ s b p, fr.pc = .call s b p → F.site s = .parent ∨ childEarly s fr.early = false) ∧
    (∀ s b p, fr.pc = .spawn s b p → F.site s = .parent ∨ childEarly s fr.early = false)

/-- operations executed so far, plus the one operation that is in flight -/
def pot (g : G) : Nat := g.ops + (if g.armed then 1 else 0)
/-- host calls made so far, plus the one operation that is in flight -/
def tpot (g : G) : Nat := g.ticks + (if g.armed then 1 else 0)

theorem guard_stale {F : RunIdFacts} (hF : Sound F) {fid cur : Nat} (h : fid < cur) : guardOk F fid cur = false := by
  simp [guardOk, hF.guard]; omega

/-- what `stepG_dead` says about one transition -/
structure DeadOut (F : RunIdFacts) (σ : St) (g : G) (o : Out) : Prop where
  dead : DeadG F σ.id o.g
  unarmed : o.g.armed = false
  pot : pot o.g ≤ pot g ∧ tpot o.g ≤ tpot g
  spawned : ∀ s ∈ o.spawned, DeadG F σ.id s ∧ YaegiVerif.Proofs.C09.pot s = 0 ∧ tpot s = 0
  list : σ.runList = [] → o.list = []
  wle : o.g.weight + sumWeights o.spawned + 2 * o.list.length ≤ g.weight + 2 * σ.runList.length
  wlt : g.active (!σ.runList.isEmpty) = true →
    o.g.weight + sumWeights o.spawned + 2 * o.list.length < g.weight + 2 * σ.runList.length

theorem deadG_unarmed {F : RunIdFacts} {cur : Nat} {g : G} (hs : ∀ fr ∈ g.stack, fr.id < cur)
    (hp : ∀ pd, g.pending = some pd →
      (F.site pd.site = .parent ∧ pd.pid < cur) ∨ (F.site pd.site = .epoch ∧ childEarly pd.site pd.pearly = false))
    (hb : g.blocked = none) (ha : g.armed = false) : DeadG F cur g :=
  ⟨hs, hp, (fun k r h => by rw [hb] at h; cases h), (fun _ => ha), (fun h => by rw [ha] at h; cases h)⟩

/-- the id of the frame of a call made after the cancellation, at a site the invariant allows -/
theorem newId_dead {F : RunIdFacts} (hF : Sound F) (σ : St) (s : Site) (pid : Nat) (early : Bool)
    (hm : σ.marked = true) (hpos : 0 < σ.id) (hp : pid < σ.id)
    (hs : F.site s = .parent ∨ childEarly s early = false) :
    newId (F.site s) pid σ.id σ.rootId (deadNow σ (childEarly s early)) < σ.id := by
  rcases hF.site s with h | h
  · simpa [h, newId] using hp
  · rcases hs with h' | h'
    · rw [h] at h'; cases h'
    · simp [h, newId, deadNow, hm, h', hpos]

/-- One transition of a goroutine whose frames are all stale, with `done` closed, the epoch of the evaluation marked
    and a stale root id: it stays dead, it is not armed afterwards, it executes at most its in-flight operation, what
    it spawns is dead and has executed nothing, and the measure drops. -/
theorem stepG_dead {F : RunIdFacts} (hF : Sound F) (σ : St) (g : G) (hdone : σ.done = true)
    (hm : σ.marked = true) (hroot : σ.rootId < σ.id)
    (h : DeadG F σ.id g) : DeadOut F σ g (stepG F σ g) := by
  have hpos : 0 < σ.id := by omega
  obtain ⟨hst, hpe, hrel, hwf, harm⟩ := h
  obtain ⟨stack, armed, blocked, ops, ticks, main, pending⟩ := g
  cases blocked with
  | some kc =>
    obtain ⟨k, rel⟩ := kc
    have harmed : armed = false := by simpa using hwf
    subst harmed
    have hr : rel = true := hrel k rel rfl
    subst hr
    have key : stepG F σ { stack := stack, armed := false, blocked := some (k, true), ops := ops, ticks := ticks, main := main, pending := pending } =
        ⟨{ stack := stack.tail, armed := false, blocked := none, ops := ops, ticks := ticks, main := main, pending := pending }, [], σ.runList, σ.rootCur⟩ := by
      simp [stepG, wake, hdone]
    rw [key]
    refine ⟨deadG_unarmed (fun fr hfr => hst fr (List.mem_of_mem_tail hfr)) hpe rfl rfl, rfl, by simp [pot, tpot], by simp, fun h => h, ?_, ?_⟩
    · simp only [G.weight, sumWeights]
      cases stack <;> simp <;> omega
    · intro _
      simp only [G.weight, sumWeights]
      cases stack <;> simp <;> omega
  | none =>
    cases armed with
    | true =>
      cases stack with
      | nil =>
        have key : stepG F σ { stack := [], armed := true, blocked := none, ops := ops, ticks := ticks, main := main, pending := pending } =
            ⟨{ stack := [], armed := false, blocked := none, ops := ops, ticks := ticks, main := main, pending := pending }, [], σ.runList, σ.rootCur⟩ := by
          simp [stepG, execOp]
        rw [key]
        refine ⟨deadG_unarmed (by simp) hpe rfl rfl, rfl, by simp [pot, tpot], by simp, fun h => h, ?_, ?_⟩
        · simp [G.weight, sumWeights] <;> omega
        · intro _; simp [G.weight, sumWeights] <;> omega
      | cons fr rest =>
        obtain ⟨fid, pc, fcur, fearly⟩ := fr
        have hfid : fid < σ.id := hst ⟨fid, pc, fcur, fearly⟩ (by simp)
        have hrest : ∀ x ∈ rest, x.id < σ.id := fun x hx => hst x (by simp [hx])
        obtain ⟨hfc, hpc, hcall, hspawn⟩ := harm rfl ⟨fid, pc, fcur, fearly⟩ rest rfl
        simp only at hfc hpc hcall hspawn
        subst hfc
        have hcons : ∀ p : Prog, ∀ x ∈ (⟨fid, p, true, fearly⟩ :: rest : List Frame), x.id < σ.id := by
          intro p x hx
          simp only [List.mem_cons] at hx
          rcases hx with rfl | hx
          · exact hfid
          · exact hrest x hx
        cases pc with
        | done =>
          have key : stepG F σ { stack := ⟨fid, .done, true, fearly⟩ :: rest, armed := true, blocked := none, ops := ops, ticks := ticks, main := main, pending := pending } =
              ⟨{ stack := ⟨fid, .done, true, fearly⟩ :: rest, armed := false, blocked := none, ops := ops, ticks := ticks, main := main, pending := pending }, [], σ.runList, σ.rootCur⟩ := by
            simp [stepG, execOp]
          rw [key]
          refine ⟨deadG_unarmed (hcons _) hpe rfl rfl, rfl, by simp [pot, tpot], by simp, fun h => h, ?_, ?_⟩
          · simp [G.weight, sumWeights] <;> omega
          · intro _; simp [G.weight, sumWeights] <;> omega
        | step p =>
          have key : stepG F σ { stack := ⟨fid, .step p, true, fearly⟩ :: rest, armed := true, blocked := none, ops := ops, ticks := ticks, main := main, pending := pending } =
              ⟨{ stack := ⟨fid, p, true, fearly⟩ :: rest, armed := false, blocked := none, ops := ops + 1, ticks := ticks, main := main, pending := pending }, [], σ.runList, σ.rootCur⟩ := by
            simp [stepG, execOp]
          rw [key]
          refine ⟨deadG_unarmed (hcons _) hpe rfl rfl, rfl, by simp [pot, tpot], by simp, fun h => h, ?_, ?_⟩
          · simp [G.weight, sumWeights] <;> omega
          · intro _; simp [G.weight, sumWeights] <;> omega
        | tick p =>
          have key : stepG F σ { stack := ⟨fid, .tick p, true, fearly⟩ :: rest, armed := true, blocked := none, ops := ops, ticks := ticks, main := main, pending := pending } =
              ⟨{ stack := ⟨fid, p, true, fearly⟩ :: rest, armed := false, blocked := none, ops := ops + 1, ticks := ticks + 1, main := main, pending := pending }, [], σ.runList, σ.rootCur⟩ := by
            simp [stepG, execOp]
          rw [key]
          refine ⟨deadG_unarmed (hcons _) hpe rfl rfl, rfl, by simp [pot, tpot], by simp, fun h => h, ?_, ?_⟩
          · simp [G.weight, sumWeights] <;> omega
          · intro _; simp [G.weight, sumWeights] <;> omega
        | mkclosure p =>
          have key : stepG F σ { stack := ⟨fid, .mkclosure p, true, fearly⟩ :: rest, armed := true, blocked := none, ops := ops, ticks := ticks, main := main, pending := pending } =
              ⟨{ stack := ⟨fid, p, true, fearly⟩ :: rest, armed := false, blocked := none, ops := ops + 1, ticks := ticks, main := main, pending := pending }, [], σ.runList, σ.rootCur⟩ := by
            simp [stepG, execOp]
          rw [key]
          refine ⟨deadG_unarmed (hcons _) hpe rfl rfl, rfl, by simp [pot, tpot], by simp, fun h => h, ?_, ?_⟩
          · simp [G.weight, sumWeights] <;> omega
          · intro _; simp [G.weight, sumWeights] <;> omega
        | call s body p =>
          have key : stepG F σ { stack := ⟨fid, .call s body p, true, fearly⟩ :: rest, armed := true, blocked := none, ops := ops, ticks := ticks, main := main, pending := pending } =
              ⟨{ stack := ⟨newId (F.site s) fid σ.id σ.rootId (deadNow σ (childEarly s fearly)), body,
                            childCur F s true σ.rootCur (curNow σ), childEarly s fearly⟩ :: ⟨fid, p, true, fearly⟩ :: rest,
                 armed := false, blocked := none, ops := ops + 1, ticks := ticks, main := main, pending := pending }, [], σ.runList, σ.rootCur⟩ := by
            simp [stepG, execOp]
          rw [key]
          have hnew := newId_dead hF σ s fid fearly hm hpos hfid (hcall s body p rfl)
          refine ⟨deadG_unarmed ?_ hpe rfl rfl, rfl, by simp [pot, tpot], by simp, fun h => h, ?_, ?_⟩
          · intro x hx
            simp only [List.mem_cons] at hx
            rcases hx with rfl | hx
            · exact hnew
            · exact hcons p x (by simpa using hx)
          · simp [G.weight, sumWeights] <;> omega
          · intro _; simp [G.weight, sumWeights] <;> omega
        | spawn ss body p =>
          have key : stepG F σ { stack := ⟨fid, .spawn ss body p, true, fearly⟩ :: rest, armed := true, blocked := none, ops := ops, ticks := ticks, main := main, pending := pending } =
              ⟨{ stack := ⟨fid, p, true, fearly⟩ :: rest, armed := false, blocked := none, ops := ops + 1, ticks := ticks, main := main, pending := pending },
               [newG ⟨ss, fid, true, fearly, body⟩], σ.runList, σ.rootCur⟩ := by
            simp [stepG, execOp]
          rw [key]
          refine ⟨deadG_unarmed (hcons _) hpe rfl rfl, rfl, by simp [pot, tpot], ?_, fun h => h, ?_, ?_⟩
          · intro x hx
            simp only [List.mem_cons, List.not_mem_nil, or_false] at hx
            subst hx
            refine ⟨deadG_unarmed (by simp [newG]) ?_ rfl rfl, by simp [newG, pot], by simp [newG, tpot]⟩
            intro pd hpd
            simp only [newG, Option.some.injEq] at hpd
            subst hpd
            rcases hF.site ss with h1 | h1
            · exact Or.inl ⟨h1, hfid⟩
            · rcases hspawn ss body p rfl with h2 | h2
              · rw [h1] at h2; cases h2
              · exact Or.inr ⟨h1, h2⟩
          · simp [G.weight, sumWeights, newG] <;> omega
          · intro _; simp [G.weight, sumWeights, newG] <;> omega
        | block k c p =>
          have hcc : cancellable F k c = true := by
            simp only [Prog.canc, Bool.and_eq_true] at hpc; exact hpc.1
          have key : stepG F σ { stack := ⟨fid, .block k c p, true, fearly⟩ :: rest, armed := true, blocked := none, ops := ops, ticks := ticks, main := main, pending := pending } =
              ⟨{ stack := ⟨fid, p, true, fearly⟩ :: rest, armed := false, blocked := some (k, true), ops := ops + 1, ticks := ticks, main := main, pending := pending }, [], σ.runList, σ.rootCur⟩ := by
            simp [stepG, execOp, hcc]
          rw [key]
          refine ⟨⟨hcons _, hpe, ?_, fun _ => rfl, fun h => by cases h⟩, rfl, by simp [pot, tpot], by simp, fun h => h, ?_, ?_⟩
          · intro k' r hkr
            simp only [Option.some.injEq, Prod.mk.injEq] at hkr
            exact hkr.2.symm
          · simp [G.weight, sumWeights] <;> omega
          · intro _; simp [G.weight, sumWeights] <;> omega
    | false =>
      cases pending with
      | some pd =>
        have hnew : newId (F.site pd.site) pd.pid σ.id σ.rootId (deadNow σ (childEarly pd.site pd.pearly)) < σ.id := by
          rcases hpe pd rfl with ⟨h1, h2⟩ | ⟨h1, h2⟩
          · simpa [h1, newId] using h2
          · simp [h1, newId, deadNow, hm, h2, hpos]
        have key : stepG F σ { stack := stack, armed := false, blocked := none, ops := ops, ticks := ticks, main := main, pending := some pd } =
            ⟨{ stack := [⟨newId (F.site pd.site) pd.pid σ.id σ.rootId (deadNow σ (childEarly pd.site pd.pearly)), pd.body,
                          childCur F pd.site pd.pcur σ.rootCur (curNow σ), childEarly pd.site pd.pearly⟩],
               armed := false, blocked := none, ops := ops, ticks := ticks, main := main, pending := none },
             [], σ.runList, σ.rootCur⟩ := by
          simp [stepG, advance]
        rw [key]
        refine ⟨deadG_unarmed ?_ (fun pd' h => by cases h) rfl rfl, rfl, by simp [pot, tpot], by simp, fun h => h, ?_, ?_⟩
        · intro x hx
          simp only [List.mem_cons, List.not_mem_nil, or_false] at hx
          subst hx
          exact hnew
        · simp [G.weight, sumWeights] <;> omega
        · intro _; simp [G.weight, sumWeights] <;> omega
      | none =>
        cases stack with
        | nil =>
          cases main with
          | false =>
            have key : stepG F σ { stack := [], armed := false, blocked := none, ops := ops, ticks := ticks, main := false, pending := none } =
                ⟨{ stack := [], armed := false, blocked := none, ops := ops, ticks := ticks, main := false, pending := none }, [], σ.runList, σ.rootCur⟩ := by
              simp [stepG, advance]
            rw [key]
            exact ⟨deadG_unarmed (by simp) (fun pd' h => by cases h) rfl rfl, rfl, by simp [pot, tpot], by simp, fun h => h,
              by simp [G.weight, sumWeights], by simp [G.active, G.weight]⟩
          | true =>
            cases hl : σ.runList with
            | nil =>
              have key : stepG F σ { stack := [], armed := false, blocked := none, ops := ops, ticks := ticks, main := true, pending := none } =
                  ⟨{ stack := [], armed := false, blocked := none, ops := ops, ticks := ticks, main := true, pending := none }, [], [], σ.rootCur⟩ := by
                simp [stepG, advance, hl]
              rw [key]
              exact ⟨deadG_unarmed (by simp) (fun pd' h => by cases h) rfl rfl, rfl, by simp [pot, tpot], by simp, fun _ => rfl,
                by simp [G.weight, sumWeights, hl], by simp [G.active, G.weight, hl]⟩
            | cons e es =>
              by_cases hx : (F.execChecksCancel && σ.done) = true
              · have key : stepG F σ { stack := [], armed := false, blocked := none, ops := ops, ticks := ticks, main := true, pending := none } =
                    ⟨{ stack := [], armed := false, blocked := none, ops := ops, ticks := ticks, main := true, pending := none }, [], [], σ.rootCur⟩ := by
                  simp [stepG, advance, hl, hx]
                rw [key]
                exact ⟨deadG_unarmed (by simp) (fun pd' h => by cases h) rfl rfl, rfl, by simp [pot, tpot], by simp, fun _ => rfl,
                  by simp [G.weight, sumWeights], by simp [G.weight, sumWeights, hl]⟩
              · have key : stepG F σ { stack := [], armed := false, blocked := none, ops := ops, ticks := ticks, main := true, pending := none } =
                    ⟨{ stack := [⟨σ.rootId, e.prog, curNow σ, false⟩], armed := false, blocked := none, ops := ops, ticks := ticks, main := true, pending := none },
                     [], es, if e.root then curNow σ else σ.rootCur⟩ := by
                  simp [stepG, advance, hl, hx, hF.entry, newId]
                rw [key]
                refine ⟨deadG_unarmed ?_ (fun pd' h => by cases h) rfl rfl, rfl, by simp [pot, tpot], by simp, (fun h => by rw [hl] at h; cases h), ?_, ?_⟩
                · intro x hx'
                  simp only [List.mem_cons, List.not_mem_nil, or_false] at hx'
                  subst hx'
                  exact hroot
                · simp [G.weight, sumWeights, hl] <;> omega
                · intro _; simp [G.weight, sumWeights, hl] <;> omega
        | cons fr rest =>
          obtain ⟨fid, pc, fcur, fearly⟩ := fr
          have hfid : fid < σ.id := hst ⟨fid, pc, fcur, fearly⟩ (by simp)
          have hrest : ∀ x ∈ rest, x.id < σ.id := fun x hx => hst x (by simp [hx])
          have hg := guard_stale hF hfid
          have key : stepG F σ { stack := ⟨fid, pc, fcur, fearly⟩ :: rest, armed := false, blocked := none, ops := ops, ticks := ticks, main := main, pending := none } =
              ⟨{ stack := rest, armed := false, blocked := none, ops := ops, ticks := ticks, main := main, pending := none }, [], σ.runList, σ.rootCur⟩ := by
            cases pc <;> simp [stepG, advance, hg]
          rw [key]
          refine ⟨deadG_unarmed hrest (fun pd' h => by cases h) rfl rfl, rfl, by simp [pot, tpot], by simp, fun h => h, ?_, ?_⟩
          · simp [G.weight, sumWeights] <;> omega
          · intro _; simp [G.weight, sumWeights] <;> omega

/-- a goroutine that has nothing left to do, with an empty run list, does nothing -/
theorem stepG_finished (F : RunIdFacts) (σ : St) (g : G) (hf : finished g = true) (hl : σ.runList = []) :
    (stepG F σ g).g = g ∧ (stepG F σ g).spawned = [] ∧ (stepG F σ g).list = [] := by
  obtain ⟨stack, armed, blocked, ops, ticks, main, pending⟩ := g
  simp only [finished, Bool.and_eq_true, List.isEmpty_iff, Bool.not_eq_true', Option.isNone_iff_eq_none] at hf
  obtain ⟨⟨⟨h1, h2⟩, h3⟩, h4⟩ := hf
  subst h1 h2 h3 h4
  cases main <;> simp [stepG, advance, hl]

/-! ### the whole state -/

/-- the state after a cancellation inside the domain: `done` is closed, the epoch of the evaluation is marked, every
    frame — the root frame included, for good: nothing refreshes it when `Execute` returns — is stale, every blocking
    operation races `done` -/
structure Dead (F : RunIdFacts) (σ : St) : Prop where
  done : σ.done = true
  marked : σ.marked = true
  mainOk : MainOk σ
  gs : ∀ g ∈ σ.gs, DeadG F σ.id g
  root : σ.rootId < σ.id

def potAt (σ : St) (i : Nat) : Nat := match σ.gs[i]? with | some g => pot g | none => 0
def tpotAt (σ : St) (i : Nat) : Nat := match σ.gs[i]? with | some g => tpot g | none => 0

theorem sumWeights_append (a b : List G) : sumWeights (a ++ b) = sumWeights a + sumWeights b := by
  induction a with
  | nil => simp [sumWeights]
  | cons x xs ih => simp [sumWeights, ih]; omega

theorem sumWeights_set (l : List G) (i : Nat) (g g' : G) (h : l[i]? = some g) :
    sumWeights (l.set i g') + g.weight = sumWeights l + g'.weight := by
  induction l generalizing i with
  | nil => simp at h
  | cons x xs ih =>
    cases i with
    | zero => simp at h; subst h; simp [sumWeights]; omega
    | succ n =>
      simp at h
      have := ih n h
      simp [sumWeights]; omega

/-- what `execReturn` leaves alone, the root id included when `Execute` has no deferred refresh -/
theorem execReturn_more {F : RunIdFacts} (hF : Sound F) (m f : Bool) (σ : St) :
    (execReturn F m f σ).rootId = σ.rootId ∧ (execReturn F m f σ).marked = σ.marked := by
  unfold execReturn; split <;> simp [hF.noret]

theorem dead_stepRun {F : RunIdFacts} (hF : Sound F) (σ : St) (i : Nat) (h : Dead F σ) : Dead F (stepRun F σ i) := by
  have hmo := mainOk_step F σ (.run i) h.mainOk
  change MainOk (stepRun F σ i) at hmo
  revert hmo
  unfold stepRun
  cases hg : σ.gs[i]? with
  | none => intro _; exact h
  | some g =>
    intro hmo
    have hd := stepG_dead hF σ g h.done h.marked h.root (h.gs g (List.mem_of_getElem? hg))
    obtain ⟨m1, m2, m3, _, _, _⟩ := execReturn_fields F g.main (finished (stepG F σ g).g && (stepG F σ g).list.isEmpty)
      { σ with gs := σ.gs.set i (stepG F σ g).g ++ (stepG F σ g).spawned, runList := (stepG F σ g).list, rootCur := (stepG F σ g).rootCur }
    obtain ⟨m5, m6⟩ := execReturn_more hF g.main (finished (stepG F σ g).g && (stepG F σ g).list.isEmpty)
      { σ with gs := σ.gs.set i (stepG F σ g).g ++ (stepG F σ g).spawned, runList := (stepG F σ g).list, rootCur := (stepG F σ g).rootCur }
    refine ⟨by rw [m3]; exact h.done, by rw [m6]; exact h.marked, hmo, ?_, by rw [m5, m2]; exact h.root⟩
    rw [m1, m2]
    intro x hx
    rcases mem_set_append hx with hx | hx | hx
    · exact h.gs x hx
    · subst hx; exact hd.dead
    · exact (hd.spawned x hx).1

theorem dead_stepComm {F : RunIdFacts} (σ : St) (i : Nat) (h : Dead F σ) : Dead F (stepComm σ i) := by
  have hmo := mainOk_step F σ (.comm i) h.mainOk
  change MainOk (stepComm σ i) at hmo
  revert hmo
  unfold stepComm
  split
  · intro _; exact h
  · rename_i g hg
    split
    · intro _; exact h
    · rename_i v hb
      intro hmo
      refine ⟨h.done, h.marked, hmo, ?_, h.root⟩
      intro x hx
      rcases List.mem_or_eq_of_mem_set hx with hx | hx
      · exact h.gs x hx
      · subst hx
        have hd := h.gs g (List.mem_of_getElem? hg)
        have ha : g.armed = false := hd.wf (by rw [hb]; rfl)
        exact deadG_unarmed hd.stale hd.pend rfl ha

theorem dead_stepStop {F : RunIdFacts} (σ : St) (h : Dead F σ) : Dead F (stepStop F σ) := by
  unfold stepStop
  split
  · have hle : σ.id ≤ (if (F.watcherStops && F.stopBumps) = true then σ.id + 1 else σ.id) := by split <;> omega
    refine ⟨by simp [h.done], by simp [h.marked], ⟨h.mainOk.main0, h.mainOk.has⟩, ?_, Nat.lt_of_lt_of_le h.root hle⟩
    intro g hg
    have hd := h.gs g hg
    refine ⟨fun fr hfr => Nat.lt_of_lt_of_le (hd.stale fr hfr) hle, ?_, hd.rel, hd.wf, hd.arm⟩
    intro pd hpd
    rcases hd.pend pd hpd with ⟨h1, h2⟩ | h1
    · exact Or.inl ⟨h1, Nat.lt_of_lt_of_le h2 hle⟩
    · exact Or.inr h1
  · exact h

theorem dead_step {F : RunIdFacts} (hF : Sound F) (σ : St) (c : Choice) (h : Dead F σ) : Dead F (stepC F σ c) := by
  cases c with
  | run i => exact dead_stepRun hF σ i h
  | comm i => exact dead_stepComm σ i h
  | stop => exact dead_stepStop σ h

theorem dead_runSched {F : RunIdFacts} (hF : Sound F) (cs : List Choice) (σ : St) (h : Dead F σ) :
    Dead F (runSched F σ cs) := by
  induction cs generalizing σ with
  | nil => exact h
  | cons c cs ih => exact ih _ (dead_step hF σ c h)

/-- the goroutines after one `run` transition -/
theorem stepRun_gs (F : RunIdFacts) (σ : St) (i : Nat) (g : G) (hg : σ.gs[i]? = some g) :
    (stepRun F σ i).gs = σ.gs.set i (stepG F σ g).g ++ (stepG F σ g).spawned ∧
    (stepRun F σ i).runList = (stepG F σ g).list := by
  unfold stepRun
  simp only [hg]
  have := execReturn_fields F g.main (finished (stepG F σ g).g && (stepG F σ g).list.isEmpty)
    { σ with gs := σ.gs.set i (stepG F σ g).g ++ (stepG F σ g).spawned, runList := (stepG F σ g).list, rootCur := (stepG F σ g).rootCur }
  exact ⟨this.1, this.2.2.2.1⟩

/-- in a dead state no transition increases "operations executed + operation in flight" of any goroutine -/
theorem potAt_step {F : RunIdFacts} (hF : Sound F) (σ : St) (c : Choice) (h : Dead F σ) (j : Nat) :
    potAt (stepC F σ c) j ≤ potAt σ j := by
  cases c with
  | run i =>
    show potAt (stepRun F σ i) j ≤ potAt σ j
    cases hg : σ.gs[i]? with
    | none => simp [stepRun, hg]
    | some g =>
      have hd := stepG_dead hF σ g h.done h.marked h.root (h.gs g (List.mem_of_getElem? hg))
      have m1 := (stepRun_gs F σ i g hg).1
      simp only [potAt, m1]
      have hi : i < σ.gs.length := (List.getElem?_eq_some_iff.mp hg).1
      by_cases hj : j < σ.gs.length
      · rw [List.getElem?_append_left (by simpa using hj)]
        by_cases hij : i = j
        · subst hij
          have heq : σ.gs[i] = g := (List.getElem?_eq_some_iff.mp hg).2
          simp [hi, heq]
          exact hd.pot.1
        · simp [hij]
      · have hj' : σ.gs.length ≤ j := Nat.le_of_not_lt hj
        rw [List.getElem?_append_right (by simpa using hj')]
        have hnone : σ.gs[j]? = none := List.getElem?_eq_none hj'
        rw [hnone]
        cases hs : (stepG F σ g).spawned[j - (σ.gs.set i (stepG F σ g).g).length]? with
        | none => simp
        | some s =>
          have := (hd.spawned s (List.mem_of_getElem? hs)).2.1
          simp [this]
  | comm i =>
    show potAt (stepComm σ i) j ≤ potAt σ j
    unfold stepComm
    split
    · exact Nat.le_refl _
    · rename_i g hg
      split
      · exact Nat.le_refl _
      · simp only [potAt]
        have hi : i < σ.gs.length := (List.getElem?_eq_some_iff.mp hg).1
        by_cases hij : i = j
        · subst hij
          have heq : σ.gs[i] = g := (List.getElem?_eq_some_iff.mp hg).2
          simp [hi, heq, pot]
        · simp [hij]
  | stop =>
    show potAt (stepStop F σ) j ≤ potAt σ j
    unfold stepStop
    split <;> exact Nat.le_refl _

theorem potAt_runSched {F : RunIdFacts} (hF : Sound F) (cs : List Choice) (σ : St) (h : Dead F σ) (j : Nat) :
    potAt (runSched F σ cs) j ≤ potAt σ j := by
  induction cs generalizing σ with
  | nil => exact Nat.le_refl _
  | cons c cs ih => exact Nat.le_trans (ih _ (dead_step hF σ c h)) (potAt_step hF σ c h j)

/-- in a dead state no transition increases "host calls made + operation in flight" of any goroutine -/
theorem tpotAt_step {F : RunIdFacts} (hF : Sound F) (σ : St) (c : Choice) (h : Dead F σ) (j : Nat) :
    tpotAt (stepC F σ c) j ≤ tpotAt σ j := by
  cases c with
  | run i =>
    show tpotAt (stepRun F σ i) j ≤ tpotAt σ j
    cases hg : σ.gs[i]? with
    | none => simp [stepRun, hg]
    | some g =>
      have hd := stepG_dead hF σ g h.done h.marked h.root (h.gs g (List.mem_of_getElem? hg))
      have m1 := (stepRun_gs F σ i g hg).1
      simp only [tpotAt, m1]
      have hi : i < σ.gs.length := (List.getElem?_eq_some_iff.mp hg).1
      by_cases hj : j < σ.gs.length
      · rw [List.getElem?_append_left (by simpa using hj)]
        by_cases hij : i = j
        · subst hij
          have heq : σ.gs[i] = g := (List.getElem?_eq_some_iff.mp hg).2
          simp [hi, heq]
          exact hd.pot.2
        · simp [hij]
      · have hj' : σ.gs.length ≤ j := Nat.le_of_not_lt hj
        rw [List.getElem?_append_right (by simpa using hj')]
        have hnone : σ.gs[j]? = none := List.getElem?_eq_none hj'
        rw [hnone]
        cases hs : (stepG F σ g).spawned[j - (σ.gs.set i (stepG F σ g).g).length]? with
        | none => simp
        | some s =>
          have := (hd.spawned s (List.mem_of_getElem? hs)).2.2
          simp [this]
  | comm i =>
    show tpotAt (stepComm σ i) j ≤ tpotAt σ j
    unfold stepComm
    split
    · exact Nat.le_refl _
    · rename_i g hg
      split
      · exact Nat.le_refl _
      · simp only [tpotAt]
        have hi : i < σ.gs.length := (List.getElem?_eq_some_iff.mp hg).1
        by_cases hij : i = j
        · subst hij
          have heq : σ.gs[i] = g := (List.getElem?_eq_some_iff.mp hg).2
          simp [hi, heq, tpot]
        · simp [hij]
  | stop =>
    show tpotAt (stepStop F σ) j ≤ tpotAt σ j
    unfold stepStop
    split <;> exact Nat.le_refl _

theorem tpotAt_runSched {F : RunIdFacts} (hF : Sound F) (cs : List Choice) (σ : St) (h : Dead F σ) (j : Nat) :
    tpotAt (runSched F σ cs) j ≤ tpotAt σ j := by
  induction cs generalizing σ with
  | nil => exact Nat.le_refl _
  | cons c cs ih => exact Nat.le_trans (ih _ (dead_step hF σ c h)) (tpotAt_step hF σ c h j)

/-! ### termination -/

theorem weight_stepRun {F : RunIdFacts} (hF : Sound F) (σ : St) (i : Nat) (g : G) (h : Dead F σ) (hg : σ.gs[i]? = some g) :
    (stepRun F σ i).weight ≤ σ.weight ∧ (g.active (!σ.runList.isEmpty) = true → (stepRun F σ i).weight < σ.weight) := by
  have hd := stepG_dead hF σ g h.done h.marked h.root (h.gs g (List.mem_of_getElem? hg))
  obtain ⟨m1, m2⟩ := stepRun_gs F σ i g hg
  have hs := sumWeights_set σ.gs i g (stepG F σ g).g hg
  have e : (stepRun F σ i).weight =
      sumWeights (σ.gs.set i (stepG F σ g).g) + sumWeights (stepG F σ g).spawned + 2 * (stepG F σ g).list.length := by
    simp only [St.weight, m1, m2, sumWeights_append]
  have h6 := hd.wle
  have h7 := hd.wlt
  refine ⟨?_, fun hpos => ?_⟩
  · rw [e]; simp only [St.weight]; omega
  · have := h7 hpos
    rw [e]; simp only [St.weight]; omega

theorem firstActive_spec (more : Bool) (gs : List G) (k : Nat) :
    (firstActive more gs k = none → ∀ g ∈ gs, g.active more = false) ∧
    (∀ i, firstActive more gs k = some i → k ≤ i ∧ ∃ g, gs[i - k]? = some g ∧ g.active more = true) := by
  induction gs generalizing k with
  | nil => simp [firstActive]
  | cons g rest ih =>
    by_cases hw : g.active more = true
    · simp [firstActive, hw]
    · have h0 : g.active more = false := by simpa using hw
      have := ih (k + 1)
      refine ⟨?_, ?_⟩
      · intro hn
        simp [firstActive, h0] at hn
        intro x hx
        simp only [List.mem_cons] at hx
        rcases hx with rfl | hx
        · exact h0
        · exact this.1 hn x hx
      · intro i hi
        simp [firstActive, h0] at hi
        obtain ⟨hle, g', hg', hpos⟩ := this.2 i hi
        refine ⟨by omega, g', ?_, hpos⟩
        have : i - k = (i - (k + 1)) + 1 := by omega
        rw [this]; simpa using hg'

theorem sumWeights_zero (gs : List G) (h : ∀ g ∈ gs, g.weight = 0) : sumWeights gs = 0 := by
  induction gs with
  | nil => rfl
  | cons x xs ih =>
    simp only [sumWeights]
    have := h x (by simp)
    have := ih (fun g hg => h g (by simp [hg]))
    omega

/-- **Everything terminates**: from a dead state, running the goroutines that can still move reaches, within
    `weight` transitions, a state in which `Execute` has walked its whole run list and every goroutine has an
    empty stack, is not armed and not blocked. -/
theorem drain_terminates {F : RunIdFacts} (hF : Sound F) (fuel : Nat) (σ : St) (h : Dead F σ) (hw : σ.weight ≤ fuel) :
    (drain F σ fuel).weight = 0 ∧ Dead F (drain F σ fuel) := by
  induction fuel generalizing σ with
  | zero => exact ⟨by simp only [drain]; omega, h⟩
  | succ n ih =>
    simp only [drain]
    cases hf : firstActive (!σ.runList.isEmpty) σ.gs 0 with
    | none =>
      refine ⟨?_, h⟩
      have hall := (firstActive_spec _ σ.gs 0).1 hf
      have hz : ∀ g ∈ σ.gs, g.weight = 0 := by
        intro g hg
        have := hall g hg
        simp only [G.active, Bool.or_eq_false_iff, decide_eq_false_iff_not] at this
        omega
      obtain ⟨m, hm0, hmm⟩ := h.mainOk.has
      have hml := hall m (List.mem_of_getElem? hm0)
      simp only [G.active, hmm, Bool.true_and, Bool.or_eq_false_iff, Bool.not_eq_false'] at hml
      have hl : σ.runList = [] := by simpa using hml.2
      simp [St.weight, sumWeights_zero σ.gs hz, hl]
    | some i =>
      obtain ⟨_, g, hg, hpos⟩ := (firstActive_spec _ σ.gs 0).2 i hf
      simp only [Nat.sub_zero] at hg
      have hlt := (weight_stepRun hF σ i g h hg).2 hpos
      exact ih (stepC F σ (.run i)) (dead_step hF σ (.run i) h) (by show (stepRun F σ i).weight ≤ n; omega)

end YaegiVerif.Proofs.C09
