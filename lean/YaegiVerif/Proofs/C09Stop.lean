import YaegiVerif.Model.RunId
import YaegiVerif.Proofs.C09Inv
/-
  Helper lemmas for C09: what a goroutine can still do once every frame is stale and `done` is closed.
-/
namespace YaegiVerif.Proofs.C09
open YaegiVerif.RunId

/-- goroutine-local part of the post-cancellation invariant -/
structure DeadG (F : RunIdFacts) (cur : Nat) (g : G) : Prop where
  stale : ∀ fr ∈ g.stack, fr.id < cur
  canc : g.canc F = true
  wf : g.blocked.isSome = true → g.armed = false

/-- operations executed so far, plus the one operation that is in flight -/
def pot (g : G) : Nat := g.ops + (if g.armed then 1 else 0)
/-- host calls made so far, plus the one operation that is in flight -/
def tpot (g : G) : Nat := g.ticks + (if g.armed then 1 else 0)

theorem guard_stale {F : RunIdFacts} (hF : Sound F) {fid cur : Nat} (h : fid < cur) : guardOk F fid cur = false := by
  simp [guardOk, hF.guard]; omega

/-- One transition of a goroutine whose frames are all stale, with `done` closed and nothing left in the run list
    (or an `Execute` that checks for the cancellation): it stays dead, it is not armed afterwards, it executes at
    most its in-flight operation, what it spawns is dead and has executed nothing, and its weight drops. -/
theorem stepG_dead {F : RunIdFacts} (hF : Sound F) (σ : St) (g : G) (hdone : σ.done = true)
    (hlist : σ.runList = [] ∨ F.execChecksCancel = true) (h : DeadG F σ.id g) :
    DeadG F σ.id (stepG F σ g).1 ∧
    (stepG F σ g).1.armed = false ∧
    (pot (stepG F σ g).1 ≤ pot g ∧ tpot (stepG F σ g).1 ≤ tpot g) ∧
    (∀ s ∈ (stepG F σ g).2.1, DeadG F σ.id s ∧ pot s = 0 ∧ tpot s = 0) ∧
    ((stepG F σ g).2.2 = [] ∨ (stepG F σ g).2.2 = σ.runList) ∧
    (stepG F σ g).1.weight + sumWeights (stepG F σ g).2.1 ≤ g.weight ∧
    (0 < g.weight → (stepG F σ g).1.weight + sumWeights (stepG F σ g).2.1 < g.weight) := by
  obtain ⟨hst, hca, hwf⟩ := h
  obtain ⟨stack, armed, blocked, ops, ticks, main⟩ := g
  cases blocked with
  | some kc =>
    obtain ⟨k, rel⟩ := kc
    have harm : armed = false := by simpa using hwf
    subst harm
    have hrel : rel = true := by
      simp only [G.canc, Bool.and_eq_true] at hca; exact hca.2
    subst hrel
    have hall : stack.all (fun fr => fr.pc.canc F && fr.cur) = true := by
      simp only [G.canc, Bool.and_eq_true] at hca; exact hca.1
    simp only [stepG, wake, hdone, Bool.and_self, if_true]
    refine ⟨⟨?_, ?_, by simp⟩, (by first | rfl | trivial), by simp [pot, tpot], by simp, (by first | exact Or.inr rfl | exact Or.inr trivial | trivial), ?_, ?_⟩
    · intro fr hfr; exact hst fr (List.mem_of_mem_tail hfr)
    · simp only [G.canc, Bool.and_true]
      cases stack with
      | nil => rfl
      | cons a t => simp only [List.tail_cons]; simp only [List.all_cons, Bool.and_eq_true] at hall; exact hall.2
    · simp only [G.weight, sumWeights]
      cases stack <;> simp <;> omega
    · intro _
      simp only [G.weight, sumWeights]
      cases stack <;> simp <;> omega
  | none =>
    cases armed with
    | true =>
      cases stack with
      | nil =>
        simp only [stepG, execOp]
        refine ⟨⟨by simp, by simp [G.canc], by simp⟩, (by first | rfl | trivial), by simp [pot, tpot], by simp, (by first | exact Or.inr rfl | exact Or.inr trivial | trivial), ?_, ?_⟩
        · simp [G.weight, sumWeights]
        · intro _; simp [G.weight, sumWeights]
      | cons fr rest =>
        obtain ⟨fid, pc, fcur⟩ := fr
        have hfid : fid < σ.id := hst ⟨fid, pc, fcur⟩ (by simp)
        have hrest : ∀ x ∈ rest, x.id < σ.id := fun x hx => hst x (by simp [hx])
        have hall : ((pc.canc F && fcur) && rest.all (fun fr => fr.pc.canc F && fr.cur)) = true := by
          simpa [G.canc] using hca
        simp only [Bool.and_eq_true] at hall
        obtain ⟨⟨hpc, hfc⟩, hrc⟩ := hall
        subst hfc
        cases pc with
        | done =>
          simp only [stepG, execOp]
          refine ⟨⟨by simpa using hst, by simpa [G.canc] using hca, by simp⟩, (by first | rfl | trivial), by simp [pot, tpot], by simp, (by first | exact Or.inr rfl | exact Or.inr trivial | trivial), ?_, ?_⟩
          · simp [G.weight, sumWeights]
          · intro _; simp [G.weight, sumWeights]
        | step p =>
          simp only [stepG, execOp]
          simp only [Prog.canc] at hpc
          refine ⟨⟨?_, by simp [G.canc, hpc, hrc], by simp⟩, (by first | rfl | trivial), by simp [pot, tpot], by simp, (by first | exact Or.inr rfl | exact Or.inr trivial | trivial), ?_, ?_⟩
          · intro x hx; simp at hx; rcases hx with rfl | hx; exact hfid; exact hrest x hx
          · simp [G.weight, sumWeights]
          · intro _; simp [G.weight, sumWeights]
        | tick p =>
          simp only [stepG, execOp]
          simp only [Prog.canc] at hpc
          refine ⟨⟨?_, by simp [G.canc, hpc, hrc], by simp⟩, (by first | rfl | trivial), by simp [pot, tpot], by simp, (by first | exact Or.inr rfl | exact Or.inr trivial | trivial), ?_, ?_⟩
          · intro x hx; simp at hx; rcases hx with rfl | hx; exact hfid; exact hrest x hx
          · simp [G.weight, sumWeights]
          · intro _; simp [G.weight, sumWeights]
        | mkclosure p =>
          simp only [stepG, execOp]
          simp only [Prog.canc] at hpc
          refine ⟨⟨?_, by simp [G.canc, hpc, hrc], by simp⟩, (by first | rfl | trivial), by simp [pot, tpot], by simp, (by first | exact Or.inr rfl | exact Or.inr trivial | trivial), ?_, ?_⟩
          · intro x hx; simp at hx; rcases hx with rfl | hx; exact hfid; exact hrest x hx
          · simp [G.weight, sumWeights]
          · intro _; simp [G.weight, sumWeights]
        | call s body p =>
          simp only [stepG, execOp]
          simp only [Prog.canc, Bool.and_eq_true] at hpc
          refine ⟨⟨?_, by simp [G.canc, hpc.1.1, hpc.1.2, hpc.2, hrc], by simp⟩, (by first | rfl | trivial), by simp [pot, tpot], by simp, (by first | exact Or.inr rfl | exact Or.inr trivial | trivial), ?_, ?_⟩
          · intro x hx; simp at hx
            rcases hx with rfl | rfl | hx
            · simpa [hF.site, newId] using hfid
            · exact hfid
            · exact hrest x hx
          · simp [G.weight, sumWeights] <;> omega
          · intro _; simp [G.weight, sumWeights]
        | spawn ss body p =>
          simp only [stepG, execOp]
          simp only [Prog.canc, Bool.and_eq_true] at hpc
          refine ⟨⟨?_, by simp [G.canc, hpc.2, hrc], by simp⟩, (by first | rfl | trivial), by simp [pot, tpot], ?_, (by first | exact Or.inr rfl | exact Or.inr trivial | trivial), ?_, ?_⟩
          · intro x hx; simp at hx; rcases hx with rfl | hx; exact hfid; exact hrest x hx
          · intro s hs
            simp at hs
            subst hs
            refine ⟨⟨?_, by simp [newG, G.canc, hpc.1.1, hpc.1.2], by simp [newG]⟩, by simp [newG, pot, tpot]⟩
            intro x hx
            simp [newG] at hx
            subst hx
            simpa [hF.site, newId] using hfid
          · simp [G.weight, sumWeights, newG] <;> omega
          · intro _; simp [G.weight, sumWeights, newG]
        | block k c p =>
          simp only [stepG, execOp]
          simp only [Prog.canc, Bool.and_eq_true] at hpc
          refine ⟨⟨?_, by simp [G.canc, hpc.1, hpc.2, hrc], by simp⟩, (by first | rfl | trivial), by simp [pot, tpot], by simp, (by first | exact Or.inr rfl | exact Or.inr trivial | trivial), ?_, ?_⟩
          · intro x hx; simp at hx; rcases hx with rfl | hx; exact hfid; exact hrest x hx
          · simp [G.weight, sumWeights] <;> omega
          · intro _; simp [G.weight, sumWeights]
    | false =>
      cases stack with
      | nil =>
        cases main with
        | false =>
          simp only [stepG, advance]
          exact ⟨⟨by simp, by simp [G.canc], by simp⟩, rfl, by simp [pot, tpot], by simp, (by first | exact Or.inr rfl | exact Or.inr trivial | trivial),
            by simp [G.weight, sumWeights], by simp [G.weight]⟩
        | true =>
          cases hl : σ.runList with
          | nil =>
            simp only [stepG, advance, hl]
            exact ⟨⟨by simp, by simp [G.canc], by simp⟩, rfl, by simp [pot, tpot], by simp, (by first | exact Or.inl rfl | exact Or.inl trivial | trivial),
              by simp [G.weight, sumWeights], by simp [G.weight]⟩
          | cons e es =>
            have hx : F.execChecksCancel = true := by
              rcases hlist with h | h
              · rw [hl] at h; cases h
              · exact h
            simp only [stepG, advance, hl, hx, hdone, Bool.and_self, if_true]
            exact ⟨⟨by simp, by simp [G.canc], by simp⟩, rfl, by simp [pot, tpot], by simp, (by first | exact Or.inl rfl | exact Or.inl trivial | trivial),
              by simp [G.weight, sumWeights], by simp [G.weight]⟩
      | cons fr rest =>
        obtain ⟨fid, pc, fcur⟩ := fr
        have hfid : fid < σ.id := hst ⟨fid, pc, fcur⟩ (by simp)
        have hrest : ∀ x ∈ rest, x.id < σ.id := fun x hx => hst x (by simp [hx])
        have hall : ((pc.canc F && fcur) && rest.all (fun fr => fr.pc.canc F && fr.cur)) = true := by
          simpa [G.canc] using hca
        simp only [Bool.and_eq_true] at hall
        have hg := guard_stale hF hfid
        have key : (advance F σ { stack := ⟨fid, pc, fcur⟩ :: rest, armed := false, blocked := none, ops := ops, ticks := ticks, main := main }) =
            ({ stack := rest, armed := false, blocked := none, ops := ops, ticks := ticks, main := main }, σ.runList) := by
          cases pc <;> simp [advance, hg]
        simp only [stepG, key]
        refine ⟨⟨hrest, by simp [G.canc, hall.2], by simp⟩, rfl, by simp [pot, tpot], by simp, (by first | exact Or.inr rfl | exact Or.inr trivial | trivial), ?_, ?_⟩
        · simp [G.weight, sumWeights]
        · intro _; simp [G.weight, sumWeights]

/-! ### the whole state -/

/-- the state after a cancellation inside the domain: `done` is closed, every frame is stale, every blocking
    operation races `done`, and `Execute` will not start another entry -/
structure Dead (F : RunIdFacts) (σ : St) : Prop where
  done : σ.done = true
  list : σ.runList = [] ∨ F.execChecksCancel = true
  gs : ∀ g ∈ σ.gs, DeadG F σ.id g

def potAt (σ : St) (i : Nat) : Nat := match σ.gs[i]? with | some g => pot g | none => 0
def tpotAt (σ : St) (i : Nat) : Nat := match σ.gs[i]? with | some g => tpot g | none => 0

theorem sumWeights_append (a b : List G) : sumWeights (a ++ b) = sumWeights a + sumWeights b := by
  induction a with
  | nil => simp [sumWeights]
  | cons x xs ih => simp [sumWeights, ih]; omega

theorem sumWeights_set (l : List G) (i : Nat) (g g' : G) (h : l[i]? = some g) :
    sumWeights (l.set i g') + g.weight = sumWeights l + g'.weight := by
  induction l generalizing i with
  | nil => simp at h
  | cons x xs ih =>
    cases i with
    | zero => simp at h; subst h; simp [sumWeights]; omega
    | succ n =>
      simp at h
      have := ih n h
      simp [sumWeights]; omega

theorem markReturn_gs (m f : Bool) (σ : St) : (markReturn m f σ).gs = σ.gs ∧ (markReturn m f σ).id = σ.id ∧
    (markReturn m f σ).done = σ.done ∧ (markReturn m f σ).runList = σ.runList := by
  unfold markReturn; split <;> simp

theorem dead_stepRun {F : RunIdFacts} (hF : Sound F) (σ : St) (i : Nat) (h : Dead F σ) : Dead F (stepRun F σ i) := by
  unfold stepRun
  cases hg : σ.gs[i]? with
  | none => exact h
  | some g =>
    have hd := stepG_dead hF σ g h.done h.list (h.gs g (List.mem_of_getElem? hg))
    obtain ⟨m1, m2, m3, m4⟩ := markReturn_gs g.main (finished (stepG F σ g).1 && (stepG F σ g).2.2.isEmpty)
      { σ with gs := σ.gs.set i (stepG F σ g).1 ++ (stepG F σ g).2.1, runList := (stepG F σ g).2.2 }
    refine ⟨by rw [m3]; exact h.done, ?_, ?_⟩
    · rw [m4]
      rcases hd.2.2.2.2.1 with h1 | h1
      · exact Or.inl h1
      · show (stepG F σ g).2.2 = [] ∨ _
        rw [h1]; exact h.list
    · rw [m1, m2]
      intro x hx
      rcases mem_set_append hx with hx | hx | hx
      · exact h.gs x hx
      · subst hx; exact hd.1
      · exact (hd.2.2.2.1 x hx).1

theorem dead_stepComm {F : RunIdFacts} (σ : St) (i : Nat) (h : Dead F σ) : Dead F (stepComm σ i) := by
  unfold stepComm
  split
  · exact h
  · rename_i g hg
    split
    · exact h
    · refine ⟨h.done, h.list, ?_⟩
      intro x hx
      rcases List.mem_or_eq_of_mem_set hx with hx | hx
      · exact h.gs x hx
      · subst hx
        have hd := h.gs g (List.mem_of_getElem? hg)
        refine ⟨hd.stale, ?_, by simp⟩
        have := hd.canc
        simp only [G.canc, Bool.and_eq_true] at this ⊢
        exact ⟨this.1, trivial⟩

theorem dead_stepStop {F : RunIdFacts} (σ : St) (h : Dead F σ) : Dead F (stepStop F σ) := by
  unfold stepStop
  split
  · refine ⟨by simp [h.done], h.list, ?_⟩
    intro g hg
    have hd := h.gs g hg
    refine ⟨?_, hd.canc, hd.wf⟩
    intro fr hfr
    have := hd.stale fr hfr
    show fr.id < (if (F.watcherStops && F.stopBumps) = true then σ.id + 1 else σ.id)
    split <;> omega
  · exact h

theorem dead_step {F : RunIdFacts} (hF : Sound F) (σ : St) (c : Choice) (h : Dead F σ) : Dead F (stepC F σ c) := by
  cases c with
  | run i => exact dead_stepRun hF σ i h
  | comm i => exact dead_stepComm σ i h
  | stop => exact dead_stepStop σ h

theorem dead_runSched {F : RunIdFacts} (hF : Sound F) (cs : List Choice) (σ : St) (h : Dead F σ) :
    Dead F (runSched F σ cs) := by
  induction cs generalizing σ with
  | nil => exact h
  | cons c cs ih => exact ih _ (dead_step hF σ c h)

/-- in a dead state no transition increases "operations executed + operation in flight" of any goroutine -/
theorem potAt_step {F : RunIdFacts} (hF : Sound F) (σ : St) (c : Choice) (h : Dead F σ) (j : Nat) :
    potAt (stepC F σ c) j ≤ potAt σ j := by
  cases c with
  | run i =>
    show potAt (stepRun F σ i) j ≤ potAt σ j
    unfold stepRun
    cases hg : σ.gs[i]? with
    | none => exact Nat.le_refl _
    | some g =>
      have hd := stepG_dead hF σ g h.done h.list (h.gs g (List.mem_of_getElem? hg))
      have m1 := (markReturn_gs g.main (finished (stepG F σ g).1 && (stepG F σ g).2.2.isEmpty)
        { σ with gs := σ.gs.set i (stepG F σ g).1 ++ (stepG F σ g).2.1, runList := (stepG F σ g).2.2 }).1
      simp only [potAt, m1]
      have hi : i < σ.gs.length := (List.getElem?_eq_some_iff.mp hg).1
      by_cases hj : j < σ.gs.length
      · rw [List.getElem?_append_left (by simpa using hj)]
        by_cases hij : i = j
        · subst hij
          have heq : σ.gs[i] = g := (List.getElem?_eq_some_iff.mp hg).2
          simp [hi, heq]
          exact hd.2.2.1.1
        · simp [hij]
      · have hj' : σ.gs.length ≤ j := Nat.le_of_not_lt hj
        rw [List.getElem?_append_right (by simpa using hj')]
        have hnone : σ.gs[j]? = none := List.getElem?_eq_none hj'
        rw [hnone]
        cases hs : (stepG F σ g).2.1[j - (σ.gs.set i (stepG F σ g).1).length]? with
        | none => simp
        | some s =>
          have := (hd.2.2.2.1 s (List.mem_of_getElem? hs)).2.1
          simp [this]
  | comm i =>
    show potAt (stepComm σ i) j ≤ potAt σ j
    unfold stepComm
    split
    · exact Nat.le_refl _
    · rename_i g hg
      split
      · exact Nat.le_refl _
      · simp only [potAt]
        have hi : i < σ.gs.length := (List.getElem?_eq_some_iff.mp hg).1
        by_cases hij : i = j
        · subst hij
          have heq : σ.gs[i] = g := (List.getElem?_eq_some_iff.mp hg).2
          simp [hi, heq, pot]
        · simp [hij]
  | stop =>
    show potAt (stepStop F σ) j ≤ potAt σ j
    unfold stepStop
    split <;> exact Nat.le_refl _

theorem potAt_runSched {F : RunIdFacts} (hF : Sound F) (cs : List Choice) (σ : St) (h : Dead F σ) (j : Nat) :
    potAt (runSched F σ cs) j ≤ potAt σ j := by
  induction cs generalizing σ with
  | nil => exact Nat.le_refl _
  | cons c cs ih => exact Nat.le_trans (ih _ (dead_step hF σ c h)) (potAt_step hF σ c h j)

/-- in a dead state no transition increases "host calls made + operation in flight" of any goroutine -/
theorem tpotAt_step {F : RunIdFacts} (hF : Sound F) (σ : St) (c : Choice) (h : Dead F σ) (j : Nat) :
    tpotAt (stepC F σ c) j ≤ tpotAt σ j := by
  cases c with
  | run i =>
    show tpotAt (stepRun F σ i) j ≤ tpotAt σ j
    unfold stepRun
    cases hg : σ.gs[i]? with
    | none => exact Nat.le_refl _
    | some g =>
      have hd := stepG_dead hF σ g h.done h.list (h.gs g (List.mem_of_getElem? hg))
      have m1 := (markReturn_gs g.main (finished (stepG F σ g).1 && (stepG F σ g).2.2.isEmpty)
        { σ with gs := σ.gs.set i (stepG F σ g).1 ++ (stepG F σ g).2.1, runList := (stepG F σ g).2.2 }).1
      simp only [tpotAt, m1]
      have hi : i < σ.gs.length := (List.getElem?_eq_some_iff.mp hg).1
      by_cases hj : j < σ.gs.length
      · rw [List.getElem?_append_left (by simpa using hj)]
        by_cases hij : i = j
        · subst hij
          have heq : σ.gs[i] = g := (List.getElem?_eq_some_iff.mp hg).2
          simp [hi, heq]
          exact hd.2.2.1.2
        · simp [hij]
      · have hj' : σ.gs.length ≤ j := Nat.le_of_not_lt hj
        rw [List.getElem?_append_right (by simpa using hj')]
        have hnone : σ.gs[j]? = none := List.getElem?_eq_none hj'
        rw [hnone]
        cases hs : (stepG F σ g).2.1[j - (σ.gs.set i (stepG F σ g).1).length]? with
        | none => simp
        | some s =>
          have := (hd.2.2.2.1 s (List.mem_of_getElem? hs)).2.2
          simp [this]
  | comm i =>
    show tpotAt (stepComm σ i) j ≤ tpotAt σ j
    unfold stepComm
    split
    · exact Nat.le_refl _
    · rename_i g hg
      split
      · exact Nat.le_refl _
      · simp only [tpotAt]
        have hi : i < σ.gs.length := (List.getElem?_eq_some_iff.mp hg).1
        by_cases hij : i = j
        · subst hij
          have heq : σ.gs[i] = g := (List.getElem?_eq_some_iff.mp hg).2
          simp [hi, heq, tpot]
        · simp [hij]
  | stop =>
    show tpotAt (stepStop F σ) j ≤ tpotAt σ j
    unfold stepStop
    split <;> exact Nat.le_refl _

theorem tpotAt_runSched {F : RunIdFacts} (hF : Sound F) (cs : List Choice) (σ : St) (h : Dead F σ) (j : Nat) :
    tpotAt (runSched F σ cs) j ≤ tpotAt σ j := by
  induction cs generalizing σ with
  | nil => exact Nat.le_refl _
  | cons c cs ih => exact Nat.le_trans (ih _ (dead_step hF σ c h)) (tpotAt_step hF σ c h j)

/-! ### termination -/

theorem weight_stepRun {F : RunIdFacts} (hF : Sound F) (σ : St) (i : Nat) (g : G) (h : Dead F σ) (hg : σ.gs[i]? = some g) :
    (stepRun F σ i).weight ≤ σ.weight ∧ (0 < g.weight → (stepRun F σ i).weight < σ.weight) := by
  have hd := stepG_dead hF σ g h.done h.list (h.gs g (List.mem_of_getElem? hg))
  have m1 := (markReturn_gs g.main (finished (stepG F σ g).1 && (stepG F σ g).2.2.isEmpty)
    { σ with gs := σ.gs.set i (stepG F σ g).1 ++ (stepG F σ g).2.1, runList := (stepG F σ g).2.2 }).1
  have hs := sumWeights_set σ.gs i g (stepG F σ g).1 hg
  have e : (stepRun F σ i).weight = sumWeights (σ.gs.set i (stepG F σ g).1) + sumWeights (stepG F σ g).2.1 := by
    unfold stepRun; simp only [hg, St.weight, m1]; exact sumWeights_append _ _
  have h6 := hd.2.2.2.2.2.1
  have h7 := hd.2.2.2.2.2.2
  refine ⟨?_, fun hpos => ?_⟩
  · rw [e]; simp only [St.weight]; omega
  · have := h7 hpos
    rw [e]; simp only [St.weight]; omega

theorem firstActive_spec (gs : List G) (k : Nat) :
    (firstActive gs k = none → sumWeights gs = 0) ∧
    (∀ i, firstActive gs k = some i → k ≤ i ∧ ∃ g, gs[i - k]? = some g ∧ 0 < g.weight) := by
  induction gs generalizing k with
  | nil => simp [firstActive, sumWeights]
  | cons g rest ih =>
    by_cases hw : g.weight > 0
    · simp [firstActive, hw]
    · have h0 : g.weight = 0 := by omega
      have := ih (k + 1)
      refine ⟨?_, ?_⟩
      · intro hn
        simp [firstActive, hw] at hn
        simp [sumWeights, h0, this.1 hn]
      · intro i hi
        simp [firstActive, hw] at hi
        obtain ⟨hle, g', hg', hpos⟩ := this.2 i hi
        refine ⟨by omega, g', ?_, hpos⟩
        have : i - k = (i - (k + 1)) + 1 := by omega
        rw [this]; simpa using hg'

/-- **Everything terminates**: from a dead state, running the goroutines that can still move reaches, within
    `weight` transitions, a state in which every goroutine has an empty stack, is not armed and not blocked. -/
theorem drain_terminates {F : RunIdFacts} (hF : Sound F) (fuel : Nat) (σ : St) (h : Dead F σ) (hw : σ.weight ≤ fuel) :
    (drain F σ fuel).weight = 0 ∧ Dead F (drain F σ fuel) := by
  induction fuel generalizing σ with
  | zero => exact ⟨by simp only [drain]; omega, h⟩
  | succ n ih =>
    simp only [drain]
    cases hf : firstActive σ.gs 0 with
    | none => exact ⟨(firstActive_spec σ.gs 0).1 hf, h⟩
    | some i =>
      obtain ⟨_, g, hg, hpos⟩ := (firstActive_spec σ.gs 0).2 i hf
      simp only [Nat.sub_zero] at hg
      have hlt := (weight_stepRun hF σ i g h hg).2 hpos
      exact ih (stepC F σ (.run i)) (dead_step hF σ (.run i) h) (by show (stepRun F σ i).weight ≤ n; omega)

end YaegiVerif.Proofs.C09
