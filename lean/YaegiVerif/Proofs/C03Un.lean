import YaegiVerif.Proofs.C03Bin
/- C03: unary operators and conversions of the integer fragment, both directions -/
namespace YaegiVerif.Proofs.C03
open YaegiVerif YaegiVerif.Const

def isUnArith (a : Act) : Bool := a == .pos || a == .neg || a == .bitNot

theorem repr_inot_signed (k : IKind) (hk : k.signed = true) (v : Int) (h : Spec.reprGo k v = true) :
    Spec.reprGo k (inot v) = true := by
  rw [reprGo_iff] at h ⊢
  cases k <;> simp only [IKind.signed] at hk <;>
    simp only [inot, IKind.minVal, IKind.maxVal, IKind.signed, IKind.bits, if_true, Bool.false_eq_true] at h ⊢ <;>
    first | omega | exact absurd hk (by decide)

theorem wrapK_inot_unsigned (k : IKind) (hk : k.signed = false) (v : Int) (h : Spec.reprGo k v = true) :
    wrapK k (inot v) = (2 ^ k.bits : Int) - 1 - v := by
  rw [reprGo_iff] at h
  cases k <;> simp only [IKind.signed] at hk <;>
    simp only [IKind.minVal, IKind.maxVal, IKind.signed, IKind.bits, if_false, Bool.false_eq_true] at h <;>
    simp only [wrapK, inot, IKind.signed, IKind.bits, Bool.false_and, Bool.false_eq_true, if_false] <;>
    first | omega | exact absurd hk (by decide)

/-- the complement of an unsigned value within its width (`constant.UnaryOp(token.XOR, x, size)`) -/
theorem inot_mod_unsigned (k : IKind) (hk : k.signed = false) (v : Int) (h : Spec.reprGo k v = true) :
    (inot v) % (2 ^ k.bits : Int) = (2 ^ k.bits : Int) - 1 - v := by
  rw [reprGo_iff] at h
  cases k <;> simp only [IKind.signed] at hk <;>
    simp only [IKind.minVal, IKind.maxVal, IKind.signed, IKind.bits, if_false, Bool.false_eq_true] at h <;>
    simp only [inot, IKind.bits] <;>
    first | omega | exact absurd hk (by decide)

theorem repr_compl_unsigned (k : IKind) (hk : k.signed = false) (v : Int) (h : Spec.reprGo k v = true) :
    Spec.reprGo k ((2 ^ k.bits : Int) - 1 - v) = true := by
  rw [reprGo_iff] at h ⊢
  cases k <;> simp only [IKind.signed] at hk <;>
    simp only [IKind.minVal, IKind.maxVal, IKind.signed, IKind.bits, if_false, Bool.false_eq_true] at h ⊢ <;>
    first | omega | exact absurd hk (by decide)

def uop (a : Act) (p : Int) : Int :=
  match a with
  | .neg => -p | .pos => p | .bitNot => inot p | _ => 0

/-- the exact result of a unary operator on a constant of integer type `k` -/
def uopK (k : IKind) (a : Act) (p : Int) : Int :=
  if a == .bitNot && !k.signed then (2 ^ k.bits : Int) - 1 - p else uop a p

theorem unNodeY_untyped (a : Act) (ha : isUnArith a = true) (c0 : NS) (u : UK) (hu : u = .int ∨ u = .rune) (p : Int)
    (hty : c0.ty = .u u) (hrv : c0.rv = .c (.int p)) :
    unNodeY F0 a c0 =
      if bitLen (uop a p) > 512 then .reject
      else .ok { rv := .c (.int (uop a p)), ty := .u u, inner := c0.loose } := by
  have hce := constExprY_cc a true c0 c0 (by simp [hrv, isConstRV]) (by simp [hrv, isConstRV])
  have hfold : foldUnY F0 a (.u u) (.c (.int p)) = .ok (.c (.int (uop a p))) := by
    cases a <;> simp [isUnArith] at ha <;>
      simp [foldUnY, F0, Expected.C03.facts, Expected.C03.evalFacts, EvalFacts.foldOf, Expected.C03.constOp,
        Expected.C03.folds, cUnary, uop]
  have hpred : unaryPredY a (.u u) = true := by
    rcases hu with rfl | rfl <;> cases a <;> simp [isUnArith] at ha <;> rfl
  simp only [unNodeY, hty, hpred, Bool.not_true, Bool.false_eq_true, if_false, F0_chk, Expected.C03.checkFacts, if_true,
    hce, bind_ok, hrv, hfold, constOverflowY_c]
  split <;> simp [isSetRV]

theorem constExprY_un_typed (a : Act) (ha : isUnArith a = true) (c0 : NS) (k : IKind) (p : Int)
    (hty : c0.ty = .t (.i k)) (hrv : c0.rv = .r (.i k) (.int p)) (hp : Spec.reprGo k p = true) :
    constExprY F0 a true c0 c0 = if Spec.reprGo k (uopK k a p) = true then .ok () else .reject := by
  have hrep : ∀ r : Int, representableY F0 (.int r) (.i k) = Spec.reprGo k r := by
    intro r; simp only [representableY, CV.toInt]; exact reprY_eq_reprGo k r
  have htok : F0.eval.tokOf a = (match a with | .neg => Tok.sub | .pos => Tok.add | .bitNot => Tok.xor | _ => Tok.other) := by
    cases a <;> simp [isUnArith] at ha <;> rfl
  have hbits : k.bits ≠ 0 := by cases k <;> simp [IKind.bits]
  have hmod : k.signed = false → (inot p) % (2 ^ k.bits : Int) = (2 ^ k.bits : Int) - 1 - p :=
    fun hs => inot_mod_unsigned k hs p hp
  cases hs : k.signed <;> cases a <;> simp [isUnArith] at ha <;>
    simp [constExprY, isCmpAct, isShiftAct, hrv, hty, isConstRV, Ty.rtype, BT.isInt, constValueY, CV.toInt, CV.isIntKind,
      htok, hs, cUnaryP, cUnary, hrep, uopK, uop, hbits, hmod] <;>
    (try (split <;> simp_all))

theorem unNodeY_typed (a : Act) (ha : isUnArith a = true) (c0 : NS) (k : IKind) (p : Int)
    (hty : c0.ty = .t (.i k)) (hrv : c0.rv = .r (.i k) (.int p)) (hp : Spec.reprGo k p = true) :
    unNodeY F0 a c0 =
      if Spec.reprGo k (uopK k a p) = true then
        .ok { rv := .r (.i k) (.int (uopK k a p)), ty := .t (.i k), inner := c0.loose, set := true }
      else .reject := by
  have hce := constExprY_un_typed a ha c0 k p hty hrv hp
  have hpred : unaryPredY a (.t (.i k)) = true := by
    cases a <;> simp [isUnArith] at ha <;> rfl
  have hfold : foldUnY F0 a (.t (.i k)) (.r (.i k) (.int p)) = .ok (.r (.i k) (.int (wrapK k (uop a p)))) := by
    cases hs : k.signed <;> cases a <;> simp [isUnArith] at ha <;>
      simp [foldUnY, F0, Expected.C03.facts, Expected.C03.evalFacts, EvalFacts.foldOf, Expected.C03.constOp,
        Expected.C03.folds, armOf, Ty.rtype, BT.isInt, BT.isUint, BT.isFloat, hs, uop]
  simp only [unNodeY, hty, hpred, Bool.not_true, Bool.false_eq_true, if_false, F0_chk, Expected.C03.checkFacts, if_true,
    hce, hrv, hfold]
  by_cases hr : Spec.reprGo k (uopK k a p) = true
  · simp only [if_pos hr, bind_ok]
    have hw : wrapK k (uop a p) = uopK k a p := by
      by_cases hb : (a == Act.bitNot && !k.signed) = true
      · simp only [Bool.and_eq_true, beq_iff_eq, Bool.not_eq_true'] at hb
        obtain ⟨rfl, hs⟩ := hb
        simp only [uopK, hs, uop, beq_self_eq_true, Bool.not_false, Bool.and_true, if_true]
        exact wrapK_inot_unsigned k hs p hp
      · have : uopK k a p = uop a p := by simp only [uopK, hb]; simp
        rw [this] at hr ⊢
        exact wrapK_of_repr k _ hr
    rw [hw, constOverflowY_r k _ hr]
    simp [isSetRV]
  · simp only [if_neg hr, bind_reject]

/-- the specification's unary operator on an integer constant of type `k` -/
theorem unaryGo_typed (a : Act) (ha : isUnArith a = true) (k : IKind) (p : Int) (hp : Spec.reprGo k p = true) :
    Spec.unaryGo a ⟨.int p, .t (.i k)⟩ =
      if Spec.reprGo k (uopK k a p) = true then .ok ⟨.int (uopK k a p), .t (.i k)⟩ else .reject := by
  cases a <;> simp [isUnArith] at ha
  · -- neg
    simp only [Spec.unaryGo, Spec.isIntTy, if_true, finish_typed_int_eq, uopK, uop]
    simp
  · -- pos
    simp only [Spec.unaryGo, Spec.isNumTy, Spec.isIntTy, Bool.true_or, if_true, finish_typed_int_eq, uopK, uop]
    simp
  · -- bitNot
    cases hs : k.signed
    · have hr := repr_compl_unsigned k hs p hp
      simp [Spec.unaryGo, hs, uopK, hr]
    · have hr := repr_inot_signed k hs p hp
      simp [Spec.unaryGo, hs, uopK, uop, hr]

/-- **unary node** (`+`, `-`, `^`), both directions -/
theorem unNode_rel (a : Act) (ha : isUnArith a = true) (c0 : NS) (g0 : Spec.GV) (i0 : Inv c0 g0) :
    Rel (unNodeY F0 a c0) (Spec.unaryGo a g0) := by
  rcases i0.shape with ⟨ka, p, hka, rfl, h0ty, h0rv⟩ | ⟨k, p, rfl, h0ty, h0rv, hp⟩
  · rw [unNodeY_untyped a ha c0 ka hka p h0ty h0rv]
    have hgo : Spec.unaryGo a ⟨.int p, .u ka⟩ = Spec.finish (.int (uop a p)) (.u ka) := by
      rcases hka with rfl | rfl <;> cases a <;> simp [isUnArith] at ha <;>
        simp [Spec.unaryGo, Spec.isNumTy, Spec.isIntTy, uop]
    rw [hgo, finish_untyped_int_eq _ _ hka]
    by_cases hb : bitLen (uop a p) > 512
    · rw [if_pos hb, if_pos (by simpa [Spec.maxUntypedBits] using hb)]; exact .rej
    · rw [if_neg hb, if_neg (by simpa [Spec.maxUntypedBits] using hb)]
      exact .ok _ _ (Inv.of_untyped _ _ _ hka rfl rfl)
  · rw [unNodeY_typed a ha c0 k p h0ty h0rv hp, unaryGo_typed a ha k p hp]
    by_cases hr : Spec.reprGo k (uopK k a p) = true
    · rw [if_pos hr, if_pos hr]; exact .ok _ _ (Inv.of_typed _ _ _ rfl rfl hr)
    · rw [if_neg hr, if_neg hr]; exact .rej

/-- **conversion node** `T(x)` to an integer type, both directions: the converted constant when the value is
    representable in `T` — for an untyped operand through `convertUntyped`, for a typed one through the check that
    e6c1f4a added — a compile error otherwise -/
theorem convNode_rel (k : IKind) (c1 : NS) (g1 : Spec.GV) (i1 : Inv c1 g1) :
    Rel (convNodeY F0 (.i k) c1) (Spec.convGo (.i k) g1) := by
  rcases i1.shape with ⟨ka, p, hka, rfl, h1ty, h1rv⟩ | ⟨k', p, rfl, h1ty, h1rv, hp⟩
  · -- untyped constant
    have hnum : Spec.isNumTy (.u ka) = true := by rcases hka with rfl | rfl <;> rfl
    simp only [Spec.convGo, hnum, if_true, Spec.representGo, CV.toInt]
    by_cases hr : Spec.reprGo k p = true
    · simp only [hr, if_true]
      have hcv := convertUntypedY_int c1 ka hka p k h1ty h1rv hr
      have hrep := representableY_int k p hr
      have hn : convNodeY F0 (.i k) c1 = .ok { rv := .r (.i k) (.int p), ty := .t (.i k), inner := c1.inner } := by
        simp [convNodeY, h1rv, hrep, h1ty, Ty.untyped, hcv, reflectConvert, wrapK_of_repr k p hr, NS.loose]
      rw [hn]
      exact .ok _ _ (Inv.of_typed _ _ _ rfl rfl hr)
    · have hr' : Spec.reprGo k p = false := by simpa using hr
      have hrep : representableY F0 (.int p) (.i k) = false := by
        simp only [representableY, CV.toInt]
        show reprY Expected.C03.reprFacts k p = false
        rw [reprY_eq_reprGo]; exact hr'
      have hint : (Ty.u ka).isInt = true := by rcases hka with rfl | rfl <;> rfl
      refine Rel.of_rej ?_ (by simp [hr'])
      simp [convNodeY, h1rv, hrep, h1ty]
  · -- typed operand
    simp only [Spec.convGo, Spec.isNumTy, Spec.isIntTy, Bool.true_or, if_true, Spec.representGo, CV.toInt]
    have hrep : representableY F0 (.int p) (.i k) = Spec.reprGo k p := by
      simp only [representableY, CV.toInt]; exact reprY_eq_reprGo k p
    by_cases hr : Spec.reprGo k p = true
    · simp only [hr, if_true]
      have hn : convNodeY F0 (.i k) c1 = .ok { rv := .r (.i k) (.int p), ty := .t (.i k), inner := c1.loose } := by
        simp [convNodeY, h1rv, h1ty, Ty.rtype, convertibleY, Ty.untyped, reflectConvert, wrapK_of_repr k p hr,
          Expected.C03.checkFacts, BT.isInt, hrep, hr]
      rw [hn]
      exact .ok _ _ (Inv.of_typed _ _ _ rfl rfl hr)
    · have hr' : Spec.reprGo k p = false := by simpa using hr
      refine Rel.of_rej ?_ (by simp [hr'])
      simp [convNodeY, h1rv, Expected.C03.checkFacts, BT.isInt, hrep, hr']

end YaegiVerif.Proofs.C03
