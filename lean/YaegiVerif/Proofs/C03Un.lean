import YaegiVerif.Proofs.C03Bin
/- C03: unary operators, conversions and shifts of the integer fragment -/
namespace YaegiVerif.Proofs.C03
open YaegiVerif YaegiVerif.Const

def isUnArith (a : Act) : Bool := a == .pos || a == .neg || a == .bitNot

theorem repr_inot_signed (k : IKind) (hk : k.signed = true) (v : Int) (h : Spec.reprGo k v = true) :
    Spec.reprGo k (inot v) = true := by
  rw [reprGo_iff] at h ⊢
  cases k <;> simp only [IKind.signed] at hk <;>
    simp only [inot, IKind.minVal, IKind.maxVal, IKind.signed, IKind.bits, if_true, Bool.false_eq_true] at h ⊢ <;>
    first | omega | exact absurd hk (by decide)

theorem wrapK_inot_unsigned (k : IKind) (hk : k.signed = false) (v : Int) (h : Spec.reprGo k v = true) :
    wrapK k (inot v) = (2 ^ k.bits : Int) - 1 - v := by
  rw [reprGo_iff] at h
  cases k <;> simp only [IKind.signed] at hk <;>
    simp only [IKind.minVal, IKind.maxVal, IKind.signed, IKind.bits, if_false, Bool.false_eq_true] at h <;>
    simp only [wrapK, inot, IKind.signed, IKind.bits, Bool.false_and, Bool.false_eq_true, if_false] <;>
    first | omega | exact absurd hk (by decide)

def uop (a : Act) (p : Int) : Int :=
  match a with
  | .neg => -p | .pos => p | .bitNot => inot p | _ => 0

theorem unNodeY_untyped (a : Act) (ha : isUnArith a = true) (c0 : NS) (u : UK) (hu : u = .int ∨ u = .rune) (p : Int)
    (hty : c0.ty = .u u) (hrv : c0.rv = .c (.int p)) :
    unNodeY F0 a c0 = .ok { rv := .c (.int (uop a p)), ty := .u u, inner := c0.loose } := by
  obtain ⟨rv0, ty0, s0, i0', f0⟩ := c0
  simp only at hty hrv
  subst hty hrv
  rcases hu with rfl | rfl <;> cases a <;> simp [isUnArith] at ha <;>
    simp [unNodeY, unaryPredY, Ty.isNumber, Ty.isInt, Ty.rtype, BT.isInt, foldUnY, F0, Expected.C03.facts,
      Expected.C03.evalFacts, EvalFacts.foldOf, Expected.C03.constOp, Expected.C03.folds, cUnary, uop]

theorem unNodeY_typed (a : Act) (ha : isUnArith a = true) (c0 : NS) (k : IKind) (p : Int)
    (hty : c0.ty = .t (.i k)) (hrv : c0.rv = .r (.i k) (.int p)) :
    unNodeY F0 a c0 = .ok { rv := .r (.i k) (.int (wrapK k (uop a p))), ty := .t (.i k), inner := c0.loose } := by
  obtain ⟨rv0, ty0, s0, i0', f0⟩ := c0
  simp only at hty hrv
  subst hty hrv
  cases hs : k.signed <;> cases a <;> simp [isUnArith] at ha <;>
    simp [unNodeY, unaryPredY, Ty.isNumber, Ty.isInt, Ty.rtype, BT.isInt, BT.isUint, BT.isFloat, foldUnY, F0,
      Expected.C03.facts, Expected.C03.evalFacts, EvalFacts.foldOf, Expected.C03.constOp, Expected.C03.folds, armOf, hs, uop]

/-- **unary node** (`+`, `-`, `^`) -/
theorem unNode_correct (a : Act) (ha : isUnArith a = true) (c0 : NS) (g0 gv : Spec.GV) (i0 : Inv c0 g0)
    (hgo : Spec.unaryGo a g0 = .ok gv) :
    ∃ n, unNodeY F0 a c0 = .ok n ∧ Inv n gv := by
  rcases i0.shape with ⟨ka, p, hka, rfl, h0ty, h0rv⟩ | ⟨k, p, rfl, h0ty, h0rv, hp⟩
  · -- untyped
    refine ⟨_, unNodeY_untyped a ha c0 ka hka p h0ty h0rv, ?_⟩
    rcases hka with rfl | rfl <;> cases a <;> simp [isUnArith] at ha
    all_goals
      simp only [Spec.unaryGo, Spec.isNumTy, Spec.isIntTy, Bool.true_or, if_true] at hgo
    all_goals first
      | (injection hgo with hgo; subst hgo; exact Inv.of_untyped _ _ _ (by simp) rfl rfl)
      | (have hgv := finish_untyped_int _ _ (by simp) gv hgo
         subst hgv; exact Inv.of_untyped _ _ _ (by simp) rfl rfl)
  · -- typed
    refine ⟨_, unNodeY_typed a ha c0 k p h0ty h0rv, ?_⟩
    cases a <;> simp [isUnArith] at ha
    · -- neg
      simp only [Spec.unaryGo, Spec.isIntTy, if_true] at hgo
      obtain ⟨hgv, hr⟩ := finish_typed_int _ _ gv hgo
      subst hgv
      exact Inv.of_typed _ _ _ rfl (by simp [uop, wrapK_of_repr k _ hr]) hr
    · -- pos
      simp only [Spec.unaryGo, Spec.isNumTy, Spec.isIntTy, Bool.true_or, if_true] at hgo
      injection hgo with hgo; subst hgo
      exact Inv.of_typed _ _ _ rfl (by simp [uop, wrapK_of_repr k _ hp]) hp
    · -- bitNot
      cases hs : k.signed
      · simp only [Spec.unaryGo, hs, Bool.false_eq_true, if_false] at hgo
        injection hgo with hgo; subst hgo
        have hw := wrapK_inot_unsigned k hs p hp
        have hr : Spec.reprGo k ((2 ^ k.bits : Int) - 1 - p) = true := by
          rw [reprGo_iff] at hp ⊢
          cases k <;> simp only [IKind.signed] at hs <;>
            simp only [IKind.minVal, IKind.maxVal, IKind.signed, IKind.bits, if_false, Bool.false_eq_true] at hp ⊢ <;>
            first | omega | exact absurd hs (by decide)
        exact Inv.of_typed _ _ _ rfl (by simp [uop, hw]) hr
      · simp only [Spec.unaryGo, hs, if_true] at hgo
        injection hgo with hgo; subst hgo
        have hr := repr_inot_signed k hs p hp
        exact Inv.of_typed _ _ _ rfl (by simp [uop, wrapK_of_repr k _ hr]) hr

/-- **conversion node** `T(x)` to an integer type -/
theorem convNode_correct (k : IKind) (c1 : NS) (g1 gv : Spec.GV) (i1 : Inv c1 g1)
    (hgo : Spec.convGo (.i k) g1 = .ok gv) :
    ∃ n, convNodeY F0 (.i k) c1 = .ok n ∧ Inv n gv := by
  rcases i1.shape with ⟨ka, p, hka, rfl, h1ty, h1rv⟩ | ⟨k', p, rfl, h1ty, h1rv, hp⟩
  · -- untyped constant
    have hnum : Spec.isNumTy (.u ka) = true := by rcases hka with rfl | rfl <;> rfl
    simp only [Spec.convGo, hnum, if_true, Spec.representGo, CV.toInt] at hgo
    by_cases hr : Spec.reprGo k p = true
    · simp only [hr, if_true] at hgo
      injection hgo with hgo; subst hgo
      have hcv := convertUntypedY_int c1 ka p k h1ty h1rv hr
      have hrep := representableY_int k p hr
      refine ⟨{ rv := .r (.i k) (.int p), ty := .t (.i k), inner := ({ c1 with rv := .r (.i k) (.int p), ty := .t (.i k), self := false } : NS).loose }, ?_, Inv.of_typed _ _ _ rfl rfl hr⟩
      simp only [convNodeY, h1rv, hrep, if_true, bind_ok, h1ty, Ty.untyped, hcv, reflectConvert, wrapK_of_repr k p hr]
    · simp [hr] at hgo
  · -- typed operand
    simp only [Spec.convGo, Spec.isNumTy, Spec.isIntTy, Bool.true_or, if_true, Spec.representGo, CV.toInt] at hgo
    by_cases hr : Spec.reprGo k p = true
    · simp only [hr, if_true] at hgo
      injection hgo with hgo; subst hgo
      refine ⟨{ rv := .r (.i k) (.int p), ty := .t (.i k), inner := c1.loose }, ?_, Inv.of_typed _ _ _ rfl rfl hr⟩
      simp only [convNodeY, h1rv, h1ty, Ty.rtype, convertibleY, if_true, bind_ok, Ty.untyped, reflectConvert,
        wrapK_of_repr k p hr]
    · simp [hr] at hgo

end YaegiVerif.Proofs.C03
