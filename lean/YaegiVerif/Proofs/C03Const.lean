import YaegiVerif.Proofs.C03Decl
/- C03: the untyped integer fragment under a pushed-down type and in the later walks of a constant declaration:
   an operation on untyped constants stays an untyped constant whatever the context expects (3f5ccd5), so every walk
   computes the same node and the declared type is checked where the constant is assigned. -/
namespace YaegiVerif.Proofs.C03
open YaegiVerif YaegiVerif.Const

/-- the integer fragment without conversions: every sub-expression is an untyped integer or rune constant -/
def ufrag : CExpr → Bool
  | .int _ | .rune _ | .iota => true
  | .un a x => isUnArith a && ufrag x
  | .bin a x y => (isArith a || isShift a) && ufrag x && ufrag y
  | .par x => ufrag x
  | _ => false

theorem ufrag_intShape : ∀ e, ufrag e = true → intShape e = true := by
  intro e
  induction e with
  | un a x ih => intro h; simp only [ufrag, Bool.and_eq_true] at h; simp [intShape, h.1, ih h.2]
  | bin a x y ihx ihy =>
    intro h; simp only [ufrag, Bool.and_eq_true] at h
    simp only [intShape, Bool.and_eq_true]; exact ⟨⟨h.1.1, ihx h.1.2⟩, ihy h.2⟩
  | par x ih => intro h; simp only [ufrag] at h; simp [intShape, ih h]
  | conv t x _ => intro h; simp [ufrag] at h
  | len x _ => intro h; simp [ufrag] at h
  | int _ => intro _; rfl
  | rune _ => intro _; rfl
  | iota => intro _; rfl
  | flt _ => intro h; simp [ufrag] at h
  | bool _ => intro h; simp [ufrag] at h
  | str _ => intro h; simp [ufrag] at h

/-- a type that may be pushed down onto a numeric expression: none, or a numeric one -/
def NumForced (forced : Option Ty) : Prop := ∀ f, forced = some f → f.isNumber = true

/-- an untyped integer (or rune) constant node -/
def UNode (n : NS) : Prop := ∃ k v, (k = UK.int ∨ k = UK.rune) ∧ n.ty = .u k ∧ n.rv = .c (.int v)

theorem shiftLeftY_U (c0 : NS) (h : UNode c0) : shiftLeftY F0 c0 = .ok c0 := by
  obtain ⟨k, v, _, hty, hrv⟩ := h
  obtain ⟨rv0, ty0, s0, i0, f0, t0⟩ := c0
  simp only at hty hrv
  subst hty hrv
  simp [shiftLeftY, Ty.untyped, CV.toInt]

/-- a shift of an untyped constant: the pushed-down type and the environment play no part -/
theorem shiftNodeY_U (env env' : Env) (forced : Option Ty) (a : Act) (ha : isShift a = true) (c0 c1 : NS) (h0 : UNode c0) :
    shiftNodeY F0 env forced a c0 c1 = shiftNodeY F0 env' none a c0 c1 := by
  obtain ⟨k, v, hk, hty, hrv⟩ := h0
  simp only [shiftNodeY, checkShiftY_eq, shiftLeftY_U c0 ⟨k, v, hk, hty, hrv⟩, bind_ok]
  cases hcc : countCheck c1 with
  | ok c1' =>
    -- the node is an untyped integer constant whatever was pushed down (287aa9d)
    simp only [bind_ok, hty, Ty.untyped, Bool.not_true, Bool.false_eq_true, if_false, F0_chk, Expected.C03.checkFacts, if_true,
      fixUntypedY, F0_fixSkipsConst, Bool.false_and]
  | reject => rfl
  | crash => rfl
  | unm w => rfl

theorem shiftNodeY_U_out (env : Env) (a : Act) (ha : isShift a = true) (c0 c1 : NS) (h0 : UNode c0) (n : NS)
    (h : shiftNodeY F0 env none a c0 c1 = .ok n) : UNode n := by
  obtain ⟨k, v, hk, hty, hrv⟩ := h0
  simp only [shiftNodeY, checkShiftY_eq, shiftLeftY_U c0 ⟨k, v, hk, hty, hrv⟩, bind_ok] at h
  cases hcc : countCheck c1 with
  | reject => rw [hcc] at h; cases h
  | crash => rw [hcc] at h; cases h
  | unm w => rw [hcc] at h; cases h
  | ok c1' =>
  have hisint : (Ty.u k).isInt = true := by rcases hk with rfl | rfl <;> rfl
  simp only [hcc, bind_ok, hty, Ty.untyped, Bool.not_true, Bool.false_eq_true, if_false, hisint, if_true] at h
  obtain ⟨_, _, h⟩ := bind_eq_ok h
  obtain ⟨rv, hfold, h⟩ := bind_eq_ok h
  obtain ⟨_, _, h⟩ := bind_eq_ok h
  -- the fold of an Int-kinded constant is an Int-kinded constant
  have hrvc : ∃ w, rv = .c (.int w) := by
    rw [hrv] at hfold
    simp only [foldShiftY] at hfold
    split at hfold
    · cases hfold
    · split at hfold
      · cases hfold
      · obtain ⟨s, _, hfold⟩ := bind_eq_ok hfold
        split at hfold
        · cases hfold
        · split at hfold <;> first
            | (injection hfold with hfold; exact ⟨_, hfold.symm⟩)
            | (cases ‹CV.int v = CV.unknown›)
            | (cases hfold; done)
  obtain ⟨w, rfl⟩ := hrvc
  simp only [fixUntypedY, F0_fixSkipsConst, Bool.not_true, Bool.false_and, Bool.false_eq_true, if_false] at h
  injection h with h
  subst h
  exact ⟨k, w, hk, rfl, rfl⟩

/-- on the untyped integer fragment a walk computes the same node whatever numeric type is pushed down and
    whichever walk it is, and that node is an untyped integer constant -/
theorem evalY_ufrag_indep : ∀ e, ufrag e = true → ∀ (env : Env) (forced : Option Ty), NumForced forced →
    evalY F0 env forced e = evalY F0 { iota := env.iota } none e ∧
    ∀ n, evalY F0 { iota := env.iota } none e = .ok n → UNode n := by
  intro e
  induction e with
  | int v =>
    intro _ env forced _
    refine ⟨by simp [evalY], fun n h => ?_⟩
    simp only [evalY, F0_chk, Expected.C03.checkFacts] at h
    split at h
    · cases h
    · injection h with h; subst h; exact ⟨.int, v, Or.inl rfl, rfl, rfl⟩
  | rune v => intro _ env forced _; exact ⟨by simp [evalY], fun n h => by simp [evalY] at h; subst h; exact ⟨.rune, v, Or.inr rfl, rfl, rfl⟩⟩
  | iota => intro _ env forced _; exact ⟨by simp [evalY], fun n h => by simp [evalY] at h; subst h; exact ⟨.int, _, Or.inl rfl, rfl, rfl⟩⟩
  | flt q => intro h; simp [ufrag] at h
  | bool b => intro h; simp [ufrag] at h
  | str s => intro h; simp [ufrag] at h
  | len x _ => intro h; simp [ufrag] at h
  | conv t x _ => intro h; simp [ufrag] at h
  | par x ih =>
    intro hs env forced hf
    simp only [ufrag] at hs
    obtain ⟨h1, h2⟩ := ih hs env forced hf
    refine ⟨by simp only [evalY, h1], ?_⟩
    intro n hn
    simp only [evalY] at hn
    obtain ⟨c, hc, hn⟩ := bind_eq_ok hn
    injection hn with hn; subst hn
    obtain ⟨k, v, hk, hty, hrv⟩ := h2 c hc
    exact ⟨k, v, hk, hty, hrv⟩
  | un a x ih =>
    intro hs env forced hf
    simp only [ufrag, Bool.and_eq_true] at hs
    obtain ⟨h1, h2⟩ := ih hs.2 env forced hf
    have hnot : (a == Act.not) = false := by
      have ha := hs.1
      cases a <;> simp [isUnArith] at ha <;> rfl
    refine ⟨by simp only [evalY, hnot, Bool.false_eq_true, if_false, h1], ?_⟩
    intro n hn
    simp only [evalY, hnot, Bool.false_eq_true, if_false] at hn
    obtain ⟨c, hc, hn⟩ := bind_eq_ok hn
    obtain ⟨k, v, hk, hty, hrv⟩ := h2 c hc
    rw [unNodeY_untyped a hs.1 c k hk v hty hrv] at hn
    split at hn
    · cases hn
    · injection hn with hn; subst hn; exact ⟨k, _, hk, rfl, rfl⟩
  | bin a x y ihx ihy =>
    intro hs env forced hf
    simp only [ufrag, Bool.and_eq_true] at hs
    obtain ⟨hx1, hx2⟩ := ihx hs.1.2 env forced hf
    obtain ⟨hy1, hy2⟩ := ihy hs.2 env forced hf
    -- the first-walk evaluations used by the later walks are the same nodes again
    have hx0 := (ihx hs.1.2 { env with pass2 := false } none (fun _ h => by cases h)).1
    have hy0 := (ihy hs.2 { env with pass2 := false } none (fun _ h => by cases h)).1
    have hcl : (isCmpAct a || isLogicAct a) = false := by
      have ha := hs.1.1
      cases a <;> simp [isArith, isShift] at ha <;> rfl
    have key : ∀ (c0 c1 : NS), UNode c0 → UNode c1 →
        ((if isShiftAct a = true then shiftNodeY F0 env forced a c0 c1 else binNodeY F0 env forced a c0 c1) =
         (if isShiftAct a = true then shiftNodeY F0 { iota := env.iota } none a c0 c1
          else binNodeY F0 { iota := env.iota } none a c0 c1)) ∧
        ∀ n, (if isShiftAct a = true then shiftNodeY F0 { iota := env.iota } none a c0 c1
          else binNodeY F0 { iota := env.iota } none a c0 c1) = .ok n → UNode n := by
      intro c0 c1 u0 u1
      by_cases hsh : isShift a = true
      · have hsa : isShiftAct a = true := by simpa [isShiftAct, isShift] using hsh
        simp only [hsa, if_true]
        exact ⟨shiftNodeY_U env _ forced a hsh c0 c1 u0, fun n hn => shiftNodeY_U_out _ a hsh c0 c1 u0 n hn⟩
      · have hsa : isShiftAct a = false := by simpa [isShiftAct, isShift] using hsh
        have har : isArith a = true := by
          have h := hs.1.1
          rw [Bool.or_eq_true] at h
          rcases h with h | h
          · exact h
          · exact absurd h hsh
        obtain ⟨ka, p, hka, h0ty, h0rv⟩ := u0
        obtain ⟨kb, q, hkb, h1ty, h1rv⟩ := u1
        simp only [hsa, Bool.false_eq_true, if_false]
        rw [binNodeY_uu env forced hf a har c0 c1 ka kb p q hka hkb h0ty h0rv h1ty h1rv,
          binNodeY_uu { iota := env.iota } none (fun _ h => by cases h) a har c0 c1 ka kb p q hka hkb h0ty h0rv h1ty h1rv]
        refine ⟨rfl, ?_⟩
        intro n hn
        split at hn
        · cases hn
        · split at hn
          · cases hn
          · injection hn with hn; subst hn
            exact ⟨umax ka kb, _, umax_int_or_rune ka kb hka hkb, rfl, rfl⟩
    -- unfold both walks; whatever the first operand evaluates to, both sides go the same way
    have hL : evalY F0 env forced (.bin a x y) =
        (evalY F0 { iota := env.iota } none x).bind fun c0 => (evalY F0 { iota := env.iota } none y).bind fun c1 =>
          if isShiftAct a = true then shiftNodeY F0 env forced a c0 c1 else binNodeY F0 env forced a c0 c1 := by
      simp only [evalY, hcl, Bool.false_eq_true, if_false, hx1, hy1, hx0, hy0]
      cases hcx : evalY F0 { iota := env.iota } none x with
      | ok c0 =>
        simp only [bind_ok]
        cases hcy : evalY F0 { iota := env.iota } none y with
        | ok c1 =>
          simp only [bind_ok]
          obtain ⟨ka, p, hka, h0ty, h0rv⟩ := hx2 c0 hcx
          obtain ⟨kb, q, hkb, h1ty, h1rv⟩ := hy2 c1 hcy
          split
          · rfl
          · split
            · simp [keepY, h0ty, h1ty, Ty.untyped]
            · rfl
        | reject => rfl
        | crash => rfl
        | unm w => rfl
      | reject => rfl
      | crash => rfl
      | unm w => rfl
    have hR : evalY F0 { iota := env.iota } none (.bin a x y) =
        (evalY F0 { iota := env.iota } none x).bind fun c0 => (evalY F0 { iota := env.iota } none y).bind fun c1 =>
          if isShiftAct a = true then shiftNodeY F0 { iota := env.iota } none a c0 c1
          else binNodeY F0 { iota := env.iota } none a c0 c1 := by
      simp only [evalY, hcl, Bool.false_eq_true, if_false, Bool.false_and]
    rw [hL, hR]
    cases hcx : evalY F0 { iota := env.iota } none x with
    | ok c0 =>
      simp only [bind_ok]
      cases hcy : evalY F0 { iota := env.iota } none y with
      | ok c1 =>
        simp only [bind_ok]
        exact key c0 c1 (hx2 c0 hcx) (hy2 c1 hcy)
      | reject => exact ⟨rfl, fun n h => by cases h⟩
      | crash => exact ⟨rfl, fun n h => by cases h⟩
      | unm w => exact ⟨rfl, fun n h => by cases h⟩
    | reject => exact ⟨rfl, fun n h => by cases h⟩
    | crash => exact ⟨rfl, fun n h => by cases h⟩
    | unm w => exact ⟨rfl, fun n h => by cases h⟩

theorem assignGo_ty (x : Spec.GV) (t t' : BT) (v : CV) (h : Spec.assignGo x t = .ok (v, t')) : t' = t := by
  unfold Spec.assignGo at h
  split at h
  · split at h
    · injection h with h; injection h with _ h2; exact h2.symm
    · cases h
  · split at h
    · split at h
      · injection h with h; injection h with _ h2; exact h2.symm
      · cases h
    · cases h

end YaegiVerif.Proofs.C03
