import YaegiVerif.Proofs.C03Decl
/- C03: constant declarations (two more walks with a type pushed down) on the untyped integer fragment -/
namespace YaegiVerif.Proofs.C03
open YaegiVerif YaegiVerif.Const

/-- the integer fragment without conversions: every sub-expression is an untyped integer or rune constant -/
def ufrag : CExpr → Bool
  | .int _ | .rune _ | .iota => true
  | .un a x => isUnArith a && ufrag x
  | .bin a x y => (isArith a || isShift a) && ufrag x && ufrag y
  | .par x => ufrag x
  | _ => false

theorem ufrag_intShape : ∀ e, ufrag e = true → intShape e = true := by
  intro e
  induction e with
  | un a x ih => intro h; simp only [ufrag, Bool.and_eq_true] at h; simp [intShape, h.1, ih h.2]
  | bin a x y ihx ihy =>
    intro h; simp only [ufrag, Bool.and_eq_true] at h
    simp only [intShape, Bool.and_eq_true]; exact ⟨⟨h.1.1, ihx h.1.2⟩, ihy h.2⟩
  | par x ih => intro h; simp only [ufrag] at h; simp [intShape, ih h]
  | conv t x _ => intro h; simp [ufrag] at h
  | len x _ => intro h; simp [ufrag] at h
  | int _ => intro _; rfl
  | rune _ => intro _; rfl
  | iota => intro _; rfl
  | flt _ => intro h; simp [ufrag] at h
  | bool _ => intro h; simp [ufrag] at h
  | str _ => intro h; simp [ufrag] at h

/-- both operands untyped integer constants, node type pushed down -/
theorem binNodeY_uu_forced (env : Env) (kf : UK) (hkf : kf = .int ∨ kf = .rune) (a : Act) (ha : isArith a = true)
    (c0 c1 : NS) (ka kb : UK) (p q : Int) (hka : ka = .int ∨ ka = .rune) (hkb : kb = .int ∨ kb = .rune)
    (h0ty : c0.ty = .u ka) (h0rv : c0.rv = .c (.int p)) (h1ty : c1.ty = .u kb) (h1rv : c1.rv = .c (.int q))
    (hz : ¬ (needsNZ a = true ∧ q = 0)) :
    binNodeY F0 env (some (.u kf)) a c0 c1 =
      .ok { rv := .c (.int (iop a p q)), ty := if a = .rem then .u (umax ka kb) else .u kf,
            inner := c0.loose || c1.loose } := by
  have hz1 := zeroConstY_untyped c1 kb q h1ty h1rv
  have hfold : ∀ nty : Ty, nty.untyped = true → nty.isInt = true →
      foldBinY F0 a nty (.c (.int p)) (.c (.int q)) = .ok (.c (.int (iop a p q))) :=
    fun nty _ _ => foldBinY_const a ha nty p q hz
  obtain ⟨rv0, ty0, s0, i0, f0⟩ := c0
  obtain ⟨rv1, ty1, s1, i1, f1⟩ := c1
  simp only at h0ty h0rv h1ty h1rv
  subst h0ty h0rv h1ty h1rv
  have hzz : (a = .rem ∨ a = .quo) → q ≠ 0 := by
    intro h0 h; rcases h0 with rfl | rfl <;> exact hz ⟨rfl, h⟩
  rcases hkf with rfl | rfl <;> rcases hka with rfl | rfl <;> rcases hkb with rfl | rfl <;>
    (cases a <;> simp [isArith] at ha <;>
       (simp [binNodeY, checkBinaryY, hz1, hzz, convertUntypedY, binaryPredY, Ty.untyped, Ty.isInt, Ty.isFloat,
             Ty.isNumber, Ty.kindRank, Ty.rtype, BT.isInt, BT.isFloat, fixUntypedY, umax, Spec.ukRank, NS.loose]
        rw [hfold _ rfl rfl]; rfl))

/-- both operands untyped integer constants, no type pushed down, any environment (an untyped node type never
    makes `fixUntyped` touch `sc.types`) -/
theorem binNodeY_uu' (env : Env) (a : Act) (ha : isArith a = true) (c0 c1 : NS)
    (ka kb : UK) (p q : Int) (hka : ka = .int ∨ ka = .rune) (hkb : kb = .int ∨ kb = .rune)
    (h0ty : c0.ty = .u ka) (h0rv : c0.rv = .c (.int p)) (h1ty : c1.ty = .u kb) (h1rv : c1.rv = .c (.int q))
    (hq : a = .quo → ¬ (ka = .rune ∧ kb = .int)) (hz : ¬ (needsNZ a = true ∧ q = 0)) :
    binNodeY F0 env none a c0 c1 =
      .ok { rv := .c (.int (iop a p q)), ty := .u (umax ka kb), inner := c0.loose || c1.loose } := by
  have hz1 := zeroConstY_untyped c1 kb q h1ty h1rv
  have hfold : ∀ nty : Ty, nty.untyped = true → nty.isInt = true →
      foldBinY F0 a nty (.c (.int p)) (.c (.int q)) = .ok (.c (.int (iop a p q))) :=
    fun nty _ _ => foldBinY_const a ha nty p q hz
  obtain ⟨rv0, ty0, s0, i0, f0⟩ := c0
  obtain ⟨rv1, ty1, s1, i1, f1⟩ := c1
  simp only at h0ty h0rv h1ty h1rv
  subst h0ty h0rv h1ty h1rv
  have hzz : (a = .rem ∨ a = .quo) → q ≠ 0 := by
    intro h0 h; rcases h0 with rfl | rfl <;> exact hz ⟨rfl, h⟩
  rcases hka with rfl | rfl <;> rcases hkb with rfl | rfl <;>
    (cases a <;> simp [isArith] at ha <;> first
      | exact absurd ⟨rfl, rfl⟩ (hq rfl)
      | (simp [binNodeY, checkBinaryY, hz1, hzz, convertUntypedY, binaryPredY, binTypeY, Ty.untyped, Ty.isInt, Ty.isFloat,
             Ty.isNumber, Ty.kindRank, Ty.rtype, BT.isInt, BT.isFloat, fixUntypedY, umax, Spec.ukRank, NS.loose]
         rw [hfold _ rfl rfl]; rfl))

/-- a shift whose left operand is an untyped integer constant -/
theorem shiftNodeY_untyped (env : Env) (forced : Option Ty) (a : Act) (ha : isShift a = true) (c0 c1 : NS)
    (g1 : Spec.GV) (i1 : Inv c1 g1) (ka : UK) (v c : Int) (hka : ka = .int ∨ ka = .rune)
    (h0ty : c0.ty = .u ka) (h0rv : c0.rv = .c (.int v)) (hcnt : Spec.shiftCount g1 = some c) (hc100 : c ≤ 100000)
    (hf : forced = none ∨ ∃ kf, forced = some (.u kf)) :
    ∃ n, shiftNodeY F0 env forced a c0 c1 = .ok n ∧ n.rv = .c (.int (sh a v c.toNat)) ∧
      n.ty = (match forced with | some f => f | none => .u ka) := by
  obtain ⟨c1', hc1, hv1, hc0, _⟩ := count_operand c1 g1 i1 c hcnt
  have hl : shiftLeftY c0 = .ok { c0 with rv := .c (.int v) } := by
    simp [shiftLeftY, h0ty, h0rv, Ty.untyped, CV.toInt]
  rcases hf with rfl | ⟨kf, rfl⟩
  · have hfo := foldShiftY_const a ha (.u ka) v c1'.rv c hv1 hc0 hc100
    refine ⟨{ rv := .c (.int (sh a v c.toNat)), ty := .u ka,
              inner := ({ c0 with rv := .c (.int v) } : NS).loose || c1'.loose }, ?_, rfl, rfl⟩
    simp [shiftNodeY, checkShiftY, hl, hc1, h0ty, Ty.untyped, binTypeY, hfo, fixUntypedY]
  · have hfo := foldShiftY_const a ha (.u kf) v c1'.rv c hv1 hc0 hc100
    refine ⟨{ rv := .c (.int (sh a v c.toNat)), ty := .u kf,
              inner := ({ c0 with rv := .c (.int v) } : NS).loose || c1'.loose }, ?_, rfl, rfl⟩
    simp [shiftNodeY, checkShiftY, hl, hc1, h0ty, Ty.untyped, hfo, fixUntypedY]

/-- what a walk with an (untyped) type pushed down preserves: the value, an untyped integer kind, and — where the
    specification's type is the pushed one — that type -/
def UOk (forced : Option Ty) (n : NS) (gv : Spec.GV) : Prop :=
  ∃ k kg v, (k = UK.int ∨ k = UK.rune) ∧ (kg = UK.int ∨ kg = UK.rune) ∧ n.ty = .u k ∧ n.rv = .c (.int v) ∧
    gv = ⟨.int v, .u kg⟩ ∧
    (match forced with
     | none => k = kg
     | some f => (Ty.u kg = f → Ty.u k = f))

theorem shiftCount_untyped (q : Int) (k kg : UK) (hk : k = .int ∨ k = .rune) (hkg : kg = .int ∨ kg = .rune) :
    Spec.shiftCount ⟨.int q, .u k⟩ = Spec.shiftCount ⟨.int q, .u kg⟩ := by
  rcases hk with rfl | rfl <;> rcases hkg with rfl | rfl <;> rfl

theorem umax_cases (ka kb : UK) (hka : ka = .int ∨ ka = .rune) (hkb : kb = .int ∨ kb = .rune) :
    (umax ka kb = .int ∧ ka = .int ∧ kb = .int) ∨ (umax ka kb = .rune ∧ (ka = .rune ∨ kb = .rune)) := by
  rcases hka with rfl | rfl <;> rcases hkb with rfl | rfl <;> simp [umax, Spec.ukRank]

theorem evalY_ufrag : ∀ e, ufrag e = true → ∀ (env : Env) (forced : Option Ty), env.typedDecl = false →
    (forced = none ∨ ∃ kf, (kf = UK.int ∨ kf = UK.rune) ∧ forced = some (.u kf)) →
    noRuneQuo env.iota e = true → ∀ gv, Spec.evalGo env.iota e = .ok gv →
    ∃ n, evalY F0 env forced e = .ok n ∧ UOk forced n gv := by
  intro e
  induction e with
  | int v =>
    intro _ env forced _ hf _ gv hgo
    simp only [Spec.evalGo] at hgo; injection hgo with hgo; subst hgo
    refine ⟨{ rv := .c (.int v), ty := .u .int, fidx := true }, by simp [evalY], .int, .int, v, Or.inl rfl, Or.inl rfl, rfl, rfl, rfl, ?_⟩
    rcases hf with rfl | ⟨kf, _, rfl⟩ <;> simp
  | rune v =>
    intro _ env forced _ hf _ gv hgo
    simp only [Spec.evalGo] at hgo; injection hgo with hgo; subst hgo
    refine ⟨{ rv := .c (.int v), ty := .u .rune, fidx := true }, by simp [evalY], .rune, .rune, v, Or.inr rfl, Or.inr rfl, rfl, rfl, rfl, ?_⟩
    rcases hf with rfl | ⟨kf, _, rfl⟩ <;> simp
  | iota =>
    intro _ env forced _ hf _ gv hgo
    simp only [Spec.evalGo] at hgo; injection hgo with hgo; subst hgo
    refine ⟨{ rv := .c (.int env.iota), ty := .u .int, fidx := true }, by simp [evalY], .int, .int, _, Or.inl rfl, Or.inl rfl, rfl, rfl, rfl, ?_⟩
    rcases hf with rfl | ⟨kf, _, rfl⟩ <;> simp
  | flt q => intro h; simp [ufrag] at h
  | bool b => intro h; simp [ufrag] at h
  | str s => intro h; simp [ufrag] at h
  | len x _ => intro h; simp [ufrag] at h
  | conv t x _ => intro h; simp [ufrag] at h
  | par x ih =>
    intro hs env forced htd hf hq gv hgo
    simp only [ufrag] at hs
    simp only [noRuneQuo] at hq
    simp only [Spec.evalGo] at hgo
    obtain ⟨n, hn, k, kg, v, hk, hkg, hty, hrv, hgv, hfor⟩ := ih hs env forced htd hf hq gv hgo
    exact ⟨{ n with self := n.fidx && n.ty.untyped, inner := n.loose }, by simp [evalY, hn],
      k, kg, v, hk, hkg, hty, hrv, hgv, hfor⟩
  | un a x ih =>
    intro hs env forced htd hf hq gv hgo
    simp only [ufrag, Bool.and_eq_true] at hs
    simp only [noRuneQuo] at hq
    simp only [Spec.evalGo] at hgo
    obtain ⟨g0, hg0, hu⟩ := bind_eq_ok hgo
    obtain ⟨c0, hc0, k, kg, v, hk, hkg, hty, hrv, hgv, hfor⟩ := ih hs.2 env forced htd hf hq g0 hg0
    subst hgv
    have hnode := unNodeY_untyped a hs.1 c0 k hk v hty hrv
    -- the Go side keeps the type and applies the operator
    have hgvv : gv = ⟨.int (uop a v), .u kg⟩ := by
      have ha := hs.1
      rcases hkg with rfl | rfl <;> cases a <;> simp [isUnArith] at ha <;>
        simp only [Spec.unaryGo, Spec.isNumTy, Spec.isIntTy, Bool.true_or, if_true] at hu <;>
        first
        | (injection hu with hu; exact hu.symm)
        | exact finish_untyped_int _ _ (by simp) gv hu
    subst hgvv
    exact ⟨{ rv := .c (.int (uop a v)), ty := .u k, inner := c0.loose },
      by simp [evalY, isBoolAct_unarith a hs.1, hc0, hnode], k, kg, _, hk, hkg, rfl, rfl, rfl, hfor⟩
  | bin a x y ihx ihy =>
    intro hs env forced htd hf hq gv hgo
    simp only [ufrag, Bool.and_eq_true] at hs
    simp only [noRuneQuo, Bool.and_eq_true, Bool.not_eq_true'] at hq
    obtain ⟨⟨hqx, hqy⟩, hqa⟩ := hq
    simp only [Spec.evalGo] at hgo
    obtain ⟨g0, hg0, hgo⟩ := bind_eq_ok hgo
    obtain ⟨g1, hg1, hgo⟩ := bind_eq_ok hgo
    obtain ⟨c0, hc0, k0, kg0, p, hk0, hkg0, h0ty, h0rv, hg0v, hfor0⟩ := ihx hs.1.2 env forced htd hf hqx g0 hg0
    obtain ⟨c1, hc1, k1, kg1, q, hk1, hkg1, h1ty, h1rv, hg1v, hfor1⟩ := ihy hs.2 env forced htd hf hqy g1 hg1
    subst hg0v hg1v
    have hnb := isBoolAct_arith a hs.1.1
    by_cases hsh : isShift a = true
    · -- shift
      have hcond : (a == .shl || a == .shr) = true := by simpa [isShift] using hsh
      rw [if_pos hcond] at hgo
      simp only [Spec.shiftGo] at hgo
      cases hcnt : Spec.shiftCount ⟨.int q, .u kg1⟩ with
      | none => simp [hcnt] at hgo
      | some c =>
        simp only [hcnt] at hgo
        by_cases hbig : c > Spec.shiftBound
        · simp [hbig] at hgo
        · rw [if_neg hbig] at hgo
          have hc100 : c ≤ 100000 := by simp only [Spec.shiftBound] at hbig; omega
          have hleft : Spec.shiftLeft ⟨.int p, .u kg0⟩ = some (p, .u kg0) := by
            rcases hkg0 with rfl | rfl <;> rfl
          simp only [hleft] at hgo
          have hfin : Spec.finish (.int (sh a p c.toNat)) (.u kg0) = .ok gv := by
            cases a <;> simp [isShift] at hsh <;> simpa [sh] using hgo
          have hgv := finish_untyped_int _ _ hkg0 gv hfin
          subst hgv
          have hcnt' : Spec.shiftCount ⟨.int q, .u k1⟩ = some c := by
            rw [shiftCount_untyped q k1 kg1 hk1 hkg1]; exact hcnt
          have i1 : Inv c1 ⟨.int q, .u k1⟩ := Inv.of_untyped _ _ _ hk1 h1ty h1rv
          have hf' : forced = none ∨ ∃ kf, forced = some (.u kf) := by
            rcases hf with h | ⟨kf, _, h⟩
            · exact Or.inl h
            · exact Or.inr ⟨kf, h⟩
          obtain ⟨n, hn, hnrv, hnty⟩ := shiftNodeY_untyped env forced a hsh c0 c1 _ i1 k0 p c hk0 h0ty h0rv hcnt' hc100 hf'
          have hsa : isShiftAct a = true := by simpa [isShiftAct, isShift] using hsh
          refine ⟨n, by simp [evalY, hnb, hc0, hc1, hsa, hn], ?_⟩
          rcases hf with rfl | ⟨kf, hkf, rfl⟩
          · exact ⟨k0, kg0, _, hk0, hkg0, hnty, hnrv, rfl, hfor0⟩
          · exact ⟨kf, kg0, _, hkf, hkg0, hnty, hnrv, rfl, fun _ => rfl⟩
    · -- arithmetic
      have har : isArith a = true := by
        have h := hs.1.1
        rw [Bool.or_eq_true] at h
        rcases h with h | h
        · exact h
        · exact absurd h hsh
      have hcond : ¬ ((a == .shl || a == .shr) = true) := by simpa [isShift] using hsh
      rw [if_neg hcond] at hgo
      have hsa : isShiftAct a = false := by simpa [isShiftAct, isShift] using hsh
      rw [matchTypes_uu kg0 kg1 p q hkg0 hkg1] at hgo
      simp only [bind_ok] at hgo
      have hcmp : Spec.isCmp a = false := by cases a <;> simp [isArith] at har <;> rfl
      have hland : (a == .land || a == .lor) = false := by cases a <;> simp [isArith] at har <;> rfl
      simp only [hcmp, hland, Bool.false_eq_true, if_false] at hgo
      have humaxg : umax kg0 kg1 = .int ∨ umax kg0 kg1 = .rune := by
        rcases hkg0 with rfl | rfl <;> rcases hkg1 with rfl | rfl <;> simp [umax, Spec.ukRank]
      have hint : Spec.isIntTy (.u (umax kg0 kg1)) = true := by
        rcases humaxg with h | h <;> rw [h] <;> rfl
      rw [arithGo_int a har p q _ hint] at hgo
      by_cases hz : needsNZ a = true ∧ q = 0
      · rw [if_pos hz] at hgo; cases hgo
      · rw [if_neg hz] at hgo
        have hgv := finish_untyped_int _ _ humaxg gv hgo
        subst hgv
        -- the extra work of the second walk does nothing here: the sibling types of the first walk are untyped
        have hkeep : ∀ forced', evalY F0 env forced' (.bin a x y) =
            (evalY F0 env forced' x).bind fun c0 => (evalY F0 env forced' y).bind fun c1 =>
              binNodeY F0 env forced' a c0 c1 := by
          intro forced'
          by_cases hp2 : (env.pass2 && !env.typedDecl && a != Act.quo) = true
          · have htd' : ({ env with pass2 := false } : Env).typedDecl = false := htd
            obtain ⟨s0, hs0, k0', _, _, _, _, hs0ty, _, _, _⟩ := ihx hs.1.2 { env with pass2 := false } none htd' (Or.inl rfl) hqx _ hg0
            obtain ⟨s1, hs1, k1', _, _, _, _, hs1ty, _, _, _⟩ := ihy hs.2 { env with pass2 := false } none htd' (Or.inl rfl) hqy _ hg1
            simp [evalY, hnb, hsa, hp2, hs0, hs1, hs0ty, hs1ty, Ty.untyped]
          · simp [evalY, hnb, hsa, hp2]
        rw [hkeep forced, hc0, hc1]
        simp only [bind_ok]
        rcases hf with rfl | ⟨kf, hkf, rfl⟩
        · -- no type pushed down: the types are Go's
          simp only at hfor0 hfor1
          subst hfor0 hfor1
          have hq' : a = .quo → ¬ (k0 = .rune ∧ k1 = .int) := by
            intro haq ⟨h1, h2⟩
            subst haq h1 h2
            simp [goTyIs, hg0, hg1] at hqa
          exact ⟨_, binNodeY_uu' env a har c0 c1 k0 k1 p q hk0 hk1 h0ty h0rv h1ty h1rv hq' hz,
            umax k0 k1, umax k0 k1, _, humaxg, humaxg, rfl, rfl, rfl, rfl⟩
        · refine ⟨_, binNodeY_uu_forced env kf hkf a har c0 c1 k0 k1 p q hk0 hk1 h0ty h0rv h1ty h1rv hz, ?_⟩
          by_cases hrem : a = .rem
          · have hum : umax k0 k1 = .int ∨ umax k0 k1 = .rune := by
              rcases hk0 with rfl | rfl <;> rcases hk1 with rfl | rfl <;> simp [umax, Spec.ukRank]
            refine ⟨umax k0 k1, umax kg0 kg1, _, hum, humaxg, by simp [hrem], rfl, rfl, ?_⟩
            intro hgt
            simp only at hfor0 hfor1
            rcases umax_cases kg0 kg1 hkg0 hkg1 with ⟨hu, h0, h1⟩ | ⟨hu, h01⟩
            · -- both int, pushed type int
              rw [hu] at hgt
              have hkf' : kf = .int := by injection hgt with h; exact h.symm
              subst hkf' h0 h1
              have e0 : k0 = .int := by have := hfor0 rfl; injection this
              have e1 : k1 = .int := by have := hfor1 rfl; injection this
              subst e0 e1; rfl
            · rw [hu] at hgt
              have hkf' : kf = .rune := by injection hgt with h; exact h.symm
              subst hkf'
              rcases h01 with h | h
              · subst h
                have e0 : k0 = .rune := by have := hfor0 rfl; injection this
                subst e0
                rcases hk1 with rfl | rfl <;> rfl
              · subst h
                have e1 : k1 = .rune := by have := hfor1 rfl; injection this
                subst e1
                rcases hk0 with rfl | rfl <;> rfl
          · exact ⟨kf, umax kg0 kg1, _, hkf, humaxg, by simp [hrem], rfl, rfl, fun _ => rfl⟩

theorem assignGo_ty (x : Spec.GV) (t t' : BT) (v : CV) (h : Spec.assignGo x t = .ok (v, t')) : t' = t := by
  unfold Spec.assignGo at h
  split at h
  · split at h
    · injection h with h; injection h with _ h2; exact h2.symm
    · cases h
  · split at h
    · split at h
      · injection h with h; injection h with _ h2; exact h2.symm
      · cases h
    · cases h

/-- **`const c = e`** on the untyped integer fragment: all three walks and the use agree with the specification -/
theorem const_decl_stages (i : Nat) (e : CExpr) (hs : ufrag e = true) (hq : noRuneQuo i e = true)
    (v : CV × BT) (hgo : Spec.declGo i none e = .ok v) (first : Bool) :
    ∃ n m, constGtaY F0 i first none e = .ok n ∧ constCfgY F0 i none e n = .ok m ∧ constUseY F0 m = .ok v := by
  simp only [Spec.declGo] at hgo
  obtain ⟨gv, hgv, hasg⟩ := bind_eq_ok hgo
  -- first walk
  obtain ⟨n, hn, k, kg, x, hk, hkg, hnty, hnrv, hgveq, hfor⟩ :=
    evalY_ufrag e hs { iota := i, inConst := true, noFrame := first } none rfl (Or.inl rfl) hq gv hgv
  simp only at hfor
  subst hfor hgveq
  -- second walk, with the type of the first pushed down
  obtain ⟨m, hm, k', kg', x', hk', _, hmty, hmrv, hgveq', hfor'⟩ :=
    evalY_ufrag e hs { iota := i, inConst := true, pass2 := true } (some (.u k)) rfl (Or.inr ⟨k, hk, rfl⟩) hq _ hgv
  injection hgveq' with hx hk2
  injection hx with hx
  injection hk2 with hk2
  subst hx hk2
  have hmty' : m.ty = .u k := by rw [hmty]; exact hfor' rfl
  have hinv : Inv m ⟨.int x, .u k⟩ := Inv.of_untyped m k x hk hmty' hmrv
  refine ⟨n, m, ?_, ?_, ?_⟩
  · simp only [constGtaY, unmodelled, unmodelledU_int false e (ufrag_intShape e hs)]
    exact hn
  · simp only [constCfgY, hnty]
    exact hm
  · obtain ⟨cv, t⟩ := v
    have ht : t = Spec.defaultGo (.u k) := assignGo_ty _ _ _ _ hasg
    subst ht
    simp only [constUseY, hmty', Ty.untyped, if_true, defaultTypeY_int m _ hinv]
    exact assign_materialise m _ hinv _ cv hasg (defaultGo_int _ m hinv)

end YaegiVerif.Proofs.C03
