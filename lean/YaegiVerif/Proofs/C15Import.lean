import YaegiVerif.Model.VarInit
import YaegiVerif.Expected.C15
/-
  C15 — lemmas about `importSrc` (several packages): every package is initialised at most once and
  after the packages it imports, for every import graph.
-/
namespace YaegiVerif.Proofs.C15
open YaegiVerif.VarInit

/-- `importY` for the order of steps read from the source today, written out -/
def importE (own : String → Trace) (importsOf : String → List String) : Nat → ISt → String → ISt
  | 0, st, _ => { st with err := true }
  | fuel + 1, st, path =>
    if st.err then st
    else if st.srcPkg.contains path then st
    else if st.rdir.contains path then { st with err := true }
    else
      let st2 := (importsOf path).foldl (importE own importsOf fuel) { st with rdir := path :: st.rdir }
      if st2.err then st2
      else { st2 with srcPkg := path :: st2.srcPkg, seq := st2.seq ++ [path],
                      events := st2.events ++ (own path).events, err := (own path).err }

section steps
variable (own : String → Trace) (importsOf : String → List String) (rec : ISt → String → ISt) (path : String)

theorem step_err (toks : List String) (st : ISt) (he : st.err = true) :
    importSteps own importsOf rec path toks st = st := by
  cases toks with
  | nil => rfl
  | cons t ts => rw [importSteps]; simp [he]

theorem step_once (rest : List String) (st : ISt) (he : st.err = false) :
    importSteps own importsOf rec path ("once" :: rest) st =
      if st.srcPkg.contains path then st else importSteps own importsOf rec path rest st := by
  rw [importSteps]; simp [he]

theorem step_rdir_check (rest : List String) (st : ISt) (he : st.err = false) :
    importSteps own importsOf rec path ("rdir-check" :: rest) st =
      if st.rdir.contains path then { st with err := true } else importSteps own importsOf rec path rest st := by
  rw [importSteps]; simp [he]

theorem step_rdir_set (rest : List String) (st : ISt) (he : st.err = false) :
    importSteps own importsOf rec path ("rdir-set" :: rest) st =
      importSteps own importsOf rec path rest { st with rdir := path :: st.rdir } := by
  rw [importSteps]; simp [he]

theorem step_gta (rest : List String) (st : ISt) (he : st.err = false) :
    importSteps own importsOf rec path ("gta" :: rest) st =
      importSteps own importsOf rec path rest ((importsOf path).foldl rec st) := by
  rw [importSteps]; simp [he]

theorem step_register (rest : List String) (st : ISt) (he : st.err = false) :
    importSteps own importsOf rec path ("register" :: rest) st =
      importSteps own importsOf rec path rest { st with srcPkg := path :: st.srcPkg } := by
  rw [importSteps]; simp [he]

theorem step_init (rest : List String) (st : ISt) (he : st.err = false) :
    importSteps own importsOf rec path ("init" :: rest) st =
      importSteps own importsOf rec path rest
        { st with seq := st.seq ++ [path], events := st.events ++ (own path).events, err := (own path).err } := by
  rw [importSteps]; simp [he]

theorem step_other (t : String) (rest : List String) (st : ISt) (he : st.err = false)
    (h1 : t ≠ "once") (h2 : t ≠ "rdir-check") (h3 : t ≠ "rdir-set") (h4 : t ≠ "gta") (h5 : t ≠ "register") (h6 : t ≠ "init") :
    importSteps own importsOf rec path (t :: rest) st = importSteps own importsOf rec path rest st := by
  rw [importSteps]; simp [he, h1, h2, h3, h4, h5, h6]

/-- one call of `importSrc`, for the order of steps read from the source today -/
theorem steps_expected (st : ISt) :
    importSteps own importsOf rec path
        ["once", "rdir-check", "rdir-set", "gta", "cfg", "register", "root", "gen", "globals", "main-last", "init"] st =
      if st.err then st
      else if st.srcPkg.contains path then st
      else if st.rdir.contains path then { st with err := true }
      else
        let st2 := (importsOf path).foldl rec { st with rdir := path :: st.rdir }
        if st2.err then st2
        else { st2 with srcPkg := path :: st2.srcPkg, seq := st2.seq ++ [path],
                        events := st2.events ++ (own path).events, err := (own path).err } := by
  by_cases he : st.err = true
  · rw [step_err _ _ _ _ _ _ he]; simp [he]
  · have he' : st.err = false := by simpa using he
    rw [step_once _ _ _ _ _ _ he', if_neg he]
    by_cases hs : st.srcPkg.contains path = true
    · rw [if_pos hs, if_pos hs]
    · rw [if_neg hs, if_neg hs, step_rdir_check _ _ _ _ _ _ he']
      by_cases hr : st.rdir.contains path = true
      · rw [if_pos hr, if_pos hr]
      · rw [if_neg hr, if_neg hr, step_rdir_set _ _ _ _ _ _ he',
          step_gta _ _ _ _ _ { st with rdir := path :: st.rdir } he']
        simp only
        generalize (importsOf path).foldl rec { st with rdir := path :: st.rdir } = st2
        by_cases he2 : st2.err = true
        · rw [step_err _ _ _ _ _ _ he2, if_pos he2]
        · have he2' : st2.err = false := by simpa using he2
          rw [if_neg he2,
            step_other _ _ _ _ "cfg" _ _ he2' (by decide) (by decide) (by decide) (by decide) (by decide) (by decide),
            step_register _ _ _ _ _ _ he2']
          generalize hst3 : ({ st2 with srcPkg := path :: st2.srcPkg } : ISt) = st3
          have he3 : st3.err = false := by rw [← hst3]; exact he2'
          rw [step_other _ _ _ _ "root" _ _ he3 (by decide) (by decide) (by decide) (by decide) (by decide) (by decide),
            step_other _ _ _ _ "gen" _ _ he3 (by decide) (by decide) (by decide) (by decide) (by decide) (by decide),
            step_other _ _ _ _ "globals" _ _ he3 (by decide) (by decide) (by decide) (by decide) (by decide) (by decide),
            step_other _ _ _ _ "main-last" _ _ he3 (by decide) (by decide) (by decide) (by decide) (by decide) (by decide),
            step_init _ _ _ _ _ _ he3, ← hst3]
          rfl

end steps

theorem importY_expected (own : String → Trace) (importsOf : String → List String) (fuel : Nat) :
    importY Expected.C15.execFacts.importSrc own importsOf fuel = importE own importsOf fuel := by
  induction fuel with
  | zero => funext st path; rfl
  | succ f ih =>
    funext st path
    have ht : Expected.C15.execFacts.importSrc =
        ["once", "rdir-check", "rdir-set", "gta", "cfg", "register", "root", "gen", "globals", "main-last", "init"] := rfl
    rw [ht] at ih ⊢
    simp only [importY, importE]
    rw [steps_expected, ih]

/-- "every package comes after the packages it imports" -/
def closedFrom (importsOf : String → List String) : List String → List String → Prop
  | _, [] => True
  | pre, p :: rest => (∀ q ∈ importsOf p, q ∈ pre) ∧ closedFrom importsOf (pre ++ [p]) rest

theorem closedFrom_append (importsOf : String → List String) (pre a b : List String) :
    closedFrom importsOf pre (a ++ b) ↔ closedFrom importsOf pre a ∧ closedFrom importsOf (pre ++ a) b := by
  induction a generalizing pre with
  | nil => simp [closedFrom]
  | cons x xs ih => simp [closedFrom, ih, and_assoc]

/-- the invariant: each package appears once in the initialisation sequence, `srcPkg` is exactly
    the set of initialised packages, and the sequence respects the imports -/
def Inv (importsOf : String → List String) (st : ISt) : Prop :=
  st.seq.Nodup ∧ (∀ x, x ∈ st.srcPkg ↔ x ∈ st.seq) ∧ closedFrom importsOf [] st.seq

/-- how a state evolves through imports -/
structure Good (importsOf : String → List String) (st st' : ISt) : Prop where
  rdir_mono : ∀ x ∈ st.rdir, x ∈ st'.rdir
  src_mono : ∀ x ∈ st.srcPkg, x ∈ st'.srcPkg
  pending : ∀ x ∈ st.rdir, x ∉ st.srcPkg → x ∉ st'.srcPkg
  sticky : st.err = true → st' = st
  inv : Inv importsOf st → Inv importsOf st'
  prefix_ : ∃ ext, st'.seq = st.seq ++ ext

theorem Good.refl (importsOf : String → List String) (st : ISt) : Good importsOf st st :=
  ⟨fun _ h => h, fun _ h => h, fun _ _ h => h, fun _ => rfl, fun h => h, ⟨[], by simp⟩⟩

theorem Good.trans {importsOf : String → List String} {a b c : ISt}
    (h1 : Good importsOf a b) (h2 : Good importsOf b c) : Good importsOf a c where
  rdir_mono x hx := h2.rdir_mono x (h1.rdir_mono x hx)
  src_mono x hx := h2.src_mono x (h1.src_mono x hx)
  pending x hx hn := h2.pending x (h1.rdir_mono x hx) (h1.pending x hx hn)
  sticky he := by
    have := h1.sticky he
    subst this
    exact h2.sticky he
  inv hi := h2.inv (h1.inv hi)
  prefix_ := by
    obtain ⟨e1, he1⟩ := h1.prefix_
    obtain ⟨e2, he2⟩ := h2.prefix_
    exact ⟨e1 ++ e2, by rw [he2, he1, List.append_assoc]⟩

/-- folding a well-behaved import function over a list of paths -/
theorem fold_good (importsOf : String → List String) (F : ISt → String → ISt)
    (hF : ∀ st p, Good importsOf st (F st p) ∧ ((F st p).err = false → p ∈ (F st p).srcPkg))
    (ps : List String) (st : ISt) :
    Good importsOf st (ps.foldl F st) ∧ ((ps.foldl F st).err = false → ∀ p ∈ ps, p ∈ (ps.foldl F st).srcPkg) := by
  induction ps generalizing st with
  | nil => exact ⟨Good.refl _ _, by simp⟩
  | cons p ps ih =>
    simp only [List.foldl_cons]
    obtain ⟨g1, m1⟩ := hF st p
    obtain ⟨g2, m2⟩ := ih (F st p)
    refine ⟨g1.trans g2, ?_⟩
    intro hne q hq
    simp only [List.mem_cons] at hq
    rcases hq with rfl | hq
    · have hmid : (F st q).err = false := by
        cases hm : (F st q).err with
        | false => rfl
        | true => have := g2.sticky hm; rw [this, hm] at hne; cases hne
      exact g2.src_mono _ (m1 hmid)
    · exact m2 hne q hq

theorem importE_good (own : String → Trace) (importsOf : String → List String) (fuel : Nat) (st : ISt) (path : String) :
    Good importsOf st (importE own importsOf fuel st path) ∧
      ((importE own importsOf fuel st path).err = false → path ∈ (importE own importsOf fuel st path).srcPkg) := by
  induction fuel generalizing st path with
  | zero =>
    simp only [importE]
    refine ⟨⟨fun _ h => h, fun _ h => h, fun _ _ h => h, ?_, fun h => h, ⟨[], by simp⟩⟩, by simp⟩
    intro he; cases st; simp_all
  | succ f ih =>
    simp only [importE]
    by_cases he : st.err = true
    · rw [if_pos he]
      exact ⟨Good.refl _ _, by simp [he]⟩
    · by_cases hs : st.srcPkg.contains path = true
      · rw [if_neg he, if_pos hs]
        exact ⟨Good.refl _ _, fun _ => by simpa using hs⟩
      · by_cases hr : st.rdir.contains path = true
        · rw [if_neg he, if_neg hs, if_pos hr]
          refine ⟨⟨fun _ h => h, fun _ h => h, fun _ _ h => h, ?_, fun h => h, ⟨[], by simp⟩⟩, by simp⟩
          intro he'; exact absurd he' he
        · rw [if_neg he, if_neg hs, if_neg hr]
          have hsn : path ∉ st.srcPkg := by simpa using hs
          have hrn : path ∉ st.rdir := by simpa using hr
          -- the state after marking the path as being imported
          have g01 : Good importsOf st { st with rdir := path :: st.rdir } :=
            ⟨fun x h => by simp [h], fun _ h => h, fun _ _ h => h, fun h => absurd h he, fun h => h, ⟨[], by simp⟩⟩
          obtain ⟨g12, m12⟩ := fold_good importsOf (importE own importsOf f) (fun s p => ih s p)
            (importsOf path) { st with rdir := path :: st.rdir }
          generalize hst2 : (importsOf path).foldl (importE own importsOf f) { st with rdir := path :: st.rdir } = st2 at g12 m12 ⊢
          have g02 := g01.trans g12
          by_cases he2 : st2.err = true
          · rw [if_pos he2]
            exact ⟨g02, by simp [he2]⟩
          · rw [if_neg he2]
            have he2' : st2.err = false := by simpa using he2
            have hp2 : path ∉ st2.srcPkg := g12.pending path (by simp) (by simpa using hsn)
            refine ⟨⟨g02.rdir_mono, ?_, ?_, fun h => absurd h he, ?_, ?_⟩, by simp⟩
            · intro x hx; simp [g02.src_mono x hx]
            · intro x hx hn
              have hx2 := g02.pending x hx hn
              have hne : x ≠ path := fun h => hrn (h ▸ hx)
              simp [hx2, hne]
            · intro hinv
              obtain ⟨hnd, hiff, hcl⟩ := g02.inv hinv
              refine ⟨?_, ?_, ?_⟩
              · simp only
                rw [List.nodup_append]
                refine ⟨hnd, by simp, ?_⟩
                intro a ha b hb
                simp only [List.mem_singleton] at hb
                subst hb
                intro hab; subst hab
                exact hp2 ((hiff _).mpr ha)
              · intro x; simp only [List.mem_cons, List.mem_append, List.not_mem_nil, or_false, hiff x]
                constructor
                · rintro (h | h); exact .inr h; exact .inl h
                · rintro (h | h); exact .inr h; exact .inl h
              · simp only
                rw [closedFrom_append]
                refine ⟨hcl, ?_⟩
                simp only [List.nil_append, closedFrom, and_true]
                intro q hq
                exact (hiff q).mp (m12 he2' q hq)
            · obtain ⟨ext, hext⟩ := g02.prefix_
              exact ⟨ext ++ [path], by simp [hext]⟩

end YaegiVerif.Proofs.C15
