import YaegiVerif.Proofs.C02Core
namespace YaegiVerif.Proofs.C02
open YaegiVerif.Ops YaegiVerif.Spec.GoInt

variable {w : Nat}

/-! ### the guarded 64-bit shifts are the plain BitVec shifts -/

theorem shl64_eq (i : BitVec 64) (n : Nat) : shl64 i n = i <<< n := by
  unfold shl64; split
  · rename_i h; rw [BitVec.shiftLeft_eq_zero h]
  · rfl

theorem ushr64_eq (i : BitVec 64) (n : Nat) : ushr64 i n = i >>> n := by
  unfold ushr64; split
  · rename_i h; rw [BitVec.ushiftRight_eq_zero h]
  · rfl

theorem sshr64_eq (i : BitVec 64) (n : Nat) : sshr64 i n = i.sshiftRight n := by
  unfold sshr64; split
  · rename_i h
    apply BitVec.eq_of_getLsbD_eq
    intro k hk
    rw [BitVec.getLsbD_sshiftRight]
    have h2 : ¬ (n + k < 64) := by omega
    cases hm : i.msb
    · simp [hk, h2]
    · simp only [if_true, BitVec.getLsbD_allOnes, hk, h2, if_false, decide_true]
      simp [hk]
  · rfl

/-! ### shift count -/

theorem count_toNat (cs : Bool) {cw : Nat} (c : BitVec cw) (hc : cw ≤ 64) (h0 : 0 ≤ value cs c) :
    (widen cs c).toNat = (value cs c).toNat := by
  cases cs
  · simp [value, toNat_widen_false c hc]
  · have h1 : (widen true c).toInt = c.toInt := toInt_widen_true c hc
    simp only [value, if_true] at h0 ⊢
    have hm : (widen true c).msb = false := by
      rw [BitVec.msb_eq_toInt, h1]; exact decide_eq_false (by omega)
    have := BitVec.toInt_eq_toNat_of_msb hm
    omega

/-- the test of genValueShiftCount (`_ = 0 << i` on the int64 count) fires exactly on the negative counts of a signed kind -/
theorem count_neg_iff (cs : Bool) {cw : Nat} (c : BitVec cw) (hc : cw ≤ 64) :
    (cs = true ∧ (widen cs c).msb = true) ↔ value cs c < 0 := by
  cases cs
  · simp [value]
  · have h1 : (widen true c).toInt = c.toInt := toInt_widen_true c hc
    simp only [value, if_true, true_and]
    rw [BitVec.msb_eq_toInt, h1]
    simp

/-! ### left shift -/

theorem model_shl (s : Bool) (x : BitVec w) (n : Nat) (h : w ≤ 64) :
    ((widen s x) <<< n).setWidth w = wrap w (value s x * 2 ^ n) := by
  rw [setWidth_eq_ofInt_toNat, BitVec.toNat_shiftLeft, Nat.shiftLeft_eq]
  have e1 : (((widen s x).toNat * 2 ^ n % 2 ^ 64 : Nat) : Int) = (((widen s x).toNat : Int) * 2 ^ n) % ((2 ^ 64 : Nat) : Int) := by
    rw [Int.natCast_emod, Int.natCast_mul, Int.natCast_pow]; rfl
  rw [e1, ofInt_emod64 h, BitVec.ofInt_mul, ← setWidth_eq_ofInt_toNat, narrow_widen s x h]
  have e2 : BitVec.ofInt w (value s x) = x := wrap_value s x
  simp only [wrap, BitVec.ofInt_mul, e2]

/-! ### right shift -/

theorem model_sshr (x : BitVec w) (n : Nat) (h : w ≤ 64) :
    ((widen true x).sshiftRight n).setWidth w = wrap w (value true x / 2 ^ n) := by
  rw [setWidth_eq_ofInt_toInt _ h, BitVec.toInt_sshiftRight, Int.shiftRight_eq_div_pow, toInt_widen_true x h]
  simp [value, wrap]

theorem model_ushr (x : BitVec w) (n : Nat) (h : w ≤ 64) :
    ((widen false x) >>> n).setWidth w = wrap w (value false x / 2 ^ n) := by
  rw [setWidth_eq_ofInt_toNat, BitVec.toNat_ushiftRight, Nat.shiftRight_eq_div_pow, toNat_widen_false x h]
  simp [value, wrap, Int.natCast_ediv]

end YaegiVerif.Proofs.C02
