import YaegiVerif.Model.Env
import YaegiVerif.Spec.OsEnv
/-
  C13 — helper lemmas: the association-list environment of the model refines the map semantics.
-/
namespace YaegiVerif.Proofs.C13Env
open YaegiVerif.Env YaegiVerif.Spec.OsEnv

/-- abstraction: the finite map an association list denotes -/
def abs (e : Env) : EnvMap := fun k => get? e k

/-- the invariant of a Go map: names are pairwise distinct -/
def WF (e : Env) : Prop := (e.map (·.1)).Nodup

theorem get?_set (e : Env) (k v x : String) :
    get? (set e k v) x = if x = k then some v else get? e x := by
  induction e with
  | nil =>
    simp only [Env.set, get?]
    by_cases h : k = x
    · simp [h]
    · have h' : ¬ x = k := fun hh => h hh.symm
      simp [h, h']
  | cons p r ih =>
    obtain ⟨k', v'⟩ := p
    simp only [Env.set]
    by_cases hk : k' = k
    · subst hk
      simp only [if_true, get?]
      by_cases hx : k' = x
      · simp [hx]
      · have hx' : ¬ x = k' := fun hh => hx hh.symm
        simp [hx, hx']
    · simp only [hk, if_false, get?, ih]
      by_cases hx : k' = x
      · subst hx
        simp [hk]
      · simp [hx]

theorem get?_unset (e : Env) (k x : String) :
    get? (unset e k) x = if x = k then none else get? e x := by
  induction e with
  | nil => simp [unset, get?]
  | cons p r ih =>
    obtain ⟨k', v'⟩ := p
    simp only [unset]
    by_cases hk : k' = k
    · subst hk
      simp only [if_true, ih, get?]
      by_cases hx : x = k'
      · simp [hx]
      · have hx' : ¬ k' = x := fun hh => hx hh.symm
        simp [hx, hx']
    · simp only [hk, if_false, get?, ih]
      by_cases hx : k' = x
      · subst hx
        simp [hk]
      · simp [hx]

theorem mem_keys_set (e : Env) (k v x : String) :
    x ∈ (set e k v).map (·.1) ↔ x = k ∨ x ∈ e.map (·.1) := by
  induction e with
  | nil => simp [Env.set]
  | cons p r ih =>
    obtain ⟨k', v'⟩ := p
    simp only [Env.set]
    by_cases hk : k' = k
    · subst hk
      simp
    · simp only [hk, if_false, List.map_cons, List.mem_cons, ih]
      constructor
      · rintro (h | h | h)
        · exact Or.inr (Or.inl h)
        · exact Or.inl h
        · exact Or.inr (Or.inr h)
      · rintro (h | h | h)
        · exact Or.inr (Or.inl h)
        · exact Or.inl h
        · exact Or.inr (Or.inr h)

theorem WF_set (e : Env) (k v : String) (h : WF e) : WF (set e k v) := by
  induction e with
  | nil => simp [WF, Env.set]
  | cons p r ih =>
    obtain ⟨k', v'⟩ := p
    simp only [WF, List.map_cons, List.nodup_cons] at h
    simp only [Env.set]
    by_cases hk : k' = k
    · subst hk
      simp only [if_true, WF, List.map_cons, List.nodup_cons]
      exact h
    · simp only [hk, if_false, WF, List.map_cons, List.nodup_cons]
      refine ⟨?_, ih h.2⟩
      intro hm
      rcases (mem_keys_set r k v k').mp hm with h1 | h1
      · exact hk h1
      · exact h.1 h1

theorem mem_keys_unset (e : Env) (k x : String) :
    x ∈ (unset e k).map (·.1) ↔ x ≠ k ∧ x ∈ e.map (·.1) := by
  induction e with
  | nil => simp [unset]
  | cons p r ih =>
    obtain ⟨k', v'⟩ := p
    simp only [unset]
    by_cases hk : k' = k
    · subst hk
      simp only [if_true, ih, List.map_cons, List.mem_cons]
      constructor
      · rintro ⟨h1, h2⟩; exact ⟨h1, Or.inr h2⟩
      · rintro ⟨h1, h2 | h2⟩
        · exact absurd h2 h1
        · exact ⟨h1, h2⟩
    · simp only [hk, if_false, List.map_cons, List.mem_cons, ih]
      constructor
      · rintro (h | ⟨h1, h2⟩)
        · subst h; exact ⟨hk, Or.inl rfl⟩
        · exact ⟨h1, Or.inr h2⟩
      · rintro ⟨h1, h2 | h2⟩
        · exact Or.inl h2
        · exact Or.inr ⟨h1, h2⟩

theorem WF_unset (e : Env) (k : String) (h : WF e) : WF (unset e k) := by
  induction e with
  | nil => simp [WF, unset]
  | cons p r ih =>
    obtain ⟨k', v'⟩ := p
    simp only [WF, List.map_cons, List.nodup_cons] at h
    simp only [unset]
    by_cases hk : k' = k
    · simp only [hk, if_true]; exact ih h.2
    · simp only [hk, if_false, WF, List.map_cons, List.nodup_cons]
      refine ⟨?_, ih h.2⟩
      intro hm
      exact h.1 ((mem_keys_unset r k k').mp hm).2

theorem get?_none_of_not_mem (e : Env) (k : String) (h : k ∉ e.map (·.1)) : get? e k = none := by
  induction e with
  | nil => rfl
  | cons p r ih =>
    obtain ⟨k', v'⟩ := p
    simp only [List.map_cons, List.mem_cons, not_or] at h
    have h1 : ¬ k' = k := fun hh => h.1 hh.symm
    simp [get?, h1, ih h.2]

/-- under the invariant, the pairs of the list are exactly the graph of the map it denotes -/
theorem mem_iff_get? (e : Env) (h : WF e) (k v : String) : (k, v) ∈ e ↔ get? e k = some v := by
  induction e with
  | nil => simp [get?]
  | cons p r ih =>
    obtain ⟨k', v'⟩ := p
    simp only [WF, List.map_cons, List.nodup_cons] at h
    simp only [List.mem_cons, get?, Prod.mk.injEq]
    by_cases hk : k' = k
    · subst hk
      simp only [if_true, Option.some.injEq, true_and]
      constructor
      · rintro (h1 | h1)
        · exact h1.symm
        · exact absurd (List.mem_map.mpr ⟨(k', v), h1, rfl⟩) h.1
      · intro h1; exact Or.inl h1.symm
    · have hk' : ¬ k = k' := fun hh => hk hh.symm
      simp only [hk, if_false, hk', false_and, false_or]
      exact ih h.2

/-- every override body is correct with respect to the map semantics -/
theorem applyVirt_ok (e : Env) (hwf : WF e) (op : Op) :
    abs (applyVirt e op).1 = next (abs e) op ∧ okOut (abs e) op (applyVirt e op).2 ∧ WF (applyVirt e op).1 := by
  cases op with
  | setenv k v =>
    refine ⟨?_, rfl, WF_set e k v hwf⟩
    funext x
    simp [applyVirt, abs, next, EnvMap.set, get?_set]
  | unsetenv k =>
    refine ⟨?_, rfl, WF_unset e k hwf⟩
    funext x
    simp [applyVirt, abs, next, EnvMap.unset, get?_unset]
  | clearenv =>
    refine ⟨?_, rfl, by simp [applyVirt, WF]⟩
    funext x
    simp [applyVirt, abs, next, EnvMap.empty, get?]
  | getenv k => exact ⟨rfl, rfl, hwf⟩
  | lookupEnv k => exact ⟨rfl, rfl, hwf⟩
  | environ =>
    refine ⟨rfl, ⟨e, rfl, hwf, ?_⟩, hwf⟩
    intro k v
    exact mem_iff_get? e hwf k v
  | expandEnv s => exact ⟨rfl, rfl, hwf⟩

/-- every name of `Op.fn` is one of the seven -/
theorem fn_mem (op : Op) : op.fn ∈ ["Setenv", "Unsetenv", "Clearenv", "Getenv", "LookupEnv", "Environ", "ExpandEnv"] := by
  cases op <;> simp [Op.fn]

/-- **refinement**: if all seven functions work on the interpreter's map, then for every sequence of
    operations the host environment is untouched, the interpreter's map denotes the map the reference
    semantics reaches, every answer is a correct answer of the reference semantics, and the invariant holds -/
theorem run_refines (virt : List String) (hv : ∀ op : Op, virt.contains op.fn = true) (ops : List Op) :
    ∀ s : St, WF s.virt →
      (run virt s ops).1.host = s.host ∧
      abs (run virt s ops).1.virt = runMap (abs s.virt) ops ∧
      okRun (abs s.virt) ops (run virt s ops).2 ∧
      WF (run virt s ops).1.virt := by
  induction ops with
  | nil => intro s hwf; exact ⟨rfl, rfl, trivial, hwf⟩
  | cons op ops ih =>
    intro s hwf
    obtain ⟨h1, h2, h3⟩ := applyVirt_ok s.virt hwf op
    have hm : op.fn ∈ virt := by simpa using hv op
    have hs : step virt s op = ({ s with virt := (applyVirt s.virt op).1 }, (applyVirt s.virt op).2) := by
      simp [step, hm]
    obtain ⟨i1, i2, i3, i4⟩ := ih { s with virt := (applyVirt s.virt op).1 } h3
    simp only [run, hs, runMap, List.foldl_cons, okRun]
    refine ⟨i1, ?_, ⟨h2, ?_⟩, i4⟩
    · rw [i2, h1]; rfl
    · rw [← h1]; exact i3

/-- a function that is not virtualised never touches the interpreter's map … -/
theorem step_host_only (virt : List String) (s : St) (op : Op) (h : virt.contains op.fn = false) :
    (step virt s op).1.virt = s.virt := by
  have hm : ¬ op.fn ∈ virt := by simpa using h
  simp [step, hm]

/-- … and a virtualised one never touches the host environment -/
theorem step_virt_only (virt : List String) (s : St) (op : Op) (h : virt.contains op.fn = true) :
    (step virt s op).1.host = s.host := by
  have hm : op.fn ∈ virt := by simpa using h
  simp [step, hm]

/-! ### Options.Env -/

theorem splitN2_eq (e : List Char) : splitN2 e = splitEntry e := by
  induction e with
  | nil => rfl
  | cons c cs ih =>
    simp only [splitN2, splitEntry] at *
    by_cases h : c = '='
    · subst h; simp
    · simp [h, ih]

theorem parseEnv_refines_aux (es : List String) :
    ∀ (e : Env) (m : EnvMap), abs e = m → WF e →
      abs (es.foldl (fun e s => let kv := splitN2 s.toList; set e (String.ofList kv.1) (String.ofList kv.2)) e) =
        es.foldl (fun m e => let kv := splitEntry e.toList; m.set (String.ofList kv.1) (String.ofList kv.2)) m ∧
      WF (es.foldl (fun e s => let kv := splitN2 s.toList; set e (String.ofList kv.1) (String.ofList kv.2)) e) := by
  induction es with
  | nil => intro e m h hwf; exact ⟨h, hwf⟩
  | cons x xs ih =>
    intro e m h hwf
    simp only [List.foldl_cons]
    apply ih
    · funext y
      simp only [abs, get?_set, EnvMap.set, splitN2_eq, ← h]
    · exact WF_set _ _ _ hwf

/-- the map built from `Options.Env` denotes the reference reading of the entries (name up to the first `=`,
    later entries win) and satisfies the invariant -/
theorem parseEnv_refines (es : List String) : abs (parseEnv es) = ofEntries es ∧ WF (parseEnv es) := by
  apply parseEnv_refines_aux es [] EnvMap.empty
  · funext y; simp [abs, get?, EnvMap.empty]
  · simp [WF]

end YaegiVerif.Proofs.C13Env
