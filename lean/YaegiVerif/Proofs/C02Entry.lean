import YaegiVerif.Proofs.C02Core
namespace YaegiVerif.Proofs.C02
open YaegiVerif.Ops YaegiVerif.Spec.GoInt

/-! ## From a well-formed table entry to the structured operators -/

theorem norm64 (s : Bool) (v : BitVec 64) : norm s 64 v = v := by
  cases s <;> simp [norm]

/-- the conjuncts of `wfWiden` -/
theorem wfWiden_unpack (W : List WidenEntry) (hW : wfWiden W = true) :
    lookupWiden W .genValueInt .int = some .int ∧
    lookupWiden W .genValueInt .uint = some (.cast .tInt64 .uint) ∧
    lookupWiden W .genValueUint .int = some (.cast .tUint64 .int) ∧
    lookupWiden W .genValueUint .uint = some .uint ∧
    lookupWiden W .vInt .int = some .int ∧
    lookupWiden W .vInt .uint = some (.cast .tInt64 .uint) ∧
    lookupWiden W .vUint .int = some (.cast .tUint64 .int) ∧
    lookupWiden W .vUint .uint = some .uint ∧
    lookupWiden W .vInt .untypedConst = some .constInt64 ∧
    lookupWiden W .vUint .untypedConst = some .constUint64 ∧
    lookupWiden W .genValueShiftCount .int = some (.cast .tUint64 (.nonNeg .int)) ∧
    lookupWiden W .genValueShiftCount .uint = some .uint := by
  simpa [wfWiden, Bool.and_eq_true, and_assoc] using hW

/-- what `wfWiden` gives: every integer extractor yields the widened operand at the extractor's own Go type -/
theorem load_g (W : List WidenEntry) (hW : wfWiden W = true) (t s : Bool) (ch : Nat)
    {w : Nat} (x : BitVec w) (a b : Arg)
    (harg : (if ch = 0 then a else if ch = 1 then b else Arg.absent) = .typed s w x) :
    loadOperand W ⟨gX t, ch, .none⟩ a b = .val (some t, widen s x) ∧
    loadOperand W ⟨vX t, ch, .none⟩ a b = .val (some t, widen s x) := by
  obtain ⟨h1, h2, h3, h4, h5, h6, h7, h8, _, _, _, _⟩ := wfWiden_unpack W hW
  cases t <;> cases s <;>
    simp [loadOperand, gX, vX, harg, Arg.cls, h1, h2, h3, h4, h5, h6, h7, h8, evalConv, CastTy.int?, Outcome.map, norm64, widen]

/-- the run-time count of a shift, read through genValueShiftCount: a negative count of a signed kind panics, any
    other count arrives as uint64 -/
theorem load_count (W : List WidenEntry) (hW : wfWiden W = true) (cs : Bool) {cw : Nat} (c : BitVec cw) (a : Arg) :
    loadOperand W ⟨.genValueShiftCount, 1, .none⟩ a (.typed cs cw c) =
      if cs = true ∧ (widen cs c).msb = true then .panicShift else .val (some false, widen cs c) := by
  obtain ⟨_, _, _, _, _, _, _, _, _, _, h11, h12⟩ := wfWiden_unpack W hW
  cases cs
  · simp [loadOperand, Arg.cls, h12, evalConv, Outcome.map]
  · by_cases hm : (widen true c).msb = true
    · simp [loadOperand, Arg.cls, h11, evalConv, CastTy.int?, Outcome.map, Outcome.bind, hm]
    · simp [loadOperand, Arg.cls, h11, evalConv, CastTy.int?, Outcome.map, Outcome.bind, hm, norm64]

/-- tokens whose 64-bit result is a bit pattern / a Boolean -/
def Tok.isBits : Tok → Bool
  | .add | .sub | .mul | .quo | .rem | .and | .or | .xor | .andNot | .shl | .shr | .neg | .pos | .bitNot | .ident => true
  | _ => false
def Tok.isBool : Tok → Bool
  | .eql | .neq | .lss | .leq | .gtr | .geq => true
  | _ => false

theorem store_convert (ds : Bool) (dw : Nat) : storeRes .convertTyp ds dw = narrowRes dw := by
  funext r; cases r <;> rfl

theorem bind_store_bits (t : Tok) (ht : Tok.isBits t = true) (s cs : Bool) (i j : BitVec 64) (w : Nat) :
    (apply64 t s cs i j).bind (storeRes (setX s) s w) = (apply64 t s cs i j).bind (narrowRes w) := by
  by_cases hj : j = 0#64 <;> by_cases hc : (cs = true ∧ j.msb = true) <;>
    cases t <;> simp [Tok.isBits] at ht <;> cases s <;>
    simp [apply64, hj, hc, Outcome.bind, storeRes, narrowRes, setX]

theorem bind_store_bool (t : Tok) (ht : Tok.isBool t = true) (st : Store) (hst : st = .setBool ∨ st = .branch)
    (s cs : Bool) (i j : BitVec 64) (w : Nat) :
    (apply64 t s cs i j).bind (storeRes st s w) = (apply64 t s cs i j).bind (narrowRes w) := by
  rcases hst with rfl | rfl <;> cases t <;> simp [Tok.isBool] at ht <;>
    simp [apply64, Outcome.bind, storeRes, narrowRes]

theorem group_tok_bits (fn : Fn) (h1 : fn.group ≠ .other) (h2 : fn.group ≠ .cmp) : Tok.isBits fn.tok = true := by
  cases fn <;> simp_all [Fn.group, Fn.tok, Tok.isBits]

theorem group_tok_bool (fn : Fn) (h : fn.group = .cmp) : Tok.isBool fn.tok = true := by
  cases fn <;> simp_all [Fn.group, Fn.tok, Tok.isBool]

/-- whatever store the template prescribes, it narrows the 64-bit result to the destination -/
theorem bind_expStore (fn : Fn) (hg : fn.group ≠ .other) (s cs : Bool) (v : Variant) (sb : Sub) (i j : BitVec 64) (w : Nat) :
    (apply64 fn.tok s cs i j).bind (storeRes (expStore fn.group s v sb) s w) = (apply64 fn.tok s cs i j).bind (narrowRes w) := by
  by_cases hc : fn.group = .cmp
  · have hb := group_tok_bool fn hc
    simp only [hc, expStore]
    by_cases hv : v = .iface
    · simp [hv, store_convert]
    · by_cases hs : sb = .br
      · simp only [hv, hs, if_false, if_true]; exact bind_store_bool _ hb _ (Or.inr rfl) _ _ _ _ _
      · simp only [hv, hs, if_false]; exact bind_store_bool _ hb _ (Or.inl rfl) _ _ _ _ _
  · have hb := group_tok_bits fn hg hc
    have key := bind_store_bits _ hb s cs i j w
    cases hgr : fn.group <;> simp_all [expStore] <;> (by_cases hv : v = .iface <;> simp [hv, store_convert, key])

/-- the shapes of the entries of a well-formed table -/
theorem wf_unpack (e : Entry) (h : wfEntry e = true) :
    e.cls.isInt = true ∧ e.fn.group ≠ .other ∧ e.l = expL e.fn.group e.cls.signed e.variant ∧
    e.r = expR e.fn.group e.cls.signed e.variant ∧ e.tok = e.fn.tok ∧
    e.store = expStore e.fn.group e.cls.signed e.variant e.sub := by
  simpa [wfEntry, Bool.and_eq_true, and_assoc] using h

/-- binary closures (arithmetic, op-assign, folding, comparison) on two operands of the entry's own kind class -/
theorem entry_binary (W : List WidenEntry) (hW : wfWiden W = true) (e : Entry) (hwf : wfEntry e = true)
    (hg : e.fn.group = .arith ∨ e.fn.group = .assign ∨ e.fn.group = .fold ∨ e.fn.group = .cmp)
    {w : Nat} (x y : BitVec w) :
    evalEntry W e (.typed e.cls.signed w x) (.typed e.cls.signed w y) e.cls.signed w = binop e.tok e.cls.signed x y := by
  obtain ⟨_, hgo, hl, hr, ht, hs⟩ := wf_unpack e hwf
  have L := load_g W hW e.cls.signed e.cls.signed 0 x (.typed e.cls.signed w x) (.typed e.cls.signed w y) (by simp)
  have R := load_g W hW e.cls.signed e.cls.signed 1 y (.typed e.cls.signed w x) (.typed e.cls.signed w y) (by simp)
  have hl' : loadOperand W e.l (.typed e.cls.signed w x) (.typed e.cls.signed w y) = .val (some e.cls.signed, widen e.cls.signed x) := by
    rw [hl]; rcases hg with h | h | h | h <;> simp only [h, expL] <;> (try split) <;> first | exact L.1 | exact L.2
  have hr' : loadOperand W e.r (.typed e.cls.signed w x) (.typed e.cls.signed w y) = .val (some e.cls.signed, widen e.cls.signed y) := by
    rw [hr]; rcases hg with h | h | h | h <;> simp only [h, expR] <;> (try split) <;> first | exact R.1 | exact R.2
  have hne : e.r.ext ≠ .none := by
    rw [hr]; rcases hg with h | h | h | h <;> simp only [h, expR] <;> (try split) <;>
      cases e.cls.signed <;> simp [gX, vX]
  unfold evalEntry binop
  rw [hl']; simp only [Outcome.bind, hne, if_false]
  rw [hr']; simp only [Option.getD]
  rw [hs, ht]; exact bind_expStore e.fn hgo _ _ _ _ _ _ _

/-- which shift closures have a compile-time count (read through vUint) -/
def ConstCount (e : Entry) : Prop :=
  (e.variant = .cr ∧ (e.fn.group = .shift ∨ e.fn.group = .shiftAssign)) ∨ e.fn.group = .shiftFold

/-- … and which have a run-time count (read through genValueShiftCount) -/
def RunCount (e : Entry) : Prop :=
  e.variant ≠ .cr ∧ (e.fn.group = .shift ∨ e.fn.group = .shiftAssign)

instance (e : Entry) : Decidable (ConstCount e) := by unfold ConstCount; infer_instance
instance (e : Entry) : Decidable (RunCount e) := by unfold RunCount; infer_instance

/-- shift closures with a compile-time count: the count has its own kind and is read as an unsigned 64-bit number -/
theorem entry_shift_const (W : List WidenEntry) (hW : wfWiden W = true) (e : Entry) (hwf : wfEntry e = true)
    (hg : ConstCount e) {w : Nat} (x : BitVec w) (cs : Bool) {cw : Nat} (c : BitVec cw) :
    evalEntry W e (.typed e.cls.signed w x) (.typed cs cw c) e.cls.signed w = shiftop e.tok e.cls.signed x cs c := by
  obtain ⟨_, hgo, hl, hr, ht, hs⟩ := wf_unpack e hwf
  have L := load_g W hW e.cls.signed e.cls.signed 0 x (.typed e.cls.signed w x) (.typed cs cw c) (by simp)
  have R := load_g W hW false cs 1 c (.typed e.cls.signed w x) (.typed cs cw c) (by simp)
  have hl' : loadOperand W e.l (.typed e.cls.signed w x) (.typed cs cw c) = .val (some e.cls.signed, widen e.cls.signed x) := by
    rw [hl]; rcases hg with ⟨_, h | h⟩ | h <;> simp only [h, expL] <;> (try split) <;> first | exact L.1 | exact L.2
  have hr0 : e.r = ⟨.vUint, 1, .none⟩ := by
    rw [hr]; rcases hg with ⟨hv, h | h⟩ | h
    · simp [h, hv, expR]
    · simp [h, hv, expR]
    · simp [h, expR]
  have hr' : loadOperand W e.r (.typed e.cls.signed w x) (.typed cs cw c) = .val (some false, widen cs c) := by
    rw [hr0]; exact R.2
  have hne : e.r.ext ≠ .none := by rw [hr0]; simp
  unfold evalEntry shiftop
  rw [hl']; simp only [Outcome.bind, hne, if_false]
  rw [hr']; simp only [Option.getD]
  rw [hs, ht]; exact bind_expStore e.fn hgo _ _ _ _ _ _ _

/-- shift closures with a run-time count: a negative count of a signed kind panics -/
theorem entry_shift_run (W : List WidenEntry) (hW : wfWiden W = true) (e : Entry) (hwf : wfEntry e = true)
    (hg : RunCount e) {w : Nat} (x : BitVec w) (cs : Bool) {cw : Nat} (c : BitVec cw) :
    evalEntry W e (.typed e.cls.signed w x) (.typed cs cw c) e.cls.signed w = shiftopRun e.tok e.cls.signed x cs c := by
  obtain ⟨_, hgo, hl, hr, ht, hs⟩ := wf_unpack e hwf
  obtain ⟨hv, hg⟩ := hg
  have L := load_g W hW e.cls.signed e.cls.signed 0 x (.typed e.cls.signed w x) (.typed cs cw c) (by simp)
  have hl' : loadOperand W e.l (.typed e.cls.signed w x) (.typed cs cw c) = .val (some e.cls.signed, widen e.cls.signed x) := by
    rw [hl]; rcases hg with h | h <;> simp only [h, expL] <;> (try split) <;> first | exact L.1 | exact L.2
  have hr0 : e.r = ⟨.genValueShiftCount, 1, .none⟩ := by
    rw [hr]; rcases hg with h | h <;> simp [h, hv, expR]
  have hne : e.r.ext ≠ .none := by rw [hr0]; simp
  unfold evalEntry shiftopRun shiftop
  rw [hl']; simp only [Outcome.bind, hne, if_false]
  rw [hr0, load_count W hW cs c]
  by_cases hm : cs = true ∧ (widen cs c).msb = true
  · rw [if_pos hm, if_pos hm]
  · rw [if_neg hm, if_neg hm]; simp only [Option.getD]
    rw [hs, ht]; exact bind_expStore e.fn hgo _ _ _ _ _ _ _

/-- `x++`, `x--` -/
theorem entry_incdec (W : List WidenEntry) (hW : wfWiden W = true) (e : Entry) (hwf : wfEntry e = true)
    (hg : e.fn.group = .incdec) {w : Nat} (x : BitVec w) :
    evalEntry W e (.typed e.cls.signed w x) .absent e.cls.signed w = incdecop e.tok e.cls.signed x := by
  obtain ⟨_, hgo, hl, hr, ht, hs⟩ := wf_unpack e hwf
  have L := load_g W hW e.cls.signed e.cls.signed 0 x (.typed e.cls.signed w x) .absent (by simp)
  have hl' : loadOperand W e.l (.typed e.cls.signed w x) .absent = .val (some e.cls.signed, widen e.cls.signed x) := by
    rw [hl]; simp only [hg, expL]; exact L.1
  unfold evalEntry incdecop
  rw [hl', hr]; simp only [Outcome.bind, hg, expR, loadOperand, Option.getD]
  simp only [reduceCtorEq, if_false]
  rw [hs, ht]; exact bind_expStore e.fn hgo _ _ _ _ _ _ _

/-- unary `-x`, `^x` (and their compile-time forms) -/
theorem entry_unary (W : List WidenEntry) (e : Entry) (hwf : wfEntry e = true)
    (hg : e.fn.group = .unaryRun ∨ e.fn.group = .unaryFold) {w : Nat} (x : BitVec w) :
    evalEntry W e (.typed e.cls.signed w x) .absent e.cls.signed w = unop e.tok e.cls.signed x := by
  obtain ⟨_, hgo, hl, hr, ht, hs⟩ := wf_unpack e hwf
  have hl' : loadOperand W e.l (.typed e.cls.signed w x) .absent = .val (some e.cls.signed, widen e.cls.signed x) := by
    rw [hl]; rcases hg with h | h <;> simp only [h, expL] <;> cases e.cls.signed <;>
      simp [loadOperand, accX, evalConv, Outcome.map]
  unfold evalEntry unop
  rw [hl', hr]
  have : (expR e.fn.group e.cls.signed e.variant).ext = .none := by
    rcases hg with h | h <;> simp [h, expR]
  simp only [Outcome.bind, this, if_true, Option.getD]
  rw [hs, ht]; exact bind_expStore e.fn hgo _ _ _ _ _ _ _

end YaegiVerif.Proofs.C02
