import YaegiVerif.Model.Debug
/-
  C19 — the debug loop executes exactly what the plain loop executes (lock-step simulation),
  the depth counter counts live activations, and a terminated session is silent.
-/
namespace YaegiVerif.Proofs.C19
open YaegiVerif.Debug

/-- no terminate request was made and none is pending -/
def NoTerm (d : DCfg σ) : Prop := d.dbg.mode ≠ .terminate ∧ Cmd.terminate ∉ d.cmds

theorem setMode_noterm (d : Dbg) (r : StepReq) (h : d.mode ≠ .terminate) : (d.setMode r).mode ≠ .terminate := by
  unfold Dbg.setMode
  split
  · exact h
  · split
    · exact h
    · cases r <;> simp

theorem apply_noterm (d : Dbg) (c : Cmd) (h : d.mode ≠ .terminate) (hc : c ≠ .terminate) :
    (d.apply c).mode ≠ .terminate := by
  cases c with
  | cont => simp [Dbg.apply]
  | step r => exact setMode_noterm d r h
  | terminate => exact absurd rfl hc

theorem setMode_depth (d : Dbg) (r : StepReq) : (d.setMode r).fDepth = d.fDepth := by
  unfold Dbg.setMode
  split
  · rfl
  · split
    · rfl
    · cases r <;> rfl

theorem apply_depth (d : Dbg) (c : Cmd) : (d.apply c).fDepth = d.fDepth := by
  cases c with
  | cont => rfl
  | step r => exact setMode_depth d r
  | terminate => rfl

theorem dbgExec_depth (F : LoopFacts) (g : Graph) (mk : Nat → Bool) (d : Dbg) (m : Option Nat)
    (cmds : List Cmd) (k : Nat) : (dbgExec F g mk d m cmds k).dbg.fDepth = d.fDepth := by
  unfold dbgExec
  by_cases hv : visible g m = true
  · by_cases ht : d.mode = .terminate
    · simp [hv, ht]
    · cases hr : stopReason F mk d m with
      | none => simp [hv, ht]
      | some r => cases cmds <;> simp [hv, ht, apply_depth]
  · simp [hv]

theorem dbgExec_noterm (F : LoopFacts) (g : Graph) (mk : Nat → Bool) (d : Dbg) (m : Option Nat)
    (cmds : List Cmd) (k : Nat) (h : d.mode ≠ .terminate) (hc : Cmd.terminate ∉ cmds) :
    (dbgExec F g mk d m cmds k).stop = false ∧ (dbgExec F g mk d m cmds k).dbg.mode ≠ .terminate ∧
      Cmd.terminate ∉ (dbgExec F g mk d m cmds k).cmds := by
  unfold dbgExec
  by_cases hv : visible g m = true
  · cases hr : stopReason F mk d m with
    | none => simp [hv, h]; exact hc
    | some r =>
      cases cmds with
      | nil => simp [hv, h, Dbg.apply]
      | cons c cs =>
        simp only [List.mem_cons, not_or] at hc
        simp [hv, h]
        exact ⟨apply_noterm d c h (fun e => hc.1 e.symm), hc.2⟩
  · simp [hv]; exact ⟨h, hc⟩

@[simp] theorem bump_cur (S : Setup) (fr : DFrame) : (S.bump fr).cur = fr.cur := rfl
@[simp] theorem bump_m (S : Setup) (fr : DFrame) : (S.bump fr).m = fr.m := rfl
@[simp] theorem bump_start (S : Setup) (fr : DFrame) : (S.bump fr).start = fr.start := rfl

theorem consult_frame (S : Setup) (d : DCfg σ) (fr : DFrame) :
    (consult S d fr).2.st = d.st ∧ (consult S d fr).2.stack = d.stack ∧ (consult S d fr).2.ctl = d.ctl ∧
      (consult S d fr).2.trace = d.trace ∧ (consult S d fr).2.dbg.fDepth = d.dbg.fDepth := by
  simp [consult, dbgExec_depth]

theorem consult_noterm (S : Setup) (d : DCfg σ) (fr : DFrame) (h : NoTerm d) :
    (consult S d fr).1 = false ∧ NoTerm (consult S d fr).2 := by
  have := dbgExec_noterm S.F S.g (S.hit fr.prev) d.dbg (S.m fr) d.cmds d.trace.length h.1 h.2
  exact ⟨this.1, this.2.1, this.2.2⟩

theorem dapply_proj (S : Setup) (d : DCfg σ) (a : Act) (h : NoTerm d) :
    (dapply S d a).proj = papply d.proj a ∧ NoTerm (dapply S d a) := by
  unfold dapply papply
  cases hs : d.stack with
  | nil =>
    cases a with
    | next c => simp [DCfg.proj, hs]; exact h
    | call s e => cases e <;> simp [DCfg.proj, hs] <;> exact h
    | panic => simp [DCfg.proj, hs]; exact h
  | cons fr rest =>
    cases a with
    | next c =>
      cases c with
      | none => simp [DCfg.proj, hs, leave]; exact h
      | some c' =>
        have hc := consult_noterm S d fr h
        have hf := consult_frame S d fr
        by_cases hx : S.F.execFirst = true
        · simp [DCfg.proj, hs, hx, hc.1, hf.1, hf.2.2.2.1]
          exact hc.2
        · simp [DCfg.proj, hs, hx]; exact h
    | call s e => cases e <;> simp [DCfg.proj, hs] <;> exact h
    | panic => simp [DCfg.proj, hs]; exact h

/-- one step of the debug loop is one step of the plain loop, as long as nobody asks to terminate -/
theorem dstep_proj (S : Setup) (P : Prog σ) (d : DCfg σ) (h : NoTerm d) :
    (dstep S P d).proj = pstep P d.proj ∧ NoTerm (dstep S P d) := by
  unfold dstep pstep
  cases hc : d.ctl with
  | halt b => simp [DCfg.proj, hc]; exact h
  | resume =>
    cases hs : d.stack with
    | nil =>
      have key := dapply_proj S { d with st := (P.step d.st baseClo true).1 } (P.step d.st baseClo true).2 h
      simp only [DCfg.proj, hs, List.map_nil] at key
      simp only [DCfg.proj, hc, hs, List.map_nil]
      exact key
    | cons fr rest =>
      have key := dapply_proj S { d with st := (P.step d.st fr.cur true).1 } (P.step d.st fr.cur true).2 h
      simp only [DCfg.proj, hs, List.map_cons] at key
      simp only [DCfg.proj, hc, hs, List.map_cons]
      exact key
  | start =>
    cases hs : d.stack with
    | nil => simp [DCfg.proj, hc, hs]; exact h
    | cons fr rest =>
      by_cases hx : S.F.execFirst = true
      · have key := dapply_proj S { d with st := (P.step d.st fr.cur false).1, trace := fr.cur :: d.trace, log := .exec fr.cur.owner :: d.log }
          (P.step d.st fr.cur false).2 h
        simp only [DCfg.proj, hs, List.map_cons] at key
        simp only [DCfg.proj, hc, hs, hx, List.map_cons, if_true]
        exact key
      · have hq := consult_noterm S d fr h
        have hf := consult_frame S d fr
        have key := dapply_proj S { (consult S d fr).2 with st := (P.step d.st fr.cur false).1,
                                                            trace := fr.cur :: d.trace, log := .exec fr.cur.owner :: d.log }
          (P.step d.st fr.cur false).2 hq.2
        simp only [DCfg.proj, hf.2.1, hs, List.map_cons] at key
        simp only [DCfg.proj, hc, hs, hx, hq.1, List.map_cons]
        rw [hf.2.2.1, hc] at key
        simp only [hf.2.1, hf.2.2.1, hs, hc]
        exact key

theorem drun_proj (S : Setup) (P : Prog σ) (n : Nat) (d : DCfg σ) (h : NoTerm d) :
    (drun S P n d).proj = prun P n d.proj ∧ NoTerm (drun S P n d) := by
  induction n generalizing d with
  | zero => exact ⟨rfl, h⟩
  | succ n ih =>
    have h1 := dstep_proj S P d h
    have h2 := ih (dstep S P d) h1.2
    simp only [drun, prun]
    rw [← h1.1]
    exact h2

/-! ### fDepth counts the live activations -/

def DepthOk (d : DCfg σ) : Prop := d.dbg.fDepth = d.stack.length

theorem dapply_depth (S : Setup) (d : DCfg σ) (a : Act) (h : DepthOk d) : DepthOk (dapply S d a) := by
  unfold DepthOk at *
  unfold dapply
  cases hs : d.stack with
  | nil =>
    rw [hs] at h
    cases a with
    | next c => simpa [hs] using h
    | call s e => cases e <;> simp [Dbg.enter] <;> simpa using h
    | panic => simpa [hs] using h
  | cons fr rest =>
    rw [hs] at h
    simp only [List.length_cons] at h
    cases a with
    | next c =>
      cases c with
      | none => simp [leave, Dbg.exit]; omega
      | some c' =>
        have hf := consult_frame S d fr
        by_cases hx : S.F.execFirst = true
        · simp only [hx, if_true]
          split
          · simp [leave, Dbg.exit, hf.2.2.2.2]; omega
          · simp [hf.2.2.2.2]; omega
        · simp [hx]; omega
    | call s e => cases e <;> simp [Dbg.enter] <;> omega
    | panic => simp; omega

theorem depthOk_of (d d' : DCfg σ) (h : DepthOk d) (h1 : d'.dbg.fDepth = d.dbg.fDepth) (h2 : d'.stack = d.stack) :
    DepthOk d' := by
  unfold DepthOk at *; rw [h1, h2]; exact h

theorem dstep_depth (S : Setup) (P : Prog σ) (d : DCfg σ) (h : DepthOk d) : DepthOk (dstep S P d) := by
  unfold dstep
  cases hc : d.ctl with
  | halt b => simpa using h
  | resume => exact dapply_depth S _ _ (depthOk_of d _ h rfl rfl)
  | start =>
    cases hs : d.stack with
    | nil => exact depthOk_of d _ h rfl hs.symm
    | cons fr rest =>
      have hf := consult_frame S d fr
      by_cases hx : S.F.execFirst = true
      · simp only [hx, if_true]
        exact dapply_depth S _ _ (depthOk_of d _ h rfl hs.symm)
      · simp only [hx, Bool.false_eq_true, ↓reduceIte]
        by_cases hq : (consult S d fr).1 = true
        · simp only [hq, if_true]
          unfold DepthOk at *
          rw [hs] at h
          simp only [List.length_cons] at h
          simp only [leave, Dbg.exit, hf.2.2.2.2]
          omega
        · simp only [hq, Bool.false_eq_true, ↓reduceIte]
          exact dapply_depth S _ _ (depthOk_of d _ h hf.2.2.2.2 (hf.2.1.trans rfl))

theorem drun_depth (S : Setup) (P : Prog σ) (n : Nat) (d : DCfg σ) (h : DepthOk d) : DepthOk (drun S P n d) := by
  induction n generalizing d with
  | zero => exact h
  | succ n ih => exact ih _ (dstep_depth S P d h)

/-! ### events -/

/-- reasons `(*Debugger).exec` can report -/
def StopReason (r : Reason) : Prop := r = .brk ∨ r = .pause ∨ r = .entry ∨ r = .into ∨ r = .over ∨ r = .out

theorem stopReason_ok (F : LoopFacts) (mk : Nat → Bool) (d : Dbg) (m : Option Nat) (r : Reason)
    (hm : d.mode ≠ .terminate) (h : stopReason F mk d m = some r) : StopReason r := by
  unfold stopReason at h
  unfold StopReason
  split at h
  · simp at h; simp [← h]
  · cases hmode : d.mode <;> simp [hmode, Mode.reason] at h hm
    · simp [← h]
    · simp [← h]
    · simp [← h]
    · simp [← h.2]
    · simp [← h.2]

theorem dbgExec_event (F : LoopFacts) (g : Graph) (mk : Nat → Bool) (d : Dbg) (m : Option Nat)
    (cmds : List Cmd) (k : Nat) (e : Event) (h : (dbgExec F g mk d m cmds k).ev = some e) :
    StopReason e.reason ∧ d.mode ≠ .terminate := by
  unfold dbgExec at h
  split at h
  · simp at h
  · split at h
    · simp at h
    · rename_i hm
      split at h
      · simp at h
      · rename_i r hr
        have := stopReason_ok F mk d m r hm hr
        split at h <;> simp at h <;> simp [← h, this, hm]

def EventsOk (d : DCfg σ) : Prop := ∀ e ∈ d.events, StopReason e.reason

theorem consult_events (S : Setup) (d : DCfg σ) (fr : DFrame) (h : EventsOk d) : EventsOk (consult S d fr).2 := by
  unfold EventsOk consult
  intro e he
  simp only at he
  split at he
  · rename_i e' he'
    simp only [List.mem_cons] at he
    cases he with
    | inl h1 => rw [h1]; exact (dbgExec_event _ _ _ _ _ _ _ _ he').1
    | inr h1 => exact h e h1
  · exact h e he

theorem dapply_events (S : Setup) (d : DCfg σ) (a : Act) (h : EventsOk d) : EventsOk (dapply S d a) := by
  unfold dapply
  cases hs : d.stack with
  | nil =>
    cases a with
    | next c => exact h
    | call s e => cases e <;> exact h
    | panic => exact h
  | cons fr rest =>
    cases a with
    | next c =>
      cases c with
      | none => exact h
      | some c' =>
        have := consult_events S d fr h
        by_cases hx : S.F.execFirst = true
        · simp only [hx, if_true]
          split
          · exact this
          · exact this
        · simp only [hx]; exact h
    | call s e => cases e <;> exact h
    | panic => exact h

theorem dstep_events (S : Setup) (P : Prog σ) (d : DCfg σ) (h : EventsOk d) : EventsOk (dstep S P d) := by
  unfold dstep
  cases hc : d.ctl with
  | halt b => exact h
  | resume => exact dapply_events S _ _ h
  | start =>
    cases hs : d.stack with
    | nil => exact h
    | cons fr rest =>
      have := consult_events S d fr h
      by_cases hx : S.F.execFirst = true
      · simp only [hx, if_true]
        exact dapply_events S _ _ h
      · simp only [hx, Bool.false_eq_true, ↓reduceIte]
        by_cases hq : (consult S d fr).1 = true
        · simp only [hq, ↓reduceIte]; exact this
        · simp only [hq, Bool.false_eq_true, ↓reduceIte]
          exact dapply_events S _ _ this

theorem drun_events (S : Setup) (P : Prog σ) (n : Nat) (d : DCfg σ) (h : EventsOk d) : EventsOk (drun S P n d) := by
  induction n generalizing d with
  | zero => exact h
  | succ n ih => exact ih _ (dstep_events S P d h)

/-! ### after a terminate request nothing more is reported -/

theorem dbgExec_terminated (F : LoopFacts) (g : Graph) (mk : Nat → Bool) (d : Dbg) (m : Option Nat)
    (cmds : List Cmd) (k : Nat) (h : d.mode = .terminate) :
    (dbgExec F g mk d m cmds k).ev = none ∧ (dbgExec F g mk d m cmds k).dbg = d := by
  unfold dbgExec
  split
  · exact ⟨rfl, rfl⟩
  · simp

def Silent (es : List Event) (d : DCfg σ) : Prop := d.dbg.mode = .terminate ∧ d.events = es

theorem consult_silent (S : Setup) (es : List Event) (d : DCfg σ) (fr : DFrame) (h : Silent es d) :
    Silent es (consult S d fr).2 := by
  have := dbgExec_terminated S.F S.g (S.hit fr.prev) d.dbg (S.m fr) d.cmds d.trace.length h.1
  unfold Silent consult
  simp [this.1, this.2, h.1, h.2]

theorem dapply_silent (S : Setup) (es : List Event) (d : DCfg σ) (a : Act) (h : Silent es d) :
    Silent es (dapply S d a) := by
  unfold dapply
  cases hs : d.stack with
  | nil =>
    cases a with
    | next c => exact h
    | call s e => cases e <;> exact h
    | panic => exact h
  | cons fr rest =>
    cases a with
    | next c =>
      cases c with
      | none => exact h
      | some c' =>
        have := consult_silent S es d fr h
        by_cases hx : S.F.execFirst = true
        · simp only [hx, if_true]
          split
          · exact this
          · exact this
        · simp only [hx]; exact h
    | call s e => cases e <;> exact h
    | panic => exact h

theorem dstep_silent (S : Setup) (P : Prog σ) (es : List Event) (d : DCfg σ) (h : Silent es d) :
    Silent es (dstep S P d) := by
  unfold dstep
  cases hc : d.ctl with
  | halt b => exact h
  | resume => exact dapply_silent S es _ _ h
  | start =>
    cases hs : d.stack with
    | nil => exact h
    | cons fr rest =>
      have := consult_silent S es d fr h
      by_cases hx : S.F.execFirst = true
      · simp only [hx, if_true]
        exact dapply_silent S es _ _ h
      · simp only [hx, Bool.false_eq_true, ↓reduceIte]
        by_cases hq : (consult S d fr).1 = true
        · simp only [hq, ↓reduceIte]; exact this
        · simp only [hq, Bool.false_eq_true, ↓reduceIte]
          exact dapply_silent S es _ _ this

theorem drun_silent (S : Setup) (P : Prog σ) (es : List Event) (n : Nat) (d : DCfg σ) (h : Silent es d) :
    Silent es (drun S P n d) := by
  induction n generalizing d with
  | zero => exact h
  | succ n ih => exact ih _ (dstep_silent S P es d h)

end YaegiVerif.Proofs.C19
