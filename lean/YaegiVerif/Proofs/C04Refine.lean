import YaegiVerif.Proofs.C04Define
/-
  C04 — statement by statement: on the domain (no divergence class) the mechanism model, run with
  today's facts, computes exactly the state the specification computes.
-/
namespace YaegiVerif.Share
open YaegiVerif.Expected.C04 (share)

/-- the three ways an expression node can end, with the specification's view of each -/
theorem evalSlot_cases (st : St) (r : RExp) :
    (∃ e, evalSlot st r = .error e ∧ Spec.evalR st r = .error e) ∨
    (∃ s st1 v, evalSlot st r = .ok (s, st1) ∧ slotVal st1 s = .ok v ∧ Spec.evalR st r = .ok (v, st1) ∧ Ext st st1) := by
  obtain ⟨hok, herr⟩ := evalSlot_spec r st
  cases he : evalSlot st r with
  | error e => exact .inl ⟨e, rfl, herr e he⟩
  | ok p =>
    obtain ⟨s, st1⟩ := p
    obtain ⟨hext, _, v, hsv, hspec⟩ := hok s st1 he
    exact .inr ⟨s, st1, v, rfl, hsv, hspec, hext⟩

theorem evalSlots_cases (st : St) (rs : List RExp) :
    (∃ e, evalSlots st rs = .error e ∧ Spec.evalAll st rs = .error e) ∨
    (∃ ss st1 vs, evalSlots st rs = .ok (ss, st1) ∧ readSlots st1 ss = .ok vs ∧ Spec.evalAll st rs = .ok (vs, st1) ∧ Ext st st1) := by
  obtain ⟨hok, herr⟩ := evalSlots_spec rs st
  cases he : evalSlots st rs with
  | error e => exact .inl ⟨e, rfl, herr e he⟩
  | ok p =>
    obtain ⟨ss, st1⟩ := p
    obtain ⟨hext, vs, hrs, hspec⟩ := hok ss st1 he
    exact .inr ⟨ss, st1, vs, rfl, hrs, hspec, hext⟩

theorem storeResult_spec (st : St) (isDef : Bool) (l : LExp) (v : Val) :
    storeResult share st isDef l v = Spec.store st isDef l v := by
  unfold storeResult Spec.store
  cases isDef with
  | false => rfl
  | true =>
    cases l with
    | var x =>
      simp only [if_true, share_defineFresh]
      cases lookupEnv st.env x <;> rfl
    | field l i => rfl
    | index l i => rfl
    | deref l => rfl

theorem isCompositeLit_false_of {r : RExp} (h1 : isStructLit r = false) (h2 : isArrayLit r = false) :
    isCompositeLit r = false := by simp [isCompositeLit, h1, h2]

/-- `l = r` -/
theorem assignY_spec (st : St) (l : LExp) (r : RExp) :
    assignY share st l r = Spec.assign st l r := by
  unfold assignY Spec.assign
  cases l with
  | var x =>
    simp only [resolve, share_litShortcut, Bool.true_and, share_assignCopies, if_true, bind, Except.bind]
    cases hc : isCompositeLit r with
    | true =>
      simp only [if_true]
      cases hv : st.var x with
      | error e => rfl
      | ok d =>
        simp only
        rcases evalSlot_cases st r with ⟨e, h1, h2⟩ | ⟨s, st1, v, h1, h2, h3, h4⟩
        · simp [h1, h2]
        · simp [h1, h2, h3, storeShortcut, litFresh, share_arrayLitSets, share_structLitAssignSets, share_arrayLitAssignInPlace,
            bind, Except.bind, h4.var x, hv]
    | false =>
      simp only [Bool.false_eq_true, if_false]
      cases hv : st.var x with
      | error e => rfl
      | ok d =>
        simp only
        rcases evalSlot_cases st r with ⟨e, h1, h2⟩ | ⟨s, st1, v, h1, h2, h3, h4⟩
        · simp [h1, h2]
        · simp [h1, h2, h3]
  | field l i =>
    simp only [bind, Except.bind]
    cases hv : resolve st (.field l i) with
    | error e => rfl
    | ok d =>
      simp only
      rcases evalSlot_cases st r with ⟨e, h1, h2⟩ | ⟨s, st1, v, h1, h2, h3, h4⟩
      · simp [h1, h2]
      · simp [h1, h2, h3]
  | index l i =>
    simp only [bind, Except.bind]
    cases hv : resolve st (.index l i) with
    | error e => rfl
    | ok d =>
      simp only
      rcases evalSlot_cases st r with ⟨e, h1, h2⟩ | ⟨s, st1, v, h1, h2, h3, h4⟩
      · simp [h1, h2]
      · simp [h1, h2, h3]
  | deref l =>
    simp only [bind, Except.bind]
    cases hv : resolve st (.deref l) with
    | error e => rfl
    | ok d =>
      simp only
      rcases evalSlot_cases st r with ⟨e, h1, h2⟩ | ⟨s, st1, v, h1, h2, h3, h4⟩
      · simp [h1, h2]
      · simp [h1, h2, h3]

/-- with today's facts a composite literal in a declaration always gives the variable a new cell (struct literals:
    doComposite assigns the slot; array / slice / map literals: genValueLit, since commit 1436613 of the repository) -/
theorem litFresh_define (r : RExp) (h : isCompositeLit r = true) : litFresh share false r = true := by
  simp only [litFresh, share_structLitSetsSlot, share_arrayLitSets, share_arrayLitFresh, Bool.false_and, Bool.not_false,
    Bool.and_true, Bool.not_true, Bool.false_or]
  simpa [isCompositeLit] using h

/-- `x := r` — on every execution, first or repeated -/
theorem defineY_spec (st : St) (x : Name) (r : RExp) (reexec : Bool) : defineY share reexec st x r = Spec.define st x r := by
  unfold defineY Spec.define
  simp only [bind, Except.bind]
  rcases evalSlot_cases st r with ⟨e, h1, h2⟩ | ⟨s, st1, v, h1, h2, h3, h4⟩
  · simp [h1, h2]
  · simp only [h1, h2, h3, shortcutDefine, share_litShortcut, Bool.true_and]
    cases hc : isCompositeLit r with
    | false =>
      simp only [Bool.false_eq_true, if_false, share_defineFresh, if_true]
      cases lookupEnv st1.env x <;> rfl
    | true => simp [storeShortcut, litFresh_define r hc, Spec.declare]

end YaegiVerif.Share
