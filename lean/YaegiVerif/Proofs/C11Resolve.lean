import YaegiVerif.Proofs.C11Run
/-
  C11, helper lemmas 2: name resolution. A body that compiles in a scope compiles to the same code
  in every scope that extends it; what it compiles to only mentions what the scope holds.
-/
namespace YaegiVerif.Proofs.C11
open YaegiVerif.Piecewise

/-- `T'` binds every name `T` binds, to the same thing -/
def Ext (T T' : Tab) : Prop :=
  (∀ x v, lookup x T.syms = some v → lookup x T'.syms = some v) ∧
  (∀ k v, lookup k T.meths = some v → lookup k T'.meths = some v)

theorem Ext.refl (T : Tab) : Ext T T := ⟨fun _ _ h => h, fun _ _ h => h⟩

theorem Ext.trans {A B C : Tab} (h1 : Ext A B) (h2 : Ext B C) : Ext A C :=
  ⟨fun x v h => h2.1 x v (h1.1 x v h), fun k v h => h2.2 k v (h1.2 k v h)⟩

theorem resolveE_mono {T T' : Tab} (h : Ext T T') : ∀ (e : SExpr) (ce : CExpr),
    resolveE T e = some ce → resolveE T' e = some ce := by
  intro e
  induction e with
  | num k => intro ce hc; simpa [resolveE] using hc
  | arg => intro ce hc; simpa [resolveE] using hc
  | recv => intro ce hc; simpa [resolveE] using hc
  | glob x =>
    intro ce hc
    simp only [resolveE] at hc ⊢
    cases hl : lookup x T.syms with
    | none => simp [hl] at hc
    | some v =>
      rw [h.1 x v hl]
      simpa [hl] using hc
  | bin op a b iha ihb =>
    intro ce hc
    simp only [resolveE] at hc ⊢
    cases ha : resolveE T a with
    | none => simp [ha] at hc
    | some a' =>
      cases hb : resolveE T b with
      | none => simp [ha, hb] at hc
      | some b' =>
        rw [iha a' ha, ihb b' hb]
        simpa [ha, hb] using hc
  | call f a iha =>
    intro ce hc
    simp only [resolveE] at hc ⊢
    cases hl : lookup f T.syms with
    | none => simp [hl] at hc
    | some v =>
      cases ha : resolveE T a with
      | none => cases v <;> simp [hl, ha] at hc
      | some a' =>
        rw [h.1 f v hl, iha a' ha]
        simpa [hl, ha] using hc
  | callv x a iha =>
    intro ce hc
    simp only [resolveE] at hc ⊢
    cases hl : lookup x T.syms with
    | none => simp [hl] at hc
    | some v =>
      cases ha : resolveE T a with
      | none => cases v <;> simp [hl, ha] at hc
      | some a' =>
        rw [h.1 x v hl, iha a' ha]
        simpa [hl, ha] using hc
  | mcall t m r a ihr iha =>
    intro ce hc
    simp only [resolveE] at hc ⊢
    cases hl : lookup t T.syms with
    | none => simp [hl] at hc
    | some v =>
      cases hm : lookup (t, m) T.meths with
      | none => cases v <;> simp [hl, hm] at hc
      | some fid =>
        cases hr : resolveE T r with
        | none => cases v <;> simp [hl, hm, hr] at hc
        | some r' =>
          cases ha : resolveE T a with
          | none => cases v <;> simp [hl, hm, hr, ha] at hc
          | some a' =>
            rw [h.1 t v hl, h.2 (t, m) fid hm, ihr r' hr, iha a' ha]
            simpa [hl, hm, hr, ha] using hc

theorem resolveS_mono {T T' : Tab} (h : Ext T T') : ∀ (s : SStmt) (cs : CStmt),
    resolveS T s = some cs → resolveS T' s = some cs := by
  intro s
  induction s with
  | print tag e =>
    intro cs hc
    simp only [resolveS, Option.map_eq_some_iff] at hc ⊢
    obtain ⟨e', he, rfl⟩ := hc
    exact ⟨e', resolveE_mono h e e' he, rfl⟩
  | set x e =>
    intro cs hc
    simp only [resolveS] at hc ⊢
    cases hl : lookup x T.syms with
    | none => simp [hl] at hc
    | some v =>
      cases he : resolveE T e with
      | none => cases v <;> simp [hl, he] at hc
      | some e' =>
        rw [h.1 x v hl, resolveE_mono h e e' he]
        simpa [hl, he] using hc
  | eval e =>
    intro cs hc
    simp only [resolveS, Option.map_eq_some_iff] at hc ⊢
    obtain ⟨e', he, rfl⟩ := hc
    exact ⟨e', resolveE_mono h e e' he, rfl⟩
  | lit s ih =>
    intro cs hc
    simp only [resolveS] at hc ⊢
    exact ih cs hc

theorem resolveSs_mono {T T' : Tab} (h : Ext T T') : ∀ (ss : List SStmt) (cs : List CStmt),
    resolveSs T ss = some cs → resolveSs T' ss = some cs := by
  intro ss
  induction ss with
  | nil => intro cs hc; simpa [resolveSs] using hc
  | cons s ss ih =>
    intro cs hc
    simp only [resolveSs] at hc ⊢
    cases hs : resolveS T s with
    | none => simp [hs] at hc
    | some s' =>
      cases hss : resolveSs T ss with
      | none => simp [hs, hss] at hc
      | some ss' =>
        rw [resolveS_mono h s s' hs, ih ss' hss]
        simpa [hs, hss] using hc

theorem resolveG_mono {T T' : Tab} (h : Ext T T') (g : Option SExpr) (g' : Option CExpr)
    (hc : resolveG T g = some g') : resolveG T' g = some g' := by
  cases g with
  | none => simpa [resolveG] using hc
  | some e =>
    simp only [resolveG, Option.map_eq_some_iff] at hc ⊢
    obtain ⟨e', he, rfl⟩ := hc
    exact ⟨e', resolveE_mono h e e' he, rfl⟩

theorem resolveB_mono {T T' : Tab} (h : Ext T T') (b : SBody) (cb : CBody)
    (hc : resolveB T b = some cb) : resolveB T' b = some cb := by
  unfold resolveB at hc ⊢
  cases h1 : resolveG T b.guard with
  | none => simp [h1] at hc
  | some g' =>
    cases h2 : resolveSs T b.stmts with
    | none => simp [h1, h2] at hc
    | some ss' =>
      cases h3 : resolveE T b.ret with
      | none => simp [h1, h2, h3] at hc
      | some r' =>
        rw [resolveG_mono h _ g' h1, resolveSs_mono h _ ss' h2, resolveE_mono h _ r' h3]
        simpa [h1, h2, h3] using hc

theorem constOk_mono {T T' : Tab} (h : Ext T T') (e : KExpr) (hc : constOk T e = true) : constOk T' e = true := by
  unfold constOk at *
  rw [List.all_eq_true] at hc ⊢
  intro y hy
  have := hc y hy
  cases hl : lookup y T.syms with
  | none => simp [hl] at this
  | some v =>
    rw [h.1 y v hl]
    simpa [hl] using this

theorem compileItem_mono {T T' : Tab} (h : Ext T T') (nf : Nat) (it : Item) (r : List CBody × List (Nat × Act))
    (hc : compileItem T nf it = some r) : compileItem T' nf it = some r := by
  cases it with
  | const x e last =>
    simp only [compileItem] at hc ⊢
    split at hc
    · rename_i hk; rw [if_pos (constOk_mono h e hk)]; exact hc
    · cases hc
  | var x e =>
    simp only [compileItem] at hc ⊢
    cases hl : lookup x T.syms with
    | none => simp [hl] at hc
    | some v =>
      cases he : resolveE T e with
      | none => cases v <;> simp [hl, he] at hc
      | some e' =>
        rw [h.1 x v hl, resolveE_mono h e e' he]
        simpa [hl, he] using hc
  | define x e =>
    simp only [compileItem] at hc ⊢
    cases hl : lookup x T.syms with
    | none => simp [hl] at hc
    | some v =>
      cases he : resolveE T e with
      | none => cases v <;> simp [hl, he] at hc
      | some e' =>
        rw [h.1 x v hl, resolveE_mono h e e' he]
        simpa [hl, he] using hc
  | closure x b =>
    simp only [compileItem] at hc ⊢
    cases hl : lookup x T.syms with
    | none => simp [hl] at hc
    | some v =>
      cases hb : resolveB T b with
      | none => cases v <;> simp [hl, hb] at hc
      | some b' =>
        rw [h.1 x v hl, resolveB_mono h b b' hb]
        simpa [hl, hb] using hc
  | func f b =>
    simp only [compileItem, Option.map_eq_some_iff] at hc ⊢
    obtain ⟨b', hb, rfl⟩ := hc
    exact ⟨b', resolveB_mono h b b' hb, rfl⟩
  | type t => simpa [compileItem] using hc
  | method t m b =>
    simp only [compileItem] at hc ⊢
    cases hl : lookup t T.syms with
    | none => simp [hl] at hc
    | some v =>
      cases hb : resolveB T b with
      | none => cases v <;> simp [hl, hb] at hc
      | some b' =>
        rw [h.1 t v hl, resolveB_mono h b b' hb]
        simpa [hl, hb] using hc
  | init b =>
    simp only [compileItem, Option.map_eq_some_iff] at hc ⊢
    obtain ⟨b', hb, rfl⟩ := hc
    exact ⟨b', resolveB_mono h b b' hb, rfl⟩
  | stmt s =>
    simp only [compileItem, Option.map_eq_some_iff] at hc ⊢
    obtain ⟨s', hs, rfl⟩ := hc
    exact ⟨s', resolveS_mono h s s' hs, rfl⟩

/-! ### what resolution produces is closed -/

def SymOk (nf nv : Nat) : Sym → Prop
  | .var i => i < nv
  | .fvar i f => i < nv ∧ f < nf
  | .fn f => f < nf
  | .typ => True
  | .const _ => True

/-- every binding of the scope is below the bounds -/
def TabBelow (nf nv : Nat) (T : Tab) : Prop :=
  (∀ x v, lookup x T.syms = some v → SymOk nf nv v) ∧ (∀ k f, lookup k T.meths = some f → f < nf)

theorem SymOk_mono {nf nv nf' nv' : Nat} (h1 : nf ≤ nf') (h2 : nv ≤ nv') (v : Sym) (h : SymOk nf nv v) : SymOk nf' nv' v := by
  cases v <;> simp only [SymOk] at * <;> omega

theorem TabBelow_mono {nf nv nf' nv' : Nat} (h1 : nf ≤ nf') (h2 : nv ≤ nv') {T : Tab} (h : TabBelow nf nv T) :
    TabBelow nf' nv' T :=
  ⟨fun x v hl => SymOk_mono h1 h2 v (h.1 x v hl), fun k f hl => Nat.lt_of_lt_of_le (h.2 k f hl) h1⟩

theorem resolveE_closed {nf nv : Nat} {T : Tab} (h : TabBelow nf nv T) : ∀ (e : SExpr) (ce : CExpr),
    resolveE T e = some ce → closedE nf nv ce = true := by
  intro e
  induction e with
  | num k => intro ce hc; simp only [resolveE, Option.some.injEq] at hc; subst hc; rfl
  | arg => intro ce hc; simp only [resolveE, Option.some.injEq] at hc; subst hc; rfl
  | recv => intro ce hc; simp only [resolveE, Option.some.injEq] at hc; subst hc; rfl
  | glob x =>
    intro ce hc
    simp only [resolveE] at hc
    cases hl : lookup x T.syms with
    | none => simp [hl] at hc
    | some v =>
      have := h.1 x v hl
      cases v <;> simp [hl] at hc
      all_goals subst hc
      · simpa [closedE, SymOk] using this
      · rfl
  | bin op a b iha ihb =>
    intro ce hc
    simp only [resolveE] at hc
    cases ha : resolveE T a with
    | none => simp [ha] at hc
    | some a' =>
      cases hb : resolveE T b with
      | none => simp [ha, hb] at hc
      | some b' =>
        simp [ha, hb] at hc
        subst hc
        simp [closedE, iha a' ha, ihb b' hb]
  | call f a iha =>
    intro ce hc
    simp only [resolveE] at hc
    cases hl : lookup f T.syms with
    | none => simp [hl] at hc
    | some v =>
      cases ha : resolveE T a with
      | none => cases v <;> simp [hl, ha] at hc
      | some a' =>
        have := h.1 f v hl
        cases v <;> simp [hl, ha] at hc
        subst hc
        simp only [SymOk] at this
        simp [closedE, iha a' ha, this]
  | callv x a iha =>
    intro ce hc
    simp only [resolveE] at hc
    cases hl : lookup x T.syms with
    | none => simp [hl] at hc
    | some v =>
      cases ha : resolveE T a with
      | none => cases v <;> simp [hl, ha] at hc
      | some a' =>
        have := h.1 x v hl
        cases v <;> simp [hl, ha] at hc
        subst hc
        simp only [SymOk] at this
        simp [closedE, iha a' ha, this.1, this.2]
  | mcall t m r a ihr iha =>
    intro ce hc
    simp only [resolveE] at hc
    cases hl : lookup t T.syms with
    | none => simp [hl] at hc
    | some v =>
      cases hm : lookup (t, m) T.meths with
      | none => cases v <;> simp [hl, hm] at hc
      | some fid =>
        cases hr : resolveE T r with
        | none => cases v <;> simp [hl, hm, hr] at hc
        | some r' =>
          cases ha : resolveE T a with
          | none => cases v <;> simp [hl, hm, hr, ha] at hc
          | some a' =>
            have := h.2 (t, m) fid hm
            cases v <;> simp [hl, hm, hr, ha] at hc
            subst hc
            simp [closedE, ihr r' hr, iha a' ha, this]

theorem resolveS_closed {nf nv : Nat} {T : Tab} (h : TabBelow nf nv T) : ∀ (s : SStmt) (cs : CStmt),
    resolveS T s = some cs → closedS nf nv cs = true := by
  intro s
  induction s with
  | print tag e =>
    intro cs hc
    simp only [resolveS, Option.map_eq_some_iff] at hc
    obtain ⟨e', he, rfl⟩ := hc
    exact resolveE_closed h e e' he
  | set x e =>
    intro cs hc
    simp only [resolveS] at hc
    cases hl : lookup x T.syms with
    | none => simp [hl] at hc
    | some v =>
      cases he : resolveE T e with
      | none => cases v <;> simp [hl, he] at hc
      | some e' =>
        have := h.1 x v hl
        cases v <;> simp [hl, he] at hc
        subst hc
        simp only [SymOk] at this
        simp [closedS, resolveE_closed h e e' he, this]
  | eval e =>
    intro cs hc
    simp only [resolveS, Option.map_eq_some_iff] at hc
    obtain ⟨e', he, rfl⟩ := hc
    exact resolveE_closed h e e' he
  | lit s ih =>
    intro cs hc
    simp only [resolveS] at hc
    exact ih cs hc

theorem resolveSs_closed {nf nv : Nat} {T : Tab} (h : TabBelow nf nv T) : ∀ (ss : List SStmt) (cs : List CStmt),
    resolveSs T ss = some cs → cs.all (closedS nf nv) = true := by
  intro ss
  induction ss with
  | nil => intro cs hc; simp only [resolveSs, Option.some.injEq] at hc; subst hc; rfl
  | cons s ss ih =>
    intro cs hc
    simp only [resolveSs] at hc
    cases hs : resolveS T s with
    | none => simp [hs] at hc
    | some s' =>
      cases hss : resolveSs T ss with
      | none => simp [hs, hss] at hc
      | some ss' =>
        simp [hs, hss] at hc
        subst hc
        simp only [List.all_cons, Bool.and_eq_true]
        exact ⟨resolveS_closed h s s' hs, ih ss' hss⟩

theorem resolveB_closed {nf nv : Nat} {T : Tab} (h : TabBelow nf nv T) (b : SBody) (cb : CBody)
    (hc : resolveB T b = some cb) : closedB nf nv cb = true := by
  unfold resolveB at hc
  cases h1 : resolveG T b.guard with
  | none => simp [h1] at hc
  | some g' =>
    cases h2 : resolveSs T b.stmts with
    | none => simp [h1, h2] at hc
    | some ss' =>
      cases h3 : resolveE T b.ret with
      | none => simp [h1, h2, h3] at hc
      | some r' =>
        simp [h1, h2, h3] at hc
        subst hc
        unfold closedB
        simp only [Bool.and_eq_true]
        refine ⟨⟨?_, resolveSs_closed h _ ss' h2⟩, resolveE_closed h _ r' h3⟩
        cases hgd : b.guard with
        | none => simp [hgd, resolveG] at h1; subst h1; rfl
        | some g =>
          simp only [hgd, resolveG, Option.map_eq_some_iff] at h1
          obtain ⟨e', he, rfl⟩ := h1
          exact resolveE_closed h g e' he

end YaegiVerif.Proofs.C11
