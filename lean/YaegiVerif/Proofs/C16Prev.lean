import YaegiVerif.Proofs.C16Path
import YaegiVerif.Expected.C16
/-
  C16 — previousRoot on clean arguments: from the root `r` (elements below GOPATH/src) it returns a
  proper prefix `r.take k`, and no level strictly between `k` and `r` has a `vendor` directory.
-/
namespace YaegiVerif.Src
open YaegiVerif

abbrev W : Words := Expected.C16.words

/-! ### the last-index scan -/

theorem lastIdxAux_bound (v : String) (l : List String) (i acc : Nat) :
    lastIdxAux v l i acc = acc ∨ (i ≤ lastIdxAux v l i acc ∧ lastIdxAux v l i acc < i + l.length) := by
  induction l generalizing i acc with
  | nil => left; rfl
  | cons e r ih =>
    unfold lastIdxAux
    rcases ih (i + 1) (if (e == v) = true then i else acc) with h | h
    · rw [h]
      by_cases he : (e == v) = true
      · right; simp [he]
      · left; simp [he]
    · right
      simp only [List.length_cons]
      omega

theorem lastIdxAux_snoc (v : String) (l0 : List String) (i acc : Nat) :
    lastIdxAux v (l0 ++ [v]) i acc = i + l0.length := by
  induction l0 generalizing i acc with
  | nil => simp [lastIdxAux]
  | cons e r ih =>
    simp only [List.cons_append, lastIdxAux, List.length_cons]
    rw [ih]; omega

theorem lastIndexOf_lt (v : String) (l : List String) (hne : l ≠ []) : lastIndexOf v l < l.length := by
  unfold lastIndexOf
  rcases lastIdxAux_bound v l 0 0 with h | h
  · rw [h]; exact List.length_pos_iff.mpr hne
  · omega

/-! ### stat on valid names -/

theorem validPath_norm (p : List String) (h : NormRel p = true) (hne : p ≠ []) : validPath p = true := by
  unfold validPath
  have : p.all (fun e => e != "" && e != "." && e != "..") = true := by
    simpa [NormRel, normElem] using h
  simp [this, hne]

/-- the names the resolution asks for are acceptable to the file system: any clean name on disk,
    clean relative names for an `io/fs` file system -/
def nameOK (f : FS) (p : Path) : Prop := f.mapfs = true → (NormRel p = true ∧ p ≠ [])

theorem stat_ok (f : FS) (p : Path) (h : nameOK f p) :
    f.stat p = if f.dirs.contains p then .dir else if f.files.contains p then .file else .none := by
  unfold FS.stat
  by_cases hm : f.mapfs = true
  · have := h hm
    simp [hm, validPath_norm p this.1 this.2]
  · simp [hm]

theorem stat_ne_invalid (f : FS) (p : Path) (h : nameOK f p) : f.stat p ≠ .invalid := by
  rw [stat_ok f p h]
  split
  · simp
  · split <;> simp

theorem nameOK_append (f : FS) (gs : Path) (l : List String) (hm : f.mapfs = true → NormRel gs = true)
    (hg : goodPath gs = true) (hl : NormRel l = true) : nameOK f (gs ++ l) := by
  intro h
  refine ⟨by rw [normRel_append, hm h, hl]; rfl, ?_⟩
  intro h0
  have : gs = [] := (List.append_eq_nil_iff.mp h0).1
  subst this
  simp [goodPath] at hg


/-! ### levels: the ancestors of the root below GOPATH/src -/

/-- the directory of the first `j` elements of the root, and its `vendor` sub-directory -/
def lv (gs : Path) (r : List String) (j : Nat) : Path := gs ++ r.take j
def vd (gs : Path) (r : List String) (j : Nat) : Path := gs ++ r.take j ++ ["vendor"]

theorem normRel_take (r : List String) (j : Nat) (h : NormRel r = true) : NormRel (r.take j) = true := by
  simp only [NormRel, List.all_eq_true] at h ⊢
  intro e he
  exact h e (List.mem_of_mem_take he)

theorem goodPath_lv (gs : Path) (r : List String) (j : Nat) (hg : goodPath gs = true) (hr : NormRel r = true) :
    goodPath (lv gs r j) = true := goodPath_append gs _ hg (normRel_take r j hr)

theorem normElem_vendor : normElem "vendor" = true := by decide

theorem join_vendor (gs : Path) (r : List String) (j : Nat) (hg : goodPath gs = true) (hr : NormRel r = true) :
    join [lv gs r j, [W.vendor]] = vd gs r j := by
  have hv : W.vendor = "vendor" := rfl
  rw [hv]
  have hf : flat [lv gs r j, ["vendor"]] = vd gs r j := by
    rw [flat_cons_good _ _ (goodPath_lv gs r j hg hr), flat_cons_elem _ _ normElem_vendor, flat_nil]; rfl
  rw [join_good _ (by rw [hf]; exact goodPath_append _ _ (goodPath_lv gs r j hg hr) (by decide)), hf]

theorem nameOK_vd (f : FS) (gs : Path) (r : List String) (j : Nat) (hm : f.mapfs = true → NormRel gs = true)
    (hg : goodPath gs = true) (hr : NormRel r = true) : nameOK f (vd gs r j) := by
  have := nameOK_append f gs (r.take j ++ ["vendor"]) hm hg
    (by rw [normRel_append, normRel_take r j hr]; rfl)
  simpa [vd, List.append_assoc] using this

theorem lv_succ (gs : Path) (r : List String) (n : Nat) (h : n < r.length) :
    lv gs r (n + 1) = lv gs r n ++ [r[n]] := by
  unfold lv
  rw [List.take_add_one, List.getElem?_eq_getElem h]
  simp

theorem lv_ne_gs (gs : Path) (r : List String) (n : Nat) (h : n < r.length) : lv gs r (n + 1) ≠ gs := by
  rw [lv_succ gs r n h]
  intro h0
  have : (lv gs r n ++ [r[n]]).length = gs.length := by rw [h0]
  simp only [lv, List.length_append, List.length_take, List.length_cons, List.length_nil] at this
  omega

theorem lv_zero (gs : Path) (r : List String) : lv gs r 0 = gs := by simp [lv]

theorem lv_not_special (gs : Path) (r : List String) (n : Nat) (h : n < r.length) (hg : goodPath gs = true)
    (hr : NormRel r = true) :
    (lv gs r (n + 1) == ["", ""] || lv gs r (n + 1) == ["."] || lv gs r (n + 1) == [""]) = false := by
  have hgood := goodPath_lv gs r (n + 1) hg hr
  have hlen : 2 ≤ (lv gs r (n + 1)).length := by
    have : gs ≠ [] := by intro h0; subst h0; simp [goodPath] at hg
    have := List.length_pos_iff.mpr this
    rw [lv_succ gs r n h]; simp [lv]; omega
  have h1 : lv gs r (n + 1) ≠ ["", ""] := by
    intro h0; rw [h0] at hgood; simp [goodPath, NormRel, normElem] at hgood
  have h2 : lv gs r (n + 1) ≠ ["."] := by intro h0; rw [h0] at hlen; simp at hlen
  have h3 : lv gs r (n + 1) ≠ [""] := by intro h0; rw [h0] at hlen; simp at hlen
  simp [h1, h2, h3]

theorem W_fileStops : W.vendorFileStops = false := rfl
theorem kind_fd : (Kind.file == Kind.dir) = false := by decide
theorem kind_fi : (Kind.file == Kind.invalid) = false := by decide
theorem kind_nd : (Kind.none == Kind.dir) = false := by decide
theorem kind_ni : (Kind.none == Kind.invalid) = false := by decide
theorem kind_nf : (Kind.none == Kind.file) = false := by decide

/-- the `for` loop of previousRoot started at level `n+1`: it stops at the nearest level `k ≥ 1` with a
    `vendor` directory, or finds none down to level 1 (a regular file named vendor is no directory) -/
theorem prevLoop_levels (f : FS) (gs : Path) (r : List String) (hg : goodPath gs = true)
    (hm : f.mapfs = true → NormRel gs = true) (hr : NormRel r = true) :
    ∀ n fuel, n + 2 ≤ fuel → n + 1 ≤ r.length →
      (∃ k, 1 ≤ k ∧ k ≤ n + 1 ∧ prevLoop W f gs fuel (lv gs r (n + 1)) = .vendored (lv gs r k) ∧
          ∀ i, k < i → i ≤ n + 1 → f.stat (vd gs r i) ≠ .dir)
      ∨ (prevLoop W f gs fuel (lv gs r (n + 1)) = .notFound ∧ ∀ i, 1 ≤ i → i ≤ n + 1 → f.stat (vd gs r i) ≠ .dir) := by
  intro n
  induction n with
  | zero =>
    intro fuel hfuel hlen
    obtain ⟨fuel', rfl⟩ : ∃ k, fuel = k + 1 := ⟨fuel - 1, by omega⟩
    unfold prevLoop
    rw [join_vendor gs r 1 hg hr]
    cases hst : f.stat (vd gs r 1) with
    | dir => left; exact ⟨1, by omega, by omega, by simp, by intro i h1 h2; omega⟩
    | invalid => exact absurd hst (stat_ne_invalid f _ (nameOK_vd f gs r 1 hm hg hr))
    | file | none =>
      right
      simp only [W_fileStops, kind_fd, kind_fi, kind_nd, kind_ni, kind_nf, Bool.and_false, Bool.false_eq_true, if_false]
      have h1 : (lv gs r (0 + 1) == gs) = false := by
        have := lv_ne_gs gs r 0 (by omega); simpa using this
      have h2 : dir (lv gs r (0 + 1)) = gs := by
        rw [lv_succ gs r 0 (by omega), lv_zero]; exact dir_snoc gs _ hg
      simp only [h1, h2, BEq.rfl, Bool.false_eq_true, if_false, if_true, true_and]
      intro i hi1 hi2
      have : i = 1 := by omega
      subst this; rw [hst]; simp
  | succ n ih =>
    intro fuel hfuel hlen
    obtain ⟨fuel', rfl⟩ : ∃ k, fuel = k + 1 := ⟨fuel - 1, by omega⟩
    unfold prevLoop
    rw [join_vendor gs r (n + 1 + 1) hg hr]
    cases hst : f.stat (vd gs r (n + 1 + 1)) with
    | dir => left; exact ⟨n + 1 + 1, by omega, by omega, by simp, by intro i h1 h2; omega⟩
    | invalid => exact absurd hst (stat_ne_invalid f _ (nameOK_vd f gs r _ hm hg hr))
    | file | none =>
      simp only [W_fileStops, kind_fd, kind_fi, kind_nd, kind_ni, kind_nf, Bool.and_false, Bool.false_eq_true, if_false]
      have h1 : (lv gs r (n + 1 + 1) == gs) = false := by
        have := lv_ne_gs gs r (n + 1) (by omega); simpa using this
      have h2 : dir (lv gs r (n + 1 + 1)) = lv gs r (n + 1) := by
        rw [lv_succ gs r (n + 1) (by omega)]; exact dir_snoc _ _ (goodPath_lv gs r (n + 1) hg hr)
      have h3 : (lv gs r (n + 1) == gs) = false := by
        have := lv_ne_gs gs r n (by omega); simpa using this
      have h4 := lv_not_special gs r n (by omega) hg hr
      simp only [h1, h2, h3, h4, Bool.false_eq_true, if_false]
      rcases ih fuel' (by omega) (by omega) with ⟨k, hk1, hk2, hk3, hk4⟩ | ⟨hn1, hn2⟩
      · left
        refine ⟨k, hk1, by omega, hk3, ?_⟩
        intro i hi1 hi2
        by_cases hi : i = n + 1 + 1
        · subst hi; rw [hst]; simp
        · exact hk4 i hi1 (by omega)
      · right
        refine ⟨hn1, ?_⟩
        intro i hi1 hi2
        by_cases hi : i = n + 1 + 1
        · subst hi; rw [hst]; simp
        · exact hn2 i hi1 (by omega)


/-! ### the tail of previousRoot -/

theorem flat_singletons (l : List String) (h : NormRel l = true) : flat (l.map fun e => [e]) = l := by
  induction l with
  | nil => rfl
  | cons e r ih =>
    simp only [NormRel, List.all_cons, Bool.and_eq_true] at h
    simp only [List.map_cons]
    rw [flat_cons_elem e _ h.1, ih (by simpa [NormRel] using h.2)]

theorem prevSecond_eq (r : List String) (hr : NormRel r = true) :
    prevSecond W r = .ok (pathOf (r.take (lastIndexOf "vendor" r))) := by
  unfold prevSecond
  have hv : W.vendorLit = "vendor" := rfl
  simp only [hv]
  by_cases h0 : lastIndexOf "vendor" r = 0
  · simp [h0, pathOf]
  · have hne : r.take (lastIndexOf "vendor" r) ≠ [] := by
      intro h
      rw [List.take_eq_nil_iff] at h
      rcases h with h | h
      · exact h0 h
      · subst h; simp [lastIndexOf, lastIdxAux] at h0
    have hn := normRel_take r (lastIndexOf "vendor" r) hr
    have hf := flat_singletons _ hn
    simp only [h0, beq_iff_eq, if_false]
    rw [join_good _ (by rw [hf]; exact goodPath_of_normRel _ hn hne), hf]
    simp [pathOf, hne]

theorem lastIndexOf_snoc (v : String) (l0 : List String) : lastIndexOf v (l0 ++ [v]) = l0.length := by
  unfold lastIndexOf; rw [lastIdxAux_snoc]; omega

/-- **previousRoot shrinks the root, and skips no level that has a vendor directory.**
    `r`: clean non-empty root below `gs = GOPATH/src`. -/
theorem previousRoot_levels (f : FS) (gs : Path) (r : List String) (hg : goodPath gs = true)
    (hm : f.mapfs = true → NormRel gs = true) (hr : NormRel r = true) (hne : r ≠ []) :
    ∃ k, k < r.length ∧ previousRoot W f (gs ++ r) r = .ok (pathOf (r.take k)) ∧
      ∀ i, k < i → i < r.length → f.stat (vd gs r i) ≠ .dir := by
  obtain ⟨r0, x, rfl⟩ : ∃ r0 x, r = r0 ++ [x] := ⟨r.dropLast, r.getLast hne, (List.dropLast_concat_getLast hne).symm⟩
  have hgr : goodPath (gs ++ (r0 ++ [x])) = true := goodPath_append gs _ hg hr
  have hgsne : gs ≠ [] := by intro h0; subst h0; simp [goodPath] at hg
  have hr0 : NormRel r0 = true := by
    rw [normRel_append] at hr; simp only [Bool.and_eq_true] at hr; exact hr.1
  have hg0 : goodPath (gs ++ r0) = true := goodPath_append gs _ hg hr0
  have hpar : gs ++ r0 = lv gs (r0 ++ [x]) r0.length := by simp [lv]
  -- the straight-line part of the function
  have hroot1 : ∀ b : Bool, (if b = true then trimSlashSuffix (r0 ++ [x]) else r0 ++ [x]) = r0 ++ [x] := by
    intro b; rw [trimSlashSuffix_norm _ hr]; simp
  have hpfx : trimSlashSuffix (trimSuffix (gs ++ (r0 ++ [x])) (r0 ++ [x])) = gs := by
    rw [trimSuffix_aligned gs _ (by simp), trimSlashSuffix_snoc_empty gs hgsne]
  have hsplit : splitLast (gs ++ (r0 ++ [x])) = (gs ++ r0 ++ [""], x) := by
    rw [← List.append_assoc]; exact splitLast_snoc _ _
  unfold previousRoot
  simp only [clean_good _ hgr, hsplit, hroot1, hpfx, clean_snoc_empty _ hg0]
  have hsecond : ∀ k, k = lastIndexOf "vendor" (r0 ++ [x]) →
      (∀ i, k < i → i < (r0 ++ [x]).length → f.stat (vd gs (r0 ++ [x]) i) ≠ .dir) →
      ∃ k, k < (r0 ++ [x]).length ∧ prevSecond W (r0 ++ [x]) = .ok (pathOf ((r0 ++ [x]).take k)) ∧
        ∀ i, k < i → i < (r0 ++ [x]).length → f.stat (vd gs (r0 ++ [x]) i) ≠ .dir := by
    intro k hk hskip
    exact ⟨k, by rw [hk]; exact lastIndexOf_lt _ _ (by simp), by rw [hk]; exact prevSecond_eq _ hr, hskip⟩
  by_cases hb : ((r0 ++ [x]) != [W.mainID] && x != W.vendor) = true
  · simp only [hb, if_true]
    -- the loop runs
    cases hr0l : r0.length with
    | zero =>
      have hr0nil : r0 = [] := List.length_eq_zero_iff.mp hr0l
      subst hr0nil
      simp only [List.append_nil, List.nil_append]
      have hidx : lastIndexOf "vendor" [x] = 0 := by
        have := lastIndexOf_lt "vendor" [x] (by simp); simp at this; exact this
      have hsec : prevSecond W [x] = .ok (pathOf (List.take 0 [x])) := by
        have := prevSecond_eq [x] hr; rw [hidx] at this; exact this
      refine ⟨0, by simp, ?_, by intro i h1 h2; simp at h2; omega⟩
      obtain ⟨fuel', hfuel⟩ : ∃ k, gs.length + 2 = k + 1 := ⟨gs.length + 1, rfl⟩
      rw [hfuel]
      unfold prevLoop
      have hj : join [gs, [W.vendor]] = vd gs [x] 0 := by
        have := join_vendor gs [x] 0 hg hr; simpa [lv] using this
      rw [hj]
      cases hst : f.stat (vd gs [x] 0) with
      | dir =>
        simp only [BEq.rfl, if_true]
        rw [show trimPrefix gs gs = "" :: [] from by
          have := trimPrefix_aligned gs [] hgsne; simpa using this]
        simp [trimSlashPrefix, isEmptyS, hsec]
      | invalid => exact absurd hst (stat_ne_invalid f _ (nameOK_vd f gs [x] 0 hm hg hr))
      | file | none =>
        simp only [W_fileStops, kind_fd, kind_fi, kind_nd, kind_ni, kind_nf, Bool.and_false, Bool.false_eq_true, if_false,
          BEq.rfl, if_true]
        exact hsec
    | succ n =>
      have hlen : (r0 ++ [x]).length = n + 2 := by simp [hr0l]
      rw [hpar, hr0l]
      rcases prevLoop_levels f gs (r0 ++ [x]) hg hm hr n ((lv gs (r0 ++ [x]) (n + 1)).length + 2)
          (by simp [lv]; omega) (by omega) with ⟨k, hk1, hk2, hk3, hk4⟩ | ⟨hn1, hn2⟩
      · rw [hk3]
        simp only
        have htk : (r0 ++ [x]).take k ≠ [] := by
          intro h; rw [List.take_eq_nil_iff] at h
          rcases h with h | h
          · omega
          · simp at h
        have hv : trimSlashPrefix (trimPrefix (lv gs (r0 ++ [x]) k) gs) = (r0 ++ [x]).take k := by
          unfold lv
          rw [trimPrefix_aligned gs _ hgsne, trimSlashPrefix_cons _ htk]
        rw [hv]
        have hnk := normRel_take (r0 ++ [x]) k hr
        have hemp : isEmptyS ((r0 ++ [x]).take k) = false := by
          have := isEmptyS_pathOf _ hnk
          simp only [pathOf] at this
          cases ht : (r0 ++ [x]).take k with
          | nil => exact absurd ht htk
          | cons a b => rw [ht] at this; simpa using this
        simp only [hemp, Bool.not_false, if_true]
        refine ⟨k, by omega, by simp [pathOf, htk], ?_⟩
        intro i hi1 hi2
        exact hk4 i hi1 (by omega)
      · rw [hn1]
        simp only
        exact hsecond _ rfl (fun i hi1 hi2 => hn2 i (by omega) (by omega))
  · simp only [hb, Bool.false_eq_true, if_false]
    -- no loop: the root is "main" or ends with vendor
    apply hsecond _ rfl
    intro i hi1 hi2
    exfalso
    simp only [Bool.and_eq_true, bne_iff_ne, ne_eq, not_and, Decidable.not_not] at hb
    by_cases hmain : r0 ++ [x] = [W.mainID]
    · rw [hmain] at hi1 hi2
      have := lastIndexOf_lt "vendor" [W.mainID] (by simp)
      simp at hi2 this; omega
    · have hx : x = "vendor" := hb hmain
      subst hx
      rw [lastIndexOf_snoc] at hi1
      simp at hi2; omega

end YaegiVerif.Src
