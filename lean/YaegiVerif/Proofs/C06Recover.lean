import YaegiVerif.Proofs.C06Hang
/-
  C06 — "recover stops a panic only when called directly by a deferred function", as a statement about the
  model of yaegi's mechanism for ALL programs (inside or outside `Dom`): if every `recover()` of a program
  is written in a function that is reached by an ordinary call (a helper — also a helper called by a
  deferred function, at any depth), then no `recover()` ever returns a non-nil value.
-/
namespace YaegiVerif.Unwind
open YaegiVerif.Expected.C06 (facts)

/-- `helperOnly code direct`: in this body `recover` (also in its re-panic form) is written only where
    `direct` holds (= the body was entered by an ordinary call, not as a deferred call); recursively for
    callees (entered directly) and deferred callees (entered as deferred calls). -/
def helperOnly : Code → Bool → Bool
  | .done, _ => true
  | .print _ k, d => helperOnly k d
  | .printArg k, d => helperOnly k d
  | .call f _ _ k, d => helperOnly f true && helperOnly k d
  | .defer f _ k, d => helperOnly f false && helperOnly k d
  | .deferVar f _ k, d => helperOnly f false && helperOnly k d
  | .deferBin _ _ k, d => helperOnly k d
  | .deferBinSpread _ _ k, d => helperOnly k d
  | .deferDel _ k, d => helperOnly k d
  | .deferPanic _ k, d => helperOnly k d
  | .probe _ k, d => helperOnly k d
  | .panic _ _, _ => true
  | .recover _ k, d => d && helperOnly k d
  | .recoverIs _ k, d => d && helperOnly k d
  | .repanic k, d => d && helperOnly k d
  | .setRes _ k, d => helperOnly k d
  | .setOuter _ k, d => helperOnly k d

def Event.notRecovered : Event → Bool
  | .recd (some _) => false
  | .recIs b => !b
  | _ => true

/-- no `recover()` so far has returned a value -/
def noSome (l : List Event) : Bool := l.all Event.notRecovered

theorem noSome_emit (w : World) (e : Event) (h : noSome w.out = true) (he : e.notRecovered = true) :
    noSome (w.emit e).out = true := by
  simp only [noSome, World.emit, List.all_append, List.all_cons, List.all_nil, Bool.and_true, Bool.and_eq_true]
  exact ⟨h, he⟩

def Entry.helper (e : Entry) : Bool :=
  match e.callee with
  | .src c => helperOnly c false
  | .held c => helperOnly c false
  | _ => true

/-- what is assumed of / proved for "invoke a function" -/
def HelperInv (cf : CallFn) : Prop :=
  ∀ code a anc w (d : Bool), helperOnly code d = true → (d = true → anc.recovered = none) → noSome w.out = true →
    noSome (cf code a anc w).2.2.2.out = true ∧ (d = true → (cf code a anc w).2.1.recovered = none) ∧
    (cf code a anc w).2.1.deferred = anc.deferred

theorem helper_push (pre : Bool) (e : Entry) (self : Frame) (he : e.helper = true)
    (h : ∀ x ∈ self.deferred, x.helper = true) : ∀ x ∈ (pushEntry pre e self).deferred, x.helper = true := by
  intro x hx
  cases pre <;> simp only [pushEntry, Bool.false_eq_true, if_false, if_true, List.mem_append, List.mem_cons,
    List.not_mem_nil, or_false] at hx
  · rcases hx with hx | rfl
    · exact h x hx
    · exact he
  · rcases hx with rfl | hx
    · exact he
    · exact h x hx

theorem body_helper (cf : CallFn) (hcf : HelperInv cf) :
    ∀ (code : Code) (d : Bool) (a : Int) (anc self : Frame) (w : World),
      helperOnly code d = true → (d = true → anc.recovered = none) → self.recovered = none →
      noSome w.out = true → (∀ e ∈ self.deferred, e.helper = true) →
      noSome (execBodyY facts cf code a anc self w).2.2.2.out = true ∧
      (d = true → (execBodyY facts cf code a anc self w).2.1.recovered = none) ∧
      (execBodyY facts cf code a anc self w).2.2.1.recovered = none ∧
      (∀ e ∈ (execBodyY facts cf code a anc self w).2.2.1.deferred, e.helper = true) := by
  intro code
  induction code with
  | done => intro d a anc self w _ ha hs hw he; exact ⟨hw, ha, hs, he⟩
  | print s k ih =>
    intro d a anc self w hh ha hs hw he
    simp only [execBodyY]
    exact ih d a anc self _ (by simpa [helperOnly] using hh) ha hs (noSome_emit w _ hw rfl) he
  | printArg k ih =>
    intro d a anc self w hh ha hs hw he
    simp only [execBodyY]
    exact ih d a anc self _ (by simpa [helperOnly] using hh) ha hs (noSome_emit w _ hw rfl) he
  | probe t k ih =>
    intro d a anc self w hh ha hs hw he
    simp only [execBodyY]
    exact ih d a anc self _ (by simpa [helperOnly] using hh) ha hs (noSome_emit w _ hw rfl) he
  | panic v k _ => intro d a anc self w _ ha hs hw he; exact ⟨hw, ha, hs, he⟩
  | setRes n k ih =>
    intro d a anc self w hh ha hs hw he
    simp only [execBodyY]
    exact ih d a anc { self with res := n } w (by simpa [helperOnly] using hh) ha hs hw he
  | setOuter n k ih =>
    intro d a anc self w hh ha hs hw he
    simp only [execBodyY]
    exact ih d a { anc with res := n } self w (by simpa [helperOnly] using hh) ha hs hw he
  | deferBin s x k ih =>
    intro d a anc self w hh ha hs hw he
    simp only [execBodyY]
    exact ih d a anc _ w (by simpa [helperOnly] using hh) ha hs hw (helper_push _ _ _ rfl he)
  | deferDel t k ih =>
    intro d a anc self w hh ha hs hw he
    simp only [execBodyY]
    exact ih d a anc _ w (by simpa [helperOnly] using hh) ha hs hw (helper_push _ _ _ rfl he)
  | deferBinSpread s ns k ih =>
    intro d a anc self w hh ha hs hw he
    simp only [execBodyY]
    exact ih d a anc _ w (by simpa [helperOnly] using hh) ha hs hw (helper_push _ _ _ rfl he)
  | deferPanic v k ih =>
    intro d a anc self w hh ha hs hw he
    simp only [execBodyY, facts_panicDeferrable, if_true]
    exact ih d a anc _ w (by simpa [helperOnly] using hh) ha hs hw (helper_push _ _ _ rfl he)
  | defer f x k _ ih =>
    intro d a anc self w hh ha hs hw he
    simp only [helperOnly, Bool.and_eq_true] at hh
    simp only [execBodyY]
    exact ih d a anc _ w hh.2 ha hs hw (helper_push _ _ _ (by simpa [Entry.helper] using hh.1) he)
  | deferVar f x k _ ih =>
    intro d a anc self w hh ha hs hw he
    simp only [helperOnly, Bool.and_eq_true] at hh
    simp only [execBodyY]
    exact ih d a anc _ w hh.2 ha hs hw (helper_push _ _ _ (by simpa [Entry.helper] using hh.1) he)
  | recoverIs v k ih =>
    intro d a anc self w hh ha hs hw he
    simp only [helperOnly, Bool.and_eq_true] at hh
    have hr : anc.recovered = none := ha hh.1
    simp only [execBodyY, facts_recoverReadsAnc, facts_recoverClears, if_true, hr, Option.isSome_none,
      Bool.and_false, Bool.false_eq_true, if_false, Bool.not_true, Bool.false_and]
    exact ih d a anc self _ hh.2 ha hs (noSome_emit w _ hw (by simp [Event.notRecovered])) he
  | recover sh k ih =>
    intro d a anc self w hh ha hs hw he
    simp only [helperOnly, Bool.and_eq_true] at hh
    have hr : anc.recovered = none := ha hh.1
    simp only [execBodyY, facts_recoverReadsAnc, facts_recoverClears, if_true, hr, Option.isSome_none,
      Bool.and_false, Bool.false_eq_true, if_false, Bool.not_true, Bool.false_and]
    cases sh with
    | false => exact ih d a anc self w hh.2 ha hs hw he
    | true => exact ih d a anc self _ hh.2 ha hs (noSome_emit w _ hw rfl) he
  | repanic k ih =>
    intro d a anc self w hh ha hs hw he
    simp only [helperOnly, Bool.and_eq_true] at hh
    have hr : anc.recovered = none := ha hh.1
    simp only [execBodyY, facts_recoverReadsAnc, facts_recoverClears, if_true, hr, Option.isSome_none,
      Bool.and_false, Bool.false_eq_true, if_false, Bool.not_true, Bool.false_and]
    exact ih d a anc self w hh.2 ha hs hw he
  | call f x sh k _ ih =>
    intro d a anc self w hh ha hs hw he
    simp only [helperOnly, Bool.and_eq_true] at hh
    simp only [execBodyY]
    have hc := hcf f (evalArg x a self) self w true hh.1 (fun _ => hs) hw
    generalize cf f (evalArg x a self) self w = r at hc ⊢
    obtain ⟨sig, self', rr, w'⟩ := r
    obtain ⟨hw', hs', hd'⟩ := hc
    simp only at hw' hs' hd'
    have he' : ∀ e ∈ self'.deferred, e.helper = true := by rw [hd']; exact he
    cases sig with
    | panic v => exact ⟨hw', ha, hs' trivial, he'⟩
    | fuel => exact ⟨hw', ha, hs' trivial, he'⟩
    | normal =>
      simp only
      refine ih d a anc self' _ hh.2 ha (hs' trivial) ?_ he'
      cases sh with
      | false => exact hw'
      | true => exact noSome_emit w' _ hw' rfl

theorem entries_helper (cf : CallFn) (hcf : HelperInv cf) :
    ∀ (es : List Entry) (self : Frame) (w : World), (∀ e ∈ es, e.helper = true) → noSome w.out = true →
      noSome (runEntriesY facts cf es self w).2.2.out = true := by
  intro es
  induction es with
  | nil => intro self w _ hw; exact hw
  | cons e es ih =>
    intro self w he hw
    have hes : ∀ x ∈ es, x.helper = true := fun x hx => he x (by simp [hx])
    have hee := he e (by simp)
    obtain ⟨callee, arg⟩ := e
    cases callee with
    | bin s => simp only [runEntriesY]; exact ih self _ hes (noSome_emit w _ hw rfl)
    | del t => simp only [runEntriesY]; exact ih self _ hes hw
    | bins s ns sp => simp only [runEntriesY]; exact ih self _ hes (noSome_emit w _ hw rfl)
    | pan v => simp only [runEntriesY, facts_deferredProtected, if_true]; exact ih _ _ hes hw
    | src c =>
      simp only [runEntriesY, facts_deferredProtected, if_true]
      have hc := hcf c (arg.get self.res) self w false (by simpa [Entry.helper] using hee) (fun h => by simp at h) hw
      generalize cf c (arg.get self.res) self w = r at hc ⊢
      obtain ⟨sig, self', rr, w'⟩ := r
      cases sig with
      | normal => exact ih self' w' hes hc.1
      | panic q => exact ih _ w' hes hc.1
      | fuel => exact hc.1
    | held c =>
      simp only [runEntriesY, facts_deferredProtected, if_true]
      have hc := hcf c (arg.get self.res) (heldAnc facts self) w false (by simpa [Entry.helper] using hee)
        (fun h => by simp at h) hw
      generalize cf c (arg.get self.res) (heldAnc facts self) w = r at hc ⊢
      obtain ⟨sig, anc', rr, w'⟩ := r
      cases sig with
      | normal =>
        simp only
        split
        · exact hc.1
        · exact ih _ w' hes hc.1
      | panic q => exact ih _ w' hes hc.1
      | fuel => exact hc.1

theorem execFnY_helper : ∀ n, HelperInv (execFnY facts n) := by
  intro n
  induction n with
  | zero => intro code a anc w d _ ha hw; exact ⟨hw, ha, rfl⟩
  | succ n ih =>
    intro code a anc w d hh ha hw
    have hanc := (execFnY_anc facts (n + 1) code a anc w).1
    refine ⟨?_, ?_, hanc⟩
    all_goals
      simp only [execFnY]
      have hb := body_helper (execFnY facts n) ih code d a anc Frame.fresh w hh ha rfl hw (by simp [Frame.fresh])
      generalize execBodyY facts (execFnY facts n) code a anc Frame.fresh w = rb at hb ⊢
      obtain ⟨sig, anc', self, w'⟩ := rb
      obtain ⟨hw', ha', _, he'⟩ := hb
      simp only at hw' ha' he'
    · simp only [exitY_expected]
      cases sig with
      | fuel => exact hw'
      | normal =>
        simp only [finishY_out]
        exact entries_helper (execFnY facts n) ih self.deferred _ w' he' hw'
      | panic v =>
        simp only [finishY_out]
        exact entries_helper (execFnY facts n) ih self.deferred _ w' he' hw'
    · exact ha'

end YaegiVerif.Unwind
