import YaegiVerif.Proofs.C12Dom
import YaegiVerif.Expected.C12
/-
  C12 — syntactic characterisations: operand forms on which yaegi's rule (for the facts read from the
  unchanged source, `Expected.C12`) and the Go rule provably coincide. These say which check sites can
  never be in a class excluded by `Dom`.
-/
namespace YaegiVerif.Typecheck
open Spec

abbrev FE : OpFacts := YaegiVerif.Expected.C12.opFacts
abbrev TE : TcFacts := YaegiVerif.Expected.C12.tcFacts

/-! ### the kind predicates through the facts -/

theorem predOk_isNumber (k : Kind) : predOk FE .isNumber k = k.isNumeric := by cases k <;> rfl
theorem predOk_isInt (k : Kind) : predOk FE .isInt k = k.isInteger := by cases k <;> rfl
theorem predOk_isFloat (k : Kind) : predOk FE .isFloat k = k.isFloat := by cases k <;> rfl
theorem predOk_isComplex (k : Kind) : predOk FE .isComplex k = k.isComplex := by cases k <;> rfl
theorem predOk_isString (k : Kind) : predOk FE .isString k = (k == .string) := by cases k <;> rfl
theorem predOk_isBoolean (k : Kind) : predOk FE .isBoolean k = (k == .bool) := by cases k <;> rfl

theorem unaryY_spec (op : UnOp) (k : Kind) : unaryY FE op.op.action k = definedOn op.op k := by
  cases op <;> cases k <;> rfl
theorem binaryY_spec (op : BinOp) (k : Kind) : binaryY FE op.op.action k = definedOn op.op k := by
  cases op <;> cases k <;> rfl
theorem incY_spec (k : Kind) : unaryY FE .aInc k = k.isNumeric := by cases k <;> rfl

/-! ### kinds of typed types -/

/-- for a typed type the reflect kind and the kind of the underlying type coincide, except that a
    non-empty interface type is represented by a struct -/
theorem kind_typed (t : Ty) (h : t.isUntyped = false) :
    ∃ k k', t.kind? = some k ∧ underKind t = some k' ∧
      (k = k' ∨ (k = .struct ∧ k' = .interface)) := by
  cases t with
  | s st => exact ⟨_, _, rfl, rfl, .inl rfl⟩
  | ptr st => exact ⟨_, _, rfl, rfl, .inl rfl⟩
  | slice st => exact ⟨_, _, rfl, rfl, .inl rfl⟩
  | array n st => exact ⟨_, _, rfl, rfl, .inl rfl⟩
  | map a b => exact ⟨_, _, rfl, rfl, .inl rfl⟩
  | chan d st => exact ⟨_, _, rfl, rfl, .inl rfl⟩
  | func a r => exact ⟨_, _, rfl, rfl, .inl rfl⟩
  | struct i f m => exact ⟨_, _, rfl, rfl, .inl rfl⟩
  | iface i m =>
    by_cases hm : m.isEmpty
    · exact ⟨.interface, .interface, by simp [Ty.kind?, Ty.rtype?, hm, RTy.kind], rfl, .inl rfl⟩
    · exact ⟨.struct, .interface, by simp [Ty.kind?, Ty.rtype?, hm, RTy.kind], rfl, .inr ⟨rfl, rfl⟩⟩
  | untyped u => simp [Ty.isUntyped] at h
  | nil => simp [Ty.isUntyped] at h

/-! ### unary operators, increment and decrement, conditions, receive -/

theorem un_typed_agree (op : UnOp) (x : Opnd) (hx : x.rv = .none) (hxt : x.ty.isUntyped = false) :
    unY TE op x = unG op x := by
  obtain ⟨k, k', hk, hk', hrel⟩ := kind_typed x.ty hxt
  have hc : x.isConst = false := by simp [Opnd.isConst, hx]
  have hb : boolResultRv x x = .none := by simp [boolResultRv, hx]
  unfold unY unG
  have : unaryY TE.ops op.op.action k = definedOn op.op k' := by
    rcases hrel with rfl | ⟨rfl, rfl⟩
    · exact unaryY_spec op k
    · cases op <;> rfl
  simp only [hc, hk, hk', hb, Bool.false_eq_true, ↓reduceIte, this]

theorem incdec_agree (t : Ty) (ht : t.isUntyped = false) : incdecY TE t = incdecG t := by
  obtain ⟨k, k', hk, hk', hrel⟩ := kind_typed t ht
  unfold incdecY incdecG kindOf kindIsG
  simp only [hk, hk']
  have : unaryY TE.ops .aInc k = k'.isNumeric := by
    rcases hrel with rfl | ⟨rfl, rfl⟩
    · exact incY_spec k
    · rfl
  show (if unaryY TE.ops .aInc k = true then _ else _) = _
  rw [this]

theorem cond_typed_agree (x : Opnd) (hx : x.rv = .none) (hxt : x.ty.isUntyped = false) :
    condY TE x = condG x := by
  obtain ⟨k, k', hk, hk', hrel⟩ := kind_typed x.ty hxt
  have hni : x.ty.isNil = false := by cases h : x.ty <;> simp_all [Ty.isUntyped, Ty.isNil]
  unfold condY condG kindOf kindIsG
  simp only [hni, Bool.and_false, Bool.false_eq_true, ↓reduceIte, pure, Res.bind_ok]
  have hnil : ∀ {α : Type} (a b : α), (match x.ty with | .nil => a | _ => b) = b := by
    intro α a b; cases hx' : x.ty <;> simp_all [Ty.isUntyped]
  simp only [hk, hx]
  have hkk : (k == Kind.bool) = (k' == Kind.bool) := by
    rcases hrel with rfl | ⟨rfl, rfl⟩
    · rfl
    · rfl
  cases hty : x.ty with
  | nil => simp [hty, Ty.isUntyped] at hxt
  | _ => simp_all <;> (cases hb : (k' == Kind.bool) <;> simp_all)

/-- after the repairs of F11 and F12-17: whatever the operand (constant or not, typed or untyped, `nil` included),
    the condition test answers as the specification; no Go panic is left.
    `hcb`: a go/constant-valued operand is not of boolean type (boolean constants are plain Go bools:
    `RVal.gobool`, `RVal.ubool`; no expression of the fragment builds the excluded combination) -/
theorem cond_agree (x : Opnd)
    (hcb : ∀ c, x.rv = .const c → kindIsG (· == .bool) x.ty = false) : condY TE x = condG x := by
  have hg : TE.condBoolGuarded = true := rfl
  have hr : TE.nilOperandsReported = true := rfl
  unfold condY condG kindOf
  rw [hg, hr]
  cases hty : x.ty with
  | nil => simp [Ty.isNil, Res.bind, bind]
  | iface i m =>
    by_cases hm : m.isEmpty <;> cases hrv : x.rv <;>
      simp [Ty.isNil, Ty.kind?, Ty.rtype?, hm, RTy.kind, kindIsG, underKind, Res.bind, bind, pure]
  | _ =>
    cases hrv : x.rv <;>
      (try have hcb' := hcb _ hrv) <;>
      simp_all [Ty.isNil, Ty.kind?, Ty.rtype?, RTy.kind, kindIsG, underKind, Res.bind, bind, pure] <;>
      (try split) <;> simp_all

/-- type assertions: for EVERY operand (`nil` included since 52cb9ff) and every asserted type, `typeAssertionExpr`
    decides as the specification (on the fragment: methods compared by name, `isBin` false, value receivers, one signature) -/
theorem assert_agree (typ : Ty) (x : Opnd) : assertY TE typ x = assertG typ x := by
  have hs : TE.assertSkipMissing = .andBin := rfl
  have hr : TE.nilOperandsReported = true := rfl
  unfold assertY assertG kindOf
  rw [hs, hr]
  cases hty : x.ty with
  | nil => simp [Ty.isNil, Ty.isIface, Res.bind, bind]
  | iface i m =>
    by_cases hm : m.isEmpty <;> by_cases ht : typ.isIface <;>
      simp [Ty.isNil, Ty.kind?, Ty.rtype?, RTy.kind, Ty.isIface, Ty.methods, subset, hm, ht, Res.bind, bind, pure]
    all_goals simp_all [List.isEmpty_iff]
  | _ => simp [Ty.isNil, Ty.kind?, Ty.rtype?, RTy.kind, Ty.isIface, Res.bind, bind, pure]

theorem recv_typed_agree (T : TcFacts) (x : Opnd) (hxt : x.ty.isUntyped = false) : recvY T x = recvG x := by
  unfold recvY recvG kindOf
  cases hty : x.ty with
  | untyped u => simp [hty, Ty.isUntyped] at hxt
  | nil => simp [hty, Ty.isUntyped] at hxt
  | chan d st => cases d <;> simp [Ty.kind?, Ty.rtype?, RTy.kind, Ty.isNil]
  | iface i m => by_cases hm : m.isEmpty <;> simp [Ty.kind?, Ty.rtype?, RTy.kind, hm, Ty.isNil]
  | _ => simp [Ty.kind?, Ty.rtype?, RTy.kind, Ty.isNil]

/-! ### constants -/

theorem natAbs_lt_iff (v : Int) (n : Nat) : v.natAbs < n ↔ (-(n : Int) < v ∧ v < n) := by omega

theorem bool_eq_of_iff {a b : Bool} (h : a = true ↔ b = true) : a = b := by
  cases a <;> cases b <;> simp_all

/-- an integer constant against a basic integer type: with the exact signed range now read from
    `representableConst` (the F03 repair), yaegi's test is Go's range test -/
theorem representable_int_agree (v : Int) (b : Basic) (hb : b.kind.isInteger = true) :
    representableConstY FE (.int v) b.kind = representableG (.int v) b := by
  unfold representableConstY representableG
  rw [predOk_isInt, hb]
  simp only [↓reduceIte]
  apply bool_eq_of_iff
  cases b <;> simp [Basic.kind, Kind.isInteger, Kind.isSigned, Kind.isUnsigned] at hb <;>
    simp [Basic.kind, Kind.isSigned, Kind.isUnsigned, fitsBitLen, fitsSigned, lookup, FE, YaegiVerif.Expected.C12.opFacts,
      inRange, natAbs_lt_iff] <;>
    omega

/-- the same test with the bit-length reading of the signed arm (the tree before the repair): equal to
    Go's outside the gap `max < |v| < 2^bits` of the signed types narrower than 64 bits -/
theorem representable_int_bitlen (v : Int) (b : Basic) (hb : b.kind.isInteger = true)
    (hg : inBitLenGap b.kind v = false) :
    representableConstY { FE with signedRepr := .bitLen } (.int v) b.kind = representableG (.int v) b := by
  unfold representableConstY representableG
  have hp : predOk { FE with signedRepr := .bitLen } .isInt b.kind = b.kind.isInteger := by cases b <;> rfl
  rw [hp, hb]
  simp only [↓reduceIte]
  apply bool_eq_of_iff
  cases b <;> simp [Basic.kind, Kind.isInteger, Kind.isSigned, Kind.isUnsigned] at hb <;>
    simp [Basic.kind, Kind.isSigned, Kind.isUnsigned, fitsBitLen, lookup, FE, YaegiVerif.Expected.C12.opFacts,
      inRange, Kind.bits, inBitLenGap, natAbs_lt_iff] at hg ⊢ <;>
    omega

/-! ### arity of calls -/

theorem callArgs_all_ok (T : TcFacts) (params : List STy) (h : ∀ p a, assignmentY T.ops a (.s p) = .ok ()) :
    ∀ (args : List Opnd) (i : Nat), i ≤ params.length →
      callArgsY T params i args = (if i + args.length ≤ params.length then .ok () else .err)
  | [], i, hi => by
    unfold callArgsY
    simp [hi]
  | a :: rest, i, hi => by
    unfold callArgsY
    cases hp : params[i]? with
    | none =>
      have : params.length ≤ i := by
        rcases Nat.lt_or_ge i params.length with hlt | hge
        · rw [List.getElem?_eq_getElem hlt] at hp; cases hp
        · exact hge
      have hne : ¬ (i + (rest.length + 1) ≤ params.length) := by omega
      simp [hne]
    | some p =>
      have hlt : i < params.length := by
        rcases Nat.lt_or_ge i params.length with hlt | hge
        · exact hlt
        · rw [List.getElem?_eq_none hge] at hp; cases hp
      simp only [h p a, Res.bind_ok]
      rw [callArgs_all_ok T params h rest (i + 1) (by omega)]
      simp only [List.length_cons]
      by_cases hc : i + 1 + rest.length ≤ params.length
      · have : i + (rest.length + 1) ≤ params.length := by omega
        simp [hc, this]
      · have : ¬ (i + (rest.length + 1) ≤ params.length) := by omega
        simp [hc, this]

theorem call_arity_agree (params : List STy) (args : List Opnd)
    (h : ∀ p a, assignmentY TE.ops a (.s p) = .ok ()) :
    (callY TE params args = .ok ()) ↔ args.length = params.length := by
  unfold callY
  rw [callArgs_all_ok TE params h args 0 (Nat.zero_le _)]
  by_cases h1 : args.length ≤ params.length
  · by_cases h2 : args.length < params.length
    · have : CmpTok.eval TE.argCountCmp args.length params.length = true := by
        show decide (args.length < params.length) = true
        simp [h2]
      simp [h1, this]; omega
    · have : CmpTok.eval TE.argCountCmp args.length params.length = false := by
        show decide (args.length < params.length) = false
        simp [h2]
      simp [h1, this]; omega
  · simp [h1]; omega

/-! ### assignment of a typed non-constant value -/

/-- different Go types that reflect cannot tell apart: the Go types are not assignable, yet the
    reflect types the interpreter builds for them are (identical, or a bidirectional channel of the same
    erased element) -/
def reflectCollision (v t : Ty) : Bool :=
  !assignableTyG v t && !(isLinked v && isLinked t) &&
  match v.rtype?, t.rtype? with
  | some a, some b => rAssignable a b
  | _, _ => false

theorem rtype_typed (t : Ty) (h : t.isUntyped = false) : ∃ r, t.rtype? = some r := by
  cases t <;> simp [Ty.isUntyped] at h <;> exact ⟨_, rfl⟩

theorem isNil_typed (t : Ty) (h : t.isUntyped = false) : t.isNil = false := by
  cases t <;> simp [Ty.isUntyped] at h <;> rfl

theorem isLinked_not_iface (t : Ty) (h : isLinked t = true) : t.isIface = false := by
  cases t with
  | s st => rfl
  | _ => simp [isLinked] at h

theorem subset_refl (a : List Nat) : subset a a = true := by
  unfold subset
  rw [List.all_eq_true]
  intro m hm
  exact List.contains_iff_mem.mpr hm

theorem equalsT_refl (v : Ty) : equalsT v v = true := by
  unfold equalsT
  cases v.isIface <;> simp [subset_refl]

theorem equalsT_true_assignable (v t : Ty) (h : equalsT v t = true) (h1 : (v.isIface && !t.isIface) = false) :
    assignableTyG v t = true := by
  unfold equalsT at h
  unfold assignableTyG
  cases hv : v.isIface <;> cases ht : t.isIface <;> simp_all

theorem assignableToY_typed (v t : Ty) (hv : v.isUntyped = false) (ht : t.isUntyped = false)
    (h1 : (v.isIface && !t.isIface) = false) (h2 : reflectCollision v t = false) :
    assignableToY FE v t .none = .ok (assignableTyG v t) := by
  unfold assignableToY
  by_cases he : equalsT v t = true
  · simp [he, equalsT_true_assignable v t he h1]
  · simp only [he, Bool.false_eq_true, ↓reduceIte]
    have hne : v ≠ t := fun h => he (h ▸ equalsT_refl v)
    by_cases hl : (isLinked v && isLinked t) = true
    · simp only [hl, ↓reduceIte]
      simp at hl
      have hti := isLinked_not_iface _ hl.2
      congr 1
      unfold assignableTyG
      cases v <;> cases t <;> simp_all [isLinked, Ty.isIface]
    · simp only [hl, Bool.false_eq_true, ↓reduceIte, isNil_typed v hv, isNil_typed t ht]
      obtain ⟨rt, hrt⟩ := rtype_typed v hv
      obtain ⟨ro, hro⟩ := rtype_typed t ht
      simp only [hrt, hro]
      congr 1
      unfold assignableTailY
      cases hg : assignableTyG v t
      · -- not Go-assignable: then (no collision) not reflect-assignable either
        have hr : rAssignable rt ro = false := by
          unfold reflectCollision at h2
          simp only [hrt, hro] at h2
          cases hr : rAssignable rt ro
          · rfl
          · simp [hg, hr] at h2; simp [h2] at hl
        have hi : (t.isIface && subset t.methods v.methods) = false := by
          unfold assignableTyG at hg
          simp only [Bool.or_eq_false_iff] at hg
          exact hg.1.2
        simp only [hr, hi, Bool.false_eq_true, ↓reduceIte, hv, Bool.false_and]
        cases v <;> cases t <;> simp [Ty.rtype?] at hrt hro <;> subst hrt hro <;>
          simp_all [rAssignable, assignableElemY]
      · -- Go-assignable (and not identical): interface satisfaction or the channel rule
        unfold assignableTyG at hg
        have hvt : (v == t) = false := by simp [hne]
        simp only [hvt, Bool.false_or, Bool.or_eq_true] at hg
        rcases hg with hi | hc
        · by_cases hra : rAssignable rt ro = true
          · simp [hra]
          · simp [hra, hi]
        · have : rAssignable rt ro = true := by
            cases v <;> cases t <;> simp [Ty.rtype?] at hrt hro hc <;> subst hrt hro
            rename_i d1 a d2 b
            cases d1 <;> simp_all [rAssignable]
          simp [this]

/-- **assignment of a typed non-constant value**: `typecheck.assignment` decides as Go's assignability
    does, unless the value is of interface type and the destination is not, or the two types collide in reflect -/
theorem assignment_typed_agree (x : Opnd) (t : Ty) (hx : x.rv = .none) (hxt : x.ty.isUntyped = false)
    (ht : t.isUntyped = false)
    (h1 : (x.ty.isIface && !t.isIface) = false) (h2 : reflectCollision x.ty t = false) :
    assignmentY FE x t = (if assignableG x t then .ok () else .err) := by
  have hG : assignableG x t = assignableTyG x.ty t := by
    unfold assignableG
    cases hty : x.ty <;> simp [hty, Ty.isUntyped] at hxt ⊢ <;> simp [hx]
  rw [hG]
  unfold assignmentY
  simp only [isNil_typed x.ty hxt, hxt, Bool.false_and, Bool.false_eq_true, ↓reduceIte, hx,
    assignableToY_typed x.ty t hxt ht h1 h2, okIf, ite_self]

/-! ### shifts, arithmetic, comparisons, index expressions on typed non-constant operands -/
theorem isIntT_typed (t : Ty) (h : t.isUntyped = false) : isIntT FE t = kindIsG Kind.isInteger t := by
  obtain ⟨k, k', hk, hk', hrel⟩ := kind_typed t h
  unfold isIntT kindIs kindIsG
  simp only [hk, hk', predOk_isInt]
  rcases hrel with rfl | ⟨rfl, rfl⟩ <;> rfl

/-- shifts of typed non-constant operands -/
theorem shift_typed_agree (op : ShOp) (x y : Opnd) (hx : x.rv = .none) (hy : y.rv = .none)
    (hxt : x.ty.isUntyped = false) (hyt : y.ty.isUntyped = false) :
    shiftY TE op x y = shiftG op x y := by
  have hc : bothConstant x y = false := by simp [bothConstant, Opnd.isConst, hx]
  have hcg : bothConstantG x y = false := by simp [bothConstantG, Opnd.isConst, hx]
  have hnx := isNil_typed x.ty hxt
  unfold shiftY shiftG shiftCheckY shiftCheckG
  simp only [hc, hcg, hxt, hyt, hx, hy, hnx, Bool.false_eq_true, ↓reduceIte]
  have h1 := isIntT_typed x.ty hxt
  have h2 := isIntT_typed y.ty hyt
  change isIntT FE x.ty = _ at h1
  cases hty : y.ty with
  | untyped u => simp [hty, Ty.isUntyped] at hyt
  | nil => simp [hty, Ty.isUntyped] at hyt
  | _ =>
    rw [hty] at h2
    have e1 : TE.ops = FE := rfl
    simp only [e1, h1, h2]
    cases kindIsG Kind.isInteger x.ty <;> cases kindIsG Kind.isInteger (_ : Ty) <;> rfl


theorem kind_typed_noniface (t : Ty) (h : t.isUntyped = false) (hi : t.isIface = false) :
    ∃ k, t.kind? = some k ∧ underKind t = some k := by
  cases t <;> simp [Ty.isUntyped, Ty.isIface] at h hi <;> exact ⟨_, rfl, rfl⟩

/-- arithmetic operators on typed non-constant operands of non-interface types, outside a propagation zone -/
theorem arith_typed_agree (op : BinOp) (x y : Opnd) (hop : op.propagates = true)
    (hx : x.rv = .none) (hy : y.rv = .none)
    (hxt : x.ty.isUntyped = false) (hyt : y.ty.isUntyped = false)
    (hxi : x.ty.isIface = false) (hyi : y.ty.isIface = false) :
    binY TE op none x y = binG op none x y := by
  have hc : bothConstant x y = false := by simp [bothConstant, Opnd.isConst, hx]
  have hcg : bothConstantG x y = false := by simp [bothConstantG, Opnd.isConst, hx]
  have hnx := isNil_typed x.ty hxt
  have hny := isNil_typed y.ty hyt
  obtain ⟨k, hk, hk'⟩ := kind_typed_noniface x.ty hxt hxi
  have hb : boolResultRv x y = .none := by simp [boolResultRv, hx]
  have hz : zeroConstY TE y = .ok false := by
    have hm : TE.zeroConst = .numericConst := rfl
    simp [zeroConstY, hm, RVal.valid, hy]
  have hm : matchG x y = .ok (x, y) := by
    have : (RVal.none == RVal.ubool) = false := by decide
    simp [matchG, untypedLike, hxt, hyt, hx, hy, this]
  have hcx : convertUntypedY TE.ops x y.ty = .ok x := by simp [convertUntypedY, hxt]
  have hcy : convertUntypedY TE.ops y x.ty = .ok y := by simp [convertUntypedY, hyt]
  have heq : equalsT x.ty y.ty = (x.ty == y.ty) := by simp [equalsT, hxi, hyi]
  have hzc : isZeroConst y = false := by simp [isZeroConst, hy]
  have hres : binResultTy TE.ops x y = x.ty := by simp [binResultTy, hxt]
  have hv : x.rv.valid = false := by simp [RVal.valid, hx]
  have hpred : binaryY TE.ops op.op.action k = definedOn op.op k := binaryY_spec op k
  unfold binY binG arithY
  cases op <;> simp [BinOp.propagates] at hop <;>
    simp only [hc, hcg, hnx, hny, hm, hz, hcx, hcy, heq, hk, hk', hb, hzc, hres, hv, hpred,
      Bool.false_eq_true, ↓reduceIte, Res.bind_ok, Bool.not_false, Bool.false_or, Bool.or_false,
      Bool.and_false, Bool.false_and, bne, pure, Bool.not_eq_true'] <;>
    (cases (x.ty == y.ty) <;> cases (definedOn _ k) <;> rfl)


theorem comparable_typed (t : Ty) (h : t.isUntyped = false) :
    (match t.rtype? with | some r => r.comparable | none => false) = comparableG t := by
  cases t with
  | untyped u => simp [Ty.isUntyped] at h
  | nil => simp [Ty.isUntyped] at h
  | iface i m => by_cases hm : m.isEmpty <;> simp [Ty.rtype?, RTy.comparable, comparableG, hm]
  | _ => simp [Ty.rtype?, RTy.comparable, comparableG]

theorem ordered_typed (t : Ty) (h : t.isUntyped = false) :
    (isIntT FE t || isFloatT FE t || isStringT FE t) = orderedG t := by
  obtain ⟨k, k', hk, hk', hrel⟩ := kind_typed t h
  unfold isIntT isFloatT isStringT kindIs orderedG kindIsG
  simp only [hk, hk', predOk_isInt, predOk_isFloat, predOk_isString]
  rcases hrel with rfl | ⟨rfl, rfl⟩ <;> rfl

/-- two distinct non-interface types one of which is assignable to the other: a bidirectional channel and a channel
    of the same element type -/
theorem assignable_distinct (v t : Ty) (hti : t.isIface = false) (h : assignableTyG v t = true) :
    v = t ∨ ∃ a d, v = .chan .both a ∧ t = .chan d a := by
  unfold assignableTyG at h
  cases v <;> cases t <;> simp_all [Ty.isIface]
  rename_i d1 a d2 b
  cases d1 <;> simp_all

/-- comparisons of typed non-constant operands of non-interface types that do not collide in reflect: since 6110e8a /
    61b9210 (F12-11) channels of different directions are covered too -/
theorem cmp_typed_agree (op : CmpOp) (x y : Opnd)
    (hx : x.rv = .none) (hy : y.rv = .none)
    (hxt : x.ty.isUntyped = false) (hyt : y.ty.isUntyped = false)
    (hxi : x.ty.isIface = false) (hyi : y.ty.isIface = false)
    (h2 : reflectCollision x.ty y.ty = false) (h2' : reflectCollision y.ty x.ty = false) :
    cmpY TE op x y = cmpG op x y := by
  have hc : bothConstant x y = false := by simp [bothConstant, Opnd.isConst, hx]
  have hcg : bothConstantG x y = false := by simp [bothConstantG, Opnd.isConst, hx]
  have hnx := isNil_typed x.ty hxt
  have hny := isNil_typed y.ty hyt
  have hm : matchG x y = .ok (x, y) := by
    have : (RVal.none == RVal.ubool) = false := by decide
    simp [matchG, untypedLike, hxt, hyt, hx, hy, this]
  have hcx : convertUntypedY FE x y.ty = .ok x := by simp [convertUntypedY, hxt]
  have hcy : convertUntypedY FE y x.ty = .ok y := by simp [convertUntypedY, hyt]
  have ha := assignableToY_typed x.ty y.ty hxt hyt (by simp [hxi]) h2
  have hb := assignableToY_typed y.ty x.ty hyt hxt (by simp [hyi]) h2'
  have e1 : TE.ops = FE := rfl
  have hce : FE.cmpChanExempt = .sameElemOneBidir := rfl
  unfold cmpY cmpG comparisonY
  simp only [hc, hcg, hnx, hny, hm, hcx, hcy, e1, hx, hy, ha, hb, hxi, hyi, hxt, hyt, hce,
    Bool.false_eq_true, ↓reduceIte, Res.bind_ok, Bool.and_false, Bool.false_and, pure, Bool.not_false, Bool.true_and]
  have hcases : (assignableTyG x.ty y.ty || assignableTyG y.ty x.ty) = true →
      x.ty = y.ty ∨ ∃ a d0 d1, x.ty = .chan d0 a ∧ y.ty = .chan d1 a ∧ (d0 = .both ∨ d1 = .both) := by
    intro h
    simp only [Bool.or_eq_true] at h
    rcases h with h | h
    · rcases assignable_distinct _ _ hyi h with e | ⟨a, d, e1, e2⟩
      · exact .inl e
      · exact .inr ⟨a, .both, d, e1, e2, .inl rfl⟩
    · rcases assignable_distinct _ _ hxi h with e | ⟨a, d, e1, e2⟩
      · exact .inl e.symm
      · exact .inr ⟨a, d, .both, e2, e1, .inr rfl⟩
  cases hg1 : assignableTyG x.ty y.ty <;> cases hg2 : assignableTyG y.ty x.ty
  · simp [Res.bind]
  all_goals
    rcases hcases (by simp [hg1, hg2]) with heq | ⟨a, d0, d1, ex, ey, hd⟩
    · have hc1 := comparable_typed x.ty hxt
      have ho1 := ordered_typed x.ty hxt
      obtain ⟨r, hr⟩ := rtype_typed x.ty hxt
      rw [hr] at hc1
      simp only at hc1
      rw [← heq]
      cases op <;> simp [hr, hc1, ho1, Res.bind, hnx] <;>
        (try (cases comparableG x.ty <;> rfl)) <;> (try (cases orderedG x.ty <;> rfl))
    · rw [ex, ey]
      cases op <;> cases d0 <;> cases d1 <;> simp at hd <;>
        simp [typeDefinedT, Ty.isNil, Ty.rtype?, RTy.comparable, comparableG, orderedG, kindIsG, underKind,
          isIntT, isFloatT, isStringT, kindIs, Ty.kind?, RTy.kind, predOk_isInt, predOk_isFloat, predOk_isString, Res.bind, bind]

/-- index expressions on a slice, array or string with a typed non-constant index -/
theorem index_typed_agree (a i : Opnd) (ha : a.rv = .none) (hi : i.rv = .none) (hit : i.ty.isUntyped = false)
    (hb : (match a.ty with | .slice _ => true | .array _ _ => true | .s t => t.under == .string | _ => false) = true) :
    indexY TE a i = indexG a i := by
  have hcv : convertUntypedY FE i (.s (.basic .int)) = .ok i := by simp [convertUntypedY, hit]
  have h1 := isIntT_typed i.ty hit
  have e1 : TE.ops = FE := rfl
  have hu : (RVal.none == RVal.ubool) = false := by decide
  have hchk : ∀ m, indexCheckY TE i m = indexValueG i m := by
    intro m
    unfold indexCheckY indexValueG
    simp only [e1, hcv, Res.bind_ok, h1, hi, hu]
    generalize hk : kindIsG Kind.isInteger i.ty = b
    cases hty : i.ty with
    | untyped u => simp [hty, Ty.isUntyped] at hit
    | nil => simp [hty, Ty.isUntyped] at hit
    | _ => cases b <;> simp [Res.bind] <;> cases m <;> first | rfl | (rw [← hty]; exact hk) | simp_all
  unfold indexY indexG
  cases hty : a.ty <;> simp [hty] at hb <;> simp only [hchk, ha, hu, Bool.false_eq_true, ↓reduceIte]
  · simp [hb]

/-! ### the rules repaired in the third round (5877dba … f150e30): full agreement on their whole input space -/

/-- F12-12 (f150e30): a call used as a single value, not as the operand of a conversion — no result is an error on both
    sides, one result is its type, several results are outside the description on both sides: equal for EVERY signature -/
theorem callValue_agree (rets : List STy) : callValueY TE false rets = callValueG false rets := by
  have h : TE.callValueChecked = true := rfl
  unfold callValueY callValueG
  rw [h]
  cases rets with
  | nil => rfl
  | cons r rest => cases rest <;> rfl

/-- …and, since 29b7aa6 (F12-21), as the operand of a conversion too: a single-value context on both sides, for EVERY signature -/
theorem callValue_conv_agree (rets : List STy) : callValueY TE true rets = callValueG true rets := by
  have h : TE.callValueChecked = true := rfl
  have h2 : TE.callValueConvChecked = true := rfl
  unfold callValueY callValueG
  rw [h, h2]
  cases rets with
  | nil => rfl
  | cons r rest => cases rest <;> rfl

/-- F12-7 (82e65a0): a send statement is the direction test plus the assignment of the value to the element type.
    For EVERY channel operand (`nil` included since 2992617) the rule agrees with the specification as soon as the assignment check
    does (`assignment_typed_agree` for typed values; the constants are covered by the correspondence) -/
theorem send_agree (c v : Opnd)
    (ha : ∀ d t, c.ty = .chan d t → assignmentY FE v (.s t) = (if assignableG v (.s t) then .ok () else .err)) :
    sendY TE c v = sendG c v := by
  have h1 : TE.sendValueChecked = true := rfl
  have h2 : TE.sendDirChecked = true := rfl
  have h3 : TE.typeKindNilSafe = true := rfl
  have e1 : TE.ops = FE := rfl
  unfold sendY sendG kindOf
  rw [h1, h2, h3, e1]
  cases hty : c.ty with
  | nil => simp [Ty.isNil, Res.bind, bind]
  | chan d t =>
    have := ha d t hty
    cases d <;> simp [Ty.isNil, Ty.kind?, Ty.rtype?, RTy.kind, this, Res.bind, bind, pure]
  | iface i m => by_cases hm : m.isEmpty <;> simp [Ty.isNil, Ty.kind?, Ty.rtype?, RTy.kind, hm, Res.bind, bind, pure]
  | _ => simp [Ty.isNil, Ty.kind?, Ty.rtype?, RTy.kind, Res.bind, bind, pure]

/-- F12-7: a typed non-constant value sent on a channel: exactly Go's rule, outside the two open classes
    (interface value for a concrete element type F12-6, reflect collision F12-5) -/
theorem send_typed_agree (c v : Opnd) (hv : v.rv = .none) (hvt : v.ty.isUntyped = false)
    (h1 : ∀ d t, c.ty = .chan d t → v.ty.isIface = false)
    (h2 : ∀ d t, c.ty = .chan d t → reflectCollision v.ty (.s t) = false) :
    sendY TE c v = sendG c v :=
  send_agree c v (fun d t h =>
    assignment_typed_agree v (.s t) hv hvt rfl (by simp [h1 d t h]) (h2 d t h))

/-- F12-10 (8a6620e): an operand that cannot be indexed is an error on both sides (no Go panic, no acceptance),
    whatever the index -/
theorem index_non_indexable_agree (a i : Opnd) (ha : a.rv = .none)
    (hb : (match a.ty with
           | .s t => t.under != .string
           | .ptr _ | .chan _ _ | .func _ _ | .struct _ _ _ | .iface _ _ => true
           | _ => false) = true) :
    indexY TE a i = .err ∧ indexG a i = .err := by
  have h : TE.indexOperandChecked = true := rfl
  have hu : (RVal.none == RVal.ubool) = false := by decide
  unfold indexY indexG
  rw [h]
  cases hty : a.ty with
  | s t => simp [hty] at hb; simp [ha, hu, hb]
  | ptr t => cases t <;> simp [ha, hu]
  | _ => simp_all

/-- F12-3 (5877dba): `&&` / `||` on typed non-constant operands that are not comparisons: `logicalExpr` decides as
    the specification (both operands of the same boolean type) -/
theorem logical_typed_agree (op : BinOp) (hop : op.propagates = false) (z : Option Ty) (x y : Opnd)
    (hx : x.rv = .none) (hy : y.rv = .none)
    (hxt : x.ty.isUntyped = false) (hyt : y.ty.isUntyped = false)
    (hxi : x.ty.isIface = false) (hyi : y.ty.isIface = false) :
    binY TE op z x y = binG op z x y := by
  have hl : TE.landLorChecked = true := rfl
  have hc : bothConstant x y = false := by simp [bothConstant, Opnd.isConst, hx]
  have hcg : bothConstantG x y = false := by simp [bothConstantG, Opnd.isConst, hx]
  have hnx := isNil_typed x.ty hxt
  have hny := isNil_typed y.ty hyt
  obtain ⟨k, hk, hk'⟩ := kind_typed_noniface x.ty hxt hxi
  obtain ⟨k2, hk2, hk2'⟩ := kind_typed_noniface y.ty hyt hyi
  have hb : boolResultRv x y = .none := by simp [boolResultRv, hx]
  have hm : matchG x y = .ok (x, y) := by
    have : (RVal.none == RVal.ubool) = false := by decide
    simp [matchG, untypedLike, hxt, hyt, hx, hy, this]
  have hcx : convertUntypedY TE.ops x y.ty = .ok x := by simp [convertUntypedY, hxt]
  have hcy : convertUntypedY TE.ops y x.ty = .ok y := by simp [convertUntypedY, hyt]
  have heq : equalsT x.ty y.ty = (x.ty == y.ty) := by simp [equalsT, hxi, hyi]
  have hu : (RVal.none == RVal.ubool) = false := by decide
  have hp1 : binaryY TE.ops op.op.action k = definedOn op.op k := binaryY_spec op k
  have hp2 : binaryY TE.ops op.op.action k2 = definedOn op.op k2 := binaryY_spec op k2
  unfold binY binG landLorY logicalOperandY
  cases op <;> simp [BinOp.propagates] at hop <;>
    simp only [hc, hcg, hnx, hny, hm, hl, hcx, hcy, heq, hk, hk2, hk', hb, hx, hy, hu, hp1, hp2,
      Bool.false_eq_true, ↓reduceIte, Res.bind_ok, Bool.not_false, Bool.false_or, Bool.or_false,
      Bool.and_false, Bool.false_and, Bool.and_true, bne, pure, Bool.not_eq_true'] <;>
    (by_cases hxy : x.ty = y.ty
     · have hkk : k2 = k := by rw [hxy, hk2] at hk; exact Option.some.inj hk
       subst hkk
       simp [hxy]
       cases definedOn _ k2 <;> simp [Res.bind, bind]
     · have : (x.ty == y.ty) = false := by simp [hxy]
       simp [this, hxy]
       cases definedOn _ k <;> cases definedOn _ k2 <;> simp [Res.bind, bind])

/-- F12-9 / F12-10 / F12-11 (03fb34b): `zeroConst` sees exactly the zero constants of numeric type, typed or not, and
    no longer panics on the others -/
theorem zeroConst_agree (y : Opnd) (hn : isNumberT FE y.ty = true) : zeroConstY TE y = .ok (isZeroConst y) := by
  have hm : TE.zeroConst = .numericConst := rfl
  have e1 : TE.ops = FE := rfl
  unfold zeroConstY isZeroConst
  rw [hm]
  simp only [e1, hn]
  cases hrv : y.rv with
  | const c => cases c <;> simp [RVal.valid]
  | typed v => cases v <;> simp [RVal.valid]
  | _ => simp [RVal.valid]

theorem zeroConst_total (y : Opnd) : ∃ b, zeroConstY TE y = .ok b := by
  have hm : TE.zeroConst = .numericConst := rfl
  unfold zeroConstY
  rw [hm]
  simp only
  split
  · exact ⟨_, rfl⟩
  · split <;> exact ⟨_, rfl⟩

/-- F12-9 (03fb34b): an integer constant returned for a basic integer result type is accepted exactly when it is in range -/
theorem ret_int_const_agree (v : Int) (b : Basic) (hb : b.kind.isInteger = true) :
    retValsY TE [.basic b] [(.plain, ⟨.untyped .int, .const (.int v)⟩)] =
      (if representableG (.int v) b then .ok () else .err) := by
  have hr : TE.retConstChecked = true := rfl
  have e1 : TE.ops = FE := rfl
  have hnum : isNumberT FE (.s (.basic b)) = true := by
    cases b <;> simp [Basic.kind, Kind.isInteger, Kind.isSigned, Kind.isUnsigned] at hb <;> rfl
  have hass : assignableToY FE (.untyped .int) (.s (.basic b)) (.const (.int v)) = .ok true := by
    cases b <;> simp [Basic.kind, Kind.isInteger, Kind.isSigned, Kind.isUnsigned] at hb <;> rfl
  have hrep := representable_int_agree v b hb
  unfold retValsY
  simp only [e1, hr, hass, Res.bind_ok, STy.under, hrep, hnum, Ty.isUntyped, retValsY]
  cases representableG (.int v) b <;> simp [Res.bind, bind]

/-- F12-9 (03fb34b): a constant index — untyped integer or typed — is rejected when negative, whatever the bound -/
theorem index_negative_rejected (T : TcFacts) (hT : T.indexNegChecked = true) (i i' : Opnd) (max : Option Nat)
    (hc : convertUntypedY T.ops i (.s (.basic .int)) = .ok i')
    (v : Int) (hv : i'.rv = .const (.int v) ∨ i'.rv = .typed (some v)) (hneg : v < 0) :
    indexCheckY T i max = .err := by
  unfold indexCheckY
  simp only [hc, Res.bind_ok]
  by_cases hi : isIntT T.ops i'.ty = true
  · rcases hv with hv | hv <;> simp [hi, hv, hT, hneg, Res.bind, bind]
  · simp [hi, Res.bind, bind]

/-! ### array and slice literals: the index discipline of `arrayLitExpr` -/

/-- for every literal of an array type of ANY length (`bound = some length`; length 0 included since 5556d48) or of a
    slice type (`bound = none`), whatever the mix of keyed and positional elements, `arrayLitExpr` accepts exactly the
    index sequences the specification allows (running index = previous key + 1, every index below the length, no
    duplicate). The position `i` of the element in the literal plays no role (it does under the seeded change of
    seeded/C12-3, fact `.loopPosition`). -/
theorem arrayLit_agree (T : TcFacts) (hm : T.arrayLitBound = .runningIndex) (hn : T.indexNegChecked = true)
    (hz : T.indexZeroLenChecked = true) (hu : T.arrayLitSliceUnbounded = true)
    (isArray : Bool) (length : Nat) :
    ∀ (es : List LitElem) (i index : Nat) (vis : List Nat),
      arrayLitY T isArray length es i index vis =
        arrayLitG (if isArray then some length else none) es index vis
  | [], i, index, vis => by simp [arrayLitY, arrayLitG]
  | .keyed k :: rest, i, index, vis => by
    unfold arrayLitY arrayLitG
    by_cases hk : k < 0
    · simp [hk, hn]
    · simp only [hk, ↓reduceIte, hz, hu]
      cases isArray with
      | true =>
        have ih := arrayLit_agree T hm hn hz hu true length rest (i + 1) (k.toNat + 1) (k.toNat :: vis)
        simp only [↓reduceIte] at ih
        simp [ih]
      | false =>
        have ih := arrayLit_agree T hm hn hz hu false length rest (i + 1) (k.toNat + 1) (k.toNat :: vis)
        simp only [Bool.false_eq_true, ↓reduceIte] at ih
        simp [ih]
  | .pos :: rest, i, index, vis => by
    unfold arrayLitY arrayLitG
    rw [hm]
    cases isArray with
    | true =>
      have ih := arrayLit_agree T hm hn hz hu true length rest (i + 1) (index + 1) (index :: vis)
      simp only [↓reduceIte] at ih
      simp [ih]
    | false =>
      have ih := arrayLit_agree T hm hn hz hu false length rest (i + 1) (index + 1) (index :: vis)
      simp only [Bool.false_eq_true, ↓reduceIte] at ih
      simp [ih]

/-! ### round 7: `operationResult` (aa2ac2f) and nil without typed operand (2992617) -/

/-- F12-4 (aa2ac2f): the result of a non-constant, non-comparison operation of type `x.ty` assigned (`v = <op>`) or returned
    where a non-interface type `dst` is expected: `operationResult` decides as Go's assignability, outside the two
    open classes of assignments (interface value for a concrete type F12-6, reflect collision F12-5) -/
theorem opResult_typed_agree (x : Opnd) (dst : Ty) (hx : x.rv = .none) (hxt : x.ty.isUntyped = false)
    (hdt : dst.isUntyped = false) (hdi : dst.isIface = false)
    (h1 : x.ty.isIface = false) (h2 : reflectCollision x.ty dst = false) :
    opResultY TE x dst = (if assignableG x dst then .ok () else .err) := by
  have ho : TE.opResultChecked = true := rfl
  have e1 : TE.ops = FE := rfl
  have hu : (RVal.none == RVal.ubool) = false := by decide
  have hG : assignableG x dst = assignableTyG x.ty dst := by
    unfold assignableG
    cases hty : x.ty <;> simp [hty, Ty.isUntyped] at hxt ⊢ <;> simp [hx]
  rw [hG]
  unfold opResultY
  simp only [ho, hdi, hx, hu, hxt, e1, assignableToY_typed x.ty dst hxt hdt (by simp [h1]) h2, okIf,
    Bool.not_true, Bool.false_or, Bool.false_and, Bool.false_eq_true, ↓reduceIte]

/-- F12-25 (2992617): a receive from, a send on and an index of `nil` are errors on both sides — no Go panic -/
theorem nil_operand_errors (v i : Opnd) :
    recvY TE ⟨.nil, .none⟩ = .err ∧ recvG ⟨.nil, .none⟩ = .err ∧
    sendY TE ⟨.nil, .none⟩ v = .err ∧ sendG ⟨.nil, .none⟩ v = .err ∧
    indexY TE ⟨.nil, .none⟩ i = .err ∧ indexG ⟨.nil, .none⟩ i = .err := by
  have h : TE.typeKindNilSafe = true := rfl
  refine ⟨?_, rfl, ?_, rfl, ?_, ?_⟩
  · simp [recvY, h, Ty.isNil, Res.bind, bind]
  · simp [sendY, h, Ty.isNil, Res.bind, bind]
  · simp [indexY, h]
  · have hu : (RVal.none == RVal.ubool) = false := by decide
    simp [indexG, hu]

end YaegiVerif.Typecheck
