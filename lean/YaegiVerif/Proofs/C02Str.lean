import YaegiVerif.Proofs.C02Core
/- C02 — integer → string conversion through reflect.Value.Convert computes Go's result (as a code point). -/
namespace YaegiVerif.Proofs.C02
open YaegiVerif.Ops YaegiVerif.Spec.GoInt

theorem validRune_range (v : Int) (h : validRune v = true) : 0 ≤ v ∧ v ≤ 0x10FFFF := by
  simp only [validRune, Bool.or_eq_true, Bool.and_eq_true, decide_eq_true_eq] at h
  omega

/-- the round trip through rune (int32) succeeds exactly on the 64-bit patterns that are int32 values, and then the
    rune is that value -/
theorem rune_roundtrip (v : BitVec 64) :
    ((v.setWidth 32).signExtend 64 = v ↔ (-(2:Int) ^ 31 ≤ v.toInt ∧ v.toInt < 2 ^ 31)) ∧
    ((-(2:Int) ^ 31 ≤ v.toInt ∧ v.toInt < 2 ^ 31) → (v.setWidth 32).toInt = v.toInt) := by
  have hr : (v.setWidth 32).toInt = (v.toNat : Int).bmod (2 ^ 32) := by
    rw [BitVec.toInt_setWidth]
  have hs : ((v.setWidth 32).signExtend 64).toInt = (v.setWidth 32).toInt :=
    BitVec.toInt_signExtend_of_le (by omega)
  have hv := BitVec.toInt_eq_toNat_cond v
  have hlt : v.toNat < 2 ^ 64 := v.isLt
  have key : (-(2:Int) ^ 31 ≤ v.toInt ∧ v.toInt < 2 ^ 31) ↔ (v.toNat : Int).bmod (2 ^ 32) = v.toInt := by
    rw [hv, Int.bmod_def]
    split <;> split <;> omega
  refine ⟨?_, fun h => by rw [hr]; exact key.mp h⟩
  constructor
  · intro h
    have : ((v.setWidth 32).signExtend 64).toInt = v.toInt := by rw [h]
    rw [hs, hr] at this
    exact key.mpr this
  · intro h
    apply BitVec.eq_of_toInt_eq
    rw [hs, hr]; exact key.mp h

/-- **`string(x)` of an integer through reflect.Value.Convert** yields, for every integer kind (every width ≤ 64, signed
    or unsigned) and EVERY value, the code point Go specifies: x itself when it is a valid code point, U+FFFD otherwise
    (negative, a surrogate half, above 0x10FFFF — in particular every value that does not fit an int32). -/
theorem reflectIntString_correct (s : Bool) {w : Nat} (x : BitVec w) (h : w ≤ 64) :
    reflectIntString s x = intToString s x := by
  unfold reflectIntString intToString
  obtain ⟨hfit, hrune⟩ := rune_roundtrip (widen s x)
  have hval : value s (widen s x) = value s x := value_widen s x h
  by_cases hin : (-(2:Int) ^ 31 ≤ (widen s x).toInt ∧ (widen s x).toInt < 2 ^ 31)
  · simp only [hfit.mpr hin, if_true, hrune hin]
    -- the signed reading of the 64-bit pattern
    by_cases hv : validRune (widen s x).toInt = true
    · have hr := validRune_range _ hv
      -- non-negative: signed and unsigned readings coincide
      have hnat : ((widen s x).toNat : Int) = (widen s x).toInt := by
        have := BitVec.toInt_eq_toNat_cond (widen s x); omega
      have : value s x = (widen s x).toInt := by
        rw [← hval]; cases s <;> simp [value, hnat]
      simp [hv, this]
    · have hv' : validRune (widen s x).toInt = false := by simpa using hv
      have : validRune (value s x) = false := by
        rw [← hval]
        cases s
        · -- unsigned reading: toNat; if toInt is negative, toNat ≥ 2^63
          simp only [value, Bool.false_eq_true, if_false]
          by_cases hneg : (widen false x).toInt < 0
          · have := BitVec.toInt_eq_toNat_cond (widen false x)
            have hlt : (widen false x).toNat < 2 ^ 64 := (widen false x).isLt
            simp only [validRune, Bool.or_eq_false_iff, Bool.and_eq_false_iff, decide_eq_false_iff_not]
            omega
          · have := BitVec.toInt_eq_toNat_cond (widen false x)
            have : ((widen false x).toNat : Int) = (widen false x).toInt := by omega
            rw [this]; exact hv'
        · simpa [value] using hv'
      simp [hv', this]
  · have hnf : ¬ ((widen s x).setWidth 32).signExtend 64 = widen s x := fun e => hin (hfit.mp e)
    simp only [hnf, if_false]
    have : validRune (value s x) = false := by
      rw [← hval]
      have hc := BitVec.toInt_eq_toNat_cond (widen s x)
      have hlt : (widen s x).toNat < 2 ^ 64 := (widen s x).isLt
      cases s <;> simp only [value, Bool.false_eq_true, if_false, if_true, validRune, Bool.or_eq_false_iff,
        Bool.and_eq_false_iff, decide_eq_false_iff_not] <;> omega
    simp [this]

end YaegiVerif.Proofs.C02
