import YaegiVerif.Model.VarInit
import YaegiVerif.Spec.GoInitOrder
/-
  C15 — lemmas about the ordering loop of `genGlobalVarDecl` (graph layer).
-/
namespace YaegiVerif.Proofs.C15
open YaegiVerif.VarInit YaegiVerif.Spec.InitOrder

/-! ### one pass (one scan: append the earliest ready specification, keep the others) -/

theorem pass_perm (g : Deps) (ns done : List Nat) :
    ((pass g ns done).1 ++ (pass g ns done).2).Perm (done ++ ns) := by
  induction ns generalizing done with
  | nil => simp [pass]
  | cons n ns ih =>
    unfold pass
    split
    · simp
    · have := ih done
      simp only
      refine (List.perm_middle).trans ?_
      exact (List.Perm.cons n this).trans (List.perm_middle).symm

theorem pass_rev_length_le (g : Deps) (ns done : List Nat) : (pass g ns done).2.length ≤ ns.length := by
  induction ns generalizing done with
  | nil => simp [pass]
  | cons n ns ih =>
    unfold pass
    split
    · simp
    · have := ih done; simp; omega

/-- if nothing was removed from the list, nothing was appended and nothing was ready -/
theorem pass_stuck (g : Deps) (ns done : List Nat) (h : (pass g ns done).2.length = ns.length) :
    (pass g ns done).1 = done ∧ (pass g ns done).2 = ns ∧ ∀ n ∈ ns, ready g done n = false := by
  induction ns generalizing done with
  | nil => simp [pass]
  | cons n ns ih =>
    unfold pass at h ⊢
    split
    · rename_i hr
      simp only [hr, if_true] at h
      simp at h
    · rename_i hr
      simp only [hr] at h
      simp at h
      obtain ⟨h1, h2, h3⟩ := ih done h
      refine ⟨h1, by simp [h2], ?_⟩
      intro m hm
      simp at hm
      rcases hm with rfl | hm
      · simpa using hr
      · exact h3 m hm

/-- the revisit list is a sublist of the nodes: order is kept -/
theorem pass_rev_sublist (g : Deps) (ns done : List Nat) : (pass g ns done).2.Sublist ns := by
  induction ns generalizing done with
  | nil => simp [pass]
  | cons n ns ih =>
    unfold pass
    split
    · exact List.sublist_cons_self n ns
    · exact (ih _).cons_cons n

theorem respectsFrom_append (g : Deps) (pre a b : List Nat) :
    respectsFrom g pre (a ++ b) = (respectsFrom g pre a && respectsFrom g (pre ++ a) b) := by
  induction a generalizing pre with
  | nil => simp [respectsFrom]
  | cons x xs ih =>
    simp only [List.cons_append, respectsFrom, ih, Bool.and_assoc]
    simp

theorem pass_respects (g : Deps) (ns done : List Nat) (h : respectsFrom g [] done = true) :
    respectsFrom g [] (pass g ns done).1 = true := by
  induction ns generalizing done with
  | nil => simpa [pass] using h
  | cons n ns ih =>
    unfold pass
    split
    · rename_i hr
      simp only
      rw [respectsFrom_append]
      simp [h, respectsFrom, hr]
    · exact ih done h

/-! ### the outer loop -/

theorem loopY_ok_perm (g : Deps) (f : Nat) (nodes done l : List Nat)
    (h : loopY g f nodes done = .ok l) : l.Perm (done ++ nodes) := by
  induction f generalizing nodes done with
  | zero => simp [loopY] at h
  | succ f ih =>
    unfold loopY at h
    simp only at h
    have hp := pass_perm g nodes done
    split at h
    · rename_i he
      have : (pass g nodes done).2 = [] := by simpa using he
      rw [this] at hp
      cases h
      simpa using hp
    · split at h
      · cases h
      · exact (ih _ _ h).trans hp

theorem loopY_no_fuel (g : Deps) (f : Nat) (nodes done : List Nat) (hf : nodes.length < f) :
    loopY g f nodes done ≠ .fuel := by
  induction f generalizing nodes done with
  | zero => omega
  | succ f ih =>
    unfold loopY
    simp only
    split
    · simp
    · split
      · simp
      · rename_i hne
        apply ih
        have hle := pass_rev_length_le g nodes done
        have : (pass g nodes done).2.length ≠ nodes.length := by
          intro heq
          have := (pass_stuck g nodes done heq).2.1
          simp [this] at hne
        omega

theorem loopY_respects (g : Deps) (f : Nat) (nodes done l : List Nat)
    (hd : respectsFrom g [] done = true) (h : loopY g f nodes done = .ok l) :
    respectsFrom g [] l = true := by
  induction f generalizing nodes done with
  | zero => simp [loopY] at h
  | succ f ih =>
    unfold loopY at h
    simp only at h
    have hp := pass_respects g nodes done hd
    split at h
    · cases h; exact hp
    · split at h
      · cases h
      · exact ih _ _ hp h

/-- when the loop gives up, what it has placed and what remains are all the nodes, something
    remains, and nothing that remains can be initialised -/
theorem loopY_loop_stuck (g : Deps) (f : Nat) (nodes done : List Nat)
    (h : loopY g f nodes done = .loop) :
    ∃ placed rest, (placed ++ rest).Perm (done ++ nodes) ∧ rest ≠ [] ∧ ∀ n ∈ rest, ready g placed n = false := by
  induction f generalizing nodes done with
  | zero => simp [loopY] at h
  | succ f ih =>
    unfold loopY at h
    simp only at h
    have hp := pass_perm g nodes done
    split at h
    · cases h
    · rename_i hne
      split at h
      · rename_i heq
        have heq' : (pass g nodes done).2 = nodes := by simpa using heq
        have hs := pass_stuck g nodes done (by rw [heq'])
        refine ⟨done, nodes, List.Perm.refl _, ?_, hs.2.2⟩
        intro hnil
        rw [heq', hnil] at hne
        simp at hne
      · obtain ⟨pl, rs, h1, h2, h3⟩ := ih _ _ h
        exact ⟨pl, rs, h1.trans hp, h2, h3⟩

/-! ### the specification's loop -/

theorem splitReady_none (g : Deps) (done l : List Nat) :
    splitReady g done l = none ↔ ∀ x ∈ l, ready g done x = false := by
  induction l with
  | nil => simp [splitReady]
  | cons x xs ih =>
    unfold splitReady
    by_cases hr : ready g done x = true
    · simp [hr]
    · simp only [hr, Bool.false_eq_true, if_false]
      cases hs : splitReady g done xs with
      | none =>
        simp [hr]
        exact ih.mp hs
      | some r =>
        obtain ⟨p, v, q⟩ := r
        simp only [reduceCtorEq, false_iff]
        intro hall
        have : splitReady g done xs = none := ih.mpr (fun y hy => hall y (by simp [hy]))
        simp [hs] at this

theorem splitReady_some (g : Deps) (done l p q : List Nat) (v : Nat)
    (h : splitReady g done l = some (p, v, q)) :
    l = p ++ v :: q ∧ ready g done v = true ∧ ∀ x ∈ p, ready g done x = false := by
  induction l generalizing p with
  | nil => simp [splitReady] at h
  | cons x xs ih =>
    unfold splitReady at h
    by_cases hr : ready g done x = true
    · simp only [hr, if_true, Option.some.injEq, Prod.mk.injEq] at h
      obtain ⟨rfl, rfl, rfl⟩ := h
      simp [hr]
    · simp only [hr, Bool.false_eq_true, if_false] at h
      cases hs : splitReady g done xs with
      | none => simp [hs] at h
      | some r =>
        obtain ⟨p', v', q'⟩ := r
        simp only [hs, Option.some.injEq, Prod.mk.injEq] at h
        obtain ⟨rfl, rfl, rfl⟩ := h
        obtain ⟨h1, h2, h3⟩ := ih p' hs
        refine ⟨by simp [h1], h2, ?_⟩
        intro y hy
        simp at hy
        rcases hy with rfl | hy
        · simpa using hr
        · exact h3 y hy

theorem splitReady_first (g : Deps) (done sk ns : List Nat) (n : Nat)
    (hsk : ∀ s ∈ sk, ready g done s = false) (hn : ready g done n = true) :
    splitReady g done (sk ++ n :: ns) = some (sk, n, ns) := by
  induction sk with
  | nil => simp [splitReady, hn]
  | cons s sk ih =>
    have hs : ready g done s = false := hsk s (by simp)
    have := ih (fun y hy => hsk y (by simp [hy]))
    simp [splitReady, hs, this]

/-- more fuel than remaining variables changes nothing -/
theorem loopGo_fuel (g : Deps) (f f' : Nat) (rem done : List Nat)
    (h : rem.length ≤ f) (h' : rem.length ≤ f') : loopGo g f rem done = loopGo g f' rem done := by
  induction f generalizing f' rem done with
  | zero =>
    have : rem = [] := by cases rem <;> simp_all
    subst this
    cases f' <;> simp [loopGo]
  | succ f ih =>
    cases rem with
    | nil => cases f' <;> simp [loopGo]
    | cons x xs =>
      cases f' with
      | zero => simp at h'
      | succ f' =>
        simp only [loopGo]
        cases hs : splitReady g done (x :: xs) with
        | none => rfl
        | some r =>
          obtain ⟨p, v, q⟩ := r
          simp only
          have hl := (splitReady_some g done _ p q v hs).1
          have hlen : (p ++ q).length + 1 = (x :: xs).length := by rw [hl]; simp; omega
          apply ih
          · simp at h hlen ⊢; omega
          · simp at h' hlen ⊢; omega

theorem loopGo_step (g : Deps) (F : Nat) (l done p q : List Nat) (v : Nat)
    (hs : splitReady g done l = some (p, v, q)) (hl : l.length ≤ F) :
    loopGo g F l done = loopGo g F (p ++ q) (done ++ [v]) := by
  have hsplit := (splitReady_some g done l p q v hs).1
  cases l with
  | nil => simp [splitReady] at hs
  | cons x xs =>
    cases F with
    | zero => simp at hl
    | succ F =>
      simp only [loopGo, hs]
      have hlen : (p ++ q).length + 1 = (x :: xs).length := by rw [hsplit]; simp; omega
      apply loopGo_fuel
      · simp at hl hlen ⊢; omega
      · simp at hl hlen ⊢; omega

theorem loopGo_stuck (g : Deps) (F : Nat) (l done : List Nat) (hne : l ≠ [])
    (hl : l.length ≤ F) (hst : ∀ x ∈ l, ready g done x = false) : loopGo g F l done = .loop := by
  cases l with
  | nil => simp at hne
  | cons x xs =>
    cases F with
    | zero => simp at hl
    | succ F => simp only [loopGo, (splitReady_none g done (x :: xs)).mpr hst]

/-! ### simulation: one scan is one step of the specification's loop -/

/-- the scan of `genGlobalVarDecl` splits the remaining specifications at the earliest ready one,
    exactly as the specification does -/
theorem pass_split (g : Deps) (l done : List Nat) :
    pass g l done =
      match splitReady g done l with
      | some (p, v, q) => (done ++ [v], p ++ q)
      | none => (done, l) := by
  induction l with
  | nil => simp [pass, splitReady]
  | cons x xs ih =>
    unfold pass splitReady
    by_cases hr : ready g done x = true
    · simp [hr]
    · simp only [hr, Bool.false_eq_true, if_false]
      rw [ih]
      cases splitReady g done xs with
      | none => rfl
      | some r => obtain ⟨p, v, q⟩ := r; rfl

/-- **the loop of `genGlobalVarDecl` is the specification's loop**, from any state, for any
    sufficient fuel (no side condition) -/
theorem loopY_eq_loopGo (g : Deps) (f F : Nat) (nodes done : List Nat)
    (hf : nodes.length < f) (hF : nodes.length ≤ F) :
    loopY g f nodes done = loopGo g F nodes done := by
  induction f generalizing nodes done with
  | zero => omega
  | succ f ih =>
    unfold loopY
    simp only
    rw [pass_split]
    cases hs : splitReady g done nodes with
    | none =>
      simp only
      cases nodes with
      | nil => cases F <;> simp [loopGo]
      | cons x xs =>
        have hst := (splitReady_none g done (x :: xs)).mp hs
        rw [loopGo_stuck g F (x :: xs) done (by simp) hF hst]
        simp
    | some r =>
      obtain ⟨p, v, q⟩ := r
      simp only
      have hsp := (splitReady_some g done nodes p q v hs).1
      have hlen : (p ++ q).length + 1 = nodes.length := by rw [hsp]; simp; omega
      rw [loopGo_step g F nodes done p q v hs hF]
      split
      · rename_i he
        have he' : p ++ q = [] := by simpa using he
        rw [he']
        cases F <;> simp [loopGo]
      · split
        · rename_i heq
          have heq' : p ++ q = nodes := by simpa using heq
          rw [heq'] at hlen
          omega
        · exact ih _ _ (by omega) (by omega)

/-! ### the specification's loop is itself well behaved -/

theorem loopGo_ok_perm (g : Deps) (f : Nat) (rem done l : List Nat)
    (h : loopGo g f rem done = .ok l) : l.Perm (done ++ rem) := by
  induction f generalizing rem done with
  | zero =>
    cases rem with
    | nil => simp [loopGo] at h; simp [h]
    | cons x xs => simp [loopGo] at h
  | succ f ih =>
    cases rem with
    | nil => simp [loopGo] at h; simp [h]
    | cons x xs =>
      simp only [loopGo] at h
      cases hs : splitReady g done (x :: xs) with
      | none => simp [hs] at h
      | some r =>
        obtain ⟨p, v, q⟩ := r
        simp only [hs] at h
        have hl := (splitReady_some g done _ p q v hs).1
        rw [hl]
        refine (ih _ _ h).trans ?_
        simp only [List.append_assoc, List.singleton_append]
        exact List.Perm.append_left done (List.perm_middle).symm

theorem loopGo_no_fuel (g : Deps) (f : Nat) (rem done : List Nat) (hf : rem.length ≤ f) :
    loopGo g f rem done ≠ .fuel := by
  induction f generalizing rem done with
  | zero =>
    have : rem = [] := by cases rem <;> simp_all
    subst this; simp [loopGo]
  | succ f ih =>
    cases rem with
    | nil => simp [loopGo]
    | cons x xs =>
      simp only [loopGo]
      cases hs : splitReady g done (x :: xs) with
      | none => simp
      | some r =>
        obtain ⟨p, v, q⟩ := r
        simp only
        have hl := (splitReady_some g done _ p q v hs).1
        have hlen : (p ++ q).length + 1 = (x :: xs).length := by rw [hl]; simp; omega
        apply ih
        simp at hf hlen ⊢; omega

theorem loopGo_respects (g : Deps) (f : Nat) (rem done l : List Nat)
    (hd : respectsFrom g [] done = true) (h : loopGo g f rem done = .ok l) :
    respectsFrom g [] l = true := by
  induction f generalizing rem done with
  | zero =>
    cases rem with
    | nil => simp [loopGo] at h; simpa [← h] using hd
    | cons x xs => simp [loopGo] at h
  | succ f ih =>
    cases rem with
    | nil => simp [loopGo] at h; simpa [← h] using hd
    | cons x xs =>
      simp only [loopGo] at h
      cases hs : splitReady g done (x :: xs) with
      | none => simp [hs] at h
      | some r =>
        obtain ⟨p, v, q⟩ := r
        simp only [hs] at h
        have hv := (splitReady_some g done _ p q v hs).2.1
        apply ih _ _ _ h
        rw [respectsFrom_append]
        simp [hd, respectsFrom, hv]

theorem loopGo_loop_stuck (g : Deps) (f : Nat) (rem done : List Nat) (h : loopGo g f rem done = .loop) :
    ∃ placed rest, (placed ++ rest).Perm (done ++ rem) ∧ rest ≠ [] ∧ ∀ n ∈ rest, ready g placed n = false := by
  induction f generalizing rem done with
  | zero => cases rem <;> simp [loopGo] at h
  | succ f ih =>
    cases rem with
    | nil => simp [loopGo] at h
    | cons x xs =>
      simp only [loopGo] at h
      cases hs : splitReady g done (x :: xs) with
      | none =>
        exact ⟨done, x :: xs, List.Perm.refl _, by simp, (splitReady_none g done _).mp hs⟩
      | some r =>
        obtain ⟨p, v, q⟩ := r
        simp only [hs] at h
        obtain ⟨pl, rs, h1, h2, h3⟩ := ih _ _ h
        refine ⟨pl, rs, h1.trans ?_, h2, h3⟩
        rw [(splitReady_some g done _ p q v hs).1]
        simp only [List.append_assoc, List.singleton_append]
        exact List.Perm.append_left done (List.perm_middle).symm

/-! ### an order that respects the dependencies exists iff neither loop gets stuck -/

theorem ready_mono (g : Deps) (a b : List Nat) (i : Nat) (hab : ∀ y ∈ a, y ∈ b) (h : ready g a i = true) :
    ready g b i = true := by
  unfold ready at h ⊢
  simp only [List.all_eq_true, List.contains_iff_mem] at h ⊢
  intro d hd
  exact hab d (h d hd)

/-- if some order `l` of all the nodes respects the dependencies, then in any split of the nodes
    into placed / rest with `rest` non-empty, something of `rest` is ready -/
theorem not_stuck_of_order (g : Deps) (placed rest : List Nat) (l pre0 : List Nat)
    (hr : respectsFrom g pre0 l = true) (hpre : ∀ y ∈ pre0, y ∈ placed)
    (hsplit : ∀ y ∈ l, y ∈ placed ∨ y ∈ rest) (hex : ∃ x ∈ l, x ∈ rest) :
    ∃ x ∈ rest, ready g placed x = true := by
  induction l generalizing pre0 with
  | nil => simp at hex
  | cons x xs ih =>
    simp only [respectsFrom, Bool.and_eq_true] at hr
    by_cases hx : x ∈ rest
    · exact ⟨x, hx, ready_mono g pre0 placed x hpre hr.1⟩
    · have hxp : x ∈ placed := by
        rcases hsplit x (by simp) with h | h
        · exact h
        · exact absurd h hx
      apply ih (pre0 ++ [x]) hr.2
      · intro y hy
        simp only [List.mem_append, List.mem_singleton] at hy
        rcases hy with hy | rfl
        · exact hpre y hy
        · exact hxp
      · intro y hy; exact hsplit y (by simp [hy])
      · obtain ⟨z, hz, hzr⟩ := hex
        simp only [List.mem_cons] at hz
        rcases hz with rfl | hz
        · exact absurd hzr hx
        · exact ⟨z, hz, hzr⟩

/-- a stuck state is incompatible with the existence of a dependency-respecting order -/
theorem stuck_vs_order (g : Deps) (all placed rest l : List Nat)
    (hp : (placed ++ rest).Perm all) (hne : rest ≠ []) (hst : ∀ n ∈ rest, ready g placed n = false)
    (hl : l.Perm all) (hr : respectsFrom g [] l = true) : False := by
  have hsplit : ∀ y ∈ l, y ∈ placed ∨ y ∈ rest := by
    intro y hy
    have : y ∈ placed ++ rest := (hp.symm.mem_iff).mp ((hl.mem_iff).mp hy)
    simpa using this
  have hex : ∃ x ∈ l, x ∈ rest := by
    cases rest with
    | nil => exact absurd rfl hne
    | cons r rs =>
      refine ⟨r, ?_, by simp⟩
      exact (hl.symm.mem_iff).mp ((hp.mem_iff).mp (by simp))
  obtain ⟨x, hx, hxr⟩ := not_stuck_of_order g placed rest l [] hr (by simp) hsplit hex
  rw [hst x hx] at hxr
  cases hxr

/-! ### only the *set* of dependencies matters -/

theorem ready_congr (g g' : Deps) (h : ∀ i d, d ∈ depsOf g i ↔ d ∈ depsOf g' i) (done : List Nat) (i : Nat) :
    ready g done i = ready g' done i := by
  unfold ready
  rw [Bool.eq_iff_iff]
  simp only [List.all_eq_true]
  constructor
  · intro hh d hd; exact hh d ((h i d).mpr hd)
  · intro hh d hd; exact hh d ((h i d).mp hd)

theorem splitReady_congr (g g' : Deps) (h : ∀ i d, d ∈ depsOf g i ↔ d ∈ depsOf g' i) (done l : List Nat) :
    splitReady g done l = splitReady g' done l := by
  induction l with
  | nil => rfl
  | cons x xs ih => simp only [splitReady, ready_congr g g' h, ih]

theorem loopGo_congr (g g' : Deps) (h : ∀ i d, d ∈ depsOf g i ↔ d ∈ depsOf g' i) (f : Nat) (rem done : List Nat) :
    loopGo g f rem done = loopGo g' f rem done := by
  induction f generalizing rem done with
  | zero => cases rem <;> simp [loopGo]
  | succ f ih =>
    cases rem with
    | nil => simp [loopGo]
    | cons x xs =>
      simp only [loopGo, splitReady_congr g g' h]
      cases splitReady g' done (x :: xs) with
      | none => rfl
      | some r => obtain ⟨p, v, q⟩ := r; exact ih _ _

end YaegiVerif.Proofs.C15
