import YaegiVerif.Model.VarInit
import YaegiVerif.Spec.GoInitOrder
import YaegiVerif.Expected.C15
/-
  C15 — the dependencies `getVarDependencies` collects are the specification's reference relation.

  * `mem_walkIds_iff`: the walk with its `seen` set (a depth-first search that never enters a
    function twice) meets exactly the identifiers the walked expression refers to, directly or
    through the functions and methods it reaches (`Reach`), for any sufficient fuel;
  * `mem_refIds_iff`: so does the specification's executable reading (a fixed point computed in
    rounds);
  * `collectDepsY_sets`: hence, index by index, the collected dependencies and the
    specification's are the same sets.
-/
namespace YaegiVerif.Proofs.C15
open YaegiVerif YaegiVerif.VarInit YaegiVerif.Spec.InitOrder

/-! ### the reference relation -/

theorem Reach.mono {fol : Ident → Bool} {body : String → List Ident} {ids ids' : List Ident} {x : Ident}
    (h : ∀ y ∈ ids, y ∈ ids') (r : Reach fol body ids x) : Reach fol body ids' x := by
  cases r with
  | direct hx => exact .direct (h _ hx)
  | through hg hf hr => exact .through (h _ hg) hf hr

/-- transitivity: what a reached function refers to is reached -/
theorem Reach.step {fol : Ident → Bool} {body : String → List Ident} {ids : List Ident} {g x : Ident}
    (rg : Reach fol body ids g) (hf : fol g = true) (rx : Reach fol body (body g.name) x) :
    Reach fol body ids x := by
  induction rg with
  | direct hg => exact .through hg hf rx
  | through hg' hf' _ ih => exact .through hg' hf' (ih hf rx)

/-! ### how many functions are not yet marked -/

def unseen (names seen : List String) : Nat := (names.filter (fun n => !seen.contains n)).length

theorem unseen_le_length (names seen : List String) : unseen names seen ≤ names.length :=
  List.length_filter_le _ _

theorem filter_length_le_of_imp {α : Type} (p q : α → Bool) (l : List α) (h : ∀ x, q x = true → p x = true) :
    (l.filter q).length ≤ (l.filter p).length := by
  induction l with
  | nil => simp
  | cons a l ih =>
    simp only [List.filter_cons]
    cases hq : q a <;> cases hp : p a
    · simpa using ih
    · simp only [Bool.false_eq_true, if_false, if_true, List.length_cons]; omega
    · have := h a hq; simp [hp] at this
    · simp only [if_true, List.length_cons]; omega

theorem filter_length_lt {α : Type} (p q : α → Bool) (l : List α) (h : ∀ x, q x = true → p x = true)
    (a : α) (ha : a ∈ l) (hp : p a = true) (hq : q a = false) :
    (l.filter q).length < (l.filter p).length := by
  induction l with
  | nil => simp at ha
  | cons b l ih =>
    simp only [List.filter_cons]
    have hle := filter_length_le_of_imp p q l h
    rcases List.mem_cons.mp ha with rfl | ha'
    · simp only [hp, hq, if_true, Bool.false_eq_true, if_false, List.length_cons]; omega
    · have hlt := ih ha'
      cases hqb : q b <;> cases hpb : p b
      · simpa using hlt
      · simp only [Bool.false_eq_true, if_false, if_true, List.length_cons]; omega
      · have := h b hqb; simp [hpb] at this
      · simp only [if_true, List.length_cons]; omega

theorem unseen_le_of_subset (names seen seen' : List String) (h : ∀ s ∈ seen, s ∈ seen') :
    unseen names seen' ≤ unseen names seen := by
  unfold unseen
  apply filter_length_le_of_imp
  intro x hx
  simp only [Bool.not_eq_true', List.contains_eq_mem, decide_eq_false_iff_not] at hx ⊢
  exact fun hs => hx (h x hs)

theorem unseen_cons_lt (names seen : List String) (n : String) (hn : n ∈ names) (hs : n ∉ seen) :
    unseen names (n :: seen) < unseen names seen := by
  unfold unseen
  apply filter_length_lt _ _ names _ n hn
  · simpa using hs
  · simp
  · intro x hx
    simp only [Bool.not_eq_true', List.contains_eq_mem, decide_eq_false_iff_not, List.mem_cons, not_or] at hx ⊢
    exact hx.2

theorem unseen_zero (names seen : List String) (h : unseen names seen = 0) (n : String) (hn : n ∈ names) :
    n ∈ seen := by
  unfold unseen at h
  have : names.filter (fun n => !seen.contains n) = [] := List.eq_nil_of_length_eq_zero h
  rw [List.filter_eq_nil_iff] at this
  have := this n hn
  simpa using this

/-! ### the walk of `getVarDependencies` -/

section walk
variable (fol : Ident → Bool) (body : String → List Ident)

theorem walkIds_nil (F : Nat) (seen : List String) : walkIds fol body F seen [] = ([], seen) := rfl

theorem walkIds_cons (F : Nat) (seen : List String) (id : Ident) (rest : List Ident) :
    walkIds fol body F seen (id :: rest) =
      ((visitId fol body F seen id).1 ++ (walkIds fol body F (visitId fol body F seen id).2 rest).1,
       (walkIds fol body F (visitId fol body F seen id).2 rest).2) := rfl

theorem visitId_zero (seen : List String) (id : Ident) : visitId fol body 0 seen id = ([id], seen) := rfl

theorem visitId_succ (F : Nat) (seen : List String) (id : Ident) :
    visitId fol body (F + 1) seen id =
      if fol id && !seen.contains id.name then
        (id :: (walkIds fol body F (id.name :: seen) (body id.name)).1,
         (walkIds fol body F (id.name :: seen) (body id.name)).2)
      else ([id], seen) := rfl

/-- what one call of the walk guarantees: started with the marks `seen` on the identifiers `ids`, it
    returned the identifiers `r.1` and the marks `r.2` -/
structure WalkGood (seen : List String) (ids : List Ident) (r : List Ident × List String) : Prop where
  /-- marks are only added -/
  mono : ∀ s ∈ seen, s ∈ r.2
  /-- every identifier of the list is met -/
  direct : ∀ x ∈ ids, x ∈ r.1
  /-- every function or method the list refers to is marked -/
  marked : ∀ x ∈ ids, fol x = true → x.name ∈ r.2
  /-- every function marked by this call was walked: the identifiers of its body are met and the
      functions they refer to are marked -/
  closed : ∀ g ∈ r.2, g ∉ seen → (∀ x ∈ body g, x ∈ r.1) ∧ (∀ x ∈ body g, fol x = true → x.name ∈ r.2)
  /-- only identifiers the list refers to are met -/
  sound : ∀ x ∈ r.1, Reach fol body ids x

theorem good_cons (seen : List String) (id : Ident) (rest : List Ident) (r1 r2 : List Ident × List String)
    (g1 : WalkGood fol body seen [id] r1) (g2 : WalkGood fol body r1.2 rest r2) :
    WalkGood fol body seen (id :: rest) (r1.1 ++ r2.1, r2.2) where
  mono := fun s hs => g2.mono s (g1.mono s hs)
  direct := by
    intro x hx
    simp only [List.mem_cons] at hx
    rcases hx with rfl | hx
    · exact List.mem_append_left _ (g1.direct _ (by simp))
    · exact List.mem_append_right _ (g2.direct x hx)
  marked := by
    intro x hx hf
    simp only [List.mem_cons] at hx
    rcases hx with rfl | hx
    · exact g2.mono _ (g1.marked _ (by simp) hf)
    · exact g2.marked x hx hf
  closed := by
    intro g hg hns
    by_cases h1 : g ∈ r1.2
    · obtain ⟨c1, c2⟩ := g1.closed g h1 hns
      exact ⟨fun x hx => List.mem_append_left _ (c1 x hx), fun x hx hf => g2.mono _ (c2 x hx hf)⟩
    · obtain ⟨c1, c2⟩ := g2.closed g hg h1
      exact ⟨fun x hx => List.mem_append_right _ (c1 x hx), c2⟩
  sound := by
    intro x hx
    simp only [List.mem_append] at hx
    rcases hx with hx | hx
    · exact Reach.mono (by simp) (g1.sound x hx)
    · exact Reach.mono (fun y hy => by simp [hy]) (g2.sound x hx)

variable (names : List String) (hfol : ∀ id, fol id = true → id.name ∈ names)
include hfol

/-- the invariant of the walk, for any fuel that is at least the number of unmarked functions -/
theorem walk_good (F : Nat) :
    (∀ seen id, unseen names seen ≤ F → WalkGood fol body seen [id] (visitId fol body F seen id)) ∧
    (∀ ids seen, unseen names seen ≤ F → WalkGood fol body seen ids (walkIds fol body F seen ids)) := by
  induction F with
  | zero =>
    have hv : ∀ seen id, unseen names seen ≤ 0 → WalkGood fol body seen [id] (visitId fol body 0 seen id) := by
      intro seen id hu
      rw [visitId_zero]
      refine ⟨fun s hs => hs, fun x hx => hx, ?_, fun g hg hns => absurd hg hns, fun x hx => .direct hx⟩
      intro x hx hf
      simp only [List.mem_singleton] at hx
      subst hx
      exact unseen_zero names seen (by omega) _ (hfol _ hf)
    refine ⟨hv, ?_⟩
    intro ids
    induction ids with
    | nil =>
      intro seen _
      rw [walkIds_nil]
      exact ⟨fun s hs => hs, fun x hx => by simp at hx, fun x hx => by simp at hx, fun g hg hns => absurd hg hns,
        fun x hx => by simp at hx⟩
    | cons id rest ih =>
      intro seen hu
      rw [walkIds_cons]
      have g1 := hv seen id hu
      have hu2 : unseen names (visitId fol body 0 seen id).2 ≤ 0 :=
        Nat.le_trans (unseen_le_of_subset names seen _ g1.mono) hu
      exact good_cons fol body seen id rest _ _ g1 (ih _ hu2)
  | succ F ihF =>
    obtain ⟨_, ihW⟩ := ihF
    have hv : ∀ seen id, unseen names seen ≤ F + 1 → WalkGood fol body seen [id] (visitId fol body (F + 1) seen id) := by
      intro seen id hu
      rw [visitId_succ]
      by_cases hc : (fol id && !seen.contains id.name) = true
      · simp only [hc, if_true]
        simp only [Bool.and_eq_true, Bool.not_eq_true', List.contains_eq_mem, decide_eq_false_iff_not] at hc
        obtain ⟨hf, hns⟩ := hc
        have hlt := unseen_cons_lt names seen id.name (hfol id hf) hns
        have g := ihW (body id.name) (id.name :: seen) (by omega)
        refine ⟨?_, ?_, ?_, ?_, ?_⟩
        · intro s hs; exact g.mono s (by simp [hs])
        · intro x hx
          simp only [List.mem_singleton] at hx
          subst hx
          simp
        · intro x hx _
          simp only [List.mem_singleton] at hx
          subst hx
          exact g.mono _ (by simp)
        · intro h hh hnot
          by_cases he : h = id.name
          · subst he
            exact ⟨fun x hx => List.mem_cons_of_mem _ (g.direct x hx), fun x hx hfx => g.marked x hx hfx⟩
          · have hnot' : h ∉ id.name :: seen := by simp [he, hnot]
            obtain ⟨c1, c2⟩ := g.closed h hh hnot'
            exact ⟨fun x hx => List.mem_cons_of_mem _ (c1 x hx), c2⟩
        · intro x hx
          simp only [List.mem_cons] at hx
          rcases hx with rfl | hx
          · exact .direct (by simp)
          · exact .through (List.mem_singleton.mpr rfl) hf (g.sound x hx)
      · simp only [hc, Bool.false_eq_true, if_false]
        refine ⟨fun s hs => hs, fun x hx => hx, ?_, fun g hg hns => absurd hg hns, fun x hx => .direct hx⟩
        intro x hx hf
        simp only [List.mem_singleton] at hx
        subst hx
        simp only [hf, Bool.true_and, Bool.not_eq_true', List.contains_eq_mem, decide_eq_false_iff_not,
          Classical.not_not] at hc
        exact hc
    refine ⟨hv, ?_⟩
    intro ids
    induction ids with
    | nil =>
      intro seen _
      rw [walkIds_nil]
      exact ⟨fun s hs => hs, fun x hx => by simp at hx, fun x hx => by simp at hx, fun g hg hns => absurd hg hns,
        fun x hx => by simp at hx⟩
    | cons id rest ih =>
      intro seen hu
      rw [walkIds_cons]
      have g1 := hv seen id hu
      have hu2 : unseen names (visitId fol body (F + 1) seen id).2 ≤ F + 1 :=
        Nat.le_trans (unseen_le_of_subset names seen _ g1.mono) hu
      exact good_cons fol body seen id rest _ _ g1 (ih _ hu2)

omit hfol in
/-- from the invariant at the top (no marks to begin with): everything referred to is met -/
theorem good_complete (ids : List Ident) (r : List Ident × List String) (g : WalkGood fol body [] ids r)
    (ids0 : List Ident) (x : Ident) (h1 : ∀ y ∈ ids0, y ∈ r.1) (h2 : ∀ y ∈ ids0, fol y = true → y.name ∈ r.2)
    (rx : Reach fol body ids0 x) : x ∈ r.1 := by
  induction rx with
  | direct hx => exact h1 _ hx
  | through hg hf _ ih =>
    obtain ⟨c1, c2⟩ := g.closed _ (h2 _ hg hf) (by simp)
    exact ih c1 c2

/-- **the walk meets exactly what the expression refers to** (directly or through the functions
    and methods it reaches), whenever the fuel is at least the number of functions -/
theorem mem_walkIds_iff (F : Nat) (hF : names.length ≤ F) (ids : List Ident) (x : Ident) :
    x ∈ (walkIds fol body F [] ids).1 ↔ Reach fol body ids x := by
  have g := (walk_good fol body names hfol F).2 ids [] (Nat.le_trans (unseen_le_length names []) hF)
  exact ⟨g.sound x, good_complete fol body ids _ g ids x g.direct g.marked⟩

end walk

/-! ### the specification's fixed point -/

theorem mem_funcRefs (funcs : List Func) (ids : List Ident) (n : String) :
    n ∈ funcRefs funcs ids ↔ ∃ g ∈ ids, denotesFunc funcs g = true ∧ g.name = n := by
  unfold funcRefs denotesFunc
  rw [List.mem_filterMap]
  constructor
  · rintro ⟨g, hg, h⟩
    by_cases hc : (g.pkgLevel && isFunc funcs g.name) = true
    · simp only [hc, if_true, Option.some.injEq] at h
      exact ⟨g, hg, hc, h⟩
    · simp [hc] at h
  · rintro ⟨g, hg, hc, rfl⟩
    exact ⟨g, hg, by simp [hc]⟩

theorem isFunc_mem_names (funcs : List Func) (n : String) (h : isFunc funcs n = true) :
    n ∈ funcs.map (·.name) := by
  unfold isFunc at h
  simp only [List.any_eq_true, beq_iff_eq] at h
  obtain ⟨f, hf, rfl⟩ := h
  exact List.mem_map.mpr ⟨f, hf, rfl⟩

theorem denotesFunc_mem_names (funcs : List Func) (g : Ident) (h : denotesFunc funcs g = true) :
    g.name ∈ funcs.map (·.name) := by
  unfold denotesFunc at h
  simp only [Bool.and_eq_true] at h
  exact isFunc_mem_names funcs _ h.2

/-- the new functions of one round -/
def nextRound (funcs : List Func) (seen : List String) : List String :=
  ((seen.flatMap (fun f => funcRefs funcs (bodyOf funcs f))).filter (fun f => !seen.contains f)).eraseDups

theorem closure_succ (funcs : List Func) (k : Nat) (seen : List String) :
    closure funcs (k + 1) seen =
      match nextRound funcs seen with
      | [] => seen
      | nw => closure funcs k (seen ++ nw) := rfl

theorem mem_nextRound (funcs : List Func) (seen : List String) (n : String) :
    n ∈ nextRound funcs seen ↔ (∃ f ∈ seen, n ∈ funcRefs funcs (bodyOf funcs f)) ∧ n ∉ seen := by
  unfold nextRound
  rw [List.mem_eraseDups, List.mem_filter, List.mem_flatMap]
  simp

/-- with enough rounds the result contains the start and is closed under "refers to" -/
theorem closure_closed (funcs : List Func) (k : Nat) (seen : List String)
    (hk : unseen (funcs.map (·.name)) seen < k) :
    (∀ s ∈ seen, s ∈ closure funcs k seen) ∧
    (∀ f ∈ closure funcs k seen, ∀ n ∈ funcRefs funcs (bodyOf funcs f), n ∈ closure funcs k seen) := by
  induction k generalizing seen with
  | zero => omega
  | succ k ih =>
    rw [closure_succ]
    cases hn : nextRound funcs seen with
    | nil =>
      simp only
      refine ⟨fun s hs => hs, ?_⟩
      intro f hf n hnr
      by_cases hs : n ∈ seen
      · exact hs
      · have : n ∈ nextRound funcs seen := (mem_nextRound funcs seen n).mpr ⟨⟨f, hf, hnr⟩, hs⟩
        rw [hn] at this
        simp at this
    | cons a nw =>
      simp only
      have ha : a ∈ nextRound funcs seen := by rw [hn]; simp
      obtain ⟨⟨f, _, hfr⟩, has⟩ := (mem_nextRound funcs seen a).mp ha
      obtain ⟨g, _, hg, hga⟩ := (mem_funcRefs funcs _ a).mp hfr
      have hnames : a ∈ funcs.map (·.name) := hga ▸ denotesFunc_mem_names funcs g hg
      have hlt := unseen_cons_lt (funcs.map (·.name)) seen a hnames has
      have hle := unseen_le_of_subset (funcs.map (·.name)) (a :: seen) (seen ++ a :: nw)
        (fun s hs => by simp only [List.mem_cons] at hs; rcases hs with rfl | hs <;> simp [*])
      obtain ⟨i1, i2⟩ := ih (seen ++ a :: nw) (by omega)
      exact ⟨fun s hs => i1 s (by simp [hs]), i2⟩

/-- every function of the fixed point is referred to -/
theorem closure_sound (funcs : List Func) (ids : List Ident) (k : Nat) (seen : List String)
    (hs : ∀ n ∈ seen, ∃ g, denotesFunc funcs g = true ∧ g.name = n ∧ Refers funcs ids g) :
    ∀ n ∈ closure funcs k seen, ∃ g, denotesFunc funcs g = true ∧ g.name = n ∧ Refers funcs ids g := by
  induction k generalizing seen with
  | zero => exact hs
  | succ k ih =>
    rw [closure_succ]
    cases hn : nextRound funcs seen with
    | nil => exact hs
    | cons a nw =>
      simp only
      apply ih
      intro n hmem
      simp only [List.mem_append] at hmem
      rcases hmem with hmem | hmem
      · exact hs n hmem
      · have : n ∈ nextRound funcs seen := by rw [hn]; exact hmem
        obtain ⟨⟨f, hf, hfr⟩, _⟩ := (mem_nextRound funcs seen n).mp this
        obtain ⟨g, hgb, hg, hgn⟩ := (mem_funcRefs funcs _ n).mp hfr
        obtain ⟨g0, hg0, hg0n, r0⟩ := hs f hf
        refine ⟨g, hg, hgn, ?_⟩
        exact Reach.step r0 hg0 (.direct (hg0n ▸ hgb))

/-- **the specification's executable reading computes the reference relation** -/
theorem mem_refIds_iff (funcs : List Func) (ids : List Ident) (x : Ident) :
    x ∈ refIds funcs ids ↔ Refers funcs ids x := by
  have hk : unseen (funcs.map (·.name)) (funcRefs funcs ids).eraseDups < funcs.length + 1 := by
    have := unseen_le_length (funcs.map (·.name)) (funcRefs funcs ids).eraseDups
    simp only [List.length_map] at this
    omega
  obtain ⟨c1, c2⟩ := closure_closed funcs (funcs.length + 1) _ hk
  have hsound := closure_sound funcs ids (funcs.length + 1) (funcRefs funcs ids).eraseDups (by
    intro n hn
    rw [List.mem_eraseDups] at hn
    obtain ⟨g, hg, hd, hgn⟩ := (mem_funcRefs funcs ids n).mp hn
    exact ⟨g, hd, hgn, .direct hg⟩)
  -- generalise over the list the relation starts from
  have key : ∀ ids0 : List Ident, Refers funcs ids0 x →
      (∀ y ∈ ids0, denotesFunc funcs y = true →
        y.name ∈ closure funcs (funcs.length + 1) (funcRefs funcs ids).eraseDups) →
      x ∈ ids0 ∨ ∃ f ∈ closure funcs (funcs.length + 1) (funcRefs funcs ids).eraseDups, x ∈ bodyOf funcs f := by
    intro ids0 r
    induction r with
    | direct hx => intro _; exact .inl hx
    | @through ids1 g x1 hg hf _ ih =>
      intro h0
      have hgc := h0 g hg hf
      have := ih (by
        intro y hy hyf
        exact c2 g.name hgc y.name ((mem_funcRefs funcs _ _).mpr ⟨y, hy, hyf, rfl⟩))
      rcases this with h | h
      · exact .inr ⟨g.name, hgc, h⟩
      · exact .inr h
  unfold refIds
  rw [List.mem_append, List.mem_flatMap]
  constructor
  · rintro (hx | ⟨f, hf, hx⟩)
    · exact .direct hx
    · obtain ⟨g, hg, hgn, rg⟩ := hsound f hf
      exact Reach.step rg hg (.direct (hgn ▸ hx))
  · intro rx
    apply key ids rx
    intro y hy hyf
    exact c1 _ (List.mem_eraseDups.mpr ((mem_funcRefs funcs ids _).mpr ⟨y, hy, hyf, rfl⟩))

/-! ### the collected dependencies are the specification's -/

/-- with the facts read from the source, the references the walk follows are the references to
    declared functions and methods -/
theorem follows_expected (funcs : List Func) : follows Expected.C15.depFacts funcs = denotesFunc funcs := by
  funext id
  unfold follows denotesFunc isFunc
  congr 1
  cases h : funcs.find? (fun f => f.name == id.name) with
  | none =>
    rw [List.find?_eq_none] at h
    symm
    rw [List.any_eq_false]
    exact h
  | some g =>
    have hm := List.mem_of_find?_eq_some h
    have hp := List.find?_some h
    have : funcs.any (fun f => f.name == id.name) = true := List.any_eq_true.mpr ⟨g, hm, hp⟩
    rw [this]
    cases hmeth : g.meth <;> simp [hmeth, Expected.C15.depFacts, tagged]

/-- …and an identifier makes the specification depend on the one that declares the package-level
    variable it denotes -/
theorem resolveVar_expected (vars : List VarSpec) (id : Ident) :
    resolveVar Expected.C15.depFacts vars id = if id.pkgLevel then declIdx vars id.name else none := by
  have hg : ∀ i, globalAt Expected.C15.depFacts vars i = true := by
    intro i
    unfold globalAt globalSym
    cases vars[i]? <;> simp [Expected.C15.depFacts]
  unfold resolveVar
  simp only [Expected.C15.depFacts]
  cases id.pkgLevel with
  | false => rfl
  | true =>
    simp only [if_true]
    cases h : declIdx vars id.name with
    | none => rfl
    | some i =>
      have := hg i
      simp only [Expected.C15.depFacts] at this
      simp [this]

theorem mem_collectSpec_expected (vars : List VarSpec) (funcs : List Func) (self : Nat) (v : VarSpec) (d : Nat) :
    d ∈ collectSpec Expected.C15.depFacts vars funcs self v ↔
      ∃ x, Refers funcs v.ids x ∧ x.pkgLevel = true ∧ declIdx vars x.name = some d := by
  have hw := fun x => mem_walkIds_iff (denotesFunc funcs) (bodyOf funcs) (funcs.map (·.name))
    (denotesFunc_mem_names funcs) funcs.length (by simp) v.ids x
  unfold collectSpec
  rw [follows_expected, List.mem_filterMap]
  have hs : startIds Expected.C15.depFacts v = v.ids := rfl
  have hk : Expected.C15.depFacts.skipSelf = false := rfl
  simp only [hs, hk, Bool.false_and, Bool.false_eq_true, if_false, resolveVar_expected]
  constructor
  · rintro ⟨x, hx, h⟩
    refine ⟨x, (hw x).mp hx, ?_⟩
    cases hp : x.pkgLevel with
    | false => simp [hp] at h
    | true =>
      simp only [hp, if_true] at h
      cases hd : declIdx vars x.name with
      | none => simp [hd] at h
      | some k => simp only [hd, Option.some.injEq] at h; exact ⟨rfl, by rw [h]⟩
  · rintro ⟨x, hx, hp, hd⟩
    exact ⟨x, (hw x).mpr hx, by simp [hp, hd]⟩

theorem mem_stepDeps (steps : List VarSpec) (funcs : List Func) (ids : List Ident) (d : Nat) :
    d ∈ stepDeps steps funcs ids ↔
      ∃ x, Refers funcs ids x ∧ x.pkgLevel = true ∧ declIdx steps x.name = some d := by
  unfold stepDeps
  rw [List.mem_eraseDups, List.mem_filterMap]
  constructor
  · rintro ⟨x, hx, h⟩
    refine ⟨x, (mem_refIds_iff funcs ids x).mp hx, ?_⟩
    cases hp : x.pkgLevel with
    | false => simp [hp] at h
    | true => simp only [hp, if_true] at h; exact ⟨rfl, h⟩
  · rintro ⟨x, hx, hp, hd⟩
    exact ⟨x, (mem_refIds_iff funcs ids x).mpr hx, by simp [hp, hd]⟩

theorem collectAux_length (d : DepFacts) (vars : List VarSpec) (funcs : List Func) (k : Nat) (vs : List VarSpec) :
    (collectAux d vars funcs k vs).length = vs.length := by
  induction vs generalizing k with
  | nil => rfl
  | cons v vs ih => simp [collectAux, ih]

theorem collectAux_getElem? (d : DepFacts) (vars : List VarSpec) (funcs : List Func) (k : Nat) (vs : List VarSpec)
    (i : Nat) : (collectAux d vars funcs k vs)[i]? =
      vs[i]?.map (fun v => if skipped d v then [] else collectSpec d vars funcs (k + i) v) := by
  induction vs generalizing k i with
  | nil => simp [collectAux]
  | cons v vs ih =>
    cases i with
    | zero => simp [collectAux]
    | succ i =>
      have hk : k + 1 + i = k + (i + 1) := by omega
      simp only [collectAux, List.getElem?_cons_succ, ih, hk]

/-- the specifications the ordering code sees are the initialisation steps -/
theorem specsY_expected (vars : List VarSpec) : specsY Expected.C15.depFacts vars = stepsGo vars := rfl

/-- **`getVarDependencies` collects the specification's dependencies**: for every package, the
    list `deps` of `genGlobalVarDecl` has one entry per initialisation step and, step by step, the
    same members as the specification's reference relation gives (transitively through the bodies of
    functions and methods; a local variable, a parameter or a field key is not a reference; a
    reference of a variable to itself counts) -/
theorem collectDepsY_sets (p : Pkg) :
    (collectDepsY Expected.C15.depFacts p).length = (goStepDeps p).length ∧
    ∀ i d, d ∈ depsOf (collectDepsY Expected.C15.depFacts p) i ↔ d ∈ depsOf (goStepDeps p) i := by
  unfold collectDepsY goStepDeps
  rw [specsY_expected]
  refine ⟨by simp [collectAux_length], ?_⟩
  intro i d
  unfold depsOf
  rw [List.getD_eq_getElem?_getD, List.getD_eq_getElem?_getD, collectAux_getElem?, List.getElem?_map]
  cases (stepsGo p.vars)[i]? with
  | none => simp
  | some v =>
    have hs : skipped Expected.C15.depFacts v = false := rfl
    simp only [Option.map_some, Option.getD_some, hs, Bool.false_eq_true, if_false]
    rw [mem_collectSpec_expected, mem_stepDeps]

end YaegiVerif.Proofs.C15
