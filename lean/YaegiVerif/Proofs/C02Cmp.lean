import YaegiVerif.Proofs.C02Core
namespace YaegiVerif.Proofs.C02
open YaegiVerif.Ops YaegiVerif.Spec.GoInt

variable {w : Nat}

/-! ### comparisons -/

theorem value_inj (s : Bool) (x y : BitVec w) : value s x = value s y ↔ x = y := by
  constructor
  · intro h; rw [← wrap_value s x, ← wrap_value s y, h]
  · intro h; rw [h]

theorem widen_inj (s : Bool) (x y : BitVec w) (h : w ≤ 64) : widen s x = widen s y ↔ x = y := by
  constructor
  · intro e; rw [← narrow_widen s x h, ← narrow_widen s y h, e]
  · intro e; rw [e]

theorem model_eq (s : Bool) (x y : BitVec w) (h : w ≤ 64) :
    (widen s x == widen s y) = decide (value s x = value s y) := by
  rw [Bool.eq_iff_iff]; simp [widen_inj s x y h, value_inj]

theorem model_ne (s : Bool) (x y : BitVec w) (h : w ≤ 64) :
    (widen s x != widen s y) = decide (value s x ≠ value s y) := by
  rw [Bool.eq_iff_iff]; simp [widen_inj s x y h, value_inj]

theorem model_lt (s : Bool) (x y : BitVec w) (h : w ≤ 64) :
    (if s then (widen s x).slt (widen s y) else (widen s x).ult (widen s y)) = decide (value s x < value s y) := by
  cases s
  · simp only [Bool.false_eq_true, if_false]
    rw [Bool.eq_iff_iff, BitVec.ult_iff_toNat_lt, toNat_widen_false x h, toNat_widen_false y h]
    simp [value]
  · simp only [if_true]
    rw [Bool.eq_iff_iff, BitVec.slt_iff_toInt_lt, toInt_widen_true x h, toInt_widen_true y h]
    simp [value]

theorem model_le (s : Bool) (x y : BitVec w) (h : w ≤ 64) :
    (if s then (widen s x).sle (widen s y) else (widen s x).ule (widen s y)) = decide (value s x ≤ value s y) := by
  cases s
  · simp only [Bool.false_eq_true, if_false]
    rw [Bool.eq_iff_iff, BitVec.ule_iff_toNat_le, toNat_widen_false x h, toNat_widen_false y h]
    simp [value]
  · simp only [if_true]
    rw [Bool.eq_iff_iff, BitVec.sle_iff_toInt_le, toInt_widen_true x h, toInt_widen_true y h]
    simp [value]

/-! ### conversions -/

theorem model_conv (s : Bool) (x : BitVec w) (w' : Nat) (h : w ≤ 64) (h' : w' ≤ 64) :
    convInt s x w' = convert s x w' := by
  unfold convInt convert
  rw [narrow_eq_wrap s _ h', value_widen s x h]

/-! ### ranges of values (used for the executable forms of the shift specification) -/

theorem value_lt (s : Bool) (x : BitVec w) : value s x < 2 ^ w := by
  cases s
  · simp only [value, Bool.false_eq_true, if_false]
    have := x.isLt
    exact_mod_cast this
  · simp only [value, if_true]
    have h1 := @BitVec.toInt_lt w x
    have h2 : (2:Int) ^ (w - 1) ≤ 2 ^ w := by
      have : (2:Nat) ^ (w - 1) ≤ 2 ^ w := Nat.pow_le_pow_right (by omega) (by omega)
      exact_mod_cast this
    omega

theorem le_value (s : Bool) (x : BitVec w) : -(2 ^ w) ≤ value s x := by
  cases s
  · simp only [value, Bool.false_eq_true, if_false]
    have : (0:Int) ≤ 2 ^ w := Int.pow_nonneg (by omega)
    omega
  · simp only [value, if_true]
    have h1 := BitVec.le_toInt x
    have h2 : (2:Int) ^ (w - 1) ≤ 2 ^ w := by
      have : (2:Nat) ^ (w - 1) ≤ 2 ^ w := Nat.pow_le_pow_right (by omega) (by omega)
      exact_mod_cast this
    omega

end YaegiVerif.Proofs.C02
