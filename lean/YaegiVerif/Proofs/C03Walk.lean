import YaegiVerif.Proofs.C03Const
/- C03: on the whole integer fragment a walk computes the same node whatever numeric type the context pushed down
   and whichever first-kind walk it is (first walk, or a later walk of a declaration with a declared type): an
   operation on untyped constants stays untyped (3f5ccd5), an operation on a typed operand takes the type of that
   operand (2988c87), `%`, shifts and unary operators take the type of their operand anyway. -/
namespace YaegiVerif.Proofs.C03
open YaegiVerif YaegiVerif.Const

theorem fixUntypedY_env (env env' : Env) (nty : Ty) (c0 c1 : NS) (rv : RV) :
    fixUntypedY F0 env nty c0 c1 rv = fixUntypedY F0 env' nty c0 c1 rv := by
  simp [fixUntypedY]

theorem binNodeY_env (env env' : Env) (forced : Option Ty) (a : Act) (c0 c1 : NS) :
    binNodeY F0 env forced a c0 c1 = binNodeY F0 env' forced a c0 c1 := by
  simp only [binNodeY, fixUntypedY_env env env']

theorem shiftNodeY_env (env env' : Env) (forced : Option Ty) (a : Act) (c0 c1 : NS) :
    shiftNodeY F0 env forced a c0 c1 = shiftNodeY F0 env' forced a c0 c1 := by
  simp only [shiftNodeY, fixUntypedY_env env env']

/-- the type of an arithmetic node one of whose (converted) operands is typed: that type -/
theorem nodeTyY_typed (forced : Option Ty) (c0 c1 : NS) (b : BT) (h0 : c0.ty = .t b) (h1 : c1.ty = .t b) :
    nodeTyY F0 forced false c0 c1 = .t b := by
  cases forced with
  | none => simp [nodeTyY, stayUntypedY, binTypeY, h0, Ty.untyped]
  | some f => simp [nodeTyY, stayUntypedY, isUntypedConstY, h0, Ty.untyped, Expected.C03.checkFacts]

/-- what follows `check.binaryExpr` does not look at the pushed-down type when both operands have one integer type -/
theorem binNodeY_after (env : Env) (forced : Option Ty) (a : Act) (r : Res (NS × NS))
    (h : ∀ c0 c1, r = .ok (c0, c1) → ∃ k, c0.ty = .t (.i k) ∧ c1.ty = .t (.i k)) :
    (r.bind fun (x : NS × NS) =>
      let nty : Ty := if a == Act.rem then x.1.ty else nodeTyY F0 forced false x.1 x.2
      (if F0.eval.chk.constExprBin then constExprY F0 a false x.1 x.2 else .ok ()).bind fun _ =>
      (foldBinY F0 a nty x.1.rv x.2.rv).bind fun rv =>
      (if F0.eval.chk.overflowBin then constOverflowY F0 rv else .ok ()).bind fun _ =>
      fixUntypedY F0 env nty x.1 x.2 rv) =
    (r.bind fun (x : NS × NS) =>
      let nty : Ty := if a == Act.rem then x.1.ty else nodeTyY F0 none false x.1 x.2
      (if F0.eval.chk.constExprBin then constExprY F0 a false x.1 x.2 else .ok ()).bind fun _ =>
      (foldBinY F0 a nty x.1.rv x.2.rv).bind fun rv =>
      (if F0.eval.chk.overflowBin then constOverflowY F0 rv else .ok ()).bind fun _ =>
      fixUntypedY F0 env nty x.1 x.2 rv) := by
  cases r with
  | ok x =>
    obtain ⟨c0, c1⟩ := x
    obtain ⟨k, h0, h1⟩ := h c0 c1 rfl
    simp only [bind_ok, nodeTyY_typed forced c0 c1 _ h0 h1, nodeTyY_typed none c0 c1 _ h0 h1]
  | reject => rfl
  | crash => rfl
  | unm w => rfl

/-- **arithmetic node**: the pushed-down (numeric) type plays no part on integer constants -/
theorem binNodeY_forced (env : Env) (forced : Option Ty) (hf : NumForced forced) (a : Act) (ha : isArith a = true)
    (c0 c1 : NS) (g0 g1 : Spec.GV) (i0 : Inv c0 g0) (i1 : Inv c1 g1) :
    binNodeY F0 env forced a c0 c1 = binNodeY F0 env none a c0 c1 := by
  have hn : ∀ (n : NS) (g : Spec.GV), Inv n g → n.ty.isNumber = true := by
    intro n g hi
    rcases hi.shape with ⟨ka, _, hka, _, hty, _⟩ | ⟨k, _, _, hty, _, _⟩
    · rw [hty]; rcases hka with rfl | rfl <;> rfl
    · rw [hty]; rfl
  have hchk : checkBinaryY F0 forced a c0 c1 = checkBinaryY F0 none a c0 c1 := by
    simp only [checkBinaryY, addOkY_num a forced hf c0 c1 (hn c0 g0 i0) (hn c1 g1 i1),
      addOkY_num a none (fun _ h => by cases h) c0 c1 (hn c0 g0 i0) (hn c1 g1 i1)]
  rcases i0.shape with ⟨ka, p, hka, rfl, h0ty, h0rv⟩ | ⟨k, p, rfl, h0ty, h0rv, hp⟩ <;>
  rcases i1.shape with ⟨kb, q, hkb, rfl, h1ty, h1rv⟩ | ⟨k', q, rfl, h1ty, h1rv, hq'⟩
  · rw [binNodeY_uu env forced hf a ha c0 c1 ka kb p q hka hkb h0ty h0rv h1ty h1rv,
      binNodeY_uu env none (fun _ h => by cases h) a ha c0 c1 ka kb p q hka hkb h0ty h0rv h1ty h1rv]
  · simp only [binNodeY, hchk]
    apply binNodeY_after
    intro d0 d1 hd
    rw [checkBinaryY_ut a ha c0 c1 k' ka p q hka h0ty h0rv h1ty h1rv] at hd
    split at hd
    · cases hd
    · split at hd
      · injection hd with hd; injection hd with e0 e1; subst e0 e1; exact ⟨k', rfl, h1ty⟩
      · cases hd
  · simp only [binNodeY, hchk]
    apply binNodeY_after
    intro d0 d1 hd
    rw [checkBinaryY_tu a ha c0 c1 k kb q hkb h0ty h1ty h1rv] at hd
    split at hd
    · cases hd
    · split at hd
      · injection hd with hd; injection hd with e0 e1; subst e0 e1; exact ⟨k, h0ty, rfl⟩
      · cases hd
  · simp only [binNodeY, hchk]
    apply binNodeY_after
    intro d0 d1 hd
    rw [checkBinaryY_tt a ha c0 c1 k k' q h0ty h1ty h1rv] at hd
    split at hd
    · cases hd
    · split at hd
      · rename_i hk; subst hk
        injection hd with hd; injection hd with e0 e1; subst e0 e1; exact ⟨k, h0ty, h1ty⟩
      · cases hd

/-- **shift node**: likewise -/
theorem shiftNodeY_forced (env : Env) (forced : Option Ty) (a : Act) (ha : isShift a = true)
    (c0 c1 : NS) (g0 : Spec.GV) (i0 : Inv c0 g0) :
    shiftNodeY F0 env forced a c0 c1 = shiftNodeY F0 env none a c0 c1 := by
  rcases i0.shape with ⟨ka, v, hka, rfl, h0ty, h0rv⟩ | ⟨k, v, rfl, h0ty, h0rv, hv⟩
  · exact shiftNodeY_U env env forced a ha c0 c1 ⟨ka, v, hka, h0ty, h0rv⟩
  · have hl : shiftLeftY F0 c0 = .ok c0 := by
      simp [shiftLeftY, h0ty, h0rv, Ty.untyped, Ty.isInt, Ty.rtype, BT.isInt]
    simp only [shiftNodeY, checkShiftY_eq, hl, bind_ok]
    cases countCheck c1 with
    | ok c1' => simp only [bind_ok, h0ty, Ty.untyped, Bool.not_false, if_true]
    | reject => rfl
    | crash => rfl
    | unm w => rfl

/-- **literal operands that kept the conversion of the first walk** (a later walk of `const c = e`): the node computes
    the same, since `check.binaryExpr` would perform that conversion anyway -/
theorem binNodeY_keep (env : Env) (forced : Option Ty) (hf : NumForced forced) (a : Act) (ha : isArith a = true)
    (x y : CExpr) (c0 c1 : NS) (g0 g1 : Spec.GV) (i0 : Inv c0 g0) (i1 : Inv c1 g1) :
    binNodeY F0 env forced a (keepY F0 x c0 c1) (keepY F0 y c1 c0) = binNodeY F0 env forced a c0 c1 := by
  rcases i0.shape with ⟨ka, p, hka, rfl, h0ty, h0rv⟩ | ⟨k, p, rfl, h0ty, h0rv, hp⟩ <;>
  rcases i1.shape with ⟨kb, q, hkb, rfl, h1ty, h1rv⟩ | ⟨k', q, rfl, h1ty, h1rv, hq'⟩
  · simp [keepY, h0ty, h1ty, Ty.untyped]
  · -- untyped, typed: the left literal may have been converted to the type of the right operand
    have hk1 : keepY F0 y c1 c0 = c1 := by simp [keepY, h1ty, Ty.untyped]
    rw [hk1]
    by_cases hleaf : isLeaf (stripPar x) = true
    · by_cases hr : Spec.reprGo k' p = true
      · have hcv := convertUntypedY_int c0 ka hka p k' h0ty h0rv hr
        have hk0 : keepY F0 x c0 c1 = { c0 with rv := .r (.i k') (.int p), ty := .t (.i k'), self := false, «set» := false } := by
          simp [keepY, hleaf, h0ty, h1ty, Ty.untyped, hcv]
        rw [hk0]
        have i0' : Inv ({ c0 with rv := .r (.i k') (.int p), ty := .t (.i k'), self := false, «set» := false } : NS)
            ⟨.int p, .t (.i k')⟩ := Inv.of_typed _ _ _ rfl rfl hr
        rw [binNodeY_forced env forced hf a ha _ c1 _ _ i0' i1, binNodeY_forced env forced hf a ha c0 c1 _ _ i0 i1,
          binNodeY_post, binNodeY_post, checkBinaryY_tt a ha _ c1 k' k' q rfl h1ty h1rv,
          checkBinaryY_ut a ha c0 c1 k' ka p q hka h0ty h0rv h1ty h1rv]
        simp only [if_pos hr, if_true]
      · have hr' : Spec.reprGo k' p = false := by simpa using hr
        have hcv := convertUntypedY_int_none c0 ka hka p k' h0ty h0rv hr'
        have hk0 : keepY F0 x c0 c1 = c0 := by simp [keepY, h0ty, h1ty, Ty.untyped, hcv]
        rw [hk0]
    · have hk0 : keepY F0 x c0 c1 = c0 := by simp [keepY, hleaf]
      rw [hk0]
  · -- typed, untyped
    have hk0 : keepY F0 x c0 c1 = c0 := by simp [keepY, h0ty, Ty.untyped]
    rw [hk0]
    by_cases hleaf : isLeaf (stripPar y) = true
    · by_cases hr : Spec.reprGo k q = true
      · have hcv := convertUntypedY_int c1 kb hkb q k h1ty h1rv hr
        have hk1 : keepY F0 y c1 c0 = { c1 with rv := .r (.i k) (.int q), ty := .t (.i k), self := false, «set» := false } := by
          simp [keepY, hleaf, h0ty, h1ty, Ty.untyped, hcv]
        rw [hk1]
        have i1' : Inv ({ c1 with rv := .r (.i k) (.int q), ty := .t (.i k), self := false, «set» := false } : NS)
            ⟨.int q, .t (.i k)⟩ := Inv.of_typed _ _ _ rfl rfl hr
        rw [binNodeY_forced env forced hf a ha c0 _ _ _ i0 i1', binNodeY_forced env forced hf a ha c0 c1 _ _ i0 i1,
          binNodeY_post, binNodeY_post, checkBinaryY_tt a ha c0 _ k k q h0ty rfl rfl,
          checkBinaryY_tu a ha c0 c1 k kb q hkb h0ty h1ty h1rv]
        simp only [if_pos hr, if_true]
        -- the zero test of a converted literal (not settable) and of the untyped one agree
        by_cases hz : needsNZ a = true ∧ q = 0
        · have hzr : ((a == Act.rem || a == Act.quo) && (!false && q == 0)) = true := by
            rw [← needsNZ_iff]; simp [hz.1, hz.2]
          simp only [if_pos hz]
          rw [if_pos hzr]
        · have hzr : ¬ (((a == Act.rem || a == Act.quo) && (!false && q == 0)) = true) := by
            rw [← needsNZ_iff]; intro h; apply hz
            simp only [Bool.not_false, Bool.true_and, Bool.and_eq_true, beq_iff_eq] at h; exact h
          simp only [if_neg hz]
          rw [if_neg hzr]
      · have hr' : Spec.reprGo k q = false := by simpa using hr
        have hcv := convertUntypedY_int_none c1 kb hkb q k h1ty h1rv hr'
        have hk1 : keepY F0 y c1 c0 = c1 := by simp [keepY, h0ty, h1ty, Ty.untyped, hcv]
        rw [hk1]
    · have hk1 : keepY F0 y c1 c0 = c1 := by simp [keepY, hleaf]
      rw [hk1]
  · simp [keepY, h0ty, h1ty, Ty.untyped]

/-- **every walk computes the same node**, on the whole integer fragment: the first walk and the later walks of a
    declaration, with or without a declared type, inside or outside a constant declaration, whatever numeric type is
    pushed down -/
theorem evalY_int_indep : ∀ e, intShape e = true → ∀ (env : Env) (forced : Option Ty), NumForced forced →
    evalY F0 env forced e = evalY F0 { iota := env.iota } none e := by
  intro e
  induction e with
  | int v => intro _ env forced _; simp [evalY]
  | rune v => intro _ env forced _; simp [evalY]
  | iota => intro _ env forced _; simp [evalY]
  | flt q => intro h; simp [intShape] at h
  | bool b => intro h; simp [intShape] at h
  | str s => intro h; simp [intShape] at h
  | len x _ => intro h; simp [intShape] at h
  | par x ih =>
    intro hs env forced hf
    simp only [intShape] at hs
    simp only [evalY, ih hs env forced hf]
  | un a x ih =>
    intro hs env forced hf
    simp only [intShape, Bool.and_eq_true] at hs
    have hnot : (a == Act.not) = false := by
      have ha := hs.1
      cases a <;> simp [isUnArith] at ha <;> rfl
    simp only [evalY, hnot, Bool.false_eq_true, if_false, ih hs.2 env forced hf]
  | conv t x ih =>
    intro hs env forced hf
    cases t with
    | i k =>
      simp only [intShape] at hs
      -- whatever the operand still carries from the first walk is numeric: it plays no part either
      simp only [evalY, Bool.false_and, Bool.false_eq_true, if_false]
      have key : ∀ f : Option Ty, NumForced f → evalY F0 env f x = evalY F0 { iota := env.iota } none x :=
        fun f hf' => ih hs env f hf'
      have h0 : evalY F0 { env with pass2 := false } none x = evalY F0 { iota := env.iota } none x :=
        ih hs { env with pass2 := false } none (fun _ h => by cases h)
      by_cases hp : (env.pass2 && isChain x) = true
      · simp only [hp, if_true, h0]
        cases hx : evalY F0 { iota := env.iota } none x with
        | ok n1 =>
          simp only []
          have hnum : NumForced (some (if n1.ty.untyped = true then Ty.t (BT.i k) else n1.ty)) := by
            intro f hfe
            injection hfe with hfe; subst hfe
            rcases (evalY_int_rel { iota := env.iota } rfl x hs).inv with ⟨n, gv, hr, _, hinv⟩ | ⟨hr, _⟩
            · rw [hx] at hr; injection hr with hr; subst hr
              rcases hinv.shape with ⟨ka, _, hka, _, hty, _⟩ | ⟨k2, _, _, hty, _, _⟩
              · simp [hty, Ty.untyped]; rfl
              · simp [hty, Ty.untyped]; rfl
            · rw [hx] at hr; cases hr
          rw [key _ hnum, hx]
        | reject => simp only []; rw [key none (fun _ h => by cases h), hx]
        | crash => simp only []; rw [key none (fun _ h => by cases h), hx]
        | unm w => simp only []; rw [key none (fun _ h => by cases h), hx]
      · simp only [hp, Bool.false_eq_true, if_false, key none (fun _ h => by cases h)]
    | f32 => simp [intShape] at hs
    | f64 => simp [intShape] at hs
    | bool => simp [intShape] at hs
    | str => simp [intShape] at hs
  | bin a x y ihx ihy =>
    intro hs env forced hf
    simp only [intShape, Bool.and_eq_true] at hs
    have hx := ihx hs.1.2 env forced hf
    have hy := ihy hs.2 env forced hf
    have hx0 : evalY F0 { env with pass2 := false } none x = evalY F0 { iota := env.iota } none x :=
      ihx hs.1.2 { env with pass2 := false } none (fun _ h => by cases h)
    have hy0 : evalY F0 { env with pass2 := false } none y = evalY F0 { iota := env.iota } none y :=
      ihy hs.2 { env with pass2 := false } none (fun _ h => by cases h)
    have hcl : (isCmpAct a || isLogicAct a) = false := by
      have ha := hs.1.1
      cases a <;> simp [isArith, isShift] at ha <;> rfl
    simp only [evalY, hcl, Bool.false_eq_true, if_false, hx, hy, hx0, hy0, Bool.false_and]
    rcases (evalY_int_rel { iota := env.iota } rfl x hs.1.2).inv with ⟨c0, g0, hr0, _, i0⟩ | ⟨hr0, _⟩
    · have hr0' : evalY F0 { iota := env.iota } none x = .ok c0 := hr0
      rw [hr0']
      simp only [bind_ok]
      rcases (evalY_int_rel { iota := env.iota } rfl y hs.2).inv with ⟨c1, g1, hr1, _, i1⟩ | ⟨hr1, _⟩
      · have hr1' : evalY F0 { iota := env.iota } none y = .ok c1 := hr1
        rw [hr1']
        simp only [bind_ok]
        by_cases hsh : isShift a = true
        · have hsa : isShiftAct a = true := by simpa [isShiftAct, isShift] using hsh
          simp only [hsa, if_true]
          rw [shiftNodeY_forced env forced a hsh c0 c1 g0 i0, shiftNodeY_env env { iota := env.iota }]
        · have hsa : isShiftAct a = false := by simpa [isShiftAct, isShift] using hsh
          have har : isArith a = true := by
            have h := hs.1.1
            rw [Bool.or_eq_true] at h
            rcases h with h | h
            · exact h
            · exact absurd h hsh
          simp only [hsa, Bool.false_eq_true, if_false]
          have hplain : binNodeY F0 env forced a c0 c1 = binNodeY F0 { iota := env.iota } none a c0 c1 := by
            rw [binNodeY_forced env forced hf a har c0 c1 g0 g1 i0 i1, binNodeY_env env { iota := env.iota }]
          split
          · rw [binNodeY_keep env forced hf a har x y c0 c1 g0 g1 i0 i1]; exact hplain
          · exact hplain
      · have hr1' : evalY F0 { iota := env.iota } none y = .reject := hr1
        rw [hr1']; rfl
    · have hr0' : evalY F0 { iota := env.iota } none x = .reject := hr0
      rw [hr0']; rfl

end YaegiVerif.Proofs.C03
