import YaegiVerif.Model.Method
import YaegiVerif.Model.MethodRun
import YaegiVerif.Spec.GoSelector
/-
  C05 — helper lemmas on receiver passing: what `copyInst` allocates, which cells a method body can
  write, and when the interpreter's receiver binding is Go's.
-/
namespace YaegiVerif.Proofs.C05
open YaegiVerif.Method YaegiVerif.MethodRun YaegiVerif.Spec.Selector

theorem cell_set_ne (h : Heap) (a b : Nat) (v : Int) (hab : a ≠ b) : cell (h.set b v) a = cell h a := by
  unfold cell
  simp [List.getD_eq_getElem?_getD, List.getElem?_set_ne (Ne.symm hab)]

theorem cell_addTo_ne (h : Heap) (a b : Nat) (d : Int) (hab : a ≠ b) : cell (addTo h b d) a = cell h a := by
  unfold addTo
  exact cell_set_ne h a b _ hab

theorem cell_append_lt (h ext : Heap) (a : Nat) (ha : a < h.length) : cell (h ++ ext) a = cell h a := by
  unfold cell
  simp [List.getD_eq_getElem?_getD, List.getElem?_append_left ha]

/-- one step of `copyInst` -/
def copyStep (D : Decls) (t : Nat) (acc : Inst × Heap) (pa : Path × Nat) : Inst × Heap :=
  if viaPtr D t pa.1 then (acc.1 ++ [pa], acc.2)
  else (acc.1 ++ [(pa.1, acc.2.length)], acc.2 ++ [cell acc.2 pa.2])

theorem copyInst_eq_foldl (D : Decls) (t : Nat) (inst : Inst) (h : Heap) :
    copyInst D t inst h = inst.foldl (copyStep D t) ([], h) := rfl

/-- invariant of the copy: the heap only grows, and every cell of the copy is either fresh or a
    cell of the original reached through an embedded pointer -/
def CopyInv (D : Decls) (t : Nat) (inst : Inst) (h : Heap) (acc : Inst × Heap) : Prop :=
  (∃ ext, acc.2 = h ++ ext) ∧ ∀ pa ∈ acc.1, h.length ≤ pa.2 ∨ (pa ∈ inst ∧ viaPtr D t pa.1 = true)

theorem copy_foldl_inv (D : Decls) (t : Nat) (inst : Inst) (h : Heap) :
    ∀ (l : Inst) (acc : Inst × Heap), (∀ x ∈ l, x ∈ inst) → CopyInv D t inst h acc →
      CopyInv D t inst h (l.foldl (copyStep D t) acc) := by
  intro l
  induction l with
  | nil => intro acc _ hinv; exact hinv
  | cons pa rest ih =>
    intro acc hsub hinv
    rw [List.foldl_cons]
    apply ih
    · intro x hx; exact hsub x (by simp [hx])
    · obtain ⟨⟨ext, hext⟩, hcells⟩ := hinv
      unfold copyStep
      by_cases hv : viaPtr D t pa.1 = true
      · simp only [hv, if_true]
        refine ⟨⟨ext, hext⟩, ?_⟩
        intro q hq
        simp only [List.mem_append, List.mem_singleton] at hq
        rcases hq with hq | rfl
        · exact hcells q hq
        · exact Or.inr ⟨hsub q (by simp), hv⟩
      · rw [if_neg hv]
        refine ⟨⟨ext ++ [cell acc.2 pa.2], by simp [hext]⟩, ?_⟩
        intro q hq
        simp only [List.mem_append, List.mem_singleton] at hq
        rcases hq with hq | rfl
        · exact hcells q hq
        · left
          simp only [hext, List.length_append]
          omega

theorem copyInst_inv (D : Decls) (t : Nat) (inst : Inst) (h : Heap) : CopyInv D t inst h (copyInst D t inst h) := by
  rw [copyInst_eq_foldl]
  exact copy_foldl_inv D t inst h inst ([], h) (fun _ hx => hx) ⟨⟨[], by simp⟩, by simp⟩

/-! ### a copy holds the current values -/

theorem cell_append_len (h : Heap) (c : Int) : cell (h ++ [c]) h.length = c := by
  unfold cell
  simp [List.getD_eq_getElem?_getD]

theorem values_append_heap (i : Inst) (h e : Heap) (hi : ∀ pa ∈ i, pa.2 < h.length) : values i (h ++ e) = values i h := by
  unfold values
  apply List.map_congr_left
  intro pa hpa
  obtain ⟨p, a⟩ := pa
  simp only
  rw [cell_append_lt h e a (hi (p, a) hpa)]

theorem values_snoc (i : Inst) (pa : Path × Nat) (h : Heap) :
    values (i ++ [pa]) h = values i h ++ [toString (cell h pa.2)] := by
  unfold values
  simp

theorem copy_foldl_values (D : Decls) (t : Nat) (h : Heap) :
    ∀ (l done : Inst) (acc : Inst × Heap), (∀ x ∈ l, x.2 < h.length) →
      (∃ ext, acc.2 = h ++ ext) → (∀ pa ∈ acc.1, pa.2 < acc.2.length) → values acc.1 acc.2 = values done h →
      values (l.foldl (copyStep D t) acc).1 (l.foldl (copyStep D t) acc).2 = values (done ++ l) h := by
  intro l
  induction l with
  | nil => intro done acc _ _ _ hv; simpa using hv
  | cons pa rest ih =>
    intro done acc hl hext hidx hv
    obtain ⟨ext, he⟩ := hext
    have hpa : pa.2 < h.length := hl pa (by simp)
    have hlen : h.length ≤ acc.2.length := by rw [he, List.length_append]; omega
    rw [List.foldl_cons]
    have hd : done ++ pa :: rest = (done ++ [pa]) ++ rest := by simp
    rw [hd]
    apply ih
    · intro x hx; exact hl x (by simp [hx])
    · unfold copyStep
      by_cases hvp : viaPtr D t pa.1 = true
      · simp only [hvp, if_true]; exact ⟨ext, he⟩
      · rw [if_neg hvp]; exact ⟨ext ++ [cell acc.2 pa.2], by simp [he]⟩
    · unfold copyStep
      by_cases hvp : viaPtr D t pa.1 = true
      · simp only [hvp, if_true]
        intro q hq
        simp only [List.mem_append, List.mem_singleton] at hq
        rcases hq with hq | rfl
        · exact hidx q hq
        · omega
      · rw [if_neg hvp]
        intro q hq
        simp only [List.mem_append, List.mem_singleton] at hq
        simp only [List.length_append, List.length_singleton]
        rcases hq with hq | rfl
        · have := hidx q hq; omega
        · simp
    · unfold copyStep
      by_cases hvp : viaPtr D t pa.1 = true
      · simp only [hvp, if_true]
        rw [values_snoc, values_snoc, hv, he, cell_append_lt h ext pa.2 hpa]
      · rw [if_neg hvp]
        simp only
        rw [values_snoc, values_snoc, values_append_heap acc.1 acc.2 _ hidx, hv]
        simp only
        rw [cell_append_len, he, cell_append_lt h ext pa.2 hpa]

/-- **a copy holds the values its original has at the time of the copy** -/
theorem copyInst_values (D : Decls) (t : Nat) (inst : Inst) (h : Heap) (hin : ∀ pa ∈ inst, pa.2 < h.length) :
    values (copyInst D t inst h).1 (copyInst D t inst h).2 = values inst h := by
  rw [copyInst_eq_foldl]
  have := copy_foldl_values D t h inst [] ([], h) hin ⟨[], by simp⟩ (by simp) rfl
  simpa using this

theorem copy_foldl_idx (D : Decls) (t : Nat) (h : Heap) :
    ∀ (l : Inst) (acc : Inst × Heap), (∀ x ∈ l, x.2 < h.length) → h.length ≤ acc.2.length →
      (∀ pa ∈ acc.1, pa.2 < acc.2.length) →
      ∀ pa ∈ (l.foldl (copyStep D t) acc).1, pa.2 < (l.foldl (copyStep D t) acc).2.length := by
  intro l
  induction l with
  | nil => intro acc _ _ hidx; simpa using hidx
  | cons pa rest ih =>
    intro acc hl hlen hidx
    rw [List.foldl_cons]
    have hpa : pa.2 < h.length := hl pa (by simp)
    apply ih
    · intro x hx; exact hl x (by simp [hx])
    · unfold copyStep
      by_cases hvp : viaPtr D t pa.1 = true
      · simp only [hvp, if_true]; exact hlen
      · rw [if_neg hvp]; simp only [List.length_append, List.length_singleton]; omega
    · unfold copyStep
      by_cases hvp : viaPtr D t pa.1 = true
      · simp only [hvp, if_true]
        intro q hq
        simp only [List.mem_append, List.mem_singleton] at hq
        rcases hq with hq | rfl
        · exact hidx q hq
        · omega
      · rw [if_neg hvp]
        intro q hq
        simp only [List.mem_append, List.mem_singleton] at hq
        simp only [List.length_append, List.length_singleton]
        rcases hq with hq | rfl
        · have := hidx q hq; omega
        · simp

/-- the cells of a copy are cells of the grown heap -/
theorem copyInst_idx (D : Decls) (t : Nat) (inst : Inst) (h : Heap) (hin : ∀ pa ∈ inst, pa.2 < h.length) :
    ∀ pa ∈ (copyInst D t inst h).1, pa.2 < (copyInst D t inst h).2.length := by
  rw [copyInst_eq_foldl]
  exact copy_foldl_idx D t h inst ([], h) hin (Nat.le_refl _) (by simp)

/-- **the receiver a method body starts with holds the values the operand has when the storage is
    made** — whichever steps copy -/
theorem recvStorage_values (w : Who) (F : Facts) (D : Decls) (owner : Nat) (m : Meth) (srcPtr vi : Bool)
    (inst : Inst) (h : Heap) (hin : ∀ pa ∈ inst, pa.2 < h.length) :
    values (recvStorage w F D owner m srcPtr vi inst h).1 (recvStorage w F D owner m srcPtr vi inst h).2 = values inst h := by
  have h2 : values (copyInst D owner (copyInst D owner inst h).1 (copyInst D owner inst h).2).1
      (copyInst D owner (copyInst D owner inst h).1 (copyInst D owner inst h).2).2 = values inst h := by
    rw [copyInst_values D owner _ _ (copyInst_idx D owner inst h hin), copyInst_values D owner inst h hin]
  have h1 := copyInst_values D owner inst h hin
  unfold recvStorage bindRecv enterRecv
  cases m.ptr with
  | true => rfl
  | false =>
    simp only [Bool.false_eq_true, if_false]
    cases w with
    | go => exact h2
    | yaegi =>
      simp only
      generalize valueArm F srcPtr = arm
      generalize callSlot F vi = c
      cases arm <;> cases c <;> simp only [applyBind] <;> first | exact h2 | exact h1 | rfl

/-- a write through the receiver `r` leaves every cell that is not a cell of `r` alone -/
theorem applyWrite_other (r : Inst) (h : Heap) (w : Write) (a : Nat) (hr : ∀ pa ∈ r, pa.2 ≠ a) :
    cell (applyWrite r h w) a = cell h a := by
  cases w with
  | set p v =>
    simp only [applyWrite]
    cases hf : r.find? (fun pa => pa.1 == p) with
    | none => rfl
    | some pa => exact cell_set_ne h a pa.2 v (Ne.symm (hr pa (List.mem_of_find?_eq_some hf)))
  | add p d =>
    simp only [applyWrite]
    cases hf : r.find? (fun pa => pa.1 == p) with
    | none => rfl
    | some pa => exact cell_addTo_ne h a pa.2 d (Ne.symm (hr pa (List.mem_of_find?_eq_some hf)))

theorem runBody_other (r : Inst) (a : Nat) (hr : ∀ pa ∈ r, pa.2 ≠ a) :
    ∀ (ws : List Write) (h : Heap), cell (runBody r ws h) a = cell h a := by
  intro ws
  induction ws with
  | nil => intro h; rfl
  | cons w rest ih =>
    intro h
    unfold runBody at *
    rw [List.foldl_cons, ih, applyWrite_other r h w a hr]

/-- a copy of something fresh is fresh -/
theorem copy_of_fresh (D : Decls) (t : Nat) (inst : Inst) (h : Heap) (r0 : Inst × Heap)
    (h0 : CopyInv D t inst h r0) : CopyInv D t inst h (copyInst D t r0.1 r0.2) := by
  obtain ⟨⟨ext0, he0⟩, hc0⟩ := h0
  obtain ⟨⟨ext1, he1⟩, hc1⟩ := copyInst_inv D t r0.1 r0.2
  refine ⟨⟨ext0 ++ ext1, by rw [he1, he0, List.append_assoc]⟩, ?_⟩
  intro pa hpa
  rcases hc1 pa hpa with hfresh | ⟨hin, hv⟩
  · left
    rw [he0, List.length_append] at hfresh
    omega
  · rcases hc0 pa hin with hf | ⟨hin0, _⟩
    · exact Or.inl hf
    · exact Or.inr ⟨hin0, hv⟩

/-- when both steps of the binding copy a value receiver (the extracted values), the interpreter's
    receiver storage is Go's -/
def bindCopies (F : Facts) : Prop :=
  F.recvBind.ptrToVal = .set ∧ F.recvBind.same = .set ∧ F.recvBind.call = .set ∧ F.recvBind.lateCall = .set

instance (F : Facts) : Decidable (bindCopies F) := by unfold bindCopies; infer_instance

theorem bindRecv_who (F : Facts) (hF : bindCopies F) (D : Decls) (owner : Nat) (m : Meth) (srcPtr : Bool) (inst : Inst) (h : Heap) :
    bindRecv .yaegi F D owner m srcPtr inst h = bindRecv .go F D owner m srcPtr inst h := by
  unfold bindRecv valueArm applyBind
  cases m.ptr <;> cases srcPtr <;> simp [hF.1, hF.2.1]

theorem callSlot_set (F : Facts) (hF : bindCopies F) (vi : Bool) : callSlot F vi = .set := by
  unfold callSlot
  cases vi <;> cases F.recvBind.lateNilNode <;> simp [hF.2.2.1, hF.2.2.2]

theorem enterRecv_who (F : Facts) (hF : bindCopies F) (D : Decls) (owner : Nat) (m : Meth) (vi : Bool) (r0 : Inst) (h : Heap) :
    enterRecv .yaegi F D owner m vi r0 h = enterRecv .go F D owner m vi r0 h := by
  unfold enterRecv applyBind
  cases m.ptr <;> simp [callSlot_set F hF]

theorem recvStorage_who (F : Facts) (hF : bindCopies F) (D : Decls) (owner : Nat) (m : Meth) (srcPtr vi : Bool) (inst : Inst) (h : Heap) :
    recvStorage .yaegi F D owner m srcPtr vi inst h = recvStorage .go F D owner m srcPtr vi inst h := by
  unfold recvStorage
  rw [bindRecv_who F hF, enterRecv_who F hF]

theorem runMeth_who (F : Facts) (hF : bindCopies F)
    (D : Decls) (owner : Nat) (m : Meth) (srcPtr vi : Bool) (inst : Inst) (s : St) :
    runMeth .yaegi F D owner m srcPtr vi inst s = runMeth .go F D owner m srcPtr vi inst s := by
  unfold runMeth
  rw [recvStorage_who F hF]

theorem runBound_who (F : Facts) (hF : bindCopies F) (D : Decls) (owner : Nat) (m : Meth) (vi : Bool) (r0 : Inst) (s : St) :
    runBound .yaegi F D owner m vi r0 s = runBound .go F D owner m vi r0 s := by
  unfold runBound
  rw [enterRecv_who F hF]

theorem runSel_who (F : Facts) (hF : bindCopies F)
    (D : Decls) (r : Sel) (t : Nat) (opPtr : Bool) (recv : Inst) (s : St) :
    runSel .yaegi F D r t opPtr recv s = runSel .go F D r t opPtr recv s := by
  unfold runSel runHit
  cases r <;> simp [runMeth_who F hF]

/-- the storage of a value receiver is fresh (new cells, or cells the operand reaches through an
    embedded pointer) whenever one of the two steps that apply copies -/
theorem recvStorage_fresh (w : Who) (F : Facts) (D : Decls) (owner : Nat) (m : Meth) (hm : m.ptr = false) (srcPtr vi : Bool)
    (inst : Inst) (h : Heap)
    (hF : w = .go ∨ callSlot F vi = .set ∨ (F.recvBind.ptrToVal = .set ∧ F.recvBind.same = .set)) :
    CopyInv D owner inst h (recvStorage w F D owner m srcPtr vi inst h) := by
  unfold recvStorage bindRecv enterRecv
  simp only [hm, Bool.false_eq_true, if_false]
  cases w with
  | go => exact copy_of_fresh D owner inst h _ (copyInst_inv D owner inst h)
  | yaegi =>
    simp only
    generalize hv : valueArm F srcPtr = arm
    generalize hc : callSlot F vi = c
    have hcc := copy_of_fresh D owner inst h _ (copyInst_inv D owner inst h)
    have hc1 := copyInst_inv D owner inst h
    cases arm <;> cases c <;> simp only [applyBind] <;> first | exact hcc | exact hc1 | skip
    -- both steps alias: excluded
    rcases hF with h1 | h1 | ⟨h1, h2⟩
    · cases h1
    · rw [hc] at h1; cases h1
    · unfold valueArm at hv
      cases srcPtr <;> simp [h1, h2] at hv

end YaegiVerif.Proofs.C05
