import YaegiVerif.Proofs.C04Refine
/-
  C04 — append: until commit b312e89 of the repository the mechanism handed the operand SLOTS to reflect.Append,
  which stores them one by one (the lemmas about handles below describe that shape: when only the first
  operand may be an aliasing handle every slot still holds, when it is stored, the value the specification
  evaluated up front). Since then every operand is read before any is stored: `appendY_spec` is unconditional.
-/
namespace YaegiVerif.Share
open YaegiVerif.Expected.C04 (share)

theorem evalSlots_handles : ∀ (rs : List RExp) (st : St) (ss : List Slot) (st1 : St),
    evalSlots st rs = .ok (ss, st1) → ss.map isHandle = rs.map isHandleLoad
  | [], st, ss, st1, h => by
    simp only [evalSlots, Except.ok.injEq, Prod.mk.injEq] at h
    obtain ⟨rfl, _⟩ := h; rfl
  | r :: rs, st, ss, st2, h => by
    simp only [evalSlots, bind, Except.bind] at h
    cases he : evalSlot st r with
    | error e => simp [he] at h
    | ok p =>
      obtain ⟨s, st1⟩ := p
      simp only [he] at h
      cases hes : evalSlots st1 rs with
      | error e => simp [hes] at h
      | ok q =>
        obtain ⟨ss', st2'⟩ := q
        simp only [hes, Except.ok.injEq, Prod.mk.injEq] at h
        obtain ⟨rfl, rfl⟩ := h
        simp only [List.map_cons, ((evalSlot_spec r st).1 s st1 he).2.1.2, evalSlots_handles rs st1 ss' st2' hes]

/-- slots that are not handles are detached into temporaries holding their current values -/
theorem detachVars_nohandle (st : St) : ∀ (ss : List Slot) (vals : List Val), (∀ s ∈ ss, isHandle s = false) →
    readSlots st ss = .ok vals → detachVars st ss = .ok (vals.map .temp) := by
  intro ss
  induction ss with
  | nil => intro vals _ h; simp only [readSlots, Except.ok.injEq] at h; subst h; rfl
  | cons s ss ih =>
    intro vals hall h
    simp only [readSlots, bind, Except.bind] at h
    cases hs : slotVal st s with
    | error e => simp [hs] at h
    | ok v =>
      simp only [hs] at h
      cases hr : readSlots st ss with
      | error e => simp [hr] at h
      | ok ws =>
        simp only [hr, Except.ok.injEq] at h
        subst h
        have ih' := ih ws (fun t ht => hall t (List.mem_cons_of_mem _ ht)) hr
        cases s with
        | handle l => have := hall (.handle l) (List.mem_cons_self ..); simp [isHandle] at this
        | varslot x => simp [detachVars, bind, Except.bind, hs, ih']
        | temp u =>
          simp only [slotVal, Except.ok.injEq] at hs
          subst hs
          simp [detachVars, bind, Except.bind, ih']

theorem writeElemsFromTemps : ∀ (vals : List Val) (st : St) (b : Loc) (off : Nat),
    writeElemsFromSlots st b off (vals.map .temp) = writeElems st b off vals
  | [], _, _, _ => rfl
  | v :: vs, st, b, off => by
    simp only [List.map_cons, writeElemsFromSlots, writeElems, slotVal, bind, Except.bind]
    cases hw : st.write ⟨b.cell, b.path ++ [off]⟩ v with
    | error e => rfl
    | ok st1 => exact writeElemsFromTemps vs st1 b (off + 1)

theorem growFor_ext (G : Growth) (st : St) (sv : Val) (n : Nat) (zero : Val) (esz : Nat) (noscan : Bool)
    (b : Loc) (off len cap : Nat) (st' : St) (h : growFor G st sv n zero esz noscan = .ok (b, off, len, cap, st')) :
    Ext st st' := by
  unfold growFor at h
  simp only [bind, Except.bind] at h
  cases hl : sliceLen sv with
  | error e => simp [hl] at h
  | ok l =>
    simp only [hl] at h
    cases hc : sliceCap sv with
    | error e => simp [hc] at h
    | ok c =>
      simp only [hc] at h
      cases sv with
      | slice b0 off0 l0 c0 =>
        simp only at h
        split at h
        · simp only [Except.ok.injEq, Prod.mk.injEq] at h
          obtain ⟨_, _, _, _, rfl⟩ := h
          exact Ext.refl st
        · cases hre : readElems st b0 off0 l with
          | error e => simp [hre] at h
          | ok old =>
            simp only [hre, Except.ok.injEq, Prod.mk.injEq] at h
            obtain ⟨_, _, _, _, rfl⟩ := h
            exact Ext.alloc st _
      | int n => simp only [Except.ok.injEq, Prod.mk.injEq] at h; obtain ⟨_, _, _, _, rfl⟩ := h; exact Ext.alloc st _
      | arr vs => simp only [Except.ok.injEq, Prod.mk.injEq] at h; obtain ⟨_, _, _, _, rfl⟩ := h; exact Ext.alloc st _
      | str vs => simp only [Except.ok.injEq, Prod.mk.injEq] at h; obtain ⟨_, _, _, _, rfl⟩ := h; exact Ext.alloc st _
      | ptr l => simp only [Except.ok.injEq, Prod.mk.injEq] at h; obtain ⟨_, _, _, _, rfl⟩ := h; exact Ext.alloc st _
      | map r => simp only [Except.ok.injEq, Prod.mk.injEq] at h; obtain ⟨_, _, _, _, rfl⟩ := h; exact Ext.alloc st _
      | nil => simp only [Except.ok.injEq, Prod.mk.injEq] at h; obtain ⟨_, _, _, _, rfl⟩ := h; exact Ext.alloc st _
      | nilslice => simp only [Except.ok.injEq, Prod.mk.injEq] at h; obtain ⟨_, _, _, _, rfl⟩ := h; exact Ext.alloc st _

/-- the detached operand list of an append in the domain: first operand a handle or a temporary, the rest temporaries -/
theorem detachVars_args (st : St) (s0 : Slot) (rest : List Slot) (v0 : Val) (vs : List Val)
    (hrest : ∀ s ∈ rest, isHandle s = false) (h0 : slotVal st s0 = .ok v0) (hr : readSlots st rest = .ok vs) :
    ∃ s0', detachVars st (s0 :: rest) = .ok (s0' :: vs.map .temp) ∧ ∀ st', Ext st st' → slotVal st' s0' = .ok v0 := by
  have ht := detachVars_nohandle st rest vs hrest hr
  cases s0 with
  | handle l =>
    refine ⟨.handle l, by simp [detachVars, bind, Except.bind, ht], ?_⟩
    intro st' he; exact he.slot _ _ h0
  | varslot x =>
    refine ⟨.temp v0, by simp [detachVars, bind, Except.bind, h0, ht], ?_⟩
    intro st' _; rfl
  | temp u =>
    simp only [slotVal, Except.ok.injEq] at h0
    subst h0
    refine ⟨.temp u, by simp [detachVars, bind, Except.bind, ht], ?_⟩
    intro st' _; rfl

end YaegiVerif.Share

namespace YaegiVerif.Share
open YaegiVerif.Expected.C04 (share)

theorem nohandle_of_map (srest : List Slot) (rest : List RExp) (hm : srest.map isHandle = rest.map isHandleLoad)
    (ha : rest.any isHandleLoad = false) : ∀ s ∈ srest, isHandle s = false := by
  intro s hs
  have h1 : isHandle s ∈ srest.map isHandle := List.mem_map_of_mem hs
  rw [hm] at h1
  obtain ⟨r, hr, hre⟩ := List.mem_map.mp h1
  rw [← hre]
  exact List.any_eq_false.mp ha r hr |> fun h => by simpa using h

/-- detaching the variable slots does not change what the operand list reads -/
theorem detachVars_read (st : St) : ∀ (ss : List Slot) (vals : List Val), readSlots st ss = .ok vals →
    ∃ ss', detachVars st ss = .ok ss' ∧ readSlots st ss' = .ok vals := by
  intro ss
  induction ss with
  | nil => intro vals h; exact ⟨[], rfl, h⟩
  | cons s ss ih =>
    intro vals h
    simp only [readSlots, bind, Except.bind] at h
    cases hs : slotVal st s with
    | error e => simp [hs] at h
    | ok v =>
      simp only [hs] at h
      cases hr : readSlots st ss with
      | error e => simp [hr] at h
      | ok ws =>
        simp only [hr, Except.ok.injEq] at h
        subst h
        obtain ⟨ss', hd, hrd⟩ := ih ws hr
        cases s with
        | handle l => exact ⟨.handle l :: ss', by simp [detachVars, bind, Except.bind, hd], by simp [readSlots, bind, Except.bind, hs, hrd]⟩
        | varslot x => exact ⟨.temp v :: ss', by simp [detachVars, bind, Except.bind, hs, hd], by simp [readSlots, slotVal, bind, Except.bind, hrd]⟩
        | temp u => exact ⟨.temp u :: ss', by simp [detachVars, bind, Except.bind, hd], by simp [readSlots, bind, Except.bind, hs, hrd]⟩

/-- `l = append(s, args…)` — whatever the operands alias: since commit b312e89 of the repository all of them are read
    before any element is stored -/
theorem appendY_spec (G : Growth) (st : St) (isDef : Bool) (l : LExp) (s : RExp) (args : List RExp) (zero : Val)
    (esz : Nat) (noscan : Bool) :
    appendY share G st isDef l s args zero esz noscan = Spec.append G st isDef l s args zero esz noscan := by
  unfold appendY Spec.append
  simp only [bind, Except.bind, share_appendArgsAreSlots, Bool.false_eq_true, if_false]
  rcases evalSlot_cases st s with ⟨e, h1, h2⟩ | ⟨s0, st1, sv, h1, h2, h3, _⟩
  · simp [h1, h2]
  · simp only [h1, h2, h3]
    rcases evalSlots_cases st1 args with ⟨e, g1, g2⟩ | ⟨ss0, st2, vals, g1, g2, g3, _⟩
    · simp [g1, g2]
    · obtain ⟨ss', hd, hrd⟩ := detachVars_read st2 ss0 vals g2
      simp only [g1, g3, hd, hrd]
      cases appendVals G st2 sv vals zero esz noscan with
      | error e => rfl
      | ok q => simp [storeResult_spec]

/-- `l = append(s, t…)` -/
theorem appendSliceY_spec (G : Growth) (st : St) (isDef : Bool) (l : LExp) (s t : RExp) (zero : Val)
    (esz : Nat) (noscan : Bool) :
    appendSliceY share G st isDef l s t zero esz noscan = Spec.appendSlice G st isDef l s t zero esz noscan := by
  unfold appendSliceY Spec.appendSlice
  simp only [bind, Except.bind]
  rcases evalSlot_cases st s with ⟨e, h1, h2⟩ | ⟨s0, st1, sv, h1, h2, h3, _⟩
  · simp [h1, h2]
  · simp only [h1, h2, h3]
    rcases evalSlot_cases st1 t with ⟨e, g1, g2⟩ | ⟨t0, st2, tv, g1, g2, g3, _⟩
    · simp [g1, g2]
    · simp only [g1, g2, g3]
      cases sliceElems st2 tv with
      | error e => rfl
      | ok vals =>
        simp only
        cases appendVals G st2 sv vals zero esz noscan with
        | error e => rfl
        | ok q => simp [storeResult_spec]

theorem copyY_spec (st : St) (d s : RExp) : copyY st d s = Spec.copy st d s := by
  unfold copyY Spec.copy
  simp only [bind, Except.bind]
  rcases evalSlot_cases st d with ⟨e, h1, h2⟩ | ⟨d0, st1, dv, h1, h2, h3, _⟩
  · simp [h1, h2]
  · simp only [h1, h2, h3]
    rcases evalSlot_cases st1 s with ⟨e, g1, g2⟩ | ⟨s0, st2, sv, g1, g2, g3, _⟩
    · simp [g1, g2]
    · simp [g1, g2, g3]

theorem mapSetY_spec (st : St) (m : LExp) (k : IExp) (r : RExp) : mapSetY share st m k r = Spec.mapSet st m k r := by
  unfold mapSetY Spec.mapSet
  simp only [bind, Except.bind, share_derefNilPanics, Bool.not_true, Bool.false_and, Bool.false_eq_true, if_false]
  cases resolve st m with
  | error e => rfl
  | ok loc =>
    simp only
    cases st.read loc with
    | error e => rfl
    | ok mv =>
      simp only
      cases keyVal st k with
      | error e => rfl
      | ok key =>
        simp only
        rcases evalSlot_cases st r with ⟨e, h1, h2⟩ | ⟨s0, st1, v, h1, h2, h3, _⟩
        · simp [h1, h2]
        · simp [h1, h2, h3]

theorem callMutY_spec (st : St) (isDef : Bool) (l sel : LExp) (k : Int) (arg : RExp) :
    callMutY share st isDef l sel k arg = Spec.callMut st isDef l sel k arg := by
  unfold callMutY Spec.callMut
  simp only [bind, Except.bind, share_callCopiesArgs, if_true]
  rcases evalSlot_cases st arg with ⟨e, h1, h2⟩ | ⟨s0, st1, v, h1, h2, h3, _⟩
  · simp [h1, h2]
  · simp only [h1, h2, h3]
    cases runMutBody (st1.alloc v).2 ⟨(st1.alloc v).1, []⟩ sel k with
    | error e => rfl
    | ok q => simp [storeResult_spec]

end YaegiVerif.Share
