import YaegiVerif.Model.Ops
import YaegiVerif.Spec.GoInt
namespace YaegiVerif.Proofs.C02
open YaegiVerif.Ops YaegiVerif.Spec.GoInt

theorem setWidth_signExtend_of_le {w : Nat} (x : BitVec w) (h : w ≤ 64) : (x.signExtend 64).setWidth w = x := by
  apply BitVec.eq_of_getLsbD_eq
  intro i hi
  simp [BitVec.getLsbD_signExtend, hi]
  omega

theorem setWidth_setWidth_of_le {w : Nat} (x : BitVec w) (h : w ≤ 64) : (x.setWidth 64).setWidth w = x := by
  apply BitVec.eq_of_getLsbD_eq
  intro i hi
  simp [hi]
  omega

/-- truncating the widened operand gives the operand back -/
theorem narrow_widen {w : Nat} (s : Bool) (x : BitVec w) (h : w ≤ 64) : (widen s x).setWidth w = x := by
  cases s
  · simp [widen, h]
  · simp [widen, setWidth_signExtend_of_le, h]

theorem ofInt_congr {w : Nat} {a b : Int} (h : a % (2 ^ w : Nat) = b % (2 ^ w : Nat)) : BitVec.ofInt w a = BitVec.ofInt w b := by
  apply BitVec.eq_of_toNat_eq
  simp only [BitVec.toNat_ofInt, h]

theorem pow_dvd_pow64 {w : Nat} (h : w ≤ 64) : ((2 ^ w : Nat) : Int) ∣ ((2 ^ 64 : Nat) : Int) :=
  Int.natCast_dvd_natCast.mpr (Nat.pow_dvd_pow 2 h)

theorem ofInt_bmod64 {w : Nat} (h : w ≤ 64) (a : Int) : BitVec.ofInt w (a.bmod (2 ^ 64)) = BitVec.ofInt w a := by
  apply ofInt_congr
  rw [← Int.emod_emod_of_dvd _ (pow_dvd_pow64 h), Int.bmod_emod, Int.emod_emod_of_dvd _ (pow_dvd_pow64 h)]

theorem ofInt_emod64 {w : Nat} (h : w ≤ 64) (a : Int) : BitVec.ofInt w (a % ((2 ^ 64 : Nat) : Int)) = BitVec.ofInt w a := by
  apply ofInt_congr
  rw [Int.emod_emod_of_dvd _ (pow_dvd_pow64 h)]

/-- narrowing a 64-bit value = wrapping its signed value -/
theorem setWidth_eq_ofInt_toInt {w : Nat} (v : BitVec 64) (h : w ≤ 64) : v.setWidth w = BitVec.ofInt w v.toInt := by
  rw [BitVec.toInt_eq_toNat_bmod, ofInt_bmod64 h]
  apply BitVec.eq_of_toNat_eq
  rw [BitVec.toNat_setWidth, BitVec.toNat_ofInt]
  omega

theorem setWidth_eq_ofInt_toNat {w : Nat} (v : BitVec 64) : v.setWidth w = BitVec.ofInt w (v.toNat : Int) := by
  apply BitVec.eq_of_toNat_eq
  rw [BitVec.toNat_setWidth, BitVec.toNat_ofInt]
  omega

/-- narrowing = wrapping the mathematical value, whichever way the 64-bit pattern is read -/
theorem narrow_eq_wrap {w : Nat} (s : Bool) (v : BitVec 64) (h : w ≤ 64) : v.setWidth w = wrap w (value s v) := by
  cases s
  · simp only [value, wrap, Bool.false_eq_true, if_false]; exact setWidth_eq_ofInt_toNat v
  · simp only [value, wrap, if_true]; exact setWidth_eq_ofInt_toInt v h

theorem toInt_widen_true {w : Nat} (x : BitVec w) (h : w ≤ 64) : (widen true x).toInt = x.toInt := by
  simp [widen, BitVec.toInt_signExtend_of_le h]

theorem toNat_widen_false {w : Nat} (x : BitVec w) (h : w ≤ 64) : (widen false x).toNat = x.toNat := by
  simp only [widen, Bool.false_eq_true, if_false, BitVec.toNat_setWidth]
  have : x.toNat < 2 ^ w := x.isLt
  have : 2 ^ w ≤ 2 ^ 64 := Nat.pow_le_pow_right (by omega) h
  exact Nat.mod_eq_of_lt (by omega)

/-- widening preserves the mathematical value -/
theorem value_widen {w : Nat} (s : Bool) (x : BitVec w) (h : w ≤ 64) : value s (widen s x) = value s x := by
  cases s
  · simp [value, toNat_widen_false x h]
  · simp [value, toInt_widen_true x h]

theorem wrap_value {w : Nat} (s : Bool) (x : BitVec w) : wrap w (value s x) = x := by
  cases s
  · simp [value, wrap, BitVec.ofInt_natCast]
  · simp [value, wrap, BitVec.ofInt_toInt]

end YaegiVerif.Proofs.C02
