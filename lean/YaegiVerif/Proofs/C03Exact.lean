import YaegiVerif.Proofs.C03Decl
import YaegiVerif.Proofs.C03Block
import YaegiVerif.Model.ConstClass
/- C03: what the exact representability test (repair of F03) gives beyond "whatever Go accepts is accepted":
   wherever the only check between an untyped integer constant and an integer type is `representableConst`
   — a conversion `T(e)` of an untyped constant, a declaration `var c T = e` / `const c T = e` whose initialiser
   reaches the assignment check untyped — the interpreter model also *rejects* exactly what Go rejects. -/
namespace YaegiVerif.Proofs.C03
open YaegiVerif YaegiVerif.Const

/-! ### the assignment check is exact on an integer constant -/

/-- `check.assignment` of an integer-fragment node to an integer type, followed by the materialisation of the value:
    Go's assignability of the constant, acceptance and rejection alike -/
theorem assign_exact (n : NS) (g : Spec.GV) (hinv : Inv n g) (k : IKind) :
    (assignY F0 n (.i k)).bind materialiseY = Spec.assignGo g (.i k) := by
  rcases hinv.shape with ⟨ka, p, hka, rfl, hty, hrv⟩ | ⟨k', p, rfl, hty, hrv, hp⟩
  · have hcond : ((Spec.isNumTy (.u ka) && Spec.isNumTy (.t (.i k))) || (Spec.isStrTy (.u ka) && BT.i k == BT.str) ||
        (Spec.isBoolTy (.u ka) && BT.i k == BT.bool)) = true := by rcases hka with rfl | rfl <;> rfl
    simp only [Spec.assignGo, hcond, if_true, Spec.representGo, CV.toInt]
    by_cases hr : Spec.reprGo k p = true
    · have hcv := convertUntypedY_int n ka p k hty hrv hr
      simp [assignY, hty, Ty.untyped, hcv, materialiseY, hr]
    · have hr' : Spec.reprGo k p = false := by simpa using hr
      have hrep : representableY F0 (.int p) (.i k) = false := by
        simp only [representableY, CV.toInt]
        show reprY Expected.C03.reprFacts k p = false
        rw [reprY_eq_reprGo]; exact hr'
      simp [assignY, hty, Ty.untyped, convertUntypedY, hrv, hrep, hr']
  · simp only [Spec.assignGo]
    by_cases hk : (BT.i k' == BT.i k) = true
    · have hkk : k' = k := by simpa using hk
      subst hkk
      simp [assignY, hty, Ty.untyped, materialiseY, hrv]
    · have hne : ¬ (k' = k) := by simpa using hk
      simp [assignY, hty, Ty.untyped, hne]

/-- the gta / cfg walks keep the node for the use: when Go accepts the assignment the node after
    `check.assignment` is typed and materialises to Go's value; when Go rejects it the assignment is rejected -/
theorem assignY_cases (n : NS) (g : Spec.GV) (hinv : Inv n g) (k : IKind) :
    (∀ v, Spec.assignGo g (.i k) = .ok v →
      ∃ m, assignY F0 n (.i k) = .ok m ∧ m.ty = .t (.i k) ∧ materialiseY m = .ok v) ∧
    (Spec.assignGo g (.i k) = .reject → assignY F0 n (.i k) = .reject) := by
  have hx := assign_exact n g hinv k
  constructor
  · intro v hv
    rw [hv] at hx
    obtain ⟨m, hm, hmat⟩ := bind_eq_ok hx
    refine ⟨m, hm, ?_, hmat⟩
    simp only [assignY] at hm
    obtain ⟨m', _, hm'⟩ := bind_eq_ok hm
    split at hm'
    · rename_i hty; injection hm' with hm'; subst hm'; simpa using hty
    · cases hm'
  · intro hrej
    rw [hrej] at hx
    cases ha : assignY F0 n (.i k) with
    | reject => rfl
    | ok m =>
      exfalso
      rw [ha] at hx
      simp only [bind_ok] at hx
      -- an accepted assignment always materialises (shape analysis as in `assign_exact`)
      rcases hinv.shape with ⟨ka, p, hka, rfl, hty, hrv⟩ | ⟨k', p, rfl, hty, hrv, hp⟩
      · by_cases hr : Spec.reprGo k p = true
        · have hcv := convertUntypedY_int n ka p k hty hrv hr
          simp [assignY, hty, Ty.untyped, hcv] at ha
          subst ha
          simp [materialiseY] at hx
        · have hr' : Spec.reprGo k p = false := by simpa using hr
          have hrep : representableY F0 (.int p) (.i k) = false := by
            simp only [representableY, CV.toInt]
            show reprY Expected.C03.reprFacts k p = false
            rw [reprY_eq_reprGo]; exact hr'
          simp [assignY, hty, Ty.untyped, convertUntypedY, hrv, hrep] at ha
      · by_cases hk : k' = k
        · subst hk
          simp [assignY, hty, Ty.untyped] at ha
          subst ha
          simp [materialiseY, hrv, hty] at hx
        · simp [assignY, hty, Ty.untyped, hk] at ha
    | crash => rw [ha] at hx; cases hx
    | unm w => rw [ha] at hx; cases hx

/-! ### conversion of an untyped integer constant -/

/-- `T(x)` for an untyped integer constant `x` that is not representable in `T` is rejected -/
theorem convNode_untyped_reject (k : IKind) (c1 : NS) (p : Int)
    (hrv : c1.rv = .c (.int p)) (hr : Spec.reprGo k p = false) :
    convNodeY F0 (.i k) c1 = .reject := by
  have hrep : representableY F0 (.int p) (.i k) = false := by
    simp only [representableY, CV.toInt]
    show reprY Expected.C03.reprFacts k p = false
    rw [reprY_eq_reprGo]; exact hr
  simp [convNodeY, hrv, hrep]

/-- **`T(e)` for an untyped integer constant expression `e`** (any expression of the integer fragment that Go
    accepts with an untyped type) and any integer type `T`: one walk of the interpreter gives exactly the outcome of
    the specification — the converted constant when it is representable in `T`, a compile error when it is not. -/
theorem conv_untyped_exact (i : Nat) (e : CExpr) (hs : intShape e = true) (hq : noRuneQuo i e = true)
    (gv : Spec.GV) (hgo : Spec.evalGo i e = .ok gv) (hun : gv.ty.untyped = true) (k : IKind) :
    Class.compare (evalY F0 { iota := i } none (.conv (.i k) e)) (Spec.evalGo i (.conv (.i k) e)) = .same := by
  obtain ⟨c1, hc1, hinv⟩ := evalY_int_correct { iota := i } rfl e hs hq gv hgo
  cases hc : Spec.evalGo i (.conv (.i k) e) with
  | ok gv' =>
    obtain ⟨n, hn, hi⟩ := evalY_int_correct { iota := i } rfl (.conv (.i k) e) (by simpa [intShape] using hs)
      (by simpa [noRuneQuo] using hq) gv' hc
    rw [hn]
    rcases hi.shape with ⟨_, _, _, rfl, hty, hrv⟩ | ⟨_, _, rfl, hty, hrv, _⟩ <;>
      simp [Class.compare, Class.sameVal, Class.absRV, hty, hrv, Spec.isFloatTy]
  | reject =>
    simp only [Spec.evalGo, hgo, bind_ok] at hc
    rcases hinv.shape with ⟨ka, p, hka, rfl, hty, hrv⟩ | ⟨k', p, rfl, _, _, _⟩
    · have hnum : Spec.isNumTy (.u ka) = true := by rcases hka with rfl | rfl <;> rfl
      simp only [Spec.convGo, hnum, if_true, Spec.representGo, CV.toInt] at hc
      have hr : Spec.reprGo k p = false := by
        cases hrp : Spec.reprGo k p with
        | false => rfl
        | true => simp [hrp] at hc
      have : evalY F0 { iota := i } none (.conv (.i k) e) = .reject := by
        simp [evalY, hc1, convNode_untyped_reject k c1 p hrv hr]
      rw [this]; rfl
    · simp [Ty.untyped] at hun
  | crash =>
    simp only [Spec.evalGo, hgo, bind_ok, Spec.convGo] at hc
    split at hc <;> (try split at hc) <;> cases hc
  | unm w =>
    simp only [Spec.evalGo, hgo, bind_ok, Spec.convGo] at hc
    split at hc <;> (try split at hc) <;> cases hc

/-! ### typed declarations whose initialiser reaches the assignment check as it is -/

/-- initialisers on which the type pushed down by a typed declaration has no effect: literals, `iota`, unary
    operators and parentheses over them, and conversions to integer types (whose operand gets no type from its
    parent). A binary operator at the top of the chain would take the declared type as its own (F03-2). -/
def declShape : CExpr → Bool
  | .int _ | .rune _ | .iota => true
  | .un a x => isUnArith a && declShape x
  | .par x => declShape x
  | .conv (.i _) x => intShape x
  | _ => false

theorem declShape_intShape : ∀ e, declShape e = true → intShape e = true := by
  intro e
  induction e with
  | un a x ih => intro h; simp only [declShape, Bool.and_eq_true] at h; simp [intShape, h.1, ih h.2]
  | par x ih => intro h; simp only [declShape] at h; simp [intShape, ih h]
  | conv t x _ => intro h; cases t <;> simp [declShape] at h; simpa [intShape] using h
  | bin _ _ _ _ _ => intro h; simp [declShape] at h
  | len _ _ => intro h; simp [declShape] at h
  | int _ => intro _; rfl
  | rune _ => intro _; rfl
  | iota => intro _; rfl
  | flt _ => intro h; simp [declShape] at h
  | bool _ => intro h; simp [declShape] at h
  | str _ => intro h; simp [declShape] at h

/-- the pushed-down type is not looked at on such an initialiser (first walk) -/
theorem evalY_forced_irrelevant (env : Env) (hp2 : env.pass2 = false) (forced : Option Ty) :
    ∀ e, declShape e = true → evalY F0 env forced e = evalY F0 env none e := by
  intro e
  induction e with
  | un a x ih =>
    intro h; simp only [declShape, Bool.and_eq_true] at h
    simp [evalY, ih h.2]
  | par x ih => intro h; simp only [declShape] at h; simp [evalY, ih h]
  | conv t x _ => intro _; simp [evalY, hp2]
  | bin _ _ _ _ _ => intro h; simp [declShape] at h
  | len _ _ => intro h; simp [declShape] at h
  | int _ => intro _; simp [evalY]
  | rune _ => intro _; simp [evalY]
  | iota => intro _; simp [evalY]
  | flt _ => intro h; simp [declShape] at h
  | bool _ => intro h; simp [declShape] at h
  | str _ => intro h; simp [declShape] at h

/-- **`var c T = e` at package level**, `T` an integer type, `e` an initialiser of `declShape` that Go accepts as an
    expression: the declaration has exactly the outcome of the specification — the value when the constant is
    representable in `T` (or already of type `T`), a compile error otherwise. -/
theorem typed_var_decl_exact (k : IKind) (e : CExpr) (hs : declShape e = true) (hq : noRuneQuo 0 e = true)
    (gv : Spec.GV) (hgo : Spec.evalGo 0 e = .ok gv) :
    varDeclY F0 (some (.i k)) e = Spec.declGo 0 (some (.i k)) e := by
  have hi := declShape_intShape e hs
  obtain ⟨n, hn, hinv⟩ := evalY_int_correct { iota := 0 } rfl e hi hq gv hgo
  simp only [varDeclY, unmodelled, unmodelledU_int false e hi, Spec.declGo, hgo, bind_ok]
  rw [evalY_forced_irrelevant { iota := 0 } rfl _ e hs]
  show (evalY F0 { iota := 0 } none e).bind _ = _
  rw [hn]
  simp only [bind_ok]
  exact assign_exact n gv hinv k

/-! ### typed constant declarations over literal chains -/

/-- literals, `iota`, unary operators and parentheses: every walk of a constant declaration sees the same thing -/
def litChain : CExpr → Bool
  | .int _ | .rune _ | .iota => true
  | .un a x => isUnArith a && litChain x
  | .par x => litChain x
  | _ => false

theorem litChain_declShape : ∀ e, litChain e = true → declShape e = true := by
  intro e
  induction e with
  | un a x ih => intro h; simp only [litChain, Bool.and_eq_true] at h; simp [declShape, h.1, ih h.2]
  | par x ih => intro h; simp only [litChain] at h; simp [declShape, ih h]
  | conv _ _ _ => intro h; simp [litChain] at h
  | bin _ _ _ _ _ => intro h; simp [litChain] at h
  | len _ _ => intro h; simp [litChain] at h
  | int _ => intro _; rfl
  | rune _ => intro _; rfl
  | iota => intro _; rfl
  | flt _ => intro h; simp [litChain] at h
  | bool _ => intro h; simp [litChain] at h
  | str _ => intro h; simp [litChain] at h

theorem litChain_noRuneQuo (i : Nat) : ∀ e, litChain e = true → noRuneQuo i e = true := by
  intro e
  induction e with
  | un a x ih => intro h; simp only [litChain, Bool.and_eq_true] at h; simp [noRuneQuo, ih h.2]
  | par x ih => intro h; simp only [litChain] at h; simp [noRuneQuo, ih h]
  | conv _ _ _ => intro h; simp [litChain] at h
  | bin _ _ _ _ _ => intro h; simp [litChain] at h
  | len _ _ => intro h; simp [litChain] at h
  | int _ => intro _; rfl
  | rune _ => intro _; rfl
  | iota => intro _; rfl
  | flt _ => intro h; simp [litChain] at h
  | bool _ => intro h; simp [litChain] at h
  | str _ => intro h; simp [litChain] at h

/-- on a literal chain a walk depends on `iota` only: not on the pushed-down type, not on the walk -/
theorem evalY_litChain_env (env : Env) (forced : Option Ty) :
    ∀ e, litChain e = true → evalY F0 env forced e = evalY F0 { iota := env.iota } none e := by
  intro e
  induction e with
  | un a x ih =>
    intro h; simp only [litChain, Bool.and_eq_true] at h
    simp [evalY, ih h.2]
  | par x ih => intro h; simp only [litChain] at h; simp [evalY, ih h]
  | conv _ _ _ => intro h; simp [litChain] at h
  | bin _ _ _ _ _ => intro h; simp [litChain] at h
  | len _ _ => intro h; simp [litChain] at h
  | int _ => intro _; simp [evalY]
  | rune _ => intro _; simp [evalY]
  | iota => intro _; simp [evalY]
  | flt _ => intro h; simp [litChain] at h
  | bool _ => intro h; simp [litChain] at h
  | str _ => intro h; simp [litChain] at h

/-- **`const c T = e`, `T` an integer type, `e` a literal chain** (with `iota = i`, anywhere in a block): when Go
    accepts the declaration, the three walks and the use yield Go's value (`SpecOk`, the per-spec hypothesis of
    `iota_block_correct`); when Go rejects it — the constant is not representable in `T` — the first walk rejects it. -/
theorem typed_const_decl_exact (i : Nat) (k : IKind) (e : CExpr) (hl : litChain e = true)
    (gv : Spec.GV) (hgo : Spec.evalGo i e = .ok gv) :
    (∀ v, Spec.declGo i (some (.i k)) e = .ok v → SpecOk F0 i (some (.i k)) e) ∧
    (Spec.declGo i (some (.i k)) e = .reject → ∀ first, constGtaY F0 i first (some (.i k)) e = .reject) := by
  have hd := litChain_declShape e hl
  have hi := declShape_intShape e hd
  obtain ⟨n, hn, hinv⟩ := evalY_int_correct { iota := i } rfl e hi (litChain_noRuneQuo i e hl) gv hgo
  obtain ⟨hacc, hrej⟩ := assignY_cases n gv hinv k
  have hdecl : Spec.declGo i (some (.i k)) e = Spec.assignGo gv (.i k) := by simp [Spec.declGo, hgo]
  have hgta : ∀ first, constGtaY F0 i first (some (.i k)) e = assignY F0 n (.i k) := by
    intro first
    simp only [constGtaY, unmodelled, unmodelledU_int false e hi]
    rw [evalY_litChain_env _ _ e hl]
    show (evalY F0 { iota := i } none e).bind _ = _
    rw [hn]; rfl
  have hcfg : ∀ r1, constCfgY F0 i (some (.i k)) e r1 = assignY F0 n (.i k) := by
    intro r1
    simp only [constCfgY]
    rw [evalY_litChain_env _ _ e hl]
    show (evalY F0 { iota := i } none e).bind _ = _
    rw [hn]; rfl
  constructor
  · intro v hv first
    rw [hdecl] at hv
    obtain ⟨m, hm, hmty, hmat⟩ := hacc v hv
    refine ⟨m, m, v, by rw [hgta, hm], by rw [hcfg, hm], ?_, by rw [hdecl, hv]⟩
    simp [constUseY, hmty, Ty.untyped, hmat]
  · intro hr first
    rw [hdecl] at hr
    rw [hgta, hrej hr]

end YaegiVerif.Proofs.C03
