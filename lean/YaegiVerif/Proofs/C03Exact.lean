import YaegiVerif.Proofs.C03Decl
import YaegiVerif.Proofs.C03Const
import YaegiVerif.Proofs.C03Walk
import YaegiVerif.Proofs.C03Block
import YaegiVerif.Model.ConstClass
/- C03: declarations with a declared integer type, both directions. The interpreter model has exactly the outcome of
   the specification wherever the initialiser reaches the assignment check as the constant the specification gives it:
   untyped operator expressions (which stay untyped under the pushed-down type since 3f5ccd5), literals, unary
   operators, parentheses, conversions. What is left out is an operator applied to *typed* operands under a declared
   type: the node takes the declared type before its operands are looked at (F03-18). -/
namespace YaegiVerif.Proofs.C03
open YaegiVerif YaegiVerif.Const

/-- `Rel` is the relation `compare … = .same` of the full statement -/
theorem compare_of_rel {r : Res NS} {g : Res Spec.GV} (h : Rel r g) : Class.compare r g = .same := by
  rcases h.inv with ⟨n, gv, hr, hg, hinv⟩ | ⟨hr, hg⟩
  · subst hr hg
    rcases hinv.shape with ⟨_, _, _, rfl, hty, hrv⟩ | ⟨_, _, rfl, hty, hrv, _⟩ <;>
      simp [Class.compare, Class.tyAgree, Class.sameVal, Class.absRV, hty, hrv, Spec.isFloatTy]
  · subst hr hg; rfl

/-! ### the assignment check is exact on an integer constant -/

/-- `check.assignment` of an integer-fragment node to an integer type, followed by the materialisation of the value:
    Go's assignability of the constant, acceptance and rejection alike -/
theorem assign_exact (n : NS) (g : Spec.GV) (hinv : Inv n g) (k : IKind) :
    (assignY F0 n (.i k)).bind materialiseY = Spec.assignGo g (.i k) := by
  rcases hinv.shape with ⟨ka, p, hka, rfl, hty, hrv⟩ | ⟨k', p, rfl, hty, hrv, hp⟩
  · have hcond : ((Spec.isNumTy (.u ka) && Spec.isNumTy (.t (.i k))) || (Spec.isStrTy (.u ka) && BT.i k == BT.str) ||
        (Spec.isBoolTy (.u ka) && BT.i k == BT.bool)) = true := by rcases hka with rfl | rfl <;> rfl
    simp only [Spec.assignGo, hcond, if_true, Spec.representGo, CV.toInt]
    by_cases hr : Spec.reprGo k p = true
    · have hcv := convertUntypedY_int n ka hka p k hty hrv hr
      simp [assignY, hty, Ty.untyped, hcv, materialiseY, hr]
    · have hr' : Spec.reprGo k p = false := by simpa using hr
      have hcv := convertUntypedY_int_none n ka hka p k hty hrv hr'
      simp [assignY, hty, Ty.untyped, hcv, hr']
  · simp only [Spec.assignGo]
    by_cases hk : (BT.i k' == BT.i k) = true
    · have hkk : k' = k := by simpa using hk
      subst hkk
      simp [assignY, hty, Ty.untyped, materialiseY, hrv]
    · have hne : ¬ (k' = k) := by simpa using hk
      simp [assignY, hty, Ty.untyped, hne]

/-- the gta / cfg walks keep the node for the use: when Go accepts the assignment the node after
    `check.assignment` is typed and materialises to Go's value; when Go rejects it the assignment is rejected -/
theorem assignY_cases (n : NS) (g : Spec.GV) (hinv : Inv n g) (k : IKind) :
    (∀ v, Spec.assignGo g (.i k) = .ok v →
      ∃ m, assignY F0 n (.i k) = .ok m ∧ m.ty = .t (.i k) ∧ materialiseY m = .ok v) ∧
    (Spec.assignGo g (.i k) = .reject → assignY F0 n (.i k) = .reject) := by
  have hx := assign_exact n g hinv k
  constructor
  · intro v hv
    rw [hv] at hx
    obtain ⟨m, hm, hmat⟩ := bind_eq_ok hx
    refine ⟨m, hm, ?_, hmat⟩
    simp only [assignY] at hm
    obtain ⟨m', _, hm'⟩ := bind_eq_ok hm
    split at hm'
    · rename_i hty; injection hm' with hm'; subst hm'; simpa using hty
    · cases hm'
  · intro hrej
    rw [hrej] at hx
    cases ha : assignY F0 n (.i k) with
    | reject => rfl
    | ok m =>
      exfalso
      rw [ha] at hx
      simp only [bind_ok] at hx
      -- an accepted assignment always materialises (shape analysis as in `assign_exact`)
      rcases hinv.shape with ⟨ka, p, hka, rfl, hty, hrv⟩ | ⟨k', p, rfl, hty, hrv, hp⟩
      · by_cases hr : Spec.reprGo k p = true
        · have hcv := convertUntypedY_int n ka hka p k hty hrv hr
          simp [assignY, hty, Ty.untyped, hcv] at ha
          subst ha
          simp [materialiseY] at hx
        · have hr' : Spec.reprGo k p = false := by simpa using hr
          have hcv := convertUntypedY_int_none n ka hka p k hty hrv hr'
          simp [assignY, hty, Ty.untyped, hcv] at ha
      · by_cases hk : k' = k
        · subst hk
          simp [assignY, hty, Ty.untyped] at ha
          subst ha
          simp [materialiseY, hrv, hty] at hx
        · simp [assignY, hty, Ty.untyped, hk] at ha
    | crash => rw [ha] at hx; cases hx
    | unm w => rw [ha] at hx; cases hx

/-! ### typed declarations -/

/-- initialisers on which the type pushed down by a typed declaration has no effect for syntactic reasons: literals,
    `iota`, unary operators and parentheses over them, and conversions to integer types (whose operand gets no type
    from its parent) -/
def declShape : CExpr → Bool
  | .int _ | .rune _ | .iota => true
  | .un a x => isUnArith a && declShape x
  | .par x => declShape x
  | .conv (.i _) x => intShape x
  | _ => false

theorem declShape_intShape : ∀ e, declShape e = true → intShape e = true := by
  intro e
  induction e with
  | un a x ih => intro h; simp only [declShape, Bool.and_eq_true] at h; simp [intShape, h.1, ih h.2]
  | par x ih => intro h; simp only [declShape] at h; simp [intShape, ih h]
  | conv t x _ => intro h; cases t <;> simp [declShape] at h; simpa [intShape] using h
  | bin _ _ _ _ _ => intro h; simp [declShape] at h
  | len _ _ => intro h; simp [declShape] at h
  | int _ => intro _; rfl
  | rune _ => intro _; rfl
  | iota => intro _; rfl
  | flt _ => intro h; simp [declShape] at h
  | bool _ => intro h; simp [declShape] at h
  | str _ => intro h; simp [declShape] at h

/-- the pushed-down type is not looked at on such an initialiser (first walk) -/
theorem evalY_forced_irrelevant (env : Env) (hp2 : env.pass2 = false) (forced : Option Ty) :
    ∀ e, declShape e = true → evalY F0 env forced e = evalY F0 env none e := by
  intro e
  induction e with
  | un a x ih =>
    intro h; simp only [declShape, Bool.and_eq_true] at h
    have hnot : (a == Act.not) = false := by
      have ha := h.1
      cases a <;> simp [isUnArith] at ha <;> rfl
    simp [evalY, hnot, ih h.2]
  | par x ih => intro h; simp only [declShape] at h; simp [evalY, ih h]
  | conv t x _ => intro _; simp [evalY, hp2]
  | bin _ _ _ _ _ => intro h; simp [declShape] at h
  | len _ _ => intro h; simp [declShape] at h
  | int _ => intro _; simp [evalY]
  | rune _ => intro _; simp [evalY]
  | iota => intro _; simp [evalY]
  | flt _ => intro h; simp [declShape] at h
  | bool _ => intro h; simp [declShape] at h
  | str _ => intro h; simp [declShape] at h

theorem numForced_int (k : IKind) : NumForced (some (.t (.i k))) :=
  fun f hf => by injection hf with hf; subst hf; rfl

/-- **`var c T = e` at package level**, `T` an integer type, `e` any expression of the integer fragment: the
    declaration has exactly the outcome of the specification — the value when the constant is representable in `T`
    (or already of type `T`), a compile error otherwise (a typed constant of another type included: the operator node
    takes the type of its typed operand, not the declared one, 2988c87), and a compile error when the specification
    rejects `e` itself. -/
theorem typed_var_decl_exact (k : IKind) (e : CExpr) (hi : intShape e = true) :
    varDeclY F0 (some (.i k)) e = Spec.declGo 0 (some (.i k)) e := by
  simp only [varDeclY, unmodelled_none, Spec.declGo]
  rw [evalY_int_indep e hi { iota := 0 } _ (numForced_int k)]
  rcases (evalY_int_rel { iota := 0 } rfl e hi).inv with ⟨n, gv, hr, hg, hinv⟩ | ⟨hr, hg⟩
  · have hg' : Spec.evalGo 0 e = .ok gv := hg
    have hr' : evalY F0 { iota := 0 } none e = .ok n := hr
    rw [hr', hg']
    simp only [bind_ok]
    exact assign_exact n gv hinv k
  · have hg' : Spec.evalGo 0 e = .reject := hg
    have hr' : evalY F0 { iota := 0 } none e = .reject := hr
    rw [hr', hg']; rfl

/-- **`var c = e` at package level**, any expression of the integer fragment: exactly the outcome of the
    specification (the value with its default type — `int32` for a rune constant since b080dc4 —, a compile error when
    the constant does not fit its default type or `e` is rejected) -/
theorem var_decl_exact (e : CExpr) (hi : intShape e = true) :
    varDeclY F0 none e = Spec.declGo 0 none e := by
  simp only [varDeclY, unmodelled_none, Spec.declGo, F0_chk, Expected.C03.checkFacts, if_true]
  rcases (evalY_int_rel { iota := 0 } rfl e hi).inv with ⟨n, gv, hr, hg, hinv⟩ | ⟨hr, hg⟩
  · have hg' : Spec.evalGo 0 e = .ok gv := hg
    rw [hr, hg']
    simp only [bind_ok, defaultTypeY_int n gv hinv]
    obtain ⟨k, hk⟩ := defaultGo_int gv n hinv
    rw [hk]
    exact assign_exact n gv hinv k
  · have hg' : Spec.evalGo 0 e = .reject := hg
    rw [hr, hg']; rfl

/-- **`const c T = e`, both directions**, `T` any integer type, `e` any expression of the integer fragment, for every
    `iota` and wherever the spec stands in a block: when Go accepts the declaration all three walks and the use yield
    Go's value (`SpecOk`); when Go rejects it the first walk of the interpreter rejects it. -/
theorem typed_const_decl_exact (i : Nat) (k : IKind) (e : CExpr) (hi : intShape e = true) :
    (∀ v, Spec.declGo i (some (.i k)) e = .ok v → SpecOk F0 i (some (.i k)) e) ∧
    (Spec.declGo i (some (.i k)) e = .reject → ∀ first, constGtaY F0 i first (some (.i k)) e = .reject) := by
  have hnum := numForced_int k
  have hgta : ∀ first, constGtaY F0 i first (some (.i k)) e =
      (evalY F0 { iota := i } none e).bind fun r1 => assignY F0 r1 (.i k) := by
    intro first
    simp only [constGtaY, unmodelled_none]
    rw [evalY_int_indep e hi { iota := i, inConst := true, noFrame := first } _ hnum]
  have hcfg : ∀ r1, constCfgY F0 i (some (.i k)) e r1 =
      (evalY F0 { iota := i } none e).bind fun r2 => assignY F0 r2 (.i k) := by
    intro r1
    simp only [constCfgY]
    rw [evalY_int_indep e hi { iota := i, inConst := true, pass2 := true, typedDecl := true } _ hnum]
  rcases (evalY_int_rel { iota := i } rfl e hi).inv with ⟨n, gv, hr, hg, hinv⟩ | ⟨hr, hg⟩
  · have hg' : Spec.evalGo i e = .ok gv := hg
    have hr' : evalY F0 { iota := i } none e = .ok n := hr
    obtain ⟨hacc, hrej⟩ := assignY_cases n gv hinv k
    have hdecl : Spec.declGo i (some (.i k)) e = Spec.assignGo gv (.i k) := by simp [Spec.declGo, hg']
    constructor
    · intro v hv first
      rw [hdecl] at hv
      obtain ⟨m, hm, hmty, hmat⟩ := hacc v hv
      refine ⟨m, m, v, by rw [hgta, hr']; exact hm, by rw [hcfg, hr']; exact hm, ?_, by rw [hdecl, hv]⟩
      simp [constUseY, hmty, Ty.untyped, hmat]
    · intro hrj first
      rw [hdecl] at hrj
      rw [hgta, hr']; exact hrej hrj
  · have hg' : Spec.evalGo i e = .reject := hg
    have hr' : evalY F0 { iota := i } none e = .reject := hr
    constructor
    · intro v hv; simp [Spec.declGo, hg'] at hv
    · intro _ first; rw [hgta, hr']; rfl

/-- **`const c = e`**, any expression of the integer fragment: all three walks (the later ones with the type of the
    first pushed down, literal operands keeping their first conversion, conversion operands their left-over type) and
    the use agree with the specification -/
theorem const_decl_stages (i : Nat) (e : CExpr) (hi : intShape e = true)
    (v : CV × BT) (hgo : Spec.declGo i none e = .ok v) (first : Bool) :
    ∃ n m, constGtaY F0 i first none e = .ok n ∧ constCfgY F0 i none e n = .ok m ∧ constUseY F0 m = .ok v := by
  simp only [Spec.declGo] at hgo
  obtain ⟨gv, hgv, hasg⟩ := bind_eq_ok hgo
  obtain ⟨n, hn, hinv⟩ := evalY_int_correct { iota := i } rfl e hi gv hgv
  have hnum : NumForced (some n.ty) := by
    intro f hf; injection hf with hf; subst hf
    rcases hinv.shape with ⟨ka, _, hka, _, hty, _⟩ | ⟨k2, _, _, hty, _, _⟩
    · rw [hty]; rcases hka with rfl | rfl <;> rfl
    · rw [hty]; rfl
  have h1 := evalY_int_indep e hi { iota := i, inConst := true, noFrame := first } none (fun _ h => by cases h)
  have h2 := evalY_int_indep e hi { iota := i, inConst := true, pass2 := true } (some n.ty) hnum
  refine ⟨n, n, ?_, ?_, ?_⟩
  · simp only [constGtaY, unmodelled_none]; rw [h1]; exact hn
  · simp only [constCfgY]; rw [h2]; exact hn
  · obtain ⟨cv, t⟩ := v
    have ht : t = Spec.defaultGo gv.ty := assignGo_ty _ _ _ _ hasg
    subst ht
    rcases hinv.shape with ⟨ka, p, hka, rfl, hty, hrv⟩ | ⟨k2, p, rfl, hty, hrv, hp⟩
    · simp only [constUseY, hty, Ty.untyped, if_true, defaultTypeY_int n _ hinv]
      exact assign_materialise n _ hinv _ cv hasg (defaultGo_int _ n hinv)
    · simp only [Spec.defaultGo, Spec.assignGo, beq_self_eq_true, if_true] at hasg
      injection hasg with hasg; injection hasg with hcv _; subst hcv
      simp [constUseY, hty, Ty.untyped, materialiseY, hrv, Spec.defaultGo]

end YaegiVerif.Proofs.C03
