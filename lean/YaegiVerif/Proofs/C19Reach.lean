import YaegiVerif.Model.Debug
import YaegiVerif.Proofs.C19Track
/-
  C19 — every node that executes is in `cfgNodes`: the walk of `cfgReach` completes (it returns a set
  that contains the entry points and is closed under tnext / fnext), and a run that follows the edges
  of the graph and enters functions at entry points stays inside every such set.
-/
namespace YaegiVerif.Proofs.C19
open YaegiVerif.Debug

/-! ### the walk completes -/

/-- how many candidates are not reached yet -/
def unseen (U seen : List Nat) : Nat := U.countP fun x => decide (x ∉ seen)

theorem unseen_cons_le (U seen : List Nat) (i : Nat) : unseen U (i :: seen) ≤ unseen U seen := by
  unfold unseen
  apply List.countP_mono_left
  intro x _ hx
  simp only [List.mem_cons, not_or, decide_eq_true_eq] at hx ⊢
  exact hx.2

theorem unseen_cons_lt (U seen : List Nat) (i : Nat) (hi : i ∈ U) (hn : i ∉ seen) :
    unseen U (i :: seen) + 1 ≤ unseen U seen := by
  induction U with
  | nil => simp at hi
  | cons x xs ih =>
    have hle := unseen_cons_le xs seen i
    unfold unseen at *
    simp only [List.countP_cons]
    by_cases hx : x = i
    · subst hx
      have h1 : decide (x ∉ x :: seen) = false := by simp
      have h2 : decide (x ∉ seen) = true := by simpa using hn
      simp only [h1, h2, Bool.false_eq_true, ↓reduceIte]
      omega
    · have hi' : i ∈ xs := by
        simp only [List.mem_cons] at hi
        cases hi with
        | inl e => exact absurd e.symm hx
        | inr e => exact e
      have := ih hi'
      by_cases hs : x ∈ seen
      · have h1 : decide (x ∉ i :: seen) = false := by simp [hs]
        have h2 : decide (x ∉ seen) = false := by simp [hs]
        simp only [h1, h2, Bool.false_eq_true, ↓reduceIte]
        omega
      · have h1 : decide (x ∉ i :: seen) = true := by simp [hs, hx]
        have h2 : decide (x ∉ seen) = true := by simp [hs]
        simp only [h1, h2, ↓reduceIte]
        omega

theorem succs_length (g : Graph) (i : Nat) : (succs g i).length ≤ 2 := by
  unfold succs
  cases g.tnext i <;> cases g.fnext i <;> simp

/-- all the successors of the nodes of the graph -/
def allSuccs (g : Graph) : List Nat := (List.range g.size).flatMap (succs g)

theorem succs_sub (g : Graph) (i : Nat) : ∀ x ∈ succs g i, x ∈ allSuccs g := by
  intro x hx
  by_cases hi : i < g.size
  · unfold allSuccs
    simp only [List.mem_flatMap, List.mem_range]
    exact ⟨i, hi, hx⟩
  · have : succs g i = [] := by
      unfold succs Graph.tnext Graph.fnext
      have : g[i]? = none := by simp [Array.getElem?_eq_none_iff]; omega
      simp [this]
    rw [this] at hx; simp at hx

/-- what a completed walk returns -/
structure ReachGood (g : Graph) (todo seen R : List Nat) : Prop where
  mono : ∀ x ∈ seen, x ∈ R
  todo : ∀ x ∈ todo, x ∈ R
  closed : ∀ j ∈ R, j ∈ seen ∨ ∀ x ∈ succs g j, x ∈ R

theorem cfgReach_good (g : Graph) (U : List Nat) (hU : ∀ x ∈ allSuccs g, x ∈ U) (fuel : Nat) :
    ∀ todo seen, (∀ x ∈ todo, x ∈ U) → 3 * unseen U seen + todo.length ≤ fuel →
      ReachGood g todo seen (cfgReach g fuel todo seen) := by
  induction fuel with
  | zero =>
    intro todo seen _ hm
    have : todo = [] := by
      cases todo with
      | nil => rfl
      | cons a t => simp only [List.length_cons] at hm; omega
    subst this
    exact ⟨fun x hx => by simpa [cfgReach] using hx, fun x hx => by simp at hx, fun j hj => Or.inl (by simpa [cfgReach] using hj)⟩
  | succ fuel ih =>
    intro todo seen ht hm
    cases todo with
    | nil =>
      exact ⟨fun x hx => by simpa [cfgReach] using hx, fun x hx => by simp at hx, fun j hj => Or.inl (by simpa [cfgReach] using hj)⟩
    | cons i rest =>
      have hiU : i ∈ U := ht i List.mem_cons_self
      have hrU : ∀ x ∈ rest, x ∈ U := fun x hx => ht x (List.mem_cons_of_mem _ hx)
      simp only [List.length_cons] at hm
      by_cases hc : seen.contains i = true
      · have hR : cfgReach g (fuel + 1) (i :: rest) seen = cfgReach g fuel rest seen := by
          rw [cfgReach, if_pos hc]
        rw [hR]
        have G := ih rest seen hrU (by omega)
        refine ⟨G.mono, ?_, G.closed⟩
        intro x hx
        simp only [List.mem_cons] at hx
        cases hx with
        | inl e => rw [e]; exact G.mono i (by simpa [List.contains_iff_mem] using hc)
        | inr e => exact G.todo x e
      · have hR : cfgReach g (fuel + 1) (i :: rest) seen = cfgReach g fuel (succs g i ++ rest) (i :: seen) := by
          rw [cfgReach, if_neg hc]
        rw [hR]
        have hn : i ∉ seen := by simpa [List.contains_iff_mem] using hc
        have hlt := unseen_cons_lt U seen i hiU hn
        have hs2 := succs_length g i
        have G := ih (succs g i ++ rest) (i :: seen)
          (by
            intro x hx
            simp only [List.mem_append] at hx
            cases hx with
            | inl e => exact hU x (succs_sub g i x e)
            | inr e => exact hrU x e)
          (by simp only [List.length_append]; omega)
        refine ⟨fun x hx => G.mono x (List.mem_cons_of_mem _ hx), ?_, ?_⟩
        · intro x hx
          simp only [List.mem_cons] at hx
          cases hx with
          | inl e => rw [e]; exact G.mono i List.mem_cons_self
          | inr e => exact G.todo x (List.mem_append_right _ e)
        · intro j hj
          cases G.closed j hj with
          | inl e =>
            simp only [List.mem_cons] at e
            cases e with
            | inl e1 => right; rw [e1]; intro x hx; exact G.todo x (List.mem_append_left _ hx)
            | inr e1 => exact Or.inl e1
          | inr e => exact Or.inr e

theorem unseen_le (U seen : List Nat) : unseen U seen ≤ U.length := by
  unfold unseen; exact List.countP_le_length

theorem allSuccs_length (g : Graph) : (allSuccs g).length ≤ 2 * g.size := by
  unfold allSuccs
  have : ∀ l : List Nat, (l.flatMap (succs g)).length ≤ 2 * l.length := by
    intro l
    induction l with
    | nil => simp
    | cons a t ih =>
      simp only [List.flatMap_cons, List.length_append, List.length_cons]
      have := succs_length g a
      omega
  have h := this (List.range g.size)
  simpa using h

/-- **the walk of `cfgNodes` completes**: what it returns contains the entry points and is closed
    under tnext and fnext — for every graph -/
theorem cfgReach_closed (g : Graph) (entries : List Nat) :
    (∀ x ∈ entries, x ∈ cfgReach g (cfgFuel g entries) entries []) ∧
    (∀ j ∈ cfgReach g (cfgFuel g entries) entries [], ∀ x ∈ succs g j, x ∈ cfgReach g (cfgFuel g entries) entries []) := by
  have hlen := allSuccs_length g
  have hu := unseen_le (entries ++ allSuccs g) []
  have G := cfgReach_good g (entries ++ allSuccs g) (fun x hx => List.mem_append_right _ hx) (cfgFuel g entries)
    entries [] (fun x hx => List.mem_append_left _ hx) (by
      simp only [List.length_append] at hu
      unfold cfgFuel; omega)
  refine ⟨G.todo, ?_⟩
  intro j hj
  cases G.closed j hj with
  | inl e => simp at e
  | inr e => exact e

/-! ### a run stays inside every closed set that contains the entry points -/

/-- `runCfg` is only entered at entry points: the `start` of a function body, of a declaration, or of
    the root (what `genRun` generates from, and `cfgNodes` starts from) -/
def CallsEnter (P : Prog σ) (entries : List Nat) : Prop :=
  ∀ st c r s e, (P.step st c r).2 = .call s (some e) → s ∈ entries

/-- `R` contains the entry points and is closed under tnext / fnext -/
def ClosedSet (g : Graph) (entries R : List Nat) : Prop :=
  (∀ x ∈ entries, x ∈ R) ∧ ∀ j ∈ R, ∀ x ∈ succs g j, x ∈ R

theorem edge_mem_succs (g : Graph) (i k : Nat) (h : g.tnext i = some k ∨ g.fnext i = some k) : k ∈ succs g i := by
  unfold succs
  cases h with
  | inl e => simp [e]
  | inr e => cases g.tnext i <;> simp [e]

/-- the closures of the live activations, and those executed so far, belong to nodes of `R` -/
def InR (R : List Nat) (p : PCfg σ) : Prop := (∀ c ∈ p.stack, c.owner ∈ R) ∧ (∀ c ∈ p.trace, c.owner ∈ R)

theorem papply_inR (g : Graph) (P : Prog σ) (entries R : List Nat) (hC : ClosedSet g entries R)
    (hR : Respects g P) (hE : CallsEnter P entries) (p : PCfg σ) (st : σ) (c : Clo) (r : Bool)
    (hc : ∀ c0 rest, p.stack = c0 :: rest → c0 = c) (h : InR R p) :
    InR R (papply p (P.step st c r).2) := by
  have hr := hR st c r
  have he := hE st c r
  unfold papply
  cases hs : p.stack with
  | nil =>
    cases ha : (P.step st c r).2 with
    | next c' => exact ⟨by simp [hs], h.2⟩
    | call s e =>
      rw [ha] at hr
      cases e with
      | none => exact ⟨by simp [hs], h.2⟩
      | some e =>
        refine ⟨?_, h.2⟩
        intro x hx
        simp only [List.mem_singleton] at hx
        rw [hx, entry_owner g s e hr]
        exact hC.1 s (he s e ha)
    | panic => exact ⟨by simp [hs], h.2⟩
  | cons c0 rest =>
    have hc0 : c0 = c := hc c0 rest hs
    have hin : ∀ x ∈ c0 :: rest, x.owner ∈ R := by rw [← hs]; exact h.1
    have hrest : ∀ x ∈ rest, x.owner ∈ R := fun x hx => hin x (List.mem_cons_of_mem _ hx)
    have hown : c.owner ∈ R := by rw [← hc0]; exact hin c0 List.mem_cons_self
    cases ha : (P.step st c r).2 with
    | next c' =>
      rw [ha] at hr
      cases c' with
      | none => exact ⟨hrest, h.2⟩
      | some c' =>
        refine ⟨?_, h.2⟩
        obtain ⟨k, _, hedge, hk, _⟩ := hr
        intro x hx
        simp only [List.mem_cons] at hx
        cases hx with
        | inl e => rw [e, hk]; exact hC.2 c.owner hown k (edge_mem_succs g c.owner k hedge)
        | inr e => exact hrest x e
    | call s e =>
      rw [ha] at hr
      cases e with
      | none => exact ⟨hin, h.2⟩
      | some e =>
        refine ⟨?_, h.2⟩
        intro x hx
        simp only [List.mem_cons] at hx
        cases hx with
        | inl e1 => rw [e1, entry_owner g s e hr]; exact hC.1 s (he s e ha)
        | inr e1 => exact hin x (by simpa using e1)
    | panic => exact ⟨hin, h.2⟩

theorem pstep_inR (g : Graph) (P : Prog σ) (entries R : List Nat) (hC : ClosedSet g entries R)
    (hR : Respects g P) (hE : CallsEnter P entries) (p : PCfg σ) (h : InR R p) : InR R (pstep P p) := by
  unfold pstep
  cases hc : p.ctl with
  | halt b => exact h
  | resume =>
    simp only
    cases hs : p.stack with
    | nil =>
      apply papply_inR g P entries R hC hR hE _ p.st baseClo true
      · intro c0 rest e; simp [hs] at e
      · exact ⟨fun x hx => h.1 x (by simpa [hs] using hx), h.2⟩
    | cons c0 rest =>
      apply papply_inR g P entries R hC hR hE _ p.st c0 true
      · intro c1 rest' e; simp only [hs, List.cons.injEq] at e; exact e.1.symm
      · exact ⟨fun x hx => h.1 x (by simpa [hs] using hx), h.2⟩
  | start =>
    cases hs : p.stack with
    | nil => exact ⟨by simpa [hs] using h.1, h.2⟩
    | cons c0 rest =>
      simp only
      apply papply_inR g P entries R hC hR hE _ p.st c0 false
      · intro c1 rest' e; simp only [hs, List.cons.injEq] at e; exact e.1.symm
      · refine ⟨fun x hx => h.1 x (by simpa [hs] using hx), ?_⟩
        intro x hx
        simp only [List.mem_cons] at hx
        cases hx with
        | inl e => rw [e]; exact h.1 c0 (by rw [hs]; exact List.mem_cons_self)
        | inr e => exact h.2 x e

theorem prun_inR (g : Graph) (P : Prog σ) (entries R : List Nat) (hC : ClosedSet g entries R)
    (hR : Respects g P) (hE : CallsEnter P entries) (n : Nat) (p : PCfg σ) (h : InR R p) : InR R (prun P n p) := by
  induction n generalizing p with
  | zero => exact h
  | succ n ih => exact ih _ (pstep_inR g P entries R hC hR hE p h)

end YaegiVerif.Proofs.C19
