import YaegiVerif.Proofs.C11Reg
/-
  C11, helper lemmas 3b: what the initialiser of a package-level variable depends on
  (getVarDependencies: the cells it names, directly or through the bodies of the functions it
  mentions). Under definition-before-use every dependency is a cell allocated BEFORE the variable:
  genGlobalVarDecl never sees a variable that waits for itself, however the program is cut.
-/
namespace YaegiVerif.Proofs.C11
open YaegiVerif.Piecewise

/-! ### closed code names cells and functions below the bounds -/

theorem closedE_cells {nf nv : Nat} : ∀ (e : CExpr), closedE nf nv e = true →
    (∀ i ∈ e.cells, i < nv) ∧ (∀ f ∈ e.fids, f < nf) := by
  intro e
  induction e with
  | num _ => intro _; simp [CExpr.cells, CExpr.fids]
  | arg => intro _; simp [CExpr.cells, CExpr.fids]
  | recv => intro _; simp [CExpr.cells, CExpr.fids]
  | glob i => intro h; simp only [closedE, decide_eq_true_eq] at h; simp [CExpr.cells, CExpr.fids, h]
  | bin _ a b iha ihb =>
    intro h
    simp only [closedE, Bool.and_eq_true] at h
    obtain ⟨a1, a2⟩ := iha h.1
    obtain ⟨b1, b2⟩ := ihb h.2
    simp only [CExpr.cells, CExpr.fids, List.mem_append]
    exact ⟨fun i hi => hi.elim (a1 i) (b1 i), fun f hf => hf.elim (a2 f) (b2 f)⟩
  | call fid a iha =>
    intro h
    simp only [closedE, Bool.and_eq_true, decide_eq_true_eq] at h
    obtain ⟨a1, a2⟩ := iha h.2
    simp only [CExpr.cells, CExpr.fids, List.mem_cons]
    exact ⟨a1, fun f hf => hf.elim (fun e => e ▸ h.1) (a2 f)⟩
  | callv i fid a iha =>
    intro h
    simp only [closedE, Bool.and_eq_true, decide_eq_true_eq] at h
    obtain ⟨a1, a2⟩ := iha h.2
    simp only [CExpr.cells, CExpr.fids, List.mem_cons]
    exact ⟨fun j hj => hj.elim (fun e => e ▸ h.1.1) (a1 j), a2⟩
  | mcall fid r a ihr iha =>
    intro h
    simp only [closedE, Bool.and_eq_true, decide_eq_true_eq] at h
    obtain ⟨r1, r2⟩ := ihr h.1.2
    obtain ⟨a1, a2⟩ := iha h.2
    simp only [CExpr.cells, CExpr.fids, List.mem_cons, List.mem_append]
    exact ⟨fun i hi => hi.elim (r1 i) (a1 i), fun f hf => hf.elim (fun e => e ▸ h.1.1) (fun hf => hf.elim (r2 f) (a2 f))⟩

theorem closedS_cells {nf nv : Nat} (s : CStmt) (h : closedS nf nv s = true) :
    (∀ i ∈ s.cells, i < nv) ∧ (∀ f ∈ s.fids, f < nf) := by
  cases s with
  | print t e => exact closedE_cells e h
  | eval e => exact closedE_cells e h
  | set i e =>
    simp only [closedS, Bool.and_eq_true, decide_eq_true_eq] at h
    obtain ⟨a1, a2⟩ := closedE_cells e h.2
    simp only [CStmt.cells, CStmt.fids, List.mem_cons]
    exact ⟨fun j hj => hj.elim (fun e => e ▸ h.1) (a1 j), a2⟩

theorem closedB_cells {nf nv : Nat} (b : CBody) (h : closedB nf nv b = true) :
    (∀ i ∈ b.cells, i < nv) ∧ (∀ f ∈ b.fids, f < nf) := by
  unfold closedB at h
  simp only [Bool.and_eq_true, List.all_eq_true] at h
  obtain ⟨⟨hg, hs⟩, hr⟩ := h
  obtain ⟨r1, r2⟩ := closedE_cells b.ret hr
  have hG : (∀ i ∈ (match b.guard with | some g => g.cells | none => []), i < nv) ∧
      (∀ f ∈ (match b.guard with | some g => g.fids | none => []), f < nf) := by
    cases hgd : b.guard with
    | none => simp
    | some g => simp only [hgd] at hg ⊢; exact closedE_cells g hg
  unfold CBody.cells CBody.fids
  simp only [List.mem_append, List.mem_flatMap]
  constructor
  · intro i hi
    rcases hi with (hi | ⟨s, hs', hi⟩) | hi
    · exact hG.1 i hi
    · exact (closedS_cells s (hs s hs')).1 i hi
    · exact r1 i hi
  · intro f hf
    rcases hf with (hf | ⟨s, hs', hf⟩) | hf
    · exact hG.2 f hf
    · exact (closedS_cells s (hs s hs')).2 f hf
    · exact r2 f hf

/-! ### the functions reachable from closed code are those of the prefix it was compiled against -/

/-- the first `n` function nodes of the store only mention each other and cells below `nv` -/
def prefixClosed (cs : List CBody) (n nv : Nat) : Prop :=
  ∀ f, f < n → ∀ b, cs[f]? = some b → closedB n nv b = true

theorem reachF_below (cs : List CBody) (n nv : Nat) (hp : prefixClosed cs n nv) : ∀ (fuel : Nat) (todo seen : List Nat),
    (∀ f ∈ todo, f < n) → (∀ f ∈ seen, f < n) → ∀ f ∈ reachF cs fuel todo seen, f < n := by
  intro fuel
  induction fuel with
  | zero => intro todo seen _ hs f hf; exact hs f (by simpa [reachF] using hf)
  | succ k ih =>
    intro todo seen ht hs
    cases todo with
    | nil => intro f hf; exact hs f (by simpa [reachF] using hf)
    | cons g todo =>
      simp only [reachF]
      have hg : g < n := ht g (List.mem_cons_self ..)
      have ht' : ∀ f ∈ todo, f < n := fun f hf => ht f (List.mem_cons_of_mem _ hf)
      split
      · exact ih todo seen ht' hs
      · apply ih
        · intro f hf
          rcases List.mem_append.mp hf with hf | hf
          · cases hb : cs[g]? with
            | none => simp [hb] at hf
            | some b =>
              simp only [hb, Option.map_some, Option.getD_some] at hf
              exact (closedB_cells b (hp g hg b hb)).2 f hf
          · exact ht' f hf
        · intro f hf
          rcases List.mem_cons.mp hf with rfl | hf
          · exact hg
          · exact hs f hf

/-- **what closed code depends on lies below its bound** -/
theorem depsOf_below (cs : List CBody) (n nv : Nat) (hp : prefixClosed cs n nv) (cells fids : List Nat)
    (hc : ∀ i ∈ cells, i < nv) (hf : ∀ f ∈ fids, f < n) : ∀ j ∈ depsOf cs cells fids, j < nv := by
  intro j hj
  unfold depsOf at hj
  rcases List.mem_append.mp hj with hj | hj
  · exact hc j hj
  · obtain ⟨f, hfr, hjf⟩ := List.mem_flatMap.mp hj
    have hfn := reachF_below cs n nv hp _ fids [] hf (by simp) f hfr
    cases hb : cs[f]? with
    | none => simp [hb] at hjf
    | some b =>
      simp only [hb, Option.map_some, Option.getD_some] at hjf
      exact (closedB_cells b (hp f hfn b hb)).1 j hjf

/-! ### a name that is not mentioned does not matter -/

/-- the two scopes agree on every name but `x`, and on all methods -/
def AgreeBut (x : Name) (T T' : Tab) : Prop :=
  (∀ y, y ≠ x → lookup y T'.syms = lookup y T.syms) ∧ T'.meths = T.meths

theorem resolveE_skip {x : Name} {T T' : Tab} (h : AgreeBut x T T') : ∀ (e : SExpr), e.names.contains x = false →
    resolveE T' e = resolveE T e := by
  intro e
  induction e with
  | num _ => intro _; rfl
  | arg => intro _; rfl
  | recv => intro _; rfl
  | glob y =>
    intro hn
    simp only [SExpr.names, List.contains_cons, List.contains_nil, Bool.or_false, beq_eq_false_iff_ne, ne_eq] at hn
    simp only [resolveE, h.1 y (fun e => hn e.symm)]
  | bin _ a b iha ihb =>
    intro hn
    simp only [SExpr.names, List.contains_eq_mem, List.mem_append, decide_eq_false_iff_not, not_or] at hn
    simp only [resolveE, iha (by simpa using hn.1), ihb (by simpa using hn.2)]
  | call f a iha =>
    intro hn
    simp only [SExpr.names, List.contains_eq_mem, List.mem_cons, decide_eq_false_iff_not, not_or] at hn
    simp only [resolveE, h.1 f (fun e => hn.1 e.symm), iha (by simpa using hn.2)]
  | callv y a iha =>
    intro hn
    simp only [SExpr.names, List.contains_eq_mem, List.mem_cons, decide_eq_false_iff_not, not_or] at hn
    simp only [resolveE, h.1 y (fun e => hn.1 e.symm), iha (by simpa using hn.2)]
  | mcall t m r a ihr iha =>
    intro hn
    simp only [SExpr.names, List.contains_eq_mem, List.mem_cons, List.mem_append, decide_eq_false_iff_not, not_or] at hn
    simp only [resolveE, h.1 t (fun e => hn.1 e.symm), h.2, ihr (by simpa using hn.2.1), iha (by simpa using hn.2.2)]

theorem resolveS_skip {x : Name} {T T' : Tab} (h : AgreeBut x T T') : ∀ (s : SStmt), s.names.contains x = false →
    resolveS T' s = resolveS T s := by
  intro s
  induction s with
  | print t e => intro hn; simp only [resolveS, resolveE_skip h e hn]
  | eval e => intro hn; simp only [resolveS, resolveE_skip h e hn]
  | set y e =>
    intro hn
    simp only [SStmt.names, List.contains_eq_mem, List.mem_cons, decide_eq_false_iff_not, not_or] at hn
    simp only [resolveS, h.1 y (fun e => hn.1 e.symm), resolveE_skip h e (by simpa using hn.2)]
  | lit s ih =>
    intro hn
    simp only [resolveS]
    exact ih hn

theorem resolveSs_skip {x : Name} {T T' : Tab} (h : AgreeBut x T T') : ∀ (ss : List SStmt),
    (ss.flatMap SStmt.names).contains x = false → resolveSs T' ss = resolveSs T ss := by
  intro ss
  induction ss with
  | nil => intro _; rfl
  | cons s ss ih =>
    intro hn
    simp only [List.flatMap_cons, List.contains_eq_mem, List.mem_append, decide_eq_false_iff_not, not_or] at hn
    simp only [resolveSs, resolveS_skip h s (by simpa using hn.1), ih (by simpa using hn.2)]

theorem resolveB_skip {x : Name} {T T' : Tab} (h : AgreeBut x T T') (b : SBody) (hn : b.names.contains x = false) :
    resolveB T' b = resolveB T b := by
  unfold SBody.names at hn
  simp only [List.contains_eq_mem, List.mem_append, decide_eq_false_iff_not, not_or] at hn
  obtain ⟨⟨hg, hs⟩, hr⟩ := hn
  have eg : resolveG T' b.guard = resolveG T b.guard := by
    cases hgd : b.guard with
    | none => rfl
    | some g =>
      simp only [hgd] at hg
      simp only [resolveG, resolveE_skip h g (by simpa using hg)]
  unfold resolveB
  rw [eg, resolveSs_skip h b.stmts (by simpa using hs), resolveE_skip h b.ret (by simpa using hr)]

/-! ### under definition-before-use an initialiser depends only on earlier cells -/

theorem filterMap_deps_append (cs : List CBody) (a b : List (Nat × Act)) :
    (a ++ b).filterMap (fun q => q.2.deps cs) = a.filterMap (fun q => q.2.deps cs) ++ b.filterMap (fun q => q.2.deps cs) :=
  List.filterMap_append ..

/-- every step of a chunk under definition-before-use that initialises a cell depends only on
    cells allocated before it — in the final code store, whatever is compiled after it -/
theorem deps_below (fx : Facts) (ha : fx.allocAtEnd = true) (st : Nat) (items : List Item) :
    ∀ (p : Tab × Nat) (cs0 : List CBody) (T : Tab) (r : List CBody × List (Nat × Act)) (extra : List CBody),
    cs0.length = p.2 → TabBelow p.2 p.1.nvars p.1 → codeClosed cs0 p.1.nvars →
    scopedOk fx st p items = true → Ext (regItems fx st p items).1 T → compileItems T p.2 items = some r →
    ∀ q ∈ r.2.filterMap (fun a => a.2.deps (cs0 ++ r.1 ++ extra)), ∀ j ∈ q.2, j < q.1 := by
  induction items with
  | nil =>
    intro p cs0 T r extra _ _ _ _ _ hr
    simp only [compileItems, Option.some.injEq] at hr
    subst hr
    simp
  | cons it rest ih =>
    intro p cs0 T r extra hlen hbelow hcl hsc hx hr
    simp only [scopedOk_cons, Bool.and_eq_true] at hsc
    obtain ⟨⟨⟨hfresh, hns⟩, hc⟩, hrest⟩ := hsc
    rw [regItems_cons] at hx
    have hext : Ext (regItem fx st p it).1 (regItems fx st (regItem fx st p it) rest).1 := regItems_ext fx st rest _ hrest
    obtain ⟨r1, hr1⟩ := Option.isSome_iff_exists.mp hc
    have hr1T : compileItem T p.2 it = some r1 := compileItem_mono (Ext.trans hext hx) p.2 it r1 hr1
    rw [compileItems_cons, hr1T] at hr
    cases hr2 : compileItems T (if it.hasBody then p.2 + 1 else p.2) rest with
    | none => simp [hr2] at hr
    | some r2 =>
      simp only [hr2, Option.some.injEq] at hr
      subst hr
      -- the state after the item
      have hsnd := regItem_snd fx st p it
      have hbelow' := regItem_below fx ha st p it hbelow
      have hnv' := regItem_nvars_le fx st p it
      have hc1len := compileItem_code_length _ p.2 it r1 hr1
      have hlen' : (cs0 ++ r1.1).length = (regItem fx st p it).2 := by
        rw [List.length_append, hc1len, hsnd, hlen]; split <;> rfl
      have hclosed1 := compileItem_closed hbelow' p.2 it (by intro hb; rw [hsnd, if_pos hb]; omega) r1 hr1
      have hcl' : codeClosed (cs0 ++ r1.1) (regItem fx st p it).1.nvars := by
        intro b hb
        rw [hlen']
        rcases List.mem_append.mp hb with hb | hb
        · exact closedB_mono (by rw [hsnd, ← hlen]; split <;> omega) hnv' b (hcl b hb)
        · exact hclosed1.1 b hb
      have hr2' : compileItems T (regItem fx st p it).2 rest = some r2 := by rw [hsnd]; exact hr2
      have ih2 := ih (regItem fx st p it) (cs0 ++ r1.1) T r2 extra hlen' hbelow' hcl' hrest hx hr2'
      intro q hq
      simp only at hq
      rw [filterMap_deps_append] at hq
      rcases List.mem_append.mp hq with hq | hq
      · -- the item itself
        -- the prefix of the final store: `cs0`, closed below the cells allocated so far
        have hpre : ∀ (extra' : List CBody), prefixClosed (cs0 ++ extra') p.2 p.1.nvars := by
          intro extra' f hf b hb
          rw [List.getElem?_append_left (by omega)] at hb
          have := hcl b (List.mem_of_getElem? hb)
          rw [hlen] at this
          exact this
        have hagree : ∀ (x : Name) (v : Sym), AgreeBut x p.1 { p.1 with syms := (x, v) :: p.1.syms, nvars := p.1.nvars + 1 } :=
          fun x v => ⟨fun y hy => by simp only [lookup_cons]; rw [if_neg (fun e => hy e.symm)], rfl⟩
        cases it with
        | const x e last =>
          simp only [compileItem] at hr1
          split at hr1 <;> simp at hr1
          subst hr1; simp at hq
        | type t => simp only [compileItem, Option.some.injEq] at hr1; subst hr1; simp at hq
        | func f b =>
          simp only [compileItem, Option.map_eq_some_iff] at hr1
          obtain ⟨b', _, rfl⟩ := hr1; simp at hq
        | method t m b =>
          simp only [compileItem] at hr1
          split at hr1 <;> simp at hr1
          subst hr1; simp at hq
        | init b =>
          simp only [compileItem, Option.map_eq_some_iff] at hr1
          obtain ⟨b', _, rfl⟩ := hr1; simp [Act.deps] at hq
        | stmt s =>
          simp only [compileItem, Option.map_eq_some_iff] at hr1
          obtain ⟨s', _, rfl⟩ := hr1; simp [Act.deps] at hq
        | var x e =>
          simp only [noSelf, Bool.not_eq_true'] at hns
          have hT1 : (regItem fx st p (.var x e)).1 = { p.1 with syms := (x, .var p.1.nvars) :: p.1.syms, nvars := p.1.nvars + 1 } := by
            simp [regItem, allocIdx, ha]
          rw [hT1] at hr1
          simp only [compileItem, lookup_cons, if_true, resolveE_skip (hagree x _) e hns] at hr1
          cases he : resolveE p.1 e with
          | none => simp [he] at hr1
          | some e' =>
            simp only [he, Option.some.injEq] at hr1
            subst hr1
            simp only [List.filterMap_cons, Act.deps, List.filterMap_nil, List.mem_singleton] at hq
            subst hq
            have hce := closedE_cells e' (resolveE_closed hbelow e e' he)
            rw [List.append_assoc]
            exact depsOf_below _ p.2 p.1.nvars (hpre _) _ _ hce.1 hce.2
        | define x e =>
          simp only [noSelf, Bool.not_eq_true'] at hns
          have hT1 : (regItem fx st p (.define x e)).1 = { p.1 with syms := (x, .var p.1.nvars) :: p.1.syms, nvars := p.1.nvars + 1 } := by
            simp [regItem, allocIdx, ha]
          rw [hT1] at hr1
          simp only [compileItem, lookup_cons, if_true, resolveE_skip (hagree x _) e hns] at hr1
          cases he : resolveE p.1 e with
          | none => simp [he] at hr1
          | some e' =>
            simp only [he, Option.some.injEq] at hr1
            subst hr1
            simp only [List.filterMap_cons, Act.deps, List.filterMap_nil, List.mem_singleton] at hq
            subst hq
            have hce := closedE_cells e' (resolveE_closed hbelow e e' he)
            rw [List.append_assoc]
            exact depsOf_below _ p.2 p.1.nvars (hpre _) _ _ hce.1 hce.2
        | closure x b =>
          simp only [noSelf, Bool.not_eq_true'] at hns
          have hT1 : (regItem fx st p (.closure x b)).1 = { p.1 with syms := (x, .fvar p.1.nvars p.2) :: p.1.syms, nvars := p.1.nvars + 1 } := by
            simp [regItem, allocIdx, ha]
          rw [hT1] at hr1
          simp only [compileItem, lookup_cons, if_true, resolveB_skip (hagree x _) b hns] at hr1
          cases hb : resolveB p.1 b with
          | none => simp [hb] at hr1
          | some b' =>
            simp only [hb, Option.some.injEq] at hr1
            subst hr1
            simp only [List.filterMap_cons, Act.deps, List.filterMap_nil, List.mem_singleton] at hq
            subst hq
            have hcb : closedB p.2 p.1.nvars b' := resolveB_closed hbelow b b' hb
            -- the prefix now includes the literal's own node
            have hpre1 : prefixClosed (cs0 ++ ([b'] ++ r2.1) ++ extra) (p.2 + 1) p.1.nvars := by
              intro f hf c hc'
              by_cases hlt : f < p.2
              · rw [List.append_assoc, List.getElem?_append_left (by omega)] at hc'
                have := hcl c (List.mem_of_getElem? hc')
                rw [hlen] at this
                exact closedB_mono (Nat.le_succ _) (Nat.le_refl _) c this
              · have hfe : f = cs0.length := by omega
                subst hfe
                simp only [List.append_assoc, List.getElem?_append_right (Nat.le_refl _), Nat.sub_self, List.cons_append,
                  List.nil_append, List.getElem?_cons_zero, Option.some.injEq] at hc'
                subst hc'
                exact closedB_mono (Nat.le_succ _) (Nat.le_refl _) _ hcb
            exact depsOf_below _ (p.2 + 1) p.1.nvars hpre1 [] [p.2] (by simp) (by simp)
      · -- the items after it
        have := ih2 q (by simpa [List.append_assoc] using hq)
        exact this

end YaegiVerif.Proofs.C11
