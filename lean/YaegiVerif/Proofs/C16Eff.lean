import YaegiVerif.Proofs.C16Path
/-
  C16 — what the loop of effectivePkg computes: the elements of the import path that follow the last
  occurrence (the final position excepted) of the root's final element, provided the root has at least
  two elements; the whole path otherwise.
-/
namespace YaegiVerif.Src

/-- the test of the loop while nothing has matched yet (rootIndex = 0) -/
def effMatch (sr : List String) (part : String) : Bool :=
  decide (sr.length - 1 > 0) && sr[sr.length - 1]? == some part

/-- after the first match nothing is collected any more -/
theorem effLoop_drop (sr : List String) (parts : List String) (i ri pri : Nat) (res : List String)
    (h : pri < ri) : effLoop sr parts i ri pri res = res := by
  induction parts generalizing i ri pri with
  | nil => simp [effLoop]
  | cons part rest ih =>
    unfold effLoop
    simp only
    split
    · exact ih _ _ _ (Nat.lt_succ_self ri)
    · have : (pri == ri) = false := by simp; omega
      simp only [this, Bool.false_eq_true, if_false]
      exact ih _ _ _ h

/-- collect from the end until an element matches -/
def collectRev (m : String → Bool) : List String → List String → List String
  | [], acc => acc
  | part :: rest, acc => if m part then acc else collectRev m rest (part :: acc)

theorem effLoop_collect (sr : List String) (parts : List String) (i : Nat) (res : List String) (hi : i ≠ 0) :
    effLoop sr parts i 0 0 res = collectRev (effMatch sr) parts res := by
  induction parts generalizing i res with
  | nil => simp [effLoop, collectRev]
  | cons part rest ih =>
    unfold effLoop collectRev
    simp only [Nat.sub_zero]
    by_cases hm : effMatch sr part = true
    · have h1 : (decide (sr.length - 1 > 0) && sr[sr.length - 1]? == some part && i != 0) = true := by
        unfold effMatch at hm; simp [hm, hi]
      simp only [h1, if_true, hm]
      exact effLoop_drop sr rest _ _ _ res (by omega)
    · have h1 : (decide (sr.length - 1 > 0) && sr[sr.length - 1]? == some part && i != 0) = false := by
        unfold effMatch at hm; simp only [Bool.not_eq_true] at hm; simp [hm]
      simp only [h1, Bool.false_eq_true, if_false, BEq.rfl, if_true, hm]
      exact ih (i + 1) (part :: res) (by omega)

/-- the final element of the path is always kept -/
theorem effLoop_start (sr : List String) (x : String) (rest : List String) :
    effLoop sr (x :: rest) 0 0 0 [] = collectRev (effMatch sr) rest [x] := by
  unfold effLoop
  simp only [Nat.sub_zero, bne_self_eq_false, Bool.and_false, Bool.false_eq_true, if_false, BEq.rfl, if_true]
  exact effLoop_collect sr rest 1 [x] (by omega)

/-- characterisation of `collectRev`: the result is the longest suffix `mid ++ acc` of the scanned
    list whose `mid` part holds no matching element; what precedes it ends with a matching element -/
theorem collectRev_char (m : String → Bool) (parts acc : List String) :
    ∃ pre mid, parts.reverse = pre ++ mid ∧ collectRev m parts acc = mid ++ acc ∧
      (∀ e ∈ mid, m e = false) ∧ (pre = [] ∨ ∃ pre' e, pre = pre' ++ [e] ∧ m e = true) := by
  induction parts generalizing acc with
  | nil => exact ⟨[], [], by simp [collectRev]⟩
  | cons part rest ih =>
    unfold collectRev
    by_cases hm : m part = true
    · refine ⟨rest.reverse ++ [part], [], by simp, by simp [hm], by simp, Or.inr ⟨rest.reverse, part, rfl, hm⟩⟩
    · simp only [Bool.not_eq_true] at hm
      obtain ⟨pre, mid, h1, h2, h3, h4⟩ := ih (part :: acc)
      refine ⟨pre, mid ++ [part], ?_, ?_, ?_, h4⟩
      · simp [h1]
      · simp [hm, h2]
      · intro e he
        simp only [List.mem_append, List.mem_singleton] at he
        rcases he with he | rfl
        · exact h3 e he
        · exact hm

/-- no match at all: everything is kept -/
theorem collectRev_all (m : String → Bool) (parts acc : List String) (h : ∀ e ∈ parts, m e = false) :
    collectRev m parts acc = parts.reverse ++ acc := by
  induction parts generalizing acc with
  | nil => simp [collectRev]
  | cons part rest ih =>
    unfold collectRev
    have hp : m part = false := h part (by simp)
    simp only [hp, Bool.false_eq_true, if_false]
    rw [ih _ (fun e he => h e (by simp [he]))]
    simp

/-! ### the fragment and the final Join -/

theorem fragOf_norm_aux (res : List String) (acc : List String) (h : NormRel res = true) (ha : NormRel acc = true) :
    res.foldl (fun f e => join [f, [e]]) (pathOf acc) = pathOf (acc ++ res) := by
  induction res generalizing acc with
  | nil => simp
  | cons e r ih =>
    simp only [NormRel, List.all_cons, Bool.and_eq_true] at h
    simp only [List.foldl_cons]
    have hj : join [pathOf acc, [e]] = pathOf (acc ++ [e]) := by
      have hf : flat [pathOf acc, [e]] = acc ++ [e] := by
        rw [flat_cons_pathOf acc _ ha, flat_cons_elem e [] h.1, flat_nil]
      have hn : NormRel (acc ++ [e]) = true := by
        rw [normRel_append, ha]; simp [NormRel, h.1]
      have hg : goodPath (acc ++ [e]) = true := by
        cases hacc : acc with
        | nil =>
          have := flat_cons_elem e [] h.1
          simp only [List.nil_append]
          have he : e ≠ "" := by
            have := h.1; simp only [normElem, Bool.and_eq_true, bne_iff_ne, ne_eq] at this; exact this.1.1
          unfold goodPath
          split
          · rename_i heq; simp at heq; exact absurd heq.1 he
          · simp [NormRel, h.1]
        | cons a b =>
          rw [hacc] at hn ha
          have hane := normRel_head_ne a b ha
          show goodPath (a :: (b ++ [e])) = true
          unfold goodPath
          split
          · rename_i heq; simp at heq; exact absurd heq.1 hane
          · simpa using hn
      rw [join_good _ (by rw [hf]; exact hg), hf]
      simp [pathOf]
    rw [hj, ih (acc ++ [e]) (by simpa [NormRel] using h.2) (by rw [normRel_append, ha]; simp [NormRel, h.1])]
    simp

theorem fragOf_norm (res : List String) (h : NormRel res = true) : fragOf res = pathOf res := by
  have := fragOf_norm_aux res [] h rfl
  simpa [fragOf, pathOf, emptyS] using this


/-- with the empty root (GOPATH/src itself) effectivePkg is the import path -/
theorem effectivePkg_empty_root (P : List String) (hP : NormRel P = true) (hne : P ≠ []) :
    effectivePkg emptyS P = P := by
  obtain ⟨ini, x, rfl⟩ : ∃ ini x, P = ini ++ [x] := ⟨P.dropLast, P.getLast hne, (List.dropLast_concat_getLast hne).symm⟩
  unfold effectivePkg
  have hrev : (ini ++ [x]).reverse = x :: ini.reverse := by simp
  rw [hrev, effLoop_start, collectRev_all]
  · simp only [List.reverse_reverse]
    rw [fragOf_norm _ hP]
    have := join_pathOf2 [] (ini ++ [x]) rfl hP
    simpa [pathOf, emptyS] using this
  · intro e _; simp [effMatch, emptyS]

end YaegiVerif.Src
