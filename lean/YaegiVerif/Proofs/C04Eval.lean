import YaegiVerif.Model.Share
import YaegiVerif.Spec.GoValue
import YaegiVerif.Proofs.C04Store
import YaegiVerif.Model.ShareDom
/-
  C04 — the slot left behind by an expression node holds, when read later, the value the specification
  computes at evaluation time: evaluation only allocates, and allocation does not disturb existing cells.
-/
set_option linter.unusedSimpArgs false
namespace YaegiVerif.Share

/-- st' extends st: same bindings and output, more cells -/
def Ext (st st' : St) : Prop := st'.env = st.env ∧ st'.out = st.out ∧ ∃ extra, st'.cells = st.cells ++ extra

theorem Ext.refl (st : St) : Ext st st := ⟨rfl, rfl, [], by simp⟩

theorem Ext.trans {a b c : St} (h1 : Ext a b) (h2 : Ext b c) : Ext a c := by
  obtain ⟨e1, o1, x1, c1⟩ := h1
  obtain ⟨e2, o2, x2, c2⟩ := h2
  exact ⟨e2.trans e1, o2.trans o1, x1 ++ x2, by rw [c2, c1, List.append_assoc]⟩

theorem Ext.alloc (st : St) (v : Val) : Ext st (st.alloc v).2 := ⟨rfl, rfl, [v], rfl⟩

theorem Ext.read {st st' : St} (h : Ext st st') (l : Loc) (v : Val) (hr : st.read l = .ok v) : st'.read l = .ok v := by
  obtain ⟨_, _, extra, hc⟩ := h
  unfold St.read at hr ⊢
  cases hrl : readLoc st.cells l with
  | none => simp [hrl] at hr
  | some w =>
    simp only [hrl] at hr
    rw [hc, readLoc_append _ _ _ _ hrl]
    exact hr

theorem Ext.var {st st' : St} (h : Ext st st') (x : Name) : st'.var x = st.var x := by
  unfold St.var; rw [h.1]

theorem Ext.slot {st st' : St} (h : Ext st st') (s : Slot) (v : Val) (hs : slotVal st s = .ok v) :
    slotVal st' s = .ok v := by
  cases s with
  | handle l => exact h.read l v hs
  | temp w => exact hs
  | varslot x =>
    simp only [slotVal, bind, Except.bind] at hs ⊢
    rw [h.var x]
    cases hv : st.var x with
    | error e => simp [hv] at hs
    | ok l =>
      simp only [hv] at hs ⊢
      exact h.read l v hs

/-- the slot is the own slot of variable y -/
def isVarSlot (y : Name) : Slot → Bool
  | .varslot x => y == x
  | _ => false

def isHandle : Slot → Bool
  | .handle _ => true
  | _ => false

/-- value of an expression node when read right after evaluation -/
def evalValY (st : St) (r : RExp) : Except Err (Val × St) := do
  let (s, st1) ← evalSlot st r
  let v ← slotVal st1 s
  .ok (v, st1)

theorem except_bind_ok {ε α β} (x : Except ε α) (f : α → Except ε β) (b : β) (h : (x >>= f) = .ok b) :
    ∃ a, x = .ok a ∧ f a = .ok b := by
  cases x with
  | error e => simp [bind, Except.bind] at h
  | ok a => exact ⟨a, rfl, h⟩

/-- the mechanism's value of an expression is the specification's, and evaluation only allocates -/
theorem evalSlot_spec (r : RExp) : ∀ (st : St),
    (∀ s st1, evalSlot st r = .ok (s, st1) → Ext st st1 ∧ ((∀ y, isVarSlot y s = isLoadOf y r) ∧ isHandle s = isHandleLoad r) ∧
      ∃ v, slotVal st1 s = .ok v ∧ Spec.evalR st r = .ok (v, st1)) ∧
    (∀ e, evalSlot st r = .error e → Spec.evalR st r = .error e) := by
  induction r with
  | lit v => intro st; simp [evalSlot, Spec.evalR, slotVal, Ext.refl, isVarSlot, isLoadOf, isHandle, isHandleLoad, isVarL]
  | load l =>
    intro st
    cases l with
    | var x =>
      simp only [evalSlot, Spec.evalR, resolve, bind, Except.bind]
      cases hv : st.var x with
      | error e => simp [*]
      | ok loc =>
        cases hr : st.read loc with
        | error e => simp [*]
        | ok v => simp [slotVal, bind, Except.bind, hv, hr, Ext.refl, isVarSlot, isLoadOf, isHandle, isHandleLoad, isVarL]
    | field l i =>
      simp only [evalSlot, Spec.evalR, bind, Except.bind]
      cases hv : resolve st (.field l i) with
      | error e => simp [*]
      | ok loc =>
        cases hr : st.read loc with
        | error e => simp [*]
        | ok v => simp [slotVal, hr, Ext.refl, isVarSlot, isLoadOf, isHandle, isHandleLoad, isVarL]
    | index l i =>
      simp only [evalSlot, Spec.evalR, bind, Except.bind]
      cases hv : resolve st (.index l i) with
      | error e => simp [*]
      | ok loc =>
        cases hr : st.read loc with
        | error e => simp [*]
        | ok v => simp [slotVal, hr, Ext.refl, isVarSlot, isLoadOf, isHandle, isHandleLoad, isVarL]
    | deref l =>
      simp only [evalSlot, Spec.evalR, bind, Except.bind]
      cases hv : resolve st (.deref l) with
      | error e => simp [*]
      | ok loc =>
        cases hr : st.read loc with
        | error e => simp [*]
        | ok v => simp [slotVal, hr, Ext.refl, isVarSlot, isLoadOf, isHandle, isHandleLoad, isVarL]
  | add a k ih =>
    intro st
    obtain ⟨ihok, iherr⟩ := ih st
    simp only [evalSlot, Spec.evalR, bind, Except.bind]
    cases he : evalSlot st a with
    | error e => simp [iherr e he]
    | ok p =>
      obtain ⟨s, st1⟩ := p
      obtain ⟨hext, _, v, hsv, hspec⟩ := ihok s st1 he
      simp only [hsv, hspec]
      cases v <;> simp [slotVal, hext, isVarSlot, isLoadOf, isHandle, isHandleLoad, isVarL]
  | addr l =>
    intro st
    simp only [evalSlot, Spec.evalR, bind, Except.bind]
    cases hv : resolve st l with
    | error e => simp [*]
    | ok loc => simp [*, slotVal, Ext.refl, isVarSlot, isLoadOf, isHandle, isHandleLoad, isVarL]
  | mkslice elems =>
    intro st
    simp only [evalSlot, Spec.evalR, allocSlice, slotVal]
    refine ⟨?_, by simp⟩
    intro s st1 h
    simp only [Except.ok.injEq, Prod.mk.injEq] at h
    obtain ⟨h1, h2⟩ := h
    subst h1; subst h2
    exact ⟨Ext.alloc st _, ⟨by intro y; simp [isVarSlot, isLoadOf], by simp [isHandle, isHandleLoad]⟩, _, rfl, rfl⟩
  | make zero len cap =>
    intro st
    simp only [evalSlot, Spec.evalR, slotVal]
    refine ⟨?_, by simp⟩
    intro s st1 h
    simp only [Except.ok.injEq, Prod.mk.injEq] at h
    obtain ⟨h1, h2⟩ := h
    subst h1; subst h2
    exact ⟨Ext.alloc st _, ⟨by intro y; simp [isVarSlot, isLoadOf], by simp [isHandle, isHandleLoad]⟩, _, rfl, rfl⟩
  | mkmap entries =>
    intro st
    simp only [evalSlot, Spec.evalR, slotVal]
    refine ⟨?_, by simp⟩
    intro s st1 h
    simp only [Except.ok.injEq, Prod.mk.injEq] at h
    obtain ⟨h1, h2⟩ := h
    subst h1; subst h2
    exact ⟨Ext.alloc st _, ⟨by intro y; simp [isVarSlot, isLoadOf], by simp [isHandle, isHandleLoad]⟩, _, rfl, rfl⟩
  | new v =>
    intro st
    simp only [evalSlot, Spec.evalR, slotVal]
    refine ⟨?_, by simp⟩
    intro s st1 h
    simp only [Except.ok.injEq, Prod.mk.injEq] at h
    obtain ⟨h1, h2⟩ := h
    subst h1; subst h2
    exact ⟨Ext.alloc st _, ⟨by intro y; simp [isVarSlot, isLoadOf], by simp [isHandle, isHandleLoad]⟩, _, rfl, rfl⟩
  | slice l lo hi max =>
    intro st
    simp only [evalSlot, Spec.evalR, bind, Except.bind]
    cases hv : resolve st l with
    | error e => simp [*]
    | ok loc =>
      cases hr : st.read loc with
      | error e => simp [*]
      | ok v =>
        cases hs : sliceOf st loc v lo hi max with
        | error e => simp [*]
        | ok w => simp [*, slotVal, Ext.refl, isVarSlot, isLoadOf, isHandle, isHandleLoad, isVarL]
  | lookup m k zero =>
    intro st
    simp only [evalSlot, Spec.evalR, bind, Except.bind]
    cases hv : resolve st m with
    | error e => simp [*]
    | ok loc =>
      cases hr : st.read loc with
      | error e => simp [*]
      | ok v =>
        cases hk : keyVal st k with
        | error e => simp [*]
        | ok key =>
          cases hl : mapLookup st v key with
          | error e => simp [*]
          | ok w => simp [*, slotVal, Ext.refl, isVarSlot, isLoadOf, isHandle, isHandleLoad, isVarL]
  | len l =>
    intro st
    simp only [evalSlot, Spec.evalR, bind, Except.bind]
    cases hv : resolve st l with
    | error e => simp [*]
    | ok loc =>
      cases hr : st.read loc with
      | error e => simp [*]
      | ok v =>
        cases v with
        | arr vs => simp [*, slotVal, Ext.refl, isVarSlot, isLoadOf, isHandle, isHandleLoad, isVarL]
        | map ref =>
          simp only [hr]
          cases hc : st.read ⟨ref, []⟩ with
          | error e => simp [*]
          | ok c => simp [*, slotVal, Ext.refl, isVarSlot, isLoadOf, isHandle, isHandleLoad, isVarL]
        | nil => simp [*, slotVal, Ext.refl, isVarSlot, isLoadOf, isHandle, isHandleLoad, isVarL]
        | int n => simp [*, sliceLen]
        | str vs => simp [*, sliceLen]
        | ptr p => simp [*, sliceLen]
        | slice b off len cap => simp [*, sliceLen, slotVal, Ext.refl, isVarSlot, isLoadOf, isHandle, isHandleLoad, isVarL]
        | nilslice => simp [*, sliceLen, slotVal, Ext.refl, isVarSlot, isLoadOf, isHandle, isHandleLoad, isVarL]
  | cap l =>
    intro st
    simp only [evalSlot, Spec.evalR, bind, Except.bind]
    cases hv : resolve st l with
    | error e => simp [*]
    | ok loc =>
      cases hr : st.read loc with
      | error e => simp [*]
      | ok v =>
        cases v with
        | arr vs => simp [*, slotVal, Ext.refl, isVarSlot, isLoadOf, isHandle, isHandleLoad, isVarL]
        | map ref => simp [*, sliceCap]
        | nil => simp [*, sliceCap]
        | int n => simp [*, sliceCap]
        | str vs => simp [*, sliceCap]
        | ptr p => simp [*, sliceCap]
        | slice b off len cap => simp [*, sliceCap, slotVal, Ext.refl, isVarSlot, isLoadOf, isHandle, isHandleLoad, isVarL]
        | nilslice => simp [*, sliceCap, slotVal, Ext.refl, isVarSlot, isLoadOf, isHandle, isHandleLoad, isVarL]
  | idcall a ih =>
    intro st
    obtain ⟨ihok, iherr⟩ := ih st
    simp only [evalSlot, Spec.evalR, bind, Except.bind]
    cases he : evalSlot st a with
    | error e => simp [iherr e he]
    | ok p =>
      obtain ⟨s, st1⟩ := p
      obtain ⟨hext, _, v, hsv, hspec⟩ := ihok s st1 he
      simp only [hsv, hspec]
      simp [slotVal, hext, isVarSlot, isLoadOf, isHandle, isHandleLoad, isVarL]

/-- read right after evaluation, the mechanism's value IS the specification's -/
theorem evalValY_eq (st : St) (r : RExp) : evalValY st r = Spec.evalR st r := by
  obtain ⟨hok, herr⟩ := evalSlot_spec r st
  unfold evalValY
  simp only [bind, Except.bind]
  cases he : evalSlot st r with
  | error e => simp [herr e he]
  | ok p =>
    obtain ⟨s, st1⟩ := p
    obtain ⟨_, _, v, hsv, hspec⟩ := hok s st1 he
    simp [hsv, hspec]

theorem evalR_ext (st st1 : St) (r : RExp) (v : Val) (h : Spec.evalR st r = .ok (v, st1)) : Ext st st1 := by
  obtain ⟨hok, herr⟩ := evalSlot_spec r st
  cases he : evalSlot st r with
  | error e => rw [herr e he] at h; cases h
  | ok p =>
    obtain ⟨s, st1'⟩ := p
    obtain ⟨hext, _, v', _, hspec⟩ := hok s st1' he
    rw [hspec] at h
    simp only [Except.ok.injEq, Prod.mk.injEq] at h
    rw [← h.2]; exact hext

end YaegiVerif.Share
