import YaegiVerif.Model.Method
import YaegiVerif.Model.MethodRun
import YaegiVerif.Model.MethodClass
import YaegiVerif.Spec.GoSelector
/-
  C05 — helper lemmas on clause order (`firstClause`, `firstInOrder`, `clauseOrderY`), on the
  clause test for struct and pointer types, and on the static check of a call.
-/
namespace YaegiVerif.Proofs.C05
open YaegiVerif.Method YaegiVerif.MethodRun YaegiVerif.MethodClass YaegiVerif.Spec.Selector

theorem firstClause_spec (mt : α → Bool) : ∀ (cs : List (List α)) (k i : Nat), firstClause mt cs k = some i →
    k ≤ i ∧ clauseMatches mt cs (i - k) = true ∧ ∀ j, j < i - k → clauseMatches mt cs j = false := by
  intro cs
  induction cs with
  | nil => intro k i h; simp [firstClause] at h
  | cons c cs ih =>
    intro k i h
    unfold firstClause at h
    by_cases hc : c.any mt = true
    · simp only [hc, if_true, Option.some.injEq] at h
      subst h
      refine ⟨Nat.le_refl _, ?_, ?_⟩
      · simp [clauseMatches, hc]
      · intro j hj; omega
    · simp only [hc] at h
      obtain ⟨hle, hm, hall⟩ := ih (k + 1) i h
      refine ⟨by omega, ?_, ?_⟩
      · have : i - k = (i - (k + 1)) + 1 := by omega
        rw [this]
        simpa [clauseMatches] using hm
      · intro j hj
        cases j with
        | zero => simpa [clauseMatches] using hc
        | succ j' =>
          have := hall j' (by omega)
          simpa [clauseMatches] using this

theorem firstClause_none (mt : α → Bool) : ∀ (cs : List (List α)) (k : Nat), firstClause mt cs k = none →
    ∀ j, j < cs.length → clauseMatches mt cs j = false := by
  intro cs
  induction cs with
  | nil => intro k _ j hj; simp at hj
  | cons c cs ih =>
    intro k h j hj
    unfold firstClause at h
    by_cases hc : c.any mt = true
    · simp [hc] at h
    · simp only [hc] at h
      cases j with
      | zero => simpa [clauseMatches] using hc
      | succ j' =>
        have := ih (k + 1) h j' (by simp at hj; omega)
        simpa [clauseMatches] using this

theorem firstInOrder_range (mt : α → Bool) (cs : List (List α)) : ∀ (n k : Nat), k + n = cs.length →
    firstInOrder mt cs (List.range' k n) = firstClause mt (cs.drop k) k := by
  intro n
  induction n with
  | zero =>
    intro k hk
    have : cs.drop k = [] := List.drop_eq_nil_of_le (by omega)
    simp [List.range', firstInOrder, this, firstClause]
  | succ n ih =>
    intro k hk
    have hlt : k < cs.length := by omega
    rw [List.range'_succ]
    unfold firstInOrder
    rw [List.drop_eq_getElem_cons hlt]
    unfold firstClause
    have hg : cs.getD k [] = cs[k] := by simp [List.getD, hlt]
    rw [hg]
    by_cases hc : cs[k].any mt = true
    · simp [hc]
    · simp only [hc]
      exact ih (k + 1) (by omega)

theorem clauseOrder_source (swap : Bool) (cs : List (List α)) (h : defaultLast cs = true) (hs : swap = true) :
    clauseOrderY swap cs = List.range cs.length := by
  unfold clauseOrderY
  unfold defaultLast at h
  cases hd : defaultClause cs 0 with
  | none => rfl
  | some i =>
    simp only [hd, beq_iff_eq] at h
    simp only [hs, if_true]
    apply List.ext_getElem
    · simp
    · intro n h1 h2
      simp only [List.getElem_map, List.getElem_range]
      by_cases hni : n = i
      · subst hni; simp; omega
      · by_cases hnl : n = cs.length - 1
        · have : n = i := by omega
          exact absurd this hni
        · simp [hni, hnl]

theorem any_congr_mem (m1 m2 : α → Bool) : ∀ (c : List α), (∀ ty ∈ c, m1 ty = m2 ty) → c.any m1 = c.any m2 := by
  intro c
  induction c with
  | nil => intro _; rfl
  | cons a as ih =>
    intro h
    simp only [List.any_cons]
    rw [h a (by simp), ih (fun ty ht => h ty (by simp [ht]))]

theorem firstInOrder_congr (m1 m2 : α → Bool) (cs : List (List α)) (h : ∀ c ∈ cs, ∀ ty ∈ c, m1 ty = m2 ty) :
    ∀ (order : List Nat), firstInOrder m1 cs order = firstInOrder m2 cs order := by
  intro order
  induction order with
  | nil => rfl
  | cons k ks ih =>
    unfold firstInOrder
    have : (cs.getD k []).any m1 = (cs.getD k []).any m2 := by
      by_cases hk : k < cs.length
      · have hg : cs.getD k [] = cs[k] := by simp [List.getD, hk]
        rw [hg]
        exact any_congr_mem m1 m2 _ (h cs[k] (List.getElem_mem hk))
      · have hg : cs.getD k [] = [] := by simp [List.getD, List.getElem?_eq_none (by omega : cs.length ≤ k)]
        rw [hg]; rfl
    rw [this, ih]

/-- **`matchCase` (since 9f81224) on a clause type without methods** — a struct type, a pointer to
    one, `nil`, `interface{}` — is the specification's test, whatever the static type of the operand
    (empty or not), the representation of the value (wrapped or stored raw) and the form of the clause -/
theorem matchCase_plain (F : Facts) (hC : F.caseUsesMatchCase = true) (D : Decls) (ts b : Bool) (dyn : Option Dyn)
    (ty : TyRef) (h : plainTy D ty = true) :
    matchCaseY F D ts b dyn ty = matchG D (dynT dyn) ty := by
  unfold matchCaseY
  rw [hC]
  simp only [if_true]
  cases ty with
  | ptr t =>
    cases dyn with
    | none => simp [matchCaseNewY, matchG, dynT]
    | some d =>
      simp only [matchCaseNewY, matchG, dynT, Option.map_some]
      rw [Bool.eq_iff_iff]
      simp [DynT.mk.injEq]
  | named t =>
    have hi : isIfaceT D t = false := by simpa [plainTy, concreteTy] using h
    cases dyn with
    | none => simp [matchCaseNewY, matchG, dynT, hi]
    | some d =>
      simp only [matchCaseNewY, matchG, dynT, Option.map_some, hi]
      rw [Bool.eq_iff_iff]
      simp [DynT.mk.injEq]
  | anon ms => simp [plainTy, concreteTy] at h
  | nil => cases dyn <;> simp [matchCaseNewY, matchG, dynT]
  | empty => cases dyn <;> simp [matchCaseNewY, matchG, dynT]

/-- without the swap the pre-order pass leaves the clause list in source order -/
theorem clauseOrder_noswap (cs : List (List α)) : clauseOrderY false cs = List.range cs.length := by
  unfold clauseOrderY
  cases defaultClause cs 0 <;> simp

/-- testing the clauses in source order: the first matching clause -/
theorem firstInOrder_source (mt : α → Bool) (cs : List (List α)) :
    firstInOrder mt cs (List.range cs.length) = firstClause mt cs 0 := by
  rw [List.range_eq_range', firstInOrder_range mt cs cs.length 0 (by simp)]; simp

theorem selLegal_agree (F : Facts) (D : Decls) (t : Nat) (m : String) (hsel : selectY F D t m = select D t m) :
    selLegal .yaegi F D t true m = selLegal .go F D t true m := by
  unfold selLegal sel
  simp only [hsel]
  split <;> simp

end YaegiVerif.Proofs.C05
