import YaegiVerif.Model.Method
import YaegiVerif.Spec.GoSelector
import YaegiVerif.Proofs.C05Lookup
/-
  C05 — on well-formed declaration sets (every struct-typed field refers to an earlier
  declaration) the fuel `D.length` is sufficient: more fuel does not change the enumerations.
-/
namespace YaegiVerif.Proofs.C05
open YaegiVerif.Method YaegiVerif.Spec.Selector

theorem wfFrom_get (D : Decls) : ∀ (ds : List TDecl) (k : Nat), wfFrom D ds k = true →
    ∀ (j : Nat) (h : j < ds.length), wfDecl D (k + j) ds[j] = true := by
  intro ds
  induction ds with
  | nil => intro k _ j h; simp at h
  | cons d ds ih =>
    intro k hw j h
    unfold wfFrom at hw
    simp only [Bool.and_eq_true] at hw
    cases j with
    | zero => simpa using hw.1
    | succ j' =>
      have := ih (k + 1) hw.2 j' (by simp at h; omega)
      simpa [Nat.add_assoc, Nat.add_comm 1 j'] using this

/-- struct-typed fields of a well-formed set point to earlier declarations -/
theorem wf_field_lt (D : Decls) (hwf : WF D) (t : Nat) (f : Field) (hf : f ∈ fieldsOf D t)
    (hs : f.isStruct = true) : f.typ < t := by
  unfold fieldsOf at hf
  cases hg : D[t]? with
  | none => simp [hg] at hf
  | some d =>
    cases d with
    | iface n ms es => simp [hg] at hf
    | strct n fs ms =>
      simp [hg] at hf
      obtain ⟨hlt, hget⟩ := List.getElem?_eq_some_iff.mp hg
      have := wfFrom_get D D 0 hwf t hlt
      rw [hget] at this
      simp only [Nat.zero_add, wfDecl, Bool.and_eq_true, List.all_eq_true] at this
      have h1 := this.1.1.1 f hf
      simp only [hs, Bool.not_true, Bool.false_or, Bool.and_eq_true, decide_eq_true_eq] at h1
      exact h1.1

theorem allVia_congr {α : Type} (pred : Field → Bool) (g1 g2 : Nat → List α) (push : Nat → α → α) :
    ∀ (fs : List Field) (i : Nat), (∀ f ∈ fs, pred f = true → g1 f.typ = g2 f.typ) →
      allVia pred g1 push fs i = allVia pred g2 push fs i := by
  intro fs
  induction fs with
  | nil => intro i _; rfl
  | cons f fs ih =>
    intro i h
    unfold allVia
    rw [ih (i + 1) (fun f' hf' hp => h f' (by simp [hf']) hp)]
    by_cases hp : pred f = true
    · simp only [hp, if_true]; rw [h f (by simp) hp]
    · simp [hp]

theorem isEmb_isStruct (f : Field) (h : f.isEmb = true) : f.isStruct = true := by
  unfold Field.isEmb at h
  unfold Field.isStruct
  simp only [Bool.or_eq_true] at *
  rcases h with h | h
  · exact Or.inl (Or.inl h)
  · exact Or.inl (Or.inr h)

/-- on a well-formed set, any two fuels above the declaration index give the same enumeration -/
theorem moccF_fuel (D : Decls) (hwf : WF D) (m : String) : ∀ (t a b : Nat), t < a → t < b →
    moccF D a t m = moccF D b t m := by
  intro t
  induction t using Nat.strongRecOn with
  | _ t ih =>
    intro a b ha hb
    cases a with
    | zero => omega
    | succ a' =>
      cases b with
      | zero => omega
      | succ b' =>
        unfold moccF
        congr 1
        apply allVia_congr
        intro f hf hp
        have hlt := wf_field_lt D hwf t f hf (isEmb_isStruct f hp)
        exact ih f.typ hlt a' b' (by omega) (by omega)

theorem foccF_fuel (D : Decls) (hwf : WF D) (x : String) : ∀ (t a b : Nat), t < a → t < b →
    foccF D a t x = foccF D b t x := by
  intro t
  induction t using Nat.strongRecOn with
  | _ t ih =>
    intro a b ha hb
    cases a with
    | zero => omega
    | succ a' =>
      cases b with
      | zero => omega
      | succ b' =>
        unfold foccF
        congr 1
        apply allVia_congr
        intro f hf hp
        have hlt := wf_field_lt D hwf t f hf (isEmb_isStruct f hp)
        exact ih f.typ hlt a' b' (by omega) (by omega)

end YaegiVerif.Proofs.C05
