import YaegiVerif.Model.Piecewise
/-
  C11, helper lemmas 1: the interpreter of compiled code is insensitive to code appended after the
  code it can reach and to cells appended after the cells it can address.
-/
namespace YaegiVerif.Proofs.C11
open YaegiVerif.Piecewise

/-! ### closed code: function identities below `nf`, frame indices below `nv` -/

def closedE (nf nv : Nat) : CExpr → Bool
  | .num _ | .arg | .recv => true
  | .glob i => decide (i < nv)
  | .bin _ a b => closedE nf nv a && closedE nf nv b
  | .call fid a => decide (fid < nf) && closedE nf nv a
  | .callv i fid a => decide (i < nv) && decide (fid < nf) && closedE nf nv a
  | .mcall fid r a => decide (fid < nf) && closedE nf nv r && closedE nf nv a

def closedS (nf nv : Nat) : CStmt → Bool
  | .print _ e => closedE nf nv e
  | .set i e => decide (i < nv) && closedE nf nv e
  | .eval e => closedE nf nv e

def closedB (nf nv : Nat) (b : CBody) : Bool :=
  (match b.guard with | some g => closedE nf nv g | none => true) && b.stmts.all (closedS nf nv) && closedE nf nv b.ret

def closedT (nf nv : Nat) : Task → Bool
  | .expr _ _ e => closedE nf nv e
  | .stmts _ _ ss => ss.all (closedS nf nv)
  | .call fid _ _ => decide (fid < nf)

def closedA (nf nv : Nat) : Act → Bool
  | .init i e => decide (i < nv) && closedE nf nv e
  | .mkfn i fid => decide (i < nv) && decide (fid < nf)
  | .stmt s => closedS nf nv s
  | .callfn fid => decide (fid < nf)

theorem closedE_mono {nf nv nf' nv' : Nat} (h1 : nf ≤ nf') (h2 : nv ≤ nv') :
    ∀ e, closedE nf nv e = true → closedE nf' nv' e = true := by
  intro e
  induction e with
  | num _ => simp [closedE]
  | arg => simp [closedE]
  | recv => simp [closedE]
  | glob i => simp [closedE]; omega
  | bin _ a b iha ihb => simp only [closedE, Bool.and_eq_true]; exact fun ⟨x, y⟩ => ⟨iha x, ihb y⟩
  | call fid a iha => simp only [closedE, Bool.and_eq_true, decide_eq_true_eq]; exact fun ⟨x, y⟩ => ⟨by omega, iha y⟩
  | callv i fid a iha =>
    simp only [closedE, Bool.and_eq_true, decide_eq_true_eq]; exact fun ⟨⟨x, y⟩, z⟩ => ⟨⟨by omega, by omega⟩, iha z⟩
  | mcall fid r a ihr iha =>
    simp only [closedE, Bool.and_eq_true, decide_eq_true_eq]; exact fun ⟨⟨x, y⟩, z⟩ => ⟨⟨by omega, ihr y⟩, iha z⟩

theorem closedS_mono {nf nv nf' nv' : Nat} (h1 : nf ≤ nf') (h2 : nv ≤ nv') :
    ∀ s, closedS nf nv s = true → closedS nf' nv' s = true := by
  intro s
  cases s with
  | print t e => exact closedE_mono h1 h2 e
  | set i e =>
    simp only [closedS, Bool.and_eq_true, decide_eq_true_eq]
    exact fun ⟨x, y⟩ => ⟨by omega, closedE_mono h1 h2 e y⟩
  | eval e => exact closedE_mono h1 h2 e

theorem closedB_mono {nf nv nf' nv' : Nat} (h1 : nf ≤ nf') (h2 : nv ≤ nv') (b : CBody)
    (h : closedB nf nv b = true) : closedB nf' nv' b = true := by
  unfold closedB at *
  simp only [Bool.and_eq_true, List.all_eq_true] at *
  obtain ⟨⟨hg, hs⟩, hr⟩ := h
  refine ⟨⟨?_, fun s hs' => closedS_mono h1 h2 s (hs s hs')⟩, closedE_mono h1 h2 _ hr⟩
  cases hgd : b.guard with
  | none => simp
  | some g => simp only [hgd] at hg ⊢; exact closedE_mono h1 h2 g hg

theorem closedA_mono {nf nv nf' nv' : Nat} (h1 : nf ≤ nf') (h2 : nv ≤ nv') (a : Act)
    (h : closedA nf nv a = true) : closedA nf' nv' a = true := by
  cases a with
  | init i e =>
    simp only [closedA, Bool.and_eq_true, decide_eq_true_eq] at *
    exact ⟨by omega, closedE_mono h1 h2 e h.2⟩
  | mkfn i fid => simp only [closedA, Bool.and_eq_true, decide_eq_true_eq] at *; omega
  | stmt s => exact closedS_mono h1 h2 s h
  | callfn fid => simp only [closedA, decide_eq_true_eq] at *; omega

/-! ### extension of the run-time state by cells the code cannot address -/

def RState.ext (r : RState) (z : List Int) : RState := { r with cells := r.cells ++ z }

@[simp] theorem ext_halt (r : RState) (z) : (RState.ext r z).halt = r.halt := rfl
@[simp] theorem ext_out (r : RState) (z) : (RState.ext r z).out = r.out := rfl
@[simp] theorem ext_cells (r : RState) (z) : (RState.ext r z).cells = r.cells ++ z := rfl

theorem stop_ext (r : RState) (z) (h : Halt) : (RState.ext r z).stop h = RState.ext (r.stop h) z := by
  unfold RState.stop RState.ext
  cases h : r.halt <;> simp [h]

theorem emit_ext (r : RState) (z) (t : Nat) (v : Int) : (RState.ext r z).emit t v = RState.ext (r.emit t v) z := by
  unfold RState.emit RState.ext
  cases h : r.halt <;> simp [h]

theorem store_ext (r : RState) (z) (i : Nat) (v : Int) (hi : i < r.cells.length) :
    (RState.ext r z).store i v = RState.ext (r.store i v) z := by
  unfold RState.store RState.ext
  cases h : r.halt <;> simp [h, List.set_append_left _ _ hi]

theorem getD_ext (r : RState) (z) (i : Nat) (hi : i < r.cells.length) :
    (RState.ext r z).cells.getD i 0 = r.cells.getD i 0 := by
  simp [RState.ext, List.getD_eq_getElem?_getD, List.getElem?_append_left hi]

@[simp] theorem stop_len (r : RState) (h : Halt) : (r.stop h).cells.length = r.cells.length := by
  unfold RState.stop; cases r.halt <;> simp
@[simp] theorem emit_len (r : RState) (t : Nat) (v : Int) : (r.emit t v).cells.length = r.cells.length := by
  unfold RState.emit; cases r.halt <;> simp
@[simp] theorem store_len (r : RState) (i : Nat) (v : Int) : (r.store i v).cells.length = r.cells.length := by
  unfold RState.store; cases r.halt <;> simp

/-- the code store is closed: every function node only mentions nodes of the store and cells below `nv` -/
def codeClosed (cs : List CBody) (nv : Nat) : Prop := ∀ b ∈ cs, closedB cs.length nv b = true

/-- running never changes the size of the frame -/
theorem run_len (cs : List CBody) : ∀ (fuel : Nat) (t : Task) (r : RState),
    (run cs fuel t r).2.cells.length = r.cells.length := by
  intro fuel
  induction fuel with
  | zero => intro t r; simp [run]
  | succ n ih =>
    intro t r
    cases t with
    | expr a v e =>
      cases e with
      | num k => simp [run]
      | arg => simp [run]
      | recv => simp [run]
      | glob i => simp [run]
      | bin op x y => simp [run, ih]
      | call fid x => simp [run, ih]
      | callv i fid x =>
        simp only [run]
        split <;> simp [ih]
      | mcall fid rc x => simp [run, ih]
    | stmts a v ss =>
      cases ss with
      | nil => simp [run]
      | cons s ss =>
        cases s <;> simp [run, ih]
    | call fid a v =>
      simp only [run]
      split
      · rfl
      · split
        · simp
        · split
          · split <;> simp [ih]
          · simp [ih]

/-- **the interpreter cannot see appended code or appended cells**: for closed code in a closed
    store, running in the store extended by `extra` and in the frame extended by `z` is running in
    the original ones, with `z` carried along untouched. -/
theorem run_ext (cs extra : List CBody) (nv : Nat) (z : List Int) (hcs : codeClosed cs nv) :
    ∀ (fuel : Nat) (t : Task) (r : RState), r.cells.length = nv → closedT cs.length nv t = true →
      run (cs ++ extra) fuel t (RState.ext r z) = ((run cs fuel t r).1, RState.ext (run cs fuel t r).2 z) := by
  intro fuel
  induction fuel with
  | zero => intro t r _ _; simp [run, stop_ext]
  | succ n ih =>
    intro t r hr ht
    have hlen : ∀ t' r', (run cs n t' r').2.cells.length = r'.cells.length := run_len cs n
    cases t with
    | expr a v e =>
      cases e with
      | num k => simp [run]
      | arg => simp [run]
      | recv => simp [run]
      | glob i =>
        simp only [closedT, closedE, decide_eq_true_eq] at ht
        have := getD_ext r z i (by omega)
        simp only [run, this]
      | bin op x y =>
        simp only [closedT, closedE, Bool.and_eq_true] at ht
        have h1 := ih (.expr a v x) r hr (by simpa [closedT] using ht.1)
        have h2 := ih (.expr a v y) (run cs n (.expr a v x) r).2 (by rw [hlen]; exact hr) (by simpa [closedT] using ht.2)
        simp only [run, h1, h2]
      | call fid x =>
        simp only [closedT, closedE, Bool.and_eq_true] at ht
        have h1 := ih (.expr a v x) r hr (by simpa [closedT] using ht.2)
        have h2 := ih (.call fid (run cs n (.expr a v x) r).1 0) (run cs n (.expr a v x) r).2 (by rw [hlen]; exact hr)
          (by simpa [closedT] using ht.1)
        simp only [run, h1, h2]
      | callv i fid x =>
        simp only [closedT, closedE, Bool.and_eq_true, decide_eq_true_eq] at ht
        have h1 := ih (.expr a v x) r hr (by simpa [closedT] using ht.2)
        have hl := hlen (.expr a v x) r
        have h2 := ih (.call fid (run cs n (.expr a v x) r).1 0) (run cs n (.expr a v x) r).2 (by rw [hlen]; exact hr)
          (by simpa [closedT] using ht.1.2)
        simp only [run, h1, getD_ext _ z i (by omega : i < (run cs n (.expr a v x) r).2.cells.length)]
        split
        · simp [stop_ext]
        · exact h2
      | mcall fid rc x =>
        simp only [closedT, closedE, Bool.and_eq_true] at ht
        have h1 := ih (.expr a v rc) r hr (by simpa [closedT] using ht.1.2)
        have h2 := ih (.expr a v x) (run cs n (.expr a v rc) r).2 (by rw [hlen]; exact hr) (by simpa [closedT] using ht.2)
        have h3 := ih (.call fid (run cs n (.expr a v x) (run cs n (.expr a v rc) r).2).1 (run cs n (.expr a v rc) r).1)
          (run cs n (.expr a v x) (run cs n (.expr a v rc) r).2).2 (by rw [hlen, hlen]; exact hr)
          (by simpa [closedT] using ht.1.1)
        simp only [run, h1, h2, h3]
    | stmts a v ss =>
      cases ss with
      | nil => simp [run]
      | cons s ss =>
        simp only [closedT, List.all_cons, Bool.and_eq_true] at ht
        cases s with
        | print tag e =>
          have h1 := ih (.expr a v e) r hr (by simpa [closedT, closedS] using ht.1)
          have h2 := ih (.stmts a v ss) ((run cs n (.expr a v e) r).2.emit tag (run cs n (.expr a v e) r).1)
            (by rw [emit_len, hlen]; exact hr) (by simpa [closedT] using ht.2)
          simp only [run, h1, emit_ext, h2]
        | set i e =>
          simp only [closedS, Bool.and_eq_true, decide_eq_true_eq] at ht
          have h1 := ih (.expr a v e) r hr (by simpa [closedT] using ht.1.2)
          have hl := hlen (.expr a v e) r
          have h2 := ih (.stmts a v ss) ((run cs n (.expr a v e) r).2.store i (run cs n (.expr a v e) r).1)
            (by rw [store_len, hlen]; exact hr) (by simpa [closedT] using ht.2)
          simp only [run, h1, store_ext _ z i _ (by omega : i < (run cs n (.expr a v e) r).2.cells.length), h2]
        | eval e =>
          have h1 := ih (.expr a v e) r hr (by simpa [closedT, closedS] using ht.1)
          have h2 := ih (.stmts a v ss) (run cs n (.expr a v e) r).2 (by rw [hlen]; exact hr) (by simpa [closedT] using ht.2)
          simp only [run, h1, h2]
    | call fid a v =>
      simp only [closedT, decide_eq_true_eq] at ht
      simp only [run, ext_halt]
      cases hh : r.halt with
      | some h => simp
      | none =>
        simp only [List.getElem?_append_left ht]
        have hb : cs[fid]? = some cs[fid] := List.getElem?_eq_getElem ht
        rw [hb]
        have hcb := hcs cs[fid] (List.getElem_mem ht)
        unfold closedB at hcb
        simp only [Bool.and_eq_true] at hcb
        obtain ⟨⟨hg, hss⟩, hrt⟩ := hcb
        have hS := ih (.stmts a v cs[fid].stmts) r hr (by simpa [closedT] using hss)
        have hR := ih (.expr a v cs[fid].ret) (run cs n (.stmts a v cs[fid].stmts) r).2 (by rw [hlen]; exact hr)
          (by simpa [closedT] using hrt)
        cases hgd : cs[fid].guard with
        | none => simp only [hgd, hS, hR]
        | some g =>
          simp only [hgd] at hg
          have hG := ih (.expr a v g) r hr (by simpa [closedT] using hg)
          simp only [hgd]
          split
          · exact hG
          · simp only [hS, hR]

theorem exec_len (cs : List CBody) (fuel : Nat) (r : RState) (a : Act) : (exec cs fuel r a).cells.length = r.cells.length := by
  cases a <;> simp [exec, run_len]

theorem execAll_len (cs : List CBody) (fuel : Nat) (acts : List Act) : ∀ r : RState,
    (execAll cs fuel r acts).cells.length = r.cells.length := by
  induction acts with
  | nil => intro r; rfl
  | cons a as ih => intro r; simp only [execAll, List.foldl_cons] at *; rw [ih, exec_len]

theorem exec_ext (cs extra : List CBody) (nv : Nat) (z : List Int) (hcs : codeClosed cs nv) (fuel : Nat)
    (r : RState) (hr : r.cells.length = nv) (a : Act) (ha : closedA cs.length nv a = true) :
    exec (cs ++ extra) fuel (RState.ext r z) a = RState.ext (exec cs fuel r a) z := by
  cases a with
  | init i e =>
    simp only [closedA, Bool.and_eq_true, decide_eq_true_eq] at ha
    have h1 := run_ext cs extra nv z hcs fuel (.expr 0 0 e) r hr (by simpa [closedT] using ha.2)
    have hl := run_len cs fuel (.expr 0 0 e) r
    simp only [exec, h1, store_ext _ z i _ (by omega : i < (run cs fuel (.expr 0 0 e) r).2.cells.length)]
  | mkfn i fid =>
    simp only [closedA, Bool.and_eq_true, decide_eq_true_eq] at ha
    simp only [exec, store_ext _ z i _ (by omega : i < r.cells.length)]
  | stmt s =>
    have h1 := run_ext cs extra nv z hcs fuel (.stmts 0 0 [s]) r hr (by simpa [closedT, closedA] using ha)
    simp only [exec, h1]
  | callfn fid =>
    have h1 := run_ext cs extra nv z hcs fuel (.call fid 0 0) r hr (by simpa [closedT, closedA] using ha)
    simp only [exec, h1]

theorem execAll_ext (cs extra : List CBody) (nv : Nat) (z : List Int) (hcs : codeClosed cs nv) (fuel : Nat)
    (acts : List Act) : ∀ (r : RState), r.cells.length = nv → (∀ a ∈ acts, closedA cs.length nv a = true) →
    execAll (cs ++ extra) fuel (RState.ext r z) acts = RState.ext (execAll cs fuel r acts) z := by
  induction acts with
  | nil => intro r _ _; rfl
  | cons a as ih =>
    intro r hr hc
    simp only [execAll, List.foldl_cons] at *
    rw [exec_ext cs extra nv z hcs fuel r hr a (hc a (List.mem_cons_self ..))]
    exact ih _ (by rw [exec_len]; exact hr) (fun b hb => hc b (List.mem_cons_of_mem _ hb))

theorem execAll_append (cs : List CBody) (fuel : Nat) (r : RState) (p q : List Act) :
    execAll cs fuel r (p ++ q) = execAll cs fuel (execAll cs fuel r p) q := by
  simp [execAll, List.foldl_append]

end YaegiVerif.Proofs.C11
