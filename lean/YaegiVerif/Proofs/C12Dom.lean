import YaegiVerif.Model.Typecheck
import YaegiVerif.Spec.GoTyping
/-
  C12 — the decidable domain of the typing theorems and its class labels.

  `domProg T p` walks the program exactly as `checkProg` does, with the Go rules supplying the operand
  types, and stops at the first check site where yaegi's rule (for the facts `T`) and the Go rule give
  different answers on the operands at hand; it returns the class of that site (`DR.lax c`). The
  class is computed from the syntactic form of the operands (`Sh`) and the context. `DR.ok` / `DR.stop`
  mean that no such site was met (the Go side accepted / rejected or abstained first).

  The per-class syntactic characterisations that are proved (which operand forms can never be such a
  site) are in Proofs/C12Rules.lean; the induction that turns site-wise agreement into agreement of the
  whole-program verdicts is here (`agree`).
-/
namespace YaegiVerif.Typecheck
open Spec

/-- classes of check sites on which the interpreter (HEAD 61b9210, after the fifth round of repairs) and the Go
    specification still differ. The classes of every repaired finding are gone (round 3: logical operands, send, nil /
    true / false as values, constants in returns / comparisons / indexes, zero divisors, non-indexable operands, calls
    without result, float division by zero, receive retyping; round 5: channel-direction comparison F12-11, nil operands
    and `true << x` F12-17, typed shift counts and zero-length arrays F12-18, calls in conversions F12-21, typed constants
    to complex F12-23; round 7: destination type propagated into operator nodes F12-4 (but for declarations of interface type), nil without typed operand F12-25): a site of one of those forms that differs is labelled `other` and is a violation -/
inductive Lax where
  | sameReflectType                 -- F12-5: distinct Go types with the same reflect.Type (defined type vs underlying, struct S0 vs S1, []N vs []int, …)
  | interfaceToConcrete             -- F12-6: an interface value used where a concrete type with (at least) its methods is required (itype.equals)
  | interfaceOperand                -- F12-6: an interface operand "equals" any type with its methods: arithmetic / comparison accepted
  | destinationTypePropagated       -- F12-4 (what is left): `var v I = a - a`: the arithmetic node takes the interface type of the declaration, no check
  | comparisonOperandOfLogical      -- F12-19: `(a < b) && c` with c of a defined boolean type has type bool (Go: the defined type)
  | untypedOperands                 -- not a finding: two untyped operands, an untyped integer constant shifted by a variable — neither side describes them
  | other
  deriving DecidableEq, Repr, Inhabited

def Lax.name : Lax → String
  | .sameReflectType => "same-reflect-type"
  | .interfaceToConcrete => "interface-to-concrete"
  | .interfaceOperand => "interface-operand"
  | .destinationTypePropagated => "destination-type-propagated"
  | .comparisonOperandOfLogical => "comparison-operand-of-logical"
  | .untypedOperands => "untyped-operands"
  | .other => "other"

/-! ### syntactic form of an operand -/

inductive Sh where
  | tv (t : Ty)                       -- typed, not a constant
  | tc (t : Ty) (v : Option Int)      -- typed constant `T(c)`
  | ub                                -- untyped boolean result of a comparison
  | uc (u : UKind) (c : CVal)         -- untyped numeric / string constant
  | bl (b : Bool)                     -- true / false
  | nil
  | bad
  deriving DecidableEq, Repr

def Opnd.sh (o : Opnd) : Sh :=
  match o.ty, o.rv with
  | .nil, .none => .nil
  | .nil, _ => .bad
  | .untyped .bool, .gobool b => .bl b
  | .untyped .int, .const (.int v) => .uc .int (.int v)
  | .untyped .rune, .const (.int v) => .uc .rune (.int v)
  | .untyped .float, .const (.float v f) => .uc .float (.float v f)
  | .untyped .string, .const .str => .uc .string .str
  | .untyped _, _ => .bad
  | .s (.basic .bool), .ubool => .ub
  | t, .none => .tv t
  | t, .typed v => .tc t v
  | _, _ => .bad

def sameReflect (t o : Ty) : Bool := t != o && t.rtype? == o.rtype?

def inBitLenGap (k : Kind) (v : Int) : Bool :=
  k.isSigned && k.bits < 64 && !inRange k v && decide (v.natAbs < 2 ^ k.bits)

def constGap (x : Opnd) (t : Ty) : Bool :=
  match x.rv, t with
  | .const (.int v), .s st => inBitLenGap st.under.kind v
  | .const (.float v false), .s st => inBitLenGap st.under.kind v
  | _, _ => false

/-- class of an assignment-like site (value `x` against type `t`): since 385eb77 / 03fb34b only typed operands differ -/
def classifyAssign (x : Opnd) (t : Ty) : Lax :=
  match x.sh with
  | .tv v | .tc v _ =>
    if v.isIface && !t.isIface then .interfaceToConcrete
    else if sameReflect v t then .sameReflectType
    else (match v, t with
      | .chan _ _, .chan _ _ => .sameReflectType
      | _, _ => .other)
  | _ => .other

def classifyPair (x y : Opnd) : Lax :=
  match x.sh, y.sh with
  | .uc _ _, .tv t | .uc _ _, .tc t _ => if t.isIface then .interfaceOperand else .other
  | .tv t, .uc _ _ | .tc t _, .uc _ _ => if t.isIface then .interfaceOperand else .other
  | .bl _, .tv t | .tv t, .bl _ => if t.isIface then .interfaceOperand else .other
  | .tv a, .tv b | .tv a, .tc b _ | .tc a _, .tv b | .tc a _, .tc b _ =>
    if a.isIface || b.isIface then .interfaceOperand
    else if sameReflect a b then .sameReflectType
    else (match a, b with
      | .chan _ _, .chan _ _ => .other
      | _, _ => .other)
  | .ub, _ | _, .ub => .untypedOperands
  | _, _ => .other

/-! ### site-wise comparison of the two rule sets -/

/-- outcome of the walk -/
inductive DR (α : Type) where
  | ok (a : α)
  | stop                 -- the Go side rejected or abstained (and the yaegi side did the same) before any differing site
  | lax (c : Lax)        -- first differing site
  deriving Repr, DecidableEq, Inhabited

def DR.bind {α β : Type} (r : DR α) (f : α → DR β) : DR β :=
  match r with
  | .ok a => f a
  | .stop => .stop
  | .lax c => .lax c

instance : Monad DR where
  pure := .ok
  bind := DR.bind

/-- compare the two answers at one site; continue with the Go answer -/
def site {α : Type} [DecidableEq α] (y g : Res α) (c : Lax) : DR α :=
  if y = g then
    match g with
    | .ok a => .ok a
    | _ => .stop
  else .lax c

def isZeroLit (y : Opnd) : Bool :=
  match y.rv with
  | .const (.int v) => v == 0
  | .const (.float v f) => v == 0 && !f
  | _ => false

def classifyBin (op : BinOp) (z : Option Ty) (x y : Opnd) : Lax :=
  match op with
  | .land | .lor =>
    (match x.sh, y.sh with
     | .ub, .tv _ | .tv _, .ub | .ub, .tc _ _ | .tc _ _, .ub => .comparisonOperandOfLogical
     | _, _ => classifyPair x y)
  | _ =>
    match x.sh, y.sh with
    | _, _ => let _ := z; classifyPair x y

def classifyShift (x y : Opnd) : Lax :=
  match x.sh, y.sh with
  | .uc _ _, _ => .untypedOperands
  | _, _ => .other

def classifyIndex (a i : Opnd) : Lax :=
  match a.ty with
  | .map k _ => classifyAssign i (.s k)
  | _ => .other

/-- conditions: the two sides agree on every operand (`cond_correct`, F11 and F12-17 repaired): no listed class -/
def classifyCond (_c : Opnd) : Lax := .other

/-- type assertions: the two sides agree on every operand (`assert_correct`): no listed class -/
def classifyAssert (_x : Opnd) : Lax := .other

def classifyConv (t : Ty) (x : Opnd) : Lax :=
  match x.sh with
  | .tv v => if v.isIface && !t.isIface then .interfaceToConcrete else .sameReflectType
  | _ => .other

def firstSome {α β : Type} (f : α → Option β) : List α → Option β
  | [] => none
  | a :: rest => match f a with
    | some b => some b
    | none => firstSome f rest

/-- class of an argument list: the first argument that, on its own, is treated differently -/
def classifyArgs (T : TcFacts) (params : List STy) (args : List Opnd) : Lax :=
  let rec go : List STy → List Opnd → Lax
    | p :: ps, a :: as =>
      if assignmentY T.ops a (.s p) = (if assignableG a (.s p) then Res.ok () else .err) then go ps as
      else classifyAssign a (.s p)
    | _, _ => .other
  go params args

def classifyRet (T : TcFacts) (results : List STy) (vals : List (Shape × Opnd)) : Lax :=
  let rec go : List STy → List (Shape × Opnd) → Lax
    | r :: rs, (sh, x) :: rest =>
      (match sh with
       | .unary | .arith .add | .arith .sub | .arith .mul | .arith .quo | .arith .and | .arith .or | .arith .xor | .arith .andnot =>
         if opResultY T x (.s r) = (if assignableG x (.s r) then Res.ok () else .err) then go rs rest else classifyAssign x (.s r)
       | _ =>
         if retValsY T [r] [(sh, x)] = (if assignableG x (.s r) then Res.ok () else .err)
         then go rs rest
         else classifyAssign x (.s r))
    | _, _ => .other
  go results vals

def classifyAssignStmt (sh : Shape) (t : Ty) (x : Opnd) : Lax :=
  match sh with
  | .plain | .arith .land | .arith .lor => classifyAssign x t
  | .arith _ => if t.isIface then .destinationTypePropagated else classifyAssign x t
  | _ => classifyAssign x t

/-- since 82e65a0 a send is an assignment of the value to the element type -/
def classifySend (c v : Opnd) : Lax :=
  match c.ty with
  | .chan _ t => classifyAssign v (.s t)
  | _ => .other

def classifyOpAssign (op : BinOp) (t : Ty) (x : Opnd) : Lax :=
  classifyBin op none ⟨t, .none⟩ x

mutual
  /-- the walk over an expression (same shape as `checkE`) -/
  def domE (T : TcFacts) (env : Env) (z : Option Ty) (cv : Bool) : Expr → DR Opnd
    | .var i => match env.vars[i]? with
      | some t => .ok ⟨t, .none⟩
      | none => .stop
    | .lit u v f => .ok (litOpnd u v f)
    | .nil => .ok ⟨.nil, .none⟩
    | .un op e => do
      let x ← domE T env (if op.propagates then z else none) false e
      site (unY T op x) (unG op x) .other
    | .recv e => do
      let x ← domE T env none false e
      site (recvY T x) (recvG x) .other
    | .bin op a b => do
      let zc := if op.propagates then z else none
      let x ← domE T env zc false a
      let y ← domE T env zc false b
      site (binY T op zc x y) (binG op zc x y) (classifyBin op zc x y)
    | .cmp op a b => do
      let x ← domE T env none false a
      let y ← domE T env none false b
      site (cmpY T op x y) (cmpG op x y) (classifyPair x y)
    | .shift op a b => do
      let x ← domE T env z false a
      let y ← domE T env z false b
      site (shiftY T op x y) (shiftG op x y) (classifyShift x y)
    | .call f args => match env.funcs[f]? with
      | none => .stop
      | some sg => do
        let xs ← domArgs T env args
        let _ ← site (callY T sg.params (xs.map (·.2))) (callG sg.params (xs.map (·.2))) (classifyArgs T sg.params (xs.map (·.2)))
        site (callValueY T cv sg.rets) (callValueG cv sg.rets) .other
    | .conv t e => do
      let x ← domE T env none true e
      site (convY T t x) (convG t x) (classifyConv t x)
    | .assert t e => do
      let x ← domE T env none false e
      site (assertY T t x) (assertG t x) (classifyAssert x)
    | .index a i => do
      let x ← domE T env none false a
      let y ← domE T env none false i
      site (indexY T x y) (indexG x y) (classifyIndex x y)
  def domArgs (T : TcFacts) (env : Env) : Args → DR (List (Shape × Opnd))
    | .nil => .ok []
    | .cons e rest => do
      let x ← domE T env none false e
      let xs ← domArgs T env rest
      .ok ((shapeOf e x, x) :: xs)
end

mutual
  def domS (T : TcFacts) (env : Env) : Stmt → DR (List Ty)
    | .decl t e => do
      let x ← domE T env (zoneOf t) false e
      let t' ← site (assignY T true (shapeOf e x) t x) (assignG true (shapeOf e x) t x) (classifyAssignStmt (shapeOf e x) t x)
      .ok (env.vars ++ [t'])
    | .declz t => .ok (env.vars ++ [t])
    | .define e => do
      let x ← domE T env none false e
      let t ← site (defineY T x) (defineG x) (classifyAssign x (defaultTypeY x.ty))
      .ok (env.vars ++ [t])
    | .defineOk t e => do
      let x ← domE T env none false e
      let y ← site (assertY T t x) (assertG t x) (classifyAssert x)
      .ok (env.vars ++ [y.ty, .s (.basic .bool)])
    | .assign i e => match env.vars[i]? with
      | none => .stop
      | some t => do
        let x ← domE T env (zoneOf t) false e
        let t' ← site (assignY T false (shapeOf e x) t x) (assignG false (shapeOf e x) t x) (classifyAssignStmt (shapeOf e x) t x)
        .ok (env.vars.set i t')
    | .opassign op i e => match env.vars[i]? with
      | none => .stop
      | some t => do
        let x ← domE T env (zoneOf t) false e
        let _ ← site (opassignY T op t x) (opassignG op t x) (classifyOpAssign op t x)
        .ok env.vars
    | .shassign op i e => match env.vars[i]? with
      | none => .stop
      | some t => do
        let x ← domE T env (zoneOf t) false e
        let _ ← site (shassignY T op t x) (shassignG op t x) (classifyShift ⟨t, .none⟩ x)
        .ok env.vars
    | .incdec i => match env.vars[i]? with
      | none => .stop
      | some t => do
        let _ ← site (incdecY T t) (incdecG t) .other
        .ok env.vars
    | .send c e => do
      let x ← domE T env none false c
      let y ← domE T env none false e
      let _ ← site (sendY T x y) (sendG x y) (classifySend x y)
      .ok env.vars
    | .callS f args => match env.funcs[f]? with
      | none => .stop
      | some sg => do
        let xs ← domArgs T env args
        let _ ← site (callY T sg.params (xs.map (·.2))) (callG sg.params (xs.map (·.2))) (classifyArgs T sg.params (xs.map (·.2)))
        .ok env.vars
    | .ifS c t e => do
      let x ← domE T env none false c
      let _ ← domB T env t
      let _ ← domB T env e
      let _ ← site (condY T x) (condG x) (classifyCond x)
      .ok env.vars
    | .forS c b => do
      let x ← domE T env none false c
      let _ ← domB T env b
      let _ ← site (condY T x) (condG x) (classifyCond x)
      .ok env.vars
    | .ret es => do
      let xs ← domArgs T env es
      let _ ← site (retY T env.rets xs) (retG env.rets xs) (classifyRet T env.rets xs)
      .ok env.vars
  def domB (T : TcFacts) (env : Env) : Block → DR Unit
    | .nil => .ok ()
    | .cons s rest => do
      let vs ← domS T env s
      domB T { env with vars := vs } rest
end

def domFns (T : TcFacts) (sigs : List Sig) : List Fn → DR Unit
  | [] => .ok ()
  | f :: rest => do
    domB T ⟨f.sig.params.map Ty.s, sigs, f.sig.rets⟩ f.body
    domFns T sigs rest

def domProg (T : TcFacts) (p : Prog) : DR Unit := do
  let sigs := p.funcs.map (·.sig)
  domFns T sigs p.funcs
  domB T ⟨[], sigs, []⟩ p.main

/-- the decidable domain: the walk meets no differing site -/
def Dom (T : TcFacts) (p : Prog) : Bool :=
  match domProg T p with
  | .lax _ => false
  | _ => true

def laxName (T : TcFacts) (p : Prog) : String :=
  match domProg T p with
  | .lax c => c.name
  | _ => "none"

end YaegiVerif.Typecheck
