import YaegiVerif.Proofs.C06Sim
/-
  C06 — Eval always returns: with the statement order read from the source (the frame lock is released
  around the deferred calls) no execution of the model, of ANY program, blocks on a frame lock.
-/
namespace YaegiVerif.Unwind
open YaegiVerif.Expected.C06 (facts)

/-- invoking a function never blocks -/
def NoHang (cf : CallFn) : Prop := ∀ code a anc w, w.hung = false → (cf code a anc w).2.2.2.hung = false

/-- invoking a function leaves the lock of the caller's frame as it was -/
def KeepsLock (cf : CallFn) : Prop := ∀ code a anc w, (cf code a anc w).2.1.locked = anc.locked

theorem finishY_out (r : Sig × Frame × World) : (finishY r).2.2 = r.2.2 := by
  obtain ⟨sig, self, w⟩ := r
  cases sig <;> rfl

theorem body_nohang (F : UnwindFacts) (cf : CallFn) (h : NoHang cf) :
    ∀ (code : Code) (a : Int) (anc self : Frame) (w : World), w.hung = false →
      (execBodyY F cf code a anc self w).2.2.2.hung = false := by
  intro code
  induction code with
  | done => intro a anc self w hw; exact hw
  | print s k ih => intro a anc self w hw; simp only [execBodyY]; exact ih _ _ _ _ hw
  | printArg k ih => intro a anc self w hw; simp only [execBodyY]; exact ih _ _ _ _ hw
  | call f x sh k _ ih =>
    intro a anc self w hw
    simp only [execBodyY]
    have hc := h f (evalArg x a self) self w hw
    generalize cf f (evalArg x a self) self w = r at hc ⊢
    obtain ⟨sig, s', rr, w'⟩ := r
    cases sig with
    | normal => cases sh <;> exact ih _ _ _ _ hc
    | panic v => exact hc
    | fuel => exact hc
  | defer f x k _ ih => intro a anc self w hw; simp only [execBodyY]; exact ih _ _ _ _ hw
  | deferVar f x k _ ih => intro a anc self w hw; simp only [execBodyY]; exact ih _ _ _ _ hw
  | deferBin s x k ih => intro a anc self w hw; simp only [execBodyY]; exact ih _ _ _ _ hw
  | deferDel t k ih => intro a anc self w hw; simp only [execBodyY]; exact ih _ _ _ _ hw
  | deferBinSpread s ns k ih => intro a anc self w hw; simp only [execBodyY]; exact ih _ _ _ _ hw
  | deferPanic v k ih =>
    intro a anc self w hw
    simp only [execBodyY]
    cases F.panicDeferrable
    · exact hw
    · simp only [if_true]; exact ih _ _ _ _ hw
  | probe t k ih => intro a anc self w hw; simp only [execBodyY]; exact ih _ _ _ _ hw
  | panic v k _ => intro a anc self w hw; exact hw
  | recover sh k ih => intro a anc self w hw; simp only [execBodyY]; cases sh <;> exact ih _ _ _ _ hw
  | recoverIs v k ih => intro a anc self w hw; simp only [execBodyY]; exact ih _ _ _ _ hw
  | repanic k ih =>
    intro a anc self w hw
    simp only [execBodyY]
    split
    · exact hw
    · exact ih _ _ _ _ hw
  | setRes n k ih => intro a anc self w hw; simp only [execBodyY]; exact ih _ _ _ _ hw
  | setOuter n k ih => intro a anc self w hw; simp only [execBodyY]; exact ih _ _ _ _ hw

/-- the deferred calls of a frame never block, locked or not: nothing in the loop takes a frame lock (the wrapper of
    a held literal does not lock the defining frame any more — `closureLocksDefiner = false`) -/
theorem entries_nohang (cf : CallFn) (h : NoHang cf) :
    ∀ (es : List Entry) (self : Frame) (w : World), w.hung = false →
      (runEntriesY facts cf es self w).2.2.hung = false := by
  intro es
  induction es with
  | nil => intro self w hw; exact hw
  | cons e es ih =>
    intro self w hw
    obtain ⟨callee, arg⟩ := e
    cases callee with
    | bin s => simp only [runEntriesY]; exact ih self _ hw
    | del t => simp only [runEntriesY]; exact ih self _ hw
    | bins s ns sp => simp only [runEntriesY]; exact ih self _ hw
    | pan v => simp only [runEntriesY, facts_deferredProtected, if_true]; exact ih _ _ hw
    | src c =>
      simp only [runEntriesY, facts_deferredProtected, if_true]
      have hc := h c (arg.get self.res) self w hw
      generalize cf c (arg.get self.res) self w = r at hc ⊢
      obtain ⟨sig, s', rr, w'⟩ := r
      simp only at hc
      cases sig with
      | normal => exact ih s' w' hc
      | panic q => exact ih _ w' hc
      | fuel => exact hc
    | held c =>
      simp only [runEntriesY, facts_deferredProtected, facts_closureLocksDefiner, if_true, Bool.false_and,
        Bool.false_eq_true, if_false]
      have hc := h c (arg.get self.res) (heldAnc facts self) w hw
      generalize cf c (arg.get self.res) (heldAnc facts self) w = r at hc ⊢
      obtain ⟨sig, s', rr, w'⟩ := r
      simp only at hc
      cases sig with
      | normal => exact ih _ w' hc
      | panic q => exact ih _ w' hc
      | fuel => exact hc

/-- the same for the statement order of runCfg's deferred function alone (frame lock released around the loop),
    whatever the wrapper of a held literal does: either repair of F06-2 is enough -/
theorem entries_nohang_unlocked (F : UnwindFacts) (cf : CallFn) (h : NoHang cf) (hk : KeepsLock cf) :
    ∀ (es : List Entry) (self : Frame) (w : World), self.locked = false → w.hung = false →
      (runEntriesY F cf es self w).2.2.hung = false := by
  intro es
  induction es with
  | nil => intro self w _ hw; exact hw
  | cons e es ih =>
    intro self w hl hw
    obtain ⟨callee, arg⟩ := e
    cases callee with
    | bin s => simp only [runEntriesY]; exact ih self _ hl hw
    | del t => simp only [runEntriesY]; exact ih self _ hl hw
    | bins s ns sp => simp only [runEntriesY]; exact ih self _ hl hw
    | pan v =>
      simp only [runEntriesY]
      split
      · exact ih _ _ hl hw
      · exact hw
    | src c =>
      simp only [runEntriesY]
      have hc := h c (arg.get self.res) self w hw
      have hkc := hk c (arg.get self.res) self w
      generalize cf c (arg.get self.res) self w = r at hc hkc ⊢
      obtain ⟨sig, s', rr, w'⟩ := r
      simp only at hc hkc
      cases sig with
      | normal => exact ih s' w' (hkc.trans hl) hc
      | panic q =>
        simp only
        split
        · exact ih _ w' (hkc.trans hl) hc
        · exact hc
      | fuel => exact hc
    | held c =>
      simp only [runEntriesY]
      have hc := h c (arg.get self.res) (heldAnc F self) w hw
      have hkc := hk c (arg.get self.res) (heldAnc F self) w
      generalize cf c (arg.get self.res) (heldAnc F self) w = r at hc hkc ⊢
      obtain ⟨sig, anc', rr, w'⟩ := r
      simp only at hc hkc
      have hb : (heldBack F self anc').locked = false := by
        unfold heldBack heldAnc at *
        split
        · exact hl
        · rename_i hcl
          simp only [hcl, Bool.false_eq_true, if_false] at hkc
          exact hkc.trans hl
      cases sig with
      | normal =>
        simp only [hb, Bool.and_false, Bool.false_eq_true, if_false]
        exact ih _ w' hb hc
      | panic q =>
        simp only
        split
        · exact ih _ w' hb hc
        · exact hc
      | fuel => exact hc

theorem execFnY_keepsLock (F : UnwindFacts) (n : Nat) : KeepsLock (execFnY F n) :=
  fun code a anc w => (execFnY_anc F n code a anc w).2

theorem execFnY_nohang : ∀ n, NoHang (execFnY facts n) := by
  intro n
  induction n with
  | zero => intro code a anc w hw; exact hw
  | succ n ih =>
    intro code a anc w hw
    simp only [execFnY]
    have hb := body_nohang facts (execFnY facts n) ih code a anc Frame.fresh w hw
    generalize execBodyY facts (execFnY facts n) code a anc Frame.fresh w = rb at hb ⊢
    obtain ⟨sig, anc', self, w'⟩ := rb
    simp only at hb
    simp only [exitY_expected]
    cases sig with
    | fuel => exact hb
    | normal =>
      simp only [finishY_out]
      exact entries_nohang (execFnY facts n) ih self.deferred _ w' hb
    | panic v =>
      simp only [finishY_out]
      exact entries_nohang (execFnY facts n) ih self.deferred _ w' hb

end YaegiVerif.Unwind
