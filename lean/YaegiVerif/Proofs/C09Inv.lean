import YaegiVerif.Model.RunId
/-
  Helper lemmas for C09/C10: the id invariant of the run-id machine, for every fact record that passes
  the parent's id at the three call sites (`Sound`), over all transitions.
-/
namespace YaegiVerif.Proofs.C09
open YaegiVerif.RunId

/-- the source choices the proofs rely on (every field is a decidable equation on the fact record) -/
structure Sound (F : RunIdFacts) : Prop where
  call : F.callId = .parent
  wrapper : F.wrapperId = .parent
  closure : F.closureId = .parent
  entry : F.entryId = .interp
  guard : F.guardPlain = true
  bumps : F.stopBumps = true
  closes : F.stopCloses = true
  wstops : F.watcherStops = true
  werr : F.watcherCtxErr = true

theorem Sound.site {F : RunIdFacts} (h : Sound F) (s : Site) : F.site s = .parent := by
  cases s <;> simp [RunIdFacts.site, h.call, h.wrapper, h.closure]

/-- every frame of the goroutine carries the id `c` -/
def AllId (c : Nat) (g : G) : Prop := ∀ fr ∈ g.stack, fr.id = c

theorem allId_nil {c : Nat} {g : G} (h : g.stack = []) : AllId c g := by
  intro fr hfr; rw [h] at hfr; cases hfr

theorem execOp_allId {F : RunIdFacts} (hF : Sound F) (cur c : Nat) (g : G) (h : AllId c g) :
    AllId c (execOp F cur g).1 ∧ ∀ s ∈ (execOp F cur g).2, AllId c s := by
  obtain ⟨stack, armed, blocked, ops, ticks, main⟩ := g
  cases stack with
  | nil => exact ⟨fun fr hfr => by simp [execOp] at hfr, fun s hs' => by simp [execOp] at hs'⟩
  | cons fr rest =>
    obtain ⟨fid, pc, fcur⟩ := fr
    have hfr : fid = c := h ⟨fid, pc, fcur⟩ (by simp)
    have hrest : ∀ x ∈ rest, x.id = c := fun x hx => h x (by simp [hx])
    cases pc with
    | done => exact ⟨fun x hx => h x (by simpa [execOp] using hx), fun s hs' => by simp [execOp] at hs'⟩
    | step p =>
      refine ⟨?_, fun s hs' => by simp [execOp] at hs'⟩
      intro x hx; simp only [execOp, List.mem_cons] at hx
      rcases hx with rfl | hx
      · exact hfr
      · exact hrest x hx
    | tick p =>
      refine ⟨?_, fun s hs' => by simp [execOp] at hs'⟩
      intro x hx; simp only [execOp, List.mem_cons] at hx
      rcases hx with rfl | hx
      · exact hfr
      · exact hrest x hx
    | mkclosure p =>
      refine ⟨?_, fun s hs' => by simp [execOp] at hs'⟩
      intro x hx; simp only [execOp, List.mem_cons] at hx
      rcases hx with rfl | hx
      · exact hfr
      · exact hrest x hx
    | call s body p =>
      refine ⟨?_, fun s hs' => by simp [execOp] at hs'⟩
      intro x hx; simp only [execOp, List.mem_cons] at hx
      rcases hx with rfl | rfl | hx
      · simp [hF.site, newId, hfr]
      · exact hfr
      · exact hrest x hx
    | spawn ss body p =>
      refine ⟨?_, ?_⟩
      · intro x hx; simp only [execOp, List.mem_cons] at hx
        rcases hx with rfl | hx
        · exact hfr
        · exact hrest x hx
      · intro s hs'
        simp only [execOp, List.mem_cons, List.not_mem_nil, or_false] at hs'
        subst hs'
        intro x hx
        simp only [newG, List.mem_cons, List.not_mem_nil, or_false] at hx
        subst hx
        simp [hF.site, newId, hfr]
    | block k cc p =>
      refine ⟨?_, fun s hs' => by simp [execOp] at hs'⟩
      intro x hx; simp only [execOp, List.mem_cons] at hx
      rcases hx with rfl | hx
      · exact hfr
      · exact hrest x hx

theorem wake_allId (σ : St) (g : G) (rel : Bool) (c : Nat) (h : AllId c g) :
    AllId c (wake σ g rel) := by
  unfold wake
  split
  · intro fr hfr; exact h fr (List.mem_of_mem_tail hfr)
  · exact h

theorem advance_allId {F : RunIdFacts} (hF : Sound F) (σ : St) (g : G) (c : Nat) (hroot : σ.rootId ≤ σ.id)
    (hc : c ≤ σ.id) (h : AllId c g) : ∃ c', c' ≤ σ.id ∧ AllId c' (advance F σ g).1 := by
  obtain ⟨stack, armed, blocked, ops, ticks, main⟩ := g
  cases stack with
  | nil =>
    cases main with
    | false => exact ⟨c, hc, by simpa [advance] using h⟩
    | true =>
      cases hl : σ.runList with
      | nil => exact ⟨c, hc, by simpa [advance, hl] using h⟩
      | cons e es =>
        by_cases hx : (F.execChecksCancel && σ.done) = true
        · exact ⟨c, hc, by simpa [advance, hl, hx] using h⟩
        · by_cases he : e.root = true
          · refine ⟨σ.rootId, hroot, ?_⟩
            intro fr hfr; simp [advance, hl, hx, he] at hfr; subst hfr; rfl
          · refine ⟨σ.id, Nat.le_refl _, ?_⟩
            intro fr hfr; simp [advance, hl, hx, he, hF.entry, newId] at hfr; subst hfr; rfl
  | cons fr rest =>
    obtain ⟨fid, pc, fcur⟩ := fr
    have hrest : ∀ x ∈ rest, x.id = c := fun x hx => h x (by simp [hx])
    refine ⟨c, hc, ?_⟩
    by_cases hg : guardOk F fid σ.id = true <;> cases pc <;> intro x hx <;> simp [advance, hg] at hx <;>
      first
        | exact hrest x hx
        | exact h x (by simpa using hx)

/-- the goroutine-local part of the invariant is preserved by one transition of the goroutine -/
theorem stepG_allId {F : RunIdFacts} (hF : Sound F) (σ : St) (g : G) (c : Nat) (hroot : σ.rootId ≤ σ.id)
    (hc : c ≤ σ.id) (h : AllId c g) :
    (∃ c', c' ≤ σ.id ∧ AllId c' (stepG F σ g).1) ∧ ∀ s ∈ (stepG F σ g).2.1, AllId c s := by
  unfold stepG
  cases hb : g.blocked with
  | some kc =>
    obtain ⟨k, cc⟩ := kc
    exact ⟨⟨c, hc, wake_allId σ g cc c h⟩, fun s hs => by cases hs⟩
  | none =>
    simp only
    split
    · have := execOp_allId hF σ.id c g h
      exact ⟨⟨c, hc, this.1⟩, this.2⟩
    · exact ⟨advance_allId hF σ g c hroot hc h, fun s hs => by cases hs⟩

/-- **The id invariant**: the root frame and every live frame carry an id that is at most the interpreter's,
    and all frames of one goroutine carry the same id (a callee is stale exactly when its caller is). -/
structure Inv (σ : St) : Prop where
  root : σ.rootId ≤ σ.id
  frames : ∀ g ∈ σ.gs, ∃ c, c ≤ σ.id ∧ AllId c g

theorem mem_set_append {α : Type} {l s : List α} {i : Nat} {a x : α} (h : x ∈ l.set i a ++ s) :
    x ∈ l ∨ x = a ∨ x ∈ s := by
  rcases List.mem_append.mp h with h | h
  · rcases List.mem_or_eq_of_mem_set h with h | h
    · exact Or.inl h
    · exact Or.inr (Or.inl h)
  · exact Or.inr (Or.inr h)

theorem markReturn_inv {m f : Bool} {σ : St} (h : Inv σ) : Inv (markReturn m f σ) := by
  unfold markReturn; split
  · exact ⟨h.root, h.frames⟩
  · exact h

theorem inv_stepRun {F : RunIdFacts} (hF : Sound F) (σ : St) (i : Nat) (h : Inv σ) : Inv (stepRun F σ i) := by
  unfold stepRun
  cases hg : σ.gs[i]? with
  | none => exact h
  | some g =>
    have hmem : g ∈ σ.gs := List.mem_of_getElem? hg
    obtain ⟨c, hc, hall⟩ := h.frames g hmem
    have hs := stepG_allId hF σ g c h.root hc hall
    apply markReturn_inv
    refine ⟨h.root, ?_⟩
    intro x hx
    rcases mem_set_append hx with hx | hx | hx
    · exact h.frames x hx
    · subst hx; exact hs.1
    · exact ⟨c, hc, hs.2 x hx⟩

theorem inv_stepComm (σ : St) (i : Nat) (h : Inv σ) : Inv (stepComm σ i) := by
  unfold stepComm
  split
  · exact h
  · rename_i g hg
    split
    · exact h
    · refine ⟨h.root, ?_⟩
      intro x hx
      rcases List.mem_or_eq_of_mem_set hx with hx | hx
      · exact h.frames x hx
      · subst hx
        obtain ⟨c, hc, hall⟩ := h.frames g (List.mem_of_getElem? hg)
        exact ⟨c, hc, hall⟩

theorem inv_stepStop (F : RunIdFacts) (σ : St) (h : Inv σ) : Inv (stepStop F σ) := by
  unfold stepStop
  split
  · refine ⟨?_, ?_⟩
    · show σ.rootId ≤ (if (F.watcherStops && F.stopBumps) = true then σ.id + 1 else σ.id)
      have := h.root
      split <;> omega
    · intro g hg
      obtain ⟨c, hc, hall⟩ := h.frames g hg
      refine ⟨c, ?_, hall⟩
      show c ≤ (if (F.watcherStops && F.stopBumps) = true then σ.id + 1 else σ.id)
      split <;> omega
  · exact h

theorem inv_step {F : RunIdFacts} (hF : Sound F) (σ : St) (c : Choice) (h : Inv σ) : Inv (stepC F σ c) := by
  cases c with
  | run i => exact inv_stepRun hF σ i h
  | comm i => exact inv_stepComm σ i h
  | stop => exact inv_stepStop F σ h

theorem inv_runSched {F : RunIdFacts} (hF : Sound F) (cs : List Choice) (σ : St) (h : Inv σ) :
    Inv (runSched F σ cs) := by
  induction cs generalizing σ with
  | nil => exact h
  | cons c cs ih => exact ih _ (inv_step hF σ c h)

theorem inv_start (F : RunIdFacts) (id rootId : Nat) (entries : List Entry) (h : rootId ≤ id) :
    Inv (start F id rootId entries) := by
  refine ⟨?_, ?_⟩
  · simp only [start]; split <;> simp_all
  · intro g hg
    simp only [start, List.mem_cons, List.not_mem_nil, or_false] at hg
    subst hg
    exact ⟨0, Nat.zero_le _, fun fr hfr => by cases hfr⟩

end YaegiVerif.Proofs.C09
