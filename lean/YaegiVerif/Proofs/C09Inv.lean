import YaegiVerif.Model.RunId
/-
  Helper lemmas for C09/C10: the id invariant of the run-id machine, for every fact record whose call sites pass
  the creating frame's id or the root frame's (`Sound`), over all transitions.
-/
namespace YaegiVerif.Proofs.C09
open YaegiVerif.RunId

/-- the source choices the proofs rely on (every field is a decidable statement about the fact record) -/
structure Sound (F : RunIdFacts) : Prop where
  call : F.callId = .parent
  wrapper : F.wrapperId = .parent ∨ F.wrapperId = .epoch
  closure : F.closureId = .parent ∨ F.closureId = .epoch
  entry : F.entryId = .parent
  guard : F.guardPlain = true
  bumps : F.stopBumps = true
  closes : F.stopCloses = true
  wstops : F.watcherStops = true
  werr : F.watcherCtxErr = true
  marks : F.stopMarksEpochs = true
  plumbing : F.epochPlumbing = true
  noret : F.execRefreshAtReturn = false

theorem Sound.site {F : RunIdFacts} (h : Sound F) (s : Site) : F.site s = .parent ∨ F.site s = .epoch := by
  obtain ⟨k, e, l⟩ := s
  cases k <;> simp [RunIdFacts.site, h.call, h.wrapper, h.closure]

/-- a frame made at a sound site from ids that are at most `c` has an id at most `c` -/
theorem newId_le {F : RunIdFacts} (hF : Sound F) (s : Site) {p c r : Nat} (dead : Bool) (hp : p ≤ c) :
    newId (F.site s) p c r dead ≤ c := by
  rcases hF.site s with h | h <;> cases dead <;> simp [h, newId, hp]

/-- every frame of the goroutine, and the frame that started it if it has not made its own yet, carries an id ≤ `c` -/
def LeId (c : Nat) (g : G) : Prop := (∀ fr ∈ g.stack, fr.id ≤ c) ∧ (∀ pd, g.pending = some pd → pd.pid ≤ c)

theorem execOp_le {F : RunIdFacts} (hF : Sound F) (σ : St) (g : G) (hr : σ.rootId ≤ σ.id) (h : LeId σ.id g) :
    LeId σ.id (execOp F σ g).1 ∧ (∀ s ∈ (execOp F σ g).2, LeId σ.id s ∧ s.main = false) ∧ (execOp F σ g).1.main = g.main := by
  obtain ⟨stack, armed, blocked, ops, ticks, main, pending⟩ := g
  obtain ⟨hs, hp⟩ := h
  cases stack with
  | nil => exact ⟨⟨fun fr hfr => by simp [execOp] at hfr, hp⟩, fun s hs' => by simp [execOp] at hs', rfl⟩
  | cons fr rest =>
    obtain ⟨fid, pc, fcur, fearly⟩ := fr
    have hfr : fid ≤ σ.id := hs ⟨fid, pc, fcur, fearly⟩ (by simp)
    have hrest : ∀ x ∈ rest, x.id ≤ σ.id := fun x hx => hs x (by simp [hx])
    cases pc with
    | done => exact ⟨⟨fun x hx => hs x (by simpa [execOp] using hx), hp⟩, fun s hs' => by simp [execOp] at hs', rfl⟩
    | step p =>
      refine ⟨⟨?_, hp⟩, fun s hs' => by simp [execOp] at hs', rfl⟩
      intro x hx; simp only [execOp, List.mem_cons] at hx
      rcases hx with rfl | hx
      · exact hfr
      · exact hrest x hx
    | tick p =>
      refine ⟨⟨?_, hp⟩, fun s hs' => by simp [execOp] at hs', rfl⟩
      intro x hx; simp only [execOp, List.mem_cons] at hx
      rcases hx with rfl | hx
      · exact hfr
      · exact hrest x hx
    | mkclosure p =>
      refine ⟨⟨?_, hp⟩, fun s hs' => by simp [execOp] at hs', rfl⟩
      intro x hx; simp only [execOp, List.mem_cons] at hx
      rcases hx with rfl | hx
      · exact hfr
      · exact hrest x hx
    | call s body p =>
      refine ⟨⟨?_, hp⟩, fun s hs' => by simp [execOp] at hs', rfl⟩
      intro x hx; simp only [execOp, List.mem_cons] at hx
      rcases hx with rfl | rfl | hx
      · exact newId_le hF s _ hfr
      · exact hfr
      · exact hrest x hx
    | spawn ss body p =>
      refine ⟨⟨?_, hp⟩, ?_, rfl⟩
      · intro x hx; simp only [execOp, List.mem_cons] at hx
        rcases hx with rfl | hx
        · exact hfr
        · exact hrest x hx
      · intro s hs'
        simp only [execOp, List.mem_cons, List.not_mem_nil, or_false] at hs'
        subst hs'
        refine ⟨⟨fun x hx => by simp [newG] at hx, ?_⟩, rfl⟩
        intro pd hpd
        simp only [newG, Option.some.injEq] at hpd
        subst hpd
        exact hfr
    | block k cc p =>
      refine ⟨⟨?_, hp⟩, fun s hs' => by simp [execOp] at hs', rfl⟩
      intro x hx; simp only [execOp, List.mem_cons] at hx
      rcases hx with rfl | hx
      · exact hfr
      · exact hrest x hx

theorem wake_le (σ : St) (g : G) (rel : Bool) (c : Nat) (h : LeId c g) : LeId c (wake σ g rel) ∧ (wake σ g rel).main = g.main := by
  unfold wake
  split
  · exact ⟨⟨fun fr hfr => h.1 fr (List.mem_of_mem_tail hfr), h.2⟩, rfl⟩
  · exact ⟨h, rfl⟩

theorem advance_le {F : RunIdFacts} (hF : Sound F) (σ : St) (g : G) (hroot : σ.rootId ≤ σ.id)
    (h : LeId σ.id g) : LeId σ.id (advance F σ g).g ∧ (advance F σ g).spawned = [] ∧ (advance F σ g).g.main = g.main := by
  obtain ⟨stack, armed, blocked, ops, ticks, main, pending⟩ := g
  obtain ⟨hs, hp⟩ := h
  cases pending with
  | some pd =>
    refine ⟨⟨?_, by simp [advance]⟩, by simp [advance], by simp [advance]⟩
    intro fr hfr
    simp only [advance, List.mem_cons, List.not_mem_nil, or_false] at hfr
    subst hfr
    exact newId_le hF pd.site _ (hp pd rfl)
  | none =>
    cases stack with
    | nil =>
      cases main with
      | false => exact ⟨⟨by simpa [advance] using hs, by simp [advance]⟩, by simp [advance], by simp [advance]⟩
      | true =>
        cases hl : σ.runList with
        | nil => exact ⟨⟨by simpa [advance, hl] using hs, by simp [advance, hl]⟩, by simp [advance, hl], by simp [advance, hl]⟩
        | cons e es =>
          by_cases hx : (F.execChecksCancel && σ.done) = true
          · exact ⟨⟨by simpa [advance, hl, hx] using hs, by simp [advance, hl, hx]⟩, by simp [advance, hl, hx], by simp [advance, hl, hx]⟩
          · refine ⟨⟨?_, by simp [advance, hl, hx]⟩, by simp [advance, hl, hx], by simp [advance, hl, hx]⟩
            intro fr hfr
            simp only [advance, hl, hx] at hfr
            simp at hfr
            subst hfr
            by_cases he : e.root = true
            · simp [he, hroot]
            · simp [he, hF.entry, newId, hroot]
    | cons fr rest =>
      obtain ⟨fid, pc, fcur, fearly⟩ := fr
      have hrest : ∀ x ∈ rest, x.id ≤ σ.id := fun x hx => hs x (by simp [hx])
      by_cases hg : guardOk F fid σ.id = true <;> cases pc <;>
        refine ⟨⟨?_, by simp [advance, hg]⟩, by simp [advance, hg], by simp [advance, hg]⟩ <;>
        intro x hx <;> simp [advance, hg] at hx <;>
        first
          | exact hrest x hx
          | exact hs x (by simpa using hx)

/-- the goroutine-local part of the invariant is preserved by one transition of the goroutine -/
theorem stepG_le {F : RunIdFacts} (hF : Sound F) (σ : St) (g : G) (hroot : σ.rootId ≤ σ.id) (h : LeId σ.id g) :
    LeId σ.id (stepG F σ g).g ∧ (∀ s ∈ (stepG F σ g).spawned, LeId σ.id s ∧ s.main = false) ∧ (stepG F σ g).g.main = g.main := by
  unfold stepG
  cases hb : g.blocked with
  | some kc =>
    obtain ⟨k, cc⟩ := kc
    exact ⟨(wake_le σ g cc σ.id h).1, (fun s hs => by cases hs), (wake_le σ g cc σ.id h).2⟩
  | none =>
    simp only
    split
    · exact execOp_le hF σ g hroot h
    · have := advance_le hF σ g hroot h
      exact ⟨this.1, (fun s hs => by rw [this.2.1] at hs; cases hs), this.2.2⟩

/-- **The id invariant**: the root frame and every live frame carry an id that is at most the interpreter's. -/
structure Inv (σ : St) : Prop where
  root : σ.rootId ≤ σ.id
  frames : ∀ g ∈ σ.gs, LeId σ.id g

/-- the goroutine that runs `Execute` is the first one, and the only one flagged `main` -/
structure MainOk (σ : St) : Prop where
  main0 : ∀ i g, σ.gs[i]? = some g → g.main = true → i = 0
  has : ∃ g, σ.gs[0]? = some g ∧ g.main = true

theorem mem_set_append {α : Type} {l s : List α} {i : Nat} {a x : α} (h : x ∈ l.set i a ++ s) :
    x ∈ l ∨ x = a ∨ x ∈ s := by
  rcases List.mem_append.mp h with h | h
  · rcases List.mem_or_eq_of_mem_set h with h | h
    · exact Or.inl h
    · exact Or.inr (Or.inl h)
  · exact Or.inr (Or.inr h)

/-- what `execReturn` leaves alone -/
theorem execReturn_fields (F : RunIdFacts) (m f : Bool) (σ : St) :
    (execReturn F m f σ).gs = σ.gs ∧ (execReturn F m f σ).id = σ.id ∧ (execReturn F m f σ).done = σ.done ∧
    (execReturn F m f σ).runList = σ.runList ∧ (execReturn F m f σ).rootCur = σ.rootCur ∧
    (execReturn F m f σ).renewed = σ.renewed := by
  unfold execReturn; split <;> simp

theorem execReturn_root (F : RunIdFacts) (m f : Bool) (σ : St) :
    (execReturn F m f σ).rootId = σ.rootId ∨ ((m && f) = true ∧ (execReturn F m f σ).rootId = σ.id) := by
  unfold execReturn
  split
  · rename_i h
    by_cases hr : F.execRefreshAtReturn = true
    · exact Or.inr ⟨h, by simp [hr]⟩
    · exact Or.inl (by simp [hr])
  · exact Or.inl rfl

/-- only the first goroutine is flagged `main`: preserved when a goroutine is replaced by one with the same flag
    and goroutines that are not `main` are appended -/
theorem main0_set_append {gs sp : List G} {i : Nat} {g g' : G} (hg : gs[i]? = some g) (hm : g'.main = g.main)
    (hsp : ∀ s ∈ sp, s.main = false) (h0 : ∀ j x, gs[j]? = some x → x.main = true → j = 0) :
    ∀ j x, (gs.set i g' ++ sp)[j]? = some x → x.main = true → j = 0 := by
  intro j x hx hmx
  have hi : i < gs.length := (List.getElem?_eq_some_iff.mp hg).1
  by_cases hj : j < gs.length
  · rw [List.getElem?_append_left (by simpa using hj)] at hx
    by_cases hij : i = j
    · subst hij
      simp [hi] at hx
      subst hx
      exact h0 i g hg (by rw [← hm]; exact hmx)
    · rw [List.getElem?_set_ne hij] at hx
      exact h0 j x hx hmx
  · have hj' : gs.length ≤ j := Nat.le_of_not_lt hj
    rw [List.getElem?_append_right (by simpa using hj')] at hx
    have := hsp x (List.mem_of_getElem? hx)
    rw [this] at hmx; cases hmx

theorem inv_stepRun {F : RunIdFacts} (hF : Sound F) (σ : St) (i : Nat) (h : Inv σ) : Inv (stepRun F σ i) := by
  unfold stepRun
  cases hg : σ.gs[i]? with
  | none => exact h
  | some g =>
    have hmem : g ∈ σ.gs := List.mem_of_getElem? hg
    have hs := stepG_le hF σ g h.root (h.frames g hmem)
    obtain ⟨e1, e2, _, _, _, _⟩ := execReturn_fields F g.main (finished (stepG F σ g).g && (stepG F σ g).list.isEmpty)
      { σ with gs := σ.gs.set i (stepG F σ g).g ++ (stepG F σ g).spawned, runList := (stepG F σ g).list, rootCur := (stepG F σ g).rootCur }
    refine ⟨?_, ?_⟩
    · rw [e2]
      rcases execReturn_root F g.main (finished (stepG F σ g).g && (stepG F σ g).list.isEmpty)
        { σ with gs := σ.gs.set i (stepG F σ g).g ++ (stepG F σ g).spawned, runList := (stepG F σ g).list, rootCur := (stepG F σ g).rootCur } with hr | hr
      · rw [hr]; exact h.root
      · rw [hr.2]; exact Nat.le_refl _
    · rw [e1, e2]
      intro x hx
      rcases mem_set_append hx with hx | hx | hx
      · exact h.frames x hx
      · subst hx; exact hs.1
      · exact (hs.2.1 x hx).1

theorem inv_stepComm (σ : St) (i : Nat) (h : Inv σ) : Inv (stepComm σ i) := by
  unfold stepComm
  split
  · exact h
  · rename_i g hg
    split
    · exact h
    · refine ⟨h.root, ?_⟩
      intro x hx
      rcases List.mem_or_eq_of_mem_set hx with hx | hx
      · exact h.frames x hx
      · subst hx
        exact h.frames g (List.mem_of_getElem? hg)

theorem inv_stepStop (F : RunIdFacts) (σ : St) (h : Inv σ) : Inv (stepStop F σ) := by
  unfold stepStop
  split
  · refine ⟨?_, ?_⟩
    · show σ.rootId ≤ (if (F.watcherStops && F.stopBumps) = true then σ.id + 1 else σ.id)
      have := h.root
      split <;> omega
    · intro g hg
      obtain ⟨h1, h2⟩ := h.frames g hg
      have hle : σ.id ≤ (if (F.watcherStops && F.stopBumps) = true then σ.id + 1 else σ.id) := by split <;> omega
      exact ⟨fun fr hfr => Nat.le_trans (h1 fr hfr) hle, fun pd hpd => Nat.le_trans (h2 pd hpd) hle⟩
  · exact h

theorem inv_step {F : RunIdFacts} (hF : Sound F) (σ : St) (c : Choice) (h : Inv σ) : Inv (stepC F σ c) := by
  cases c with
  | run i => exact inv_stepRun hF σ i h
  | comm i => exact inv_stepComm σ i h
  | stop => exact inv_stepStop F σ h

theorem inv_runSched {F : RunIdFacts} (hF : Sound F) (cs : List Choice) (σ : St) (h : Inv σ) :
    Inv (runSched F σ cs) := by
  induction cs generalizing σ with
  | nil => exact h
  | cons c cs ih => exact ih _ (inv_step hF σ c h)

theorem inv_start (F : RunIdFacts) (id rootId : Nat) (entries : List Entry) (h : rootId ≤ id) :
    Inv (start F id rootId entries) := by
  refine ⟨?_, ?_⟩
  · simp only [start]; split <;> simp_all
  · intro g hg
    simp only [start, List.mem_cons, List.not_mem_nil, or_false] at hg
    subst hg
    exact ⟨(fun fr hfr => by cases hfr), (fun pd hpd => by cases hpd)⟩

/-! ### the goroutine of `Execute` -/

theorem execOp_main (F : RunIdFacts) (σ : St) (g : G) :
    (execOp F σ g).1.main = g.main ∧ ∀ s ∈ (execOp F σ g).2, s.main = false := by
  obtain ⟨stack, armed, blocked, ops, ticks, main, pending⟩ := g
  cases stack with
  | nil => simp [execOp]
  | cons fr rest =>
    obtain ⟨fid, pc, fcur, fearly⟩ := fr
    cases pc <;> simp [execOp, newG]

theorem advance_main (F : RunIdFacts) (σ : St) (g : G) :
    (advance F σ g).g.main = g.main ∧ (advance F σ g).spawned = [] := by
  obtain ⟨stack, armed, blocked, ops, ticks, main, pending⟩ := g
  cases pending with
  | some pd => simp [advance]
  | none =>
    cases stack with
    | nil =>
      cases main with
      | false => simp [advance]
      | true =>
        cases hl : σ.runList with
        | nil => simp [advance, hl]
        | cons e es => by_cases hx : (F.execChecksCancel && σ.done) = true <;> simp [advance, hl, hx]
    | cons fr rest =>
      obtain ⟨fid, pc, fcur, fearly⟩ := fr
      by_cases hg : guardOk F fid σ.id = true <;> cases pc <;> simp [advance, hg]

theorem stepG_main (F : RunIdFacts) (σ : St) (g : G) :
    (stepG F σ g).g.main = g.main ∧ ∀ s ∈ (stepG F σ g).spawned, s.main = false := by
  unfold stepG
  cases hb : g.blocked with
  | some kc =>
    obtain ⟨k, cc⟩ := kc
    refine ⟨?_, fun s hs => by cases hs⟩
    simp only [wake]; split <;> rfl
  | none =>
    simp only
    split
    · exact execOp_main F σ g
    · have := advance_main F σ g
      exact ⟨this.1, fun s hs => by rw [this.2] at hs; cases hs⟩

theorem has_set_append {gs sp : List G} {i : Nat} {g g' : G} (hg : gs[i]? = some g) (hm : g'.main = g.main)
    (h : ∃ x, gs[0]? = some x ∧ x.main = true) : ∃ x, (gs.set i g' ++ sp)[0]? = some x ∧ x.main = true := by
  obtain ⟨x, hx, hmx⟩ := h
  have hi : i < gs.length := (List.getElem?_eq_some_iff.mp hg).1
  have h0 : 0 < gs.length := (List.getElem?_eq_some_iff.mp hx).1
  rw [List.getElem?_append_left (by simpa using h0)]
  by_cases hi0 : i = 0
  · subst hi0
    refine ⟨g', by simp [h0], ?_⟩
    rw [hm]
    rw [hg] at hx
    cases hx
    exact hmx
  · exact ⟨x, by rw [List.getElem?_set_ne hi0]; exact hx, hmx⟩

theorem mainOk_step (F : RunIdFacts) (σ : St) (c : Choice) (h : MainOk σ) : MainOk (stepC F σ c) := by
  cases c with
  | run i =>
    show MainOk (stepRun F σ i)
    unfold stepRun
    cases hg : σ.gs[i]? with
    | none => exact h
    | some g =>
      have hm := stepG_main F σ g
      have e1 := (execReturn_fields F g.main (finished (stepG F σ g).g && (stepG F σ g).list.isEmpty)
        { σ with gs := σ.gs.set i (stepG F σ g).g ++ (stepG F σ g).spawned, runList := (stepG F σ g).list, rootCur := (stepG F σ g).rootCur }).1
      exact ⟨by rw [e1]; exact main0_set_append hg hm.1 hm.2 h.main0, by rw [e1]; exact has_set_append hg hm.1 h.has⟩
  | comm i =>
    show MainOk (stepComm σ i)
    unfold stepComm
    split
    · exact h
    · rename_i g hg
      split
      · exact h
      · have a := main0_set_append (sp := []) (g' := { g with blocked := none }) hg rfl (fun s hs => by cases hs) h.main0
        have b := has_set_append (sp := []) (g' := { g with blocked := none }) hg rfl h.has
        exact ⟨by simpa using a, by simpa using b⟩
  | stop =>
    show MainOk (stepStop F σ)
    unfold stepStop
    split
    · exact ⟨h.main0, h.has⟩
    · exact h

theorem mainOk_runSched (F : RunIdFacts) (cs : List Choice) (σ : St) (h : MainOk σ) : MainOk (runSched F σ cs) := by
  induction cs generalizing σ with
  | nil => exact h
  | cons c cs ih => exact ih _ (mainOk_step F σ c h)

theorem mainOk_start (F : RunIdFacts) (id rootId : Nat) (entries : List Entry) : MainOk (start F id rootId entries) := by
  refine ⟨?_, ⟨_, rfl, rfl⟩⟩
  intro i g hg _
  cases i with
  | zero => rfl
  | succ n => simp [start] at hg

end YaegiVerif.Proofs.C09
