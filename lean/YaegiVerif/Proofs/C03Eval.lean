import YaegiVerif.Model.ConstEval
import YaegiVerif.Model.ConstDecl
import YaegiVerif.Spec.GoConst
import YaegiVerif.Expected.C03
import YaegiVerif.Proofs.C03Repr
/- helper lemmas for the evaluation theorem of C03 (integer fragment, one walk) -/
namespace YaegiVerif.Proofs.C03
open YaegiVerif YaegiVerif.Const

/-- the facts the proofs are about (tied to the regenerated ones by `*_tie`) -/
abbrev F0 : Facts := Expected.C03.facts

@[simp] theorem bind_ok {α β} (a : α) (f : α → Res β) : (Res.ok a).bind f = f a := rfl
@[simp] theorem bind_reject {α β} (f : α → Res β) : (Res.reject : Res α).bind f = .reject := rfl

/-! ### arithmetic facts about wrapping -/

theorem wrapK_of_repr (k : IKind) (v : Int) (h : Spec.reprGo k v = true) : wrapK k v = v := by
  rw [reprGo_iff] at h
  cases k <;>
    simp only [IKind.minVal, IKind.maxVal, IKind.signed, IKind.bits, if_true, if_false, Bool.false_eq_true] at h <;>
    simp only [wrapK, IKind.signed, IKind.bits, Bool.true_and, Bool.false_and, Bool.false_eq_true, if_false] <;>
    first
    | omega
    | (split
       · rename_i hc; have hc' := of_decide_eq_true hc; omega
       · rename_i hc; have hc' : ¬ _ := fun h => hc (decide_eq_true h); omega)

/-- the 64-bit kind a typed arm of op.go computes in -/
def wide (k : IKind) : IKind := if k.signed then .int64 else .uint64

theorem repr_wide (k : IKind) (v : Int) (h : Spec.reprGo k v = true) : Spec.reprGo (wide k) v = true := by
  rw [reprGo_iff] at h ⊢
  cases k <;>
    simp only [wide, IKind.minVal, IKind.maxVal, IKind.signed, IKind.bits, if_true, if_false, Bool.false_eq_true] at h ⊢ <;>
    omega

theorem wrap2 (k : IKind) (r : Int) (h : Spec.reprGo k r = true) : wrapK k (wrapK (wide k) r) = r := by
  rw [wrapK_of_repr (wide k) r (repr_wide k r h), wrapK_of_repr k r h]

theorem int64Ok_of_repr_signed (k : IKind) (hk : k.signed = true) (v : Int) (h : Spec.reprGo k v = true) :
    int64Ok v = true := by
  rw [reprGo_iff] at h
  cases k <;> simp only [IKind.signed] at hk <;>
    simp only [IKind.minVal, IKind.maxVal, IKind.signed, IKind.bits, if_true, Bool.false_eq_true] at h <;>
    simp only [int64Ok, Bool.and_eq_true, decide_eq_true_eq] <;> first | omega | exact absurd hk (by decide)

theorem uint64Ok_of_repr_unsigned (k : IKind) (hk : k.signed = false) (v : Int) (h : Spec.reprGo k v = true) :
    uint64Ok v = true := by
  rw [reprGo_iff] at h
  cases k <;> simp only [IKind.signed] at hk <;>
    simp only [IKind.minVal, IKind.maxVal, IKind.signed, IKind.bits, if_false, Bool.false_eq_true] at h <;>
    simp only [uint64Ok, Bool.and_eq_true, decide_eq_true_eq] <;> first | omega | exact absurd hk (by decide)

/-- yaegi's representability test is Go's (all kinds, all integers; Props.C03.representable_correct restates it) -/
theorem reprY_eq_reprGo (k : IKind) (v : Int) : reprY Expected.C03.reprFacts k v = Spec.reprGo k v := by
  rw [Bool.eq_iff_iff, reprY_iff, reprGo_iff]
  cases k <;>
    simp only [IKind.minVal, IKind.maxVal, IKind.signed, IKind.bits, Nat.reducePow, if_true, if_false,
      Bool.false_eq_true] <;>
    omega

theorem reprY_of_reprGo (k : IKind) (v : Int) (h : Spec.reprGo k v = true) :
    reprY Expected.C03.reprFacts k v = true := by
  rw [reprY_eq_reprGo]; exact h

/-! ### value extraction and conversion of in-range integers -/

theorem int64Val_int (v : Int) (h : int64Ok v = true) : int64Val (.int v) = v := by
  simp [int64Val, CV.toInt, h]

theorem uint64Val_int (v : Int) (h : uint64Ok v = true) : uint64Val (.int v) = v := by
  have h' := h
  simp only [uint64Ok, Bool.and_eq_true, decide_eq_true_eq] at h'
  simp only [uint64Val, CV.toInt]
  split
  · exact wrapK_of_repr .uint64 v (by rw [reprGo_iff]; simp only [IKind.minVal, IKind.maxVal, IKind.signed, IKind.bits, if_false, Bool.false_eq_true]; omega)
  · have : ((v.natAbs % 2 ^ 64 : Nat) : Int) = v := by omega
    exact this

theorem convertConstY_int (k : IKind) (v : Int) (h : Spec.reprGo k v = true) :
    convertConstY F0 (.int v) (.i k) = .ok (.r (.i k) (.int v)) := by
  simp only [convertConstY]
  cases hs : k.signed
  · simp only [Bool.false_eq_true, if_false]
    rw [uint64Val_int v (uint64Ok_of_repr_unsigned k hs v h), wrapK_of_repr k v h]
  · simp only [if_true]
    rw [int64Val_int v (int64Ok_of_repr_signed k hs v h), wrapK_of_repr k v h]

theorem representableY_int (k : IKind) (v : Int) (h : Spec.reprGo k v = true) :
    representableY F0 (.int v) (.i k) = true := by
  simp only [representableY, CV.toInt]
  exact reprY_of_reprGo k v h

/-- `convertUntyped` of an untyped integer constant to an integer type that Go finds representable -/
theorem convertUntypedY_int (n : NS) (u : UK) (hu : u = .int ∨ u = .rune) (v : Int) (k : IKind) (hty : n.ty = .u u)
    (hrv : n.rv = .c (.int v)) (h : Spec.reprGo k v = true) :
    convertUntypedY F0 n (.t (.i k)) =
      .ok (some { n with rv := .r (.i k) (.int v), ty := .t (.i k), self := false, set := false }) := by
  have hb : ((Ty.u u).isBool != (BT.i k == BT.bool)) = false := by rcases hu with rfl | rfl <;> rfl
  simp only [convertUntypedY, hty, Ty.untyped, Bool.not_true, Bool.false_eq_true, if_false, hrv, hb, Bool.and_false,
    representableY_int k v h, convertConstY_int k v h, bind_ok]

/-- … and to one in which it is not representable: the error return -/
theorem convertUntypedY_int_none (n : NS) (u : UK) (hu : u = .int ∨ u = .rune) (v : Int) (k : IKind) (hty : n.ty = .u u)
    (hrv : n.rv = .c (.int v)) (h : Spec.reprGo k v = false) :
    convertUntypedY F0 n (.t (.i k)) = .ok none := by
  have hb : ((Ty.u u).isBool != (BT.i k == BT.bool)) = false := by rcases hu with rfl | rfl <;> rfl
  have hrep : representableY F0 (.int v) (.i k) = false := by
    simp only [representableY, CV.toInt]
    show reprY Expected.C03.reprFacts k v = false
    rw [reprY_eq_reprGo]; exact h
  simp [convertUntypedY, hty, Ty.untyped, hrv, hb, hrep]

theorem vInt_refl_signed (k : IKind) (hk : k.signed = true) (v : Int) : vInt (.r (.i k) (.int v)) = .ok v := by
  simp [vInt, hk]

theorem vUint_refl (k : IKind) (v : Int) (h : uint64Ok v = true) : vUint (.r (.i k) (.int v)) = .ok v := by
  simp only [vUint]
  have h' := h
  simp only [uint64Ok, Bool.and_eq_true, decide_eq_true_eq] at h'
  rw [wrapK_of_repr .uint64 v (by rw [reprGo_iff]; simp only [IKind.minVal, IKind.maxVal, IKind.signed, IKind.bits, if_false, Bool.false_eq_true]; omega)]

/-! ### the arithmetic operators on integers -/

def isArith (a : Act) : Bool :=
  a == .add || a == .sub || a == .mul || a == .quo || a == .rem || a == .and || a == .or || a == .xor || a == .andNot

def needsNZ (a : Act) : Bool := a == .quo || a == .rem

/-- the exact integer result of an arithmetic operator (truncated quotient and remainder) -/
def iop (a : Act) (p q : Int) : Int :=
  match a with
  | .add => p + q | .sub => p - q | .mul => p * q | .quo => p.tdiv q | .rem => p.tmod q
  | .and => iand p q | .or => ior p q | .xor => ixor p q | .andNot => iandNot p q
  | _ => 0

/-- Go side: arithmetic on two integer constants of one integer type -/
theorem arithGo_int (a : Act) (ha : isArith a = true) (p q : Int) (t : Ty) (ht : Spec.isIntTy t = true) :
    Spec.arithGo a (.int p) (.int q) t =
      if needsNZ a = true ∧ q = 0 then .reject else Spec.finish (.int (iop a p q)) t := by
  unfold Spec.arithGo
  rw [if_pos ht]
  cases a <;> simp [isArith] at ha <;> simp [needsNZ, iop] <;> (split <;> simp_all)

/-- `fixUntyped` leaves constants alone (08f21a9): the frame is never indexed for them -/
@[simp] theorem F0_fixSkipsConst : F0.eval.fixSkipsConst = true := rfl

/-- yaegi side, both operands still go/constant values of kind Int: the fold is the integer operation **whatever the
    type of the node** — in particular the quotient is the integer quotient also when the context pushed a typed or a
    floating-point type down to the node (since the repair of F48 the switch of `quoConst` looks at the operands) -/
theorem foldBinY_const (a : Act) (ha : isArith a = true) (nty : Ty)
    (p q : Int) (hz : ¬ (needsNZ a = true ∧ q = 0)) :
    foldBinY F0 a nty (.c (.int p)) (.c (.int q)) = .ok (.c (.int (iop a p q))) := by
  cases a <;> simp [isArith] at ha <;>
    simp [foldBinY, F0, Expected.C03.facts, Expected.C03.evalFacts, EvalFacts.foldOf, Expected.C03.constOp,
      Expected.C03.folds, Expected.C03.quoSwitch, cBinary, CV.toInt, iop, needsNZ] at hz ⊢ <;>
    (try simp [hz])

/-- an operand of a typed arm: the reflect value of the kind, or (quotient: no conversion) the constant itself -/
def Opnd (k : IKind) (rv : RV) (p : Int) : Prop := rv = .r (.i k) (.int p) ∨ rv = .c (.int p)

theorem vInt_opnd (k : IKind) (hk : k.signed = true) (rv : RV) (p : Int) (h : Opnd k rv p)
    (hr : Spec.reprGo k p = true) : vInt rv = .ok p := by
  rcases h with rfl | rfl
  · exact vInt_refl_signed k hk p
  · simp [vInt, int64Val_int p (int64Ok_of_repr_signed k hk p hr)]

theorem vUint_opnd (k : IKind) (hk : k.signed = false) (rv : RV) (p : Int) (h : Opnd k rv p)
    (hr : Spec.reprGo k p = true) : vUint rv = .ok p := by
  rcases h with rfl | rfl
  · exact vUint_refl k p (uint64Ok_of_repr_unsigned k hk p hr)
  · simp [vUint, uint64Val_int p (uint64Ok_of_repr_unsigned k hk p hr)]

theorem goIntOp_eq (a : Act) (ha : isArith a = true) (sg : Bool) (p q : Int) (hz : ¬ (needsNZ a = true ∧ q = 0)) :
    ∀ tok, (match a with
      | .add => Tok.add | .sub => Tok.sub | .mul => Tok.mul | .quo => Tok.quo | .rem => Tok.rem
      | .and => Tok.and | .or => Tok.or | .xor => Tok.xor | .andNot => Tok.andNot | _ => Tok.other) = tok →
    goIntOp tok sg p q = .ok (wrapK (if sg then .int64 else .uint64) (iop a p q)) := by
  intro tok htok
  subst htok
  cases a <;> simp [isArith] at ha <;> simp [goIntOp, iop, needsNZ] at hz ⊢ <;> (try simp [hz])

/-- yaegi side, at least one operand already a reflect value of kind `k`, node type `k` -/
theorem foldBinY_typed (a : Act) (ha : isArith a = true) (k : IKind) (v0 v1 : RV) (p q : Int)
    (h0 : Opnd k v0 p) (h1 : Opnd k v1 q) (hne : ¬ (v0 = .c (.int p) ∧ v1 = .c (.int q)))
    (hp : Spec.reprGo k p = true) (hq : Spec.reprGo k q = true)
    (hz : ¬ (needsNZ a = true ∧ q = 0)) (hr : Spec.reprGo k (iop a p q) = true) :
    foldBinY F0 a (.t (.i k)) v0 v1 = .ok (.r (.i k) (.int (iop a p q))) := by
  cases hs : k.signed
  · -- unsigned arm
    have e0 := vUint_opnd k hs v0 p h0 hp
    have e1 := vUint_opnd k hs v1 q h1 hq
    have w := wrap2 k (iop a p q) hr
    simp only [wide, hs, Bool.false_eq_true, if_false] at w
    rcases h0 with rfl | rfl <;> rcases h1 with rfl | rfl <;> first
      | exact absurd ⟨rfl, rfl⟩ hne
      | (cases a <;> simp [isArith] at ha <;>
          simp [foldBinY, foldBinY.fallthroughArms, F0, Expected.C03.facts, Expected.C03.evalFacts, EvalFacts.foldOf,
            Expected.C03.constOp, Expected.C03.folds, Ty.rtype, BT.isFloat, BT.isUint, BT.isInt, hs, armOf, e0, e1,
            goIntOp_eq _ (by simp [isArith]) false p q hz _ rfl, w])
  · have e0 := vInt_opnd k hs v0 p h0 hp
    have e1 := vInt_opnd k hs v1 q h1 hq
    have w := wrap2 k (iop a p q) hr
    simp only [wide, hs, if_true] at w
    rcases h0 with rfl | rfl <;> rcases h1 with rfl | rfl <;> first
      | exact absurd ⟨rfl, rfl⟩ hne
      | (cases a <;> simp [isArith] at ha <;>
          simp [foldBinY, foldBinY.fallthroughArms, F0, Expected.C03.facts, Expected.C03.evalFacts, EvalFacts.foldOf,
            Expected.C03.constOp, Expected.C03.folds, Ty.rtype, BT.isFloat, BT.isUint, BT.isInt, hs, armOf, e0, e1,
            goIntOp_eq _ (by simp [isArith]) true p q hz _ rfl, w])

/-! ### the invariant relating a node of the interpreter model to a Go constant (integer fragment) -/

/-- how yaegi holds a Go integer constant: a go/constant value while untyped, a reflect value of the kind once typed -/
def repOf (g : Spec.GV) : Option RV :=
  match g.ty, g.v with
  | .u .int, .int v => some (.c (.int v))
  | .u .rune, .int v => some (.c (.int v))
  | .t (.i k), .int v => if Spec.reprGo k v then some (.r (.i k) (.int v)) else none
  | _, _ => none

def Inv (n : NS) (g : Spec.GV) : Prop := n.ty = g.ty ∧ repOf g = some n.rv

inductive Shape (n : NS) (g : Spec.GV) : Prop where
  | untyped (u : UK) (v : Int) (hu : u = .int ∨ u = .rune) (hg : g = ⟨.int v, .u u⟩) (hty : n.ty = .u u)
      (hrv : n.rv = .c (.int v))
  | typed (k : IKind) (v : Int) (hg : g = ⟨.int v, .t (.i k)⟩) (hty : n.ty = .t (.i k))
      (hrv : n.rv = .r (.i k) (.int v)) (hr : Spec.reprGo k v = true)

theorem Inv.shape {n : NS} {g : Spec.GV} (h : Inv n g) : Shape n g := by
  obtain ⟨hty, hrep⟩ := h
  obtain ⟨gv, gty⟩ := g
  simp only at hty
  cases gty with
  | u k =>
    cases k <;> cases gv <;> simp [repOf] at hrep
    · exact .untyped .int _ (Or.inl rfl) rfl hty hrep.symm
    · exact .untyped .rune _ (Or.inr rfl) rfl hty hrep.symm
  | t b =>
    cases b <;> cases gv <;> simp [repOf] at hrep
    rename_i k v
    exact .typed k v rfl hty hrep.2.symm hrep.1

theorem Inv.of_untyped (n : NS) (u : UK) (v : Int) (hu : u = .int ∨ u = .rune) (hty : n.ty = .u u)
    (hrv : n.rv = .c (.int v)) : Inv n ⟨.int v, .u u⟩ := by
  rcases hu with rfl | rfl <;> exact ⟨hty, by simp [repOf, hrv]⟩

theorem Inv.of_typed (n : NS) (k : IKind) (v : Int) (hty : n.ty = .t (.i k)) (hrv : n.rv = .r (.i k) (.int v))
    (hr : Spec.reprGo k v = true) : Inv n ⟨.int v, .t (.i k)⟩ :=
  ⟨hty, by simp [repOf, hr, hrv]⟩

/-- agreement of one walk of the interpreter model with the specification on a node: both yield the same integer
    constant (value and type, `Inv`), or both reject -/
inductive Rel : Res NS → Res Spec.GV → Prop where
  | ok (n : NS) (g : Spec.GV) (h : Inv n g) : Rel (.ok n) (.ok g)
  | rej : Rel .reject .reject

theorem Rel.of_ok {n : NS} {g : Spec.GV} {r : Res NS} {s : Res Spec.GV} (hr : r = .ok n) (hs : s = .ok g) (h : Inv n g) :
    Rel r s := by subst hr hs; exact .ok n g h

theorem Rel.of_rej {r : Res NS} {s : Res Spec.GV} (hr : r = .reject) (hs : s = .reject) : Rel r s := by
  subst hr hs; exact .rej

/-- an in-range integer has at most 64 bits -/
theorem bitLen_of_repr (k : IKind) (v : Int) (h : Spec.reprGo k v = true) : bitLen v ≤ 64 := by
  rw [bitLen_le_iff]
  rw [reprGo_iff] at h
  cases k <;> simp only [IKind.minVal, IKind.maxVal, IKind.signed, IKind.bits, if_true, if_false, Bool.false_eq_true] at h <;>
    omega

/-! ### the two checks around a fold (typecheck.go constExpr, constOverflow) -/

@[simp] theorem F0_chk : F0.eval.chk = Expected.C03.checkFacts := rfl

theorem constOverflowY_c (r : Int) :
    constOverflowY F0 (.c (.int r)) = if bitLen r > 512 then .reject else .ok () := by
  simp [constOverflowY, Expected.C03.checkFacts, constValueY]

theorem constOverflowY_r (k : IKind) (r : Int) (h : Spec.reprGo k r = true) :
    constOverflowY F0 (.r (.i k) (.int r)) = .ok () := by
  have := bitLen_of_repr k r h
  have hn : ¬ (bitLen r > 512) := by omega
  simp [constOverflowY, Expected.C03.checkFacts, constValueY, hn]

/-- two untyped constants (or an untyped constant shifted): nothing to check -/
theorem constExprY_cc (a : Act) (un : Bool) (c0 c1 : NS) (h0 : isConstRV c0.rv = true) (h1 : isConstRV c1.rv = true) :
    constExprY F0 a un c0 c1 = .ok () := by
  simp [constExprY, h0, h1]

theorem tokOf_arith (a : Act) (ha : isArith a = true) :
    F0.eval.tokOf a = (match a with
      | .add => Tok.add | .sub => Tok.sub | .mul => Tok.mul | .quo => Tok.quo | .rem => Tok.rem
      | .and => Tok.and | .or => Tok.or | .xor => Tok.xor | .andNot => Tok.andNot | _ => Tok.other) := by
  cases a <;> simp [isArith] at ha <;> rfl

/-- two operands of one integer type: the exact result must be defined and representable in that type -/
theorem constExprY_rr (a : Act) (ha : isArith a = true) (c0 c1 : NS) (k : IKind) (p q : Int)
    (h0ty : c0.ty = .t (.i k)) (h0 : c0.rv = .r (.i k) (.int p)) (h1 : c1.rv = .r (.i k) (.int q)) :
    constExprY F0 a false c0 c1 =
      if needsNZ a = true ∧ q = 0 then .reject
      else if Spec.reprGo k (iop a p q) = true then .ok () else .reject := by
  have hcmp : isCmpAct a = false := by cases a <;> simp [isArith] at ha <;> rfl
  have hsh : isShiftAct a = false := by cases a <;> simp [isArith] at ha <;> rfl
  have hsign : ∀ z : Int, ((CV.int z).sign == 0) = decide (z = 0) := by
    intro z; simp only [CV.sign]
    by_cases h0 : z = 0
    · subst h0; simp
    · by_cases hneg : z < 0 <;> simp [h0, hneg]
  have hrep : ∀ r : Int, representableY F0 (.int r) (.i k) = Spec.reprGo k r := by
    intro r; simp only [representableY, CV.toInt]; exact reprY_eq_reprGo k r
  have htok := tokOf_arith a ha
  cases a <;> simp [isArith] at ha <;>
    simp [constExprY, hcmp, hsh, h0, h1, h0ty, isConstRV, Ty.rtype, BT.isInt, constValueY, CV.toInt, CV.isIntKind,
      htok, Expected.C03.checkFacts, hsign, cBinary, hrep, needsNZ, iop] <;>
    (try (by_cases hq0 : q = 0 <;> simp [hq0, hrep])) <;>
    (try (split <;> simp_all))

end YaegiVerif.Proofs.C03
