import YaegiVerif.Model.VarInit
import YaegiVerif.Spec.GoInitOrder
/-
  C15 — when every specification declares one variable, "one node per initialisation step" and
  "one node per variable" are the same reading: such a package is in the domain of the comparison
  with the toolchain (`dom_of_single`).
-/
namespace YaegiVerif.Proofs.C15
open YaegiVerif YaegiVerif.VarInit YaegiVerif.Spec.InitOrder

theorem single_not_paired (v : VarSpec) (h : single v = true) : v.paired = false := by
  unfold single at h
  unfold VarSpec.paired
  simp only [Bool.and_eq_true, beq_iff_eq, decide_eq_true_eq] at h
  simp [h.1]

theorem stepsGo_single (vs : List VarSpec) (h : vs.all single = true) : stepsGo vs = vs := by
  unfold stepsGo
  induction vs with
  | nil => rfl
  | cons v vs ih =>
    simp only [List.all_cons, Bool.and_eq_true] at h
    rw [List.flatMap_cons, ih h.2]
    simp [splitSpec, single_not_paired v h.1]

/-- the node of a specification that declares one variable -/
theorem single_unit (k : Nat) (v : VarSpec) (h : single v = true) :
    ∃ u, unitsOfSpec k v = [u] ∧ v.names = [u.name] ∧ u.ids = v.ids ∧ u.labels = v.labels := by
  unfold single at h
  simp only [Bool.and_eq_true, beq_iff_eq, decide_eq_true_eq] at h
  obtain ⟨hn, hi⟩ := h
  obtain ⟨names, inits, late, oplate⟩ := v
  simp only at hn hi
  match names, hn with
  | [n], _ =>
    match inits, hi with
    | [], _ => exact ⟨⟨n, [], none, k⟩, by simp [unitsOfSpec], rfl, by simp [VarSpec.ids], by simp [GoUnit.labels, VarSpec.labels]⟩
    | [i], _ => exact ⟨⟨n, i.ids, some i.label, k⟩, by simp [unitsOfSpec], rfl, by simp [VarSpec.ids], by simp [GoUnit.labels, VarSpec.labels]⟩

/-- node by node: the name tests, the identifiers and the labels are those of the specifications -/
theorem units_single (k : Nat) (vs : List VarSpec) (h : vs.all single = true) :
    (∀ name, (unitsFrom k vs).map (fun u => u.name == name) = vs.map (fun v => v.names.contains name)) ∧
    (unitsFrom k vs).map (·.ids) = vs.map VarSpec.ids ∧
    (unitsFrom k vs).map GoUnit.labels = vs.map VarSpec.labels := by
  induction vs generalizing k with
  | nil => simp [unitsFrom]
  | cons v vs ih =>
    simp only [List.all_cons, Bool.and_eq_true] at h
    obtain ⟨u, hu, hn, hids, hl⟩ := single_unit k v h.1
    obtain ⟨i1, i2, i3⟩ := ih (k + 1) h.2
    simp only [unitsFrom, hu, List.singleton_append, List.map_cons]
    refine ⟨?_, by rw [hids, i2], by rw [hl, i3]⟩
    intro name
    rw [i1 name, hn]
    simp only [List.contains_cons, List.contains_nil, Bool.or_false, List.cons.injEq, and_true]
    by_cases he : u.name = name
    · simp [he]
    · have he' : ¬ name = u.name := fun e => he e.symm
      rw [beq_eq_false_iff_ne.mpr he', beq_eq_false_iff_ne.mpr he]

theorem findIdx_map_eq {α β : Type} (p : α → Bool) (q : β → Bool) (l1 : List α) (l2 : List β)
    (h : l1.map p = l2.map q) : l1.findIdx p = l2.findIdx q ∧ l1.length = l2.length := by
  induction l1 generalizing l2 with
  | nil =>
    cases l2 with
    | nil => simp
    | cons b l2 => simp at h
  | cons a l1 ih =>
    cases l2 with
    | nil => simp at h
    | cons b l2 =>
      simp only [List.map_cons, List.cons.injEq] at h
      obtain ⟨i1, i2⟩ := ih l2 h.2
      simp only [List.findIdx_cons, h.1, i1, List.length_cons, i2, and_self]

/-- looking a variable up among the nodes is looking up the step that declares it -/
theorem lookupUnit_single (vs : List VarSpec) (h : vs.all single = true) (name : String) :
    lookupUnit (unitsOf vs) name = declIdx vs name := by
  unfold lookupUnit declIdx unitsOf
  by_cases hb : name = "_"
  · simp [hb]
  · simp only [hb, if_false]
    obtain ⟨h1, h2⟩ := findIdx_map_eq (fun u : GoUnit => u.name == name) (fun v : VarSpec => v.names.contains name)
      (unitsFrom 0 vs) vs ((units_single 0 vs h).1 name)
    rw [List.findIdx?_eq_guard_findIdx_lt, h1, h2]
    unfold Option.guard
    simp

theorem goDeps_single (p : Pkg) (h : p.vars.all single = true) : goDeps p = goStepDeps p := by
  unfold goDeps goStepDeps goDepsOf
  rw [stepsGo_single p.vars h]
  have hf : ∀ ids, unitDeps (unitsOf p.vars) p.funcs ids = stepDeps p.vars p.funcs ids := by
    intro ids
    unfold unitDeps stepDeps
    congr 2
    funext id
    rw [lookupUnit_single p.vars h]
  have hids := (units_single 0 p.vars h).2.1
  have := congrArg (List.map (fun ids => stepDeps p.vars p.funcs ids)) hids
  simp only [List.map_map] at this
  simp only [hf]
  exact this

theorem unitLabels_single (vars : List VarSpec) (h : vars.all single = true) (order : List Nat) :
    unitLabels (unitsOf vars) order = labelsOf vars order := by
  have hm := (units_single 0 vars h).2.2
  unfold unitLabels labelsOf
  congr 1
  funext i
  have : ((unitsOf vars).map GoUnit.labels)[i]? = (vars.map VarSpec.labels)[i]? := by
    unfold unitsOf; rw [hm]
  simp only [List.getElem?_map] at this
  cases hu : (unitsOf vars)[i]? <;> cases hv : vars[i]? <;> simp_all

/-- **every package whose specifications declare one variable each is in the domain of the
    comparison with the toolchain** -/
theorem dom_of_all_single (p : Pkg) (h : p.vars.all single = true) : dom p = true := by
  unfold dom
  rw [decide_eq_true_eq]
  unfold runGoS runGo
  rw [goDeps_single p h, stepsGo_single p.vars h]
  cases orderGo (goStepDeps p) with
  | ok o => simp [unitLabels_single p.vars h o]
  | loop => rfl
  | fuel => rfl

end YaegiVerif.Proofs.C15
