import YaegiVerif.Model.Extract
import YaegiVerif.Spec.GoExtract
import YaegiVerif.Proofs.C18Gen
/-
  C18 — the names of the parameters and results of a wrapper method (7677ad0): `fresh` really is
  fresh, and the names a wrapper method declares are pairwise distinct whatever the interface calls
  its parameters.
-/
namespace YaegiVerif.Proofs.C18
open YaegiVerif YaegiVerif.Extract

/-! ### `fresh` returns a name that is not declared yet -/

theorem countP_lt_of_mem {α : Type} (p q : α → Bool) (a : α) : ∀ l : List α, a ∈ l → p a = true → q a = false →
    (∀ x, q x = true → p x = true) → l.countP q < l.countP p
  | [], h, _, _, _ => by cases h
  | x :: l, h, hp, hq, hqp => by
    have hmono : l.countP q ≤ l.countP p := List.countP_mono_left fun y _ hy => hqp y hy
    simp only [List.countP_cons]
    rcases List.mem_cons.1 h with rfl | h
    · simp [hp, hq]; omega
    · have ih := countP_lt_of_mem p q a l h hp hq hqp
      cases hqx : q x
      · simp; omega
      · simp [hqp x hqx]; omega

theorem freshFrom_not_mem : ∀ (f : Nat) (used : List String) (s : String),
    used.countP (fun u => decide (s.length ≤ u.length)) < f → freshFrom f used s ∉ used
  | 0, _, _, h => absurd h (Nat.not_lt_zero _)
  | f + 1, used, s, h => by
    unfold freshFrom
    by_cases hc : used.contains s = true
    · simp only [hc, if_true]
      apply freshFrom_not_mem f used (s ++ "_")
      have hm : s ∈ used := by simpa using hc
      have hlen : (s ++ "_").length = s.length + 1 := by rw [String.length_append]; rfl
      have := countP_lt_of_mem (fun u => decide (s.length ≤ u.length)) (fun u => decide ((s ++ "_").length ≤ u.length)) s used hm
        (by simp) (by simp [hlen]) (by intro x hx; simp [hlen] at hx ⊢; omega)
      omega
    · simp only [hc]
      simpa using hc

theorem fresh_not_mem (used : List String) (pre : String) (j : Nat) : fresh used pre j ∉ used := by
  unfold fresh
  apply freshFrom_not_mem
  have : used.countP (fun u => decide ((pre ++ toString j).length ≤ u.length)) ≤ used.length := List.countP_le_length
  omega

theorem freshFrom_prefix : ∀ (f : Nat) (used : List String) (s : String), ∃ t, freshFrom f used s = s ++ t
  | 0, _, s => ⟨"", by simp [freshFrom]⟩
  | f + 1, used, s => by
    unfold freshFrom
    by_cases hc : used.contains s = true
    · obtain ⟨t, ht⟩ := freshFrom_prefix f used (s ++ "_")
      exact ⟨"_" ++ t, by simp only [hc, if_true, ht, String.append_assoc]⟩
    · have hm : s ∉ used := by simpa using hc
      exact ⟨"", by simp [hm]⟩

theorem fresh_prefix (used : List String) (pre : String) (j : Nat) : ∃ t, fresh used pre j = pre ++ t := by
  obtain ⟨t, ht⟩ := freshFrom_prefix (used.length + 1) used (pre ++ toString j)
  exact ⟨toString j ++ t, by unfold fresh; rw [ht, String.append_assoc]⟩

/-- a name is not blank: it declares something -/
def nonBlank (n : String) : Bool := n != "" && n != "_"

theorem needsFresh_a (t : String) : needsFresh ("a" ++ t) = false := by
  have h1 : "a" ++ t ≠ "" := by
    intro h; have := congrArg String.toList h; simp [String.toList_append] at this
  have h2 : "a" ++ t ≠ "_" := by
    intro h; have := congrArg String.toList h; simp [String.toList_append] at this
  have h3 : "a" ++ t ≠ "W" := by
    intro h; have := congrArg String.toList h; simp [String.toList_append] at this
  simp [needsFresh, h1, h2, h3]

theorem r_ne_W (t : String) : "r" ++ t ≠ "W" := by
  intro h; have := congrArg String.toList h; simp [String.toList_append] at this

theorem nonBlank_r (t : String) : nonBlank ("r" ++ t) = true := by
  have h1 : "r" ++ t ≠ "" := by
    intro h; have := congrArg String.toList h; simp [String.toList_append] at this
  have h2 : "r" ++ t ≠ "_" := by
    intro h; have := congrArg String.toList h; simp [String.toList_append] at this
  simp [nonBlank, h1, h2]

theorem usable_eq (n : String) : Spec.usable n = !needsFresh n := by
  unfold Spec.usable needsFresh
  cases h1 : (n == "") <;> cases h2 : (n == "_") <;> cases h3 : (n == "W") <;> simp_all [bne]

theorem usable_nonBlank (n : String) (h : Spec.usable n = true) : nonBlank n = true := by
  unfold Spec.usable at h; unfold nonBlank
  simp only [Bool.and_eq_true] at h ⊢
  exact ⟨h.1.1, h.1.2⟩

/-! ### the two naming loops, with today's switches -/

theorem paramNames_nil (used : List String) (i : Nat) : paramNames K used i [] = ([], used) := rfl

theorem paramNames_fresh (used : List String) (i : Nat) (p : Param) (ps : List Param) (h : needsFresh p.name = true) :
    paramNames K used i (p :: ps) =
      (fresh used "a" i :: (paramNames K (fresh used "a" i :: used) (i + 1) ps).1,
       (paramNames K (fresh used "a" i :: used) (i + 1) ps).2) := by
  simp [paramNames, h]

theorem paramNames_keep (used : List String) (i : Nat) (p : Param) (ps : List Param) (h : needsFresh p.name = false) :
    paramNames K used i (p :: ps) = (p.name :: (paramNames K used (i + 1) ps).1, (paramNames K used (i + 1) ps).2) := by
  simp [paramNames, h]

theorem resultNames_fresh (used : List String) (i : Nat) (r : Param) (rs : List Param) (h : r.name = "W") :
    resultNames K used i (r :: rs) = fresh used "r" i :: resultNames K (fresh used "r" i :: used) (i + 1) rs := by
  simp [resultNames, h]

theorem resultNames_keep (used : List String) (i : Nat) (r : Param) (rs : List Param) (h : r.name ≠ "W") :
    resultNames K used i (r :: rs) = r.name :: resultNames K used (i + 1) rs := by
  simp [resultNames, h]

/-- what the parameter loop guarantees -/
theorem paramNames_inv : ∀ (ps : List Param) (used : List String) (i : Nat),
    (∀ p ∈ ps, p.name ∈ used) →
    ((ps.map (·.name)).filter Spec.usable).Nodup →
    (paramNames K used i ps).1.Nodup ∧
    (∀ n ∈ (paramNames K used i ps).1, needsFresh n = false) ∧
    (∀ u ∈ used, u ∈ (paramNames K used i ps).2) ∧
    (∀ n ∈ (paramNames K used i ps).1, n ∈ (paramNames K used i ps).2) ∧
    (∀ n ∈ (paramNames K used i ps).1, n ∉ used ∨ n ∈ (ps.map (·.name)).filter Spec.usable) ∧
    (paramNames K used i ps).1.length = ps.length
  | [], used, i, _, _ => by simp [paramNames_nil]
  | p :: ps, used, i, hin, hnd => by
    have hin' : ∀ q ∈ ps, q.name ∈ used := fun q hq => hin q (List.mem_cons_of_mem _ hq)
    cases hf : needsFresh p.name
    · -- the name is kept
      have hu : Spec.usable p.name = true := by rw [usable_eq, hf]; rfl
      have hnd' : ((ps.map (·.name)).filter Spec.usable).Nodup ∧ p.name ∉ (ps.map (·.name)).filter Spec.usable := by
        simp only [List.map_cons, List.filter_cons, hu, if_true, List.nodup_cons] at hnd
        exact ⟨hnd.2, hnd.1⟩
      obtain ⟨h1, h2, h3, h4, h5, h6⟩ := paramNames_inv ps used (i + 1) hin' hnd'.1
      rw [paramNames_keep used i p ps hf]
      refine ⟨?_, ?_, h3, ?_, ?_, by simp [h6]⟩
      · refine List.nodup_cons.2 ⟨?_, h1⟩
        intro hm
        rcases h5 _ hm with h | h
        · exact h (hin p (List.mem_cons_self ..))
        · exact hnd'.2 h
      · intro n hn
        rcases List.mem_cons.1 hn with rfl | hn
        · exact hf
        · exact h2 n hn
      · intro n hn
        rcases List.mem_cons.1 hn with rfl | hn
        · exact h3 _ (hin p (List.mem_cons_self ..))
        · exact h4 n hn
      · intro n hn
        rcases List.mem_cons.1 hn with rfl | hn
        · right; simp [hu]
        · rcases h5 n hn with h | h
          · exact Or.inl h
          · right; simp only [List.map_cons, List.filter_cons, hu, if_true]; exact List.mem_cons_of_mem _ h
    · -- a fresh name
      have hu : Spec.usable p.name = false := by rw [usable_eq, hf]; rfl
      have hnd' : ((ps.map (·.name)).filter Spec.usable).Nodup := by
        simpa [List.filter_cons, hu] using hnd
      have hnew : fresh used "a" i ∉ used := fresh_not_mem used "a" i
      have hin'' : ∀ q ∈ ps, q.name ∈ fresh used "a" i :: used := fun q hq => List.mem_cons_of_mem _ (hin' q hq)
      obtain ⟨h1, h2, h3, h4, h5, h6⟩ := paramNames_inv ps (fresh used "a" i :: used) (i + 1) hin'' hnd'
      rw [paramNames_fresh used i p ps hf]
      refine ⟨?_, ?_, ?_, ?_, ?_, by simp [h6]⟩
      · refine List.nodup_cons.2 ⟨?_, h1⟩
        intro hm
        rcases h5 _ hm with h | h
        · exact h (List.mem_cons_self ..)
        · -- an original name is declared, the fresh one is not
          have : fresh used "a" i ∈ ps.map (·.name) := (List.mem_filter.1 h).1
          obtain ⟨q, hq, hqn⟩ := List.mem_map.1 this
          exact hnew (hqn ▸ hin' q hq)
      · intro n hn
        rcases List.mem_cons.1 hn with rfl | hn
        · obtain ⟨t, ht⟩ := fresh_prefix used "a" i
          rw [ht]; exact needsFresh_a t
        · exact h2 n hn
      · intro u hu'; exact h3 u (List.mem_cons_of_mem _ hu')
      · intro n hn
        rcases List.mem_cons.1 hn with rfl | hn
        · exact h3 _ (List.mem_cons_self ..)
        · exact h4 n hn
      · intro n hn
        rcases List.mem_cons.1 hn with rfl | hn
        · exact Or.inl hnew
        · rcases h5 n hn with h | h
          · exact Or.inl fun hm => h (List.mem_cons_of_mem _ hm)
          · right; simpa [List.filter_cons, hu] using h

/-- a usable name is kept, position by position -/
theorem paramNames_kept : ∀ (ps : List Param) (used : List String) (i : Nat),
    ∀ x ∈ ps.zip (paramNames K used i ps).1, Spec.usable x.1.name = true → x.2 = x.1.name
  | [], _, _ => by simp [paramNames_nil]
  | p :: ps, used, i => by
    intro x hx hu
    cases hf : needsFresh p.name
    · rw [paramNames_keep used i p ps hf] at hx
      rcases List.mem_cons.1 hx with rfl | hx
      · rfl
      · exact paramNames_kept ps used (i + 1) x hx hu
    · rw [paramNames_fresh used i p ps hf] at hx
      rcases List.mem_cons.1 hx with rfl | hx
      · rw [usable_eq] at hu; simp [hf] at hu
      · exact paramNames_kept ps _ (i + 1) x hx hu

/-- what the result loop guarantees -/
theorem resultNames_inv : ∀ (rs : List Param) (used : List String) (i : Nat),
    (∀ r ∈ rs, r.name ∈ used) →
    ((rs.map (·.name)).filter nonBlank).Nodup →
    ((resultNames K used i rs).filter nonBlank).Nodup ∧
    (∀ n ∈ resultNames K used i rs, n ≠ "W") ∧
    (∀ n ∈ resultNames K used i rs, n ∉ used ∨ n ∈ rs.map (·.name)) ∧
    (resultNames K used i rs).length = rs.length
  | [], _, _, _, _ => by simp [resultNames]
  | r :: rs, used, i, hin, hnd => by
    have hin' : ∀ q ∈ rs, q.name ∈ used := fun q hq => hin q (List.mem_cons_of_mem _ hq)
    by_cases hw : r.name = "W"
    · have hnd' : ((rs.map (·.name)).filter nonBlank).Nodup := by
        simp only [List.map_cons, List.filter_cons] at hnd
        split at hnd
        · exact (List.nodup_cons.1 hnd).2
        · exact hnd
      have hnew : fresh used "r" i ∉ used := fresh_not_mem used "r" i
      have hin'' : ∀ q ∈ rs, q.name ∈ fresh used "r" i :: used := fun q hq => List.mem_cons_of_mem _ (hin' q hq)
      obtain ⟨h1, h2, h3, h4⟩ := resultNames_inv rs (fresh used "r" i :: used) (i + 1) hin'' hnd'
      obtain ⟨t, ht⟩ := fresh_prefix used "r" i
      rw [resultNames_fresh used i r rs hw]
      refine ⟨?_, ?_, ?_, by simp [h4]⟩
      · have hb : nonBlank (fresh used "r" i) = true := by rw [ht]; exact nonBlank_r t
        simp only [List.filter_cons, hb, if_true]
        refine List.nodup_cons.2 ⟨?_, h1⟩
        intro hm
        rcases h3 _ (List.mem_filter.1 hm).1 with h | h
        · exact h (List.mem_cons_self ..)
        · obtain ⟨q, hq, hqn⟩ := List.mem_map.1 h
          exact hnew (hqn ▸ hin' q hq)
      · intro n hn
        rcases List.mem_cons.1 hn with rfl | hn
        · rw [ht]; exact r_ne_W t
        · exact h2 n hn
      · intro n hn
        rcases List.mem_cons.1 hn with rfl | hn
        · exact Or.inl hnew
        · rcases h3 n hn with h | h
          · exact Or.inl fun hm => h (List.mem_cons_of_mem _ hm)
          · right; simp only [List.map_cons]; exact List.mem_cons_of_mem _ h
    · have hnd' : ((rs.map (·.name)).filter nonBlank).Nodup := by
        simp only [List.map_cons, List.filter_cons] at hnd
        split at hnd
        · exact (List.nodup_cons.1 hnd).2
        · exact hnd
      obtain ⟨h1, h2, h3, h4⟩ := resultNames_inv rs used (i + 1) hin' hnd'
      rw [resultNames_keep used i r rs hw]
      refine ⟨?_, ?_, ?_, by simp [h4]⟩
      · simp only [List.filter_cons]
        split
        · rename_i hb
          refine List.nodup_cons.2 ⟨?_, h1⟩
          intro hm
          rcases h3 _ (List.mem_filter.1 hm).1 with h | h
          · exact h (hin r (List.mem_cons_self ..))
          · simp only [List.map_cons, List.filter_cons, hb, if_true] at hnd
            exact (List.nodup_cons.1 hnd).1 (List.mem_filter.2 ⟨h, hb⟩)
        · exact h1
      · intro n hn
        rcases List.mem_cons.1 hn with rfl | hn
        · exact hw
        · exact h2 n hn
      · intro n hn
        rcases List.mem_cons.1 hn with rfl | hn
        · right; simp
        · rcases h3 n hn with h | h
          · exact Or.inl h
          · right; simp only [List.map_cons]; exact List.mem_cons_of_mem _ h

/-! ### renaming and the printed lists keep the names -/

theorem rename_names : ∀ (ps : List Param) (ns : List String), ns.length = ps.length → (rename ps ns).map (·.name) = ns
  | [], [], _ => rfl
  | [], _ :: _, h => by simp at h
  | _ :: _, [], h => by simp at h
  | p :: ps, n :: ns, h => by
    simp only [rename, List.map_cons]
    rw [rename_names ps ns (by simpa using h)]

theorem wparams_names (v : Bool) (n : Nat) : ∀ (qs : List Param) (i : Nat),
    (wparams K v n i qs).map (·.name) = qs.map (·.name)
  | [], _ => rfl
  | q :: qs, i => by simp [wparams, wparams_names v n qs (i + 1)]

theorem wargs_names (v : Bool) (n : Nat) : ∀ (qs : List Param) (i : Nat),
    (wargs K v n i qs).map (·.name) = qs.map (·.name)
  | [], _ => rfl
  | q :: qs, i => by simp [wargs, wargs_names v n qs (i + 1)]

theorem wresults_names (rs : List Param) : (wresults rs).map (·.name) = rs.map (·.name) := by
  simp [wresults, Function.comp_def]

end YaegiVerif.Proofs.C18
