import YaegiVerif.Model.ConstDecl
import YaegiVerif.Spec.GoConst
import YaegiVerif.Expected.C03
/- C03: const blocks — iota sequencing and implicit repetition -/
namespace YaegiVerif.Proofs.C03
open YaegiVerif YaegiVerif.Const

abbrev D0 : DeclFacts := Expected.C03.declFacts

/-- every declaration of the list is accepted by the gta walk, by the cfg walk, and then yields the paired value -/
inductive Good : List Stage → List (CV × BT) → Prop where
  | nil : Good [] []
  | cons (st : Stage) (v : CV × BT) (n m : NS) (rest : List Stage) (vs : List (CV × BT))
      (h1 : st.gta = .ok n) (h2 : st.cfg n = .ok m) (h3 : st.use m = .ok v) (hr : Good rest vs) :
      Good (st :: rest) (v :: vs)

theorem firstWalk_good : ∀ (stages : List Stage) (vs : List (CV × BT)), Good stages vs →
    ∃ ns, firstWalkY stages = .ok ns ∧ (laterWalksY stages ns).bind usePhaseY = .ok vs := by
  intro stages vs h
  induction h with
  | nil => exact ⟨[], rfl, rfl⟩
  | cons st v n m rest vs h1 h2 h3 _ ih =>
    obtain ⟨ns, hns, hl⟩ := ih
    refine ⟨n :: ns, by simp [firstWalkY, h1, hns, Res.bind], ?_⟩
    cases hc : laterWalksY rest ns with
    | ok ms =>
      rw [hc] at hl
      simp only [laterWalksY, h2, hc, Res.bind, usePhaseY, h3] at hl ⊢
      rw [hl]
    | reject => rw [hc] at hl; cases hl
    | crash => rw [hc] at hl; cases hl
    | unm w => rw [hc] at hl; cases hl

theorem good_no_unm : ∀ (stages : List Stage) (vs : List (CV × BT)), Good stages vs → firstUnm stages = none := by
  intro stages vs h
  induction h with
  | nil => rfl
  | cons st v n m rest vs h1 _ _ _ ih =>
    unfold firstUnm at ih ⊢
    simp [List.findSome?, h1, ih]

theorem combine_good (stages : List Stage) (vs : List (CV × BT)) (h : Good stages vs) :
    combineY stages = .ok vs := by
  obtain ⟨ns, hns, hl⟩ := firstWalk_good stages vs h
  unfold combineY
  rw [good_no_unm stages vs h]
  simp only [hns, hl]

theorem resolveY_D0 (p : Option (Option BT × CExpr)) (s : Spec) :
    resolveY D0 p s = (match s with | .explicit t e => some (t, e) | .implicit => p) := by
  cases s with
  | explicit t e => rfl
  | implicit => cases p <;> rfl

/-- per-spec hypothesis: spec number `j` of the resolved block, evaluated with `iota = j`, is accepted by the
    interpreter model (both walks, the use) and yields the value the specification assigns -/
def SpecOk (F : Facts) (j : Nat) (t : Option BT) (e : CExpr) : Prop :=
  ∀ first, ∃ n m v, constGtaY F j first t e = .ok n ∧ constCfgY F j t e n = .ok m ∧ constUseY F m = .ok v ∧
    Spec.declGo j t e = .ok v

theorem walk_good (F : Facts) : ∀ (specs : List Spec) (i : Nat) (f : Bool) (p : Option (Option BT × CExpr)),
    (∀ j r, (Spec.resolveGo p specs)[j]? = some r → ∃ t e, r = some (t, e) ∧ SpecOk F (i + j) t e) →
    ∃ vs, Good (blockWalkY F D0 { iota := i, first := f, prev := p } specs) vs ∧
      Spec.blockGoFrom i (Spec.resolveGo p specs) = vs.map Res.ok := by
  intro specs
  induction specs with
  | nil => intro i f p _; exact ⟨[], .nil, rfl⟩
  | cons s rest ih =>
    intro i f p hyp
    have hres : Spec.resolveGo p (s :: rest) = resolveY D0 p s :: Spec.resolveGo (resolveY D0 p s) rest := by
      rw [resolveY_D0]; cases s <;> rfl
    obtain ⟨t, e, hcur, hok⟩ := hyp 0 (resolveY D0 p s) (by rw [hres]; rfl)
    obtain ⟨n, m, v, hg, hcfg, huse, hgo⟩ := hok f
    rw [show i + 0 = i from rfl] at hg hcfg hgo
    have hrest : ∀ j r, (Spec.resolveGo (resolveY D0 p s) rest)[j]? = some r →
        ∃ t e, r = some (t, e) ∧ SpecOk F (i + 1 + j) t e := by
      intro j r hj
      obtain ⟨t', e', h1, h2⟩ := hyp (j + 1) r (by rw [hres]; simpa using hj)
      exact ⟨t', e', h1, by rw [show i + 1 + j = i + (j + 1) by omega]; exact h2⟩
    have hstage : stageY F (if D0.cfg.fromScope then i else 0) f (resolveY D0 p s) =
        { gta := constGtaY F i f t e, cfg := constCfgY F i t e, use := constUseY F } := by
      rw [hcur]; rfl
    cases rest with
    | nil =>
      refine ⟨[v], ?_, ?_⟩
      · rw [blockWalkY]
        simp only [hstage]
        exact .cons _ v n m _ _ hg hcfg huse .nil
      · rw [hres, hcur]
        simp [Spec.resolveGo, Spec.blockGoFrom, hgo]
    | cons s2 rest2 =>
      obtain ⟨vs, hgood, hgoes⟩ := ih (i + 1) false (resolveY D0 p s) hrest
      refine ⟨v :: vs, ?_, ?_⟩
      · have hn : nextIota D0 i true false = i + 1 := rfl
        rw [blockWalkY]
        simp only [hstage, hg, List.isEmpty_cons, hn, Bool.not_true, Bool.and_false]
        exact .cons _ v n m _ _ rfl hcfg huse hgood
      · rw [hres]
        rw [hcur] at hgoes ⊢
        simp only [Spec.blockGoFrom, List.map_cons]
        rw [hgo, hgoes]

end YaegiVerif.Proofs.C03
