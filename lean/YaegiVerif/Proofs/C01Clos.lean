import YaegiVerif.Model.Closures
/-
  C01, closure fragment — yaegi's frame mechanism (Model/Closures.lean, `Mech.yaegi`) implements Go's
  lexical scoping (Spec/GoClosure.lean): for every well-scoped program and every fuel the two
  evaluators give the same result.

  The invariant is a partial bijection `β` between the locations of the Go semantics and the cells of the
  model ("memory injection"): for every name visible at a program point, the location the environment
  gives it is mapped by `β` to the cell found through `getFrame(level).data[index]` of its resolved
  address; related locations hold related values; a closure value of the semantics (code, environment)
  is related to a function value of the model (resolved code, cloned frame) when the clone holds, for
  every name visible where the literal stands, the cell of that name's location.
  Locations without counterpart: the Go semantics declares the next iteration's loop variable before the
  post statement, yaegi allocates the per-iteration cell after the condition — in between the location
  is pending and its value lives in the loop variable's own cell, which in turn has no counterpart.
-/
namespace YaegiVerif.Clos
open YaegiVerif.Core (Val BinOp CmpOp)

/-! ## A. expressions -/

theorem XExpr.eval_map {α β : Type} (g : α → β) (look : β → Option Val) (e : XExpr α) :
    (e.map g).eval look = e.eval (fun a => look (g a)) := by
  induction e with
  | lit v => rfl
  | var a => rfl
  | bin op l r ihl ihr => simp only [XExpr.map, XExpr.eval, ihl, ihr]
  | neg e ih => simp only [XExpr.map, XExpr.eval, ih]
  | cpl e ih => simp only [XExpr.map, XExpr.eval, ih]

theorem XExpr.eval_congr {α : Type} (l1 l2 : α → Option Val) (p : α → Bool)
    (h : ∀ a, p a = true → l1 a = l2 a) (e : XExpr α) (he : e.all p = true) : e.eval l1 = e.eval l2 := by
  induction e with
  | lit v => rfl
  | var a => simp only [XExpr.all] at he; simp only [XExpr.eval, h a he]
  | bin op l r ihl ihr =>
    simp only [XExpr.all, Bool.and_eq_true] at he
    simp only [XExpr.eval, ihl he.1, ihr he.2]
  | neg e ih => simp only [XExpr.all] at he; simp only [XExpr.eval, ih he]
  | cpl e ih => simp only [XExpr.all] at he; simp only [XExpr.eval, ih he]

theorem XCond.eval_map {α β : Type} (g : α → β) (look : β → Option Val) (c : XCond α) :
    (c.map g).eval look = c.eval (fun a => look (g a)) := by
  induction c with
  | cmp op a b => simp only [XCond.map, XCond.eval, XExpr.eval_map]
  | not c ih => simp only [XCond.map, XCond.eval, ih]
  | land a b iha ihb => simp only [XCond.map, XCond.eval, iha, ihb]
  | lor a b iha ihb => simp only [XCond.map, XCond.eval, iha, ihb]

theorem XCond.eval_congr {α : Type} (l1 l2 : α → Option Val) (p : α → Bool)
    (h : ∀ a, p a = true → l1 a = l2 a) (c : XCond α) (hc : c.all p = true) : c.eval l1 = c.eval l2 := by
  induction c with
  | cmp op a b =>
    simp only [XCond.all, Bool.and_eq_true] at hc
    simp only [XCond.eval, XExpr.eval_congr l1 l2 p h a hc.1, XExpr.eval_congr l1 l2 p h b hc.2]
  | not c ih => simp only [XCond.all] at hc; simp only [XCond.eval, ih hc]
  | land a b iha ihb =>
    simp only [XCond.all, Bool.and_eq_true] at hc
    simp only [XCond.eval, iha hc.1, ihb hc.2]
  | lor a b iha ihb =>
    simp only [XCond.all, Bool.and_eq_true] at hc
    simp only [XCond.eval, iha hc.1, ihb hc.2]

/-! ## B. scopes: static facts about `compile` -/

/-- every visible slot of the current function is allocated -/
def ScopeOK (sc : Scope) : Prop := ∀ x i, Env.find sc.cur x = some i → i < sc.next

/-- the names `vs` (what the well-scopedness check tracks) are all resolvable in `sc` -/
def Covers (sc : Scope) (vs : List Nat) : Prop := ∀ x, vs.contains x = true → (sc.lookup x).isSome = true

theorem find_cons (y l : Nat) (ρ : Env) (x : Nat) :
    Env.find ((y, l) :: ρ) x = if x = y then some l else Env.find ρ x := rfl

theorem lookup_declare (sc : Scope) (y x : Nat) :
    (sc.declare y).lookup x = if x = y then some (0, sc.next) else sc.lookup x := by
  by_cases h : x = y <;> simp [Scope.lookup, Scope.declare, find_cons, h]

theorem lookup_leave (sc after : Scope) (x : Nat) : (sc.leave after).lookup x = sc.lookup x := rfl

theorem ScopeOK.declare {sc : Scope} (h : ScopeOK sc) (y : Nat) : ScopeOK (sc.declare y) := by
  intro x i hx
  simp only [Scope.declare, find_cons] at hx ⊢
  split at hx
  · cases hx; omega
  · have := h x i hx; omega

theorem ScopeOK.leave {sc after : Scope} (h : ScopeOK sc) (hle : sc.next ≤ after.next) : ScopeOK (sc.leave after) := by
  intro x i hx
  have := h x i hx
  simp only [Scope.leave] at hx ⊢
  omega

theorem Covers.declare {sc : Scope} {vs : List Nat} (h : Covers sc vs) (y : Nat) : Covers (sc.declare y) (y :: vs) := by
  intro x hx
  rw [lookup_declare]
  split
  · rfl
  · rename_i hne
    apply h
    simp only [List.contains_cons, Bool.or_eq_true, beq_iff_eq] at hx
    cases hx with
    | inl h1 => exact absurd h1 hne
    | inr h1 => exact h1

theorem Covers.leave {sc : Scope} {vs : List Nat} (h : Covers sc vs) (after : Scope) : Covers (sc.leave after) vs :=
  fun x hx => h x hx

theorem compile_next_le (s : Stmt) : ∀ sc : Scope, sc.next ≤ (compile sc s).2.next := by
  induction s with
  | skip => intro sc; exact Nat.le_refl _
  | seq a b iha ihb => intro sc; exact Nat.le_trans (iha sc) (ihb _)
  | set d x e => intro sc; cases d <;> simp [compile, Scope.declare]
  | setFn d x ps body res ih => intro sc; cases d <;> simp [compile, Scope.declare]
  | setCall d x f args => intro sc; cases d <;> simp [compile, Scope.declare]
  | block s ih => intro sc; exact ih sc
  | ite c t e iht ihe =>
    intro sc
    simp only [compile, Scope.leave]
    exact Nat.le_trans (iht sc) (ihe ⟨sc.cur, (compile sc t).2.next, sc.outer⟩)
  | «while» c body ih => intro sc; exact ih sc
  | forc x init c py pe body ih =>
    intro sc
    simp only [compile, Scope.leave]
    have := ih ((sc.declare x).declare x)
    have h1 : ((sc.declare x).declare x).next = sc.next + 2 := rfl
    omega
  | rng x n body ih =>
    intro sc
    simp only [compile, Scope.leave]
    have := ih ((Scope.declare { sc with next := sc.next + 1 } x).declare x)
    have h1 : ((Scope.declare { sc with next := sc.next + 1 } x).declare x).next = sc.next + 3 := rfl
    omega
  | print e => intro sc; exact Nat.le_refl _
  | ret e => intro sc; exact Nat.le_refl _
  | brk => intro sc; exact Nat.le_refl _
  | cont => intro sc; exact Nat.le_refl _

theorem compile_outer (s : Stmt) : ∀ sc : Scope, (compile sc s).2.outer = sc.outer := by
  induction s with
  | seq a b iha ihb => intro sc; simp only [compile]; rw [ihb, iha]
  | set d x e => intro sc; cases d <;> rfl
  | setFn d x ps body res ih => intro sc; cases d <;> rfl
  | setCall d x f args => intro sc; cases d <;> rfl
  | _ => intro sc; rfl

theorem compile_scopeOK (s : Stmt) : ∀ sc : Scope, ScopeOK sc → ScopeOK (compile sc s).2 := by
  induction s with
  | seq a b iha ihb => intro sc h; exact ihb _ (iha sc h)
  | set d x e => intro sc h; cases d <;> simp only [compile] <;> first | exact h | exact h.declare x
  | setFn d x ps body res ih => intro sc h; cases d <;> simp only [compile] <;> first | exact h | exact h.declare x
  | setCall d x f args => intro sc h; cases d <;> simp only [compile] <;> first | exact h | exact h.declare x
  | block s ih => intro sc h; exact h.leave (compile_next_le s sc)
  | ite c t e iht ihe =>
    intro sc h
    exact h.leave (Nat.le_trans (compile_next_le t sc) (compile_next_le e (sc.leave (compile sc t).2)))
  | «while» c body ih => intro sc h; exact h.leave (compile_next_le body sc)
  | forc x init c py pe body ih =>
    intro sc h
    refine h.leave ?_
    have := compile_next_le body ((sc.declare x).declare x)
    have h1 : ((sc.declare x).declare x).next = sc.next + 2 := rfl
    omega
  | rng x n body ih =>
    intro sc h
    refine h.leave ?_
    have := compile_next_le body ((Scope.declare { sc with next := sc.next + 1 } x).declare x)
    have h1 : ((Scope.declare { sc with next := sc.next + 1 } x).declare x).next = sc.next + 3 := rfl
    omega
  | _ => intro sc h; exact h

theorem compile_covers (s : Stmt) : ∀ (sc : Scope) (vs : List Nat), Covers sc vs → Covers (compile sc s).2 (s.declared vs) := by
  induction s with
  | seq a b iha ihb => intro sc vs h; exact ihb _ _ (iha sc vs h)
  | set d x e => intro sc vs h; cases d <;> simp only [compile, Stmt.declared] <;> first | exact h | exact h.declare x
  | setFn d x ps body res ih =>
    intro sc vs h; cases d <;> simp only [compile, Stmt.declared] <;> first | exact h | exact h.declare x
  | setCall d x f args =>
    intro sc vs h; cases d <;> simp only [compile, Stmt.declared] <;> first | exact h | exact h.declare x
  | _ => intro sc vs h; exact h

/-! ## C. the invariant -/

/-- frames without references to live frames: what `Mech.yaegi` builds -/
def Cap.Pure : Cap → Prop
  | .nil => True
  | .snap _ a => a.Pure
  | .ref _ => False

/-- `getFrame` through clones only -/
def Cap.plook : Nat → Cap → Option Data
  | _, .nil => none
  | 0, .snap d _ => some d
  | k + 1, .snap _ a => Cap.plook k a
  | _, .ref _ => none

theorem Cap.look_pure (acts : List FrameObj) : ∀ (c : Cap) (k : Nat), c.Pure → c.look acts k = c.plook k := by
  intro c
  induction c with
  | nil => intro k _; cases k <;> rfl
  | snap d a ih =>
    intro k h
    cases k with
    | zero => rfl
    | succ k => exact ih k h
  | ref n => intro k h; exact False.elim h

/-- the cell of an address in a frame (`data`, ancestors) -/
def cellOf (d : Data) (anc : Cap) : Addr → Option Nat
  | (0, i) => some (d i)
  | (k + 1, i) => (anc.plook k).map (· i)

theorem Fr.cell_pure (fr : Fr) (acts : List FrameObj) (h : fr.anc.Pure) (a : Addr) :
    fr.cell acts a = cellOf fr.data fr.anc a := by
  obtain ⟨k, i⟩ := a
  cases k with
  | zero => rfl
  | succ k => simp only [Fr.cell, cellOf, Cap.look_pure acts fr.anc k h]

/-- partial bijection: location of the semantics ↦ cell of the model -/
abbrev Beta := Nat → Option Nat

def Beta.le (β β' : Beta) : Prop := ∀ l m, β l = some m → β' l = some m

/-- everything `β'` maps in addition to `β` goes to cells allocated at or after `n` -/
def FreshExt (β β' : Beta) (n : Nat) : Prop := ∀ l m, β' l = some m → β l = none → n ≤ m

def Beta.ext (β : Beta) (l m : Nat) : Beta := fun l' => if l' = l then some m else β l'

theorem Beta.le_refl (β : Beta) : β.le β := fun _ _ h => h
theorem Beta.le_trans {a b c : Beta} (h1 : a.le b) (h2 : b.le c) : a.le c := fun l m h => h2 l m (h1 l m h)
theorem FreshExt.refl (β : Beta) (n : Nat) : FreshExt β β n := by
  intro l m h1 h2; rw [h1] at h2; cases h2

theorem FreshExt.trans {a b c : Beta} {n n' : Nat} (hbc : b.le c) (h1 : FreshExt a b n) (h2 : FreshExt b c n')
    (hn : n ≤ n') : FreshExt a c n := by
  intro l m hc ha
  cases hb : b l with
  | none => exact Nat.le_trans hn (h2 l m hc hb)
  | some m' =>
    have := hbc l m' hb
    rw [hc] at this
    cases this
    exact h1 l m hb ha

theorem Beta.le_ext (β : Beta) (l m : Nat) (h : β l = none) : β.le (β.ext l m) := by
  intro l' m' h'
  simp only [Beta.ext]
  split
  · rename_i e; subst e; rw [h] at h'; cases h'
  · exact h'

theorem FreshExt.ext (β : Beta) (l m : Nat) : FreshExt β (β.ext l m) m := by
  intro l' m' h1 h2
  simp only [Beta.ext] at h1
  split at h1
  · cases h1; exact Nat.le_refl _
  · rw [h2] at h1; cases h1

/-- the environment of the semantics and the frame of the model agree, through `β`, on every name the scope resolves -/
def EnvRel (β : Beta) (ρ : Env) (sc : Scope) (d : Data) (anc : Cap) : Prop :=
  ∀ x a, sc.lookup x = some a → ∃ l m, ρ.find x = some l ∧ β l = some m ∧ cellOf d anc a = some m

/-- the resolved code of a function literal standing in scope `scc` -/
def ClosCode (scc : Scope) (ps : List Nat) (body : Stmt) (res : XExpr Nat)
    (np nslots : Nat) (cbody : RStmt) (cres : XExpr Addr) : Prop :=
  np = ps.length ∧ cbody = (compile (scc.pushFunc ps) body).1 ∧
    nslots = (compile (scc.pushFunc ps) body).2.next ∧ cres = res.map (compile (scc.pushFunc ps) body).2.res

/-- the literal is well scoped where it stands -/
def ClosWS (scc : Scope) (ps : List Nat) (body : Stmt) (res : XExpr Nat) : Prop :=
  ∃ vs, Covers scc vs ∧ body.wellScoped (ps.reverse ++ vs) = true ∧
    res.all ((body.declared (ps.reverse ++ vs)).contains ·) = true

/-- related values: equal ints; a closure and a function value whose cloned frame holds the cells of the
    closure's environment -/
def VRel (β : Beta) : SVal → MVal → Prop
  | .int a, .int b => a = b
  | .fn ps body res ρc, .fn np nslots cbody cres cap =>
    ∃ scc d anc, cap = .snap d anc ∧ anc.Pure ∧ ScopeOK scc ∧ EnvRel β ρc scc d anc ∧
      ClosCode scc ps body res np nslots cbody cres ∧ ClosWS scc ps body res
  | _, _ => False

def VRelL (β : Beta) : List SVal → List MVal → Prop
  | [], [] => True
  | a :: as, b :: bs => VRel β a b ∧ VRelL β as bs
  | _, _ => False

def SigRel (β : Beta) : Sig SVal → Sig MVal → Prop
  | .normal, .normal => True
  | .brk, .brk => True
  | .cont, .cont => True
  | .ret v, .ret w => VRel β v w
  | _, _ => False

/-- same output; related locations hold related values; `β` is injective -/
structure StoreRel (β : Beta) (stS : SSt) (stM : MSt) : Prop where
  out : stS.out = stM.out
  inj : ∀ l l' m, β l = some m → β l' = some m → l = l'
  val : ∀ l m, β l = some m → ∃ vS vM, stS.store[l]? = some vS ∧ stM.store[m]? = some vM ∧ VRel β vS vM

theorem EnvRel.mono {β β' : Beta} {ρ : Env} {sc : Scope} {d d' : Data} {anc : Cap}
    (h : EnvRel β ρ sc d anc) (hle : β.le β') (hok : ScopeOK sc) (hk : ∀ i, i < sc.next → d' i = d i) :
    EnvRel β' ρ sc d' anc := by
  intro x a hx
  obtain ⟨l, m, h1, h2, h3⟩ := h x a hx
  refine ⟨l, m, h1, hle l m h2, ?_⟩
  obtain ⟨k, i⟩ := a
  cases k with
  | succ k => exact h3
  | zero =>
    simp only [cellOf] at h3 ⊢
    have hi : i < sc.next := by
      simp only [Scope.lookup] at hx
      cases hf : Env.find sc.cur x with
      | some j =>
        simp only [hf, Option.some.injEq, Prod.mk.injEq] at hx
        have := hok x j hf
        omega
      | none =>
        simp only [hf] at hx
        -- an outer name has level ≥ 1
        exact absurd hx (by
          have : ∀ (vss : List (List (Nat × Nat))) (k : Nat), k ≥ 1 → lookupOuter vss x k ≠ some (0, i) := by
            intro vss
            induction vss with
            | nil => intro k _ h; cases h
            | cons vs rest ih =>
              intro k hk h
              simp only [lookupOuter] at h
              split at h
              · simp only [Option.some.injEq, Prod.mk.injEq] at h; omega
              · exact ih (k + 1) (by omega) h
          exact this sc.outer 1 (Nat.le_refl _))
    rw [hk i hi]; exact h3

theorem EnvRel.mono_beta {β β' : Beta} {ρ : Env} {sc : Scope} {d : Data} {anc : Cap}
    (h : EnvRel β ρ sc d anc) (hle : β.le β') : EnvRel β' ρ sc d anc := by
  intro x a hx
  obtain ⟨l, m, h1, h2, h3⟩ := h x a hx
  exact ⟨l, m, h1, hle l m h2, h3⟩

theorem VRel.mono {β β' : Beta} (hle : β.le β') : ∀ {v : SVal} {w : MVal}, VRel β v w → VRel β' v w := by
  intro v w h
  cases v with
  | int a => cases w with
    | int b => exact h
    | fn _ _ _ _ _ => exact h
  | fn ps body res ρc => cases w with
    | int b => exact h
    | fn np nslots cbody cres cap =>
      obtain ⟨scc, d, anc, h1, h2, h3, h4, h5, h6⟩ := h
      exact ⟨scc, d, anc, h1, h2, h3, h4.mono_beta hle, h5, h6⟩

theorem VRelL.mono {β β' : Beta} (hle : β.le β') : ∀ {vs : List SVal} {ws : List MVal}, VRelL β vs ws → VRelL β' vs ws := by
  intro vs
  induction vs with
  | nil => intro ws h; cases ws with
    | nil => trivial
    | cons _ _ => exact h
  | cons v vs ih => intro ws h; cases ws with
    | nil => exact h
    | cons w ws => exact ⟨VRel.mono hle h.1, ih h.2⟩

theorem VRelL.length {β : Beta} : ∀ {vs : List SVal} {ws : List MVal}, VRelL β vs ws → vs.length = ws.length := by
  intro vs
  induction vs with
  | nil => intro ws h; cases ws with
    | nil => rfl
    | cons _ _ => exact absurd h id
  | cons v vs ih => intro ws h; cases ws with
    | nil => exact absurd h id
    | cons w ws => simp only [List.length_cons, ih h.2]

theorem SigRel.mono {β β' : Beta} (hle : β.le β') {a : Sig SVal} {b : Sig MVal} (h : SigRel β a b) : SigRel β' a b := by
  cases a <;> cases b <;> first | exact h | exact VRel.mono hle h

theorem VRel.int_eq {β : Beta} {v : SVal} {w : MVal} (h : VRel β v w) : intOfS (some v) = intOfM (some w) := by
  cases v <;> cases w
  · simp only [VRel] at h; simp only [intOfS, intOfM, h]
  · exact absurd h id
  · exact absurd h id
  · rfl

/-! ## D. results of runs, and what a statement guarantees -/

def RRel {α β : Type} (P : α → β → Prop) : Res α → Res β → Prop
  | .fuel, .fuel => True
  | .fail f o, .fail f' o' => f = f' ∧ o = o'
  | .ok a, .ok b => P a b
  | _, _ => False

theorem RRel.bind {α β α' β' : Type} {P : α → β → Prop} {Q : α' → β' → Prop} {r1 : Res α} {r2 : Res β}
    {k1 : α → Res α'} {k2 : β → Res β'} (h : RRel P r1 r2) (hk : ∀ a b, P a b → RRel Q (k1 a) (k2 b)) :
    RRel Q (r1.bind k1) (r2.bind k2) := by
  cases r1 <;> cases r2 <;> first | exact h | exact False.elim h | exact hk _ _ h

theorem RRel.mono {α β : Type} {P Q : α → β → Prop} {r1 : Res α} {r2 : Res β} (h : RRel P r1 r2)
    (hpq : ∀ a b, P a b → Q a b) : RRel Q r1 r2 := by
  cases r1 <;> cases r2 <;> first | exact h | exact False.elim h | exact hpq _ _ h

theorem Res.bind_ok {α : Type} (r : Res α) : r.bind .ok = r := by cases r <;> rfl

/-- what running a statement from related states guarantees, with witness `β'` -/
structure PostW (β : Beta) (sc : Scope) (fr : Fr) (n : Nat) (sc' : Scope)
    (rS : Sig SVal × Env × SSt) (rM : Sig MVal × Fr × MSt) (β' : Beta) : Prop where
  le : β.le β'
  fresh : FreshExt β β' n
  grow : n ≤ rM.2.2.store.length
  store : StoreRel β' rS.2.2 rM.2.2
  anc : rM.2.1.anc = fr.anc
  keep : ∀ i, i < sc.next → rM.2.1.data i = fr.data i
  sig : SigRel β' rS.1 rM.1
  env : rS.1 = .normal → EnvRel β' rS.2.1 sc' rM.2.1.data fr.anc

def Post (β : Beta) (sc : Scope) (fr : Fr) (n : Nat) (sc' : Scope)
    (rS : Sig SVal × Env × SSt) (rM : Sig MVal × Fr × MSt) : Prop := ∃ β', PostW β sc fr n sc' rS rM β'

theorem Post.trans {β β1 : Beta} {sc sc1 sc2 : Scope} {fr fr1 : Fr} {n n1 : Nat}
    {rS : Sig SVal × Env × SSt} {rM : Sig MVal × Fr × MSt}
    (hle : β.le β1) (hfr : FreshExt β β1 n) (hn : n ≤ n1) (hsc : sc.next ≤ sc1.next) (hanc : fr1.anc = fr.anc)
    (hkeep : ∀ i, i < sc.next → fr1.data i = fr.data i)
    (h : Post β1 sc1 fr1 n1 sc2 rS rM) : Post β sc fr n sc2 rS rM := by
  obtain ⟨β2, w⟩ := h
  refine ⟨β2, ⟨Beta.le_trans hle w.le, FreshExt.trans w.le hfr w.fresh hn, Nat.le_trans hn w.grow, w.store,
    w.anc.trans hanc, ?_, w.sig, ?_⟩⟩
  · intro i hi; rw [w.keep i (by omega), hkeep i hi]
  · intro hs; have := w.env hs; rw [hanc] at this; exact this

/-- a result that is not a normal end passes through enclosing sequences unchanged -/
theorem Post.nonnormal {β : Beta} {sc sc1 sc2 : Scope} {fr : Fr} {n : Nat}
    {rS : Sig SVal × Env × SSt} {rM : Sig MVal × Fr × MSt} (hne : rS.1 ≠ .normal)
    (h : Post β sc fr n sc1 rS rM) : Post β sc fr n sc2 rS rM := by
  obtain ⟨β', w⟩ := h
  exact ⟨β', ⟨w.le, w.fresh, w.grow, w.store, w.anc, w.keep, w.sig, fun hs => absurd hs hne⟩⟩

theorem StoreRel.dom {β : Beta} {stS : SSt} {stM : MSt} (h : StoreRel β stS stM) {l m : Nat} (hl : β l = some m) :
    l < stS.store.length ∧ m < stM.store.length := by
  obtain ⟨vS, vM, h1, h2, _⟩ := h.val l m hl
  obtain ⟨h1', _⟩ := List.getElem?_eq_some_iff.1 h1
  obtain ⟨h2', _⟩ := List.getElem?_eq_some_iff.1 h2
  exact ⟨h1', h2'⟩

theorem StoreRel.undef {β : Beta} {stS : SSt} {stM : MSt} (h : StoreRel β stS stM) {l : Nat}
    (hl : stS.store.length ≤ l) : β l = none := by
  cases hb : β l with
  | none => rfl
  | some m => have := (h.dom hb).1; omega

theorem StoreRel.notimg {β : Beta} {stS : SSt} {stM : MSt} (h : StoreRel β stS stM) {l m : Nat}
    (hm : stM.store.length ≤ m) : β l ≠ some m := by
  intro hb; have := (h.dom hb).2; omega

/-- a value read through related addresses -/
theorem val_rel {β : Beta} {ρ : Env} {sc : Scope} {fr : Fr} {stS : SSt} {stM : MSt}
    (hp : fr.anc.Pure) (he : EnvRel β ρ sc fr.data fr.anc) (hs : StoreRel β stS stM)
    {x : Nat} {a : Addr} (hx : sc.lookup x = some a) :
    ∃ vS vM, valS ρ stS x = some vS ∧ valM fr stM a = some vM ∧ VRel β vS vM := by
  obtain ⟨l, m, h1, h2, h3⟩ := he x a hx
  obtain ⟨vS, vM, g1, g2, g3⟩ := hs.val l m h2
  refine ⟨vS, vM, ?_, ?_, g3⟩
  · simp only [valS, h1, g1]
  · simp only [valM, Fr.cell_pure fr stM.acts hp a, h3, g2]

theorem res_of_lookup {sc : Scope} {x : Nat} {a : Addr} (h : sc.lookup x = some a) : sc.res x = a := by
  simp only [Scope.res, h, Option.getD_some]

theorem look_agree {β : Beta} {ρ : Env} {sc : Scope} {fr : Fr} {stS : SSt} {stM : MSt} {vs : List Nat}
    (hp : fr.anc.Pure) (he : EnvRel β ρ sc fr.data fr.anc) (hs : StoreRel β stS stM) (hc : Covers sc vs)
    (x : Nat) (hx : vs.contains x = true) : lookS ρ stS x = lookM fr stM (sc.res x) := by
  have := hc x hx
  cases hl : sc.lookup x with
  | none => rw [hl] at this; cases this
  | some a =>
    obtain ⟨vS, vM, h1, h2, h3⟩ := val_rel hp he hs hl
    simp only [lookS, lookM, res_of_lookup hl, h1, h2, h3.int_eq]

theorem expr_agree {β : Beta} {ρ : Env} {sc : Scope} {fr : Fr} {stS : SSt} {stM : MSt} {vs : List Nat}
    (hp : fr.anc.Pure) (he : EnvRel β ρ sc fr.data fr.anc) (hs : StoreRel β stS stM) (hc : Covers sc vs)
    (e : XExpr Nat) (hw : e.all (vs.contains ·) = true) :
    (e.map sc.res).eval (lookM fr stM) = e.eval (lookS ρ stS) := by
  rw [XExpr.eval_map]
  exact (XExpr.eval_congr _ _ (vs.contains ·) (look_agree hp he hs hc) e hw).symm

theorem cond_agree {β : Beta} {ρ : Env} {sc : Scope} {fr : Fr} {stS : SSt} {stM : MSt} {vs : List Nat}
    (hp : fr.anc.Pure) (he : EnvRel β ρ sc fr.data fr.anc) (hs : StoreRel β stS stM) (hc : Covers sc vs)
    (c : XCond Nat) (hw : c.all (vs.contains ·) = true) :
    (c.map sc.res).eval (lookM fr stM) = c.eval (lookS ρ stS) := by
  rw [XCond.eval_map]
  exact (XCond.eval_congr _ _ (vs.contains ·) (look_agree hp he hs hc) c hw).symm

/-- results of evaluating right-hand sides -/
def ERel {α β : Type} (P : α → β → Prop) : Except Fail α → Except Fail β → Prop
  | .ok a, .ok b => P a b
  | .error f, .error f' => f = f'
  | _, _ => False

theorem rhs_rel {β : Beta} {ρ : Env} {sc : Scope} {fr : Fr} {stS : SSt} {stM : MSt} {vs : List Nat}
    (hp : fr.anc.Pure) (he : EnvRel β ρ sc fr.data fr.anc) (hs : StoreRel β stS stM) (hc : Covers sc vs)
    (e : XExpr Nat) (hw : e.all (vs.contains ·) = true) :
    ERel (VRel β) (rhsS ρ stS e) (rhsM fr stM (e.map sc.res)) := by
  have gen : ∀ e' : XExpr Nat, e'.all (vs.contains ·) = true →
      ERel (VRel β) (match e'.eval (lookS ρ stS) with | .ok v => .ok (.int v) | .error f => .error f)
        (match (e'.map sc.res).eval (lookM fr stM) with | .ok v => .ok (.int v) | .error f => .error f) := by
    intro e' hw'
    rw [expr_agree hp he hs hc e' hw']
    cases e'.eval (lookS ρ stS) with
    | ok v => simp only [ERel, VRel]
    | error f => simp only [ERel]
  cases e with
  | var x =>
    simp only [XExpr.all] at hw
    have := hc x hw
    cases hl : sc.lookup x with
    | none => rw [hl] at this; cases this
    | some a =>
      obtain ⟨vS, vM, h1, h2, h3⟩ := val_rel hp he hs hl
      simp only [rhsS, rhsM, XExpr.map, res_of_lookup hl, h1, h2, ERel, h3]
  | lit v => exact gen _ hw
  | bin op l r => exact gen _ hw
  | neg a => exact gen _ hw
  | cpl a => exact gen _ hw

theorem args_rel {β : Beta} {ρ : Env} {sc : Scope} {fr : Fr} {stS : SSt} {stM : MSt} {vs : List Nat}
    (hp : fr.anc.Pure) (he : EnvRel β ρ sc fr.data fr.anc) (hs : StoreRel β stS stM) (hc : Covers sc vs) :
    ∀ (es : List (XExpr Nat)), allExprs (vs.contains ·) es = true →
      ERel (VRelL β) (argsS ρ stS es) (argsM fr stM (mapExprs sc.res es)) := by
  intro es
  induction es with
  | nil => intro _; simp only [argsS, argsM, mapExprs, ERel, VRelL]
  | cons e es ih =>
    intro hw
    simp only [allExprs, Bool.and_eq_true] at hw
    have h1 := rhs_rel hp he hs hc e hw.1
    have h2 := ih hw.2
    simp only [argsS, argsM, mapExprs]
    cases r1 : rhsS ρ stS e <;> cases r2 : rhsM fr stM (e.map sc.res) <;> rw [r1, r2] at h1 <;>
      simp only [ERel] at h1 ⊢
    · exact h1
    · cases a1 : argsS ρ stS es <;> cases a2 : argsM fr stM (mapExprs sc.res es) <;> rw [a1, a2] at h2 <;>
        simp only [ERel] at h2 ⊢
      · exact h2
      · exact ⟨h1, h2⟩

/-! ## E. stores -/

theorem StoreRel.push_both {β : Beta} {stS : SSt} {stM : MSt} (h : StoreRel β stS stM) {vS : SVal} {vM : MVal}
    (hv : VRel β vS vM) (acts : List FrameObj) :
    StoreRel (β.ext stS.store.length stM.store.length) (stS.push vS) { (stM.push vM) with acts := acts } := by
  have hle : β.le (β.ext stS.store.length stM.store.length) := Beta.le_ext _ _ _ (h.undef (Nat.le_refl _))
  constructor
  · exact h.out
  · intro l l' m h1 h2
    simp only [Beta.ext] at h1 h2
    split at h1 <;> split at h2
    · rename_i e1 e2; rw [e1, e2]
    · cases h1; exact absurd h2 (h.notimg (Nat.le_refl _))
    · cases h2; exact absurd h1 (h.notimg (Nat.le_refl _))
    · exact h.inj l l' m h1 h2
  · intro l m hl
    simp only [Beta.ext] at hl
    split at hl
    · rename_i e; cases hl; subst e
      refine ⟨vS, vM, ?_, ?_, VRel.mono hle hv⟩
      · simp only [SSt.push, List.getElem?_concat_length]
      · simp only [MSt.push, List.getElem?_concat_length]
    · obtain ⟨wS, wM, g1, g2, g3⟩ := h.val l m hl
      have := h.dom hl
      refine ⟨wS, wM, ?_, ?_, VRel.mono hle g3⟩
      · simp only [SSt.push, List.getElem?_append_left this.1, g1]
      · simp only [MSt.push, List.getElem?_append_left this.2, g2]

theorem StoreRel.write_both {β : Beta} {stS : SSt} {stM : MSt} (h : StoreRel β stS stM) {vS : SVal} {vM : MVal}
    (hv : VRel β vS vM) {l m : Nat} (hl : β l = some m) : StoreRel β (stS.write l vS) (stM.write m vM) := by
  have hd := h.dom hl
  constructor
  · exact h.out
  · exact h.inj
  · intro l1 m1 h1
    by_cases e : l1 = l
    · subst e
      rw [hl] at h1; cases h1
      exact ⟨vS, vM, by simp only [SSt.write, List.getElem?_set_self hd.1],
        by simp only [MSt.write, List.getElem?_set_self hd.2], hv⟩
    · have e2 : m1 ≠ m := fun e2 => e (h.inj l1 l m1 h1 (e2 ▸ hl))
      obtain ⟨wS, wM, g1, g2, g3⟩ := h.val l1 m1 h1
      exact ⟨wS, wM, by simp only [SSt.write, List.getElem?_set_ne (Ne.symm e), g1],
        by simp only [MSt.write, List.getElem?_set_ne (Ne.symm e2), g2], g3⟩

/-- the model changes cells that are not images (private cells), or only its table of frames -/
theorem StoreRel.modelOnly {β : Beta} {stS : SSt} {stM stM' : MSt} (h : StoreRel β stS stM)
    (hout : stM'.out = stM.out)
    (hsame : ∀ l m, β l = some m → stM'.store[m]? = stM.store[m]?) : StoreRel β stS stM' := by
  constructor
  · rw [hout]; exact h.out
  · exact h.inj
  · intro l m hl
    obtain ⟨wS, wM, g1, g2, g3⟩ := h.val l m hl
    exact ⟨wS, wM, g1, by rw [hsame l m hl]; exact g2, g3⟩

/-- the semantics changes locations without counterpart, or allocates one -/
theorem StoreRel.specOnly {β : Beta} {stS stS' : SSt} {stM : MSt} (h : StoreRel β stS stM)
    (hout : stS'.out = stS.out)
    (hsame : ∀ l m, β l = some m → stS'.store[l]? = stS.store[l]?) : StoreRel β stS' stM := by
  constructor
  · rw [hout]; exact h.out
  · exact h.inj
  · intro l m hl
    obtain ⟨wS, wM, g1, g2, g3⟩ := h.val l m hl
    exact ⟨wS, wM, by rw [hsame l m hl]; exact g1, g2, g3⟩

/-- a pending location gets its counterpart: a freshly allocated cell holding a related value -/
theorem StoreRel.map_pending {β : Beta} {stS : SSt} {stM : MSt} (h : StoreRel β stS stM) {l : Nat} {vS : SVal} {vM : MVal}
    (hl : β l = none) (hS : stS.store[l]? = some vS) (hv : VRel β vS vM) (acts : List FrameObj) :
    StoreRel (β.ext l stM.store.length) stS { (stM.push vM) with acts := acts } := by
  have hle : β.le (β.ext l stM.store.length) := Beta.le_ext _ _ _ hl
  constructor
  · exact h.out
  · intro l1 l2 m h1 h2
    simp only [Beta.ext] at h1 h2
    split at h1 <;> split at h2
    · rename_i e1 e2; rw [e1, e2]
    · cases h1; exact absurd h2 (h.notimg (Nat.le_refl _))
    · cases h2; exact absurd h1 (h.notimg (Nat.le_refl _))
    · exact h.inj l1 l2 m h1 h2
  · intro l1 m h1
    simp only [Beta.ext] at h1
    split at h1
    · rename_i e; cases h1; subst e
      exact ⟨vS, vM, hS, by simp only [MSt.push, List.getElem?_concat_length], VRel.mono hle hv⟩
    · obtain ⟨wS, wM, g1, g2, g3⟩ := h.val l1 m h1
      have := h.dom h1
      exact ⟨wS, wM, g1, by simp only [MSt.push, List.getElem?_append_left this.2, g2], VRel.mono hle g3⟩

theorem put_keep (d : Data) (i l j : Nat) (h : j ≠ i) : d.put i l j = d j := by
  simp only [Data.put, h, if_false]

theorem put_self (d : Data) (i l : Nat) : d.put i l i = l := by
  simp only [Data.put, if_true]

/-- `x := v`: a fresh location / a fresh cell in the slot `sc.next` -/
theorem store_define {β : Beta} {ρ : Env} {sc : Scope} {fr : Fr} {stS : SSt} {stM : MSt} {vS : SVal} {vM : MVal}
    (x : Nat) (hok : ScopeOK sc) (he : EnvRel β ρ sc fr.data fr.anc) (hs : StoreRel β stS stM) (hv : VRel β vS vM) :
    RRel (Post β sc fr stM.store.length (sc.declare x)) (storeS true x vS ρ stS)
      (storeM .yaegi true (0, sc.next) vM fr stM) := by
  simp only [storeS, storeM, Mech.yaegi, Bool.and_self, if_true, setSlot, RRel]
  have hle : β.le (β.ext stS.store.length stM.store.length) := Beta.le_ext _ _ _ (hs.undef (Nat.le_refl _))
  refine ⟨β.ext stS.store.length stM.store.length, ⟨hle, FreshExt.ext _ _ _, ?_, hs.push_both hv _, rfl, ?_, trivial, ?_⟩⟩
  · simp only [MSt.push, List.length_append, List.length_singleton]; omega
  · intro i hi; exact put_keep _ _ _ _ (by omega)
  · intro _ y a hy
    rw [lookup_declare] at hy
    split at hy
    · rename_i e; cases hy
      refine ⟨stS.store.length, stM.store.length, by simp only [find_cons, e, if_true], by simp only [Beta.ext, if_true], ?_⟩
      simp only [cellOf, put_self]
    · rename_i e
      have he' := he.mono hle hok (d' := fr.data.put sc.next stM.store.length) (fun i hi => put_keep _ _ _ _ (by omega))
      obtain ⟨l, m, h1, h2, h3⟩ := he' y a hy
      exact ⟨l, m, by simp only [find_cons, e, if_false, h1], h2, h3⟩

/-- `x = v`: stored into the location / through the cell of the resolved address -/
theorem store_assign {β : Beta} {ρ : Env} {sc : Scope} {fr : Fr} {stS : SSt} {stM : MSt} {vS : SVal} {vM : MVal}
    {x : Nat} (hp : fr.anc.Pure) (he : EnvRel β ρ sc fr.data fr.anc) (hs : StoreRel β stS stM) (hv : VRel β vS vM)
    (hx : (sc.lookup x).isSome = true) :
    RRel (Post β sc fr stM.store.length sc) (storeS false x vS ρ stS) (storeM .yaegi false (sc.res x) vM fr stM) := by
  cases hl : sc.lookup x with
  | none => rw [hl] at hx; cases hx
  | some a =>
    obtain ⟨l, m, h1, h2, h3⟩ := he x a hl
    simp only [storeS, storeM, Bool.false_and, if_false, h1, res_of_lookup hl, Fr.cell_pure fr stM.acts hp a, h3, RRel,
      Bool.false_eq_true]
    refine ⟨β, ⟨Beta.le_refl _, FreshExt.refl _ _, ?_, hs.write_both hv h2, rfl, fun _ _ => rfl, trivial, fun _ => he⟩⟩
    simp only [MSt.write, List.length_set]; exact Nat.le_refl _

/-- both forms of storing a value into a variable -/
theorem store_rel {β : Beta} {ρ : Env} {sc : Scope} {fr : Fr} {stS : SSt} {stM : MSt} {vS : SVal} {vM : MVal}
    (d : Bool) (x : Nat) (hp : fr.anc.Pure) (hok : ScopeOK sc) (he : EnvRel β ρ sc fr.data fr.anc)
    (hs : StoreRel β stS stM) (hv : VRel β vS vM) (hx : d = true ∨ (sc.lookup x).isSome = true) :
    RRel (Post β sc fr stM.store.length (if d then sc.declare x else sc)) (storeS d x vS ρ stS)
      (storeM .yaegi d (if d then (0, sc.next) else sc.res x) vM fr stM) := by
  cases d with
  | true => exact store_define x hok he hs hv
  | false =>
    cases hx with
    | inl h => cases h
    | inr h => exact store_assign hp he hs hv h

/-! ## F. calls: parameters -/

/-- the environment after binding the parameters, in closed form -/
def bindEnv : List Nat → Nat → Env → Env
  | [], _, ρ => ρ
  | p :: ps, b, ρ => bindEnv ps (b + 1) ((p, b) :: ρ)

theorem bind_closed : ∀ (ps : List Nat) (vs : List SVal) (ρ : Env) (st : SSt), ps.length = vs.length →
    bindParamsS ps vs ρ st = (bindEnv ps st.store.length ρ, { st with store := st.store ++ vs }) := by
  intro ps
  induction ps with
  | nil =>
    intro vs ρ st h
    cases vs with
    | nil => simp only [bindParamsS, bindEnv, List.append_nil]
    | cons _ _ => cases h
  | cons p ps ih =>
    intro vs ρ st h
    cases vs with
    | nil => cases h
    | cons v vs =>
      simp only [List.length_cons, Nat.add_right_cancel_iff] at h
      simp only [bindParamsS, bindEnv]
      rw [ih vs _ _ h]
      simp only [SSt.push, List.length_append, List.length_singleton, List.append_assoc, List.singleton_append]

/-- the visible names after declaring the parameters, in closed form -/
def declCur : List Nat → Nat → List (Nat × Nat) → List (Nat × Nat)
  | [], _, cur => cur
  | p :: ps, k, cur => declCur ps (k + 1) ((p, k) :: cur)

theorem declareAll_closed : ∀ (ps : List Nat) (sc : Scope),
    sc.declareAll ps = ⟨declCur ps sc.next sc.cur, sc.next + ps.length, sc.outer⟩ := by
  intro ps
  induction ps with
  | nil => intro sc; rfl
  | cons p ps ih =>
    intro sc
    simp only [Scope.declareAll, ih, Scope.declare, declCur, List.length_cons]
    congr 1; omega

theorem pushFunc_closed (sc : Scope) (ps : List Nat) :
    sc.pushFunc ps = ⟨declCur ps 0 [], ps.length, sc.cur :: sc.outer⟩ := by
  simp only [Scope.pushFunc, declareAll_closed, Nat.zero_add]

/-- parameters: the name's slot `i` and its location `b0 + i` correspond; other names are untouched -/
theorem bind_find (ρc : Env) (b0 : Nat) : ∀ (ps : List Nat) (k : Nat) (cur : List (Nat × Nat)) (ρ : Env),
    (∀ x, (∀ i, Env.find cur x = some i → Env.find ρ x = some (b0 + i) ∧ i < k) ∧
      (Env.find cur x = none → Env.find ρ x = Env.find ρc x)) →
    ∀ x, (∀ i, Env.find (declCur ps k cur) x = some i →
        Env.find (bindEnv ps (b0 + k) ρ) x = some (b0 + i) ∧ i < k + ps.length) ∧
      (Env.find (declCur ps k cur) x = none → Env.find (bindEnv ps (b0 + k) ρ) x = Env.find ρc x) := by
  intro ps
  induction ps with
  | nil =>
    intro k cur ρ h x
    simp only [declCur, bindEnv, List.length_nil, Nat.add_zero]
    exact h x
  | cons p ps ih =>
    intro k cur ρ h x
    simp only [declCur, bindEnv, List.length_cons]
    have := ih (k + 1) ((p, k) :: cur) ((p, b0 + k) :: ρ) (by
      intro y
      simp only [find_cons]
      by_cases e : y = p
      · simp only [e, if_true, Option.some.injEq]
        exact ⟨fun i hi => by subst hi; exact ⟨rfl, by omega⟩, fun hn => by cases hn⟩
      · simp only [e, if_false]
        exact ⟨fun i hi => ⟨((h y).1 i hi).1, by have := ((h y).1 i hi).2; omega⟩, (h y).2⟩) x
    rw [show b0 + (k + 1) = b0 + k + 1 by omega, show k + 1 + ps.length = k + (ps.length + 1) by omega] at this
    exact this

theorem find_declCur_some : ∀ (ps : List Nat) (k : Nat) (cur : List (Nat × Nat)) (x : Nat),
    (Env.find cur x).isSome = true → (Env.find (declCur ps k cur) x).isSome = true := by
  intro ps
  induction ps with
  | nil => intro k cur x h; exact h
  | cons p ps ih =>
    intro k cur x h
    simp only [declCur]
    apply ih
    simp only [find_cons]
    split
    · rfl
    · exact h

theorem find_declCur_mem : ∀ (ps : List Nat) (k : Nat) (cur : List (Nat × Nat)) (x : Nat),
    ps.contains x = true → (Env.find (declCur ps k cur) x).isSome = true := by
  intro ps
  induction ps with
  | nil => intro k cur x h; cases h
  | cons p ps ih =>
    intro k cur x h
    simp only [declCur]
    simp only [List.contains_cons, Bool.or_eq_true, beq_iff_eq] at h
    by_cases e : ps.contains x = true
    · exact ih _ _ x e
    · cases h with
      | inl h1 =>
        apply find_declCur_some
        simp only [find_cons, h1, if_true, Option.isSome_some]
      | inr h1 => exact absurd h1 e

theorem lookupOuter_shift (x : Nat) : ∀ (vss : List (List (Nat × Nat))) (k : Nat),
    lookupOuter vss x (k + 1) = (lookupOuter vss x k).map (fun a => (a.1 + 1, a.2)) := by
  intro vss
  induction vss with
  | nil => intro k; rfl
  | cons vs rest ih =>
    intro k
    simp only [lookupOuter]
    cases Env.find vs x with
    | some i => rfl
    | none => exact ih (k + 1)

/-- inside the literal: a parameter is at level 0; an outer name is one level further up than at the literal -/
theorem lookup_pushFunc (sc : Scope) (ps : List Nat) (x : Nat) :
    (sc.pushFunc ps).lookup x =
      match Env.find (declCur ps 0 []) x with
      | some i => some (0, i)
      | none => (sc.lookup x).map (fun a => (a.1 + 1, a.2)) := by
  rw [pushFunc_closed]
  simp only [Scope.lookup]
  cases Env.find (declCur ps 0 []) x with
  | some i => rfl
  | none =>
    simp only [lookupOuter]
    cases Env.find sc.cur x with
    | some i => rfl
    | none => exact lookupOuter_shift x sc.outer 1

theorem cellOf_up (d' d : Data) (anc : Cap) (a : Addr) : cellOf d' (.snap d anc) (a.1 + 1, a.2) = cellOf d anc a := by
  obtain ⟨k, i⟩ := a
  cases k <;> rfl

theorem ScopeOK.pushFunc (sc : Scope) (ps : List Nat) : ScopeOK (sc.pushFunc ps) := by
  rw [pushFunc_closed]
  intro x i hx
  have := (bind_find [] 0 ps 0 [] [] (fun y => ⟨fun i hi => (by cases hi), fun _ => rfl⟩) x).1 i hx
  simpa using this.2

theorem Covers.pushFunc {sc : Scope} {vs : List Nat} (h : Covers sc vs) (ps : List Nat) :
    Covers (sc.pushFunc ps) (ps.reverse ++ vs) := by
  intro x hx
  rw [lookup_pushFunc]
  simp only [List.contains_append, List.contains_reverse, Bool.or_eq_true] at hx
  cases hf : Env.find (declCur ps 0 []) x with
  | some i => rfl
  | none =>
    cases hx with
    | inl h1 => have := find_declCur_mem ps 0 [] x h1; rw [hf] at this; cases this
    | inr h1 =>
      have := h x h1
      cases hl : sc.lookup x with
      | none => rw [hl] at this; cases this
      | some a => rfl

theorem VRelL.get {β : Beta} : ∀ {vs : List SVal} {ws : List MVal}, VRelL β vs ws → ∀ i, i < vs.length →
    ∃ v w, vs[i]? = some v ∧ ws[i]? = some w ∧ VRel β v w := by
  intro vs
  induction vs with
  | nil => intro ws _ i hi; cases hi
  | cons v vs ih =>
    intro ws h i hi
    cases ws with
    | nil => exact False.elim h
    | cons w ws =>
      cases i with
      | zero => exact ⟨v, w, rfl, rfl, h.1⟩
      | succ i =>
        simp only [List.length_cons] at hi
        obtain ⟨v', w', h1, h2, h3⟩ := ih h.2 i (by omega)
        exact ⟨v', w', by simpa using h1, by simpa using h2, h3⟩

/-- `β` extended by the parameters: location `b0 + i` ↦ cell `bM + i`, for `i < np` -/
def Beta.extN (β : Beta) (b0 bM np : Nat) : Beta :=
  fun l => if b0 ≤ l ∧ l < b0 + np then some (bM + (l - b0)) else β l

/-- entering a call: the callee's environment and its fresh frame are related -/
theorem call_enter {β : Beta} {stS : SSt} {stM : MSt} (hs : StoreRel β stS stM)
    {ps : List Nat} {ρc : Env} {scc : Scope} {d : Data} {anc : Cap} (hec : EnvRel β ρc scc d anc)
    {vsS : List SVal} {vsM : List MVal} (hv : VRelL β vsS vsM) (hlen : ps.length = vsS.length) (nslots : Nat) :
    let β' := β.extN stS.store.length stM.store.length ps.length
    let rS := bindParamsS ps vsS ρc stS
    let rM := callFrame nslots (.snap d anc) vsM stM
    β.le β' ∧ FreshExt β β' stM.store.length ∧ stM.store.length ≤ rM.2.store.length ∧
      StoreRel β' rS.2 rM.2 ∧ rM.1.anc = .snap d anc ∧ EnvRel β' rS.1 (scc.pushFunc ps) rM.1.data rM.1.anc := by
  intro β' rS rM
  have hlenM : vsS.length = vsM.length := hv.length
  have hle : β.le β' := by
    intro l m hl
    simp only [β', Beta.extN]
    split
    · rename_i c; have := (hs.dom hl).1; omega
    · exact hl
  have hrS : rS = (bindEnv ps stS.store.length ρc, { stS with store := stS.store ++ vsS }) := bind_closed ps vsS ρc stS hlen
  refine ⟨hle, ?_, ?_, ?_, rfl, ?_⟩
  · intro l m h1 h2
    simp only [β', Beta.extN] at h1
    split at h1
    · cases h1; omega
    · rw [h2] at h1; cases h1
  · simp only [rM, callFrame, List.length_append]; omega
  · rw [hrS]
    constructor
    · exact hs.out
    · intro l l' m h1 h2
      simp only [β', Beta.extN] at h1 h2
      split at h1 <;> split at h2
      · simp only [Option.some.injEq] at h1 h2; omega
      · simp only [Option.some.injEq] at h1; have := (hs.dom h2).2; omega
      · simp only [Option.some.injEq] at h2; have := (hs.dom h1).2; omega
      · exact hs.inj l l' m h1 h2
    · intro l m hl
      simp only [β', Beta.extN] at hl
      split at hl
      · rename_i c
        cases hl
        obtain ⟨v, w, g1, g2, g3⟩ := hv.get (l - stS.store.length) (by omega)
        refine ⟨v, w, ?_, ?_, VRel.mono hle g3⟩
        · simp only [List.getElem?_append_right c.1, g1]
        · simp only [rM, callFrame, List.append_assoc]
          rw [List.getElem?_append_right (by omega), show stM.store.length + (l - stS.store.length) - stM.store.length = l - stS.store.length by omega,
            List.getElem?_append_left (by omega), g2]
      · obtain ⟨wS, wM, g1, g2, g3⟩ := hs.val l m hl
        have := hs.dom hl
        refine ⟨wS, wM, ?_, ?_, VRel.mono hle g3⟩
        · simp only [List.getElem?_append_left this.1, g1]
        · simp only [rM, callFrame, List.append_assoc, List.getElem?_append_left this.2, g2]
  · rw [hrS]
    intro x a hx
    rw [lookup_pushFunc] at hx
    have hb := bind_find ρc stS.store.length ps 0 [] ρc (fun y => ⟨fun i hi => (by cases hi), fun _ => rfl⟩) x
    simp only [Nat.add_zero, Nat.zero_add] at hb
    cases hf : Env.find (declCur ps 0 []) x with
    | some i =>
      simp only [hf, Option.some.injEq] at hx
      subst hx
      obtain ⟨g1, g2⟩ := hb.1 i hf
      refine ⟨stS.store.length + i, stM.store.length + i, g1, ?_, ?_⟩
      · simp only [β', Beta.extN]
        rw [if_pos (by omega)]
        congr 2; omega
      · simp only [rM, callFrame, cellOf]
    | none =>
      simp only [hf] at hx
      cases hl : scc.lookup x with
      | none => rw [hl] at hx; cases hx
      | some a0 =>
        rw [hl] at hx
        simp only [Option.map_some, Option.some.injEq] at hx
        subst hx
        obtain ⟨l, m, g1, g2, g3⟩ := hec x a0 hl
        refine ⟨l, m, ?_, hle l m g2, ?_⟩
        · rw [hb.2 hf]; exact g1
        · simp only [rM, callFrame]; rw [cellOf_up]; exact g3

/-! ## G. the simulation -/

/-- the statement level: from related states, a well-scoped statement and its resolved code run to related results -/
def SimStmt (f : Nat) : Prop :=
  ∀ (s : Stmt) (vs : List Nat) (sc : Scope) (ρ : Env) (fr : Fr) (β : Beta) (stS : SSt) (stM : MSt),
    s.wellScoped vs = true → Covers sc vs → ScopeOK sc → fr.anc.Pure →
    EnvRel β ρ sc fr.data fr.anc → StoreRel β stS stM →
    RRel (Post β sc fr stM.store.length (compile sc s).2) (execS f s ρ stS)
      (execM .yaegi f (compile sc s).1 fr stM)

/-- between the phases of a three-clause loop: the location `l` of the current iteration's variable has no
    counterpart (yet); its value lives in the loop variable's own cell `L`, which is not the image of anything -/
structure LoopVar (β : Beta) (stS : SSt) (stM : MSt) (l L : Nat) : Prop where
  pending : β l = none
  priv : ∀ l' m, β l' = some m → m ≠ L
  val : ∃ vS vM, stS.store[l]? = some vS ∧ stM.store[L]? = some vM ∧ VRel β vS vM

def SimFor (f : Nat) : Prop :=
  ∀ (x : Nat) (c : XCond Nat) (py : Nat) (pe : XExpr Nat) (body : Stmt) (vs : List Nat) (sc : Scope) (ρ : Env)
    (fr : Fr) (β : Beta) (stS : SSt) (stM : MSt) (l : Nat),
    c.all ((x :: vs).contains ·) = true → (x :: vs).contains py = true → pe.all ((x :: vs).contains ·) = true →
    body.wellScoped (x :: vs) = true →
    Covers sc vs → ScopeOK sc → fr.anc.Pure → EnvRel β ρ sc fr.data fr.anc → StoreRel β stS stM →
    LoopVar β stS stM l (fr.data sc.next) →
    RRel (Post β sc fr stM.store.length sc) (forS f x c py pe body ρ l stS)
      (forM .yaegi f sc.next (sc.next + 1) (c.map (sc.declare x).res) ((sc.declare x).res py)
        (pe.map (sc.declare x).res) (compile ((sc.declare x).declare x) body).1 fr stM)

/-- the scope of the body of `for x := range …`: a slot for the bound, the hidden index under the name x, the
    per-iteration x in the body's scope -/
def rngScope (sc : Scope) (x : Nat) : Scope := (Scope.declare { sc with next := sc.next + 1 } x).declare x

def SimRng (f : Nat) : Prop :=
  ∀ (x : Nat) (body : Stmt) (vs : List Nat) (sc : Scope) (ρ : Env) (fr : Fr) (β : Beta) (stS : SSt) (stM : MSt)
    (N i : Val),
    body.wellScoped (x :: vs) = true →
    Covers sc vs → ScopeOK sc → fr.anc.Pure → EnvRel β ρ sc fr.data fr.anc → StoreRel β stS stM →
    RRel (Post β sc fr stM.store.length sc) (rngS f x body ρ N i stS)
      (rngM .yaegi f (sc.next + 2) (compile (rngScope sc x) body).1 (.val N) i fr stM)

theorem Post.here {β : Beta} {ρ : Env} {sc : Scope} {fr : Fr} {stS : SSt} {stM : MSt} {sig : Sig SVal} {sig' : Sig MVal}
    (he : EnvRel β ρ sc fr.data fr.anc) (hs : StoreRel β stS stM) (hsig : SigRel β sig sig') :
    Post β sc fr stM.store.length sc (sig, ρ, stS) (sig', fr, stM) :=
  ⟨β, ⟨Beta.le_refl _, FreshExt.refl _ _, Nat.le_refl _, hs, rfl, fun _ _ => rfl, hsig, fun _ => he⟩⟩

theorem EnvRel.congr_lookup {β : Beta} {ρ : Env} {sc sc' : Scope} {d : Data} {anc : Cap}
    (h : EnvRel β ρ sc d anc) (hl : ∀ x, sc'.lookup x = sc.lookup x) : EnvRel β ρ sc' d anc := by
  intro x a hx; rw [hl] at hx; exact h x a hx

/-- leaving a construct: the result keeps its stores and frame, the environment is the one before (`ρ`), and
    the way of ending may change to a related one -/
theorem Post.exit {β : Beta} {ρ ρ1 : Env} {sc sc1 sc2 : Scope} {fr fr1 : Fr} {n : Nat} {stS1 : SSt} {stM1 : MSt}
    {sig sigA : Sig SVal} {sig' sigB : Sig MVal}
    (hok : ScopeOK sc) (he : EnvRel β ρ sc fr.data fr.anc) (hl : ∀ x, sc2.lookup x = sc.lookup x)
    (hsig : ∀ β', SigRel β' sig sig' → SigRel β' sigA sigB)
    (h : Post β sc fr n sc1 (sig, ρ1, stS1) (sig', fr1, stM1)) :
    Post β sc fr n sc2 (sigA, ρ, stS1) (sigB, fr1, stM1) := by
  obtain ⟨β', w⟩ := h
  exact ⟨β', ⟨w.le, w.fresh, w.grow, w.store, w.anc, w.keep, hsig β' w.sig,
    fun _ => (he.mono w.le hok w.keep).congr_lookup hl⟩⟩

theorem StoreRel.emit {β : Beta} {stS : SSt} {stM : MSt} (h : StoreRel β stS stM) (v : Val) :
    StoreRel β (stS.emit v) (stM.emit v) := by
  constructor
  · simp only [SSt.emit, MSt.emit, h.out]
  · exact h.inj
  · exact h.val

theorem sim_zero : SimStmt 0 ∧ SimFor 0 ∧ SimRng 0 := by
  refine ⟨?_, ?_, ?_⟩
  · intro s vs sc ρ fr β stS stM _ _ _ _ _ _
    simp only [execS, execM, RRel]
  · intro x c py pe body vs sc ρ fr β stS stM l _ _ _ _ _ _ _ _ _ _
    simp only [forS, forM, RRel]
  · intro x body vs sc ρ fr β stS stM N i _ _ _ _ _ _
    simp only [rngS, rngM, RRel]

/-- calls -/
theorem sim_call {f : Nat} (ihS : SimStmt f) (d : Bool) (x g : Nat) (args : List (XExpr Nat))
    (vs : List Nat) (sc : Scope) (ρ : Env) (fr : Fr) (β : Beta) (stS : SSt) (stM : MSt)
    (hw : (Stmt.setCall d x g args).wellScoped vs = true) (hc : Covers sc vs) (hok : ScopeOK sc) (hp : fr.anc.Pure)
    (he : EnvRel β ρ sc fr.data fr.anc) (hs : StoreRel β stS stM) :
    RRel (Post β sc fr stM.store.length (compile sc (.setCall d x g args)).2) (execS (f + 1) (.setCall d x g args) ρ stS)
      (execM .yaegi (f + 1) (compile sc (.setCall d x g args)).1 fr stM) := by
  simp only [Stmt.wellScoped, Bool.and_eq_true, Bool.or_eq_true] at hw
  obtain ⟨⟨hwa, hwg⟩, hwx⟩ := hw
  simp only [execS, execM, compile]
  have ha := args_rel hp he hs hc args hwa
  cases a1 : argsS ρ stS args <;> cases a2 : argsM fr stM (mapExprs sc.res args) <;> rw [a1, a2] at ha <;>
    simp only [ERel] at ha
  · exact ⟨ha, hs.out⟩
  · rename_i vsS vsM
    have hgl := hc g hwg
    cases hl : sc.lookup g with
    | none => rw [hl] at hgl; cases hgl
    | some ga =>
      obtain ⟨vS, vM, g1, g2, g3⟩ := val_rel hp he hs hl
      have hlen := ha.length
      cases vS with
      | int a =>
        cases vM with
        | fn _ _ _ _ _ => exact False.elim g3
        | int b =>
          simp only [calleeS, calleeM, g1, g2, res_of_lookup hl, RRel]
          exact ⟨trivial, hs.out⟩
      | fn ps body res ρc =>
        cases vM with
        | int b => exact False.elim g3
        | fn np nslots cbody cres cap =>
          obtain ⟨scc, dd, anc, hcap, hpure, hokc, hec, ⟨hnp, hcb, hns, hcr⟩, ⟨vsc, hcov, hwb, hwr⟩⟩ := g3
          simp only [calleeS, calleeM, g1, g2, res_of_lookup hl, hnp, ← hlen]
          by_cases hn : ps.length = vsS.length
          · simp only [hn, if_true]
            subst hcap
            obtain ⟨hle, hfresh, hgrow, hst, hanc, henv⟩ := call_enter hs hec ha hn nslots
            have hbody := ihS body (ps.reverse ++ vsc) (scc.pushFunc ps) _ _ _ _ _ hwb (hcov.pushFunc ps)
              (ScopeOK.pushFunc scc ps) (by rw [hanc]; exact hpure) henv hst
            rw [← hcb] at hbody
            refine RRel.bind (RRel.bind hbody (Q := fun (a : SVal × SSt) (b : MVal × MSt) =>
              ∃ β2, (β.extN stS.store.length stM.store.length ps.length).le β2 ∧
                FreshExt (β.extN stS.store.length stM.store.length ps.length) β2 (callFrame nslots (.snap dd anc) vsM stM).2.store.length ∧
                (callFrame nslots (.snap dd anc) vsM stM).2.store.length ≤ b.2.store.length ∧
                StoreRel β2 a.2 b.2 ∧ VRel β2 a.1 b.1) ?_) ?_
            · rintro ⟨sig, ρb, stSb⟩ ⟨sig', frb, stMb⟩ ⟨β2, w⟩
              cases sig <;> cases sig' <;> try exact False.elim w.sig
              · -- the body ended normally: the final `return res`
                simp only [bodyResultS, bodyResultM]
                have henvb : EnvRel β2 ρb (compile (scc.pushFunc ps) body).2 frb.data frb.anc := by
                  have := w.env rfl; rw [w.anc]; exact this
                have hr := rhs_rel (by rw [w.anc, hanc]; exact hpure) henvb w.store
                  (compile_covers body _ _ (hcov.pushFunc ps)) res hwr
                rw [← hcr] at hr
                cases r1 : rhsS ρb stSb res <;> cases r2 : rhsM frb stMb cres <;> rw [r1, r2] at hr <;>
                  simp only [ERel] at hr
                · exact ⟨hr, w.store.out⟩
                · exact ⟨β2, w.le, w.fresh, w.grow, w.store, hr⟩
              · simp only [bodyResultS, bodyResultM, RRel]; exact ⟨trivial, w.store.out⟩
              · simp only [bodyResultS, bodyResultM, RRel]; exact ⟨trivial, w.store.out⟩
              · simp only [bodyResultS, bodyResultM, RRel]
                exact ⟨β2, w.le, w.fresh, w.grow, w.store, w.sig⟩
            · rintro ⟨vS', stS'⟩ ⟨vM', stM'⟩ ⟨β2, h1, h2, h3, h4, h5⟩
              have hle2 : β.le β2 := Beta.le_trans hle h1
              have hst := store_rel d x hp hok (he.mono_beta hle2) h4 h5
                (by cases d with
                  | true => exact Or.inl rfl
                  | false =>
                    simp only [Bool.false_eq_true, false_or] at hwx
                    exact Or.inr (hc x hwx))
              refine hst.mono (fun a b hpost => ?_)
              exact Post.trans hle2 (FreshExt.trans h1 hfresh h2 hgrow) (Nat.le_trans hgrow h3) (Nat.le_refl _) rfl
                (fun _ _ => rfl) hpost
          · simp only [hn, if_false, RRel]
            exact ⟨trivial, hs.out⟩

/-! ### three-clause loops -/

/-- what the semantics does after the body of an iteration (normal end or `continue`) -/
def againS (f : Nat) (x : Nat) (c : XCond Nat) (py : Nat) (pe : XExpr Nat) (body : Stmt) (ρ : Env) (l : Nat) :
    Env → SSt → Res (Sig SVal × Env × SSt) := fun _ st1 =>
  match st1.store[l]? with
  | none => .fail .stuck st1.out
  | some v =>
    match pe.eval (lookS ((x, st1.store.length) :: ρ) (st1.push v)) with
    | .error fl => .fail fl (st1.push v).out
    | .ok w =>
      (storeS false py (.int w) ((x, st1.store.length) :: ρ) (st1.push v)).bind
        (fun r => forS f x c py pe body ρ st1.store.length r.2.2)

theorem forS_succ (f : Nat) (x : Nat) (c : XCond Nat) (py : Nat) (pe : XExpr Nat) (body : Stmt) (ρ : Env) (l : Nat)
    (st : SSt) : forS (f + 1) x c py pe body ρ l st =
      match c.eval (lookS ((x, l) :: ρ) st) with
      | .error fl => .fail fl st.out
      | .ok false => .ok (.normal, ρ, st)
      | .ok true => (execS f body ((x, l) :: ρ) st).bind (loopK (fun _ => ρ) (againS f x c py pe body ρ l)) := rfl

/-- what the model does after the body: loopVarForEnd, the post statement, the next iteration -/
def againM (f : Nat) (s0 s1 : Nat) (c : XCond Addr) (pa : Addr) (pe : XExpr Addr) (body : RStmt) :
    Fr → MSt → Res (Sig MVal × Fr × MSt) := fun fr2 st2 =>
  match loopVarForEnd .yaegi s0 s1 fr2 st2 with
  | none => .fail .stuck st2.out
  | some st3 =>
    match pe.eval (lookM fr2 st3) with
    | .error fl => .fail fl st3.out
    | .ok w =>
      (storeM .yaegi false pa (.int w) fr2 st3).bind (fun r => forM .yaegi f s0 s1 c pa pe body r.2.1 r.2.2)

theorem forM_succ (f : Nat) (s0 s1 : Nat) (c : XCond Addr) (pa : Addr) (pe : XExpr Addr) (body : RStmt) (fr : Fr)
    (st : MSt) : forM .yaegi (f + 1) s0 s1 c pa pe body fr st =
      match c.eval (lookM fr st) with
      | .error fl => .fail fl st.out
      | .ok false => .ok (.normal, fr, st)
      | .ok true =>
        match loopVarFor .yaegi s0 s1 fr st with
        | none => .fail .stuck st.out
        | some (fr1, st1) => (execM .yaegi f body fr1 st1).bind (loopK id (againM f s0 s1 c pa pe body)) := rfl

theorem loopVarForEnd_yaegi (s0 s1 : Nat) (fr : Fr) (st : MSt) : loopVarForEnd .yaegi s0 s1 fr st =
    match st.store[fr.data s1]? with
    | none => none
    | some v => some (st.write (fr.data s0) v) := rfl

theorem loopVarFor_yaegi (s0 s1 : Nat) (fr : Fr) (st : MSt) : loopVarFor .yaegi s0 s1 fr st =
    match st.store[fr.data s0]? with
    | none => none
    | some v => some (setSlot fr (st.push v) s1 st.store.length) := rfl

theorem res_declare_self (sc : Scope) (x : Nat) : (sc.declare x).res x = (0, sc.next) := by
  simp only [Scope.res, lookup_declare, if_true, Option.getD_some]

theorem res_declare_other (sc : Scope) {x y : Nat} (h : y ≠ x) : (sc.declare x).res y = sc.res y := by
  simp only [Scope.res, lookup_declare, h, if_false]

/-- condition and post statement of the loop read `x` through the loop variable's own slot -/
theorem look_agree_for {β : Beta} {ρ : Env} {sc : Scope} {fr : Fr} {stS : SSt} {stM : MSt} {vs : List Nat} {x l : Nat}
    (hp : fr.anc.Pure) (he : EnvRel β ρ sc fr.data fr.anc) (hs : StoreRel β stS stM) (hc : Covers sc vs)
    (hlv : LoopVar β stS stM l (fr.data sc.next)) (y : Nat) (hy : (x :: vs).contains y = true) :
    lookS ((x, l) :: ρ) stS y = lookM fr stM ((sc.declare x).res y) := by
  by_cases e : y = x
  · subst e
    obtain ⟨vS, vM, h1, h2, h3⟩ := hlv.val
    simp only [res_declare_self, lookS, lookM, valS, valM, find_cons, if_true, Fr.cell, h1, h2, h3.int_eq]
  · rw [res_declare_other sc e]
    simp only [List.contains_cons, Bool.or_eq_true, beq_iff_eq] at hy
    cases hy with
    | inl h1 => exact absurd h1 e
    | inr h1 =>
      have := look_agree hp he hs hc y h1
      simp only [lookS, valS, find_cons, e, if_false] at this ⊢
      exact this

/-- the post statement `py = w` -/
theorem for_post {β : Beta} {ρ : Env} {sc : Scope} {fr : Fr} {stS : SSt} {stM : MSt} {vs : List Nat} {x l : Nat}
    (hp : fr.anc.Pure) (he : EnvRel β ρ sc fr.data fr.anc) (hs : StoreRel β stS stM) (hc : Covers sc vs)
    (hlv : LoopVar β stS stM l (fr.data sc.next)) (py : Nat) (hpy : (x :: vs).contains py = true) (w : Val) :
    ∃ stS' stM', storeS false py (.int w) ((x, l) :: ρ) stS = .ok (.normal, (x, l) :: ρ, stS') ∧
      storeM .yaegi false ((sc.declare x).res py) (.int w) fr stM = .ok (.normal, fr, stM') ∧
      StoreRel β stS' stM' ∧ LoopVar β stS' stM' l (fr.data sc.next) ∧ stM'.store.length = stM.store.length := by
  obtain ⟨vS, vM, hvS, hvM, hvr⟩ := hlv.val
  obtain ⟨hlS, _⟩ := List.getElem?_eq_some_iff.1 hvS
  obtain ⟨hLM, _⟩ := List.getElem?_eq_some_iff.1 hvM
  by_cases e : py = x
  · subst e
    refine ⟨stS.write l (.int w), stM.write (fr.data sc.next) (.int w), ?_, ?_, ?_, ?_, ?_⟩
    · simp only [storeS, Bool.false_eq_true, if_false, find_cons, if_true]
    · simp only [storeM, Bool.false_and, Bool.false_eq_true, if_false, res_declare_self, Fr.cell]
    · refine (hs.specOnly (stS' := stS.write l (.int w)) rfl ?_).modelOnly rfl ?_
      · intro l1 m1 h1
        have : l ≠ l1 := fun e => by rw [← e, hlv.pending] at h1; cases h1
        simp only [SSt.write, List.getElem?_set_ne this]
      · intro l1 m1 h1
        have : fr.data sc.next ≠ m1 := fun e => hlv.priv l1 m1 h1 e.symm
        simp only [MSt.write, List.getElem?_set_ne this]
    · refine ⟨hlv.pending, hlv.priv, .int w, .int w, ?_, ?_, rfl⟩
      · simp only [SSt.write, List.getElem?_set_self hlS]
      · simp only [MSt.write, List.getElem?_set_self hLM]
    · simp only [MSt.write, List.length_set]
  · simp only [List.contains_cons, Bool.or_eq_true, beq_iff_eq] at hpy
    have hpy' : vs.contains py = true := by
      cases hpy with
      | inl h1 => exact absurd h1 e
      | inr h1 => exact h1
    have := hc py hpy'
    cases hl : sc.lookup py with
    | none => rw [hl] at this; cases this
    | some a =>
      obtain ⟨lp, mp, h1, h2, h3⟩ := he py a hl
      refine ⟨stS.write lp (.int w), stM.write mp (.int w), ?_, ?_, hs.write_both (by simp only [VRel]) h2, ?_, ?_⟩
      · simp only [storeS, Bool.false_eq_true, if_false, find_cons, e, h1]
      · simp only [storeM, Bool.false_and, Bool.false_eq_true, if_false, res_declare_other sc e, res_of_lookup hl,
          Fr.cell_pure fr stM.acts hp a, h3]
      · have n1 : lp ≠ l := fun e => by rw [e, hlv.pending] at h2; cases h2
        have n2 : mp ≠ fr.data sc.next := hlv.priv lp mp h2
        refine ⟨hlv.pending, hlv.priv, vS, vM, ?_, ?_, hvr⟩
        · simp only [SSt.write, List.getElem?_set_ne n1, hvS]
        · simp only [MSt.write, List.getElem?_set_ne n2, hvM]
      · simp only [MSt.write, List.length_set]

/-- after the body of an iteration -/
theorem sim_again {f : Nat} (ihF : SimFor f) (x : Nat) (c : XCond Nat) (py : Nat) (pe : XExpr Nat) (body : Stmt)
    (vs : List Nat) (sc : Scope) (ρ ρb : Env) (fr : Fr) (β : Beta) (stS : SSt) (stM : MSt) (l cM : Nat)
    (hwc : c.all ((x :: vs).contains ·) = true) (hwpy : (x :: vs).contains py = true)
    (hwpe : pe.all ((x :: vs).contains ·) = true) (hwb : body.wellScoped (x :: vs) = true)
    (hc : Covers sc vs) (hok : ScopeOK sc) (hp : fr.anc.Pure) (he : EnvRel β ρ sc fr.data fr.anc)
    (hs : StoreRel β stS stM) (hl : β l = some cM) (hs1 : fr.data (sc.next + 1) = cM)
    (hL : fr.data sc.next < stM.store.length) (hpriv : ∀ l' m, β l' = some m → m ≠ fr.data sc.next) :
    RRel (Post β sc fr stM.store.length sc) (againS f x c py pe body ρ l ρb stS)
      (againM f sc.next (sc.next + 1) (c.map (sc.declare x).res) ((sc.declare x).res py) (pe.map (sc.declare x).res)
        (compile ((sc.declare x).declare x) body).1 fr stM) := by
  obtain ⟨vS, vM, hvS, hvM, hvr⟩ := hs.val l cM hl
  simp only [againS, againM, loopVarForEnd_yaegi, hs1, hvS, hvM]
  -- the next iteration's variable: a new location without counterpart; its value goes to the loop variable's cell
  have hs2 : StoreRel β (stS.push vS) (stM.write (fr.data sc.next) vM) := by
    refine (hs.specOnly (stS' := stS.push vS) rfl ?_).modelOnly rfl ?_
    · intro l1 m1 h1
      simp only [SSt.push, List.getElem?_append_left (hs.dom h1).1]
    · intro l1 m1 h1
      have : fr.data sc.next ≠ m1 := fun e => hpriv l1 m1 h1 e.symm
      simp only [MSt.write, List.getElem?_set_ne this]
  have hlv2 : LoopVar β (stS.push vS) (stM.write (fr.data sc.next) vM) stS.store.length (fr.data sc.next) :=
    ⟨hs.undef (Nat.le_refl _), hpriv, vS, vM, by simp only [SSt.push, List.getElem?_concat_length],
      by simp only [MSt.write, List.getElem?_set_self hL], hvr⟩
  have hpe : (pe.map (sc.declare x).res).eval (lookM fr (stM.write (fr.data sc.next) vM)) =
      pe.eval (lookS ((x, stS.store.length) :: ρ) (stS.push vS)) := by
    rw [XExpr.eval_map]
    exact (XExpr.eval_congr _ _ _ (look_agree_for hp he hs2 hc hlv2) pe hwpe).symm
  rw [hpe]
  cases pe.eval (lookS ((x, stS.store.length) :: ρ) (stS.push vS)) with
  | error fl => exact ⟨rfl, hs2.out⟩
  | ok w =>
    obtain ⟨stS', stM', e1, e2, hs3, hlv3, hlen⟩ := for_post hp he hs2 hc hlv2 py hwpy w
    simp only [e1, e2, Res.bind]
    have := ihF x c py pe body vs sc ρ fr β stS' stM' stS.store.length hwc hwpy hwpe hwb hc hok hp he hs3 hlv3
    refine this.mono (fun a b hpost => ?_)
    exact Post.trans (Beta.le_refl _) (FreshExt.refl _ _) (by rw [hlen]; simp only [MSt.write, List.length_set]; exact Nat.le_refl _)
      (Nat.le_refl _) rfl (fun _ _ => rfl) hpost

/-- one more unit of fuel: the iterations of a three-clause loop -/
theorem sim_for_step {f : Nat} (ihS : SimStmt f) (ihF : SimFor f) : SimFor (f + 1) := by
  intro x c py pe body vs sc ρ fr β stS stM l hwc hwpy hwpe hwb hc hok hp he hs hlv
  rw [forS_succ, forM_succ]
  have hcond : (c.map (sc.declare x).res).eval (lookM fr stM) = c.eval (lookS ((x, l) :: ρ) stS) := by
    rw [XCond.eval_map]
    exact (XCond.eval_congr _ _ _ (look_agree_for hp he hs hc hlv) c hwc).symm
  rw [hcond]
  cases c.eval (lookS ((x, l) :: ρ) stS) with
  | error fl => exact ⟨rfl, hs.out⟩
  | ok b =>
    cases b with
    | false => exact Post.here he hs trivial
    | true =>
      obtain ⟨vS, vM, hvS, hvM, hvr⟩ := hlv.val
      obtain ⟨hLM, _⟩ := List.getElem?_eq_some_iff.1 hvM
      simp only [loopVarFor_yaegi, hvM, setSlot]
      -- loopVarFor: the pending location gets its cell, in the body's slot
      have hle1 : β.le (β.ext l stM.store.length) := Beta.le_ext _ _ _ hlv.pending
      have hs1 := hs.map_pending hlv.pending hvS hvr ((stM.push vM).acts.set fr.id ⟨fr.data.put (sc.next + 1) stM.store.length, fr.anc⟩)
      have hok2 : ScopeOK ((sc.declare x).declare x) := (hok.declare x).declare x
      have hc2 : Covers ((sc.declare x).declare x) (x :: vs) := by
        intro y hy
        rw [lookup_declare]
        split
        · rfl
        · rename_i e
          simp only [List.contains_cons, Bool.or_eq_true, beq_iff_eq] at hy
          cases hy with
          | inl h1 => exact absurd h1 e
          | inr h1 => rw [lookup_declare]; simp only [e, if_false]; exact hc y h1
      have he1 : EnvRel (β.ext l stM.store.length) ((x, l) :: ρ) ((sc.declare x).declare x)
          (fr.data.put (sc.next + 1) stM.store.length) fr.anc := by
        intro y a hy
        rw [lookup_declare] at hy
        split at hy
        · rename_i e; cases hy
          refine ⟨l, stM.store.length, by simp only [find_cons, e, if_true], by simp only [Beta.ext, if_true], ?_⟩
          show some (fr.data.put (sc.next + 1) stM.store.length (sc.next + 1)) = _
          rw [put_self]
        · rename_i e
          rw [lookup_declare] at hy
          simp only [e, if_false] at hy
          have he' := he.mono hle1 hok (d' := fr.data.put (sc.next + 1) stM.store.length)
            (fun i hi => put_keep _ _ _ _ (by omega))
          obtain ⟨l1, m1, h1, h2, h3⟩ := he' y a hy
          exact ⟨l1, m1, by simp only [find_cons, e, if_false, h1], h2, h3⟩
      have hbody := ihS body (x :: vs) ((sc.declare x).declare x) ((x, l) :: ρ)
        ⟨fr.data.put (sc.next + 1) stM.store.length, fr.anc, fr.id⟩ (β.ext l stM.store.length) stS _ hwb hc2 hok2 hp he1 hs1
      refine hbody.bind ?_
      rintro ⟨sig, ρb, stSb⟩ ⟨sig', frb, stMb⟩ ⟨β2, w⟩
      have hn1 : stM.store.length + 1 ≤ stMb.store.length := by
        have := w.grow; simp only [MSt.push, List.length_append, List.length_singleton] at this; exact this
      have hle2 : β.le β2 := Beta.le_trans hle1 w.le
      have hfr2 : FreshExt β β2 stM.store.length :=
        FreshExt.trans w.le (FreshExt.ext _ _ _) w.fresh (by simp only [MSt.push, List.length_append, List.length_singleton]; omega)
      have hkeep : ∀ i, i < sc.next → frb.data i = fr.data i := by
        intro i hi
        rw [w.keep i (by show i < sc.next + 1 + 1; omega)]
        exact put_keep _ _ _ _ (by omega)
      have hanc : frb.anc = fr.anc := w.anc
      -- the whole iteration, seen from the loop statement
      have hpost : Post β sc fr stM.store.length ((sc.declare x).declare x |> fun s => (compile s body).2)
          (sig, ρb, stSb) (sig', frb, stMb) :=
        Post.trans (fr1 := ⟨fr.data.put (sc.next + 1) stM.store.length, fr.anc, fr.id⟩) hle1 (FreshExt.ext _ _ _)
          (by simp only [MSt.push, List.length_append, List.length_singleton]; omega)
          (by show sc.next ≤ sc.next + 1 + 1; omega) rfl
          (fun i hi => put_keep _ _ _ _ (by omega)) ⟨β2, w⟩
      have again : RRel (Post β sc fr stM.store.length sc) (againS f x c py pe body ρ l ρb stSb)
          (againM f sc.next (sc.next + 1) (c.map (sc.declare x).res) ((sc.declare x).res py) (pe.map (sc.declare x).res)
            (compile ((sc.declare x).declare x) body).1 frb stMb) := by
        have hL : frb.data sc.next = fr.data sc.next := by
          rw [w.keep sc.next (by show sc.next < sc.next + 1 + 1; omega)]
          exact put_keep _ _ _ _ (by omega)
        have hs1' : frb.data (sc.next + 1) = stM.store.length := by
          rw [w.keep (sc.next + 1) (by show sc.next + 1 < sc.next + 1 + 1; omega)]
          exact put_self _ _ _
        have hpriv : ∀ l' m, β2 l' = some m → m ≠ frb.data sc.next := by
          intro l' m hm
          rw [hL]
          cases hb : β l' with
          | some m' =>
            have := hle2 l' m' hb
            rw [hm] at this; cases this
            exact hlv.priv l' m hb
          | none => have := hfr2 l' m hm hb; omega
        have := sim_again ihF x c py pe body vs sc ρ ρb frb β2 stSb stMb l stM.store.length hwc hwpy hwpe hwb hc hok
          (by rw [hanc]; exact hp) (by rw [hanc]; exact he.mono hle2 hok hkeep) w.store
          (w.le l _ (by simp only [Beta.ext, if_true])) hs1' (by rw [hL]; omega) hpriv
        refine this.mono (fun a b hq => ?_)
        exact Post.trans hle2 hfr2 (by omega) (Nat.le_refl _) hanc hkeep hq
      cases sig <;> cases sig' <;> try exact False.elim w.sig
      · exact again
      · exact Post.exit hok he (fun _ => rfl) (fun _ _ => trivial) hpost
      · exact again
      · exact Post.exit hok he (fun _ => rfl) (fun _ h => h) hpost

/-! ### range loops -/

theorem lookup_rngScope (sc : Scope) (x y : Nat) :
    (rngScope sc x).lookup y = if y = x then some (0, sc.next + 2) else sc.lookup y := by
  simp only [rngScope, lookup_declare]
  split
  · rfl
  · rfl

theorem loopVarKey_yaegi (sb : Nat) (i : Val) (fr : Fr) (st : MSt) :
    loopVarKey .yaegi sb i fr st = setSlot fr (st.push (.int i)) sb st.store.length := rfl

/-- one more unit of fuel: the iterations of a range loop -/
theorem sim_rng_step {f : Nat} (ihS : SimStmt f) (ihR : SimRng f) : SimRng (f + 1) := by
  intro x body vs sc ρ fr β stS stM N i hwb hc hok hp he hs
  simp only [rngS, rngM, Bound.get]
  by_cases hlt : BitVec.slt i N = true
  · simp only [hlt, if_true, loopVarKey_yaegi, setSlot]
    have hle1 : β.le (β.ext stS.store.length stM.store.length) := Beta.le_ext _ _ _ (hs.undef (Nat.le_refl _))
    have hs1 := hs.push_both (vS := .int i) (vM := .int i) rfl
      ((stM.push (.int i)).acts.set fr.id ⟨fr.data.put (sc.next + 2) stM.store.length, fr.anc⟩)
    have hok2 : ScopeOK (rngScope sc x) := by
      refine ScopeOK.declare (ScopeOK.declare (sc := { sc with next := sc.next + 1 }) ?_ x) x
      intro y j hy; have := hok y j hy; show j < sc.next + 1; omega
    have hc2 : Covers (rngScope sc x) (x :: vs) := by
      intro y hy
      rw [lookup_rngScope]
      split
      · rfl
      · rename_i e
        simp only [List.contains_cons, Bool.or_eq_true, beq_iff_eq] at hy
        cases hy with
        | inl h1 => exact absurd h1 e
        | inr h1 => exact hc y h1
    have he1 : EnvRel (β.ext stS.store.length stM.store.length) ((x, stS.store.length) :: ρ) (rngScope sc x)
        (fr.data.put (sc.next + 2) stM.store.length) fr.anc := by
      intro y a hy
      rw [lookup_rngScope] at hy
      split at hy
      · rename_i e; cases hy
        refine ⟨stS.store.length, stM.store.length, by simp only [find_cons, e, if_true], by simp only [Beta.ext, if_true], ?_⟩
        show some (fr.data.put (sc.next + 2) stM.store.length (sc.next + 2)) = _
        rw [put_self]
      · rename_i e
        have he' := he.mono hle1 hok (d' := fr.data.put (sc.next + 2) stM.store.length)
          (fun j hj => put_keep _ _ _ _ (by omega))
        obtain ⟨l1, m1, h1, h2, h3⟩ := he' y a hy
        exact ⟨l1, m1, by simp only [find_cons, e, if_false, h1], h2, h3⟩
    have hbody := ihS body (x :: vs) (rngScope sc x) ((x, stS.store.length) :: ρ)
      ⟨fr.data.put (sc.next + 2) stM.store.length, fr.anc, fr.id⟩ (β.ext stS.store.length stM.store.length) _ _
      hwb hc2 hok2 hp he1 hs1
    refine hbody.bind ?_
    rintro ⟨sig, ρb, stSb⟩ ⟨sig', frb, stMb⟩ ⟨β2, w⟩
    have hpost : Post β sc fr stM.store.length (compile (rngScope sc x) body).2 (sig, ρb, stSb) (sig', frb, stMb) :=
      Post.trans (fr1 := ⟨fr.data.put (sc.next + 2) stM.store.length, fr.anc, fr.id⟩) hle1 (FreshExt.ext _ _ _)
        (by simp only [MSt.push, List.length_append, List.length_singleton]; omega)
        (by show sc.next ≤ sc.next + 1 + 1 + 1; omega) rfl
        (fun j hj => put_keep _ _ _ _ (by omega)) ⟨β2, w⟩
    have again : RRel (Post β sc fr stM.store.length sc) (rngS f x body ρ N (i + 1) stSb)
        (rngM .yaegi f (sc.next + 2) (compile (rngScope sc x) body).1 (.val N) (i + 1) frb stMb) := by
      obtain ⟨β3, w3⟩ := hpost
      have := ihR x body vs sc ρ frb β3 stSb stMb N (i + 1) hwb hc hok (by rw [w3.anc]; exact hp)
        (by rw [w3.anc]; exact he.mono w3.le hok w3.keep) w3.store
      exact this.mono (fun _ _ hq => Post.trans w3.le w3.fresh w3.grow (Nat.le_refl _) w3.anc w3.keep hq)
    cases sig <;> cases sig' <;> try exact False.elim w.sig
    · exact again
    · exact Post.exit hok he (fun _ => rfl) (fun _ _ => trivial) hpost
    · exact again
    · exact Post.exit hok he (fun _ => rfl) (fun _ h => h) hpost
  · simp only [hlt, Bool.false_eq_true, if_false]
    exact Post.here (sig := .normal) (sig' := .normal) he hs trivial

/-- a sub-statement that is a block of its own (`{ … }`, a branch of `if`): the declarations made inside are gone
    afterwards, in the semantics by restoring the environment, in the model by restoring the scope -/
theorem sim_inner {f : Nat} (ihS : SimStmt f) (s : Stmt) (vs : List Nat) (sc0 sc sc2 : Scope) (ρ : Env) (fr : Fr)
    (β : Beta) (stS : SSt) (stM : MSt) (hw : s.wellScoped vs = true) (hok : ScopeOK sc0)
    (hp : fr.anc.Pure) (he : EnvRel β ρ sc0 fr.data fr.anc) (hs : StoreRel β stS stM)
    (hcur : ∀ x, sc.lookup x = sc0.lookup x) (hcur2 : ∀ x, sc2.lookup x = sc0.lookup x)
    (hcov : Covers sc vs) (hoks : ScopeOK sc) (hnext : sc0.next ≤ sc.next) :
    RRel (Post β sc0 fr stM.store.length sc2) ((execS f s ρ stS).bind (leave ρ)) (execM .yaegi f (compile sc s).1 fr stM) := by
  have h := ihS s vs sc ρ fr β stS stM hw hcov hoks hp (he.congr_lookup hcur) hs
  rw [← Res.bind_ok (execM .yaegi f (compile sc s).1 fr stM)]
  refine h.bind ?_
  rintro ⟨sig, ρ1, stS1⟩ ⟨sig', fr1, stM1⟩ hpost
  simp only [leave, RRel]
  have hpost0 : Post β sc0 fr stM.store.length (compile sc s).2 (sig, ρ1, stS1) (sig', fr1, stM1) :=
    Post.trans (Beta.le_refl _) (FreshExt.refl _ _) (Nat.le_refl _) hnext rfl (fun _ _ => rfl) hpost
  exact Post.exit hok he hcur2 (fun _ h => h) hpost0

/-- one more unit of fuel: statements -/
theorem sim_stmt_step {f : Nat} (ihS : SimStmt f) (ihF : SimFor f) (ihR : SimRng f) : SimStmt (f + 1) := by
  intro s vs sc ρ fr β stS stM hw hc hok hp he hs
  cases s with
  | skip => exact Post.here he hs trivial
  | brk => exact Post.here he hs trivial
  | cont => exact Post.here he hs trivial
  | seq a b =>
    simp only [Stmt.wellScoped, Bool.and_eq_true] at hw
    have ha := ihS a vs sc ρ fr β stS stM hw.1 hc hok hp he hs
    simp only [execS, execM, compile]
    refine ha.bind ?_
    rintro ⟨sig, ρ1, stS1⟩ ⟨sig', fr1, stM1⟩ ⟨β1, w⟩
    cases sig <;> cases sig' <;> try exact False.elim w.sig
    · simp only [onNormal]
      have hb' := ihS b (a.declared vs) (compile sc a).2 ρ1 fr1 β1 stS1 stM1 hw.2 (compile_covers a sc vs hc)
        (compile_scopeOK a sc hok) (by rw [w.anc]; exact hp) (by rw [w.anc]; exact w.env rfl) w.store
      exact hb'.mono (fun _ _ h => Post.trans w.le w.fresh w.grow (compile_next_le a sc) w.anc w.keep h)
    · exact Post.nonnormal (fun h => by cases h) ⟨β1, w⟩
    · exact Post.nonnormal (fun h => by cases h) ⟨β1, w⟩
    · exact Post.nonnormal (fun h => by cases h) ⟨β1, w⟩
  | set d x e =>
    simp only [Stmt.wellScoped, Bool.and_eq_true, Bool.or_eq_true] at hw
    have hr := rhs_rel hp he hs hc e hw.1
    cases d with
    | true =>
      simp only [execS, execM, compile]
      cases r1 : rhsS ρ stS e <;> cases r2 : rhsM fr stM (e.map sc.res) <;> rw [r1, r2] at hr <;> simp only [ERel] at hr
      · exact ⟨hr, hs.out⟩
      · exact store_define x hok he hs hr
    | false =>
      simp only [execS, execM, compile]
      cases r1 : rhsS ρ stS e <;> cases r2 : rhsM fr stM (e.map sc.res) <;> rw [r1, r2] at hr <;> simp only [ERel] at hr
      · exact ⟨hr, hs.out⟩
      · exact store_assign hp he hs hr (hc x (by simpa using hw.2))
  | setFn d x ps body res =>
    simp only [Stmt.wellScoped, Bool.and_eq_true, Bool.or_eq_true] at hw
    simp only [execS, execM, compile]
    refine store_rel d x hp hok he hs ?_ ?_
    · exact ⟨sc, fr.data, fr.anc, rfl, hp, hok, he, ⟨rfl, rfl, rfl, rfl⟩, ⟨vs, hc, hw.1.1, hw.1.2⟩⟩
    · cases d with
      | true => exact Or.inl rfl
      | false => exact Or.inr (hc x (by simpa using hw.2))
  | setCall d x g args => exact sim_call ihS d x g args vs sc ρ fr β stS stM hw hc hok hp he hs
  | block s =>
    simp only [Stmt.wellScoped] at hw
    simp only [execS, execM, compile]
    exact sim_inner ihS s vs sc sc _ ρ fr β stS stM hw hok hp he hs (fun _ => rfl) (fun _ => rfl) hc hok (Nat.le_refl _)
  | ite c t e =>
    simp only [Stmt.wellScoped, Bool.and_eq_true] at hw
    simp only [execS, execM, compile]
    rw [cond_agree hp he hs hc c hw.1.1]
    cases c.eval (lookS ρ stS) with
    | error fl => exact ⟨rfl, hs.out⟩
    | ok b =>
      cases b with
      | true =>
        exact sim_inner ihS t vs sc sc _ ρ fr β stS stM hw.1.2 hok hp he hs (fun _ => rfl) (fun _ => rfl) hc hok (Nat.le_refl _)
      | false =>
        exact sim_inner ihS e vs sc (sc.leave (compile sc t).2) _ ρ fr β stS stM hw.2 hok hp he hs (fun _ => rfl)
          (fun _ => rfl) (hc.leave _) (hok.leave (compile_next_le t sc)) (compile_next_le t sc)
  | «while» c body =>
    have hw0 := hw
    simp only [Stmt.wellScoped, Bool.and_eq_true] at hw
    simp only [execS, execM, compile]
    rw [cond_agree hp he hs hc c hw.1]
    cases c.eval (lookS ρ stS) with
    | error fl => exact ⟨rfl, hs.out⟩
    | ok b =>
      cases b with
      | false =>
        exact Post.exit hok he (fun _ => rfl) (fun _ h => h) (Post.here (sig := .normal) (sig' := .normal) he hs trivial)
      | true =>
        have hbd := ihS body vs sc ρ fr β stS stM hw.2 hc hok hp he hs
        refine hbd.bind ?_
        rintro ⟨sig, ρ1, stS1⟩ ⟨sig', fr1, stM1⟩ ⟨β1, w⟩
        have again : RRel (Post β sc fr stM.store.length (sc.leave (compile sc body).2))
            (execS f (.while c body) ρ stS1) (execM .yaegi f (.while (c.map sc.res) (compile sc body).1) fr1 stM1) := by
          have := ihS (.while c body) vs sc ρ fr1 β1 stS1 stM1 hw0 hc hok (by rw [w.anc]; exact hp)
            (by rw [w.anc]; exact he.mono w.le hok w.keep) w.store
          simp only [compile] at this
          exact this.mono (fun _ _ h => Post.trans w.le w.fresh w.grow (Nat.le_refl _) w.anc w.keep h)
        cases sig <;> cases sig' <;> try exact False.elim w.sig
        · exact again
        · exact Post.exit hok he (fun _ => rfl) (fun _ _ => trivial) ⟨β1, w⟩
        · exact again
        · exact Post.exit hok he (fun _ => rfl) (fun _ h => h) ⟨β1, w⟩
  | forc x init c py pe body =>
    simp only [Stmt.wellScoped, Bool.and_eq_true] at hw
    obtain ⟨⟨⟨⟨hwi, hwc⟩, hwpy⟩, hwpe⟩, hwb⟩ := hw
    simp only [execS, execM, compile]
    rw [expr_agree hp he hs hc init hwi]
    cases init.eval (lookS ρ stS) with
    | error fl => exact ⟨rfl, hs.out⟩
    | ok v =>
      -- the init statement: a new location (pending) / a fresh cell in the loop variable's slot (private)
      simp only [storeM, Mech.yaegi, Bool.and_self, if_true, setSlot, Res.bind]
      have hs1 : StoreRel β (stS.push (.int v))
          { (stM.push (.int v)) with acts := (stM.push (.int v)).acts.set fr.id ⟨fr.data.put sc.next stM.store.length, fr.anc⟩ } := by
        refine (hs.specOnly (stS' := stS.push (.int v)) rfl ?_).modelOnly rfl ?_
        · intro l1 m1 h1
          simp only [SSt.push, List.getElem?_append_left (hs.dom h1).1]
        · intro l1 m1 h1
          simp only [MSt.push, List.getElem?_append_left (hs.dom h1).2]
      have hlv : LoopVar β (stS.push (.int v))
          { (stM.push (.int v)) with acts := (stM.push (.int v)).acts.set fr.id ⟨fr.data.put sc.next stM.store.length, fr.anc⟩ }
          stS.store.length ((fr.data.put sc.next stM.store.length) sc.next) := by
        rw [put_self]
        exact ⟨hs.undef (Nat.le_refl _), fun l' m hm e => hs.notimg (Nat.le_refl _) (e ▸ hm), .int v, .int v,
          by simp only [SSt.push, List.getElem?_concat_length], by simp only [MSt.push, List.getElem?_concat_length], rfl⟩
      have := ihF x c py pe body vs sc ρ ⟨fr.data.put sc.next stM.store.length, fr.anc, fr.id⟩ β _ _ stS.store.length
        hwc hwpy hwpe hwb hc hok hp (he.mono (Beta.le_refl _) hok (fun i hi => put_keep _ _ _ _ (by omega))) hs1 hlv
      refine this.mono (fun a b hq => ?_)
      obtain ⟨sig, ρ1, stS1⟩ := a
      obtain ⟨sig', fr1, stM1⟩ := b
      have hq' : Post β sc fr stM.store.length sc (sig, ρ1, stS1) (sig', fr1, stM1) :=
        Post.trans (fr1 := ⟨fr.data.put sc.next stM.store.length, fr.anc, fr.id⟩) (Beta.le_refl _) (FreshExt.refl _ _)
          (by simp only [MSt.push, List.length_append, List.length_singleton]; omega) (Nat.le_refl _) rfl
          (fun i hi => put_keep _ _ _ _ (by omega)) hq
      obtain ⟨β', w⟩ := hq'
      exact ⟨β', ⟨w.le, w.fresh, w.grow, w.store, w.anc, w.keep, w.sig, fun h => (w.env h).congr_lookup (fun _ => rfl)⟩⟩
  | rng x n body =>
    simp only [Stmt.wellScoped, Bool.and_eq_true] at hw
    simp only [execS, execM, compile]
    -- the bound is copied when the loop is entered (716c992): also for a bare variable
    have hbound : boundM .yaegi fr stM (n.map sc.res) =
        match (n.map sc.res).eval (lookM fr stM) with
        | .ok N => .ok (.val N)
        | .error fl => .error fl := by
      cases n with
      | var a =>
        simp only [XExpr.map, boundM, Mech.yaegi, Bool.false_eq_true, if_false, XExpr.eval]
        cases lookM fr stM (sc.res a) <;> rfl
      | lit v => rfl
      | bin op l r => rfl
      | neg a => rfl
      | cpl a => rfl
    rw [hbound, expr_agree hp he hs hc n hw.1]
    cases n.eval (lookS ρ stS) with
    | error fl => exact ⟨rfl, hs.out⟩
    | ok N =>
      have := ihR x body vs sc ρ fr β stS stM N 0 hw.2 hc hok hp he hs
      refine this.mono (fun a b hq => ?_)
      obtain ⟨β', w⟩ := hq
      exact ⟨β', ⟨w.le, w.fresh, w.grow, w.store, w.anc, w.keep, w.sig, fun h => (w.env h).congr_lookup (fun _ => rfl)⟩⟩
  | print e =>
    simp only [Stmt.wellScoped] at hw
    simp only [execS, execM, compile]
    rw [expr_agree hp he hs hc e hw]
    cases e.eval (lookS ρ stS) with
    | error fl => exact ⟨rfl, hs.out⟩
    | ok v => exact Post.here he (hs.emit v) trivial
  | ret e =>
    simp only [Stmt.wellScoped] at hw
    simp only [execS, execM, compile]
    have hr := rhs_rel hp he hs hc e hw
    cases r1 : rhsS ρ stS e <;> cases r2 : rhsM fr stM (e.map sc.res) <;> rw [r1, r2] at hr <;> simp only [ERel] at hr
    · exact ⟨hr, hs.out⟩
    · exact Post.here he hs hr

theorem sim : ∀ f, SimStmt f ∧ SimFor f ∧ SimRng f := by
  intro f
  induction f with
  | zero => exact sim_zero
  | succ f ih => exact ⟨sim_stmt_step ih.1 ih.2.1 ih.2.2, sim_for_step ih.1 ih.2.1, sim_rng_step ih.1 ih.2.2⟩

/-! ## H. whole programs -/

/-- for every well-scoped program and every fuel: the frame mechanism and the scoping semantics give the same result
    (both out of fuel, or the same output and the same kind of end) -/
theorem run_agree (p : Stmt) (fuel : Nat) (h : p.wellScoped [] = true) : runM .yaegi fuel p = runS fuel p := by
  have hsim := (sim fuel).1 p [] ⟨[], 0, []⟩ [] ⟨fun i => i, .nil, 0⟩ (fun _ => none) ⟨[], []⟩
    ⟨zeros (compile ⟨[], 0, []⟩ p).2.next, [⟨fun i => i, .nil⟩], []⟩ h
    (fun x hx => by cases hx) (fun x i hx => by cases hx) trivial (fun x a hx => by cases hx)
    ⟨rfl, fun l l' m h1 => (by cases h1), fun l m h1 => (by cases h1)⟩
  have hprep : prepare .yaegi p = p := rfl
  simp only [runM, runS, hprep]
  cases r1 : execS fuel p [] ⟨[], []⟩ <;>
    cases r2 : execM .yaegi fuel (compile ⟨[], 0, []⟩ p).1 ⟨fun i => i, .nil, 0⟩
      ⟨zeros (compile ⟨[], 0, []⟩ p).2.next, [⟨fun i => i, .nil⟩], []⟩ <;>
    rw [r1, r2] at hsim <;> simp only [RRel] at hsim
  · obtain ⟨h1, h2⟩ := hsim; rw [h1, h2]
  · rename_i a b
    obtain ⟨sig, ρ1, stS1⟩ := a
    obtain ⟨sig', fr1, stM1⟩ := b
    obtain ⟨β', w⟩ := hsim
    have := w.store.out
    simp only at this
    show some (Outcome.mk stM1.out End.normal) = some (Outcome.mk stS1.out End.normal)
    rw [this]

end YaegiVerif.Clos
