import YaegiVerif.Proofs.C06Dom
import YaegiVerif.Expected.C06
/-
  C06 — the model of yaegi's unwinding, run with the facts read from the source, refines the
  Go specification on `Dom`. Induction on the fuel (call depth), on the body, and on the deferred list.
-/
namespace YaegiVerif.Unwind
open YaegiVerif.Expected.C06 (facts)

@[simp] theorem facts_prependCall : facts.prependCall = true := rfl
@[simp] theorem facts_prependCallBin : facts.prependCallBin = true := rfl
@[simp] theorem facts_prependBuiltin : facts.prependBuiltin = true := rfl
@[simp] theorem facts_argsByRefCall : facts.argsByRefCall = false := rfl
@[simp] theorem facts_argsByRefBin : facts.argsByRefBin = false := rfl
@[simp] theorem facts_spreadBin : facts.spreadBin = true := rfl
@[simp] theorem facts_deferredProtected : facts.deferredProtected = true := rfl
@[simp] theorem facts_recoverReadsAnc : facts.recoverReadsAnc = true := rfl
@[simp] theorem facts_recoverClears : facts.recoverClears = true := rfl
@[simp] theorem facts_panicBoxed : facts.panicBoxed = false := rfl
@[simp] theorem facts_panicDeferrable : facts.panicDeferrable = true := rfl
@[simp] theorem facts_closureAncIsClone : facts.closureAncIsClone = true := rfl
@[simp] theorem facts_closureLocksDefiner : facts.closureLocksDefiner = false := rfl
@[simp] theorem facts_executeRecovers : facts.executeRecovers = true := rfl
@[simp] theorem facts_executeCarriesValue : facts.executeCarriesValue = true := rfl
@[simp] theorem facts_exitSteps :
    facts.exitSteps = [.lock, .assignRecovered, .unlock, .runDeferred, .lock, .ifRecovered, .unlock] := rfl
@[simp] theorem facts_ifSteps : facts.ifSteps = [.log, .unlock, .repanic] := rfl

/-- `_panic` raises the value itself -/
@[simp] theorem raised_facts (v : Val) : raised facts v = v := rfl
@[simp] theorem reraised_facts (v : Val) : reraised facts v = v := rfl
@[simp] theorem heldAnc_facts (self : Frame) : heldAnc facts self = { self with recovered := none } := rfl
@[simp] theorem heldBack_facts (self anc' : Frame) : heldBack facts self anc' = { self with res := anc'.res } := rfl

@[simp] theorem emit_hung (w : World) (e : Event) : (w.emit e).hung = w.hung := rfl

/-- what runCfg's deferred function does after the loop over f.deferred (expected statement order):
    the frame is locked again, a panic still recorded in `f.recovered` is raised again, the lock released -/
def finishY (r : Sig × Frame × World) : Sig × Frame × World :=
  match r.1 with
  | .normal =>
    (match r.2.1.recovered with | some v => Sig.panic v | none => Sig.normal, { r.2.1 with locked := false }, r.2.2)
  | .panic q => (.panic q, r.2.1, r.2.2)
  | .fuel => (.fuel, r.2.1, r.2.2)

/-- runCfg's deferred function with the expected statement order: the panic of the body is recorded, the frame
    lock is released, the deferred calls run, then `finishY` -/
theorem exitY_expected (cy : CallFn) (sig : Sig) (self : Frame) (w : World) :
    exitY facts cy sig self w =
      match sig with
      | .fuel => (.fuel, self, w)
      | _ => finishY (runEntriesY facts cy self.deferred { self with locked := false, recovered := pendingOf sig } w) := by
  cases sig with
  | fuel => rfl
  | normal =>
    simp only [exitY, facts_exitSteps, runExitSteps, runFlatStep, pendingOf]
    generalize runEntriesY facts cy self.deferred _ w = r
    obtain ⟨s, self', w'⟩ := r
    cases s with
    | normal =>
      simp only [finishY]
      cases h : self'.recovered <;> simp [runFlat, runFlatStep]
    | panic q => simp [finishY]
    | fuel => simp [finishY]
  | panic v =>
    simp only [exitY, facts_exitSteps, runExitSteps, runFlatStep, pendingOf]
    generalize runEntriesY facts cy self.deferred _ w = r
    obtain ⟨s, self', w'⟩ := r
    cases s with
    | normal =>
      simp only [finishY]
      cases h : self'.recovered <;> simp [runFlat, runFlatStep]
    | panic q => simp [finishY]
    | fuel => simp [finishY]

/-- the specification's view of a callee's effect on the frame that is its `anc` -/
def liftAnc (anc : Frame) (r : Sig × Option Val × Int × Int × World) : Sig × Frame × Int × World :=
  (r.1, { anc with recovered := r.2.1, res := r.2.2.1 }, r.2.2.2.1, r.2.2.2.2)

/-- the model's function call refines the specification's on the domain -/
def Sim (cy : CallFn) (cs : Spec.CallFn) : Prop :=
  ∀ code a anc w, Dom code = true → cy code a anc w = liftAnc anc (cs code a anc.recovered anc.res w)

def liftBody (anc self : Frame) (r : Sig × Option Val × Int × Spec.Act × World) : Sig × Frame × Frame × World :=
  (r.1, { anc with recovered := r.2.1, res := r.2.2.1 },
   { self with deferred := r.2.2.2.1.defers, res := r.2.2.2.1.res }, r.2.2.2.2)

theorem evalArg_eq (x : Arg) (a : Int) (d : List Entry) (r : Option Val) (res : Int) (l : Bool) :
    evalArg x a ⟨d, r, res, l⟩ = Spec.evalArg x a ⟨d, res⟩ := by
  cases x <;> rfl

/-- a site that copies keeps the value the argument has at the defer statement, whatever the argument is -/
theorem storeArg_val (x : Arg) (a : Int) (self : Frame) :
    storeArg false x a self = .val (evalArg x a self) := by
  cases x <;> simp [storeArg, evalArg]

theorem body_sim (cy : CallFn) (cs : Spec.CallFn) (hs : Sim cy cs) (hn : Spec.NoneStays cs) :
    ∀ (code : Code) (a : Int) (anc self : Frame) (w : World),
      Dom code = true → self.recovered = none → (∀ e ∈ self.deferred, e.ok = true) →
      execBodyY facts cy code a anc self w =
        liftBody anc self (Spec.execBody cs code a anc.recovered anc.res ⟨self.deferred, self.res⟩ w) ∧
      (∀ e ∈ (Spec.execBody cs code a anc.recovered anc.res ⟨self.deferred, self.res⟩ w).2.2.2.1.defers, e.ok = true) := by
  intro code
  induction code with
  | done =>
    intro a anc self w _ _ hok
    exact ⟨rfl, hok⟩
  | print s k ih =>
    intro a anc self w hd hrec hok
    simp only [execBodyY, Spec.execBody]
    exact ih a anc self _ (by simpa [Dom] using hd) hrec hok
  | printArg k ih =>
    intro a anc self w hd hrec hok
    simp only [execBodyY, Spec.execBody]
    exact ih a anc self _ (by simpa [Dom] using hd) hrec hok
  | probe t k ih =>
    intro a anc self w hd hrec hok
    simp only [execBodyY, Spec.execBody]
    exact ih a anc self _ (by simpa [Dom] using hd) hrec hok
  | panic v k _ =>
    intro a anc self w _ _ hok
    exact ⟨rfl, hok⟩
  | setRes n k ih =>
    intro a anc self w hd hrec hok
    simp only [execBodyY, Spec.execBody]
    exact ih a anc { self with res := n } w (by simpa [Dom] using hd) hrec hok
  | setOuter n k ih =>
    intro a anc self w hd hrec hok
    simp only [execBodyY, Spec.execBody]
    exact ih a { anc with res := n } self w (by simpa [Dom] using hd) hrec hok
  | recover sh k ih =>
    intro a anc self w hd hrec hok
    obtain ⟨ad, ar, ares, al⟩ := anc
    cases ar with
    | none =>
      simp only [execBodyY, Spec.execBody, facts_recoverReadsAnc, facts_recoverClears, if_true, Bool.and_self,
        Bool.true_and, Bool.not_true, Bool.false_and, Option.isSome_none, Bool.false_eq_true, if_false]
      exact ih a ⟨ad, none, ares, al⟩ self _ (by simpa [Dom] using hd) hrec hok
    | some v =>
      simp only [execBodyY, Spec.execBody, facts_recoverReadsAnc, facts_recoverClears, if_true, Bool.and_self,
        Bool.not_true, Bool.false_and, Option.isSome_some, Bool.false_eq_true, if_false]
      exact ih a ⟨ad, none, ares, al⟩ self _ (by simpa [Dom] using hd) hrec hok
  | recoverIs v' k ih =>
    intro a anc self w hd hrec hok
    obtain ⟨ad, ar, ares, al⟩ := anc
    cases ar with
    | none =>
      simp only [execBodyY, Spec.execBody, facts_recoverReadsAnc, facts_recoverClears, if_true, Bool.and_self,
        Bool.true_and, Bool.not_true, Bool.false_and, Option.isSome_none, Bool.false_eq_true, if_false]
      exact ih a ⟨ad, none, ares, al⟩ self _ (by simpa [Dom] using hd) hrec hok
    | some v =>
      simp only [execBodyY, Spec.execBody, facts_recoverReadsAnc, facts_recoverClears, if_true, Bool.and_self,
        Bool.not_true, Bool.false_and, Option.isSome_some, Bool.false_eq_true, if_false]
      exact ih a ⟨ad, none, ares, al⟩ self _ (by simpa [Dom] using hd) hrec hok
  | repanic k ih =>
    intro a anc self w hd hrec hok
    obtain ⟨ad, ar, ares, al⟩ := anc
    cases ar with
    | none =>
      simp only [execBodyY, Spec.execBody, facts_recoverReadsAnc, facts_recoverClears, if_true, Bool.and_self,
        Bool.true_and, Bool.not_true, Bool.false_and, Option.isSome_none, Bool.false_eq_true, if_false]
      exact ih a ⟨ad, none, ares, al⟩ self _ (by simpa [Dom] using hd) hrec hok
    | some v =>
      simp only [execBodyY, Spec.execBody, facts_recoverReadsAnc, facts_recoverClears, if_true, Bool.and_self,
        Bool.not_true, Bool.false_and, Option.isSome_some, Bool.false_eq_true, if_false, reraised_facts]
      exact ⟨rfl, hok⟩
  | deferBin s x k ih =>
    intro a anc self w hd hrec hok
    simp only [Dom] at hd
    obtain ⟨sd, sr, sres, sl⟩ := self
    simp only [execBodyY, Spec.execBody, facts_argsByRefBin, storeArg_val, evalArg_eq, pushEntry, Spec.push, facts_prependCallBin, if_true]
    exact ih a anc ⟨⟨.bin s, .val (Spec.evalArg x a ⟨sd, sres⟩)⟩ :: sd, sr, sres, sl⟩ w hd hrec
      (allOK_cons _ _ (by simp [Entry.ok]) hok)
  | deferBinSpread s ns k ih =>
    intro a anc self w hd hrec hok
    simp only [Dom] at hd
    obtain ⟨sd, sr, sres, sl⟩ := self
    simp only [execBodyY, Spec.execBody, pushEntry, Spec.push, facts_prependCallBin, facts_spreadBin, if_true]
    exact ih a anc ⟨⟨.bins s ns true, .val 0⟩ :: sd, sr, sres, sl⟩ w hd hrec
      (allOK_cons _ _ (by simp [Entry.ok]) hok)
  | deferDel t k ih =>
    intro a anc self w hd hrec hok
    simp only [Dom] at hd
    obtain ⟨sd, sr, sres, sl⟩ := self
    simp only [execBodyY, Spec.execBody, pushEntry, Spec.push, facts_prependBuiltin, if_true]
    exact ih a anc ⟨⟨.del t, .val 0⟩ :: sd, sr, sres, sl⟩ w hd hrec
      (allOK_cons _ _ (by simp [Entry.ok]) hok)
  | deferPanic v k ih =>
    intro a anc self w hd hrec hok
    simp only [Dom] at hd
    obtain ⟨sd, sr, sres, sl⟩ := self
    simp only [execBodyY, Spec.execBody, pushEntry, Spec.push, facts_prependBuiltin, facts_panicDeferrable, if_true]
    exact ih a anc ⟨⟨.pan v, .val 0⟩ :: sd, sr, sres, sl⟩ w hd hrec
      (allOK_cons _ _ (by simp [Entry.ok]) hok)
  | defer f x k _ ih =>
    intro a anc self w hd hrec hok
    simp only [Dom, Bool.and_eq_true] at hd
    obtain ⟨sd, sr, sres, sl⟩ := self
    simp only [execBodyY, Spec.execBody, facts_argsByRefCall, storeArg_val, evalArg_eq, pushEntry, Spec.push, facts_prependCall, if_true]
    exact ih a anc ⟨⟨.src f, .val (Spec.evalArg x a ⟨sd, sres⟩)⟩ :: sd, sr, sres, sl⟩ w hd.2 hrec
      (allOK_cons _ _ (by simpa [Entry.ok] using hd.1) hok)
  | deferVar f x k _ ih =>
    intro a anc self w hd hrec hok
    simp only [Dom, Bool.and_eq_true] at hd
    obtain ⟨sd, sr, sres, sl⟩ := self
    simp only [execBodyY, Spec.execBody, facts_argsByRefCall, storeArg_val, evalArg_eq, pushEntry, Spec.push, facts_prependCall, if_true]
    exact ih a anc ⟨⟨.held f, .val (Spec.evalArg x a ⟨sd, sres⟩)⟩ :: sd, sr, sres, sl⟩ w hd.2 hrec
      (allOK_cons _ _ (by simpa [Entry.ok] using hd.1) hok)
  | call f x sh k _ ih =>
    intro a anc self w hd hrec hok
    simp only [Dom, Bool.and_eq_true] at hd
    obtain ⟨sd, sr, sres, sl⟩ := self
    simp only at hrec
    subst hrec
    simp only [execBodyY, Spec.execBody, evalArg_eq]
    rw [hs f _ _ w hd.1]
    have hn' := hn f (Spec.evalArg x a ⟨sd, sres⟩) sres w
    generalize cs f (Spec.evalArg x a ⟨sd, sres⟩) none sres w = r at hn' ⊢
    obtain ⟨sig, c', res', rr, w'⟩ := r
    simp only at hn'
    subst hn'
    cases sig with
    | normal =>
      simp only [liftAnc]
      exact ih a anc ⟨sd, none, res', sl⟩ _ hd.2 rfl hok
    | panic v => exact ⟨rfl, hok⟩
    | fuel => exact ⟨rfl, hok⟩

/-- what the caller of runCfg observes once the deferred function is done: signal, named result, world -/
def finY (r : Sig × Frame × World) : Sig × Int × World :=
  ((finishY r).1, (finishY r).2.1.res, (finishY r).2.2)

def finS (r : Sig × Option Val × Int × World) : Sig × Int × World :=
  (Spec.finish r.1 r.2.1, r.2.2.1, r.2.2.2)

/-- the loop over f.deferred against the specification's LIFO run: every entry is called exactly once, in
    order; a panic raised by an entry becomes the current panic of the frame and the loop goes on (whether or
    not the frame is locked: the wrapper of a held literal does not touch the defining frame any more) -/
theorem entries_sim (cy : CallFn) (cs : Spec.CallFn) (hs : Sim cy cs) (hc : Spec.CtxFree cs) :
    ∀ (es : List Entry) (self : Frame) (w : World), (∀ e ∈ es, e.ok = true) →
      finY (runEntriesY facts cy es self w) = finS (Spec.runDefers cs es self.recovered self.res w) := by
  intro es
  induction es with
  | nil =>
    intro self w _
    obtain ⟨sd, sr, sres, sl⟩ := self
    cases sr <;> rfl
  | cons e es ih =>
    intro self w hok
    have hek := hok e (by simp)
    have hes : ∀ x ∈ es, x.ok = true := fun x hx => hok x (by simp [hx])
    obtain ⟨callee, arg⟩ := e
    cases callee with
    | bin s => simp only [runEntriesY, Spec.runDefers]; exact ih self _ hes
    | del t => simp only [runEntriesY, Spec.runDefers]; exact ih self _ hes
    | bins s ns sp => simp only [runEntriesY, Spec.runDefers]; exact ih self _ hes
    | pan v =>
      simp only [runEntriesY, Spec.runDefers, facts_deferredProtected, if_true, raised_facts]
      exact ih { self with recovered := some v } w hes
    | src c =>
      have hcd : Dom c = true := by
        simp only [Entry.ok, Bool.and_eq_true] at hek
        exact hek.1
      simp only [runEntriesY, Spec.runDefers, facts_deferredProtected, if_true]
      rw [hs c _ self w hcd]
      generalize cs c (arg.get self.res) self.recovered self.res w = r
      obtain ⟨sig, c', res', rr, w'⟩ := r
      cases sig with
      | normal =>
        simp only [liftAnc]
        exact ih { self with recovered := c', res := res' } w' hes
      | fuel => rfl
      | panic q =>
        simp only [liftAnc]
        exact ih { self with recovered := some q, res := res' } w' hes
    | held c =>
      have hcd : Dom c = true ∧ directRecover c = false := by
        simp only [Entry.ok, Bool.and_eq_true, Bool.not_eq_true'] at hek
        exact hek.1
      simp only [runEntriesY, Spec.runDefers, facts_deferredProtected, facts_closureLocksDefiner, if_true,
        heldAnc_facts, heldBack_facts, Bool.false_and, Bool.false_eq_true, if_false]
      rw [hs c _ _ w hcd.1, hc c _ self.recovered self.res w hcd.2]
      generalize cs c (arg.get self.res) none self.res w = r
      obtain ⟨sig, c', res', rr, w'⟩ := r
      cases sig with
      | normal =>
        simp only [liftAnc, Spec.withCtx]
        exact ih { self with res := res' } w' hes
      | fuel => rfl
      | panic q =>
        simp only [liftAnc, Spec.withCtx]
        exact ih { self with recovered := some q, res := res' } w' hes

theorem execFn_sim : ∀ n, Sim (execFnY facts n) (Spec.execFn n) := by
  intro n
  induction n with
  | zero => intro code a anc w _; rfl
  | succ n ih =>
    intro code a anc w hd
    simp only [execFnY, Spec.execFn]
    obtain ⟨hb, hok⟩ := body_sim (execFnY facts n) (Spec.execFn n) ih (Spec.execFn_none n) code a anc
      Frame.fresh w hd rfl (by simp [Frame.fresh])
    rw [hb]
    simp only [Frame.fresh] at hok ⊢
    generalize Spec.execBody (Spec.execFn n) code a anc.recovered anc.res ⟨[], 0⟩ w = rb at hok ⊢
    obtain ⟨sig, c', o', act, w'⟩ := rb
    simp only [liftBody, exitY_expected]
    cases sig with
    | fuel => rfl
    | normal =>
      have he := entries_sim (execFnY facts n) (Spec.execFn n) ih (Spec.execFn_ctxfree n) act.defers
        ⟨act.defers, pendingOf .normal, act.res, false⟩ w' hok
      simp only [finY, finS] at he
      generalize runEntriesY facts (execFnY facts n) act.defers _ w' = ry at he ⊢
      generalize Spec.runDefers (Spec.execFn n) act.defers _ act.res w' = rs at he ⊢
      simp only [Prod.mk.injEq] at he
      simp only [liftAnc, he.1, he.2.1, he.2.2]
    | panic v =>
      have he := entries_sim (execFnY facts n) (Spec.execFn n) ih (Spec.execFn_ctxfree n) act.defers
        ⟨act.defers, pendingOf (.panic v), act.res, false⟩ w' hok
      simp only [finY, finS] at he
      generalize runEntriesY facts (execFnY facts n) act.defers _ w' = ry at he ⊢
      generalize Spec.runDefers (Spec.execFn n) act.defers _ act.res w' = rs at he ⊢
      simp only [Prod.mk.injEq] at he
      simp only [liftAnc, he.1, he.2.1, he.2.2]

/-! ### a callee touches only `recovered` and `res` of its ancestor frame (any facts) -/

theorem execBodyY_anc (F : UnwindFacts) (cf : CallFn) :
    ∀ (code : Code) (a : Int) (anc self : Frame) (w : World),
      (execBodyY F cf code a anc self w).2.1.deferred = anc.deferred ∧
      (execBodyY F cf code a anc self w).2.1.locked = anc.locked := by
  intro code
  induction code with
  | done => intros; exact ⟨rfl, rfl⟩
  | print s k ih => intros; simp only [execBodyY]; apply ih
  | printArg k ih => intros; simp only [execBodyY]; apply ih
  | call f x sh k _ ih =>
    intro a anc self w
    simp only [execBodyY]
    generalize cf f (evalArg x a self) self w = r
    obtain ⟨sig, s', rr, w'⟩ := r
    cases sig with
    | normal => simp only; apply ih
    | panic v => exact ⟨rfl, rfl⟩
    | fuel => exact ⟨rfl, rfl⟩
  | defer f x k _ ih => intros; simp only [execBodyY]; apply ih
  | deferVar f x k _ ih => intros; simp only [execBodyY]; apply ih
  | deferBin s x k ih => intros; simp only [execBodyY]; apply ih
  | deferDel t k ih => intros; simp only [execBodyY]; apply ih
  | deferBinSpread s ns k ih => intros; simp only [execBodyY]; apply ih
  | deferPanic v k ih =>
    intro a anc self w
    simp only [execBodyY]
    cases F.panicDeferrable
    · exact ⟨rfl, rfl⟩
    · simp only [if_true]; apply ih
  | probe t k ih => intros; simp only [execBodyY]; apply ih
  | panic v k _ => intros; exact ⟨rfl, rfl⟩
  | recover sh k ih =>
    intro a anc self w
    simp only [execBodyY]
    have key : ∀ (c : Bool) (s' : Frame) (w' : World),
        (execBodyY F cf k a (if c = true then { anc with recovered := none } else anc) s' w').2.1.deferred = anc.deferred ∧
        (execBodyY F cf k a (if c = true then { anc with recovered := none } else anc) s' w').2.1.locked = anc.locked := by
      intro c s' w'
      cases c
      · exact ih a anc s' w'
      · exact ih a { anc with recovered := none } s' w'
    exact key _ _ _
  | recoverIs v k ih =>
    intro a anc self w
    simp only [execBodyY]
    have key : ∀ (c : Bool) (s' : Frame) (w' : World),
        (execBodyY F cf k a (if c = true then { anc with recovered := none } else anc) s' w').2.1.deferred = anc.deferred ∧
        (execBodyY F cf k a (if c = true then { anc with recovered := none } else anc) s' w').2.1.locked = anc.locked := by
      intro c s' w'
      cases c
      · exact ih a anc s' w'
      · exact ih a { anc with recovered := none } s' w'
    exact key _ _ _
  | repanic k ih =>
    intro a anc self w
    simp only [execBodyY]
    have key : ∀ (c : Bool) (r : Option Val) (s' : Frame),
        (match r with
          | some v => ((Sig.panic (reraised F v), (if c = true then { anc with recovered := none } else anc), s', w) : Sig × Frame × Frame × World)
          | none => execBodyY F cf k a (if c = true then { anc with recovered := none } else anc) s' w).2.1.deferred = anc.deferred ∧
        (match r with
          | some v => ((Sig.panic (reraised F v), (if c = true then { anc with recovered := none } else anc), s', w) : Sig × Frame × Frame × World)
          | none => execBodyY F cf k a (if c = true then { anc with recovered := none } else anc) s' w).2.1.locked = anc.locked := by
      intro c r s'
      cases r with
      | some v => cases c <;> exact ⟨rfl, rfl⟩
      | none =>
        cases c
        · exact ih a anc s' w
        · exact ih a { anc with recovered := none } s' w
    exact key _ _ _
  | setRes n k ih => intros; simp only [execBodyY]; apply ih
  | setOuter n k ih => intro a anc self w; simp only [execBodyY]; exact ih a { anc with res := n } self w

theorem execFnY_anc (F : UnwindFacts) (n : Nat) (code : Code) (a : Int) (anc : Frame) (w : World) :
    (execFnY F n code a anc w).2.1.deferred = anc.deferred ∧ (execFnY F n code a anc w).2.1.locked = anc.locked := by
  cases n with
  | zero => exact ⟨rfl, rfl⟩
  | succ n =>
    simp only [execFnY]
    have := execBodyY_anc F (execFnY F n) code a anc Frame.fresh w
    generalize execBodyY F (execFnY F n) code a anc Frame.fresh w = r at this ⊢
    obtain ⟨sig, anc', self, w'⟩ := r
    exact this

end YaegiVerif.Unwind
