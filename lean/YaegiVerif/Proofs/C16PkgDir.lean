import YaegiVerif.Proofs.C16Prev
import YaegiVerif.Proofs.C16Eff
import YaegiVerif.Spec.GoImport
/-
  C16 — pkgDir on clean arguments walks the levels of the root from the importing directory upwards,
  trying `<level>/vendor/<path>` at every level that has a vendor directory, and ends with
  `GOPATH/src/<path>`; under the side conditions `DomP` this is go/build's vendor search.
-/
namespace YaegiVerif.Src
open YaegiVerif

/-- what a caller of pkgDir looks at -/
def DirR.toOpt : DirR → Option (Option Path)
  | .found d _ => some (some d)
  | .notFound => some none
  | .err => none
  | .fuel => none

/-- the Go side: nearest vendor level at or below `k`, else GOPATH/src -/
def specFrom (f : FS) (gs : Path) (r P : List String) (k : Nat) : Option Path :=
  match Spec.vendorSearch f gs r P k with
  | some d => some d
  | none => if Spec.isDir f (gs ++ P) then some (gs ++ P) else none

/-- pkgDir's answer read off the levels: the directory and the relative root under which it was found -/
def searchR (f : FS) (gs : Path) (r P : List String) : Nat → Option DirR
  | 0 => if Spec.vendorHit f gs r P 0 then some (.found (vd gs r 0 ++ P) (r.take 0 ++ ["vendor"])) else none
  | k + 1 =>
    if Spec.vendorHit f gs r P (k + 1) then some (.found (vd gs r (k + 1) ++ P) (r.take (k + 1) ++ ["vendor"]))
    else searchR f gs r P k

def resultFrom (f : FS) (gs : Path) (r P : List String) (k : Nat) : DirR :=
  match searchR f gs r P k with
  | some x => x
  | none => if Spec.isDir f (gs ++ P) then .found (gs ++ P) emptyS else .notFound

theorem resultFrom_toOpt (f : FS) (gs : Path) (r P : List String) (k : Nat) :
    (resultFrom f gs r P k).toOpt = some (specFrom f gs r P k) := by
  unfold resultFrom specFrom
  have key : ∀ k, (searchR f gs r P k = none ∧ Spec.vendorSearch f gs r P k = none) ∨
      (∃ d rp, searchR f gs r P k = some (.found d rp) ∧ Spec.vendorSearch f gs r P k = some d) := by
    intro k
    induction k with
    | zero =>
      unfold searchR Spec.vendorSearch
      by_cases h : Spec.vendorHit f gs r P 0 = true
      · right; exact ⟨vd gs r 0 ++ P, r.take 0 ++ ["vendor"], by simp [h], by simp [h, vd]⟩
      · left; simp [h]
    | succ n ih =>
      unfold searchR Spec.vendorSearch
      by_cases h : Spec.vendorHit f gs r P (n + 1) = true
      · right; exact ⟨vd gs r (n + 1) ++ P, r.take (n + 1) ++ ["vendor"], by simp [h], by simp [h, vd]⟩
      · simp only [h, Bool.false_eq_true, if_false]; exact ih
  rcases key k with ⟨h1, h2⟩ | ⟨d, rp, h1, h2⟩
  · rw [h1, h2]
    cases Spec.isDir f (gs ++ P) <;> simp [DirR.toOpt]
  · rw [h1, h2]; simp [DirR.toOpt]

theorem searchR_skip (f : FS) (gs : Path) (r P : List String) (k' : Nat) :
    ∀ m, k' ≤ m → (∀ i, k' < i → i ≤ m → Spec.vendorHit f gs r P i = false) →
      searchR f gs r P m = searchR f gs r P k' := by
  intro m
  induction m with
  | zero => intro h _; have : k' = 0 := by omega
            subst this; rfl
  | succ m ih =>
    intro hle hskip
    by_cases heq : k' = m + 1
    · subst heq; rfl
    · have hu : searchR f gs r P (m + 1) =
          if Spec.vendorHit f gs r P (m + 1) = true then some (.found (vd gs r (m + 1) ++ P) (r.take (m + 1) ++ ["vendor"]))
          else searchR f gs r P m := rfl
      rw [hu, hskip (m + 1) (by omega) (by omega)]
      simp only [Bool.false_eq_true, if_false]
      exact ih (by omega) (fun i a b => hskip i a (by omega))

/-- well-formedness of the arguments of the pkgDir theorems — conditions on the form of the inputs, no
    divergence class: GOPATH is a clean path (relative for an `io/fs` file system, which accepts no other
    name), the root and the import path are clean, the import path is not empty, and the tree holds the
    parent of every vendored directory it holds (true of any file system). -/
structure WF (f : FS) (goPath : Path) (r P : List String) : Prop where
  goodGo : goodPath goPath = true
  relGo : f.mapfs = true → NormRel goPath = true
  normR : NormRel r = true
  normP : NormRel P = true
  neP : P ≠ []
  parents : ∀ k, k ≤ r.length → Spec.isDir f (vd (goPath ++ ["src"]) r k ++ P) = true →
    Spec.isDir f (vd (goPath ++ ["src"]) r k) = true

/-- pkgDir alone looks at directories only: nearest level at or below `k` whose `vendor/<P>` is a directory -/
def searchD (f : FS) (gs : Path) (r P : List String) : Nat → Option Nat
  | 0 => if Spec.isDir f (vd gs r 0 ++ P) then some 0 else none
  | k + 1 => if Spec.isDir f (vd gs r (k + 1) ++ P) then some (k + 1) else searchD f gs r P k

def dirResult (f : FS) (gs : Path) (r P : List String) (k : Nat) : DirR :=
  match searchD f gs r P k with
  | some j => .found (vd gs r j ++ P) (r.take j ++ ["vendor"])
  | none => if Spec.isDir f (gs ++ P) then .found (gs ++ P) emptyS else .notFound

theorem searchD_skip (f : FS) (gs : Path) (r P : List String) (k' : Nat) :
    ∀ m, k' ≤ m → (∀ i, k' < i → i ≤ m → Spec.isDir f (vd gs r i ++ P) = false) →
      searchD f gs r P m = searchD f gs r P k' := by
  intro m
  induction m with
  | zero => intro h _; have : k' = 0 := by omega
            subst this; rfl
  | succ m ih =>
    intro hle hskip
    by_cases heq : k' = m + 1
    · subst heq; rfl
    · have hu : searchD f gs r P (m + 1) =
          if Spec.isDir f (vd gs r (m + 1) ++ P) = true then some (m + 1) else searchD f gs r P m := rfl
      rw [hu, hskip (m + 1) (by omega) (by omega)]
      simp only [Bool.false_eq_true, if_false]
      exact ih (by omega) (fun i a b => hskip i a (by omega))

/-- what `searchD` returns: a level with a directory, nothing nearer -/
theorem searchD_spec (f : FS) (gs : Path) (r P : List String) :
    ∀ k, (searchD f gs r P k = none ∧ ∀ i, i ≤ k → Spec.isDir f (vd gs r i ++ P) = false) ∨
      (∃ j, j ≤ k ∧ searchD f gs r P k = some j ∧ Spec.isDir f (vd gs r j ++ P) = true ∧
        ∀ i, j < i → i ≤ k → Spec.isDir f (vd gs r i ++ P) = false) := by
  intro k
  induction k with
  | zero =>
    unfold searchD
    by_cases h : Spec.isDir f (vd gs r 0 ++ P) = true
    · right; exact ⟨0, by omega, by simp [h], h, by intro i a b; omega⟩
    · left; simp only [Bool.not_eq_true] at h
      refine ⟨by simp [h], ?_⟩
      intro i hi; have : i = 0 := by omega
      subst this; exact h
  | succ n ih =>
    unfold searchD
    by_cases h : Spec.isDir f (vd gs r (n + 1) ++ P) = true
    · right; exact ⟨n + 1, by omega, by simp [h], h, by intro i a b; omega⟩
    · simp only [Bool.not_eq_true] at h
      simp only [h, Bool.false_eq_true, if_false]
      rcases ih with ⟨h1, h2⟩ | ⟨j, hj1, hj2, hj3, hj4⟩
      · left; refine ⟨h1, ?_⟩
        intro i hi
        by_cases hi' : i = n + 1
        · subst hi'; exact h
        · exact h2 i (by omega)
      · right; refine ⟨j, by omega, hj2, hj3, ?_⟩
        intro i a b
        by_cases hi' : i = n + 1
        · subst hi'; exact h
        · exact hj4 i a (by omega)

theorem goodPath_gs (goPath : Path) (h : goodPath goPath = true) : goodPath (goPath ++ ["src"]) = true :=
  goodPath_append goPath ["src"] h (by decide)

/-- the candidate test of pkgDir (`isDir`) on a name the file system accepts: membership in the directories -/
theorem cand_iff_isDir (f : FS) (p : Path) (hok : nameOK f p) : f.cand W p = Spec.isDir f p := by
  have hc : W.candMustBeDir = true := rfl
  unfold FS.cand FS.isDir Spec.isDir
  rw [hc, stat_ok f p hok]
  by_cases h1 : p ∈ f.dirs
  · simp [h1]
  · by_cases h2 : p ∈ f.files
    · simp [h1, h2]
    · simp [h1, h2]

theorem pathOf_ne_noRoot (l : List String) (h : NormRel l = true) : (pathOf l == [W.noRoot]) = false := by
  have hn : W.noRoot = ".." := rfl
  rw [hn]
  cases l with
  | nil => decide
  | cons a b =>
    have ha : normElem a = true := by
      simp only [NormRel, List.all_cons, Bool.and_eq_true] at h; exact h.1
    have : a ≠ ".." := by
      intro h0; subst h0; simp [normElem] at ha
    simp [pathOf, this]

theorem isDir_false_of_stat (f : FS) (p : Path) (hok : nameOK f p) (h : f.stat p ≠ .dir) : Spec.isDir f p = false := by
  unfold Spec.isDir
  rw [stat_ok f p hok] at h
  by_cases h1 : p ∈ f.dirs
  · simp [h1] at h
  · simpa using h1

theorem vendorSearch_skip (f : FS) (gs : Path) (r P : List String) (k' : Nat) :
    ∀ m, k' ≤ m → (∀ i, k' < i → i ≤ m → Spec.vendorHit f gs r P i = false) →
      Spec.vendorSearch f gs r P m = Spec.vendorSearch f gs r P k' := by
  intro m
  induction m with
  | zero => intro h _; have : k' = 0 := by omega
            subst this; rfl
  | succ m ih =>
    intro hle hskip
    by_cases heq : k' = m + 1
    · subst heq; rfl
    · have hu : Spec.vendorSearch f gs r P (m + 1) =
          if Spec.vendorHit f gs r P (m + 1) = true then some (gs ++ r.take (m + 1) ++ ["vendor"] ++ P)
          else Spec.vendorSearch f gs r P m := rfl
      rw [hu, hskip (m + 1) (by omega) (by omega)]
      simp only [Bool.false_eq_true, if_false]
      exact ih (by omega) (fun i a b => hskip i a (by omega))

theorem take_take_le (r : List String) (i k : Nat) (h : i ≤ k) : (r.take k).take i = r.take i := by
  rw [List.take_take]; congr 1; omega

theorem vd_take (gs : Path) (r : List String) (i k : Nat) (h : i ≤ k) : vd gs (r.take k) i = vd gs r i := by
  unfold vd; rw [take_take_le r i k h]

/-- **pkgDir alone = the nearest enclosing `vendor/<P>` directory, else `GOPATH/src/<P>`**, level by level -/
theorem pkgDir_levels (f : FS) (goPath : Path) (r P : List String) (D : WF f goPath r P) :
    ∀ k, k ≤ r.length → ∀ fuel, k + 1 ≤ fuel →
      pkgDir W f goPath fuel (pathOf (r.take k)) P = dirResult f (goPath ++ ["src"]) r P k := by
  have hgs := goodPath_gs goPath D.goodGo
  have hmgs : f.mapfs = true → NormRel (goPath ++ ["src"]) = true := by
    intro h; rw [normRel_append, D.relGo h]; rfl
  have hsrc : W.src = "src" := rfl
  have hvdir : W.vendorDir = "vendor" := rfl
  have hvf : W.vendorFirst = true := rfl
  have heffc : W.effCandidate = false := rfl
  -- the two candidate directories
  have hrp : ∀ k, join [pathOf (r.take k), [W.vendorDir]] = r.take k ++ ["vendor"] := by
    intro k
    have := join_pathOf2 (r.take k) ["vendor"] (normRel_take r k D.normR) (by decide)
    simpa [pathOf, hvdir] using this
  have hd1 : ∀ k, join [goPath, [W.src], r.take k ++ ["vendor"], P] = vd (goPath ++ ["src"]) r k ++ P := by
    intro k
    have hnk := normRel_take r k D.normR
    have hpo : r.take k ++ ["vendor"] = pathOf (r.take k ++ ["vendor"]) := by simp [pathOf]
    rw [hpo, hsrc]
    have hn1 : NormRel (r.take k ++ ["vendor"]) = true := by rw [normRel_append, hnk]; rfl
    have hP : P = pathOf P := by simp [pathOf, D.neP]
    have hf : flat [goPath, ["src"], pathOf (r.take k ++ ["vendor"]), P] = vd (goPath ++ ["src"]) r k ++ P := by
      rw [flat_cons_good _ _ D.goodGo, flat_cons_elem _ _ (by decide), flat_cons_pathOf _ _ hn1]
      conv => lhs; rw [hP]
      rw [flat_cons_pathOf _ _ D.normP, flat_nil]
      simp [vd]
    rw [join_good _ (by
      rw [hf]; exact goodPath_append _ _ (goodPath_append _ _ (goodPath_lv _ r k hgs D.normR) (by decide)) D.normP), hf]
  have hd2 : join [goPath, [W.src], P] = goPath ++ ["src"] ++ P := by
    rw [hsrc]
    have hP : P = pathOf P := by simp [pathOf, D.neP]
    have hf : flat [goPath, ["src"], P] = goPath ++ ["src"] ++ P := by
      rw [flat_cons_good _ _ D.goodGo, flat_cons_elem _ _ (by decide)]
      conv => lhs; rw [hP]
      rw [flat_cons_pathOf _ _ D.normP, flat_nil]; simp
    rw [join_good _ (by rw [hf]; exact goodPath_append _ _ hgs D.normP), hf]
  have hrpath : ∀ k, join [goPath, [W.src], pathOf (r.take k)] = goPath ++ ["src"] ++ r.take k := by
    intro k
    have hnk := normRel_take r k D.normR
    rw [hsrc]
    have hf : flat [goPath, ["src"], pathOf (r.take k)] = goPath ++ ["src"] ++ r.take k := by
      rw [flat_cons_good _ _ D.goodGo, flat_cons_elem _ _ (by decide), flat_cons_pathOf _ _ hnk, flat_nil]; simp
    rw [join_good _ (by rw [hf]; exact goodPath_append _ _ hgs hnk), hf]
  have hokcand : ∀ k, nameOK f (vd (goPath ++ ["src"]) r k ++ P) := by
    intro k
    have := nameOK_append f (goPath ++ ["src"]) (r.take k ++ ["vendor"] ++ P) hmgs hgs
      (by rw [normRel_append, normRel_append, normRel_take r k D.normR, D.normP]; rfl)
    simpa [vd, List.append_assoc] using this
  intro k
  induction k using Nat.strongRecOn with
  | _ k ih =>
    intro hk fuel hfuel
    obtain ⟨fuel', rfl⟩ : ∃ n, fuel = n + 1 := ⟨fuel - 1, by omega⟩
    unfold pkgDir
    simp only [hvf, heffc, if_true, pathOf_ne_noRoot _ (normRel_take r k D.normR), Bool.false_eq_true, if_false, Bool.false_or]
    rw [hrp k, hd1 k, hd2, cand_iff_isDir f _ (hokcand k),
      cand_iff_isDir f _ (nameOK_append f _ P hmgs hgs D.normP)]
    by_cases hv : Spec.isDir f (vd (goPath ++ ["src"]) r k ++ P) = true
    · -- found in this level's vendor directory
      simp only [hv, if_true, Option.orElse]
      unfold dirResult
      cases k with
      | zero => simp [searchD, hv]
      | succ n => simp [searchD, hv]
    · simp only [Bool.not_eq_true] at hv
      simp only [hv, Bool.false_eq_true, if_false, Option.orElse]
      cases k with
      | zero =>
        -- GOPATH/src/<path>, then give up
        unfold dirResult
        simp only [searchD, hv, Bool.false_eq_true, if_false]
        have hemp0 : isEmptyS (pathOf (r.take 0)) = true := by simp [pathOf, isEmptyS, emptyS]
        have hp0 : pathOf (r.take 0) = emptyS := by simp [pathOf]
        cases hg : Spec.isDir f (goPath ++ ["src"] ++ P) with
        | true => simp [pathOf, isEmptyS, emptyS]
        | false => simp [pathOf, isEmptyS, emptyS]
      | succ n =>
        have hne : r.take (n + 1) ≠ [] := by
          intro h; rw [List.take_eq_nil_iff] at h
          rcases h with h | h
          · omega
          · subst h; simp at hk
        have hnk := normRel_take r (n + 1) D.normR
        have hemp : isEmptyS (pathOf (r.take (n + 1))) = false := by
          rw [isEmptyS_pathOf _ hnk]; simpa using hne
        simp only [hemp, Bool.false_eq_true, if_false, Bool.false_and]
        rw [hrpath (n + 1)]
        have hpo : pathOf (r.take (n + 1)) = r.take (n + 1) := by simp [pathOf, hne]
        rw [hpo]
        have hlen : (r.take (n + 1)).length = n + 1 := by simp; omega
        obtain ⟨k', hk'1, hk'2, hk'3⟩ := previousRoot_levels f (goPath ++ ["src"]) (r.take (n + 1)) hgs hmgs hnk hne
        rw [hlen] at hk'1
        rw [hk'2, take_take_le r k' (n + 1) (by omega)]
        simp only
        rw [ih k' (by omega) (by omega) fuel' (by omega)]
        unfold dirResult
        have hs : searchD f (goPath ++ ["src"]) r P (n + 1) = searchD f (goPath ++ ["src"]) r P k' := by
          have h1 : searchD f (goPath ++ ["src"]) r P (n + 1) = searchD f (goPath ++ ["src"]) r P n := by
            conv => lhs; unfold searchD
            simp [hv]
          rw [h1]
          apply searchD_skip f _ r P k' n (by omega)
          intro i hi1 hi2
          have hnd := hk'3 i hi1 (by rw [hlen]; omega)
          rw [vd_take _ r i (n + 1) (by omega)] at hnd
          have hvdf := isDir_false_of_stat f _ (nameOK_vd f _ r i hmgs hgs D.normR) hnd
          cases hc : Spec.isDir f (vd (goPath ++ ["src"]) r i ++ P) with
          | false => rfl
          | true => rw [D.parents i (by omega) hc] at hvdf; cases hvdf
        rw [hs]

/-- **Termination**: on a clean root `root.length + 1` nested calls are enough — pkgDir neither runs out of
    the model's fuel nor stops on an error, whatever the import path and whatever the tree contains. -/
theorem pkgDir_no_fuel (f : FS) (goPath : Path) (r : List String) (P : Path)
    (hgo : goodPath goPath = true) (hrel : f.mapfs = true → NormRel goPath = true) (hr : NormRel r = true) :
    ∀ k, k ≤ r.length → ∀ fuel, k + 1 ≤ fuel →
      pkgDir W f goPath fuel (pathOf (r.take k)) P ≠ .fuel ∧ pkgDir W f goPath fuel (pathOf (r.take k)) P ≠ .err := by
  have hgs := goodPath_gs goPath hgo
  have hmgs : f.mapfs = true → NormRel (goPath ++ ["src"]) = true := by
    intro h; rw [normRel_append, hrel h]; rfl
  have hsrc : W.src = "src" := rfl
  have hrpath : ∀ k, join [goPath, [W.src], pathOf (r.take k)] = goPath ++ ["src"] ++ r.take k := by
    intro k
    have hnk := normRel_take r k hr
    rw [hsrc]
    have hf : flat [goPath, ["src"], pathOf (r.take k)] = goPath ++ ["src"] ++ r.take k := by
      rw [flat_cons_good _ _ hgo, flat_cons_elem _ _ (by decide), flat_cons_pathOf _ _ hnk, flat_nil]; simp
    rw [join_good _ (by rw [hf]; exact goodPath_append _ _ hgs hnk), hf]
  intro k
  induction k using Nat.strongRecOn with
  | _ k ih =>
    intro hk fuel hfuel
    obtain ⟨fuel', rfl⟩ : ∃ n, fuel = n + 1 := ⟨fuel - 1, by omega⟩
    unfold pkgDir
    simp only [pathOf_ne_noRoot _ (normRel_take r k hr), Bool.false_eq_true, if_false]
    generalize f.cand W (join [goPath, [W.src], join [pathOf (r.take k), [W.vendorDir]], P]) = e1
    generalize ((W.effCandidate || isEmptyS (pathOf (r.take k))) &&
      f.cand W (if W.effCandidate = true then join [goPath, [W.src], effectivePkg (pathOf (r.take k)) P]
        else join [goPath, [W.src], P])) = e2
    cases e1 <;> cases e2 <;> cases W.vendorFirst <;>
      simp only [Bool.false_eq_true, if_false, if_true, Option.orElse, ne_eq, reduceCtorEq, not_false_eq_true, and_self]
    all_goals
      cases k with
      | zero => simp [pathOf, isEmptyS, emptyS]
      | succ n =>
        have hne : r.take (n + 1) ≠ [] := by
          intro h; rw [List.take_eq_nil_iff] at h
          rcases h with h | h
          · omega
          · subst h; simp at hk
        have hnk := normRel_take r (n + 1) hr
        have hemp : isEmptyS (pathOf (r.take (n + 1))) = false := by
          rw [isEmptyS_pathOf _ hnk]; simpa using hne
        simp only [hemp, Bool.false_eq_true, if_false]
        rw [hrpath (n + 1)]
        have hpo : pathOf (r.take (n + 1)) = r.take (n + 1) := by simp [pathOf, hne]
        rw [hpo]
        have hlen : (r.take (n + 1)).length = n + 1 := by simp; omega
        obtain ⟨k', hk'1, hk'2, _⟩ := previousRoot_levels f (goPath ++ ["src"]) (r.take (n + 1)) hgs hmgs hnk hne
        rw [hlen] at hk'1
        rw [hk'2, take_take_le r k' (n + 1) (by omega)]
        exact ih k' (by omega) (by omega) fuel' (by omega)

/-! ### goPkgDir: the vendored directories without Go files are skipped -/

theorem base_snoc (l : List String) (x : String) (hx : x ≠ "") : base (l ++ [x]) = x := by
  unfold base
  have he : isEmptyS (l ++ [x]) = false := by
    cases l with
    | nil => simp [isEmptyS, hx]
    | cons a b => cases b <;> simp [isEmptyS]
  simp [he, hx]

theorem hasGoFiles_eq (f : FS) (d : Path) (hok : nameOK f d) : f.hasGoFiles d = Spec.hasGo f d := by
  unfold FS.hasGoFiles Spec.hasGo
  have hv : (!f.mapfs || validPath d) = true := by
    by_cases hm : f.mapfs = true
    · have := hok hm; simp [validPath_norm d this.1 this.2]
    · simp [hm]
  rw [hv, Bool.true_and]
  rfl

theorem defaultFuel_take (r : List String) (k : Nat) (hk : k ≤ r.length) : k + 1 ≤ defaultFuel (pathOf (r.take k)) := by
  unfold defaultFuel pathOf
  by_cases h : (r.take k).isEmpty = true
  · have : k = 0 := by
      rw [List.isEmpty_iff, List.take_eq_nil_iff] at h
      rcases h with h | h
      · exact h
      · subst h; simpa using hk
    subst this; simp [emptyS]
  · simp only [h, Bool.false_eq_true, if_false, List.length_take]; omega

theorem dir_single (a : String) : dir [a] = ["."] := by
  simp [dir, clean, isRooted, cleanStep]

/-- from `noRoot` only GOPATH/src/<P> is looked at -/
theorem pkgDir_noRoot (f : FS) (goPath : Path) (P : List String) (hgo : goodPath goPath = true)
    (hrel : f.mapfs = true → NormRel goPath = true) (hP : NormRel P = true) (hne : P ≠ []) (fuel : Nat) :
    pkgDir W f goPath (fuel + 1) [W.noRoot] P =
      if Spec.isDir f (goPath ++ ["src"] ++ P) then .found (goPath ++ ["src"] ++ P) emptyS else .notFound := by
  have hgs := goodPath_gs goPath hgo
  have hmgs : f.mapfs = true → NormRel (goPath ++ ["src"]) = true := by
    intro h; rw [normRel_append, hrel h]; rfl
  have hsrc : W.src = "src" := rfl
  have hd2 : join [goPath, [W.src], P] = goPath ++ ["src"] ++ P := by
    rw [hsrc]
    have hP' : P = pathOf P := by simp [pathOf, hne]
    have hf : flat [goPath, ["src"], P] = goPath ++ ["src"] ++ P := by
      rw [flat_cons_good _ _ hgo, flat_cons_elem _ _ (by decide)]
      conv => lhs; rw [hP']
      rw [flat_cons_pathOf _ _ hP, flat_nil]; simp
    rw [join_good _ (by rw [hf]; exact goodPath_append _ _ hgs hP), hf]
  unfold pkgDir
  have hvf : W.vendorFirst = true := rfl
  have heffc : W.effCandidate = false := rfl
  simp only [BEq.rfl, if_true, hvf, heffc, Bool.false_eq_true, if_false, Bool.false_or]
  rw [hd2, cand_iff_isDir f _ (nameOK_append f _ P hmgs hgs hP)]
  cases Spec.isDir f (goPath ++ ["src"] ++ P) <;> simp [isEmptyS, emptyS, Option.orElse]

theorem vendorHit_false_of_dir (f : FS) (gs : Path) (r P : List String) (i : Nat)
    (h : Spec.isDir f (vd gs r i ++ P) = false) : Spec.vendorHit f gs r P i = false := by
  unfold Spec.vendorHit
  show (Spec.isDir f (vd gs r i) && Spec.isDir f (vd gs r i ++ P) && _) = false
  simp [h]

/-- **goPkgDir = the Go vendor search**, level by level: nearest enclosing `vendor/<P>` directory *holding Go
    files*, else `GOPATH/src/<P>` -/
theorem goPkgDir_levels (f : FS) (goPath : Path) (r P : List String) (D : WF f goPath r P) :
    ∀ k, k ≤ r.length → ∀ n, k + 3 ≤ n →
      goPkgDir W f goPath n (pathOf (r.take k)) P = resultFrom f (goPath ++ ["src"]) r P k := by
  have hgs := goodPath_gs goPath D.goodGo
  have hmgs : f.mapfs = true → NormRel (goPath ++ ["src"]) = true := by
    intro h; rw [normRel_append, D.relGo h]; rfl
  have hokcand : ∀ k, nameOK f (vd (goPath ++ ["src"]) r k ++ P) := by
    intro k
    have := nameOK_append f (goPath ++ ["src"]) (r.take k ++ ["vendor"] ++ P) hmgs hgs
      (by rw [normRel_append, normRel_append, normRel_take r k D.normR, D.normP]; rfl)
    simpa [vd, List.append_assoc] using this
  have hven : W.vendor = "vendor" := rfl
  have hnoR : W.noRoot = ".." := rfl
  intro k
  induction k using Nat.strongRecOn with
  | _ k ih =>
    intro hk n hn
    obtain ⟨n', rfl⟩ : ∃ m, n = m + 1 := ⟨n - 1, by omega⟩
    unfold goPkgDir
    rw [pkgDir_levels f goPath r P D k hk _ (defaultFuel_take r k hk)]
    unfold dirResult
    rcases searchD_spec f (goPath ++ ["src"]) r P k with ⟨h1, h2⟩ | ⟨j, hj1, hj2, hj3, hj4⟩
    · -- no vendored directory at all
      rw [h1]
      have hsr : searchR f (goPath ++ ["src"]) r P k = none := by
        have h0 : searchR f (goPath ++ ["src"]) r P 0 = none := by
          unfold searchR
          rw [vendorHit_false_of_dir f _ r P 0 (h2 0 (by omega))]; simp
        rw [searchR_skip f _ r P 0 k (by omega)
          (fun i _ hi => vendorHit_false_of_dir f _ r P i (h2 i hi)), h0]
      unfold resultFrom
      rw [hsr]
      cases Spec.isDir f (goPath ++ ["src"] ++ P) with
      | true => simp [base, isEmptyS, emptyS, hven]
      | false => simp
    · rw [hj2]
      simp only
      have hb : base (r.take j ++ ["vendor"]) = "vendor" := base_snoc _ _ (by decide)
      rw [hb, hven, hasGoFiles_eq f _ (hokcand j)]
      have hskip : ∀ i, j < i → i ≤ k → Spec.vendorHit f (goPath ++ ["src"]) r P i = false :=
        fun i a b => vendorHit_false_of_dir f _ r P i (hj4 i a b)
      cases hgo : Spec.hasGo f (vd (goPath ++ ["src"]) r j ++ P) with
      | true =>
        -- the Go rule takes this directory too
        simp only [bne_self_eq_false, Bool.false_or, if_true]
        unfold resultFrom
        rw [searchR_skip f _ r P j k hj1 hskip]
        have hhit : Spec.vendorHit f (goPath ++ ["src"]) r P j = true := by
          unfold Spec.vendorHit
          show (Spec.isDir f (vd (goPath ++ ["src"]) r j) && Spec.isDir f (vd (goPath ++ ["src"]) r j ++ P) &&
            Spec.hasGo f (vd (goPath ++ ["src"]) r j ++ P)) = true
          rw [D.parents j (by omega) hj3, hj3, hgo]; rfl
        cases j with
        | zero => simp [searchR, hhit]
        | succ m => simp [searchR, hhit]
      | false =>
        -- no Go files: go on from the level above
        simp only [bne_self_eq_false, Bool.false_or, Bool.false_eq_true, if_false]
        have hmiss : Spec.vendorHit f (goPath ++ ["src"]) r P j = false := by
          unfold Spec.vendorHit
          show (Spec.isDir f (vd (goPath ++ ["src"]) r j) && Spec.isDir f (vd (goPath ++ ["src"]) r j ++ P) &&
            Spec.hasGo f (vd (goPath ++ ["src"]) r j ++ P)) = false
          rw [hgo]; simp
        cases j with
        | zero =>
          have hd : dir (r.take 0 ++ ["vendor"]) = ["."] := by simp [dir_single]
          rw [hd]
          simp only [BEq.rfl, if_true]
          obtain ⟨n'', rfl⟩ : ∃ m, n' = m + 1 := ⟨n' - 1, by omega⟩
          unfold goPkgDir
          have hdf : defaultFuel [W.noRoot] = 19 + 1 := rfl
          rw [hdf, pkgDir_noRoot f goPath P D.goodGo D.relGo D.normP D.neP]
          unfold resultFrom
          have hsr : searchR f (goPath ++ ["src"]) r P k = none := by
            rw [searchR_skip f _ r P 0 k (by omega) hskip]
            unfold searchR; rw [hmiss]; simp
          rw [hsr]
          cases Spec.isDir f (goPath ++ ["src"] ++ P) with
          | true => simp [base, isEmptyS, emptyS, hven]
          | false => simp
        | succ m =>
          have hm : m < r.length := by omega
          have hne : r.take (m + 1) ≠ [] := by
            intro h; rw [List.take_eq_nil_iff] at h
            rcases h with h | h
            · omega
            · subst h; simp at hm
          have hnk := normRel_take r (m + 1) D.normR
          have hd : dir (r.take (m + 1) ++ ["vendor"]) = r.take (m + 1) :=
            dir_snoc _ _ (goodPath_of_normRel _ hnk hne)
          rw [hd]
          have hnd : (r.take (m + 1) == ["."]) = false := by
            have hs : r.take (m + 1) = r.take m ++ [r[m]] := by
              rw [List.take_add_one, List.getElem?_eq_getElem hm]; simp
            rw [hs] at hnk ⊢
            rw [normRel_append] at hnk
            simp only [Bool.and_eq_true] at hnk
            have : r[m] ≠ "." := by
              intro h0; rw [h0] at hnk; simp [NormRel, normElem] at hnk
            cases htm : r.take m with
            | nil => simp [this]
            | cons a b => simp
          simp only [hnd, Bool.false_eq_true, if_false]
          have hroot : (if (dir (r.take (m + 1)) == ["."]) = true then emptyS else dir (r.take (m + 1))) = pathOf (r.take m) := by
            have hs : r.take (m + 1) = r.take m ++ [r[m]] := by
              rw [List.take_add_one, List.getElem?_eq_getElem hm]; simp
            cases m with
            | zero =>
              rw [hs]; simp [dir_single, pathOf]
            | succ m' =>
              have hne' : r.take (m' + 1) ≠ [] := by
                intro h; rw [List.take_eq_nil_iff] at h
                rcases h with h | h
                · omega
                · subst h; simp at hm
              have hnk' := normRel_take r (m' + 1) D.normR
              rw [hs, dir_snoc _ _ (goodPath_of_normRel _ hnk' hne')]
              have hnd' : (r.take (m' + 1) == ["."]) = false := by
                have hs' : r.take (m' + 1) = r.take m' ++ [r[m']] := by
                  rw [List.take_add_one, List.getElem?_eq_getElem (by omega)]; simp
                rw [hs'] at hnk' ⊢
                rw [normRel_append] at hnk'
                simp only [Bool.and_eq_true] at hnk'
                have : r[m'] ≠ "." := by
                  intro h0; rw [h0] at hnk'; simp [NormRel, normElem] at hnk'
                cases htm : r.take m' with
                | nil => simp [this]
                | cons a b => simp
              simp [hnd', pathOf, hne']
          rw [hroot, ih m (by omega) (by omega) n' (by omega)]
          unfold resultFrom
          have hsr : searchR f (goPath ++ ["src"]) r P k = searchR f (goPath ++ ["src"]) r P m := by
            apply searchR_skip f _ r P m k (by omega)
            intro i a b
            by_cases hi : i = m + 1
            · subst hi; exact hmiss
            · exact hskip i (by omega) b
          rw [hsr]

/-- goPkgDir never runs out of the model's fuel nor stops on an error -/
theorem goPkgDir_ok (f : FS) (goPath : Path) (r P : List String) (D : WF f goPath r P) (n : Nat) (hn : r.length + 3 ≤ n) :
    goPkgDir W f goPath n (pathOf r) P ≠ .fuel ∧ goPkgDir W f goPath n (pathOf r) P ≠ .err := by
  have := goPkgDir_levels f goPath r P D r.length (Nat.le_refl _) n hn
  rw [List.take_length] at this
  rw [this]
  unfold resultFrom
  have shape : ∀ k x, searchR f (goPath ++ ["src"]) r P k = some x → ∃ d rp, x = .found d rp := by
    intro k
    induction k with
    | zero =>
      intro x hx; unfold searchR at hx
      split at hx
      · exact ⟨_, _, by simpa using hx.symm⟩
      · cases hx
    | succ m ih =>
      intro x hx; unfold searchR at hx
      split at hx
      · exact ⟨_, _, by simpa using hx.symm⟩
      · exact ih x hx
  cases hs : searchR f (goPath ++ ["src"]) r P r.length with
  | some x => obtain ⟨d, rp, rfl⟩ := shape _ x hs; simp
  | none => simp only; split <;> simp

end YaegiVerif.Src
