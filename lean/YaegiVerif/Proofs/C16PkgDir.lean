import YaegiVerif.Proofs.C16Prev
import YaegiVerif.Proofs.C16Eff
import YaegiVerif.Spec.GoImport
/-
  C16 — pkgDir on clean arguments walks the levels of the root from the importing directory upwards,
  trying `<level>/vendor/<path>` at every level that has a vendor directory, and ends with
  `GOPATH/src/<path>`; under the side conditions `DomP` this is go/build's vendor search.
-/
namespace YaegiVerif.Src
open YaegiVerif

/-- what a caller of pkgDir looks at -/
def DirR.toOpt : DirR → Option (Option Path)
  | .found d _ => some (some d)
  | .notFound => some none
  | .err => none
  | .fuel => none

/-- the Go side: nearest vendor level at or below `k`, else GOPATH/src -/
def specFrom (f : FS) (gs : Path) (r P : List String) (k : Nat) : Option Path :=
  match Spec.vendorSearch f gs r P k with
  | some d => some d
  | none => if Spec.isDir f (gs ++ P) then some (gs ++ P) else none

/-- pkgDir's answer read off the levels: the directory and the relative root under which it was found -/
def searchR (f : FS) (gs : Path) (r P : List String) : Nat → Option DirR
  | 0 => if Spec.vendorHit f gs r P 0 then some (.found (vd gs r 0 ++ P) (r.take 0 ++ ["vendor"])) else none
  | k + 1 =>
    if Spec.vendorHit f gs r P (k + 1) then some (.found (vd gs r (k + 1) ++ P) (r.take (k + 1) ++ ["vendor"]))
    else searchR f gs r P k

def resultFrom (f : FS) (gs : Path) (r P : List String) (k : Nat) : DirR :=
  match searchR f gs r P k with
  | some x => x
  | none => if Spec.isDir f (gs ++ P) then .found (gs ++ P) emptyS else .notFound

theorem resultFrom_toOpt (f : FS) (gs : Path) (r P : List String) (k : Nat) :
    (resultFrom f gs r P k).toOpt = some (specFrom f gs r P k) := by
  unfold resultFrom specFrom
  have key : ∀ k, (searchR f gs r P k = none ∧ Spec.vendorSearch f gs r P k = none) ∨
      (∃ d rp, searchR f gs r P k = some (.found d rp) ∧ Spec.vendorSearch f gs r P k = some d) := by
    intro k
    induction k with
    | zero =>
      unfold searchR Spec.vendorSearch
      by_cases h : Spec.vendorHit f gs r P 0 = true
      · right; exact ⟨vd gs r 0 ++ P, r.take 0 ++ ["vendor"], by simp [h], by simp [h, vd]⟩
      · left; simp [h]
    | succ n ih =>
      unfold searchR Spec.vendorSearch
      by_cases h : Spec.vendorHit f gs r P (n + 1) = true
      · right; exact ⟨vd gs r (n + 1) ++ P, r.take (n + 1) ++ ["vendor"], by simp [h], by simp [h, vd]⟩
      · simp only [h, Bool.false_eq_true, if_false]; exact ih
  rcases key k with ⟨h1, h2⟩ | ⟨d, rp, h1, h2⟩
  · rw [h1, h2]
    cases Spec.isDir f (gs ++ P) <;> simp [DirR.toOpt]
  · rw [h1, h2]; simp [DirR.toOpt]

theorem searchR_skip (f : FS) (gs : Path) (r P : List String) (k' : Nat) :
    ∀ m, k' ≤ m → (∀ i, k' < i → i ≤ m → Spec.vendorHit f gs r P i = false) →
      searchR f gs r P m = searchR f gs r P k' := by
  intro m
  induction m with
  | zero => intro h _; have : k' = 0 := by omega
            subst this; rfl
  | succ m ih =>
    intro hle hskip
    by_cases heq : k' = m + 1
    · subst heq; rfl
    · have hu : searchR f gs r P (m + 1) =
          if Spec.vendorHit f gs r P (m + 1) = true then some (.found (vd gs r (m + 1) ++ P) (r.take (m + 1) ++ ["vendor"]))
          else searchR f gs r P m := rfl
      rw [hu, hskip (m + 1) (by omega) (by omega)]
      simp only [Bool.false_eq_true, if_false]
      exact ih (by omega) (fun i a b => hskip i a (by omega))

/-- side conditions of the pkgDir theorem (all decidable, see `Props.C16.domPkgDir`) -/
structure DomP (f : FS) (goPath : Path) (r P : List String) : Prop where
  goodGo : goodPath goPath = true
  relGo : f.mapfs = true → NormRel goPath = true
  normR : NormRel r = true
  normP : NormRel P = true
  neP : P ≠ []
  /-- a candidate is never a regular file -/
  candNotFile : ∀ k, k ≤ r.length → f.stat (vd (goPath ++ ["src"]) r k ++ P) ≠ .file
  gopathNotFile : f.stat (goPath ++ ["src"] ++ P) ≠ .file
  /-- the tree is closed under parents where it matters, and vendored packages have Go files -/
  vendorClosed : ∀ k, k ≤ r.length → Spec.isDir f (vd (goPath ++ ["src"]) r k ++ P) = true →
    Spec.isDir f (vd (goPath ++ ["src"]) r k) = true ∧ Spec.hasGo f (vd (goPath ++ ["src"]) r k ++ P) = true
  /-- nothing answers to effectivePkg(level, path) below GOPATH/src/<level> -/
  noneUnderRoot : ∀ k, 1 ≤ k → k ≤ r.length →
    f.exists (join [goPath, [W.src], effectivePkg (pathOf (r.take k)) P]) = false
  /-- no regular file named vendor in a proper ancestor of the root -/
  vendorNotFile : ∀ k, 1 ≤ k → k < r.length → f.stat (vd (goPath ++ ["src"]) r k) ≠ .file

theorem goodPath_gs (goPath : Path) (h : goodPath goPath = true) : goodPath (goPath ++ ["src"]) = true :=
  goodPath_append goPath ["src"] h (by decide)

theorem exists_iff_isDir (f : FS) (p : Path) (hok : nameOK f p) (hnf : f.stat p ≠ .file) :
    f.exists p = Spec.isDir f p := by
  unfold FS.exists Spec.isDir
  rw [stat_ok f p hok] at hnf ⊢
  by_cases h1 : p ∈ f.dirs
  · simp [h1]
  · by_cases h2 : p ∈ f.files
    · simp [h1, h2] at hnf
    · simp [h1, h2]

theorem isDir_false_of_stat (f : FS) (p : Path) (hok : nameOK f p) (h : f.stat p ≠ .dir) : Spec.isDir f p = false := by
  unfold Spec.isDir
  rw [stat_ok f p hok] at h
  by_cases h1 : p ∈ f.dirs
  · simp [h1] at h
  · simpa using h1

theorem vendorSearch_skip (f : FS) (gs : Path) (r P : List String) (k' : Nat) :
    ∀ m, k' ≤ m → (∀ i, k' < i → i ≤ m → Spec.vendorHit f gs r P i = false) →
      Spec.vendorSearch f gs r P m = Spec.vendorSearch f gs r P k' := by
  intro m
  induction m with
  | zero => intro h _; have : k' = 0 := by omega
            subst this; rfl
  | succ m ih =>
    intro hle hskip
    by_cases heq : k' = m + 1
    · subst heq; rfl
    · have hu : Spec.vendorSearch f gs r P (m + 1) =
          if Spec.vendorHit f gs r P (m + 1) = true then some (gs ++ r.take (m + 1) ++ ["vendor"] ++ P)
          else Spec.vendorSearch f gs r P m := rfl
      rw [hu, hskip (m + 1) (by omega) (by omega)]
      simp only [Bool.false_eq_true, if_false]
      exact ih (by omega) (fun i a b => hskip i a (by omega))

theorem take_take_le (r : List String) (i k : Nat) (h : i ≤ k) : (r.take k).take i = r.take i := by
  rw [List.take_take]; congr 1; omega

theorem vd_take (gs : Path) (r : List String) (i k : Nat) (h : i ≤ k) : vd gs (r.take k) i = vd gs r i := by
  unfold vd; rw [take_take_le r i k h]

/-- **pkgDir = the Go vendor search**, level by level -/
theorem pkgDir_levels (f : FS) (goPath : Path) (r P : List String) (D : DomP f goPath r P) :
    ∀ k, k ≤ r.length → ∀ fuel, k + 1 ≤ fuel →
      pkgDir W f goPath fuel (pathOf (r.take k)) P = resultFrom f (goPath ++ ["src"]) r P k := by
  have hgs := goodPath_gs goPath D.goodGo
  have hmgs : f.mapfs = true → NormRel (goPath ++ ["src"]) = true := by
    intro h; rw [normRel_append, D.relGo h]; rfl
  have hsrc : W.src = "src" := rfl
  have hvdir : W.vendorDir = "vendor" := rfl
  have hvf : W.vendorFirst = true := rfl
  -- the two candidate directories
  have hrp : ∀ k, join [pathOf (r.take k), [W.vendorDir]] = r.take k ++ ["vendor"] := by
    intro k
    have := join_pathOf2 (r.take k) ["vendor"] (normRel_take r k D.normR) (by decide)
    simpa [pathOf, hvdir] using this
  have hd1 : ∀ k, join [goPath, [W.src], r.take k ++ ["vendor"], P] = vd (goPath ++ ["src"]) r k ++ P := by
    intro k
    have hnk := normRel_take r k D.normR
    have hpo : r.take k ++ ["vendor"] = pathOf (r.take k ++ ["vendor"]) := by simp [pathOf]
    rw [hpo, hsrc]
    have hn1 : NormRel (r.take k ++ ["vendor"]) = true := by rw [normRel_append, hnk]; rfl
    have hP : P = pathOf P := by simp [pathOf, D.neP]
    have hf : flat [goPath, ["src"], pathOf (r.take k ++ ["vendor"]), P] = vd (goPath ++ ["src"]) r k ++ P := by
      rw [flat_cons_good _ _ D.goodGo, flat_cons_elem _ _ (by decide), flat_cons_pathOf _ _ hn1]
      conv => lhs; rw [hP]
      rw [flat_cons_pathOf _ _ D.normP, flat_nil]
      simp [vd]
    rw [join_good _ (by
      rw [hf]; exact goodPath_append _ _ (goodPath_append _ _ (goodPath_lv _ r k hgs D.normR) (by decide)) D.normP), hf]
  have hrpath : ∀ k, join [goPath, [W.src], pathOf (r.take k)] = goPath ++ ["src"] ++ r.take k := by
    intro k
    have hnk := normRel_take r k D.normR
    rw [hsrc]
    have hf : flat [goPath, ["src"], pathOf (r.take k)] = goPath ++ ["src"] ++ r.take k := by
      rw [flat_cons_good _ _ D.goodGo, flat_cons_elem _ _ (by decide), flat_cons_pathOf _ _ hnk, flat_nil]; simp
    rw [join_good _ (by rw [hf]; exact goodPath_append _ _ hgs hnk), hf]
  have hokcand : ∀ k, nameOK f (vd (goPath ++ ["src"]) r k ++ P) := by
    intro k
    have := nameOK_append f (goPath ++ ["src"]) (r.take k ++ ["vendor"] ++ P) hmgs hgs
      (by rw [normRel_append, normRel_append, normRel_take r k D.normR, D.normP]; rfl)
    simpa [vd, List.append_assoc] using this
  have hhit : ∀ k, k ≤ r.length → f.exists (vd (goPath ++ ["src"]) r k ++ P) = Spec.vendorHit f (goPath ++ ["src"]) r P k := by
    intro k hk
    rw [exists_iff_isDir f _ (hokcand k) (D.candNotFile k hk)]
    unfold Spec.vendorHit
    show _ = (Spec.isDir f (vd (goPath ++ ["src"]) r k) && Spec.isDir f (vd (goPath ++ ["src"]) r k ++ P) &&
      Spec.hasGo f (vd (goPath ++ ["src"]) r k ++ P))
    by_cases h : Spec.isDir f (vd (goPath ++ ["src"]) r k ++ P) = true
    · have := D.vendorClosed k hk h
      simp [h, this.1, this.2]
    · simp only [Bool.not_eq_true] at h; simp [h]
  intro k
  induction k using Nat.strongRecOn with
  | _ k ih =>
    intro hk fuel hfuel
    obtain ⟨fuel', rfl⟩ : ∃ n, fuel = n + 1 := ⟨fuel - 1, by omega⟩
    unfold pkgDir
    simp only [hvf, if_true]
    rw [hrp k, hd1 k, hhit k hk]
    by_cases hv : Spec.vendorHit f (goPath ++ ["src"]) r P k = true
    · -- found in this level's vendor directory
      simp only [hv, if_true, Option.orElse]
      unfold resultFrom
      cases k with
      | zero => simp [searchR, hv]
      | succ n => simp [searchR, hv]
    · simp only [Bool.not_eq_true] at hv
      simp only [hv, Bool.false_eq_true, if_false, Option.orElse]
      cases k with
      | zero =>
        -- GOPATH/src/<path>, then give up
        have heff : effectivePkg (pathOf (r.take 0)) P = P := by
          have := effectivePkg_empty_root P D.normP D.neP
          simpa [pathOf] using this
        have hd2 : join [goPath, [W.src], effectivePkg (pathOf (r.take 0)) P] = goPath ++ ["src"] ++ P := by
          rw [heff, hsrc]
          have hP : P = pathOf P := by simp [pathOf, D.neP]
          have hf : flat [goPath, ["src"], P] = goPath ++ ["src"] ++ P := by
            rw [flat_cons_good _ _ D.goodGo, flat_cons_elem _ _ (by decide)]
            conv => lhs; rw [hP]
            rw [flat_cons_pathOf _ _ D.normP, flat_nil]; simp
          rw [join_good _ (by rw [hf]; exact goodPath_append _ _ hgs D.normP), hf]
        rw [hd2, exists_iff_isDir f _ (nameOK_append f _ P hmgs hgs D.normP) D.gopathNotFile]
        unfold resultFrom
        simp only [searchR, hv, Bool.false_eq_true, if_false]
        have hemp0 : isEmptyS (pathOf (r.take 0)) = true := by simp [pathOf, isEmptyS, emptyS]
        have hp0 : pathOf (r.take 0) = emptyS := by simp [pathOf]
        cases hg : Spec.isDir f (goPath ++ ["src"] ++ P) with
        | true => simp only [if_true, hp0]
        | false => simp only [Bool.false_eq_true, if_false, hemp0, if_true]
      | succ n =>
        rw [D.noneUnderRoot (n + 1) (by omega) hk]
        simp only [Bool.false_eq_true, if_false]
        have hne : r.take (n + 1) ≠ [] := by
          intro h; rw [List.take_eq_nil_iff] at h
          rcases h with h | h
          · omega
          · subst h; simp at hk
        have hnk := normRel_take r (n + 1) D.normR
        have hemp : isEmptyS (pathOf (r.take (n + 1))) = false := by
          rw [isEmptyS_pathOf _ hnk]; simpa using hne
        simp only [hemp, Bool.false_eq_true, if_false]
        rw [hrpath (n + 1)]
        have hpo : pathOf (r.take (n + 1)) = r.take (n + 1) := by simp [pathOf, hne]
        rw [hpo]
        have hlen : (r.take (n + 1)).length = n + 1 := by simp; omega
        obtain ⟨k', hk'1, hk'2, hk'3⟩ := previousRoot_levels f (goPath ++ ["src"]) (r.take (n + 1)) hgs hmgs hnk hne
          (by
            intro i hi1 hi2
            rw [hlen] at hi2
            rw [vd_take _ r i (n + 1) (by omega)]
            exact D.vendorNotFile i hi1 (by omega))
        rw [hlen] at hk'1
        rw [hk'2, take_take_le r k' (n + 1) (by omega)]
        simp only
        rw [ih k' (by omega) (by omega) fuel' (by omega)]
        unfold resultFrom
        have hs : searchR f (goPath ++ ["src"]) r P (n + 1) = searchR f (goPath ++ ["src"]) r P k' := by
          have h1 : searchR f (goPath ++ ["src"]) r P (n + 1) = searchR f (goPath ++ ["src"]) r P n := by
            conv => lhs; unfold searchR
            simp [hv]
          rw [h1]
          apply searchR_skip f _ r P k' n (by omega)
          intro i hi1 hi2
          have hnd := hk'3 i hi1 (by rw [hlen]; omega)
          rw [vd_take _ r i (n + 1) (by omega)] at hnd
          have := isDir_false_of_stat f _ (nameOK_vd f _ r i hmgs hgs D.normR) hnd
          unfold Spec.vendorHit
          show (Spec.isDir f (vd (goPath ++ ["src"]) r i) && _ && _) = false
          simp [this]
        rw [hs]


/-- **Termination**: on a clean root, with no regular file named `vendor` among its proper ancestors,
    `root.length + 1` nested calls are enough — pkgDir neither runs out of the model's fuel nor stops on
    an error, whatever the import path and whatever else the tree contains. -/
theorem pkgDir_no_fuel (f : FS) (goPath : Path) (r : List String) (P : Path)
    (hgo : goodPath goPath = true) (hrel : f.mapfs = true → NormRel goPath = true) (hr : NormRel r = true)
    (hfile : ∀ k, 1 ≤ k → k < r.length → f.stat (vd (goPath ++ ["src"]) r k) ≠ .file) :
    ∀ k, k ≤ r.length → ∀ fuel, k + 1 ≤ fuel →
      pkgDir W f goPath fuel (pathOf (r.take k)) P ≠ .fuel ∧ pkgDir W f goPath fuel (pathOf (r.take k)) P ≠ .err := by
  have hgs := goodPath_gs goPath hgo
  have hmgs : f.mapfs = true → NormRel (goPath ++ ["src"]) = true := by
    intro h; rw [normRel_append, hrel h]; rfl
  have hsrc : W.src = "src" := rfl
  have hrpath : ∀ k, join [goPath, [W.src], pathOf (r.take k)] = goPath ++ ["src"] ++ r.take k := by
    intro k
    have hnk := normRel_take r k hr
    rw [hsrc]
    have hf : flat [goPath, ["src"], pathOf (r.take k)] = goPath ++ ["src"] ++ r.take k := by
      rw [flat_cons_good _ _ hgo, flat_cons_elem _ _ (by decide), flat_cons_pathOf _ _ hnk, flat_nil]; simp
    rw [join_good _ (by rw [hf]; exact goodPath_append _ _ hgs hnk), hf]
  intro k
  induction k using Nat.strongRecOn with
  | _ k ih =>
    intro hk fuel hfuel
    obtain ⟨fuel', rfl⟩ : ∃ n, fuel = n + 1 := ⟨fuel - 1, by omega⟩
    unfold pkgDir
    simp only
    generalize f.exists (join [goPath, [W.src], join [pathOf (r.take k), [W.vendorDir]], P]) = e1
    generalize f.exists (join [goPath, [W.src], effectivePkg (pathOf (r.take k)) P]) = e2
    cases e1 <;> cases e2 <;> cases W.vendorFirst <;>
      simp only [Bool.false_eq_true, if_false, if_true, Option.orElse, ne_eq, reduceCtorEq, not_false_eq_true, and_self]
    all_goals
      cases k with
      | zero => simp [pathOf, isEmptyS, emptyS]
      | succ n =>
        have hne : r.take (n + 1) ≠ [] := by
          intro h; rw [List.take_eq_nil_iff] at h
          rcases h with h | h
          · omega
          · subst h; simp at hk
        have hnk := normRel_take r (n + 1) hr
        have hemp : isEmptyS (pathOf (r.take (n + 1))) = false := by
          rw [isEmptyS_pathOf _ hnk]; simpa using hne
        simp only [hemp, Bool.false_eq_true, if_false]
        rw [hrpath (n + 1)]
        have hpo : pathOf (r.take (n + 1)) = r.take (n + 1) := by simp [pathOf, hne]
        rw [hpo]
        have hlen : (r.take (n + 1)).length = n + 1 := by simp; omega
        obtain ⟨k', hk'1, hk'2, _⟩ := previousRoot_levels f (goPath ++ ["src"]) (r.take (n + 1)) hgs hmgs hnk hne
          (by
            intro i hi1 hi2
            rw [hlen] at hi2
            rw [vd_take _ r i (n + 1) (by omega)]
            exact hfile i hi1 (by omega))
        rw [hlen] at hk'1
        rw [hk'2, take_take_le r k' (n + 1) (by omega)]
        exact ih k' (by omega) (by omega) fuel' (by omega)

end YaegiVerif.Src
