import YaegiVerif.Model.RunId
import YaegiVerif.Expected.C10
/-
  Helper lemmas for C10: invariants of histories on the run-id model.
-/
namespace YaegiVerif.Proofs.C10
open YaegiVerif YaegiVerif.RunId

/-- bindings that read the id at the time of the call -/
def isLate : Binding → Bool
  | .callee => true
  | .root => true
  | .fixed _ _ => false

/-- invariant: a named function or a method is bound late (`callee`), whatever happened before -/
def NamedLate (h : HSt) : Prop := ∀ d ∈ h.defs, (d.kind = .named ∨ d.kind = .method) → d.binding = .callee

theorem namedLate_step (F : RunIdFacts) (h : HSt) (ev : Ev) (hn : NamedLate h) : NamedLate (stepH F h ev) := by
  cases ev with
  | define k a b =>
    intro d hd hk
    simp only [stepH, HSt.refresh, List.mem_append, List.mem_cons, List.not_mem_nil, or_false] at hd
    rcases hd with hd | hd
    · exact hn d hd hk
    · subst hd
      rcases hk with hk | hk <;> simp only at hk <;> subst hk <;> rfl
  | use i via x =>
    intro d hd hk
    simp only [stepH] at hd
    have hdefs : ∀ h1 : HSt, h1.defs = h.defs → ∀ d ∈ (match h1.defs[i]? with
        | none => h1
        | some d => if alive F h1 d then { h1 with defs := h1.defs.set i { d with calls := d.calls + 1 }, results := value d x :: h1.results }
                    else { h1 with results := 0 :: h1.results }).defs, (d.kind = .named ∨ d.kind = .method) → d.binding = .callee := by
      intro h1 he d hd hk
      cases hg : h1.defs[i]? with
      | none => simp only [hg] at hd; rw [he] at hd; exact hn d hd hk
      | some d0 =>
        simp only [hg] at hd
        split at hd
        · rcases List.mem_or_eq_of_mem_set hd with hd | hd
          · rw [he] at hd; exact hn d hd hk
          · subst hd
            have hm : d0 ∈ h.defs := by rw [← he]; exact List.mem_of_getElem? hg
            exact hn d0 hm hk
        · rw [he] at hd; exact hn d hd hk
    cases via with
    | eval => exact hdefs (h.refresh F) rfl d hd hk
    | host => exact hdefs h rfl d hd hk
  | cancelled c =>
    intro d hd hk
    cases c <;> simp only [stepH, HSt.refresh] at hd <;> exact hn d hd hk

theorem namedLate_run (F : RunIdFacts) (evs : List Ev) (h : HSt) (hn : NamedLate h) : NamedLate (runHist F h evs) := by
  induction evs generalizing h with
  | nil => exact hn
  | cons e es ih => exact ih _ (namedLate_step F h e hn)

theorem use_eval_alive (F : RunIdFacts) (h : HSt) (i x : Nat) (d : Def) (hd : h.defs[i]? = some d)
    (ha : alive F (h.refresh F) d = true) : (stepH F h (.use i .eval x)).results = value d x :: h.results := by
  have hd' : (h.refresh F).defs[i]? = some d := by simpa [HSt.refresh] using hd
  simp only [stepH, hd', ha, if_true]
  simp [HSt.refresh]

/-- the domain (decidable): definitions are named functions, methods or method values bound at top level, and
    uses are evaluations of call expressions; cancelled evaluations of every kind are allowed anywhere -/
def DomEv : Ev → Bool
  | .define k _ _ => k == .named || k == .method || k == .methodValueTop
  | .use _ via _ => via == .eval
  | .cancelled _ => true

def Dom (evs : List Ev) : Bool := evs.all DomEv

/-- forget what the specification does not have: ids and bindings -/
def erase (h : HSt) : HSt :=
  { id := 0, rootId := 0, defs := h.defs.map (fun d => { d with binding := .callee }), results := h.results }

def AllLate (h : HSt) : Prop := ∀ d ∈ h.defs, isLate d.binding = true

theorem late_alive (h : HSt) (d : Def) (hl : isLate d.binding = true) :
    alive Expected.C10.facts (h.refresh Expected.C10.facts) d = true := by
  cases hb : d.binding with
  | callee => simp [alive, useFrameId, hb, HSt.refresh, guardOk, newId, Expected.C10.facts, Expected.C09.facts]
  | root => simp [alive, useFrameId, hb, HSt.refresh, guardOk, newId, Expected.C10.facts, Expected.C09.facts]
  | fixed s c => rw [hb] at hl; cases hl

theorem dom_step (h : HSt) (ev : Ev) (hd : DomEv ev = true) (hl : AllLate h) :
    AllLate (stepH Expected.C10.facts h ev) ∧ erase (stepH Expected.C10.facts h ev) = stepSpec (erase h) ev := by
  cases ev with
  | define k a b =>
    have hk : bindingOf Expected.C10.facts (h.refresh Expected.C10.facts) k = .callee ∨
        bindingOf Expected.C10.facts (h.refresh Expected.C10.facts) k = .root := by
      cases k <;> simp [DomEv] at hd <;> simp [bindingOf]
    refine ⟨?_, ?_⟩
    · intro d hdm
      simp only [stepH, HSt.refresh, List.mem_append, List.mem_cons, List.not_mem_nil, or_false] at hdm
      rcases hdm with hdm | hdm
      · exact hl d hdm
      · subst hdm
        rcases hk with hk | hk <;> simp only [HSt.refresh] at hk <;> simp [hk, isLate]
    · simp [stepH, stepSpec, erase, HSt.refresh]
  | use i via x =>
    have hv : via = .eval := by cases via <;> simp [DomEv] at hd <;> rfl
    subst hv
    cases hg : h.defs[i]? with
    | none =>
      refine ⟨?_, ?_⟩
      · intro d hdm; simp [stepH, HSt.refresh, hg] at hdm; exact hl d hdm
      · simp [stepH, stepSpec, erase, HSt.refresh, hg]
    | some d0 =>
      have hm : d0 ∈ h.defs := List.mem_of_getElem? hg
      have ha := late_alive h d0 (hl d0 hm)
      have hg' : (h.refresh Expected.C10.facts).defs[i]? = some d0 := by simpa [HSt.refresh] using hg
      refine ⟨?_, ?_⟩
      · intro d hdm
        simp only [stepH, hg', ha, if_true] at hdm
        rcases List.mem_or_eq_of_mem_set hdm with hdm | hdm
        · exact hl d (by simpa [HSt.refresh] using hdm)
        · subst hdm; exact hl d0 hm
      · simp only [stepH, hg', ha, if_true]
        simp [stepSpec, erase, HSt.refresh, hg, List.map_set, value]
  | cancelled c =>
    refine ⟨?_, ?_⟩
    · intro d hdm
      cases c <;> simp only [stepH, HSt.refresh] at hdm <;> exact hl d hdm
    · cases c <;> simp [stepH, stepSpec, erase, HSt.refresh]

theorem dom_run (evs : List Ev) (h : HSt) (hd : Dom evs = true) (hl : AllLate h) :
    erase (runHist Expected.C10.facts h evs) = runSpec (erase h) evs := by
  induction evs generalizing h with
  | nil => rfl
  | cons e es ih =>
    simp only [Dom, List.all_cons, Bool.and_eq_true] at hd
    have hs := dom_step h e hd.1 hl
    simp only [runHist, runSpec, List.foldl_cons]
    rw [← hs.2]
    exact ih _ hd.2 hs.1

/-- a closure (or a method value made inside a function) whose captured id is behind the interpreter's id never
    runs again: the ids only grow -/
theorem id_monotone (F : RunIdFacts) (h : HSt) (ev : Ev) : h.id ≤ (stepH F h ev).id := by
  cases ev with
  | define k a b => simp [stepH, HSt.refresh]
  | use i via x =>
    have : (stepH F h (.use i via x)).id = h.id := by
      cases via <;> simp only [stepH, HSt.refresh] <;> (repeat' split) <;> rfl
    omega
  | cancelled c =>
    cases c <;> simp only [stepH, HSt.refresh] <;> split <;> simp


end YaegiVerif.Proofs.C10
