import YaegiVerif.Model.RunId
import YaegiVerif.Expected.C10
/-
  Helper lemmas for C10: invariants of histories on the run-id model.
-/
namespace YaegiVerif.Proofs.C10
open YaegiVerif YaegiVerif.RunId

/-- invariant: a named function or a method is bound late (`callee`), whatever happened before -/
def NamedLate (h : HSt) : Prop := ∀ d ∈ h.defs, (d.kind = .named ∨ d.kind = .method) → d.binding = .callee

theorem leave_defs (F : RunIdFacts) (h : HSt) : (h.leave F).defs = h.defs := rfl
theorem enter_defs (F : RunIdFacts) (h : HSt) (c : Bool) : (h.enter F c).defs = h.defs := rfl

/-- the definitions after `useBody`: the used one has one more call, nothing else changes -/
theorem useBody_defs (F : RunIdFacts) (h : HSt) (i x : Nat) :
    (useBody F h i x).defs = h.defs ∨
    ∃ d, h.defs[i]? = some d ∧ (useBody F h i x).defs = h.defs.set i { d with calls := d.calls + 1 } := by
  unfold useBody
  cases hg : h.defs[i]? with
  | none => left; rfl
  | some d =>
    simp only []
    split
    · split
      · right; exact ⟨d, rfl, rfl⟩
      · right; exact ⟨d, rfl, rfl⟩
    · left; rfl

/-- the definitions after a use: the used one has one more call, nothing else changes -/
theorem use_defs (F : RunIdFacts) (h : HSt) (i : Nat) (via : Via) (x : Nat) :
    (stepH F h (.use i via x)).defs = h.defs ∨
    ∃ d, h.defs[i]? = some d ∧ (stepH F h (.use i via x)).defs = h.defs.set i { d with calls := d.calls + 1 } := by
  cases via with
  | eval => simpa [stepH, leave_defs, enter_defs] using useBody_defs F (h.enter F false) i x
  | evalCtx => simpa [stepH, leave_defs, enter_defs] using useBody_defs F (h.enter F true) i x
  | host => simpa [stepH] using useBody_defs F h i x

theorem namedLate_step (F : RunIdFacts) (h : HSt) (ev : Ev) (hn : NamedLate h) : NamedLate (stepH F h ev) := by
  cases ev with
  | define k a b blk =>
    intro d hd hk
    simp only [stepH, HSt.enter, HSt.refresh, HSt.leave, List.mem_append, List.mem_cons, List.not_mem_nil, or_false] at hd
    rcases hd with hd | hd
    · exact hn d hd hk
    · subst hd
      rcases hk with hk | hk <;> simp only at hk <;> subst hk <;> rfl
  | use i via x =>
    intro d hd hk
    rcases use_defs F h i via x with he | ⟨d0, hg, he⟩
    · rw [he] at hd; exact hn d hd hk
    · rw [he] at hd
      rcases List.mem_or_eq_of_mem_set hd with hd | hd
      · exact hn d hd hk
      · subst hd
        exact hn d0 (List.mem_of_getElem? hg) hk
  | cancelled c =>
    intro d hd hk
    cases c <;> simp only [stepH, HSt.enter, HSt.stop, HSt.refresh, HSt.leave] at hd <;> exact hn d hd hk

theorem namedLate_run (F : RunIdFacts) (evs : List Ev) (h : HSt) (hn : NamedLate h) : NamedLate (runHist F h evs) := by
  induction evs generalizing h with
  | nil => exact hn
  | cons e es ih => exact ih _ (namedLate_step F h e hn)

/-- forget what the specification does not have: ids, done channels and bindings -/
def erase (h : HSt) : HSt :=
  { id := 0, rootId := 0, idone := false, rdone := false,
    defs := h.defs.map (fun d => { d with binding := .callee }), results := h.results }

/-! ### with the facts of the repaired interpreter: between two events the root frame carries the interpreter's id -/

/-- **The id invariant of histories**: whenever no evaluation is running, the root frame carries the interpreter's
    current id (`Execute` refreshes it when it starts and, deferred, when it returns — a cancelled `Execute`
    included), and `interp.done` is an open channel (`stop()` replaces the one it closes) -/
def Synced (h : HSt) : Prop := h.rootId = h.id ∧ h.idone = false

theorem useBody_ids (F : RunIdFacts) (h : HSt) (i x : Nat) :
    (useBody F h i x).id = h.id ∧ (useBody F h i x).rootId = h.rootId ∧ (useBody F h i x).idone = h.idone ∧
    (useBody F h i x).rdone = h.rdone := by
  unfold useBody
  cases h.defs[i]? with
  | none => exact ⟨rfl, rfl, rfl, rfl⟩
  | some d => simp only []; split <;> (try split) <;> exact ⟨rfl, rfl, rfl, rfl⟩

theorem fact_rar : Expected.C10.facts.execRefreshAtReturn = true := rfl
theorem fact_ref : Expected.C10.facts.execRefresh = true := rfl
theorem fact_fresh : Expected.C10.facts.ctxFreshDone = true := rfl

/-- the ids and done channels after an evaluation of a call that completes -/
theorem use_eval_fields (h : HSt) (c : Bool) (i x : Nat) :
    ((useBody Expected.C10.facts (h.enter Expected.C10.facts c) i x).leave Expected.C10.facts).id = h.id ∧
    ((useBody Expected.C10.facts (h.enter Expected.C10.facts c) i x).leave Expected.C10.facts).rootId = h.id ∧
    ((useBody Expected.C10.facts (h.enter Expected.C10.facts c) i x).leave Expected.C10.facts).idone = (if c then false else h.idone) ∧
    ((useBody Expected.C10.facts (h.enter Expected.C10.facts c) i x).leave Expected.C10.facts).rdone = (if c then false else h.idone) := by
  obtain ⟨e1, _, e3, e4⟩ := useBody_ids Expected.C10.facts (h.enter Expected.C10.facts c) i x
  refine ⟨?_, ?_, ?_, ?_⟩
  · show (useBody Expected.C10.facts (h.enter Expected.C10.facts c) i x).id = h.id
    rw [e1]; rfl
  · show (if Expected.C10.facts.execRefreshAtReturn = true then (useBody Expected.C10.facts (h.enter Expected.C10.facts c) i x).id
        else (useBody Expected.C10.facts (h.enter Expected.C10.facts c) i x).rootId) = h.id
    rw [fact_rar, if_pos rfl, e1]; rfl
  · show (useBody Expected.C10.facts (h.enter Expected.C10.facts c) i x).idone = _
    rw [e3]; cases c <;> simp [HSt.enter, fact_fresh]
  · show (useBody Expected.C10.facts (h.enter Expected.C10.facts c) i x).rdone = _
    rw [e4]; cases c <;> simp [HSt.enter, fact_fresh]

theorem synced_step (h : HSt) (ev : Ev) (hs : Synced h) : Synced (stepH Expected.C10.facts h ev) := by
  obtain ⟨hs1, hs2⟩ := hs
  cases ev with
  | define k a b blk => simp [Synced, stepH, HSt.enter, HSt.refresh, HSt.leave, Expected.C10.facts, Expected.C09.facts, hs2]
  | use i via x =>
    cases via with
    | eval =>
      obtain ⟨f1, f2, f3, _⟩ := use_eval_fields h false i x
      exact ⟨by simp only [stepH]; rw [f1, f2], by simp only [stepH]; rw [f3]; simpa using hs2⟩
    | evalCtx =>
      obtain ⟨f1, f2, f3, _⟩ := use_eval_fields h true i x
      exact ⟨by simp only [stepH]; rw [f1, f2], by simp only [stepH]; rw [f3]; rfl⟩
    | host =>
      have := useBody_ids Expected.C10.facts h i x
      simp only [Synced, stepH, this.1, this.2.1, this.2.2.1]
      exact ⟨hs1, hs2⟩
  | cancelled c =>
    cases c <;> simp [Synced, stepH, HSt.enter, HSt.stop, HSt.refresh, HSt.leave, Expected.C10.facts, Expected.C09.facts]

/-- which done channel the root frame holds after an event (while `interp.done` is open): an evaluation that
    completes leaves an open one, a host call leaves it alone, a cancelled evaluation leaves the channel `stop()`
    closed — unless `stop()` ran before its `Execute` started -/
theorem rdone_after (h : HSt) (ev : Ev) (hs : Synced h) :
    (stepH Expected.C10.facts h ev).rdone =
      match ev with
      | .define _ _ _ _ => false
      | .use _ .host _ => h.rdone
      | .use _ _ _ => false
      | .cancelled .expiredBefore => false
      | .cancelled _ => true := by
  obtain ⟨_, hs2⟩ := hs
  cases ev with
  | define k a b blk => simp [stepH, HSt.enter, HSt.refresh, HSt.leave, hs2]
  | use i via x =>
    cases via with
    | eval => simp only [stepH]; rw [(use_eval_fields h false i x).2.2.2]; simpa using hs2
    | evalCtx => simp only [stepH]; rw [(use_eval_fields h true i x).2.2.2]; rfl
    | host =>
      have := useBody_ids Expected.C10.facts h i x
      simp [stepH, this.2.2.2]
  | cancelled c =>
    cases c <;> simp [stepH, HSt.enter, HSt.stop, HSt.refresh, HSt.leave, Expected.C10.facts, Expected.C09.facts]

/-- the site of a binding made by `bindingOf` is never the site of declared functions -/
def FvBound (h : HSt) : Prop := ∀ d ∈ h.defs, ∀ c, d.binding ≠ .fixed .call c

theorem fvBound_step (F : RunIdFacts) (h : HSt) (ev : Ev) (hn : FvBound h) : FvBound (stepH F h ev) := by
  cases ev with
  | define k a b blk =>
    intro d hd c
    simp only [stepH, HSt.enter, HSt.refresh, HSt.leave, List.mem_append, List.mem_cons, List.not_mem_nil, or_false] at hd
    rcases hd with hd | hd
    · exact hn d hd c
    · subst hd
      cases k <;> simp only [bindingOf] <;> (try split) <;> simp
  | use i via x =>
    intro d hd c
    rcases use_defs F h i via x with he | ⟨d0, hg, he⟩
    · rw [he] at hd; exact hn d hd c
    · rw [he] at hd
      rcases List.mem_or_eq_of_mem_set hd with hd | hd
      · exact hn d hd c
      · subst hd
        exact hn d0 (List.mem_of_getElem? hg) c
  | cancelled c =>
    intro d hd c'
    cases c <;> simp only [stepH, HSt.enter, HSt.stop, HSt.refresh, HSt.leave] at hd <;> exact hn d hd c'

/-- when the root frame is in step with the interpreter EVERY definition gets a live frame, however it is bound: the
    frame of a named function takes the id of the (root) frame that calls it, the frame of a closure, of a method
    value and of a function handed to the host takes the root frame's id (`newCallFrame`) -/
theorem synced_alive (h : HSt) (d : Def) (hs : h.rootId = h.id) (hb' : ∀ c, d.binding ≠ .fixed .call c) :
    alive Expected.C10.facts h d = true := by
  cases hb : d.binding with
  | callee => simp [alive, useFrameId, hb, guardOk, newId, Expected.C10.facts, Expected.C09.facts, hs]
  | root => simp [alive, useFrameId, hb, guardOk, newId, Expected.C10.facts, Expected.C09.facts, hs]
  | fixed s c =>
    cases s with
    | call => exact absurd hb (hb' c)
    | _ => simp [alive, useFrameId, hb, guardOk, newId, RunIdFacts.site, Expected.C10.facts, Expected.C09.facts, hs]

/-- a package imported between two events is initialised (and would be even without the deferred refresh: `importSrc`
    refreshes the root id itself, 2667a11) -/
theorem import_runs (h : HSt) : importRuns Expected.C10.facts h = true := by
  simp [importRuns, guardOk, Expected.C10.facts, Expected.C09.facts]

theorem erase_leave (F : RunIdFacts) (h : HSt) : erase (h.leave F) = erase h := rfl
theorem erase_enter (F : RunIdFacts) (h : HSt) (c : Bool) : erase (h.enter F c) = erase h := rfl

/-- the domain, one event at a time (a decidable predicate of the state the event meets): the host does not call a
    function value whose body blocks on a channel while the root frame holds a closed done channel (F10-3) -/
def okEv (h : HSt) : Ev → Bool
  | .use i .host _ => !(h.rdone && (match h.defs[i]? with | some d => d.blk | none => false))
  | _ => true

/-- a use whose frame is live and whose blocking operations are not cancelled is the use of the specification -/
theorem useBody_spec (h : HSt) (i x : Nat) (via : Via) (hs : h.rootId = h.id) (hf : FvBound h)
    (hok : h.rdone = false ∨ ∀ d, h.defs[i]? = some d → d.blk = false) :
    erase (useBody Expected.C10.facts h i x) = stepSpec (erase h) (.use i via x) := by
  unfold useBody
  cases hg : h.defs[i]? with
  | none => simp [stepSpec, erase, hg]
  | some d0 =>
    have hb : (d0.blk && h.rdone) = false := by
      rcases hok with h1 | h1
      · simp [h1]
      · simp [h1 d0 hg]
    simp only [synced_alive h d0 hs (hf d0 (List.mem_of_getElem? hg)), if_true, hb]
    simp [stepSpec, erase, hg, List.map_set, value]

/-- one event of the real history is one event of the specification, for every event inside the domain -/
theorem full_step (h : HSt) (ev : Ev) (hs : Synced h) (hf : FvBound h) (hok : okEv h ev = true) :
    erase (stepH Expected.C10.facts h ev) = stepSpec (erase h) ev := by
  obtain ⟨hs1, hs2⟩ := hs
  cases ev with
  | define k a b blk =>
    cases k <;> simp [stepH, stepSpec, erase, HSt.enter, HSt.refresh, HSt.leave, import_runs]
  | use i via x =>
    cases via with
    | eval =>
      simp only [stepH]
      rw [erase_leave, ← erase_enter Expected.C10.facts h false]
      exact useBody_spec _ i x .eval (by simp [HSt.enter, HSt.refresh, Expected.C10.facts, Expected.C09.facts]) hf
        (Or.inl (by simp [HSt.enter, hs2]))
    | evalCtx =>
      simp only [stepH]
      rw [erase_leave, ← erase_enter Expected.C10.facts h true]
      exact useBody_spec _ i x .evalCtx (by simp [HSt.enter, HSt.refresh, Expected.C10.facts, Expected.C09.facts]) hf
        (Or.inl (by simp [HSt.enter, Expected.C10.facts, Expected.C09.facts]))
    | host =>
      simp only [stepH]
      refine useBody_spec h i x .host hs1 hf ?_
      simp only [okEv, Bool.not_eq_true', Bool.and_eq_false_iff] at hok
      rcases hok with h1 | h1
      · exact Or.inl h1
      · refine Or.inr (fun d hd => ?_)
        simpa [hd] using h1
  | cancelled c =>
    cases c <;> simp [stepH, stepSpec, erase, HSt.enter, HSt.stop, HSt.refresh, HSt.leave]

/-- the domain of a whole history, from a state -/
def DomFrom (F : RunIdFacts) (h : HSt) : List Ev → Bool
  | [] => true
  | e :: es => okEv h e && DomFrom F (stepH F h e) es

theorem full_run (evs : List Ev) (h : HSt) (hs : Synced h) (hf : FvBound h) (hd : DomFrom Expected.C10.facts h evs = true) :
    erase (runHist Expected.C10.facts h evs) = runSpec (erase h) evs := by
  induction evs generalizing h with
  | nil => rfl
  | cons e es ih =>
    simp only [DomFrom, Bool.and_eq_true] at hd
    simp only [runHist, runSpec, List.foldl_cons]
    rw [← full_step h e hs hf hd.1]
    exact ih _ (synced_step h e hs) (fvBound_step _ h e hf) hd.2

theorem synced_run (evs : List Ev) (h : HSt) (hs : Synced h) : Synced (runHist Expected.C10.facts h evs) := by
  induction evs generalizing h with
  | nil => exact hs
  | cons e es ih => exact ih _ (synced_step h e hs)

theorem fvBound_run (F : RunIdFacts) (evs : List Ev) (h : HSt) (hs : FvBound h) : FvBound (runHist F h evs) := by
  induction evs generalizing h with
  | nil => exact hs
  | cons e es ih => exact ih _ (fvBound_step F h e hs)

/-- histories in which no body blocks on a channel are inside the domain -/
def noBlk : List Ev → Bool
  | [] => true
  | .define _ _ _ blk :: es => !blk && noBlk es
  | _ :: es => noBlk es

theorem noBlk_dom (F : RunIdFacts) (evs : List Ev) (h : HSt) (hn : noBlk evs = true) (hb : ∀ d ∈ h.defs, d.blk = false) :
    DomFrom F h evs = true := by
  induction evs generalizing h with
  | nil => rfl
  | cons e es ih =>
    have hb' : ∀ d ∈ (stepH F h e).defs, d.blk = false := by
      cases e with
      | define k a b blk =>
        simp only [noBlk, Bool.and_eq_true, Bool.not_eq_true'] at hn
        intro d hd
        simp only [stepH, HSt.enter, HSt.refresh, HSt.leave, List.mem_append, List.mem_cons, List.not_mem_nil, or_false] at hd
        rcases hd with hd | hd
        · exact hb d hd
        · subst hd; exact hn.1
      | use i via x =>
        intro d hd
        rcases use_defs F h i via x with he | ⟨d0, hg, he⟩
        · rw [he] at hd; exact hb d hd
        · rw [he] at hd
          rcases List.mem_or_eq_of_mem_set hd with hd | hd
          · exact hb d hd
          · subst hd; exact hb d0 (List.mem_of_getElem? hg)
      | cancelled c =>
        intro d hd
        cases c <;> simp only [stepH, HSt.enter, HSt.stop, HSt.refresh, HSt.leave] at hd <;> exact hb d hd
    have hn' : noBlk es = true := by
      cases e with
      | define k a b blk => simp only [noBlk, Bool.and_eq_true] at hn; exact hn.2
      | use i via x => simpa [noBlk] using hn
      | cancelled c => simpa [noBlk] using hn
    have hok : okEv h e = true := by
      cases e with
      | use i via x =>
        cases via <;> simp only [okEv]
        cases hg : h.defs[i]? with
        | none => simp
        | some d => simp [hb d (List.mem_of_getElem? hg)]
      | _ => rfl
    simp only [DomFrom, hok, Bool.true_and]
    exact ih _ hn' hb'

/-- the ids only grow -/
theorem id_monotone (F : RunIdFacts) (h : HSt) (ev : Ev) : h.id ≤ (stepH F h ev).id := by
  cases ev with
  | define k a b blk => simp [stepH, HSt.enter, HSt.refresh, HSt.leave]
  | use i via x =>
    have : (stepH F h (.use i via x)).id = h.id := by
      cases via <;> simp [stepH, HSt.leave, (useBody_ids F _ i x).1, HSt.enter, HSt.refresh]
    omega
  | cancelled c =>
    cases c <;> simp only [stepH, HSt.enter, HSt.stop, HSt.refresh, HSt.leave] <;> split <;> simp

end YaegiVerif.Proofs.C10
