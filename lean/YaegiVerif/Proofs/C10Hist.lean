import YaegiVerif.Model.RunId
import YaegiVerif.Expected.C10
/-
  Helper lemmas for C10: invariants of histories on the run-id model.
-/
namespace YaegiVerif.Proofs.C10
open YaegiVerif YaegiVerif.RunId

/-- invariant: a named function or a method is bound late (`callee`), whatever happened before -/
def NamedLate (h : HSt) : Prop := ∀ d ∈ h.defs, (d.kind = .named ∨ d.kind = .method) → d.binding = .callee

theorem leave_defs (F : RunIdFacts) (h : HSt) : (h.leave F).defs = h.defs := rfl
theorem refresh_defs (F : RunIdFacts) (h : HSt) : (h.refresh F).defs = h.defs := rfl

/-- the definitions after a use: the used one has one more call, nothing else changes -/
theorem use_defs (F : RunIdFacts) (h : HSt) (i : Nat) (via : Via) (x : Nat) :
    (stepH F h (.use i via x)).defs = h.defs ∨
    ∃ d, h.defs[i]? = some d ∧ (stepH F h (.use i via x)).defs = h.defs.set i { d with calls := d.calls + 1 } := by
  cases via with
  | eval =>
    simp only [stepH]
    cases hg : (h.refresh F).defs[i]? with
    | none => left; simp [leave_defs, refresh_defs]
    | some d =>
      simp only []
      split
      · right; exact ⟨d, by simpa [refresh_defs] using hg, by simp [leave_defs, refresh_defs]⟩
      · left; simp [leave_defs, refresh_defs]
  | host =>
    simp only [stepH]
    cases hg : h.defs[i]? with
    | none => left; rfl
    | some d =>
      simp only []
      split
      · right; exact ⟨d, rfl, rfl⟩
      · left; rfl

theorem namedLate_step (F : RunIdFacts) (h : HSt) (ev : Ev) (hn : NamedLate h) : NamedLate (stepH F h ev) := by
  cases ev with
  | define k a b =>
    intro d hd hk
    simp only [stepH, HSt.refresh, HSt.leave, List.mem_append, List.mem_cons, List.not_mem_nil, or_false] at hd
    rcases hd with hd | hd
    · exact hn d hd hk
    · subst hd
      rcases hk with hk | hk <;> simp only at hk <;> subst hk <;> rfl
  | use i via x =>
    intro d hd hk
    rcases use_defs F h i via x with he | ⟨d0, hg, he⟩
    · rw [he] at hd; exact hn d hd hk
    · rw [he] at hd
      rcases List.mem_or_eq_of_mem_set hd with hd | hd
      · exact hn d hd hk
      · subst hd
        exact hn d0 (List.mem_of_getElem? hg) hk
  | cancelled c =>
    intro d hd hk
    cases c <;> simp only [stepH, HSt.refresh, HSt.leave] at hd <;> exact hn d hd hk

theorem namedLate_run (F : RunIdFacts) (evs : List Ev) (h : HSt) (hn : NamedLate h) : NamedLate (runHist F h evs) := by
  induction evs generalizing h with
  | nil => exact hn
  | cons e es ih => exact ih _ (namedLate_step F h e hn)

/-- forget what the specification does not have: ids and bindings -/
def erase (h : HSt) : HSt :=
  { id := 0, rootId := 0, defs := h.defs.map (fun d => { d with binding := .callee }), results := h.results }

/-! ### with the facts of the repaired interpreter: between two events the root frame carries the interpreter's id -/

/-- **The id invariant of histories**: whenever no evaluation is running, the root frame carries the interpreter's
    current id (`Execute` refreshes it when it starts and, deferred, when it returns — a cancelled `Execute` included) -/
def Synced (h : HSt) : Prop := h.rootId = h.id

theorem synced_step (h : HSt) (ev : Ev) (hs : Synced h) : Synced (stepH Expected.C10.facts h ev) := by
  cases ev with
  | define k a b => simp [Synced, stepH, HSt.refresh, HSt.leave, Expected.C10.facts, Expected.C09.facts]
  | use i via x =>
    cases via with
    | eval => simp [Synced, stepH, HSt.leave, Expected.C10.facts, Expected.C09.facts]
    | host =>
      simp only [Synced, stepH]
      cases h.defs[i]? with
      | none => exact hs
      | some d => simp only []; split <;> exact hs
  | cancelled c =>
    cases c <;> simp [Synced, stepH, HSt.refresh, HSt.leave, Expected.C10.facts, Expected.C09.facts]

/-- the site of a binding made by `bindingOf` is never the site of declared functions -/
def FvBound (h : HSt) : Prop := ∀ d ∈ h.defs, ∀ c, d.binding ≠ .fixed .call c

theorem fvBound_step (F : RunIdFacts) (h : HSt) (ev : Ev) (hn : FvBound h) : FvBound (stepH F h ev) := by
  cases ev with
  | define k a b =>
    intro d hd c
    simp only [stepH, HSt.refresh, HSt.leave, List.mem_append, List.mem_cons, List.not_mem_nil, or_false] at hd
    rcases hd with hd | hd
    · exact hn d hd c
    · subst hd
      cases k <;> simp only [bindingOf] <;> (try split) <;> simp
  | use i via x =>
    intro d hd c
    rcases use_defs F h i via x with he | ⟨d0, hg, he⟩
    · rw [he] at hd; exact hn d hd c
    · rw [he] at hd
      rcases List.mem_or_eq_of_mem_set hd with hd | hd
      · exact hn d hd c
      · subst hd
        exact hn d0 (List.mem_of_getElem? hg) c
  | cancelled c =>
    intro d hd c'
    cases c <;> simp only [stepH, HSt.refresh, HSt.leave] at hd <;> exact hn d hd c'

/-- when the root frame is in step with the interpreter EVERY definition runs, however it is bound: the frame of a
    named function takes the id of the (root) frame that calls it, the frame of a closure, of a method value and of
    a function handed to the host takes the root frame's id (`newCallFrame`) -/
theorem synced_alive (h : HSt) (d : Def) (hs : Synced h) (hb' : ∀ c, d.binding ≠ .fixed .call c) :
    alive Expected.C10.facts h d = true := by
  unfold Synced at hs
  cases hb : d.binding with
  | callee => simp [alive, useFrameId, hb, guardOk, newId, Expected.C10.facts, Expected.C09.facts, hs]
  | root => simp [alive, useFrameId, hb, guardOk, newId, Expected.C10.facts, Expected.C09.facts, hs]
  | fixed s c =>
    cases s with
    | call => exact absurd hb (hb' c)
    | _ => simp [alive, useFrameId, hb, guardOk, newId, RunIdFacts.site, Expected.C10.facts, Expected.C09.facts, hs]

/-- a package imported between two events is initialised (and would be even without the deferred refresh: `importSrc`
    refreshes the root id itself, 2667a11) -/
theorem import_runs (h : HSt) : importRuns Expected.C10.facts h = true := by
  simp [importRuns, guardOk, Expected.C10.facts, Expected.C09.facts]

theorem refresh_synced (h : HSt) (hs : Synced h) : h.refresh Expected.C10.facts = h := by
  obtain ⟨id, rootId, defs, results⟩ := h
  unfold Synced at hs
  simp only at hs
  simp [HSt.refresh, Expected.C10.facts, Expected.C09.facts, hs]

theorem erase_leave (F : RunIdFacts) (h : HSt) : erase (h.leave F) = erase h := rfl

/-- what a use does once the root id is settled -/
def useBody (F : RunIdFacts) (h1 : HSt) (i x : Nat) : HSt :=
  match h1.defs[i]? with
  | none => h1
  | some d =>
    if alive F h1 d then
      { h1 with defs := h1.defs.set i { d with calls := d.calls + 1 }, results := value d x :: h1.results }
    else
      { h1 with results := 0 :: h1.results }

theorem stepH_use_eval (F : RunIdFacts) (h : HSt) (i x : Nat) :
    stepH F h (.use i .eval x) = (useBody F (h.refresh F) i x).leave F := rfl
theorem stepH_use_host (F : RunIdFacts) (h : HSt) (i x : Nat) :
    stepH F h (.use i .host x) = useBody F h i x := rfl

theorem useBody_spec (h : HSt) (i x : Nat) (via : Via) (hs : Synced h) (hf : FvBound h) :
    erase (useBody Expected.C10.facts h i x) = stepSpec (erase h) (.use i via x) := by
  unfold useBody
  cases hg : h.defs[i]? with
  | none => simp [stepSpec, erase, hg]
  | some d0 =>
    simp only [synced_alive h d0 hs (hf d0 (List.mem_of_getElem? hg)), if_true]
    simp [stepSpec, erase, hg, List.map_set, value]

/-- one event of the real history is one event of the specification, for EVERY event -/
theorem full_step (h : HSt) (ev : Ev) (hs : Synced h) (hf : FvBound h) :
    erase (stepH Expected.C10.facts h ev) = stepSpec (erase h) ev := by
  cases ev with
  | define k a b =>
    cases k <;> simp [stepH, stepSpec, erase, HSt.refresh, HSt.leave, import_runs]
  | use i via x =>
    cases via with
    | eval => rw [stepH_use_eval, erase_leave, refresh_synced h hs]; exact useBody_spec h i x .eval hs hf
    | host => rw [stepH_use_host]; exact useBody_spec h i x .host hs hf
  | cancelled c =>
    cases c <;> simp [stepH, stepSpec, erase, HSt.refresh, HSt.leave]

theorem full_run (evs : List Ev) (h : HSt) (hs : Synced h) (hf : FvBound h) :
    erase (runHist Expected.C10.facts h evs) = runSpec (erase h) evs := by
  induction evs generalizing h with
  | nil => rfl
  | cons e es ih =>
    simp only [runHist, runSpec, List.foldl_cons]
    rw [← full_step h e hs hf]
    exact ih _ (synced_step h e hs) (fvBound_step _ h e hf)

theorem synced_run (evs : List Ev) (h : HSt) (hs : Synced h) : Synced (runHist Expected.C10.facts h evs) := by
  induction evs generalizing h with
  | nil => exact hs
  | cons e es ih => exact ih _ (synced_step h e hs)

theorem fvBound_run (F : RunIdFacts) (evs : List Ev) (h : HSt) (hs : FvBound h) : FvBound (runHist F h evs) := by
  induction evs generalizing h with
  | nil => exact hs
  | cons e es ih => exact ih _ (fvBound_step F h e hs)

/-- the ids only grow -/
theorem id_monotone (F : RunIdFacts) (h : HSt) (ev : Ev) : h.id ≤ (stepH F h ev).id := by
  cases ev with
  | define k a b => simp [stepH, HSt.refresh, HSt.leave]
  | use i via x =>
    have : (stepH F h (.use i via x)).id = h.id := by
      cases via <;> simp only [stepH, HSt.refresh, HSt.leave] <;> (repeat' split) <;> rfl
    omega
  | cancelled c =>
    cases c <;> simp only [stepH, HSt.refresh, HSt.leave] <;> split <;> simp

end YaegiVerif.Proofs.C10
