import YaegiVerif.Model.RunId
import YaegiVerif.Expected.C10
/-
  Helper lemmas for C10: invariants of histories on the run-id model.
-/
namespace YaegiVerif.Proofs.C10
open YaegiVerif YaegiVerif.RunId

/-- invariant: a named function or a method is bound late (`callee`), whatever happened before -/
def NamedLate (h : HSt) : Prop := ∀ d ∈ h.defs, (d.kind = .named ∨ d.kind = .method) → d.binding = .callee

theorem leave_defs (F : RunIdFacts) (h : HSt) : (h.leave F).defs = h.defs := rfl
theorem enter_defs (F : RunIdFacts) (h : HSt) (c : Bool) : (h.enter F c).defs = h.defs := rfl

/-- the definitions after `useBody`: the used one has one more call, nothing else changes -/
theorem useBody_defs (F : RunIdFacts) (h : HSt) (i x : Nat) (host : Bool) :
    (useBody F h i x host).defs = h.defs ∨
    ∃ d, h.defs[i]? = some d ∧ (useBody F h i x host).defs = h.defs.set i { d with calls := d.calls + 1 } := by
  unfold useBody
  cases hg : h.defs[i]? with
  | none => left; rfl
  | some d =>
    simp only []
    split
    · split
      · right; exact ⟨d, rfl, rfl⟩
      · right; exact ⟨d, rfl, rfl⟩
    · left; rfl

/-- the definitions after a use: the used one has one more call, nothing else changes -/
theorem use_defs (F : RunIdFacts) (h : HSt) (i : Nat) (via : Via) (x : Nat) :
    (stepH F h (.use i via x)).defs = h.defs ∨
    ∃ d, h.defs[i]? = some d ∧ (stepH F h (.use i via x)).defs = h.defs.set i { d with calls := d.calls + 1 } := by
  cases via with
  | eval => simpa [stepH, leave_defs, enter_defs] using useBody_defs F (h.enter F false) i x false
  | evalCtx => simpa [stepH, leave_defs, enter_defs] using useBody_defs F (h.enter F true) i x false
  | host => simpa [stepH] using useBody_defs F h i x true

theorem namedLate_step (F : RunIdFacts) (h : HSt) (ev : Ev) (hn : NamedLate h) : NamedLate (stepH F h ev) := by
  cases ev with
  | define k a b blk =>
    intro d hd hk
    simp only [stepH, HSt.enter, HSt.refresh, HSt.leave, List.mem_append, List.mem_cons, List.not_mem_nil, or_false] at hd
    rcases hd with hd | hd
    · exact hn d hd hk
    · subst hd
      rcases hk with hk | hk <;> simp only at hk <;> subst hk <;> rfl
  | use i via x =>
    intro d hd hk
    rcases use_defs F h i via x with he | ⟨d0, hg, he⟩
    · rw [he] at hd; exact hn d hd hk
    · rw [he] at hd
      rcases List.mem_or_eq_of_mem_set hd with hd | hd
      · exact hn d hd hk
      · subst hd
        exact hn d0 (List.mem_of_getElem? hg) hk
  | cancelled c =>
    intro d hd hk
    cases c <;> simp only [stepH, HSt.enter, HSt.stop, HSt.refresh, HSt.leave] at hd <;> exact hn d hd hk

theorem namedLate_run (F : RunIdFacts) (evs : List Ev) (h : HSt) (hn : NamedLate h) : NamedLate (runHist F h evs) := by
  induction evs generalizing h with
  | nil => exact hn
  | cons e es ih => exact ih _ (namedLate_step F h e hn)

/-- forget what the specification does not have: ids, done channels and bindings -/
def erase (h : HSt) : HSt :=
  { id := 0, rootId := 0, idone := false, rdone := false,
    defs := h.defs.map (fun d => { d with binding := .callee }), results := h.results }

/-! ### with the facts of the repaired interpreter -/

/-- **The invariant of histories**: `interp.done` is an open channel whenever no `stop()` is running (`stop()` replaces
    the one it closes; nothing else touches it) -/
def Open (h : HSt) : Prop := h.idone = false

theorem useBody_ids (F : RunIdFacts) (h : HSt) (i x : Nat) (host : Bool) :
    (useBody F h i x host).id = h.id ∧ (useBody F h i x host).rootId = h.rootId ∧ (useBody F h i x host).idone = h.idone ∧
    (useBody F h i x host).rdone = h.rdone := by
  unfold useBody
  cases h.defs[i]? with
  | none => exact ⟨rfl, rfl, rfl, rfl⟩
  | some d => simp only []; split <;> (try split) <;> exact ⟨rfl, rfl, rfl, rfl⟩

theorem fact_fresh : Expected.C10.facts.ctxFreshDone = false := rfl
theorem fact_ref : Expected.C10.facts.execRefresh = true := rfl

theorem open_step (h : HSt) (ev : Ev) (hs : Open h) : Open (stepH Expected.C10.facts h ev) := by
  unfold Open at hs ⊢
  cases ev with
  | define k a b blk => simp [stepH, HSt.enter, HSt.refresh, HSt.leave, fact_fresh, hs]
  | use i via x =>
    cases via with
    | eval =>
      have := useBody_ids Expected.C10.facts (h.enter Expected.C10.facts false) i x false
      simp only [stepH]
      show (useBody Expected.C10.facts (h.enter Expected.C10.facts false) i x).idone = false
      rw [this.2.2.1]; simp [HSt.enter, hs]
    | evalCtx =>
      have := useBody_ids Expected.C10.facts (h.enter Expected.C10.facts true) i x false
      simp only [stepH]
      show (useBody Expected.C10.facts (h.enter Expected.C10.facts true) i x).idone = false
      rw [this.2.2.1]; simp [HSt.enter, fact_fresh, hs]
    | host =>
      have := useBody_ids Expected.C10.facts h i x true
      simp only [stepH, this.2.2.1]; exact hs
  | cancelled c =>
    cases c <;> simp [stepH, HSt.enter, HSt.stop, HSt.refresh, HSt.leave, Expected.C10.facts, Expected.C09.facts]

/-- the site of a binding made by `bindingOf` is never the site of declared functions -/
def FvBound (h : HSt) : Prop := ∀ d ∈ h.defs, ∀ s c, d.binding = .fixed s c → s.kind ≠ .call

theorem fvBound_step (F : RunIdFacts) (h : HSt) (ev : Ev) (hn : FvBound h) : FvBound (stepH F h ev) := by
  cases ev with
  | define k a b blk =>
    intro d hd s c
    simp only [stepH, HSt.enter, HSt.refresh, HSt.leave, List.mem_append, List.mem_cons, List.not_mem_nil, or_false] at hd
    rcases hd with hd | hd
    · exact hn d hd s c
    · subst hd
      cases k <;> simp only [bindingOf] <;> (try split) <;> intro hb <;> first | (cases hb; decide) | cases hb
  | use i via x =>
    intro d hd s c
    rcases use_defs F h i via x with he | ⟨d0, hg, he⟩
    · rw [he] at hd; exact hn d hd s c
    · rw [he] at hd
      rcases List.mem_or_eq_of_mem_set hd with hd | hd
      · exact hn d hd s c
      · subst hd
        exact hn d0 (List.mem_of_getElem? hg) s c
  | cancelled c =>
    intro d hd s c'
    cases c <;> simp only [stepH, HSt.enter, HSt.stop, HSt.refresh, HSt.leave] at hd <;> exact hn d hd s c'

/-- a direct call by the host gets a live frame for EVERY definition, whatever the id of the root frame: the frame
    takes the interpreter's current id (`newCallFrame`; the epoch of a definition of a history is never cancelled) -/
theorem host_alive (h : HSt) (d : Def) (hb' : ∀ s c, d.binding = .fixed s c → s.kind ≠ .call) :
    alive Expected.C10.facts h d true = true := by
  cases hb : d.binding with
  | callee => simp [alive, useFrameId, hb, guardOk, newId, Expected.C10.facts, Expected.C09.facts]
  | root => simp [alive, useFrameId, hb, guardOk, newId, Expected.C10.facts, Expected.C09.facts]
  | fixed s c =>
    obtain ⟨k, e, l⟩ := s
    cases k with
    | call => exact absurd rfl (hb' _ c hb)
    | _ => simp [alive, useFrameId, hb, guardOk, newId, RunIdFacts.site, Expected.C10.facts, Expected.C09.facts]

/-- a call made by an evaluation gets a live frame for every definition once `Execute` has refreshed the root id -/
theorem eval_alive (h : HSt) (d : Def) (hs : h.rootId = h.id) (hb' : ∀ s c, d.binding = .fixed s c → s.kind ≠ .call) :
    alive Expected.C10.facts h d false = true := by
  cases hb : d.binding with
  | callee => simp [alive, useFrameId, hb, guardOk, newId, Expected.C10.facts, Expected.C09.facts, hs]
  | root => simp [alive, useFrameId, hb, guardOk, newId, Expected.C10.facts, Expected.C09.facts]
  | fixed s c =>
    obtain ⟨k, e, l⟩ := s
    cases k with
    | call => exact absurd rfl (hb' _ c hb)
    | _ => simp [alive, useFrameId, hb, guardOk, newId, RunIdFacts.site, Expected.C10.facts, Expected.C09.facts]

/-- a package imported at any point is initialised: `importSrc` refreshes the root id itself (begin) -/
theorem import_runs (h : HSt) : importRuns Expected.C10.facts h = true := by
  simp [importRuns, guardOk, Expected.C10.facts, Expected.C09.facts]

theorem erase_leave (F : RunIdFacts) (h : HSt) : erase (h.leave F) = erase h := rfl
theorem erase_enter (F : RunIdFacts) (h : HSt) (c : Bool) : erase (h.enter F c) = erase h := rfl
theorem erase_stop (F : RunIdFacts) (h : HSt) (c : Bool) : erase (h.stop F c) = erase h := rfl

/-- a use whose frame is live and whose done channel is open is the use of the specification -/
theorem useBody_spec (h : HSt) (i x : Nat) (via : Via) (host : Bool)
    (ha : ∀ d, h.defs[i]? = some d → alive Expected.C10.facts h d host = true)
    (hc : bodyDoneClosed Expected.C10.facts h host = false) :
    erase (useBody Expected.C10.facts h i x host) = stepSpec (erase h) (.use i via x) := by
  unfold useBody
  cases hg : h.defs[i]? with
  | none => simp [stepSpec, erase, hg]
  | some d0 =>
    simp only [ha d0 hg, if_true, hc, Bool.and_false]
    simp [stepSpec, erase, hg, List.map_set, value]

/-- one event of the real history is one event of the specification, for EVERY event -/
theorem full_step (h : HSt) (ev : Ev) (hs : Open h) (hf : FvBound h) :
    erase (stepH Expected.C10.facts h ev) = stepSpec (erase h) ev := by
  unfold Open at hs
  cases ev with
  | define k a b blk =>
    cases k <;> simp [stepH, stepSpec, erase, HSt.enter, HSt.refresh, HSt.leave, import_runs]
  | use i via x =>
    cases via with
    | eval =>
      simp only [stepH]
      rw [erase_leave, ← erase_enter Expected.C10.facts h false]
      refine useBody_spec _ i x .eval false (fun d hd => eval_alive _ d (by simp [HSt.enter, HSt.refresh, fact_ref]) ?_) ?_
      · exact hf d (List.mem_of_getElem? (by simpa [enter_defs] using hd))
      · simp [bodyDoneClosed, HSt.enter, hs]
    | evalCtx =>
      simp only [stepH]
      rw [erase_leave, ← erase_enter Expected.C10.facts h true]
      refine useBody_spec _ i x .evalCtx false (fun d hd => eval_alive _ d (by simp [HSt.enter, HSt.refresh, fact_ref]) ?_) ?_
      · exact hf d (List.mem_of_getElem? (by simpa [enter_defs] using hd))
      · simp [bodyDoneClosed, HSt.enter, fact_fresh, hs]
    | host =>
      simp only [stepH]
      refine useBody_spec h i x .host true (fun d hd => host_alive h d (hf d (List.mem_of_getElem? hd))) ?_
      simp [bodyDoneClosed, Expected.C10.facts, Expected.C09.facts, hs]
  | cancelled c =>
    cases c <;> simp [stepH, stepSpec, erase, HSt.enter, HSt.stop, HSt.refresh, HSt.leave]

theorem full_run (evs : List Ev) (h : HSt) (hs : Open h) (hf : FvBound h) :
    erase (runHist Expected.C10.facts h evs) = runSpec (erase h) evs := by
  induction evs generalizing h with
  | nil => rfl
  | cons e es ih =>
    simp only [runHist, runSpec, List.foldl_cons]
    rw [← full_step h e hs hf]
    exact ih _ (open_step h e hs) (fvBound_step _ h e hf)

theorem open_run (evs : List Ev) (h : HSt) (hs : Open h) : Open (runHist Expected.C10.facts h evs) := by
  induction evs generalizing h with
  | nil => exact hs
  | cons e es ih => exact ih _ (open_step h e hs)

theorem fvBound_run (F : RunIdFacts) (evs : List Ev) (h : HSt) (hs : FvBound h) : FvBound (runHist F h evs) := by
  induction evs generalizing h with
  | nil => exact hs
  | cons e es ih => exact ih _ (fvBound_step F h e hs)

/-! ### histories with the windows made visible (`XEv`) -/

theorem settle_props (h : HSt) (held : Bool) (hs : Open h) (hf : FvBound h) :
    Open (settle Expected.C10.facts h held) ∧ FvBound (settle Expected.C10.facts h held) ∧
    erase (settle Expected.C10.facts h held) = erase h := by
  unfold settle; split
  · exact ⟨hs, hf, rfl⟩
  · exact ⟨hs, hf, rfl⟩

/-- one event of an extended history is one event of the specification (a held evaluation, a late `stop()`, a `stop()`
    without `Execute` change nothing the specification sees, and leave `interp.done` open) -/
theorem full_stepX (s : HSt × Bool) (e : XEv) (hs : Open s.1) (hf : FvBound s.1) :
    Open (stepX Expected.C10.facts s e).1 ∧ FvBound (stepX Expected.C10.facts s e).1 ∧
    erase (stepX Expected.C10.facts s e).1 = (match e with | .ev ev => stepSpec (erase s.1) ev | _ => erase s.1) := by
  cases e with
  | ev ev =>
    have h1 := open_step s.1 ev hs
    have h2 := fvBound_step Expected.C10.facts s.1 ev hf
    have h3 := settle_props _ s.2 h1 h2
    exact ⟨h3.1, h3.2.1, by simp only [stepX]; rw [h3.2.2]; exact full_step s.1 ev hs hf⟩
  | hold =>
    have h3 := settle_props s.1 s.2 hs hf
    refine ⟨?_, ?_, ?_⟩
    · simp [stepX, Open, HSt.stoppedNotLeft, HSt.stop, HSt.enter, Expected.C10.facts, Expected.C09.facts]
    · exact h3.2.1
    · simp only [stepX, HSt.stoppedNotLeft]; rw [erase_stop, erase_enter]; exact h3.2.2
  | lateStop =>
    have h3 := settle_props s.1 s.2 hs hf
    refine ⟨?_, ?_, ?_⟩
    · simp [stepX, Open, HSt.stop, HSt.enter, HSt.leave, Expected.C10.facts, Expected.C09.facts]
    · exact h3.2.1
    · simp only [stepX]; rw [erase_stop, erase_leave, erase_enter]; exact h3.2.2
  | stopOnly =>
    have h3 := settle_props s.1 s.2 hs hf
    refine ⟨?_, ?_, ?_⟩
    · simp [stepX, Open, HSt.stop, Expected.C10.facts, Expected.C09.facts]
    · exact h3.2.1
    · simp only [stepX]; rw [erase_stop]; exact h3.2.2

theorem full_runX (evs : List XEv) (s : HSt × Bool) (hs : Open s.1) (hf : FvBound s.1) :
    erase (evs.foldl (stepX Expected.C10.facts) s).1 = runSpec (erase s.1) (XEv.plain evs) := by
  induction evs generalizing s with
  | nil => rfl
  | cons e es ih =>
    have h := full_stepX s e hs hf
    simp only [List.foldl_cons]
    rw [ih _ h.1 h.2.1, h.2.2]
    cases e <;> simp [XEv.plain, runSpec]

/-- the ids only grow -/
theorem id_monotone (F : RunIdFacts) (h : HSt) (ev : Ev) : h.id ≤ (stepH F h ev).id := by
  cases ev with
  | define k a b blk => simp [stepH, HSt.enter, HSt.refresh, HSt.leave]
  | use i via x =>
    have : (stepH F h (.use i via x)).id = h.id := by
      cases via <;> simp [stepH, HSt.leave, (useBody_ids F _ i x _).1, HSt.enter, HSt.refresh]
    omega
  | cancelled c =>
    cases c <;> simp only [stepH, HSt.enter, HSt.stop, HSt.refresh, HSt.leave] <;> split <;> simp

end YaegiVerif.Proofs.C10
