import YaegiVerif.Proofs.C04Eval
import YaegiVerif.Model.ShareDom
import YaegiVerif.Expected.C04
/-
  C04 — right-hand-side lists: the slots collected by the mechanism, read after ALL of them have been
  evaluated, hold the values the specification computed one by one (two-phase assignment).
-/
namespace YaegiVerif.Share
open YaegiVerif.Expected.C04 (share)

/-! today's facts, field by field (so that `share` itself stays folded in the statements) -/
theorem share_assignCopies : share.assignCopies = true := rfl
theorem share_multiTemps : share.multiTemps = true := rfl
theorem share_multiDefineTemps : share.multiDefineTemps = true := rfl
theorem share_multiDefineRedeclAssigns : share.multiDefineRedeclAssigns = true := rfl
theorem share_multiDefineRedeclCopies : share.multiDefineRedeclCopies = true := rfl
theorem share_defineFresh : share.defineFresh = true := rfl
theorem share_callCopiesArgs : share.callCopiesArgs = true := rfl
theorem share_rangeSnapshotsArray : share.rangeSnapshotsArray = true := rfl
theorem share_closureClonesFrame : share.closureClonesFrame = true := rfl
theorem share_callShortcut : share.callShortcut = true := rfl
theorem share_litShortcut : share.litShortcut = true := rfl
theorem share_shortcutGuardsSingle : share.shortcutGuardsSingle = true := rfl
theorem share_structLitSetsSlot : share.structLitSetsSlot = true := rfl
theorem share_arrayLitSets : share.arrayLitSets = true := rfl
theorem share_structLitAssignSets : share.structLitAssignSets = true := rfl
theorem share_lookup2OnlyIfValid : share.lookup2OnlyIfValid = false := rfl
theorem share_appendArgsAreSlots : share.appendArgsAreSlots = false := rfl
theorem share_arrayLitFresh : share.arrayLitFresh = true := rfl
theorem share_arrayLitAssignInPlace : share.arrayLitAssignInPlace = true := rfl
theorem share_lookup2DefineFresh : share.lookup2DefineFresh = true := rfl
theorem share_lookup2RedeclInPlace : share.lookup2RedeclInPlace = true := rfl
theorem share_structLitInTemp : share.structLitInTemp = true := rfl
theorem share_callResultsFresh : share.callResultsFresh = true := rfl
theorem share_returnTwoPhase : share.returnTwoPhase = true := rfl
theorem share_derefNilPanics : share.derefNilPanics = true := rfl
theorem share_recvAssignsValue : share.recvAssignsValue = true := rfl
theorem share_assertDefineFresh : share.assertDefineFresh = true := rfl
theorem share_assertZeroOnFail : share.assertZeroOnFail = true := rfl

theorem readSlots_ext {st st' : St} (h : Ext st st') : ∀ (ss : List Slot) (vs : List Val),
    readSlots st ss = .ok vs → readSlots st' ss = .ok vs := by
  intro ss
  induction ss with
  | nil => intro vs hr; simpa [readSlots] using hr
  | cons s ss ih =>
    intro vs hr
    simp only [readSlots, bind, Except.bind] at hr ⊢
    cases hs : slotVal st s with
    | error e => simp [hs] at hr
    | ok v =>
      simp only [hs] at hr
      rw [h.slot s v hs]
      cases hrest : readSlots st ss with
      | error e => simp [hrest] at hr
      | ok ws =>
        simp only [hrest] at hr
        simp only [ih ws hrest]
        exact hr

theorem evalSlots_spec (rs : List RExp) : ∀ (st : St),
    (∀ ss st1, evalSlots st rs = .ok (ss, st1) →
      Ext st st1 ∧ ∃ vs, readSlots st1 ss = .ok vs ∧ Spec.evalAll st rs = .ok (vs, st1)) ∧
    (∀ e, evalSlots st rs = .error e → Spec.evalAll st rs = .error e) := by
  induction rs with
  | nil => intro st; simp [evalSlots, Spec.evalAll, readSlots, Ext.refl]
  | cons r rs ih =>
    intro st
    obtain ⟨hok, herr⟩ := evalSlot_spec r st
    simp only [evalSlots, Spec.evalAll, bind, Except.bind]
    cases he : evalSlot st r with
    | error e => simp [herr e he]
    | ok p =>
      obtain ⟨s, st1⟩ := p
      obtain ⟨hext, _, v, hsv, hspec⟩ := hok s st1 he
      obtain ⟨ihok, iherr⟩ := ih st1
      simp only [hspec]
      cases hes : evalSlots st1 rs with
      | error e => simp [iherr e hes]
      | ok q =>
        obtain ⟨ss, st2⟩ := q
        obtain ⟨hext2, vs, hrs, hall⟩ := ihok ss st2 hes
        simp only [hall]
        refine ⟨?_, by simp⟩
        intro ss' st' h
        simp only [Except.ok.injEq, Prod.mk.injEq] at h
        obtain ⟨h1, h2⟩ := h
        subst h1; subst h2
        refine ⟨hext.trans hext2, v :: vs, ?_, rfl⟩
        simp [readSlots, bind, Except.bind, hext2.slot s v hsv, hrs]

theorem evalAll_ext (rs : List RExp) : ∀ (st st1 : St) (vs : List Val), Spec.evalAll st rs = .ok (vs, st1) → Ext st st1 := by
  intro st st1 vs h
  obtain ⟨hok, herr⟩ := evalSlots_spec rs st
  cases he : evalSlots st rs with
  | error e => rw [herr e he] at h; cases h
  | ok p =>
    obtain ⟨ss, st1'⟩ := p
    obtain ⟨hext, vs', _, hspec⟩ := hok ss st1' he
    rw [hspec] at h
    simp only [Except.ok.injEq, Prod.mk.injEq] at h
    rw [← h.2]; exact hext

/-- the shortcut test of the model, with today's facts, is the syntactic class test -/
theorem anyShortcutAssign_share : ∀ (ls : List LExp) (rs : List RExp),
    anyShortcutAssign share ls rs = multiHasShortcut ls rs
  | [], _ => by simp [anyShortcutAssign, multiHasShortcut]
  | _ :: _, [] => by simp [anyShortcutAssign, multiHasShortcut]
  | l :: ls, r :: rs => by
    simp [anyShortcutAssign, multiHasShortcut, shortcutAssign, pairShortcut, share_callShortcut, share_litShortcut, anyShortcutAssign_share ls rs]

theorem anyShortcutDefine_share : ∀ (rs : List RExp), anyShortcutDefine share rs = anyCompositeLit rs
  | [] => by simp [anyShortcutDefine, anyCompositeLit]
  | r :: rs => by simp [anyShortcutDefine, anyCompositeLit, shortcutDefine, share_litShortcut, anyShortcutDefine_share rs]

/-- **two-phase multi-assignment**: the mechanism's multi-assign is the specification's (since commit 647e2cf of
    the repository also when a right-hand side is a call or a composite literal) -/
theorem multiY_spec (st : St) (ls : List LExp) (rs : List RExp) :
    multiY share st ls rs = Spec.multi st ls rs := by
  unfold multiY Spec.multi
  simp only [share_shortcutGuardsSingle, share_multiTemps, Bool.not_true, Bool.false_and, Bool.false_eq_true, if_false, if_true, bind, Except.bind]
  cases hd : resolveAll st ls with
  | error e => rfl
  | ok ds =>
    obtain ⟨hok, herr⟩ := evalSlots_spec rs st
    simp only
    cases he : evalSlots st rs with
    | error e => simp [herr e he]
    | ok p =>
      obtain ⟨ss, st1⟩ := p
      obtain ⟨_, vs, hrs, hall⟩ := hok ss st1 he
      simp [hall, hrs]

end YaegiVerif.Share
