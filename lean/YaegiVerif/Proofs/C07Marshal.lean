import YaegiVerif.Model.Boundary
/-
  C07 — helper lemmas: reading a representation back (`fromHost`) inverts both `toHost` and `srep`, by mutual
  structural induction over the type grammar; on types without functions and interfaces the script's
  representation IS the host's.
-/
namespace YaegiVerif.Boundary

theorem listFrom_listRep {α : Type} (f : α → Rep) (g : Rep → Option α) (h : ∀ a, g (f a) = some a) :
    ∀ l : List α, listFrom g (listRep f l) = some l
  | [] => rfl
  | a :: as => by simp [listRep, listFrom, h a, listFrom_listRep f g h as]

theorem pairFrom_pairRep {α β : Type} (f : α → Rep) (f' : Rep → Option α) (g : β → Rep) (g' : Rep → Option β)
    (hf : ∀ a, f' (f a) = some a) (hg : ∀ b, g' (g b) = some b) (p : α × β) :
    pairFrom f' g' (pairRep f g p) = some p := by
  simp [pairRep, pairFrom, hf, hg]

theorem fnFrom_fnRep (hs : Bool) (f : Option FnRef) : fnFrom (fnRep hs f) = some f := by
  cases f with
  | none => rfl
  | some r => cases r <;> cases hs <;> rfl

theorem ifaceFrom_H (k : IfaceK) (d : Option Dyn) : ifaceFrom (ifaceHRep k d) = some d := by
  cases d with
  | none => rfl
  | some d => cases k <;> cases hi : d.interp <;> simp [ifaceHRep, ifaceFrom, unbox, hi]

theorem ifaceFrom_S (k : IfaceK) (d : Option Dyn) : ifaceFrom (ifaceSRep k d) = some d := by
  cases d with
  | none => rfl
  | some d => cases k <;> cases hi : d.interp <;> cases hm : d.methods <;> simp [ifaceSRep, ifaceFrom, unbox, hi, hm]

mutual
  theorem fromHost_toHost : (t : Ty) → (v : Val t) → fromHost t (toHost t v) = some v
    | .basic _, _ => rfl
    | .struct fs, v => by
        show fromHostL fs (toHostL fs v) = some v
        exact fromHostL_toHostL fs v
    | .ptr _, none => rfl
    | .ptr t, some x => by
        show (fromHost t (toHost t x)).map some = some (some x)
        rw [fromHost_toHost t x]; rfl
    | .array _ t, l => by
        show listFrom (fromHost t) (listRep (toHost t) l) = some l
        exact listFrom_listRep _ _ (fromHost_toHost t) l
    | .slice _, none => rfl
    | .slice t, some l => by
        show (listFrom (fromHost t) (listRep (toHost t) l)).map some = some (some l)
        rw [listFrom_listRep _ _ (fromHost_toHost t) l]; rfl
    | .map _ _, none => rfl
    | .map k v, some l => by
        show (listFrom (pairFrom (fromHost k) (fromHost v)) (listRep (pairRep (toHost k) (toHost v)) l)).map some
          = some (some l)
        rw [listFrom_listRep _ _ (pairFrom_pairRep (toHost k) (fromHost k) (toHost v) (fromHost v)
          (fromHost_toHost k) (fromHost_toHost v)) l]; rfl
    | .func _ _ _, f => fnFrom_fnRep true f
    | .iface k, d => ifaceFrom_H k d
    | .named _ _ u, v => fromHost_toHost u v
  theorem fromHostL_toHostL : (ts : TyL) → (v : ValL ts) → fromHostL ts (toHostL ts v) = some v
    | .nil, _ => rfl
    | .cons t ts, (v, vs) => by
        show (match fromHost t (toHost t v), fromHostL ts (toHostL ts vs) with
              | some v, some vs => some (v, vs)
              | _, _ => none) = some (v, vs)
        rw [fromHost_toHost t v, fromHostL_toHostL ts vs]
end

mutual
  theorem fromHost_srep : (t : Ty) → (v : Val t) → fromHost t (srep t v) = some v
    | .basic _, _ => rfl
    | .struct fs, v => by
        show fromHostL fs (srepL fs v) = some v
        exact fromHostL_srepL fs v
    | .ptr _, none => rfl
    | .ptr t, some x => by
        show (fromHost t (srep t x)).map some = some (some x)
        rw [fromHost_srep t x]; rfl
    | .array _ t, l => by
        show listFrom (fromHost t) (listRep (srep t) l) = some l
        exact listFrom_listRep _ _ (fromHost_srep t) l
    | .slice _, none => rfl
    | .slice t, some l => by
        show (listFrom (fromHost t) (listRep (srep t) l)).map some = some (some l)
        rw [listFrom_listRep _ _ (fromHost_srep t) l]; rfl
    | .map _ _, none => rfl
    | .map k v, some l => by
        show (listFrom (pairFrom (fromHost k) (fromHost v)) (listRep (pairRep (srep k) (srep v)) l)).map some
          = some (some l)
        rw [listFrom_listRep _ _ (pairFrom_pairRep (srep k) (fromHost k) (srep v) (fromHost v)
          (fromHost_srep k) (fromHost_srep v)) l]; rfl
    | .func _ _ _, f => fnFrom_fnRep false f
    | .iface k, d => ifaceFrom_S k d
    | .named _ _ u, v => fromHost_srep u v
  theorem fromHostL_srepL : (ts : TyL) → (v : ValL ts) → fromHostL ts (srepL ts v) = some v
    | .nil, _ => rfl
    | .cons t ts, (v, vs) => by
        show (match fromHost t (srep t v), fromHostL ts (srepL ts vs) with
              | some v, some vs => some (v, vs)
              | _, _ => none) = some (v, vs)
        rw [fromHost_srep t v, fromHostL_srepL ts vs]
end

/-! ### types whose values need no marshalling at all -/

mutual
  /-- no function and no interface anywhere inside -/
  def Plain : Ty → Bool
    | .basic _ => true
    | .struct fs => PlainL fs
    | .ptr t => Plain t
    | .array _ t => Plain t
    | .slice t => Plain t
    | .map k v => Plain k && Plain v
    | .func _ _ _ => false
    | .iface _ => false
    | .named _ _ u => Plain u
  def PlainL : TyL → Bool
    | .nil => true
    | .cons t ts => Plain t && PlainL ts
end

theorem listRep_congr {α : Type} (f g : α → Rep) (h : ∀ a, f a = g a) : ∀ l : List α, listRep f l = listRep g l
  | [] => rfl
  | a :: as => by simp [listRep, h a, listRep_congr f g h as]

mutual
  theorem srep_eq_toHost : (t : Ty) → Plain t = true → (v : Val t) → srep t v = toHost t v
    | .basic _, _, _ => rfl
    | .struct fs, h, v => by
        show Rep.tuple (srepL fs v) = Rep.tuple (toHostL fs v)
        rw [srepL_eq_toHostL fs h v]
    | .ptr _, _, none => rfl
    | .ptr t, h, some x => by
        show Rep.ptr (srep t x) = Rep.ptr (toHost t x)
        rw [srep_eq_toHost t h x]
    | .array _ t, h, l => by
        show Rep.tuple (listRep (srep t) l) = Rep.tuple (listRep (toHost t) l)
        rw [listRep_congr _ _ (srep_eq_toHost t h) l]
    | .slice _, _, none => rfl
    | .slice t, h, some l => by
        show Rep.tuple (listRep (srep t) l) = Rep.tuple (listRep (toHost t) l)
        rw [listRep_congr _ _ (srep_eq_toHost t h) l]
    | .map _ _, _, none => rfl
    | .map k v, h, some l => by
        have hk : Plain k = true := by
          have : (Plain k && Plain v) = true := h
          exact (Bool.and_eq_true _ _ ▸ this).1
        have hv : Plain v = true := by
          have : (Plain k && Plain v) = true := h
          exact (Bool.and_eq_true _ _ ▸ this).2
        show Rep.tuple (listRep (pairRep (srep k) (srep v)) l) = Rep.tuple (listRep (pairRep (toHost k) (toHost v)) l)
        have hp : ∀ p : Val k × Val v, pairRep (srep k) (srep v) p = pairRep (toHost k) (toHost v) p := fun p => by
          simp [pairRep, srep_eq_toHost k hk, srep_eq_toHost v hv]
        rw [listRep_congr _ _ hp l]
    | .func _ _ _, h, _ => by cases h
    | .iface _, h, _ => by cases h
    | .named _ _ u, h, v => srep_eq_toHost u h v
  theorem srepL_eq_toHostL : (ts : TyL) → PlainL ts = true → (v : ValL ts) → srepL ts v = toHostL ts v
    | .nil, _, _ => rfl
    | .cons t ts, h, (v, vs) => by
        have h1 : Plain t = true := by
          have : (Plain t && PlainL ts) = true := h
          exact (Bool.and_eq_true _ _ ▸ this).1
        have h2 : PlainL ts = true := by
          have : (Plain t && PlainL ts) = true := h
          exact (Bool.and_eq_true _ _ ▸ this).2
        show RepL.cons (srep t v) (srepL ts vs) = RepL.cons (toHost t v) (toHostL ts vs)
        rw [srep_eq_toHost t h1 v, srepL_eq_toHostL ts h2 vs]
end

end YaegiVerif.Boundary
