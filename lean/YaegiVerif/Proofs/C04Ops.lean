import YaegiVerif.Proofs.C04Append
/-
  C04 — from statements to programs: statement lists, range loops (the loop body of iteration k > 0 is a
  re-execution), closures capturing a per-iteration variable, and whole operation sequences.
-/
namespace YaegiVerif.Share
open YaegiVerif.Expected.C04 (share)

/-- the destination of a comma-ok form: a new cell stored through = the specification's new variable -/
theorem setOrFresh_spec (st : St) (b : Bool) (x : Name) (z v : Val) :
    setOrFresh st b x z v = Spec.setOrDeclare st b x v := by
  unfold setOrFresh Spec.setOrDeclare
  cases b with
  | false => rfl
  | true =>
    simp [St.fresh, St.alloc, St.bind, St.var, lookupEnv, St.write, writeLoc, Val.put, Spec.declare, bind, Except.bind]

/-- with today's facts a comma-ok `:=` gives every variable that is not merely redeclared a new cell, at every execution -/
theorem lookup2Fresh_share (reexec isDef rd : Bool) : lookup2Fresh share reexec isDef rd = (isDef && !rd) := by
  cases rd <;> simp [lookup2Fresh, share_lookup2DefineFresh, share_lookup2RedeclInPlace]

/-- `x, ok = m[k]` and `x, ok := m[k]`, on every execution (the zero value is stored for a missing key since commit
    6b8d7ae of the repository; the declared variables are new at each execution since 5a404d3) -/
theorem lookup2Y_spec (st : St) (reexec isDef : Bool) (x ok : Name) (m : LExp) (k : IExp) (zero : Val) (rdx rdok : Bool) :
    lookup2Y share reexec st isDef x ok m k zero rdx rdok = Spec.lookup2 st isDef x ok m k zero rdx rdok := by
  unfold lookup2Y Spec.lookup2
  simp only [bind, Except.bind, share_lookup2OnlyIfValid, Bool.false_eq_true, if_false, lookup2Fresh_share, setOrFresh_spec]
  cases resolve st m with
  | error e => rfl
  | ok loc =>
    simp only
    cases st.read loc with
    | error e => rfl
    | ok mv =>
      simp only
      cases keyVal st k with
      | error e => rfl
      | ok key =>
        simp only
        cases mapLookup st mv key with
        | error e => rfl
        | ok r => cases r <;> rfl

theorem litFresh_litClass_assign (isStruct : Bool) : litFresh share true (litClass isStruct) = false := by
  cases isStruct <;> simp [litFresh, litClass, isStructLit, isArrayLit, share_structLitAssignSets, share_arrayLitSets, share_arrayLitAssignInPlace]

theorem litFresh_litClass_define (isStruct : Bool) : litFresh share false (litClass isStruct) = true := by
  cases isStruct <;> simp [litFresh, litClass, isStructLit, isArrayLit, share_structLitSetsSlot, share_arrayLitSets, share_arrayLitFresh]

/-- `l = T{…}` / `x := T{…}` with expression operands: the struct is built in a temporary (doComposite) / a fresh array value
    (arrayLit) from operand slots that are all read before the destination is written -/
theorem complitY_spec (st : St) (reexec isDef : Bool) (l : LExp) (isStruct : Bool) (zero : Val) (elems : List (Path × RExp)) :
    complitY share reexec st isDef l isStruct zero elems = Spec.complit st isDef l zero elems := by
  unfold complitY Spec.complit
  simp only [share_structLitInTemp, share_litShortcut, Bool.not_true, Bool.false_and, Bool.false_eq_true, if_false, if_true]
  cases isDef with
  | true =>
    simp only [if_true]
    cases l with
    | var x =>
      simp only [bind, Except.bind]
      rcases evalSlots_cases st (elems.map (·.2)) with ⟨e, h1, h2⟩ | ⟨ss, st1, vs, h1, h2, h3, _⟩
      · simp [h1, h2]
      · simp only [h1, h2, h3]
        cases buildLit zero (elems.map (·.1)) vs with
        | error e => rfl
        | ok v => simp [storeShortcut, litFresh_litClass_define, Spec.declare]
    | field l i => rfl
    | index l i => rfl
    | deref l => rfl
  | false =>
    simp only [Bool.false_eq_true, if_false]
    cases l with
    | var x =>
      simp only [resolve, bind, Except.bind]
      cases hv : st.var x with
      | error e => rfl
      | ok d =>
        simp only
        rcases evalSlots_cases st (elems.map (·.2)) with ⟨e, h1, h2⟩ | ⟨ss, st1, vs, h1, h2, h3, h4⟩
        · simp [h1, h2]
        · simp only [h1, h2, h3]
          cases buildLit zero (elems.map (·.1)) vs with
          | error e => rfl
          | ok v => simp [storeShortcut, litFresh_litClass_assign, bind, Except.bind, h4.var x, hv]
    | field l i =>
      simp only [bind, Except.bind]
      cases resolve st (.field l i) with
      | error e => rfl
      | ok d =>
        simp only
        rcases evalSlots_cases st (elems.map (·.2)) with ⟨e, h1, h2⟩ | ⟨ss, st1, vs, h1, h2, h3, _⟩
        · simp [h1, h2]
        · simp [h1, h2, h3]
    | index l i =>
      simp only [bind, Except.bind]
      cases resolve st (.index l i) with
      | error e => rfl
      | ok d =>
        simp only
        rcases evalSlots_cases st (elems.map (·.2)) with ⟨e, h1, h2⟩ | ⟨ss, st1, vs, h1, h2, h3, _⟩
        · simp [h1, h2]
        · simp [h1, h2, h3]
    | deref l =>
      simp only [bind, Except.bind]
      cases resolve st (.deref l) with
      | error e => rfl
      | ok d =>
        simp only
        rcases evalSlots_cases st (elems.map (·.2)) with ⟨e, h1, h2⟩ | ⟨ss, st1, vs, h1, h2, h3, _⟩
        · simp [h1, h2]
        · simp [h1, h2, h3]

/-- `l = <-c` / `x := <-c`: since commit 212dc2e of the repository the received value is assigned (declared) like any other value -/
theorem recvY_spec (st : St) (isDef : Bool) (l : LExp) (r : RExp) :
    recvY share st isDef l r = Spec.recv st isDef l r := by
  unfold recvY Spec.recv
  cases isDef with
  | true =>
    simp only [if_true]
    cases l with
    | var x =>
      simp only [Spec.define, bind, Except.bind]
      rcases evalSlot_cases st r with ⟨e, h1, h2⟩ | ⟨s, st1, v, h1, h2, h3, _⟩
      · simp [h1, h2]
      · simp [h1, h2, h3, Spec.declare]
    | field l i => rfl
    | index l i => rfl
    | deref l => rfl
  | false =>
    simp only [Bool.false_eq_true, if_false, share_recvAssignsValue, if_true, Spec.assign, bind, Except.bind]
    cases resolve st l with
    | error e => rfl
    | ok d =>
      simp only
      rcases evalSlot_cases st r with ⟨e, h1, h2⟩ | ⟨s, st1, v, h1, h2, h3, _⟩
      · simp [h1, h2]
      · simp [h1, h2, h3]

theorem assertFresh_share (reexec isDef rd : Bool) : assertFresh share reexec isDef rd = (isDef && !rd) := by
  cases rd <;> simp [assertFresh, share_assertDefineFresh, share_lookup2RedeclInPlace]

/-- `x, ok = e.(T)` and `x, ok := e.(T)`, holding or failing, on every execution (commit daee744 of the repository) -/
theorem assert2Y_spec (st : St) (reexec isDef : Bool) (x ok : Name) (r : RExp) (succ : Bool) (zero : Val) (rdx rdok : Bool) :
    assert2Y share reexec st isDef x ok r succ zero rdx rdok = Spec.assert2 st isDef x ok r succ zero rdx rdok := by
  unfold assert2Y Spec.assert2
  simp only [bind, Except.bind, share_assertZeroOnFail, if_true, assertFresh_share, setOrFresh_spec]
  cases succ with
  | false => simp
  | true =>
    simp only [if_true]
    rcases evalSlot_cases st r with ⟨e, h1, h2⟩ | ⟨s, st1, v, h1, h2, h3, _⟩
    · simp [h1, h2]
    · simp [h1, h2, h3]

/-- `l = f(&p)` with a named result: since commit 1b5ab85 of the repository the result is a fresh variable of the callee,
    copied to the destination after the call -/
theorem callNamedY_spec (st : St) (isDef : Bool) (l p sel1 : LExp) (k : Int) (sel2 sel3 : LExp) (zero : Val) :
    callNamedY share st isDef l p sel1 k sel2 sel3 zero = Spec.callNamed st isDef l p sel1 k sel2 sel3 zero := by
  unfold callNamedY Spec.callNamed
  simp only [share_callResultsFresh, Bool.not_true, Bool.false_and, Bool.false_eq_true, if_false, bind, Except.bind]
  cases resolve st p with
  | error e => rfl
  | ok pl =>
    simp only
    cases runNamedBody (st.alloc zero).2 ⟨(st.alloc zero).1, []⟩ pl sel1 k sel2 sel3 with
    | error e => rfl
    | ok q => simp [storeResult_spec]

/-- `l1, l2 = sw()` with `return b, a`: since commit 8544122 of the repository the return statement is two-phase -/
theorem retSwapY_spec (st : St) (isDef : Bool) (l1 l2 : LExp) (v1 v2 : Val) :
    retSwapY share st isDef l1 l2 v1 v2 = Spec.retSwap st isDef l1 l2 v1 v2 := by
  unfold retSwapY Spec.retSwap
  simp only [share_returnTwoPhase, if_true]
  cases isDef with
  | false => rfl
  | true => cases l1 <;> cases l2 <;> rfl

/-- one statement: the mechanism computes the specification's state — every statement of the language, first or
    repeated execution -/
theorem sopY_spec (G : Growth) (st : St) (o : SOp) (reexec : Bool) : sopY share G reexec st o = Spec.sop G st o := by
  cases o with
  | assign l r => exact assignY_spec st l r
  | opassign l k => rfl
  | define x r => exact defineY_spec st x r reexec
  | multi ls rs => exact multiY_spec st ls rs
  | multidef xs rd zs rs => exact multidefY_spec st xs rd zs rs reexec
  | append isDef l s args zero esz noscan => exact appendY_spec G st isDef l s args zero esz noscan
  | appendSlice isDef l s t zero esz noscan => exact appendSliceY_spec G st isDef l s t zero esz noscan
  | copy d s => exact copyY_spec st d s
  | mapSet m k r => exact mapSetY_spec st m k r
  | mapDel m k => rfl
  | lookup2 isDef x ok m k zero rdx rdok => exact lookup2Y_spec st reexec isDef x ok m k zero rdx rdok
  | complit isDef l isStruct zero elems => exact complitY_spec st reexec isDef l isStruct zero elems
  | recv isDef l r => exact recvY_spec st isDef l r
  | assert2 isDef x ok r succ zero rdx rdok => exact assert2Y_spec st reexec isDef x ok r succ zero rdx rdok
  | callMut isDef l sel k arg => exact callMutY_spec st isDef l sel k arg
  | callNamed isDef l p sel1 k sel2 sel3 zero => exact callNamedY_spec st isDef l p sel1 k sel2 sel3 zero
  | retSwap isDef l1 l2 v1 v2 => exact retSwapY_spec st isDef l1 l2 v1 v2
  | «show» xs => rfl

theorem sopsY_spec (G : Growth) (reexec : Bool) :
    ∀ (os : List SOp) (st : St), sopsY share G reexec st os = Spec.sops G st os := by
  intro os
  induction os with
  | nil => intro st; rfl
  | cons o os ih =>
    intro st
    simp only [sopsY, Spec.sops, sopY_spec G st o reexec]
    cases Spec.sop G st o with
    | error e => rfl
    | ok st1 => exact ih st1

theorem rangeLoop_congr (runA runB : Nat → St → List SOp → St × Option Err) (src : RangeSrc) (i v : Name) (body : List SOp)
    (h : ∀ k st, runA k st body = runB k st body) :
    ∀ (fuel k : Nat) (st : St), rangeLoop runA st src i v body k fuel = rangeLoop runB st src i v body k fuel := by
  intro fuel
  induction fuel with
  | zero => intro k st; rfl
  | succ n ih =>
    intro k st
    simp only [rangeLoop]
    cases rangeElem st src k with
    | error e => rfl
    | ok e =>
      simp only [h]
      cases hb : runB k ((st.fresh i (.int k)).fresh v e) body with
      | mk st2 r =>
        cases r with
        | none => exact ih (k + 1) st2
        | some e => rfl

theorem rangeSrcY_spec (st : St) (l : LExp) : rangeSrcY share st l = Spec.rangeSrc st l := by
  unfold rangeSrcY Spec.rangeSrc
  simp only [share_rangeSnapshotsArray, if_true, bind, Except.bind]
  cases resolve st l with
  | error e => rfl
  | ok loc =>
    simp only
    cases st.read loc with
    | error e => rfl
    | ok v => cases v <;> rfl

/-- `for i, v := range l { body }` -/
theorem rangeY_spec (G : Growth) (st : St) (l : LExp) (i v : Name) (body : List SOp) :
    rangeY share G st l i v body = Spec.range G st l i v body := by
  unfold rangeY Spec.range
  rw [rangeSrcY_spec]
  cases Spec.rangeSrc st l with
  | error e => rfl
  | ok src =>
    simp only
    exact rangeLoop_congr _ _ src i v body (fun k st => sopsY_spec G (k != 0) body st) _ 0 st

theorem captureCells_spec (x : Name) : ∀ (elems : List Val) (st : St) (acc : List Loc),
    captureCells share st x elems acc = .ok (Spec.captureVars st x elems acc) := by
  intro elems
  induction elems with
  | nil => intro st acc; rfl
  | cons e es ih =>
    intro st acc
    simp only [captureCells, Spec.captureVars, share_defineFresh, if_true]
    cases lookupEnv st.env x <;> exact ih _ _

/-- closures over a per-iteration variable -/
theorem captureY_spec (st : St) (l : LExp) (x : Name) (sel : LExp) (k : Int) (calls : List Nat) :
    captureY share st l x sel k calls = Spec.capture st l x sel k calls := by
  unfold captureY Spec.capture
  rw [rangeSrcY_spec]
  simp only [bind, Except.bind, share_closureClonesFrame, if_true]
  cases Spec.rangeSrc st l with
  | error e => rfl
  | ok src =>
    simp only
    cases src with
    | snapshot es => simp [captureCells_spec]
    | live b off n =>
      simp only
      cases readElems st b off n with
      | error e => rfl
      | ok es => simp [captureCells_spec]

theorem opY_spec (G : Growth) (st : St) (o : Op) : opY share G st o = Spec.op G st o := by
  cases o with
  | s o => simp only [opY, Spec.op, sopY_spec G st o false]
  | range l i v body => exact rangeY_spec G st l i v body
  | capture l x sel k calls => simp only [opY, Spec.op, captureY_spec]

/-- whole operation sequences -/
theorem runY_spec (G : Growth) : ∀ (ops : List Op) (st : St), runY share G st ops = Spec.runGo G st ops := by
  intro ops
  induction ops with
  | nil => intro st; rfl
  | cons o os ih =>
    intro st
    simp only [runY, Spec.runGo, runFrom, opY_spec G st o]
    cases hr : Spec.op G st o with
    | mk st1 r =>
      cases r with
      | none => exact ih st1
      | some e => rfl

end YaegiVerif.Share
