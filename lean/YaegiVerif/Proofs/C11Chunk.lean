import YaegiVerif.Proofs.C11Deps
/-
  C11, helper lemmas 4: one chunk. The success form of `evalChunk` on the domain, the invariant it
  keeps, and the key step: evaluating `t` and then `rest` as a file is evaluating `t ++ rest` as a file.
-/
namespace YaegiVerif.Proofs.C11
open YaegiVerif.Piecewise

/-- the facts of the unchanged source that the theorems need -/
structure Good (fx : Facts) : Prop where
  copy : fx.resizeCopiesPrefix = true
  alloc : fx.allocAtEnd = true
  tokConst : fx.declTokens.contains "const" = true
  tokVar : fx.declTokens.contains "var" = true
  tokFunc : fx.declTokens.contains "func" = true
  tokType : fx.declTokens.contains "type" = true
  tokOther : fx.declTokens.contains "other" = false
  wrap : fx.wrapDefault = true
  mainOwn : fx.mainOwnOnly = true
  depsPending : fx.depsPendingOnly = true
  retry : fx.funcRetry = true
  firstErr : fx.firstErrorDecides = true

/-- invariant of the states a session goes through -/
structure WF (s : State) : Prop where
  below : TabBelow s.c.code.length s.c.tab.nvars s.c.tab
  closed : codeClosed s.c.code s.c.tab.nvars
  cells : s.r.cells.length = s.c.tab.nvars

theorem WF_empty : WF State.empty :=
  ⟨⟨fun _ _ h => by simp [State.empty, CState.empty, Tab.empty, lookup] at h,
    fun _ _ h => by simp [State.empty, CState.empty, Tab.empty, lookup] at h⟩,
   fun _ h => by simp [State.empty, CState.empty] at h, rfl⟩

/-! ### frame growth -/

theorem resizeCells_eq (fx : Facts) (hc : fx.resizeCopiesPrefix = true) (cells : List Int) (n : Nat)
    (h : cells.length ≤ n) : resizeCells fx cells n = cells ++ List.replicate (n - cells.length) 0 := by
  unfold resizeCells
  split
  · have : n - cells.length = 0 := by omega
    simp [this]
  · simp [hc]

theorem resize_ext (fx : Facts) (hc : fx.resizeCopiesPrefix = true) (r : RState) (n1 n2 : Nat)
    (h1 : r.cells.length ≤ n1) (h2 : n1 ≤ n2) :
    r.resize fx n2 = RState.ext (r.resize fx n1) (List.replicate (n2 - n1) 0) := by
  unfold RState.resize RState.ext
  simp only [resizeCells_eq fx hc _ _ h1, resizeCells_eq fx hc _ _ (Nat.le_trans h1 h2), List.append_assoc,
    List.replicate_append_replicate]
  have : n2 - r.cells.length = n1 - r.cells.length + (n2 - n1) := by omega
  rw [this]

theorem resize_len (fx : Facts) (hc : fx.resizeCopiesPrefix = true) (r : RState) (n : Nat) (h : r.cells.length ≤ n) :
    (r.resize fx n).cells.length = n := by
  unfold RState.resize
  simp only [resizeCells_eq fx hc _ _ h, List.length_append, List.length_replicate]
  omega

theorem resize_of_len (fx : Facts) (hc : fx.resizeCopiesPrefix = true) (r : RState) (n1 n2 : Nat)
    (h1 : r.cells.length = n1) (h2 : n1 ≤ n2) : r.resize fx n2 = RState.ext r (List.replicate (n2 - n1) 0) := by
  unfold RState.resize RState.ext
  rw [resizeCells_eq fx hc _ _ (by omega), h1]

/-! ### order of the steps -/

def sortedFrom (lo : Nat) : List Nat → Bool
  | [] => true
  | k :: ks => decide (lo ≤ k) && sortedFrom k ks

theorem phaseSortedFrom_eq (items : List Item) : ∀ lo, phaseSortedFrom lo items = sortedFrom lo (items.filterMap Item.phase) := by
  induction items with
  | nil => intro lo; rfl
  | cons it rest ih =>
    intro lo
    simp only [phaseSortedFrom, List.filterMap_cons]
    cases hp : it.phase with
    | none => simp only [ih]
    | some k => simp only [sortedFrom, ih]

theorem sortedFrom_weaken : ∀ (l : List Nat) (lo lo' : Nat), lo' ≤ lo → sortedFrom lo l = true → sortedFrom lo' l = true := by
  intro l
  cases l with
  | nil => intros; rfl
  | cons k ks =>
    intro lo lo' h hs
    simp only [sortedFrom, Bool.and_eq_true, decide_eq_true_eq] at hs ⊢
    exact ⟨by omega, hs.2⟩

theorem sortedFrom_append : ∀ (a b : List Nat) (lo : Nat), sortedFrom lo (a ++ b) = true →
    sortedFrom lo a = true ∧ sortedFrom lo b = true := by
  intro a
  induction a with
  | nil => intro b lo h; exact ⟨rfl, h⟩
  | cons k ks ih =>
    intro b lo h
    simp only [List.cons_append, sortedFrom, Bool.and_eq_true, decide_eq_true_eq] at h ⊢
    obtain ⟨h1, h2⟩ := ih b k h.2
    exact ⟨⟨h.1, h1⟩, sortedFrom_weaken b k lo h.1 h2⟩

theorem phase_nil_of_sorted : ∀ (acts : List (Nat × Act)) (lo j : Nat), sortedFrom lo (acts.map (·.1)) = true → j < lo →
    phase j acts = [] := by
  intro acts
  induction acts with
  | nil => intros; rfl
  | cons a as ih =>
    intro lo j hs hj
    simp only [List.map_cons, sortedFrom, Bool.and_eq_true, decide_eq_true_eq] at hs
    unfold phase
    have hne : ¬ (a.1 = j) := by omega
    simp only [List.filter_cons, hne, decide_false, Bool.false_eq_true, if_false]
    exact ih a.1 j hs.2 (by omega)

theorem phase_cons_eq (a : Nat × Act) (as : List (Nat × Act)) (j : Nat) (h : a.1 = j) : phase j (a :: as) = a.2 :: phase j as := by
  simp [phase, h]

theorem phase_cons_ne (a : Nat × Act) (as : List (Nat × Act)) (j : Nat) (h : a.1 ≠ j) : phase j (a :: as) = phase j as := by
  simp [phase, h]

/-- a chunk whose steps are already in phase order runs them in the order written -/
theorem progOf_sorted : ∀ (acts : List (Nat × Act)) (lo : Nat), sortedFrom lo (acts.map (·.1)) = true →
    (∀ a ∈ acts, a.1 ≤ 2) → progOf .file acts = acts.map (·.2) := by
  intro acts
  induction acts with
  | nil => intros; rfl
  | cons a as ih =>
    intro lo hs hb
    have hs' := hs
    simp only [List.map_cons, sortedFrom, Bool.and_eq_true, decide_eq_true_eq] at hs
    have iha := ih a.1 hs.2 (fun b hb' => hb b (List.mem_cons_of_mem _ hb'))
    simp only [progOf] at iha ⊢
    have ha2 := hb a (List.mem_cons_self ..)
    have h012 : a.1 = 0 ∨ a.1 = 1 ∨ a.1 = 2 := by omega
    rcases h012 with h | h | h
    · rw [phase_cons_eq a as 0 h, phase_cons_ne a as 1 (by omega), phase_cons_ne a as 2 (by omega)]
      simp [← iha]
    · have z0 := phase_nil_of_sorted as a.1 0 hs.2 (by omega)
      rw [phase_cons_ne a as 0 (by omega), phase_cons_eq a as 1 h, phase_cons_ne a as 2 (by omega), z0]
      rw [z0] at iha
      simp [← iha]
    · have z0 := phase_nil_of_sorted as a.1 0 hs.2 (by omega)
      have z1 := phase_nil_of_sorted as a.1 1 hs.2 (by omega)
      rw [phase_cons_ne a as 0 (by omega), phase_cons_ne a as 1 (by omega), phase_cons_eq a as 2 h, z0, z1]
      rw [z0, z1] at iha
      simp [← iha]

theorem compileItem_phases (T : Tab) (nf : Nat) (it : Item) (r : List CBody × List (Nat × Act))
    (h : compileItem T nf it = some r) : r.2.map (·.1) = it.phase.toList := by
  cases it with
  | const x e last =>
    simp only [compileItem] at h
    split at h <;> simp at h
    subst h; rfl
  | var x e =>
    simp only [compileItem] at h
    split at h <;> simp at h
    subst h; rfl
  | define x e =>
    simp only [compileItem] at h
    split at h <;> simp at h
    subst h; rfl
  | closure x b =>
    simp only [compileItem] at h
    split at h <;> simp at h
    subst h; rfl
  | func f b =>
    simp only [compileItem, Option.map_eq_some_iff] at h
    obtain ⟨b', _, rfl⟩ := h; rfl
  | type t => simp only [compileItem, Option.some.injEq] at h; subst h; rfl
  | method t m b =>
    simp only [compileItem] at h
    split at h <;> simp at h
    subst h; rfl
  | init b =>
    simp only [compileItem, Option.map_eq_some_iff] at h
    obtain ⟨b', _, rfl⟩ := h; rfl
  | stmt s =>
    simp only [compileItem, Option.map_eq_some_iff] at h
    obtain ⟨s', _, rfl⟩ := h; rfl

theorem compileItems_phases (T : Tab) (items : List Item) : ∀ (nf : Nat) (r : List CBody × List (Nat × Act)),
    compileItems T nf items = some r → r.2.map (·.1) = items.filterMap Item.phase := by
  induction items with
  | nil => intro nf r h; simp only [compileItems, Option.some.injEq] at h; subst h; rfl
  | cons it rest ih =>
    intro nf r h
    rw [compileItems_cons] at h
    cases hc : compileItem T nf it with
    | none => simp [hc] at h
    | some r1 =>
      cases hr : compileItems T (if it.hasBody then nf + 1 else nf) rest with
      | none => simp [hc, hr] at h
      | some r2 =>
        simp only [hc, hr, Option.some.injEq] at h
        subst h
        simp only [List.map_append, compileItem_phases T nf it r1 hc, ih _ r2 hr, List.filterMap_cons]
        cases it.phase <;> simp

theorem phase_le_two (it : Item) (k : Nat) (h : it.phase = some k) : k ≤ 2 := by
  cases it <;> simp [Item.phase] at h <;> omega

theorem acts_phase_le (T : Tab) (nf : Nat) (items : List Item) (r : List CBody × List (Nat × Act))
    (h : compileItems T nf items = some r) : ∀ a ∈ r.2, a.1 ≤ 2 := by
  intro a ha
  have hp := compileItems_phases T items nf r h
  have : a.1 ∈ r.2.map (·.1) := List.mem_map_of_mem ha
  rw [hp, List.mem_filterMap] at this
  obtain ⟨it, _, hit⟩ := this
  exact phase_le_two it a.1 hit

/-- in phase order, the steps of a chunk run in the order written, whatever the mode -/
theorem progOf_of_sorted (mode : Mode) (T : Tab) (nf : Nat) (items : List Item) (r : List CBody × List (Nat × Act))
    (h : compileItems T nf items = some r) (hs : phaseSortedFrom 0 items = true) : progOf mode r.2 = r.2.map (·.2) := by
  cases mode with
  | block => rfl
  | file =>
    apply progOf_sorted r.2 0 _ (acts_phase_le T nf items r h)
    rw [compileItems_phases T items nf r h, ← phaseSortedFrom_eq]
    exact hs

theorem phaseSorted_append (a b : List Item) (h : phaseSortedFrom 0 (a ++ b) = true) :
    phaseSortedFrom 0 a = true ∧ phaseSortedFrom 0 b = true := by
  rw [phaseSortedFrom_eq] at h
  rw [List.filterMap_append] at h
  rw [phaseSortedFrom_eq, phaseSortedFrom_eq]
  exact sortedFrom_append _ _ 0 h

/-! ### dependencies of the initialisers, local scope, main -/

/-- **no variable of a chunk under definition-before-use waits for itself**, wherever the chunk
    starts and whatever the session has declared before: genGlobalVarDecl succeeds -/
theorem varDepsOk_of_scoped (fx : Facts) (hg : Good fx) (s : State) (hwf : WF s) (items : List Item)
    (hs : scopedOk fx s.c.tab.nvars (s.c.tab, s.c.code.length) items = true) (r : List CBody × List (Nat × Act))
    (hr : compileItems (regItems fx s.c.tab.nvars (s.c.tab, s.c.code.length) items).1 s.c.code.length items = some r) :
    varDepsOk fx s.c.tab.nvars (varDeps (s.c.code ++ r.1) r.2) = true := by
  have h := deps_below fx hg.alloc s.c.tab.nvars items (s.c.tab, s.c.code.length) s.c.code _ r [] rfl hwf.below hwf.closed hs
    (Ext.refl _) hr
  unfold varDepsOk varDeps
  rw [List.all_eq_true]
  intro q hq
  obtain ⟨a, ha, hqa⟩ := List.mem_filterMap.mp hq
  have hmem : q ∈ r.2.filterMap (fun a => a.2.deps (s.c.code ++ r.1 ++ [])) := by
    rw [List.append_nil]
    exact List.mem_filterMap.mpr ⟨a, (List.mem_filter.mp ha).1, hqa⟩
  have hlt := h q hmem
  simp only [hg.depsPending, Bool.true_or, Bool.and_true, Bool.not_eq_true', List.contains_eq_mem, decide_eq_false_iff_not]
  intro hc
  exact Nat.lt_irrefl _ (hlt q.1 hc)

theorem defineNames_append (a b : List Item) : defineNames (a ++ b) = defineNames a ++ defineNames b := by
  simp [defineNames, List.filterMap_append]

theorem stmtsOk_append (a b : List Item) (h : stmtsOk (a ++ b) = true) : stmtsOk b = true := by
  induction a with
  | nil => exact h
  | cons it a ih =>
    simp only [List.cons_append, stmtsOk, Bool.and_eq_true] at h
    exact ih h.2

theorem localsOk_append_right (a b : List Item) (h : localsOk (a ++ b) = true) : localsOk b = true := by
  unfold localsOk at *
  simp only [Bool.and_eq_true] at h ⊢
  refine ⟨?_, stmtsOk_append a b h.2⟩
  have h1 := h.1
  simp only [List.all_eq_true, List.mem_append, Bool.or_eq_true, defineNames_append, List.contains_eq_mem,
    Bool.not_eq_true', decide_eq_false_iff_not] at h1 ⊢
  intro it hit
  rcases h1 it (Or.inr hit) with h' | h'
  · exact Or.inl h'
  · exact Or.inr (fun y hy hc => h' y hy (Or.inr hc))

theorem stmtsOk_of_decls : ∀ (t : List Item), t.all (fun i => !i.isStmt) = true → stmtsOk t = true := by
  intro t
  induction t with
  | nil => intro _; rfl
  | cons it t ih =>
    intro h
    simp only [List.all_cons, Bool.and_eq_true, Bool.not_eq_true'] at h
    simp only [stmtsOk, h.1, Bool.not_false, Bool.true_or, Bool.true_and]
    exact ih (by simpa using h.2)

theorem defineNames_of_decls : ∀ (t : List Item), t.all (fun i => !i.isStmt) = true → defineNames t = [] := by
  intro t
  induction t with
  | nil => intro _; rfl
  | cons it t ih =>
    intro h
    simp only [List.all_cons, Bool.and_eq_true, Bool.not_eq_true'] at h
    have := ih (by simpa using h.2)
    cases it <;> simp_all [defineNames, Item.isStmt]

theorem localsOk_of_decls (t : List Item) (h : t.all (fun i => !i.isStmt) = true) : localsOk t = true := by
  unfold localsOk
  rw [defineNames_of_decls t h, stmtsOk_of_decls t h]
  simp

theorem noMain_lookup (fx : Facts) (st : Nat) (s : State) (items : List Item) (p2 : Nat) (h : noMain items = true) :
    lookup "main" (regItems fx st (s.c.tab, p2) items).1.syms = lookup "main" s.c.tab.syms := by
  unfold noMain at h
  simp only [List.all_eq_true, bne_iff_ne, ne_eq] at h
  exact regItems_other fx st "main" items _ (fun it hit => h it hit)

/-- a `main` declared by an earlier text does not run again: its node is not one of this chunk's -/
theorem mainCall_nil (fx : Facts) (hg : Good fx) (s : State) (hwf : WF s) (T : Tab)
    (h : lookup "main" T.syms = lookup "main" s.c.tab.syms) : mainCall fx s.c.code.length T = [] := by
  unfold mainCall
  split
  · rw [h]
    cases hl : lookup "main" s.c.tab.syms with
    | none => rfl
    | some v =>
      have := hwf.below.1 "main" v hl
      cases v <;> simp only [SymOk] at this <;> simp [hg.mainOwn, this]
  · rfl

theorem scoped_noSelf (fx : Facts) (st : Nat) (items : List Item) : ∀ p : Tab × Nat,
    scopedOk fx st p items = true → ∀ it ∈ items, noSelf it = true := by
  induction items with
  | nil => intro p _ it hit; cases hit
  | cons jt rest ih =>
    intro p h it hit
    simp only [scopedOk_cons, Bool.and_eq_true] at h
    rcases List.mem_cons.mp hit with rfl | hit
    · exact h.1.1.2
    · exact ih _ h.2 it hit

/-- an initialiser that does not mention its own variable can be typed -/
theorem no_typeLoop (fx : Facts) (st : Nat) (items : List Item) (p : Tab × Nat) (T0 : Tab)
    (h : scopedOk fx st p items = true) : items.any (typeLoop T0) = false := by
  rw [List.any_eq_false]
  intro it hit
  have := scoped_noSelf fx st items p h it hit
  cases it <;> simp_all [typeLoop, noSelf]

/-! ### the success form of a chunk -/

/-- on the domain a chunk compiles and runs: explicit form of the resulting state -/
theorem evalChunk_ok (fx : Facts) (hg : Good fx) (fuel : Nat) (mode : Mode) (s : State) (hwf : WF s) (items : List Item)
    (hs : scopedOk fx s.c.tab.nvars (s.c.tab, s.c.code.length) items = true)
    (hl : mode = .file → localsOk items = true)
    (hm : noMain items = true) (hp : phaseSortedFrom 0 items = true) :
    ∃ r, compileItems (regItems fx s.c.tab.nvars (s.c.tab, s.c.code.length) items).1 s.c.code.length items = some r ∧
      evalChunk fx fuel mode s items =
        { c := ⟨(regItems fx s.c.tab.nvars (s.c.tab, s.c.code.length) items).1, s.c.code ++ r.1⟩,
          r := execAll (s.c.code ++ r.1) fuel (s.r.resize fx (regItems fx s.c.tab.nvars (s.c.tab, s.c.code.length) items).1.nvars)
                 (r.2.map (·.2)) } := by
  obtain ⟨r, hr, _⟩ := scoped_compile fx _ items (s.c.tab, s.c.code.length) _ hs (Ext.refl _)
  refine ⟨r, hr, ?_⟩
  have hdup := (scoped_fresh fx _ items _ hs).2
  have hmain := mainCall_nil fx hg s hwf _ (noMain_lookup fx s.c.tab.nvars s items s.c.code.length hm)
  have hdeps := varDepsOk_of_scoped fx hg s hwf items hs r hr
  have hty := no_typeLoop fx _ items _ s.c.tab hs
  have hprog := progOf_of_sorted mode _ _ items r hr hp
  unfold evalChunk
  simp only [hdup, Bool.false_eq_true, if_false]
  cases mode with
  | block =>
    simp only [reduceCtorEq, decide_false, Bool.false_and, Bool.false_eq_true, if_false, hr, hmain, List.append_nil, hprog]
  | file =>
    simp only [hl rfl, hr, hdeps, hty, hmain, List.append_nil, hprog, decide_true, Bool.not_true, Bool.or_false,
      Bool.and_false, Bool.false_eq_true, if_false]

/-- a successful chunk keeps the invariant -/
theorem chunk_wf (fx : Facts) (hg : Good fx) (s : State) (items : List Item) (hwf : WF s)
    (r : List CBody × List (Nat × Act))
    (hr : compileItems (regItems fx s.c.tab.nvars (s.c.tab, s.c.code.length) items).1 s.c.code.length items = some r) :
    let T := (regItems fx s.c.tab.nvars (s.c.tab, s.c.code.length) items).1
    TabBelow (s.c.code ++ r.1).length T.nvars T ∧ codeClosed (s.c.code ++ r.1) T.nvars ∧
    (∀ a ∈ r.2, closedA (s.c.code ++ r.1).length T.nvars a.2 = true) ∧ s.c.tab.nvars ≤ T.nvars := by
  intro T
  have hlen : (s.c.code ++ r.1).length = s.c.code.length + nBodies items := by
    rw [List.length_append, compileItems_code_length _ items _ r hr]
  have hbelow := regItems_below fx hg.alloc s.c.tab.nvars items (s.c.tab, s.c.code.length) hwf.below
  rw [regItems_snd] at hbelow
  have hnv : s.c.tab.nvars ≤ T.nvars := regItems_nvars_le fx _ items (s.c.tab, s.c.code.length)
  have hcl := compileItems_closed hbelow items s.c.code.length r (Nat.le_refl _) hr
  refine ⟨by rw [hlen]; exact hbelow, ?_, by rw [hlen]; exact hcl.2, hnv⟩
  intro b hb
  rw [hlen]
  rcases List.mem_append.mp hb with hb | hb
  · exact closedB_mono (Nat.le_add_right _ _) hnv b (hwf.closed b hb)
  · exact hcl.1 b hb

/-! ### the key step -/

/-- **evaluating `t` (as a file of declarations, or as the block of statements of the synthetic
    main) and then `rest` as a file is evaluating `t ++ rest` as one file** — on the domain. -/
theorem evalChunk_append (fx : Facts) (hg : Good fx) (fuel : Nat) (m : Mode) (s : State) (t rest : List Item)
    (hwf : WF s) (hdom : Dom fx s (t ++ rest) = true)
    (hm : (m = .file ∧ t.all (fun i => !i.isStmt) = true) ∨ (m = .block ∧ t.all (·.isStmt) = true)) :
    evalChunk fx fuel .file (evalChunk fx fuel m s t) rest = evalChunk fx fuel .file s (t ++ rest)
    ∧ WF (evalChunk fx fuel m s t) ∧ Dom fx (evalChunk fx fuel m s t) rest = true := by
  unfold Dom DefBeforeUse at hdom
  simp only [Bool.and_eq_true] at hdom
  obtain ⟨⟨⟨hsc, hph⟩, hloc⟩, hnm⟩ := hdom
  rw [scopedOk_append] at hsc
  simp only [Bool.and_eq_true] at hsc
  obtain ⟨hsc1, hsc2⟩ := hsc
  obtain ⟨hph1, hph2⟩ := phaseSorted_append t rest hph
  have hnm1 : noMain t = true := by
    unfold noMain at hnm ⊢
    simp only [Bool.and_eq_true, List.all_append] at hnm ⊢
    exact hnm.1
  have hloc1 : m = .file → localsOk t = true := by
    intro hmf
    rcases hm with ⟨_, h⟩ | ⟨h, _⟩
    · exact localsOk_of_decls t h
    · rw [hmf] at h; cases h
  -- first chunk
  obtain ⟨rt, hrt, e1⟩ := evalChunk_ok fx hg fuel m s hwf t hsc1 hloc1 hnm1 hph1
  -- whole
  have hscW : scopedOk fx s.c.tab.nvars (s.c.tab, s.c.code.length) (t ++ rest) = true := by
    rw [scopedOk_append]; simp [hsc1, hsc2]
  obtain ⟨rw_, hrw, eW⟩ := evalChunk_ok fx hg fuel .file s hwf (t ++ rest) hscW (fun _ => hloc) hnm hph
  -- names for the pieces
  have hp1snd : (regItems fx s.c.tab.nvars (s.c.tab, s.c.code.length) t).2 = s.c.code.length + nBodies t := regItems_snd ..
  have hcl1 := compileItems_code_length _ t _ rt hrt
  have hlen1 : (s.c.code ++ rt.1).length = s.c.code.length + nBodies t := by rw [List.length_append, hcl1]
  -- the state after the first chunk
  have hc1 : (evalChunk fx fuel m s t).c = ⟨(regItems fx s.c.tab.nvars (s.c.tab, s.c.code.length) t).1, s.c.code ++ rt.1⟩ := by rw [e1]
  have hreg2 : regItems fx (evalChunk fx fuel m s t).c.tab.nvars ((evalChunk fx fuel m s t).c.tab, (evalChunk fx fuel m s t).c.code.length) rest
      = regItems fx s.c.tab.nvars (s.c.tab, s.c.code.length) (t ++ rest) := by
    rw [hc1, regItems_append]
    simp only
    rw [hlen1, ← hp1snd, regItems_start fx hg.alloc _ s.c.tab.nvars]
  have hwf1parts := chunk_wf fx hg s t hwf rt hrt
  obtain ⟨hb1, hcc1, hac1, hnv1⟩ := hwf1parts
  have hr0len : (s.r.resize fx (regItems fx s.c.tab.nvars (s.c.tab, s.c.code.length) t).1.nvars).cells.length
      = (regItems fx s.c.tab.nvars (s.c.tab, s.c.code.length) t).1.nvars :=
    resize_len fx hg.copy s.r _ (by rw [hwf.cells]; exact hnv1)
  have hWF1 : WF (evalChunk fx fuel m s t) := by
    rw [e1]
    exact ⟨hb1, hcc1, by simp only; rw [execAll_len, hr0len]⟩
  -- domain of the rest
  have hsc2' : scopedOk fx (evalChunk fx fuel m s t).c.tab.nvars ((evalChunk fx fuel m s t).c.tab, (evalChunk fx fuel m s t).c.code.length) rest = true := by
    rw [hc1]
    simp only
    rw [hlen1, ← hp1snd, scopedOk_start fx hg.alloc _ s.c.tab.nvars]
    exact hsc2
  have hnm2 : noMain rest = true := by
    unfold noMain at hnm ⊢
    simp only [Bool.and_eq_true, List.all_append] at hnm ⊢
    exact hnm.2
  have hloc2 := localsOk_append_right t rest hloc
  have hDom2 : Dom fx (evalChunk fx fuel m s t) rest = true := by
    unfold Dom DefBeforeUse
    simp only [Bool.and_eq_true]
    exact ⟨⟨⟨hsc2', hph2⟩, hloc2⟩, hnm2⟩
  refine ⟨?_, hWF1, hDom2⟩
  -- second chunk
  obtain ⟨rr, hrr, e2⟩ := evalChunk_ok fx hg fuel .file (evalChunk fx fuel m s t) hWF1 rest hsc2' (fun _ => hloc2) hnm2 hph2
  rw [e2, eW]
  rw [hreg2] at hrr ⊢
  -- the whole compiles to the concatenation
  have hrr' : compileItems (regItems fx s.c.tab.nvars (s.c.tab, s.c.code.length) (t ++ rest)).1 (s.c.code.length + nBodies t) rest = some rr := by
    rw [hc1] at hrr; simp only at hrr; rw [hlen1] at hrr; exact hrr
  have hext12 : Ext (regItems fx s.c.tab.nvars (s.c.tab, s.c.code.length) t).1 (regItems fx s.c.tab.nvars (s.c.tab, s.c.code.length) (t ++ rest)).1 := by
    rw [regItems_append]
    exact regItems_ext fx _ rest _ hsc2
  obtain ⟨rt', hrt'a, hrt'b⟩ := scoped_compile fx _ t (s.c.tab, s.c.code.length) _ hsc1 hext12
  have hrteq : rt' = rt := by rw [hrt] at hrt'b; exact (Option.some.inj hrt'b).symm
  subst hrteq
  have hcat := compileItems_append _ t rest s.c.code.length rt' rr hrt'a hrr'
  rw [hrw] at hcat
  have hrweq : rw_ = (rt'.1 ++ rr.1, rt'.2 ++ rr.2) := Option.some.inj hcat
  subst hrweq
  -- compile-time parts agree; run-time parts
  simp only [hc1, List.append_assoc, List.map_append]
  congr 1
  rw [execAll_append]
  congr 1
  -- frame extension
  have hnv12 : (regItems fx s.c.tab.nvars (s.c.tab, s.c.code.length) t).1.nvars
      ≤ (regItems fx s.c.tab.nvars (s.c.tab, s.c.code.length) (t ++ rest)).1.nvars := by
    rw [regItems_append]; exact regItems_nvars_le ..
  rw [e1]
  simp only
  rw [resize_ext fx hg.copy s.r _ _ (by rw [hwf.cells]; exact hnv1) hnv12]
  rw [← List.append_assoc]
  rw [execAll_ext (s.c.code ++ rt'.1) rr.1 _ _ hcc1 fuel (rt'.2.map (·.2)) _ hr0len
    (by intro a ha; obtain ⟨b, hb, rfl⟩ := List.mem_map.mp ha; exact hac1 b hb)]
  rw [resize_of_len fx hg.copy _ _ _ (by rw [execAll_len, hr0len]) hnv12]

end YaegiVerif.Proofs.C11
