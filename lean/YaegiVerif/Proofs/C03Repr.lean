import YaegiVerif.Model.Const
import YaegiVerif.Spec.GoConst
import YaegiVerif.Expected.C03
/- helper lemmas for the representability theorems of C03 -/
namespace YaegiVerif.Proofs.C03
open YaegiVerif.Const

theorem bitLen_le_iff (v : Int) (b : Nat) : bitLen v ≤ b ↔ v.natAbs < 2 ^ b := by
  unfold bitLen
  by_cases h : v = 0
  · subst h; simp; exact Nat.pow_pos (by decide)
  · simp only [h, if_false]
    have hn : v.natAbs ≠ 0 := by simpa using h
    rw [← Nat.log2_lt hn]; omega

theorem decide_bitLen (v : Int) (b : Nat) : decide (bitLen v ≤ b) = decide (v.natAbs < 2 ^ b) :=
  decide_eq_decide.mpr (bitLen_le_iff v b)

open YaegiVerif.Expected.C03 in
/-- the three table look-ups of the expected facts, per kind -/
theorem facts_of (k : IKind) :
    reprFacts.preOf k = (if k.signed then .int64Val else .uint64Val) ∧ reprFacts.bitlenOf k = k.bits ∧
    reprFacts.cmp = .le := by
  cases k <;> decide

/-- propositional reading of `reprY` for the expected facts -/
theorem reprY_iff (k : IKind) (v : Int) :
    reprY Expected.C03.reprFacts k v = true ↔
      (if k.signed then -(2 ^ 63 : Int) ≤ v ∧ v < 2 ^ 63 else 0 ≤ v ∧ v < 2 ^ 64) ∧ v.natAbs < 2 ^ k.bits := by
  obtain ⟨h1, h2, h3⟩ := facts_of k
  unfold reprY
  rw [h1, h2, h3]
  cases hs : k.signed <;>
    simp only [int64Ok, uint64Ok, Bool.and_eq_true, decide_eq_true_eq, bitLen_le_iff, if_true, if_false,
      Bool.false_eq_true]

theorem reprGo_iff (k : IKind) (v : Int) : Spec.reprGo k v = true ↔ k.minVal ≤ v ∧ v ≤ k.maxVal := by
  simp only [Spec.reprGo, Bool.and_eq_true, decide_eq_true_eq]

theorem reprFixed_iff (k : IKind) (v : Int) :
    reprFixed Expected.C03.reprFacts k v = true ↔
      (if k.signed then (-(2 ^ 63 : Int) ≤ v ∧ v < 2 ^ 63) ∧ -(2 ^ (k.bits - 1) : Int) ≤ v ∧ v ≤ (2 ^ (k.bits - 1) : Int) - 1
       else (0 ≤ v ∧ v < 2 ^ 64) ∧ v.natAbs < 2 ^ k.bits) := by
  obtain ⟨h1, h2, _⟩ := facts_of k
  unfold reprFixed
  rw [h1, h2]
  cases hs : k.signed <;>
    simp only [int64Ok, uint64Ok, Bool.and_eq_true, decide_eq_true_eq, bitLen_le_iff, if_true, if_false,
      Bool.false_eq_true, and_assoc]

theorem inSignedGap_iff (k : IKind) (v : Int) :
    inSignedGap k v = true ↔
      (k.signed = true ∧ (-(2 ^ 63 : Int) ≤ v ∧ v < 2 ^ 63)) ∧
        ((k.maxVal < v ∧ v < (2 ^ k.bits : Int)) ∨ (-(2 ^ k.bits : Int) < v ∧ v < k.minVal)) := by
  simp only [inSignedGap, int64Ok, Bool.and_eq_true, Bool.or_eq_true, decide_eq_true_eq]

end YaegiVerif.Proofs.C03
