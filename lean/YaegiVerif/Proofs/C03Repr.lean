import YaegiVerif.Model.Const
import YaegiVerif.Spec.GoConst
import YaegiVerif.Expected.C03
/- helper lemmas for the representability theorems of C03 -/
namespace YaegiVerif.Proofs.C03
open YaegiVerif.Const

theorem bitLen_le_iff (v : Int) (b : Nat) : bitLen v ≤ b ↔ v.natAbs < 2 ^ b := by
  unfold bitLen
  by_cases h : v = 0
  · subst h; simp; exact Nat.pow_pos (by decide)
  · simp only [h, if_false]
    have hn : v.natAbs ≠ 0 := by simpa using h
    rw [← Nat.log2_lt hn]; omega

theorem decide_bitLen (v : Int) (b : Nat) : decide (bitLen v ≤ b) = decide (v.natAbs < 2 ^ b) :=
  decide_eq_decide.mpr (bitLen_le_iff v b)

open YaegiVerif.Expected.C03 in
/-- the table look-ups of the expected facts, per kind -/
theorem facts_of (k : IKind) :
    reprFacts.preOf k = (if k.signed then .int64Range else .uint64Val) ∧ reprFacts.bitlenOf k = k.bits ∧
    reprFacts.cmp = .le ∧ reprFacts.lo = .le ∧ reprFacts.hi = .le := by
  cases k <;> decide

open YaegiVerif.Expected.C03 in
/-- the same for the code before the repair -/
theorem factsBefore_of (k : IKind) :
    reprFactsBefore.preOf k = (if k.signed then .int64Val else .uint64Val) ∧ reprFactsBefore.bitlenOf k = k.bits ∧
    reprFactsBefore.cmp = .le := by
  cases k <;> decide

/-- the two bounds of the range test, computed with Go's int64 wrap-around (`1<<63` wraps to the minimum and
    `- 1` wraps back to the maximum for the 64-bit kinds), are the bounds of the type -/
theorem range_consts (k : IKind) (hk : k.signed = true) :
    shl64 (-1) (uintPred k.bits) = -(2 ^ (k.bits - 1) : Int) ∧
    wrap64 (shl64 1 (uintPred k.bits) - 1) = (2 ^ (k.bits - 1) : Int) - 1 := by
  cases k <;> first
    | (exfalso; revert hk; decide)
    | decide

/-- propositional reading of `reprY` for the expected facts -/
theorem reprY_iff (k : IKind) (v : Int) :
    reprY Expected.C03.reprFacts k v = true ↔
      (if k.signed then (-(2 ^ 63 : Int) ≤ v ∧ v < 2 ^ 63) ∧ -(2 ^ (k.bits - 1) : Int) ≤ v ∧ v ≤ (2 ^ (k.bits - 1) : Int) - 1
       else (0 ≤ v ∧ v < 2 ^ 64) ∧ v.natAbs < 2 ^ k.bits) := by
  obtain ⟨h1, h2, h3, h4, h5⟩ := facts_of k
  unfold reprY
  rw [h1]
  cases hs : k.signed
  · simp only [bitLenTest, h2, h3, uint64Ok, Bool.and_eq_true, decide_eq_true_eq, bitLen_le_iff, if_false,
      Bool.false_eq_true]
  · obtain ⟨c1, c2⟩ := range_consts k hs
    simp only [rangeTest, h2, h4, h5, c1, c2, Cmp.test, int64Ok, Bool.and_eq_true, decide_eq_true_eq, if_true]

/-- propositional reading of `reprY` for the code before the repair: the 64-bit guard and `|v| < 2^bits` -/
theorem reprYBefore_iff (k : IKind) (v : Int) :
    reprY Expected.C03.reprFactsBefore k v = true ↔
      (if k.signed then -(2 ^ 63 : Int) ≤ v ∧ v < 2 ^ 63 else 0 ≤ v ∧ v < 2 ^ 64) ∧ v.natAbs < 2 ^ k.bits := by
  obtain ⟨h1, h2, h3⟩ := factsBefore_of k
  unfold reprY
  rw [h1]
  cases hs : k.signed <;>
    simp only [bitLenTest, h2, h3, int64Ok, uint64Ok, Bool.and_eq_true, decide_eq_true_eq, bitLen_le_iff, if_true,
      if_false, Bool.false_eq_true]

theorem reprGo_iff (k : IKind) (v : Int) : Spec.reprGo k v = true ↔ k.minVal ≤ v ∧ v ≤ k.maxVal := by
  simp only [Spec.reprGo, Bool.and_eq_true, decide_eq_true_eq]

theorem inSignedGap_iff (k : IKind) (v : Int) :
    inSignedGap k v = true ↔
      (k.signed = true ∧ (-(2 ^ 63 : Int) ≤ v ∧ v < 2 ^ 63)) ∧
        ((k.maxVal < v ∧ v < (2 ^ k.bits : Int)) ∨ (-(2 ^ k.bits : Int) < v ∧ v < k.minVal)) := by
  simp only [inSignedGap, int64Ok, Bool.and_eq_true, Bool.or_eq_true, decide_eq_true_eq]

end YaegiVerif.Proofs.C03
