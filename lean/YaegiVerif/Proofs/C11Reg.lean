import YaegiVerif.Proofs.C11Resolve
/-
  C11, helper lemmas 3: registration of a chunk's declarations (gta) and compilation of its items.
-/
namespace YaegiVerif.Proofs.C11
open YaegiVerif.Piecewise

/-! ### association lists -/

theorem lookup_cons {α β : Type} [DecidableEq α] (k x : α) (v : β) (l : List (α × β)) :
    lookup x ((k, v) :: l) = if k = x then some v else lookup x l := rfl

theorem lookup_append_some {α β : Type} [DecidableEq α] (x : α) (v : β) : ∀ (l m : List (α × β)),
    lookup x l = some v → lookup x (l ++ m) = some v := by
  intro l
  induction l with
  | nil => intro m h; simp [lookup] at h
  | cons kv l ih =>
    intro m h
    obtain ⟨k, w⟩ := kv
    simp only [List.cons_append, lookup_cons] at h ⊢
    split
    · rename_i hk; simpa [hk] using h
    · rename_i hk; exact ih m (by simpa [hk] using h)

theorem lookup_append_none {α β : Type} [DecidableEq α] (x : α) : ∀ (l m : List (α × β)),
    lookup x l = none → lookup x (l ++ m) = lookup x m := by
  intro l
  induction l with
  | nil => intro m _; rfl
  | cons kv l ih =>
    intro m h
    obtain ⟨k, w⟩ := kv
    simp only [List.cons_append, lookup_cons] at h ⊢
    split
    · rename_i hk; simp [hk] at h
    · rename_i hk; exact ih m (by simpa [hk] using h)

/-! ### one item -/

def nBodies : List Item → Nat
  | [] => 0
  | it :: rest => (if it.hasBody then 1 else 0) + nBodies rest

theorem nBodies_append (a b : List Item) : nBodies (a ++ b) = nBodies a + nBodies b := by
  induction a with
  | nil => simp [nBodies]
  | cons it a ih => simp [nBodies, ih]; omega

theorem regItem_snd (fx : Facts) (st : Nat) (p : Tab × Nat) (it : Item) :
    (regItem fx st p it).2 = if it.hasBody then p.2 + 1 else p.2 := by
  cases it <;> simp [regItem, Item.hasBody]

theorem regItem_nvars_le (fx : Facts) (st : Nat) (p : Tab × Nat) (it : Item) :
    p.1.nvars ≤ (regItem fx st p it).1.nvars := by
  cases it <;> simp [regItem]
  case func f b => split <;> simp

/-- with `index = len(types)` the index does not depend on where the chunk started -/
theorem regItem_start (fx : Facts) (h : fx.allocAtEnd = true) (st st' : Nat) (p : Tab × Nat) (it : Item) :
    regItem fx st p it = regItem fx st' p it := by
  cases it <;> simp [regItem, allocIdx, h]

theorem regItems_start (fx : Facts) (h : fx.allocAtEnd = true) (st st' : Nat) (items : List Item) :
    ∀ p : Tab × Nat, regItems fx st p items = regItems fx st' p items := by
  induction items with
  | nil => intro p; rfl
  | cons it rest ih =>
    intro p
    simp only [regItems, List.foldl_cons] at *
    rw [regItem_start fx h st st' p it]
    exact ih _

theorem regItems_cons (fx : Facts) (st : Nat) (p : Tab × Nat) (it : Item) (rest : List Item) :
    regItems fx st p (it :: rest) = regItems fx st (regItem fx st p it) rest := rfl

theorem regItems_append (fx : Facts) (st : Nat) (p : Tab × Nat) (a b : List Item) :
    regItems fx st p (a ++ b) = regItems fx st (regItems fx st p a) b := by
  simp [regItems, List.foldl_append]

theorem regItems_snd (fx : Facts) (st : Nat) (items : List Item) : ∀ p : Tab × Nat,
    (regItems fx st p items).2 = p.2 + nBodies items := by
  induction items with
  | nil => intro p; simp [regItems, nBodies]
  | cons it rest ih =>
    intro p
    rw [regItems_cons, ih, regItem_snd]
    simp only [nBodies]
    split <;> omega

theorem regItems_nvars_le (fx : Facts) (st : Nat) (items : List Item) : ∀ p : Tab × Nat,
    p.1.nvars ≤ (regItems fx st p items).1.nvars := by
  induction items with
  | nil => intro p; exact Nat.le_refl _
  | cons it rest ih =>
    intro p
    rw [regItems_cons]
    exact Nat.le_trans (regItem_nvars_le fx st p it) (ih _)

/-- registering a fresh name extends the scope -/
theorem regItem_ext (fx : Facts) (st : Nat) (p : Tab × Nat) (it : Item) (hf : freshItem p.1 it = true) :
    Ext p.1 (regItem fx st p it).1 := by
  have cons_ext : ∀ (x : Name) (v : Sym), lookup x p.1.syms = none →
      ∀ y w, lookup y p.1.syms = some w → lookup y ((x, v) :: p.1.syms) = some w := by
    intro x v hx y w hy
    rw [lookup_cons]
    split
    · rename_i hk; subst hk; rw [hx] at hy; cases hy
    · exact hy
  cases it with
  | const x e last =>
    simp only [freshItem, Item.declName, Option.isNone_iff_eq_none] at hf
    exact ⟨cons_ext x _ hf, fun _ _ h => h⟩
  | var x e =>
    simp only [freshItem, Item.declName, Option.isNone_iff_eq_none] at hf
    exact ⟨cons_ext x _ hf, fun _ _ h => h⟩
  | define x e =>
    simp only [freshItem, Item.declName, Option.isNone_iff_eq_none] at hf
    exact ⟨cons_ext x _ hf, fun _ _ h => h⟩
  | closure x b =>
    simp only [freshItem, Item.declName, Option.isNone_iff_eq_none] at hf
    exact ⟨cons_ext x _ hf, fun _ _ h => h⟩
  | func f b =>
    simp only [freshItem, Item.declName, Option.isNone_iff_eq_none] at hf
    simp only [regItem, hf, Option.isNone_none, Bool.or_true, if_true]
    exact ⟨cons_ext f _ hf, fun _ _ h => h⟩
  | type t =>
    simp only [freshItem, Item.declName, Option.isNone_iff_eq_none] at hf
    exact ⟨cons_ext t _ hf, fun _ _ h => h⟩
  | method t m b =>
    simp only [freshItem, Option.isNone_iff_eq_none] at hf
    simp only [regItem, hf, Option.isSome_none]
    exact ⟨fun _ _ h => h, fun k v h => lookup_append_some k v _ _ h⟩
  | init b => exact Ext.refl _
  | stmt s => exact Ext.refl _

/-- registration keeps every binding below the next identity and the next index -/
theorem regItem_below (fx : Facts) (ha : fx.allocAtEnd = true) (st : Nat) (p : Tab × Nat) (it : Item)
    (h : TabBelow p.2 p.1.nvars p.1) :
    TabBelow (regItem fx st p it).2 (regItem fx st p it).1.nvars (regItem fx st p it).1 := by
  have cons_below : ∀ (nf nv : Nat) (x : Name) (v : Sym), p.2 ≤ nf → p.1.nvars ≤ nv → SymOk nf nv v →
      ∀ y w, lookup y ((x, v) :: p.1.syms) = some w → SymOk nf nv w := by
    intro nf nv x v h1 h2 hv y w hy
    rw [lookup_cons] at hy
    split at hy
    · cases hy; exact hv
    · exact SymOk_mono h1 h2 w (h.1 y w hy)
  cases it with
  | const x e last =>
    exact ⟨cons_below _ _ x _ (Nat.le_refl _) (Nat.le_refl _) (by simp [SymOk]), h.2⟩
  | var x e =>
    refine ⟨cons_below _ _ x _ (Nat.le_refl _) (Nat.le_succ _) ?_, h.2⟩
    simp [SymOk, allocIdx, ha, regItem]
  | define x e =>
    refine ⟨cons_below _ _ x _ (Nat.le_refl _) (Nat.le_succ _) ?_, h.2⟩
    simp [SymOk, allocIdx, ha, regItem]
  | closure x b =>
    refine ⟨cons_below _ _ x _ (Nat.le_succ _) (Nat.le_succ _) ?_, fun k f hl => Nat.lt_succ_of_lt (h.2 k f hl)⟩
    simp [SymOk, allocIdx, ha, regItem]
  | func f b =>
    simp only [regItem]
    split
    · refine ⟨cons_below _ _ f _ (Nat.le_succ _) (Nat.le_refl _) ?_, fun k f hl => Nat.lt_succ_of_lt (h.2 k f hl)⟩
      simp [SymOk]
    · exact TabBelow_mono (Nat.le_succ _) (Nat.le_refl _) h
  | type t =>
    exact ⟨cons_below _ _ t _ (Nat.le_refl _) (Nat.le_refl _) (by simp [SymOk]), h.2⟩
  | method t m b =>
    simp only [regItem]
    refine ⟨fun x v hl => SymOk_mono (Nat.le_succ _) (Nat.le_refl _) v (h.1 x v hl), ?_⟩
    intro k f hl
    split at hl
    · split at hl
      · rw [lookup_cons] at hl
        split at hl
        · cases hl; exact Nat.lt_succ_self _
        · exact Nat.lt_succ_of_lt (h.2 k f hl)
      · exact Nat.lt_succ_of_lt (h.2 k f hl)
    · cases hk : lookup k p.1.meths with
      | some w =>
        rw [lookup_append_some k w _ _ hk] at hl
        have hw : w = f := by simpa using hl
        subst hw
        exact Nat.lt_succ_of_lt (h.2 k w hk)
      | none =>
        rw [lookup_append_none k _ _ hk, lookup_cons] at hl
        split at hl
        · cases hl; exact Nat.lt_succ_self _
        · simp [lookup] at hl
  | init b => exact TabBelow_mono (Nat.le_succ _) (Nat.le_refl _) h
  | stmt s => exact h

theorem regItems_below (fx : Facts) (ha : fx.allocAtEnd = true) (st : Nat) (items : List Item) : ∀ p : Tab × Nat,
    TabBelow p.2 p.1.nvars p.1 →
    TabBelow (regItems fx st p items).2 (regItems fx st p items).1.nvars (regItems fx st p items).1 := by
  induction items with
  | nil => intro p h; exact h
  | cons it rest ih =>
    intro p h
    rw [regItems_cons]
    exact ih _ (regItem_below fx ha st p it h)

/-- a registered name stays bound -/
theorem regItem_keeps (fx : Facts) (st : Nat) (p : Tab × Nat) (it : Item) (y : Name)
    (h : (lookup y p.1.syms).isSome = true) : (lookup y (regItem fx st p it).1.syms).isSome = true := by
  have cons_keeps : ∀ (x : Name) (v : Sym), (lookup y ((x, v) :: p.1.syms)).isSome = true := by
    intro x v
    rw [lookup_cons]
    split
    · rfl
    · exact h
  cases it with
  | const x e last => exact cons_keeps x _
  | var x e => exact cons_keeps x _
  | define x e => exact cons_keeps x _
  | closure x b => exact cons_keeps x _
  | func f b =>
    simp only [regItem]
    split
    · exact cons_keeps f _
    · exact h
  | type t => exact cons_keeps t _
  | method t m b => exact h
  | init b => exact h
  | stmt s => exact h

/-- the declared name is bound afterwards -/
theorem regItem_binds (fx : Facts) (st : Nat) (p : Tab × Nat) (it : Item) (x : Name)
    (hd : it.declName = some x) : (lookup x (regItem fx st p it).1.syms).isSome = true := by
  cases it with
  | const y e last => simp only [Item.declName, Option.some.injEq] at hd; subst hd; simp [regItem, lookup_cons]
  | var y e => simp only [Item.declName, Option.some.injEq] at hd; subst hd; simp [regItem, lookup_cons]
  | define y e => simp only [Item.declName, Option.some.injEq] at hd; subst hd; simp [regItem, lookup_cons]
  | closure y b => simp only [Item.declName, Option.some.injEq] at hd; subst hd; simp [regItem, lookup_cons]
  | func f b =>
    simp only [Item.declName, Option.some.injEq] at hd; subst hd
    simp only [regItem]
    split
    · simp [lookup_cons]
    · rename_i hc
      simp only [Bool.or_eq_true, Option.isNone_iff_eq_none, not_or] at hc
      cases hl : lookup f p.1.syms with
      | none => exact absurd hl hc.2
      | some v => rfl
  | type t => simp only [Item.declName, Option.some.injEq] at hd; subst hd; simp [regItem, lookup_cons]
  | method t m b => simp [Item.declName] at hd
  | init b => simp [Item.declName] at hd
  | stmt s => simp [Item.declName] at hd

/-- only the declared name changes -/
theorem regItem_other (fx : Facts) (st : Nat) (p : Tab × Nat) (it : Item) (y : Name)
    (hd : it.declName ≠ some y) : lookup y (regItem fx st p it).1.syms = lookup y p.1.syms := by
  have cons_other : ∀ (x : Name) (v : Sym), x ≠ y → lookup y ((x, v) :: p.1.syms) = lookup y p.1.syms := by
    intro x v hx
    rw [lookup_cons]
    simp [hx]
  cases it with
  | const x e last => exact cons_other x _ (by simpa [Item.declName] using hd)
  | var x e => exact cons_other x _ (by simpa [Item.declName] using hd)
  | define x e => exact cons_other x _ (by simpa [Item.declName] using hd)
  | closure x b => exact cons_other x _ (by simpa [Item.declName] using hd)
  | func f b =>
    simp only [regItem]
    split
    · exact cons_other f _ (by simpa [Item.declName] using hd)
    · rfl
  | type t => exact cons_other t _ (by simpa [Item.declName] using hd)
  | method t m b => rfl
  | init b => rfl
  | stmt s => rfl

theorem regItems_other (fx : Facts) (st : Nat) (y : Name) (items : List Item) : ∀ p : Tab × Nat,
    (∀ it ∈ items, it.declName ≠ some y) → lookup y (regItems fx st p items).1.syms = lookup y p.1.syms := by
  induction items with
  | nil => intro p _; rfl
  | cons it rest ih =>
    intro p h
    rw [regItems_cons, ih _ (fun jt hj => h jt (List.mem_cons_of_mem _ hj)), regItem_other fx st p it y (h it (List.mem_cons_self ..))]

/-! ### definition before use -/

theorem scopedOk_cons (fx : Facts) (st : Nat) (p : Tab × Nat) (it : Item) (rest : List Item) :
    scopedOk fx st p (it :: rest) =
      (freshItem p.1 it && noSelf it && (compileItem (regItem fx st p it).1 p.2 it).isSome
        && scopedOk fx st (regItem fx st p it) rest) := rfl

theorem scopedOk_append (fx : Facts) (st : Nat) (a b : List Item) : ∀ p : Tab × Nat,
    scopedOk fx st p (a ++ b) = (scopedOk fx st p a && scopedOk fx st (regItems fx st p a) b) := by
  induction a with
  | nil => intro p; simp [scopedOk, regItems]
  | cons it a ih =>
    intro p
    simp only [List.cons_append, scopedOk_cons, regItems_cons, ih, Bool.and_assoc]

theorem scopedOk_start (fx : Facts) (h : fx.allocAtEnd = true) (st st' : Nat) (items : List Item) : ∀ p : Tab × Nat,
    scopedOk fx st p items = scopedOk fx st' p items := by
  induction items with
  | nil => intro p; rfl
  | cons it rest ih =>
    intro p
    simp only [scopedOk_cons, regItem_start fx h st st' p it, ih]

/-- under definition-before-use the scope only grows -/
theorem regItems_ext (fx : Facts) (st : Nat) (items : List Item) : ∀ p : Tab × Nat,
    scopedOk fx st p items = true → Ext p.1 (regItems fx st p items).1 := by
  induction items with
  | nil => intro p _; exact Ext.refl _
  | cons it rest ih =>
    intro p h
    simp only [scopedOk_cons, Bool.and_eq_true] at h
    rw [regItems_cons]
    exact Ext.trans (regItem_ext fx st p it h.1.1.1) (ih _ h.2)

/-! ### compiling the items of a chunk -/

theorem compileItems_cons (T : Tab) (nf : Nat) (it : Item) (rest : List Item) :
    compileItems T nf (it :: rest) =
      match compileItem T nf it, compileItems T (if it.hasBody then nf + 1 else nf) rest with
      | some (c1, a1), some (c2, a2) => some (c1 ++ c2, a1 ++ a2)
      | _, _ => none := rfl

theorem compileItems_append (T : Tab) (a b : List Item) : ∀ (nf : Nat) (ra rb : List CBody × List (Nat × Act)),
    compileItems T nf a = some ra → compileItems T (nf + nBodies a) b = some rb →
    compileItems T nf (a ++ b) = some (ra.1 ++ rb.1, ra.2 ++ rb.2) := by
  induction a with
  | nil =>
    intro nf ra rb h1 h2
    simp only [compileItems, Option.some.injEq] at h1
    subst h1
    simpa [nBodies] using h2
  | cons it a ih =>
    intro nf ra rb h1 h2
    rw [compileItems_cons] at h1
    simp only [List.cons_append, compileItems_cons]
    cases hc : compileItem T nf it with
    | none => simp [hc] at h1
    | some r1 =>
      cases hr : compileItems T (if it.hasBody then nf + 1 else nf) a with
      | none => simp [hc, hr] at h1
      | some r2 =>
        simp only [hc, hr, Option.some.injEq] at h1
        subst h1
        have h2' : compileItems T ((if it.hasBody then nf + 1 else nf) + nBodies a) b = some rb := by
          have : (if it.hasBody then nf + 1 else nf) + nBodies a = nf + nBodies (it :: a) := by
            simp only [nBodies]; split <;> omega
          rw [this]; exact h2
        rw [ih _ r2 rb hr h2']
        simp [List.append_assoc]

/-- a chunk that compiles as a whole compiles in two halves -/
theorem compileItems_split (T : Tab) (a b : List Item) : ∀ (nf : Nat) (r : List CBody × List (Nat × Act)),
    compileItems T nf (a ++ b) = some r →
    ∃ ra rb, compileItems T nf a = some ra ∧ compileItems T (nf + nBodies a) b = some rb ∧ r = (ra.1 ++ rb.1, ra.2 ++ rb.2) := by
  induction a with
  | nil =>
    intro nf r h
    exact ⟨([], []), r, rfl, by simpa [nBodies] using h, by simp⟩
  | cons it a ih =>
    intro nf r h
    simp only [List.cons_append, compileItems_cons] at h
    cases hc : compileItem T nf it with
    | none => simp [hc] at h
    | some r1 =>
      cases hr : compileItems T (if it.hasBody then nf + 1 else nf) (a ++ b) with
      | none => simp [hc, hr] at h
      | some r2 =>
        simp only [hc, hr, Option.some.injEq] at h
        obtain ⟨ra, rb, h1, h2, h3⟩ := ih _ r2 hr
        refine ⟨(r1.1 ++ ra.1, r1.2 ++ ra.2), rb, ?_, ?_, ?_⟩
        · rw [compileItems_cons, hc, h1]
        · have : (if it.hasBody then nf + 1 else nf) + nBodies a = nf + nBodies (it :: a) := by
            simp only [nBodies]; split <;> omega
          rw [← this]; exact h2
        · subst h; subst h3; simp [List.append_assoc]

theorem compileItem_code_length (T : Tab) (nf : Nat) (it : Item) (r : List CBody × List (Nat × Act))
    (h : compileItem T nf it = some r) : r.1.length = if it.hasBody then 1 else 0 := by
  cases it with
  | const x e last =>
    simp only [compileItem] at h
    split at h <;> simp at h
    subst h; rfl
  | var x e =>
    simp only [compileItem] at h
    split at h <;> simp at h
    subst h; rfl
  | define x e =>
    simp only [compileItem] at h
    split at h <;> simp at h
    subst h; rfl
  | closure x b =>
    simp only [compileItem] at h
    split at h <;> simp at h
    subst h; rfl
  | func f b =>
    simp only [compileItem, Option.map_eq_some_iff] at h
    obtain ⟨b', _, rfl⟩ := h; rfl
  | type t => simp only [compileItem, Option.some.injEq] at h; subst h; rfl
  | method t m b =>
    simp only [compileItem] at h
    split at h <;> simp at h
    subst h; rfl
  | init b =>
    simp only [compileItem, Option.map_eq_some_iff] at h
    obtain ⟨b', _, rfl⟩ := h; rfl
  | stmt s =>
    simp only [compileItem, Option.map_eq_some_iff] at h
    obtain ⟨s', _, rfl⟩ := h; rfl

theorem compileItems_code_length (T : Tab) (items : List Item) : ∀ (nf : Nat) (r : List CBody × List (Nat × Act)),
    compileItems T nf items = some r → r.1.length = nBodies items := by
  induction items with
  | nil => intro nf r h; simp only [compileItems, Option.some.injEq] at h; subst h; rfl
  | cons it rest ih =>
    intro nf r h
    rw [compileItems_cons] at h
    cases hc : compileItem T nf it with
    | none => simp [hc] at h
    | some r1 =>
      cases hr : compileItems T (if it.hasBody then nf + 1 else nf) rest with
      | none => simp [hc, hr] at h
      | some r2 =>
        simp only [hc, hr, Option.some.injEq] at h
        subst h
        simp only [List.length_append, nBodies, compileItem_code_length T nf it r1 hc, ih _ r2 hr]

/-- what one item compiles to is closed below the final bounds -/
theorem compileItem_closed {F nv : Nat} {T : Tab} (hT : TabBelow F nv T) (nf : Nat) (it : Item)
    (hnf : it.hasBody = true → nf < F) (r : List CBody × List (Nat × Act)) (h : compileItem T nf it = some r) :
    (∀ b ∈ r.1, closedB F nv b = true) ∧ (∀ a ∈ r.2, closedA F nv a.2 = true) := by
  cases it with
  | const x e last =>
    simp only [compileItem] at h
    split at h <;> simp at h
    subst h; simp
  | var x e =>
    simp only [compileItem] at h
    cases hl : lookup x T.syms with
    | none => simp [hl] at h
    | some v =>
      cases he : resolveE T e with
      | none => cases v <;> simp [hl, he] at h
      | some e' =>
        have hv := hT.1 x v hl
        cases v <;> simp [hl, he] at h
        subst h
        simp only [SymOk] at hv
        simp [closedA, hv, resolveE_closed hT e e' he]
  | define x e =>
    simp only [compileItem] at h
    cases hl : lookup x T.syms with
    | none => simp [hl] at h
    | some v =>
      cases he : resolveE T e with
      | none => cases v <;> simp [hl, he] at h
      | some e' =>
        have hv := hT.1 x v hl
        cases v <;> simp [hl, he] at h
        subst h
        simp only [SymOk] at hv
        simp [closedA, hv, resolveE_closed hT e e' he]
  | closure x b =>
    simp only [compileItem] at h
    cases hl : lookup x T.syms with
    | none => simp [hl] at h
    | some v =>
      cases hb : resolveB T b with
      | none => cases v <;> simp [hl, hb] at h
      | some b' =>
        have hv := hT.1 x v hl
        cases v <;> simp [hl, hb] at h
        subst h
        simp only [SymOk] at hv
        simp [closedA, hv.1, resolveB_closed hT b b' hb, hnf (by rfl)]
  | func f b =>
    simp only [compileItem, Option.map_eq_some_iff] at h
    obtain ⟨b', hb, rfl⟩ := h
    simp [resolveB_closed hT b b' hb]
  | type t => simp only [compileItem, Option.some.injEq] at h; subst h; simp
  | method t m b =>
    simp only [compileItem] at h
    cases hl : lookup t T.syms with
    | none => simp [hl] at h
    | some v =>
      cases hb : resolveB T b with
      | none => cases v <;> simp [hl, hb] at h
      | some b' =>
        cases v <;> simp [hl, hb] at h
        subst h
        simp [resolveB_closed hT b b' hb]
  | init b =>
    simp only [compileItem, Option.map_eq_some_iff] at h
    obtain ⟨b', hb, rfl⟩ := h
    simp [resolveB_closed hT b b' hb, closedA, hnf (by rfl)]
  | stmt s =>
    simp only [compileItem, Option.map_eq_some_iff] at h
    obtain ⟨s', hs, rfl⟩ := h
    simp [closedA, resolveS_closed hT s s' hs]

theorem compileItems_closed {F nv : Nat} {T : Tab} (hT : TabBelow F nv T) (items : List Item) :
    ∀ (nf : Nat) (r : List CBody × List (Nat × Act)), nf + nBodies items ≤ F → compileItems T nf items = some r →
    (∀ b ∈ r.1, closedB F nv b = true) ∧ (∀ a ∈ r.2, closedA F nv a.2 = true) := by
  induction items with
  | nil => intro nf r _ h; simp only [compileItems, Option.some.injEq] at h; subst h; simp
  | cons it rest ih =>
    intro nf r hF h
    rw [compileItems_cons] at h
    cases hc : compileItem T nf it with
    | none => simp [hc] at h
    | some r1 =>
      cases hr : compileItems T (if it.hasBody then nf + 1 else nf) rest with
      | none => simp [hc, hr] at h
      | some r2 =>
        simp only [hc, hr, Option.some.injEq] at h
        subst h
        have h1 := compileItem_closed hT nf it (by intro hb; simp only [nBodies, hb, if_true] at hF; omega) r1 hc
        have h2 := ih _ r2 (by simp only [nBodies] at hF; split <;> split at hF <;> omega) hr
        constructor
        · intro b hb
          rcases List.mem_append.mp hb with hb | hb
          · exact h1.1 b hb
          · exact h2.1 b hb
        · intro a ha
          rcases List.mem_append.mp ha with ha | ha
          · exact h1.2 a ha
          · exact h2.2 a ha

/-- **stability of compilation**: under definition-before-use every item compiles, and to the same
    code in every scope that extends the chunk's own -/
theorem scoped_compile (fx : Facts) (st : Nat) (items : List Item) : ∀ (p : Tab × Nat) (T' : Tab),
    scopedOk fx st p items = true → Ext (regItems fx st p items).1 T' →
    ∃ r, compileItems T' p.2 items = some r ∧ compileItems (regItems fx st p items).1 p.2 items = some r := by
  induction items with
  | nil => intro p T' _ _; exact ⟨([], []), rfl, rfl⟩
  | cons it rest ih =>
    intro p T' h hx
    simp only [scopedOk_cons, Bool.and_eq_true] at h
    obtain ⟨⟨⟨_, _⟩, hc⟩, hrest⟩ := h
    rw [regItems_cons] at hx
    have hext : Ext (regItem fx st p it).1 (regItems fx st (regItem fx st p it) rest).1 := regItems_ext fx st rest _ hrest
    obtain ⟨r1, hr1⟩ := Option.isSome_iff_exists.mp hc
    have hsnd := regItem_snd fx st p it
    obtain ⟨r2, h2a, h2b⟩ := ih (regItem fx st p it) T' hrest hx
    rw [hsnd] at h2a h2b
    refine ⟨(r1.1 ++ r2.1, r1.2 ++ r2.2), ?_, ?_⟩
    · rw [compileItems_cons, compileItem_mono (Ext.trans hext hx) p.2 it r1 hr1, h2a]
    · rw [regItems_cons, compileItems_cons, compileItem_mono hext p.2 it r1 hr1, h2b]

/-! ### no duplicate declaration under definition-before-use -/

theorem hasDup_cons (x : Name) (xs : List Name) : hasDup (x :: xs) = (xs.contains x || hasDup xs) := rfl

theorem scoped_fresh (fx : Facts) (st : Nat) (items : List Item) : ∀ p : Tab × Nat,
    scopedOk fx st p items = true →
    (∀ x ∈ items.filterMap Item.declName, lookup x p.1.syms = none) ∧ hasDup (items.filterMap Item.declName) = false := by
  induction items with
  | nil => intro p _; simp [hasDup]
  | cons it rest ih =>
    intro p h
    simp only [scopedOk_cons, Bool.and_eq_true] at h
    obtain ⟨⟨⟨hf, _⟩, _⟩, hrest⟩ := h
    obtain ⟨ih1, ih2⟩ := ih _ hrest
    have back : ∀ y, lookup y (regItem fx st p it).1.syms = none → lookup y p.1.syms = none := by
      intro y hy
      cases hl : lookup y p.1.syms with
      | none => rfl
      | some v =>
        have := regItem_keeps fx st p it y (by simp [hl])
        simp [hy] at this
    cases hd : it.declName with
    | none =>
      simp only [List.filterMap_cons, hd]
      exact ⟨fun x hx => back x (ih1 x hx), ih2⟩
    | some x =>
      simp only [List.filterMap_cons, hd]
      have hx : lookup x p.1.syms = none := by
        cases it <;> simp_all [freshItem, Item.declName]
      constructor
      · intro y hy
        rcases List.mem_cons.mp hy with rfl | hy
        · exact hx
        · exact back y (ih1 y hy)
      · rw [hasDup_cons, ih2, Bool.or_false]
        cases hcn : (rest.filterMap Item.declName).contains x with
        | false => rfl
        | true =>
          have hm : x ∈ rest.filterMap Item.declName := by simpa using hcn
          have h1 := ih1 x hm
          have h2 := regItem_binds fx st p it x hd
          simp [h1] at h2

end YaegiVerif.Proofs.C11
