import YaegiVerif.Model.CfgSlots
import YaegiVerif.Proofs.C01Sim
/-
  C01 — refinement proof: the slot-level graph `expand nv code` (Model/CfgSlots.lean) simulates the
  level-1 graph `code` (Model/Cfg.lean) node by node.

    A  expressions: the operator closures of `compileExpr e tmp dst` compute `e.eval` (or panic
       exactly when it is `none`), leave the value in the returned operand, and write nothing but
       their own temporaries `[tmp, tmp')` and `dst`;
    B  straight-line closure sequences on the machine (`pre_run`);
    C  layout of `expand` (`expand_block`);
    D  one level-1 step = at least one level-2 step (`step_sim`), halting (`halt_sim`);
    E  lifting to `steps` / `runFuel`, and variable bounds of compiled programs.
-/
namespace YaegiVerif.Core

/-! ### A — expressions -/

theorem eval_bin (s : St) (o : BinOp) (a b : Expr) :
    (Expr.bin o a b).eval s =
      (match a.eval s, b.eval s with
       | some x, some y => o.apply x y
       | _, _ => none) := by
  simp only [Expr.eval]
  cases a.eval s <;> cases b.eval s <;> rfl

theorem eval_neg (s : St) (a : Expr) : (Expr.neg a).eval s = (a.eval s).map UnOp.neg.apply := rfl
theorem eval_cpl (s : St) (a : Expr) : (Expr.cpl a).eval s = (a.eval s).map UnOp.cpl.apply := rfl

/-- the two frames give every variable `< nv` the same value -/
def Agree (nv : Nat) (v fr : Nat → Val) : Prop := ∀ i, i < nv → v i = fr i

/-- an expression over variables `< nv` only looks at the slots `< nv` -/
theorem eval_agree (nv : Nat) (s t : St) (h : Agree nv s.vars t.vars) :
    ∀ e : Expr, e.varsLt nv = true → e.eval s = e.eval t := by
  intro e
  induction e with
  | lit v => intro _; rfl
  | var x =>
    intro hv
    simp only [Expr.varsLt, decide_eq_true_eq] at hv
    simp [Expr.eval, h x hv]
  | bin o a b iha ihb =>
    intro hv
    simp only [Expr.varsLt, Bool.and_eq_true] at hv
    rw [eval_bin, eval_bin, iha hv.1, ihb hv.2]
  | neg a ih => intro hv; rw [eval_neg, eval_neg, ih (by simpa [Expr.varsLt] using hv)]
  | cpl a ih => intro hv; rw [eval_cpl, eval_cpl, ih (by simpa [Expr.varsLt] using hv)]

theorem evalArgs_agree (nv : Nat) (s t : St) (h : Agree nv s.vars t.vars) :
    ∀ es : List Expr, es.all (Expr.varsLt nv) = true → evalArgs s es = evalArgs t es := by
  intro es
  induction es with
  | nil => intro _; rfl
  | cons e es ih =>
    intro hv
    simp only [List.all_cons, Bool.and_eq_true] at hv
    simp only [evalArgs, eval_agree nv s t h e hv.1, ih hv.2]

theorem evalPre_append (p q : List Pre) (fr : Nat → Val) :
    evalPre (p ++ q) fr = (evalPre p fr).bind (evalPre q) := by
  induction p generalizing fr with
  | nil => simp [evalPre]
  | cons x xs ih =>
    simp only [List.cons_append, evalPre]
    cases x.exec fr with
    | none => simp
    | some fr1 => simp [ih]

/-- the operand is a constant, a variable, or a temporary in `[lo, hi)` -/
def OpndOK (nv lo hi : Nat) : Operand → Prop
  | .const _ => True
  | .slot i => i < nv ∨ (lo ≤ i ∧ i < hi)

/-- … so code that writes only temporaries `≥ hi` does not change what it denotes -/
theorem OpndOK.stable {nv lo hi lo' hi' : Nat} {o : Operand} {fr fr' : Nat → Val} (h : OpndOK nv lo hi o)
    (hp : ∀ i, (i < lo' ∨ hi' ≤ i) → fr' i = fr i) (h1 : nv ≤ lo') (h2 : hi ≤ lo') : o.get fr' = o.get fr := by
  cases o with
  | const v => rfl
  | slot i =>
    simp only [OpndOK] at h
    simp only [Operand.get]
    exact hp i (by omega)

theorem OpndOK.mono {nv lo hi lo' hi' : Nat} {o : Operand} (h : OpndOK nv lo hi o) (h1 : lo' ≤ lo) (h2 : hi ≤ hi') :
    OpndOK nv lo' hi' o := by
  cases o with
  | const v => trivial
  | slot i => simp only [OpndOK] at h ⊢; omega

/-- what the code `r = compileExpr e tmp dst` does from frame `fr` -/
structure ExprSpec (nv : Nat) (e : Expr) (tmp : Nat) (dst : Option Nat) (fr : Nat → Val)
    (r : List Pre × Operand × Nat) : Prop where
  mono : tmp ≤ r.2.2
  ok : dst = none → OpndOK nv tmp r.2.2 r.2.1
  val : ∀ v, e.eval ⟨fr, []⟩ = some v → ∃ fr', evalPre r.1 fr = some fr' ∧ r.2.1.get fr' = v ∧
    ∀ i, (i < tmp ∨ r.2.2 ≤ i) → dst ≠ some i → fr' i = fr i
  pan : e.eval ⟨fr, []⟩ = none → evalPre r.1 fr = none

theorem compileExpr_bin (o : BinOp) (a b : Expr) (tmp : Nat) (dst : Option Nat) :
    compileExpr (.bin o a b) tmp dst =
      ((compileExpr a tmp none).1 ++ (compileExpr b (compileExpr a tmp none).2.2 none).1 ++
          [.op (dst.getD (compileExpr b (compileExpr a tmp none).2.2 none).2.2) o (compileExpr a tmp none).2.1
            (compileExpr b (compileExpr a tmp none).2.2 none).2.1],
        .slot (dst.getD (compileExpr b (compileExpr a tmp none).2.2 none).2.2),
        if dst.isSome then (compileExpr b (compileExpr a tmp none).2.2 none).2.2
        else (compileExpr b (compileExpr a tmp none).2.2 none).2.2 + 1) := by
  cases dst <;> rfl

theorem compileExpr_neg (a : Expr) (tmp : Nat) (dst : Option Nat) :
    compileExpr (.neg a) tmp dst =
      ((compileExpr a tmp none).1 ++ [.un (dst.getD (compileExpr a tmp none).2.2) .neg (compileExpr a tmp none).2.1],
        .slot (dst.getD (compileExpr a tmp none).2.2),
        if dst.isSome then (compileExpr a tmp none).2.2 else (compileExpr a tmp none).2.2 + 1) := by
  cases dst <;> rfl

theorem compileExpr_cpl (a : Expr) (tmp : Nat) (dst : Option Nat) :
    compileExpr (.cpl a) tmp dst =
      ((compileExpr a tmp none).1 ++ [.un (dst.getD (compileExpr a tmp none).2.2) .cpl (compileExpr a tmp none).2.1],
        .slot (dst.getD (compileExpr a tmp none).2.2),
        if dst.isSome then (compileExpr a tmp none).2.2 else (compileExpr a tmp none).2.2 + 1) := by
  cases dst <;> rfl

/-- the slot the top node writes is not one of the slots the caller still relies on -/
theorem top_slot (dst : Option Nat) (tmp t : Nat) (h : tmp ≤ t) :
    t ≤ (if dst.isSome then t else t + 1) ∧
    (∀ i, (i < tmp ∨ (if dst.isSome then t else t + 1) ≤ i) → dst ≠ some i → i ≠ dst.getD t) ∧
    (dst = none → tmp ≤ dst.getD t ∧ dst.getD t < (if dst.isSome then t else t + 1)) := by
  cases dst with
  | none =>
    refine ⟨by simp, ?_, by simp; omega⟩
    intro i hi _
    simp only [Option.isSome_none, Bool.false_eq_true, if_false, Option.getD_none] at hi ⊢
    omega
  | some d =>
    refine ⟨by simp, ?_, by simp⟩
    intro i _ hne
    simp only [Option.getD_some]
    intro hi
    exact hne (by rw [hi])

/-- a unary operator node on top of the code of its operand -/
theorem un_spec (nv : Nat) (u : UnOp) (a : Expr) (tmp : Nat) (dst : Option Nat) (fr : Nat → Val)
    (e : Expr) (he : ∀ s, e.eval s = (a.eval s).map u.apply)
    (ha : ExprSpec nv a tmp none fr (compileExpr a tmp none)) :
    ExprSpec nv e tmp dst fr
      ((compileExpr a tmp none).1 ++ [.un (dst.getD (compileExpr a tmp none).2.2) u (compileExpr a tmp none).2.1],
        .slot (dst.getD (compileExpr a tmp none).2.2),
        if dst.isSome then (compileExpr a tmp none).2.2 else (compileExpr a tmp none).2.2 + 1) := by
  obtain ⟨a1, a2, a3, a4⟩ := ha
  generalize compileExpr a tmp none = ra at a1 a2 a3 a4
  obtain ⟨pa, oa, ta⟩ := ra
  simp only at a1 a2 a3 a4 ⊢
  obtain ⟨t1, t2, t3⟩ := top_slot dst tmp ta a1
  refine ⟨by simp only; omega, ?_, ?_, ?_⟩
  · intro hd
    have := t3 hd
    simp only [OpndOK]
    omega
  · intro v hv
    rw [he] at hv
    cases hx : a.eval ⟨fr, []⟩ with
    | none => simp [hx] at hv
    | some x =>
      simp only [hx, Option.map_some, Option.some.injEq] at hv
      obtain ⟨fr1, e1, g1, p1⟩ := a3 x hx
      refine ⟨setSlot fr1 (dst.getD ta) v, ?_, by simp [Operand.get, setSlot], ?_⟩
      · simp [evalPre_append, e1, evalPre, Pre.exec, g1, hv]
      · intro i hi hne
        dsimp only at hi
        have hid := t2 i hi hne
        simp only [setSlot, hid, if_false]
        exact p1 i (by omega) (by simp)
  · intro hv
    rw [he] at hv
    simp only [Option.map_eq_none_iff] at hv
    simp [evalPre_append, a4 hv]

/-- **expressions**: for every expression over variables `< nv`, every first temporary `tmp ≥ nv`, every
    destination hint and every frame, the operator closures compute `e.eval` into the returned operand
    (or panic exactly when `e.eval` is `none`) and leave every slot outside `[tmp, tmp')` other than
    `dst` as it was -/
theorem compileExpr_spec (nv : Nat) (e : Expr) : ∀ (tmp : Nat) (dst : Option Nat) (fr : Nat → Val),
    e.varsLt nv = true → nv ≤ tmp → ExprSpec nv e tmp dst fr (compileExpr e tmp dst) := by
  induction e with
  | lit v =>
    intro tmp dst fr _ _
    refine ⟨Nat.le_refl _, fun _ => trivial, ?_, ?_⟩
    · intro w hw
      simp only [Expr.eval, Option.some.injEq] at hw
      subst hw
      exact ⟨fr, rfl, rfl, fun _ _ _ => rfl⟩
    · intro h; simp [Expr.eval] at h
  | var x =>
    intro tmp dst fr hv _
    simp only [Expr.varsLt, decide_eq_true_eq] at hv
    refine ⟨Nat.le_refl _, fun _ => Or.inl hv, ?_, ?_⟩
    · intro w hw
      simp only [Expr.eval, Option.some.injEq] at hw
      subst hw
      exact ⟨fr, rfl, rfl, fun _ _ _ => rfl⟩
    · intro h; simp [Expr.eval] at h
  | neg a ih =>
    intro tmp dst fr hv htmp
    rw [compileExpr_neg]
    exact un_spec nv .neg a tmp dst fr (.neg a) (fun s => eval_neg s a)
      (ih tmp none fr (by simpa [Expr.varsLt] using hv) htmp)
  | cpl a ih =>
    intro tmp dst fr hv htmp
    rw [compileExpr_cpl]
    exact un_spec nv .cpl a tmp dst fr (.cpl a) (fun s => eval_cpl s a)
      (ih tmp none fr (by simpa [Expr.varsLt] using hv) htmp)
  | bin o a b iha ihb =>
    intro tmp dst fr hv htmp
    simp only [Expr.varsLt, Bool.and_eq_true] at hv
    rw [compileExpr_bin]
    obtain ⟨a1, a2, a3, a4⟩ := iha tmp none fr hv.1 htmp
    have a2 := a2 rfl
    have ihb' := fun fr1 => ihb (compileExpr a tmp none).2.2 none fr1 hv.2 (by omega)
    generalize compileExpr a tmp none = ra at a1 a2 a3 a4 ihb'
    obtain ⟨pa, oa, ta⟩ := ra
    simp only at a1 a2 a3 a4 ihb' ⊢
    generalize compileExpr b ta none = rb at ihb'
    obtain ⟨pb, ob, tb⟩ := rb
    simp only at ihb' ⊢
    have b1 := (ihb' fr).mono
    dsimp only at b1
    obtain ⟨t1, t2, t3⟩ := top_slot dst tmp tb (by omega)
    refine ⟨by simp only; omega, ?_, ?_, ?_⟩
    · intro hd
      have := t3 hd
      simp only [OpndOK]
      omega
    · intro v hv'
      rw [eval_bin] at hv'
      cases hx : a.eval ⟨fr, []⟩ with
      | none => simp [hx] at hv'
      | some x =>
        cases hy : b.eval ⟨fr, []⟩ with
        | none => simp [hx, hy] at hv'
        | some y =>
          simp only [hx, hy] at hv'
          obtain ⟨fr1, e1, g1, p1⟩ := a3 x hx
          have hag : Agree nv (St.mk fr []).vars (St.mk fr1 []).vars := by
            intro i hi
            exact (p1 i (by omega) (by simp)).symm
          have hy1 : b.eval ⟨fr1, []⟩ = some y := by rw [← eval_agree nv _ _ hag b hv.2]; exact hy
          obtain ⟨_, b2, b3, _⟩ := ihb' fr1
          simp only at b2 b3
          obtain ⟨fr2, e2, g2, p2⟩ := b3 y hy1
          have g1' : oa.get fr2 = x := by
            rw [OpndOK.stable a2 (fun i hi => p2 i hi (by simp)) (by omega) (Nat.le_refl _)]
            exact g1
          refine ⟨setSlot fr2 (dst.getD tb) v, ?_, by simp [Operand.get, setSlot], ?_⟩
          · simp [evalPre_append, e1, e2, evalPre, Pre.exec, g1', g2, hv']
          · intro i hi hne
            dsimp only at hi
            have hid := t2 i hi hne
            simp only [setSlot, hid, if_false]
            rw [p2 i (by omega) (by simp), p1 i (by omega) (by simp)]
    · intro hv'
      rw [eval_bin] at hv'
      cases hx : a.eval ⟨fr, []⟩ with
      | none => simp [evalPre_append, a4 hx]
      | some x =>
        obtain ⟨fr1, e1, g1, p1⟩ := a3 x hx
        have hag : Agree nv (St.mk fr []).vars (St.mk fr1 []).vars := by
          intro i hi
          exact (p1 i (by omega) (by simp)).symm
        obtain ⟨_, b2, b3, b4⟩ := ihb' fr1
        simp only at b2 b3 b4
        cases hy : b.eval ⟨fr, []⟩ with
        | none =>
          have hy1 : b.eval ⟨fr1, []⟩ = none := by rw [← eval_agree nv _ _ hag b hv.2]; exact hy
          simp [evalPre_append, e1, b4 hy1]
        | some y =>
          have hy1 : b.eval ⟨fr1, []⟩ = some y := by rw [← eval_agree nv _ _ hag b hv.2]; exact hy
          simp only [hx, hy] at hv'
          obtain ⟨fr2, e2, g2, p2⟩ := b3 y hy1
          have g1' : oa.get fr2 = x := by
            rw [OpndOK.stable a2 (fun i hi => p2 i hi (by simp)) (by omega) (Nat.le_refl _)]
            exact g1
          simp [evalPre_append, e1, e2, evalPre, Pre.exec, g1', g2, hv']

/-- the top operator node of a right-hand side leaves its value in the destination slot -/
theorem compileExpr_isOp (e : Expr) (tmp d : Nat) (h : e.isOp = true) : (compileExpr e tmp (some d)).2.1 = .slot d := by
  cases e <;> simp [Expr.isOp] at h <;> rfl

/-- what the code of call arguments does from frame `fr` -/
structure ArgsSpec (nv : Nat) (es : List Expr) (tmp : Nat) (fr : Nat → Val)
    (r : List Pre × List Operand × Nat) : Prop where
  mono : tmp ≤ r.2.2
  ok : ∀ o, o ∈ r.2.1 → OpndOK nv tmp r.2.2 o
  val : ∀ vs, evalArgs ⟨fr, []⟩ es = some vs → ∃ fr', evalPre r.1 fr = some fr' ∧
    r.2.1.map (Operand.get fr') = vs ∧ ∀ i, (i < tmp ∨ r.2.2 ≤ i) → fr' i = fr i
  pan : evalArgs ⟨fr, []⟩ es = none → evalPre r.1 fr = none

theorem compileArgs_spec (nv : Nat) (es : List Expr) : ∀ (tmp : Nat) (fr : Nat → Val),
    es.all (Expr.varsLt nv) = true → nv ≤ tmp → ArgsSpec nv es tmp fr (compileArgs es tmp) := by
  induction es with
  | nil =>
    intro tmp fr _ _
    refine ⟨Nat.le_refl _, by simp [compileArgs], ?_, ?_⟩
    · intro vs hvs
      simp only [evalArgs, Option.some.injEq] at hvs
      subst hvs
      exact ⟨fr, rfl, rfl, fun _ _ => rfl⟩
    · intro h; simp [evalArgs] at h
  | cons e es ih =>
    intro tmp fr hv htmp
    simp only [List.all_cons, Bool.and_eq_true] at hv
    obtain ⟨a1, a2, a3, a4⟩ := compileExpr_spec nv e tmp none fr hv.1 htmp
    have a2 := a2 rfl
    have ih' := fun fr1 => ih (compileExpr e tmp none).2.2 fr1 hv.2 (by omega)
    simp only [compileArgs]
    generalize compileExpr e tmp none = ra at a1 a2 a3 a4 ih'
    obtain ⟨pa, oa, ta⟩ := ra
    simp only at a1 a2 a3 a4 ih' ⊢
    generalize compileArgs es ta = rb at ih'
    obtain ⟨pb, ob, tb⟩ := rb
    simp only at ih' ⊢
    have b1 := (ih' fr).mono
    have b2 := (ih' fr).ok
    dsimp only at b1 b2
    refine ⟨by dsimp only; omega, ?_, ?_, ?_⟩
    · intro o ho
      simp only [List.mem_cons] at ho
      rcases ho with rfl | ho
      · exact a2.mono (Nat.le_refl _) b1
      · exact (b2 o ho).mono a1 (Nat.le_refl _)
    · intro vs hvs
      simp only [evalArgs] at hvs
      cases hx : e.eval ⟨fr, []⟩ with
      | none => simp [hx] at hvs
      | some x =>
        cases hy : evalArgs ⟨fr, []⟩ es with
        | none => simp [hx, hy] at hvs
        | some ys =>
          simp only [hx, hy, Option.some.injEq] at hvs
          subst hvs
          obtain ⟨fr1, e1, g1, p1⟩ := a3 x hx
          have hag : Agree nv (St.mk fr []).vars (St.mk fr1 []).vars := by
            intro i hi
            exact (p1 i (by omega) (by simp)).symm
          have hy1 : evalArgs ⟨fr1, []⟩ es = some ys := by rw [← evalArgs_agree nv _ _ hag es hv.2]; exact hy
          obtain ⟨fr2, e2, g2, p2⟩ := (ih' fr1).val ys hy1
          simp only at e2 g2 p2
          have g1' : oa.get fr2 = x := by
            rw [OpndOK.stable a2 p2 (by omega) (Nat.le_refl _)]
            exact g1
          refine ⟨fr2, by simp [evalPre_append, e1, e2], by simp [g1', g2], ?_⟩
          intro i hi
          dsimp only at hi
          rw [p2 i (by omega), p1 i (by omega) (by simp)]
    · intro hvs
      simp only [evalArgs] at hvs
      cases hx : e.eval ⟨fr, []⟩ with
      | none => simp [evalPre_append, a4 hx]
      | some x =>
        obtain ⟨fr1, e1, g1, p1⟩ := a3 x hx
        have hag : Agree nv (St.mk fr []).vars (St.mk fr1 []).vars := by
          intro i hi
          exact (p1 i (by omega) (by simp)).symm
        cases hy : evalArgs ⟨fr, []⟩ es with
        | none =>
          have hy1 : evalArgs ⟨fr1, []⟩ es = none := by rw [← evalArgs_agree nv _ _ hag es hv.2]; exact hy
          have := (ih' fr1).pan hy1
          simp only at this
          simp [evalPre_append, e1, this]
        | some ys => simp [hx, hy] at hvs

/-! ### B — straight-line closure sequences on the machine -/

/-- the fragment `frag` sits in `code` at address `base` -/
def Embeds2 (code frag : List Instr2) (base : Nat) : Prop :=
  ∀ i, i < frag.length → code[base + i]? = frag[i]?

theorem Embeds2.left {code a b : List Instr2} {base : Nat} (h : Embeds2 code (a ++ b) base) : Embeds2 code a base := by
  intro i hi
  have := h i (by simp; omega)
  rw [this, List.getElem?_append_left hi]

theorem Embeds2.right {code a b : List Instr2} {base : Nat} (h : Embeds2 code (a ++ b) base) :
    Embeds2 code b (base + a.length) := by
  intro i hi
  have := h (a.length + i) (by simp; omega)
  rw [← Nat.add_assoc] at this
  rw [this, List.getElem?_append_right (by omega)]
  simp

theorem Embeds2.head {code : List Instr2} {i : Instr2} {rest : List Instr2} {base : Nat}
    (h : Embeds2 code (i :: rest) base) : code[base]? = some i := by
  have := h 0 (by simp)
  simpa using this

theorem Embeds2.tail {code : List Instr2} {i : Instr2} {rest : List Instr2} {base : Nat}
    (h : Embeds2 code (i :: rest) base) : Embeds2 code rest (base + 1) := by
  intro k hk
  have := h (k + 1) (by simp; omega)
  rw [Nat.add_assoc, Nat.add_comm 1 k]
  simpa using this

theorem steps2_add (code : List Instr2) (m n : Nat) (st : MState2) :
    steps2 code (m + n) st = (steps2 code m st).bind (steps2 code n) := by
  induction m generalizing st with
  | zero => simp [steps2]
  | succ m ih =>
    rw [Nat.succ_add]
    simp only [steps2]
    cases h : step2 code st with
    | none => simp
    | some st' => simp [ih]

theorem steps2_trans {code : List Instr2} {m n : Nat} {a b c : MState2}
    (h1 : steps2 code m a = some b) (h2 : steps2 code n b = some c) : steps2 code (m + n) a = some c := by
  rw [steps2_add, h1]; exact h2

theorem steps2_one {code : List Instr2} {pc : Nat} {i : Instr2} {fr : Nat → Val} {out : List Val} {σ : List Frame2}
    (h : code[pc]? = some i) : steps2 code 1 (.run pc fr out σ) = some (exec2 fr out σ i) := by
  simp [steps2, step2, h]

theorem exec2_link (fr : Nat → Val) (out : List Val) (σ : List Frame2) (p : Pre) (next : Nat) :
    exec2 fr out σ (p.link next) =
      (match p.exec fr with
       | some fr' => .run next fr' out σ
       | none => .panicked out) := by
  cases p with
  | op d o a b =>
    simp only [Pre.link, exec2, Pre.exec]
    cases o.apply (a.get fr) (b.get fr) <;> rfl
  | un d o a => rfl

theorem linkSeq_length (pre : List Pre) : ∀ base, (linkSeq base pre).length = pre.length := by
  induction pre with
  | nil => intro _; rfl
  | cons p ps ih => intro base; simp [linkSeq, ih]

/-- the machine runs a straight-line sequence exactly as `evalPre` says -/
theorem pre_run (code2 : List Instr2) (out : List Val) (σ : List Frame2) :
    ∀ (pre : List Pre) (base : Nat) (fr : Nat → Val), Embeds2 code2 (linkSeq base pre) base →
      (∀ fr', evalPre pre fr = some fr' →
        steps2 code2 pre.length (.run base fr out σ) = some (.run (base + pre.length) fr' out σ)) ∧
      (evalPre pre fr = none → ∃ n, steps2 code2 (n + 1) (.run base fr out σ) = some (.panicked out)) := by
  intro pre
  induction pre with
  | nil =>
    intro base fr _
    constructor
    · intro fr' h
      simp only [evalPre, Option.some.injEq] at h
      subst h
      simp [steps2]
    · intro h; simp [evalPre] at h
  | cons p ps ih =>
    intro base fr hemb
    simp only [linkSeq] at hemb
    have hc := hemb.head
    have h1 : steps2 code2 1 (.run base fr out σ) = some (exec2 fr out σ (p.link (base + 1))) := steps2_one hc
    rw [exec2_link] at h1
    cases hp : p.exec fr with
    | none =>
      simp only [hp] at h1
      constructor
      · intro fr' h; simp [evalPre, hp] at h
      · intro _; exact ⟨0, h1⟩
    | some fr1 =>
      simp only [hp] at h1
      obtain ⟨i1, i2⟩ := ih (base + 1) fr1 hemb.tail
      constructor
      · intro fr' h
        simp only [evalPre, hp, Option.bind_some] at h
        have := steps2_trans h1 (i1 fr' h)
        simp only [List.length_cons]
        rw [Nat.add_comm ps.length 1]
        have e : base + (1 + ps.length) = base + 1 + ps.length := by omega
        rw [e]
        exact this
      · intro h
        simp only [evalPre, hp, Option.bind_some] at h
        obtain ⟨n, hn⟩ := i2 h
        exact ⟨n + 1, by have := steps2_trans h1 hn; rw [Nat.add_comm 1 (n + 1)] at this; exact this⟩

/-! ### C — layout of the expanded graph -/

theorem blockTail_length (nv : Nat) (A : Nat → Nat) (pos : Nat) (i : Instr) :
    (blockTail nv A pos i).length = tailLen i := by
  cases i <;> simp [blockTail, tailLen]
  split <;> rfl

theorem block_length (nv : Nat) (A : Nat → Nat) (base : Nat) (i : Instr) :
    (block nv A base i).length = blockSize nv i := by
  simp [block, blockSize, linkSeq_length, blockTail_length]

theorem expandFrom_block (nv : Nat) (A : Nat → Nat) : ∀ (code : List Instr) (base i : Nat) (ins : Instr),
    code[i]? = some ins → ∀ k, k < (block nv A (base + addrOf nv code i) ins).length →
      (expandFrom nv A code base)[addrOf nv code i + k]? = (block nv A (base + addrOf nv code i) ins)[k]? := by
  intro code
  induction code with
  | nil => intro base i ins h; simp at h
  | cons c cs ih =>
    intro base i ins h k hk
    cases i with
    | zero =>
      simp only [List.getElem?_cons_zero, Option.some.injEq] at h
      subst h
      simp only [addrOf, Nat.add_zero, Nat.zero_add, expandFrom] at hk ⊢
      rw [List.getElem?_append_left hk]
    | succ i =>
      simp only [List.getElem?_cons_succ] at h
      simp only [addrOf, expandFrom] at hk ⊢
      have hlen := block_length nv A base c
      rw [List.getElem?_append_right (by omega)]
      have e1 : blockSize nv c + addrOf nv cs i + k - (block nv A base c).length = addrOf nv cs i + k := by omega
      have e2 : base + (blockSize nv c + addrOf nv cs i) = base + blockSize nv c + addrOf nv cs i := by omega
      rw [e1, e2]
      rw [e2] at hk
      exact ih (base + blockSize nv c) i ins h k hk

/-- the block of level-1 node `i` sits in the expanded graph at `addrOf i` -/
theorem expand_block (nv : Nat) (code : List Instr) (i : Nat) (ins : Instr) (h : code[i]? = some ins) :
    Embeds2 (expand nv code) (block nv (addrOf nv code) (addrOf nv code i) ins) (addrOf nv code i) := by
  intro k hk
  have := expandFrom_block nv (addrOf nv code) code 0 i ins h k (by simpa using hk)
  simpa [expand] using this

theorem expandFrom_length (nv : Nat) (A : Nat → Nat) : ∀ (code : List Instr) (base : Nat),
    (expandFrom nv A code base).length = addrOf nv code code.length := by
  intro code
  induction code with
  | nil => intro _; rfl
  | cons c cs ih => intro base; simp [expandFrom, addrOf, block_length, ih]

theorem addrOf_past (nv : Nat) : ∀ (code : List Instr) (i : Nat), code.length ≤ i →
    addrOf nv code i = addrOf nv code code.length := by
  intro code
  induction code with
  | nil => intro i _; rfl
  | cons c cs ih =>
    intro i hi
    cases i with
    | zero => simp at hi
    | succ i => simp only [addrOf, List.length_cons]; rw [ih i (by simpa using hi)]

/-- a level-1 address with no node maps to a level-2 address with no closure -/
theorem expand_none (nv : Nat) (code : List Instr) (i : Nat) (h : code[i]? = none) :
    (expand nv code)[addrOf nv code i]? = none := by
  rw [List.getElem?_eq_none_iff] at h ⊢
  rw [expand, expandFrom_length, addrOf_past nv code i h]
  exact Nat.le_refl _

theorem addrOf_zero (nv : Nat) (code : List Instr) : addrOf nv code 0 = 0 := by
  cases code <;> rfl

/-! ### D — one level-1 node = one block -/

/-- suspended callers correspond: same destination, same variables, and the slot-level caller resumes
    at the `nop` left of the assign node, which leads to the block of the level-1 return address -/
inductive StackRel (nv : Nat) (code2 : List Instr2) (A : Nat → Nat) : List Frame → List Frame2 → Prop
  | nil : StackRel nv code2 A [] []
  | cons {f1 : Frame} {f2 : Frame2} {σ : List Frame} {σ2 : List Frame2} :
      f2.dst = f1.dst → Agree nv f1.saved f2.saved → code2[f2.ret]? = some (.nop (A f1.ret)) →
      StackRel nv code2 A σ σ2 → StackRel nv code2 A (f1 :: σ) (f2 :: σ2)

/-- the refinement relation: same node (through the address map `A`), frames agree on the variable
    slots, same output, stacks related pointwise -/
def Rel (nv : Nat) (code2 : List Instr2) (A : Nat → Nat) : MState → MState2 → Prop
  | .run pc s σ, .run pc2 fr out σ2 => pc2 = A pc ∧ Agree nv s.vars fr ∧ out = s.out ∧ StackRel nv code2 A σ σ2
  | .panicked s, .panicked out => out = s.out
  | .done s, .done out => out = s.out
  | _, _ => False

theorem Rel_run {nv : Nat} {code2 : List Instr2} {A : Nat → Nat} {pc pc2 : Nat} {s : St} {σ : List Frame}
    {fr : Nat → Val} {out : List Val} {σ2 : List Frame2} :
    Rel nv code2 A (.run pc s σ) (.run pc2 fr out σ2) ↔
      (pc2 = A pc ∧ Agree nv s.vars fr ∧ out = s.out ∧ StackRel nv code2 A σ σ2) := Iff.rfl

theorem Rel_panicked {nv : Nat} {code2 : List Instr2} {A : Nat → Nat} {s : St} {out : List Val} :
    Rel nv code2 A (.panicked s) (.panicked out) ↔ out = s.out := Iff.rfl

theorem Rel_done {nv : Nat} {code2 : List Instr2} {A : Nat → Nat} {s : St} {out : List Val} :
    Rel nv code2 A (.done s) (.done out) ↔ out = s.out := Iff.rfl

/-- the straight-line part of a block runs as `evalPre` says and ends at the node's own closure -/
theorem block_run (code2 : List Instr2) (nv : Nat) (A : Nat → Nat) (base : Nat) (ins : Instr)
    (fr : Nat → Val) (out : List Val) (σ : List Frame2) (hemb : Embeds2 code2 (block nv A base ins) base) :
    (∀ fr', evalPre (blockPre nv ins) fr = some fr' →
      steps2 code2 (blockPre nv ins).length (.run base fr out σ) =
        some (.run (base + (blockPre nv ins).length) fr' out σ)) ∧
    (evalPre (blockPre nv ins) fr = none → ∃ n, steps2 code2 (n + 1) (.run base fr out σ) = some (.panicked out)) ∧
    Embeds2 code2 (blockTail nv A (base + (blockPre nv ins).length) ins) (base + (blockPre nv ins).length) := by
  unfold block at hemb
  obtain ⟨h1, h2⟩ := pre_run code2 out σ (blockPre nv ins) base fr hemb.left
  have h3 := hemb.right
  rw [linkSeq_length] at h3
  exact ⟨h1, h2, h3⟩

theorem set_agree {nv : Nat} {s : St} {fr fr' : Nat → Val} {x : Nat} {v : Val} (hag : Agree nv s.vars fr)
    (hx : fr' x = v) (hp : ∀ i, i < nv → i ≠ x → fr' i = fr i) : Agree nv (s.set x v).vars fr' := by
  intro i hi
  simp only [St.set]
  by_cases h : i = x
  · subst h; simp [hx]
  · simp only [h, if_false]
    rw [hp i hi h]
    exact hag i hi

/-- **one step**: every iteration of the level-1 loop is reproduced by at least one iteration of the
    slot-level loop over the expanded graph, and the refinement relation is kept -/
theorem step_sim (nv : Nat) (code : List Instr) (code2 : List Instr2) (A : Nat → Nat)
    (hok : ∀ ins, ins ∈ code → ins.varsLt nv = true)
    (hblk : ∀ pc ins, code[pc]? = some ins → Embeds2 code2 (block nv A (A pc) ins) (A pc))
    (m m' : MState) (m2 : MState2) (hr : Rel nv code2 A m m2) (hs : step code m = some m') :
    ∃ n m2', steps2 code2 (n + 1) m2 = some m2' ∧ Rel nv code2 A m' m2' := by
  cases m with
  | panicked s => simp [step] at hs
  | done s => simp [step] at hs
  | run pc s σ =>
    cases m2 with
    | panicked _ => exact absurd hr (by simp [Rel])
    | done _ => exact absurd hr (by simp [Rel])
    | run pc2 fr out σ2 =>
      obtain ⟨rfl, hag, rfl, hst⟩ := Rel_run.1 hr
      cases hc : code[pc]? with
      | none => simp [step, hc] at hs
      | some ins =>
        have hv := hok ins (List.mem_of_getElem? hc)
        obtain ⟨run_ok, run_pan, htail⟩ := block_run code2 nv A (A pc) ins fr s.out σ2 (hblk pc ins hc)
        have hagS : Agree nv s.vars (St.mk fr []).vars := hag
        cases ins with
        | nop next =>
          simp only [step, hc, Option.some.injEq] at hs
          subst hs
          simp only [blockPre, blockTail, List.length_nil, Nat.add_zero] at htail
          exact ⟨0, _, steps2_one htail.head, Rel_run.2 ⟨rfl, hag, rfl, hst⟩⟩
        | assign x e next =>
          simp only [Instr.varsLt, Bool.and_eq_true, decide_eq_true_eq] at hv
          have spec := compileExpr_spec nv e (nv + 1) (some x) fr hv.2 (by omega)
          have hev := eval_agree nv s ⟨fr, []⟩ hagS e hv.2
          simp only [step, hc] at hs
          simp only [blockPre] at run_ok run_pan htail
          cases he : e.eval s with
          | none =>
            simp only [he, Option.some.injEq] at hs
            subst hs
            obtain ⟨n, hn⟩ := run_pan (spec.pan (hev ▸ he))
            exact ⟨n, _, hn, Rel_panicked.2 rfl⟩
          | some v =>
            simp only [he, Option.some.injEq] at hs
            subst hs
            obtain ⟨fr', e1, g1, p1⟩ := spec.val v (hev ▸ he)
            have r1 := run_ok fr' e1
            by_cases hop : e.isOp = true
            · simp only [blockTail, hop, if_true] at htail
              rw [compileExpr_isOp e (nv + 1) x hop] at g1
              refine ⟨_, _, steps2_trans r1 (steps2_one htail.head), Rel_run.2 ⟨rfl, ?_, rfl, hst⟩⟩
              exact set_agree hag g1 (fun i hi hne => p1 i (Or.inl (by omega)) (by simpa using Ne.symm hne))
            · simp only [blockTail, hop] at htail
              refine ⟨_, _, steps2_trans r1 (steps2_one htail.head), Rel_run.2 ⟨rfl, ?_, rfl, hst⟩⟩
              refine set_agree hag (by simp [setSlot, g1]) (fun i hi hne => ?_)
              simp only [setSlot, hne, if_false]
              exact p1 i (Or.inl (by omega)) (by simpa using Ne.symm hne)
        | print e next =>
          simp only [Instr.varsLt] at hv
          have spec := compileExpr_spec nv e (nv + 1) none fr hv (by omega)
          have hev := eval_agree nv s ⟨fr, []⟩ hagS e hv
          simp only [step, hc] at hs
          simp only [blockPre, blockTail] at run_ok run_pan htail
          cases he : e.eval s with
          | none =>
            simp only [he, Option.some.injEq] at hs
            subst hs
            obtain ⟨n, hn⟩ := run_pan (spec.pan (hev ▸ he))
            exact ⟨n, _, hn, Rel_panicked.2 rfl⟩
          | some v =>
            simp only [he, Option.some.injEq] at hs
            subst hs
            obtain ⟨fr', e1, g1, p1⟩ := spec.val v (hev ▸ he)
            refine ⟨_, _, steps2_trans (run_ok fr' e1) (steps2_one htail.head), Rel_run.2 ⟨rfl, ?_, ?_, hst⟩⟩
            · intro i hi
              rw [p1 i (Or.inl (by omega)) (by simp)]
              exact hag i hi
            · simp [St.emit, g1]
        | branch o a b t f =>
          simp only [Instr.varsLt, Bool.and_eq_true] at hv
          obtain ⟨a1, a2, a3, a4⟩ := compileExpr_spec nv a (nv + 1) none fr hv.1 (by omega)
          have a2 := a2 rfl
          have specB := fun fr1 => compileExpr_spec nv b (compileExpr a (nv + 1) none).2.2 none fr1 hv.2 (by omega)
          have heva := eval_agree nv s ⟨fr, []⟩ hagS a hv.1
          simp only [step, hc] at hs
          simp only [blockPre, blockTail, evalPre_append] at run_ok run_pan htail
          cases hx : a.eval s with
          | none =>
            simp only [hx, Option.some.injEq] at hs
            subst hs
            obtain ⟨n, hn⟩ := run_pan (by rw [a4 (heva ▸ hx)]; rfl)
            exact ⟨n, _, hn, Rel_panicked.2 rfl⟩
          | some x =>
            obtain ⟨fr1, e1, g1, p1⟩ := a3 x (heva ▸ hx)
            have hag1 : Agree nv s.vars (St.mk fr1 []).vars := by
              intro i hi
              show s.vars i = fr1 i
              rw [p1 i (Or.inl (by omega)) (by simp)]
              exact hag i hi
            have hevb := eval_agree nv s ⟨fr1, []⟩ hag1 b hv.2
            obtain ⟨b1, b2, b3, b4⟩ := specB fr1
            cases hy : b.eval s with
            | none =>
              simp only [hx, hy, Option.some.injEq] at hs
              subst hs
              obtain ⟨n, hn⟩ := run_pan (by rw [e1, Option.bind_some, b4 (hevb ▸ hy)])
              exact ⟨n, _, hn, Rel_panicked.2 rfl⟩
            | some y =>
              simp only [hx, hy, Option.some.injEq] at hs
              subst hs
              obtain ⟨fr2, e2, g2, p2⟩ := b3 y (hevb ▸ hy)
              have g1' : (compileExpr a (nv + 1) none).2.1.get fr2 = x := by
                rw [OpndOK.stable a2 (fun i hi => p2 i hi (by simp)) (by omega) (Nat.le_refl _)]
                exact g1
              have r := run_ok fr2 (by rw [e1, Option.bind_some, e2])
              refine ⟨_, _, steps2_trans r (steps2_one htail.head), ?_⟩
              simp only [exec2, g1', g2]
              refine Rel_run.2 ⟨by split <;> rfl, ?_, rfl, hst⟩
              intro i hi
              rw [p2 i (Or.inl (by omega)) (by simp)]
              exact hag1 i hi
        | call x entry args next =>
          simp only [Instr.varsLt, Bool.and_eq_true, decide_eq_true_eq] at hv
          have spec := compileArgs_spec nv args (nv + 1) fr hv.2 (by omega)
          have hev := evalArgs_agree nv s ⟨fr, []⟩ hagS args hv.2
          simp only [step, hc] at hs
          simp only [blockPre, blockTail] at run_ok run_pan htail
          cases he : evalArgs s args with
          | none =>
            simp only [he, Option.some.injEq] at hs
            subst hs
            obtain ⟨n, hn⟩ := run_pan (spec.pan (hev ▸ he))
            exact ⟨n, _, hn, Rel_panicked.2 rfl⟩
          | some vals =>
            simp only [he, Option.some.injEq] at hs
            subst hs
            obtain ⟨fr', e1, g1, p1⟩ := spec.val vals (hev ▸ he)
            refine ⟨_, _, steps2_trans (run_ok fr' e1) (steps2_one htail.head), ?_⟩
            simp only [exec2, g1]
            refine Rel_run.2 ⟨rfl, fun _ _ => rfl, rfl, StackRel.cons rfl ?_ htail.tail.head hst⟩
            intro i hi
            show s.vars i = fr' i
            rw [p1 i (Or.inl (by omega))]
            exact hag i hi
        | ret e =>
          simp only [Instr.varsLt] at hv
          have spec := compileExpr_spec nv e (nv + 1) (some nv) fr hv (by omega)
          have hev := eval_agree nv s ⟨fr, []⟩ hagS e hv
          simp only [step, hc] at hs
          simp only [blockPre, blockTail] at run_ok run_pan htail
          cases he : e.eval s with
          | none =>
            simp only [he, Option.some.injEq] at hs
            subst hs
            obtain ⟨n, hn⟩ := run_pan (spec.pan (hev ▸ he))
            exact ⟨n, _, hn, Rel_panicked.2 rfl⟩
          | some v =>
            simp only [he, Option.some.injEq] at hs
            subst hs
            obtain ⟨fr', e1, g1, p1⟩ := spec.val v (hev ▸ he)
            have r := steps2_trans (run_ok fr' e1) (steps2_one htail.head)
            simp only [exec2, g1] at r
            cases hst with
            | nil => exact ⟨_, _, r, Rel_done.2 rfl⟩
            | @cons f1 f2 σ' σ2' hd hsv hnop hrest =>
              have r2 := steps2_trans r (steps2_one (fr := setSlot f2.saved f2.dst v) (out := s.out) (σ := σ2') hnop)
              refine ⟨_, _, r2, ?_⟩
              simp only [exec2, doReturn]
              refine Rel_run.2 ⟨rfl, ?_, rfl, hrest⟩
              intro i hi
              simp only [setSlot, hd]
              by_cases h : i = f1.dst
              · simp [h]
              · simp only [h, if_false]; exact hsv i hi

/-- halting: where the level-1 loop stops, the slot-level loop stops -/
theorem halt_sim (nv : Nat) (code : List Instr) (code2 : List Instr2) (A : Nat → Nat)
    (hnone : ∀ pc, code[pc]? = none → code2[A pc]? = none)
    (m : MState) (m2 : MState2) (hr : Rel nv code2 A m m2) (hs : step code m = none) :
    step2 code2 m2 = none := by
  cases m with
  | panicked s => cases m2 <;> first | rfl | exact absurd hr (by simp [Rel])
  | done s => cases m2 <;> first | rfl | exact absurd hr (by simp [Rel])
  | run pc s σ =>
    cases m2 with
    | panicked _ => rfl
    | done _ => rfl
    | run pc2 fr out σ2 =>
      obtain ⟨rfl, _, _, _⟩ := Rel_run.1 hr
      cases hc : code[pc]? with
      | none => simp [step2, hnone pc hc]
      | some ins =>
        exfalso
        cases ins <;> simp only [step, hc] at hs <;> first | exact absurd hs (by simp) | (split at hs <;> simp at hs)

/-! ### E — lifting to runs; variable bounds of compiled programs -/

theorem steps_sim (nv : Nat) (code : List Instr) (code2 : List Instr2) (A : Nat → Nat)
    (hok : ∀ ins, ins ∈ code → ins.varsLt nv = true)
    (hblk : ∀ pc ins, code[pc]? = some ins → Embeds2 code2 (block nv A (A pc) ins) (A pc)) :
    ∀ (n : Nat) (m m' : MState) (m2 : MState2), Rel nv code2 A m m2 → steps code n m = some m' →
      ∃ k m2', n ≤ k ∧ steps2 code2 k m2 = some m2' ∧ Rel nv code2 A m' m2' := by
  intro n
  induction n with
  | zero =>
    intro m m' m2 hr h
    simp only [steps, Option.some.injEq] at h
    subst h
    exact ⟨0, m2, Nat.le_refl _, rfl, hr⟩
  | succ n ih =>
    intro m m' m2 hr h
    simp only [steps] at h
    cases hs : step code m with
    | none => simp [hs] at h
    | some m1 =>
      simp only [hs, Option.bind_some] at h
      obtain ⟨k1, m21, h1, r1⟩ := step_sim nv code code2 A hok hblk m m1 m2 hr hs
      obtain ⟨k2, m2', hle, h2, r2⟩ := ih m1 m' m21 r1 h
      exact ⟨k1 + 1 + k2, m2', by omega, steps2_trans h1 h2, r2⟩

/-- `runFuel` stops exactly where `steps` reaches a state with no successor -/
theorem runFuel_steps (code : List Instr) : ∀ (n : Nat) (m final : MState),
    runFuel code n m = some final → ∃ k, steps code k m = some final ∧ step code final = none := by
  intro n
  induction n with
  | zero => intro m final h; simp [runFuel] at h
  | succ n ih =>
    intro m final h
    simp only [runFuel] at h
    cases hs : step code m with
    | none =>
      simp only [hs, Option.some.injEq] at h
      subst h
      exact ⟨0, rfl, hs⟩
    | some m1 =>
      simp only [hs] at h
      obtain ⟨k, hk, hf⟩ := ih m1 final h
      exact ⟨k + 1, by simp [steps, hs, hk], hf⟩

theorem runFuel2_of_steps2 (code : List Instr2) : ∀ (n : Nat) (m final : MState2),
    steps2 code n m = some final → step2 code final = none → runFuel2 code (n + 1) m = some final := by
  intro n
  induction n with
  | zero =>
    intro m final h hf
    simp only [steps2, Option.some.injEq] at h
    subst h
    simp [runFuel2, hf]
  | succ n ih =>
    intro m final h hf
    simp only [steps2] at h
    cases hs : step2 code m with
    | none => simp [hs] at h
    | some m' =>
      simp only [hs, Option.bind_some] at h
      simp only [runFuel2, hs]
      exact ih m' final h hf

def BExpr.varsLt (nv : Nat) : BExpr → Bool
  | .cmp _ a b => a.varsLt nv && b.varsLt nv
  | .not a => a.varsLt nv
  | .land a b => a.varsLt nv && b.varsLt nv
  | .lor a b => a.varsLt nv && b.varsLt nv

mutual
/-- every variable the statement mentions is `< nv` -/
def Stmt.varsLt (nv : Nat) : Stmt → Bool
  | .seq a b => a.varsLt nv && b.varsLt nv
  | .assign x e => decide (x < nv) && e.varsLt nv
  | .print e => e.varsLt nv
  | .ite c t e => c.varsLt nv && t.varsLt nv && e.varsLt nv
  | .loop c body post => c.varsLt nv && body.varsLt nv && post.varsLt nv
  | .switch cs => cs.varsLt nv
  | .ret e => e.varsLt nv
  | .call x _ args => decide (x < nv) && args.all (Expr.varsLt nv)
  | _ => true
def Clauses.varsLt (nv : Nat) : Clauses → Bool
  | .nil => true
  | .cons c body _ rest => c.varsLt nv && body.varsLt nv && rest.varsLt nv
end

/-- every node of the graph mentions only variables `< nv` -/
def AllOK (nv : Nat) (l : List Instr) : Prop := ∀ ins, ins ∈ l → ins.varsLt nv = true

theorem AllOK.append {nv : Nat} {a b : List Instr} (ha : AllOK nv a) (hb : AllOK nv b) : AllOK nv (a ++ b) := by
  intro ins h
  rcases List.mem_append.1 h with h | h
  · exact ha ins h
  · exact hb ins h

theorem AllOK.single {nv : Nat} {i : Instr} (h : i.varsLt nv = true) : AllOK nv [i] := by
  intro ins hm
  simp only [List.mem_singleton] at hm
  subst hm
  exact h

theorem compileCond_varsLt (nv : Nat) (c : BExpr) : ∀ (base t f : Nat), c.varsLt nv = true →
    AllOK nv (compileCond c base t f) := by
  induction c with
  | cmp op a b => intro base t f h; exact AllOK.single (by simpa [BExpr.varsLt, Instr.varsLt] using h)
  | not a ih => intro base t f h; exact ih base f t (by simpa [BExpr.varsLt] using h)
  | land a b iha ihb =>
    intro base t f h
    simp only [BExpr.varsLt, Bool.and_eq_true] at h
    exact (iha _ _ _ h.1).append (ihb _ _ _ h.2)
  | lor a b iha ihb =>
    intro base t f h
    simp only [BExpr.varsLt, Bool.and_eq_true] at h
    exact (iha _ _ _ h.1).append (ihb _ _ _ h.2)

mutual
theorem compile_varsLt (nv : Nat) (ent : Nat → Nat) (fin : Nat) : (s : Stmt) → ∀ (ls : List (Nat × Nat)) (base next brk cont : Nat),
    s.varsLt nv = true → AllOK nv (compile ent fin ls s base next brk cont)
  | .skip, _, _, _, _, _, _ => AllOK.single rfl
  | .seq a b, ls, base, next, brk, cont, h => by
    simp only [Stmt.varsLt, Bool.and_eq_true] at h
    exact (compile_varsLt nv ent fin a _ _ _ _ _ h.1).append (compile_varsLt nv ent fin b _ _ _ _ _ h.2)
  | .assign x e, _, _, _, _, _, h => AllOK.single (by simpa [Stmt.varsLt, Instr.varsLt] using h)
  | .print e, _, _, _, _, _, h => AllOK.single (by simpa [Stmt.varsLt, Instr.varsLt] using h)
  | .ite c t e, ls, base, next, brk, cont, h => by
    simp only [Stmt.varsLt, Bool.and_eq_true] at h
    exact ((compileCond_varsLt nv c _ _ _ h.1.1).append (compile_varsLt nv ent fin t _ _ _ _ _ h.1.2)).append
      (compile_varsLt nv ent fin e _ _ _ _ _ h.2)
  | .loop c body post, ls, base, next, brk, cont, h => by
    simp only [Stmt.varsLt, Bool.and_eq_true] at h
    exact ((compileCond_varsLt nv c _ _ _ h.1.1).append (compile_varsLt nv ent fin body _ _ _ _ _ h.1.2)).append
      (compile_varsLt nv ent fin post _ _ _ _ _ h.2)
  | .brk, _, _, _, _, _, _ => AllOK.single rfl
  | .cont, _, _, _, _, _, _ => AllOK.single rfl
  | .switch cs, ls, base, next, brk, cont, h => by
    simp only [Stmt.varsLt] at h
    exact compileClauses_varsLt nv ent fin cs _ _ _ _ h
  | .ret e, _, _, _, _, _, h => AllOK.single (by simpa [Stmt.varsLt, Instr.varsLt] using h)
  | .call x g args, _, _, _, _, _, h => AllOK.single (by simpa [Stmt.varsLt, Instr.varsLt] using h)
  | .brkL _, _, _, _, _, _, _ => AllOK.single rfl
  | .contL _, _, _, _, _, _, _ => AllOK.single rfl
theorem compileClauses_varsLt (nv : Nat) (ent : Nat → Nat) (fin : Nat) : (cs : Clauses) → ∀ (ls : List (Nat × Nat)) (base next cont : Nat),
    cs.varsLt nv = true → AllOK nv (compileClauses ent fin ls cs base next cont)
  | .nil, _, _, _, _, _ => AllOK.single rfl
  | .cons c body fall rest, ls, base, next, cont, h => by
    simp only [Clauses.varsLt, Bool.and_eq_true] at h
    exact ((compileCond_varsLt nv c _ _ _ h.1.1).append (compile_varsLt nv ent fin body _ _ _ _ _ h.1.2)).append
      (compileClauses_varsLt nv ent fin rest _ _ _ _ h.2)
end

theorem compileFn_varsLt (nv : Nat) (ent : Nat → Nat) (body : Stmt) (base : Nat) (h : body.varsLt nv = true) :
    AllOK nv (compileFn ent body base) :=
  (compile_varsLt nv ent _ body _ _ _ _ _ h).append (AllOK.single rfl)

theorem compileFuns_varsLt (nv : Nat) (ent : Nat → Nat) : ∀ (fs : Funs) (base : Nat),
    fs.all (Stmt.varsLt nv) = true → AllOK nv (compileFuns ent fs base) := by
  intro fs
  induction fs with
  | nil => intro _ _ ins h; simp [compileFuns] at h
  | cons b bs ih =>
    intro base h
    simp only [List.all_cons, Bool.and_eq_true] at h
    exact (compileFn_varsLt nv ent b base h.1).append (ih _ h.2)

/-- a program over variables `< nv` compiles to a graph over variables `< nv` -/
theorem compileProg_varsLt (nv : Nat) (fs : Funs) (p : Stmt) (hp : p.varsLt nv = true)
    (hf : fs.all (Stmt.varsLt nv) = true) : AllOK nv (compileProg fs p) :=
  (compileFn_varsLt nv _ p 0 hp).append (compileFuns_varsLt nv _ fs _ hf)

end YaegiVerif.Core
