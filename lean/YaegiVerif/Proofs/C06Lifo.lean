import YaegiVerif.Proofs.C06Sim
/-
  C06 — helper lemmas for the statements about whole lists of defer statements, and the shape of `runY`'s output.
-/
namespace YaegiVerif.Unwind
open YaegiVerif.Expected.C06 (facts)

/-- what the embedder sees of the outermost call -/
def outcomeOf (sig : Sig) (w : World) : Outcome :=
  match sig with
  | .normal => ⟨w.out, .ok, true⟩
  | .panic v => ⟨w.out, .panicErr (some v), true⟩
  | .fuel => ⟨w.out, if w.hung then .hang else .fuel, !w.hung⟩

/-- `Eval` adds nothing to the outermost call: the root frame has no deferred calls of its own, its runCfg
    raises the panic again, Execute turns it into an error carrying the value, the root frame ends unlocked -/
theorem runY_eq (fuel : Nat) (p : Code) :
    runY facts fuel p = outcomeOf (execFnY facts fuel p 0 Frame.fresh World.init).1
      (execFnY facts fuel p 0 Frame.fresh World.init).2.2.2 := by
  have ha := execFnY_anc facts fuel p 0 Frame.fresh World.init
  rcases h : execFnY facts fuel p 0 Frame.fresh World.init with ⟨sig, root, rr, w'⟩
  rw [h] at ha
  obtain ⟨rd, rrec, rres, rl⟩ := root
  simp only [Frame.fresh] at ha
  obtain ⟨h1, h2⟩ := ha
  subst h1; subst h2
  unfold runY
  simp only [execBodyY, evalArg, h]
  cases sig with
  | fuel => simp [exitY_expected, outcomeOf]
  | normal => cases rrec <;> simp [exitY_expected, runEntriesY, finishY, pendingOf, outcomeOf]
  | panic v => cases rrec <;> simp [exitY_expected, runEntriesY, finishY, pendingOf, outcomeOf]

theorem specRun_eq (fuel : Nat) (p : Code) :
    Spec.run fuel p = outcomeOf (Spec.execFn fuel p 0 none 0 World.init).1
      (Spec.execFn fuel p 0 none 0 World.init).2.2.2.2 := by
  unfold Spec.run
  rcases Spec.execFn fuel p 0 none 0 World.init with ⟨sig, c', o', rr, w'⟩
  cases sig <;> rfl

theorem out_of_runY (fuel : Nat) (p : Code) :
    (runY facts fuel p).out = (execFnY facts fuel p 0 Frame.fresh World.init).2.2.2.out := by
  rw [runY_eq]
  rcases execFnY facts fuel p 0 Frame.fresh World.init with ⟨sig, root, rr, w'⟩
  cases sig <;> rfl

/-- `defer fmt.Println(t₁, 0); …; defer fmt.Println(tₙ, 0); <tail>` -/
def deferAll : List String → Code → Code
  | [], tail => tail
  | t :: ts, tail => .deferBin t (.lit 0) (deferAll ts tail)

theorem spec_body_deferAll (cs : Spec.CallFn) (tail : Code) :
    ∀ (ts : List String) (a : Int) (ctx : Option Val) (outer : Int) (act : Spec.Act) (w : World),
      Spec.execBody cs (deferAll ts tail) a ctx outer act w =
        Spec.execBody cs tail a ctx outer
          { act with defers := (ts.map fun t => (⟨.bin t, .val 0⟩ : Entry)).reverse ++ act.defers } w := by
  intro ts
  induction ts with
  | nil => intros; rfl
  | cons t ts ih =>
    intro a ctx outer act w
    simp only [deferAll, Spec.execBody, Spec.evalArg, Spec.push]
    rw [ih]
    simp [List.map_cons, List.reverse_cons, List.append_assoc]

/-- a block of deferred native prints at the top of the stack: each runs once, in stack order, whatever the
    current panic is; then the rest of the stack -/
theorem spec_runDefers_bins_app (cs : Spec.CallFn) :
    ∀ (ts : List String) (rest : List Entry) (cur : Option Val) (res : Int) (w : World),
      Spec.runDefers cs ((ts.map fun t => (⟨.bin t, .val 0⟩ : Entry)) ++ rest) cur res w =
        Spec.runDefers cs rest cur res { w with out := w.out ++ ts.map fun t => Event.bin t 0 } := by
  intro ts
  induction ts with
  | nil => intro rest cur res w; simp
  | cons t ts ih =>
    intro rest cur res w
    simp only [List.map_cons, List.cons_append, Spec.runDefers, SArg.get]
    rw [ih]
    simp [World.emit, List.append_assoc]

theorem spec_runDefers_bins (cs : Spec.CallFn) (ts : List String) (cur : Option Val) (res : Int) (w : World) :
    Spec.runDefers cs (ts.map fun t => (⟨.bin t, .val 0⟩ : Entry)) cur res w =
      (.normal, cur, res, { w with out := w.out ++ ts.map fun t => Event.bin t 0 }) := by
  have := spec_runDefers_bins_app cs ts [] cur res w
  simpa [Spec.runDefers] using this

theorem noHeld_deferAll (tail : Code) (hd : noHeld tail = true) :
    ∀ (ts : List String), noHeld (deferAll ts tail) = true := by
  intro ts
  induction ts with
  | nil => exact hd
  | cons t ts ih => simpa [deferAll, noHeld] using ih

end YaegiVerif.Unwind
