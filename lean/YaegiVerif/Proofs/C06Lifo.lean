import YaegiVerif.Proofs.C06Sim
/-
  C06 — helper lemmas for the statements about whole lists of defer statements, and the shape of `runY`'s output.
-/
namespace YaegiVerif.Unwind
open YaegiVerif.Expected.C06 (facts)

theorem out_of_runY (fuel : Nat) (p : Code) :
    (runY facts fuel p).out = (execFnY facts fuel p 0 Frame.fresh ⟨[], []⟩).2.2.2.out := by
  unfold runY
  simp only [execBodyY, evalArg]
  have ha := execFnY_anc facts fuel p 0 Frame.fresh ⟨[], []⟩
  generalize execFnY facts fuel p 0 Frame.fresh ⟨[], []⟩ = r at ha ⊢
  obtain ⟨sig, root, rr, w'⟩ := r
  obtain ⟨rd, rrec, rres, rl⟩ := root
  simp only [Frame.fresh] at ha
  obtain ⟨h1, h2⟩ := ha
  subst h1; subst h2
  cases sig with
  | fuel => simp [exitY_expected]
  | normal => cases rrec <;> simp [exitY_expected, runEntriesY, finishY, pendingOf]
  | panic v => cases rrec <;> simp [exitY_expected, runEntriesY, finishY, pendingOf]

/-- `defer fmt.Println(t₁, 0); …; defer fmt.Println(tₙ, 0); <tail>` -/
def deferAll : List String → Code → Code
  | [], tail => tail
  | t :: ts, tail => .deferBin t (.lit 0) (deferAll ts tail)

theorem spec_body_deferAll (cs : Spec.CallFn) (tail : Code) :
    ∀ (ts : List String) (a : Int) (ctx : Option Val) (outer : Int) (act : Spec.Act) (w : World),
      Spec.execBody cs (deferAll ts tail) a ctx outer act w =
        Spec.execBody cs tail a ctx outer
          { act with defers := (ts.map fun t => (⟨.bin t, .val 0⟩ : Entry)).reverse ++ act.defers } w := by
  intro ts
  induction ts with
  | nil => intros; rfl
  | cons t ts ih =>
    intro a ctx outer act w
    simp only [deferAll, Spec.execBody, Spec.evalArg, Spec.push]
    rw [ih]
    simp [List.map_cons, List.reverse_cons, List.append_assoc]

theorem spec_runDefers_bins (cs : Spec.CallFn) :
    ∀ (ts : List String) (cur : Option Val) (res : Int) (w : World),
      Spec.runDefers cs (ts.map fun t => (⟨.bin t, .val 0⟩ : Entry)) cur res w =
        (.normal, cur, res, { w with out := w.out ++ ts.map fun t => Event.bin t 0 }) := by
  intro ts
  induction ts with
  | nil => intro cur res w; simp [Spec.runDefers]
  | cons t ts ih =>
    intro cur res w
    simp only [List.map_cons, Spec.runDefers, SArg.get]
    rw [ih]
    simp [World.emit, List.append_assoc]

theorem dom_deferAll (tail : Code) (hd : ∀ s, domBody tail s = true) :
    ∀ (ts : List String) (s : Bool), domBody (deferAll ts tail) s = true := by
  intro ts
  induction ts with
  | nil => intro s; exact hd s
  | cons t ts ih => intro s; simp [deferAll, domBody, ih]

end YaegiVerif.Unwind
