import YaegiVerif.Model.Src
/-
  C16 — lemmas about the split-form path functions of Model/Src.lean on clean arguments:
  on a clean path `filepath.Clean` is the identity, `filepath.Join` is concatenation, and the
  `strings.TrimPrefix/TrimSuffix` calls of previousRoot cut exactly at element boundaries.
-/
namespace YaegiVerif.Src

/-- an ordinary path element -/
def normElem (e : String) : Bool := e != "" && e != "." && e != ".."

/-- a list of ordinary elements (a clean relative path, or nothing) -/
def NormRel (l : List String) : Bool := l.all normElem

/-- a clean non-empty path string: relative, or absolute below the root -/
def goodPath : Path → Bool
  | "" :: t => !t.isEmpty && NormRel t
  | l => !l.isEmpty && NormRel l

/-- the Go string of a list of elements below some directory: "" for none -/
def pathOf (l : List String) : Path := if l.isEmpty then emptyS else l

theorem cleanStep_norm (b : Bool) (out : List String) (e : String) (h : normElem e = true) :
    cleanStep b out e = e :: out := by
  simp only [normElem, Bool.and_eq_true, bne_iff_ne, ne_eq] at h
  obtain ⟨⟨h1, h2⟩, h3⟩ := h
  simp [cleanStep, h1, h2, h3]

theorem foldl_cleanStep_norm (b : Bool) (l : List String) (acc : List String) (h : NormRel l = true) :
    l.foldl (cleanStep b) acc = l.reverse ++ acc := by
  induction l generalizing acc with
  | nil => simp
  | cons e r ih =>
    simp only [NormRel, List.all_cons, Bool.and_eq_true] at h
    simp only [List.foldl_cons]
    rw [cleanStep_norm b acc e h.1, ih _ (by simpa [NormRel] using h.2)]
    simp

theorem normRel_head_ne (e : String) (r : List String) (h : NormRel (e :: r) = true) : e ≠ "" := by
  simp only [NormRel, List.all_cons, Bool.and_eq_true, normElem, bne_iff_ne, ne_eq] at h
  exact h.1.1.1

theorem isRooted_rel (l : List String) (h : NormRel l = true) : isRooted l = false := by
  match l, h with
  | [], _ => rfl
  | e :: r, h =>
    have := normRel_head_ne e r h
    unfold isRooted
    split
    · rename_i heq; simp at heq; exact absurd heq.1 this
    · rfl

theorem clean_rel (l : List String) (h : NormRel l = true) (hne : l ≠ []) : clean l = l := by
  unfold clean
  simp only [isRooted_rel l h, foldl_cleanStep_norm false l [] h]
  simp [hne]

theorem cleanStep_empty (b : Bool) (out : List String) : cleanStep b out "" = out := by
  simp [cleanStep]

theorem clean_abs (t : List String) (h : NormRel t = true) (hne : t ≠ []) : clean ("" :: t) = "" :: t := by
  unfold clean
  have hr : isRooted ("" :: t) = true := by
    cases t with
    | nil => exact absurd rfl hne
    | cons a b => rfl
  simp only [hr, List.foldl_cons, cleanStep_empty, foldl_cleanStep_norm true t [] h]
  simp [hne]

theorem clean_good (p : Path) (h : goodPath p = true) : clean p = p := by
  unfold goodPath at h
  split at h
  · rename_i t
    simp only [Bool.and_eq_true, Bool.not_eq_true', List.isEmpty_eq_false_iff] at h
    exact clean_abs t h.2 h.1
  · simp only [Bool.and_eq_true, Bool.not_eq_true', List.isEmpty_eq_false_iff] at h
    exact clean_rel _ h.2 h.1


/-! ### Join -/

/-- the non-empty arguments of a Join, joined with "/" -/
def flat (ps : List Path) : List String := (ps.filter (fun p => !isEmptyS p)).flatten

theorem flat_nil : flat [] = [] := rfl

theorem isEmptyS_good (p : Path) (h : goodPath p = true) : isEmptyS p = false := by
  unfold goodPath at h
  split at h
  · rename_i t
    cases t with
    | nil => simp at h
    | cons a b => simp [isEmptyS]
  · rename_i hn
    cases p with
    | nil => simp at h
    | cons a b =>
      cases b with
      | nil =>
        simp only [List.isEmpty_cons, Bool.not_false, Bool.true_and] at h
        have := normRel_head_ne a [] h
        simp [isEmptyS, this]
      | cons c d => simp [isEmptyS]

theorem isEmptyS_pathOf (l : List String) (h : NormRel l = true) : isEmptyS (pathOf l) = l.isEmpty := by
  cases l with
  | nil => simp [pathOf, isEmptyS, emptyS]
  | cons a b =>
    have := normRel_head_ne a b h
    cases b with
    | nil => simp [pathOf, isEmptyS, this]
    | cons c d => simp [pathOf, isEmptyS]

theorem flat_cons_good (a : Path) (rest : List Path) (h : goodPath a = true) : flat (a :: rest) = a ++ flat rest := by
  simp [flat, isEmptyS_good a h]

theorem flat_cons_pathOf (l : List String) (rest : List Path) (h : NormRel l = true) :
    flat (pathOf l :: rest) = l ++ flat rest := by
  cases l with
  | nil => simp [flat, pathOf, isEmptyS, emptyS]
  | cons a b =>
    have h2 := isEmptyS_pathOf (a :: b) h
    simp only [List.isEmpty_cons] at h2
    have h3 : pathOf (a :: b) = a :: b := by simp [pathOf]
    rw [h3] at h2
    simp [flat, h2, h3]

theorem flat_cons_elem (e : String) (rest : List Path) (h : normElem e = true) : flat ([e] :: rest) = e :: flat rest := by
  have : goodPath [e] = true := by
    have he : e ≠ "" := by
      simp only [normElem, Bool.and_eq_true, bne_iff_ne, ne_eq] at h; exact h.1.1
    unfold goodPath
    split
    · rename_i heq; simp at heq; exact absurd heq.1 he
    · simp [NormRel, h]
  simpa using flat_cons_good [e] rest this

theorem join_eq_flat (ps : List Path) : join ps = if (flat ps).isEmpty then emptyS else clean (flat ps) := by
  unfold join flat
  have key : ∀ (ne : List Path), (∀ p ∈ ne, p ≠ []) → (ne.isEmpty = ne.flatten.isEmpty) := by
    intro ne hne
    cases ne with
    | nil => rfl
    | cons a b =>
      have := hne a (by simp)
      cases a with
      | nil => exact absurd rfl this
      | cons x y => simp
  have hall : ∀ p ∈ ps.filter (fun p => !isEmptyS p), p ≠ [] := by
    intro p hp
    simp only [List.mem_filter, Bool.not_eq_true'] at hp
    intro h0; subst h0; simp [isEmptyS] at hp
  simp only [key _ hall]

theorem join_good (ps : List Path) (h : goodPath (flat ps) = true) : join ps = flat ps := by
  rw [join_eq_flat]
  have : (flat ps).isEmpty = false := by
    cases hf : flat ps with
    | nil => rw [hf] at h; simp [goodPath] at h
    | cons a b => rfl
  simp [this, clean_good _ h]

theorem normRel_append (a b : List String) : NormRel (a ++ b) = (NormRel a && NormRel b) := by
  simp [NormRel, List.all_append]

theorem goodPath_append (p : Path) (l : List String) (h : goodPath p = true) (hl : NormRel l = true) :
    goodPath (p ++ l) = true := by
  unfold goodPath at h
  split at h
  · rename_i t
    simp only [Bool.and_eq_true, Bool.not_eq_true', List.isEmpty_eq_false_iff] at h
    show goodPath ("" :: (t ++ l)) = true
    simp only [goodPath, normRel_append, h.2, hl, Bool.and_self, Bool.and_true, Bool.not_eq_true',
      List.isEmpty_eq_false_iff]
    simp [h.1]
  · rename_i hn
    simp only [Bool.and_eq_true, Bool.not_eq_true', List.isEmpty_eq_false_iff] at h
    cases p with
    | nil => exact absurd rfl h.1
    | cons a b =>
      have ha := normRel_head_ne a b h.2
      show goodPath (a :: (b ++ l)) = true
      unfold goodPath
      split
      · rename_i heq; simp at heq; exact absurd heq.1 ha
      · have : NormRel (a :: (b ++ l)) = true := by
          have := normRel_append (a :: b) l
          simp only [List.cons_append] at this
          rw [this, h.2, hl]; rfl
        simp [this]


/-! ### Split, Dir -/

theorem splitLast_snoc (a : List String) (e : String) : splitLast (a ++ [e]) = (a ++ [""], e) := by
  simp [splitLast]

theorem foldl_cleanStep_snoc_empty (b : Bool) (l acc : List String) :
    (l ++ [""]).foldl (cleanStep b) acc = l.foldl (cleanStep b) acc := by
  simp [List.foldl_append, cleanStep_empty]

theorem isRooted_snoc_empty (a : Path) (h : goodPath a = true) : isRooted (a ++ [""]) = isRooted a := by
  unfold goodPath at h
  split at h
  · rename_i t
    cases t with
    | nil => simp at h
    | cons x y => rfl
  · cases a with
    | nil => simp at h
    | cons x y =>
      simp only [Bool.and_eq_true, Bool.not_eq_true', List.isEmpty_eq_false_iff] at h
      have hx := normRel_head_ne x y h.2
      have h1 : isRooted (x :: y) = false := isRooted_rel _ h.2
      rw [h1]
      show isRooted (x :: (y ++ [""])) = false
      unfold isRooted
      split
      · rename_i heq; simp at heq; exact absurd heq.1 hx
      · rfl

/-- `Clean(dir + "/")` of a clean directory is the directory -/
theorem clean_snoc_empty (a : Path) (h : goodPath a = true) : clean (a ++ [""]) = a := by
  have h2 := clean_good a h
  unfold clean at h2 ⊢
  rw [isRooted_snoc_empty a h]
  simp only [foldl_cleanStep_snoc_empty]
  exact h2

theorem dir_snoc (a : Path) (e : String) (h : goodPath a = true) : dir (a ++ [e]) = a := by
  unfold dir
  simp only [List.dropLast_concat]
  exact clean_snoc_empty a h

/-! ### TrimSuffix / TrimPrefix at element boundaries -/

theorem strDropSuffix_self (q : String) : strDropSuffix? q q = some "" := by
  simp [strDropSuffix?]

theorem strDropPrefix_self (q : String) : strDropPrefix? q q = some "" := by
  simp [strDropPrefix?]

theorem dropSuffixRev_aligned (qs : List String) (q0 : String) (rest : List String) :
    dropSuffixRev? (qs ++ [q0]) (qs ++ [q0] ++ rest) = some ("" :: rest) := by
  induction qs with
  | nil => simp [dropSuffixRev?, strDropSuffix_self]
  | cons q qs ih =>
    cases hq : qs ++ [q0] with
    | nil => simp at hq
    | cons x y =>
      simp only [List.cons_append, hq]
      rw [hq] at ih
      simp only [List.cons_append] at ih
      simp [dropSuffixRev?, ih]

/-- `strings.TrimSuffix(a + "/" + l, l) = a + "/"` -/
theorem trimSuffix_aligned (a l : List String) (hl : l ≠ []) : trimSuffix (a ++ l) l = a ++ [""] := by
  unfold trimSuffix
  obtain ⟨q0, qs, rfl⟩ : ∃ q0 qs, l = q0 :: qs := by
    cases l with
    | nil => exact absurd rfl hl
    | cons x y => exact ⟨x, y, rfl⟩
  have h1 : (q0 :: qs).reverse = qs.reverse ++ [q0] := by simp
  have h2 : (a ++ q0 :: qs).reverse = qs.reverse ++ [q0] ++ a.reverse := by simp
  rw [h1, h2, dropSuffixRev_aligned]
  simp

theorem dropPrefix_aligned (gs : List String) (g0 : String) (t : List String) :
    dropPrefix? (gs ++ [g0]) (gs ++ [g0] ++ t) = some ("" :: t) := by
  induction gs with
  | nil => simp [dropPrefix?, strDropPrefix_self]
  | cons g gs ih =>
    cases hq : gs ++ [g0] with
    | nil => simp at hq
    | cons x y =>
      simp only [List.cons_append, hq]
      rw [hq] at ih
      simp only [List.cons_append] at ih
      simp [dropPrefix?, ih]

/-- `strings.TrimPrefix(g + "/" + t, g) = "/" + t` (and "" for `t` empty) -/
theorem trimPrefix_aligned (g t : List String) (hg : g ≠ []) : trimPrefix (g ++ t) g = "" :: t := by
  unfold trimPrefix
  obtain ⟨gs, g0, rfl⟩ : ∃ gs g0, g = gs ++ [g0] := by
    refine ⟨g.dropLast, g.getLast hg, ?_⟩
    exact (List.dropLast_concat_getLast hg).symm
  rw [dropPrefix_aligned]; rfl

theorem trimSlashSuffix_snoc_empty (a : List String) (ha : a ≠ []) : trimSlashSuffix (a ++ [""]) = a := by
  unfold trimSlashSuffix
  have : (a ++ [""]).length ≥ 2 := by
    cases a with
    | nil => exact absurd rfl ha
    | cons x y => simp
  simp [ha]

theorem trimSlashSuffix_norm (l : List String) (h : NormRel l = true) : trimSlashSuffix l = l := by
  unfold trimSlashSuffix
  by_cases hl : l.getLast? = some ""
  · exfalso
    have hm : "" ∈ l := List.mem_of_getLast? hl
    simp only [NormRel, List.all_eq_true] at h
    have := h "" hm
    simp [normElem] at this
  · simp [hl]

theorem trimSlashPrefix_cons (t : List String) (ht : t ≠ []) : trimSlashPrefix ("" :: t) = t := by
  cases t with
  | nil => exact absurd rfl ht
  | cons x y => rfl


theorem goodPath_of_normRel (l : List String) (h : NormRel l = true) (hne : l ≠ []) : goodPath l = true := by
  cases l with
  | nil => exact absurd rfl hne
  | cons a b =>
    have ha := normRel_head_ne a b h
    unfold goodPath
    split
    · rename_i heq; simp at heq; exact absurd heq.1 ha
    · simp [h]

/-- `filepath.Join(a, b)` of two clean relative paths (either may be "") -/
theorem join_pathOf2 (a b : List String) (ha : NormRel a = true) (hb : NormRel b = true) :
    join [pathOf a, pathOf b] = pathOf (a ++ b) := by
  have hf : flat [pathOf a, pathOf b] = a ++ b := by
    rw [flat_cons_pathOf a _ ha, flat_cons_pathOf b _ hb, flat_nil]; simp
  by_cases hne : a ++ b = []
  · rw [join_eq_flat, hf, hne]; simp [pathOf]
  · have hn : NormRel (a ++ b) = true := by rw [normRel_append, ha, hb]; rfl
    rw [join_good _ (by rw [hf]; exact goodPath_of_normRel _ hn hne), hf]
    simp [pathOf, hne]

/-! ### relative imports: `Join(dir, ".", rel)` -/

theorem isRooted_insert_dot (d P : Path) (hd : d ≠ []) (hde : isEmptyS d = false) (hP : P ≠ []) :
    isRooted (d ++ "." :: P) = isRooted (d ++ P) := by
  cases d with
  | nil => exact absurd rfl hd
  | cons e r =>
    cases r with
    | nil =>
      cases P with
      | nil => exact absurd rfl hP
      | cons x y =>
        by_cases he : e = ""
        · subst he; rfl
        · simp only [List.cons_append, List.nil_append]
          unfold isRooted
          split
          · rename_i heq; simp at heq; exact absurd heq.1 he
          · split
            · rename_i heq; simp at heq; exact absurd heq.1 he
            · rfl
    | cons e2 r2 =>
      by_cases he : e = ""
      · subst he; rfl
      · simp only [List.cons_append]
        unfold isRooted
        split
        · rename_i heq; simp at heq; exact absurd heq.1 he
        · split
          · rename_i heq; simp at heq; exact absurd heq.1 he
          · rfl


theorem clean_insert_dot (d P : Path) (hd : d ≠ []) (hde : isEmptyS d = false) (hP : P ≠ []) :
    clean (d ++ "." :: P) = clean (d ++ P) := by
  unfold clean
  rw [isRooted_insert_dot d P hd hde hP]
  have : ∀ b acc, (d ++ "." :: P).foldl (cleanStep b) acc = (d ++ P).foldl (cleanStep b) acc := by
    intro b acc
    simp only [List.foldl_append, List.foldl_cons]
    congr 1
  simp only [this]

/-- `filepath.Join(d, ".", P) = filepath.Join(d, P)` -/
theorem join_dot_middle (d P : Path) (hd : d ≠ []) (hde : isEmptyS d = false) (hP : 2 ≤ P.length) :
    join [d, ["."], P] = join [d, P] := by
  have hPe : isEmptyS P = false := by
    cases P with
    | nil => simp at hP
    | cons a b =>
      cases b with
      | nil => simp at hP
      | cons c e => simp [isEmptyS]
  have hPn : P ≠ [] := by intro h; subst h; simp at hP
  have hdot : isEmptyS ["."] = false := by decide
  unfold join
  simp only [List.filter_cons, hde, hPe, hdot, Bool.not_false, if_true, List.filter_nil, List.isEmpty_cons,
    Bool.false_eq_true, if_false, List.flatten_cons, List.flatten_nil, List.append_nil]
  exact clean_insert_dot d P hd hde hPn

theorem cleanStep_no_empty (b : Bool) (acc : List String) (e : String) (h : ∀ x ∈ acc, x ≠ "") :
    ∀ x ∈ cleanStep b acc e, x ≠ "" := by
  unfold cleanStep
  split
  · exact h
  · rename_i hne
    split
    · split
      · split
        · intro x hx; cases hx
        · intro x hx; simp at hx; subst hx; decide
      · rename_i t rest
        split
        · intro x hx
          simp only [List.mem_cons] at hx
          rcases hx with rfl | hx
          · decide
          · exact h x (by simpa using hx)
        · intro x hx; exact h x (by simp [hx])
    · intro x hx
      simp only [List.mem_cons] at hx
      rcases hx with rfl | hx
      · intro h0; subst h0; simp at hne
      · exact h x hx

theorem foldl_cleanStep_no_empty (b : Bool) (l acc : List String) (h : ∀ x ∈ acc, x ≠ "") :
    ∀ x ∈ l.foldl (cleanStep b) acc, x ≠ "" := by
  induction l generalizing acc with
  | nil => exact h
  | cons e r ih => exact ih _ (cleanStep_no_empty b acc e h)

theorem clean_ne_nil (p : Path) : clean p ≠ [] := by
  unfold clean
  simp only
  split
  · split <;> simp
  · split
    · simp
    · rename_i h; simpa using h

theorem clean_not_emptyS (p : Path) : isEmptyS (clean p) = false := by
  unfold clean
  simp only
  split
  · split
    · decide
    · rename_i h1 h2
      cases hr : (List.foldl (cleanStep (isRooted p)) [] p).reverse with
      | nil => rw [hr] at h2; simp at h2
      | cons a b => simp [isEmptyS]
  · split
    · decide
    · rename_i h1 h2
      have hno := foldl_cleanStep_no_empty (isRooted p) p [] (by intro x hx; cases hx)
      generalize (List.foldl (cleanStep (isRooted p)) [] p) = out at h2 hno ⊢
      cases hr : out.reverse with
      | nil => rw [hr] at h2; simp at h2
      | cons a b =>
        cases b with
        | nil =>
          have ha : a ∈ out := by
            have : a ∈ out.reverse := by rw [hr]; simp
            simpa using this
          have := hno a ha
          simp [isEmptyS, this]
        | cons c d => simp [isEmptyS]

end YaegiVerif.Src
