import YaegiVerif.Model.Extract
import YaegiVerif.Spec.GoExtract
import YaegiVerif.Expected.C18
/-
  C18 — helper lemmas: what `genY` does with the switches read from today's extract.go.
-/
namespace YaegiVerif.Proofs.C18
open YaegiVerif YaegiVerif.Extract

/-- the switches genContent has today (what `knobsOf Expected.C18.facts` evaluates to) -/
def K : Knobs :=
  { restricted := ["logFatal", "logFatalf", "logFatalln", "logLogger", "logNew", "osExit", "osFindProcess"]
    hConst := true, hFunc := true, hVar := true, hType := true
    constFix := true
    addrConst := false, addrFunc := false, addrVar := true
    skipUnexported := true, skipGenericFunc := true, skipGenericType := true
    skipConstraintIface := false, skipNonMethodSet := true, skipUnexportedMethod := true
    variadicType := true, variadicArg := true, defaultNames := false, freshNames := true
    guardByName := false, guardStringer := true
    restrictedStdOnly := true, importIfUsed := true, qualifyForeign := true, qualifyDirectOnly := false
    litInt := true, litFloat := true, litString := true, litComplex := true
    prefixAll := true
    replaced := []
    tmplOk := true
    defaultMinor := 22 }

set_option maxRecDepth 100000 in
theorem knobs_expected : knobsOf Expected.C18.facts = K := by decide

@[simp] theorem K_hConst : K.hConst = true := rfl
@[simp] theorem K_hFunc : K.hFunc = true := rfl
@[simp] theorem K_hVar : K.hVar = true := rfl
@[simp] theorem K_hType : K.hType = true := rfl
@[simp] theorem K_constFix : K.constFix = true := rfl
@[simp] theorem K_addrConst : K.addrConst = false := rfl
@[simp] theorem K_addrFunc : K.addrFunc = false := rfl
@[simp] theorem K_addrVar : K.addrVar = true := rfl
@[simp] theorem K_skipUnexported : K.skipUnexported = true := rfl
@[simp] theorem K_skipGenericFunc : K.skipGenericFunc = true := rfl
@[simp] theorem K_skipGenericType : K.skipGenericType = true := rfl
@[simp] theorem K_skipConstraintIface : K.skipConstraintIface = false := rfl
@[simp] theorem K_skipNonMethodSet : K.skipNonMethodSet = true := rfl
@[simp] theorem K_freshNames : K.freshNames = true := rfl
@[simp] theorem K_guardByName : K.guardByName = false := rfl
@[simp] theorem K_guardStringer : K.guardStringer = true := rfl
@[simp] theorem K_restrictedStdOnly : K.restrictedStdOnly = true := rfl
@[simp] theorem K_importIfUsed : K.importIfUsed = true := rfl
@[simp] theorem K_qualifyForeign : K.qualifyForeign = true := rfl
@[simp] theorem K_litComplex : K.litComplex = true := rfl
@[simp] theorem K_prefixAll : K.prefixAll = true := rfl
@[simp] theorem K_skipUnexportedMethod : K.skipUnexportedMethod = true := rfl
@[simp] theorem K_variadicType : K.variadicType = true := rfl
@[simp] theorem K_variadicArg : K.variadicArg = true := rfl
@[simp] theorem K_defaultNames : K.defaultNames = false := rfl
@[simp] theorem K_litInt : K.litInt = true := rfl
@[simp] theorem K_litFloat : K.litFloat = true := rfl
@[simp] theorem K_litString : K.litString = true := rfl
@[simp] theorem K_tmplOk : K.tmplOk = true := rfl

/-! ### per-object behaviour -/

theorem valForm_K (p : Pkg) (o : Obj) :
    valForm K p o =
      if o.exported = false then none else
      match o.kind with
      | .const none => some (.value (pname K p o.name))
      | .const (some v) => some (fixConst K (pname K p o.name) v)
      | .func g => if g then none else some (.value (pname K p o.name))
      | .var => some (.addr (pname K p o.name))
      | _ => none := by
  unfold valForm
  cases hx : o.exported <;> simp [bindForm]
  cases o.kind <;> first | rfl | (rename_i u; cases u <;> rfl)

theorem typKept_K (o : Obj) :
    typKept K o = (o.exported && match o.kind with
      | .typ g => !g
      | .iface g _ methodSet _ => !g && methodSet
      | _ => false) := by
  unfold typKept
  cases hx : o.exported <;> cases o.kind <;> simp

theorem wrapKept_K (o : Obj) :
    wrapKept K o = (o.exported && match o.kind with
      | .iface g _ methodSet _ => !g && methodSet
      | _ => false) := by
  unfold wrapKept
  rw [typKept_K]
  cases o.exported <;> cases o.kind <;> simp

/-- fixConst never binds by address and never produces an odd form -/
theorem fixConst_K (id : Ident) (v : CVal) :
    fixConst K id v = match v with
      | .int n => .lit .INT (.int n)
      | .flt n d prec => .lit .FLOAT (.rat (floatText n d prec).1 (floatText n d prec).2)
      | .str s => .lit .STRING (.str s)
      | .bool _ => .value id
      | .cplx re im => .lit .COMPLEX (.cplx (fixPart re) (fixPart im)) := by
  cases v <;> simp [fixConst, bindForm]

/-! ### membership in the four sections -/

theorem mem_valEntries (p : Pkg) (e : Entry) : ∀ os : List Obj,
    e ∈ valEntries K p os ↔ ∃ o ∈ os, ∃ f, valForm K p o = some f ∧ e = ⟨o.name, f⟩
  | [] => by simp [valEntries]
  | o :: os => by
    have ih := mem_valEntries p e os
    unfold valEntries
    cases h : valForm K p o with
    | none => simp [ih, h]
    | some f =>
      simp only [List.mem_cons, ih, K_tmplOk, if_true]
      constructor
      · rintro (rfl | ⟨o', ho', f', hf', rfl⟩)
        · exact ⟨o, Or.inl rfl, f, h, rfl⟩
        · exact ⟨o', Or.inr ho', f', hf', rfl⟩
      · rintro ⟨o', (rfl | ho'), f', hf', rfl⟩
        · rw [h] at hf'; cases hf'; exact Or.inl rfl
        · exact Or.inr ⟨o', ho', f', hf', rfl⟩

theorem mem_typEntries (p : Pkg) (e : Entry) : ∀ os : List Obj,
    e ∈ typEntries K p os ↔ ∃ o ∈ os, typKept K o = true ∧ e = ⟨o.name, .typ (pname K p o.name)⟩
  | [] => by simp [typEntries]
  | o :: os => by
    have ih := mem_typEntries p e os
    unfold typEntries
    cases h : typKept K o <;> simp [ih, h]

theorem mem_wrapEntries (p : Pkg) (e : Entry) : ∀ os : List Obj,
    e ∈ wrapEntries K p os ↔ ∃ o ∈ os, wrapKept K o = true ∧ e = ⟨"_" ++ o.name, .wrap (mangle K p.importPath ++ o.name)⟩
  | [] => by simp [wrapEntries]
  | o :: os => by
    have ih := mem_wrapEntries p e os
    unfold wrapEntries
    cases h : wrapKept K o <;> simp [ih, h]

theorem mem_wtypes (p : Pkg) (w : WType) : ∀ os : List Obj,
    w ∈ wtypes K p os ↔ ∃ o ∈ os, wrapKept K o = true ∧ w = wtypeOf K p o
  | [] => by simp [wtypes]
  | o :: os => by
    have ih := mem_wtypes p w os
    unfold wtypes
    cases h : wrapKept K o <;> simp [ih, h]

end YaegiVerif.Proofs.C18
