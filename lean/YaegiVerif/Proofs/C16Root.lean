import YaegiVerif.Proofs.C16PkgDir
/-
  C16 — rootFromDir / rootFromSourceLocation / mainRoot on clean arguments: the directory of an input file
  below an absolute GOPATH/src is its path below GOPATH/src; and what `lookup` does from `noRoot`.
-/
namespace YaegiVerif.Src
open YaegiVerif

theorem strDropPrefix_empty (s : String) : strDropPrefix? "" s = some s := by
  simp [strDropPrefix?]

/-- `strings.TrimPrefix(g + "/" + t, g + "/") = t` -/
theorem dropPrefix_slash (g : List String) (t0 : String) (t : List String) :
    dropPrefix? (g ++ [""]) (g ++ t0 :: t) = some (t0 :: t) := by
  induction g with
  | nil => simp [dropPrefix?, strDropPrefix_empty]
  | cons a g ih =>
    cases hq : g ++ [""] with
    | nil => simp at hq
    | cons x y =>
      simp only [List.cons_append, hq]
      rw [hq] at ih
      simp [dropPrefix?, ih]

theorem trimPrefix_slash (g t : List String) (ht : t ≠ []) : trimPrefix (g ++ t) (g ++ [""]) = t := by
  unfold trimPrefix
  cases t with
  | nil => exact absurd rfl ht
  | cons t0 t => rw [dropPrefix_slash]; rfl

theorem isRooted_append (g t : List String) (h : isRooted g = true) : isRooted (g ++ t) = true := by
  cases g with
  | nil => simp [isRooted] at h
  | cons a g1 =>
    cases g1 with
    | nil => simp [isRooted] at h
    | cons b g2 =>
      by_cases ha : a = ""
      · subst ha; rfl
      · unfold isRooted at h; split at h
        · rename_i heq; simp only [List.cons.injEq] at heq; exact absurd heq.1 ha
        · cases h

/-- **The root of a directory below an absolute GOPATH/src is its path below GOPATH/src**, whatever the
    working directory -/
theorem rootFromDir_below (wd goPath : Path) (r : List String) (hgo : goodPath goPath = true)
    (habs : isRooted goPath = true) (hr : NormRel r = true) (hne : r ≠ []) :
    rootFromDir W wd goPath (goPath ++ ["src"] ++ r) = some r := by
  have hgs := goodPath_gs goPath hgo
  have hsrc : W.src = "src" := rfl
  have hj : join [goPath, [W.src]] = goPath ++ ["src"] := by
    rw [hsrc]
    have hf : flat [goPath, ["src"]] = goPath ++ ["src"] := by
      rw [flat_cons_good _ _ hgo, flat_cons_elem _ _ (by decide), flat_nil]
    rw [join_good _ (by rw [hf]; exact hgs), hf]
  have hgr : goodPath (goPath ++ ["src"] ++ r) = true := goodPath_append _ _ hgs hr
  unfold rootFromDir absPath
  rw [hj, isRooted_append _ _ (isRooted_append _ ["src"] habs), isRooted_append _ ["src"] habs]
  simp only [if_true]
  rw [clean_good _ hgr, clean_good _ hgs, trimPrefix_slash _ r hne]
  have hlen : (r == goPath ++ ["src"] ++ r) = false := by
    rw [beq_eq_false_iff_ne]
    intro h0
    have := congrArg List.length h0
    simp only [List.length_append, List.length_cons, List.length_nil] at this
    omega
  rw [hlen]; rfl

theorem rootFromSourceLocation_below (wd goPath : Path) (r : List String) (file : String) (hgo : goodPath goPath = true)
    (habs : isRooted goPath = true) (hr : NormRel r = true) (hne : r ≠ []) :
    rootFromSourceLocation W wd (goPath ++ ["src"] ++ r ++ [file]) goPath = some r := by
  have hgs := goodPath_gs goPath hgo
  have hgr : goodPath (goPath ++ ["src"] ++ r) = true := goodPath_append _ _ hgs hr
  unfold rootFromSourceLocation
  have h1 : (goPath ++ ["src"] ++ r ++ [file] == [W.defaultName]) = false := by
    rw [beq_eq_false_iff_ne]
    intro h0
    have := congrArg List.length h0
    have hl : 0 < r.length := List.length_pos_iff.mpr hne
    simp at this
    omega
  have h2 : isEmptyS (goPath ++ ["src"] ++ r ++ [file]) = false := by
    unfold isEmptyS
    have a1 : (goPath ++ ["src"] ++ r ++ [file] == [""]) = false := by
      rw [beq_eq_false_iff_ne]
      intro h0
      have := congrArg List.length h0
      have hl : 0 < r.length := List.length_pos_iff.mpr hne
      simp at this
      omega
    have a2 : (goPath ++ ["src"] ++ r ++ [file] == []) = false := by
      rw [beq_eq_false_iff_ne]; simp
    rw [a1, a2]; rfl
  rw [h1, h2]
  simp only [Bool.or_self, Bool.false_eq_true, if_false]
  rw [dir_snoc _ _ hgr]
  exact rootFromDir_below wd goPath r hgo habs hr hne

/-- from `noRoot`, what importSrc's resolution finds is GOPATH/src/<P> or nothing: no vendor directory applies -/
theorem lookup_noRoot (f : FS) (goPath : Path) (P : List String) (hgo : goodPath goPath = true)
    (hrel : f.mapfs = true → NormRel goPath = true) (hP : NormRel P = true) (hne : P ≠ []) :
    lookup W f goPath [W.noRoot] P =
      if Spec.isDir f (goPath ++ ["src"] ++ P) then .found (goPath ++ ["src"] ++ P) emptyS else .notFound := by
  unfold lookup
  have hg : W.goFilesSkip = true := rfl
  have hfu : goFuel [W.noRoot] = 4 + 1 := rfl
  have hdf : defaultFuel [W.noRoot] = 19 + 1 := rfl
  rw [hg, if_pos rfl, hfu]
  unfold goPkgDir
  rw [hdf, pkgDir_noRoot f goPath P hgo hrel hP hne]
  have hven : W.vendor = "vendor" := rfl
  cases Spec.isDir f (goPath ++ ["src"] ++ P) with
  | true => simp [base, isEmptyS, emptyS, hven]
  | false => simp

theorem isPathRelative_norm (P : List String) (h : NormRel P = true) : isPathRelative P = false := by
  match P, h with
  | [], _ => rfl
  | [_], _ => rfl
  | a :: b :: t, h =>
    have ha : normElem a = true := by
      simp only [NormRel, List.all_cons, Bool.and_eq_true] at h; exact h.1
    simp only [normElem, Bool.and_eq_true, bne_iff_ne, ne_eq] at ha
    simp [isPathRelative, ha.1.2, ha.2]

/-- `lookup` from the directory of a package is the Go rule -/
theorem lookup_levels (f : FS) (goPath : Path) (r P : List String) (D : WF f goPath r P) :
    lookup W f goPath (pathOf r) P = resultFrom f (goPath ++ ["src"]) r P r.length := by
  unfold lookup
  have hg : W.goFilesSkip = true := rfl
  rw [hg, if_pos rfl]
  have := goPkgDir_levels f goPath r P D r.length (Nat.le_refl _) (goFuel (pathOf r)) (by
    unfold goFuel pathOf
    cases r with
    | nil => simp [emptyS]
    | cons a b => simp)
  rw [List.take_length] at this
  exact this

end YaegiVerif.Src
