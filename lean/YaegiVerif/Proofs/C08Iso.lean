import YaegiVerif.Model.Conc
/-
  C08 — non-interference of activations (helper lemmas).

  Setting: no statement of the program has generator-level operand variables (`NoShare`), the channel
  tables of distinct activations are disjoint (`Disjoint`: every worker got its own channels), and the
  latched operands of every activation name only its own channels (`Owned`, an invariant).  Then a step of
  activation j ≠ i changes neither activation i nor any channel of i, and a step of i is a function of
  activation i and of i's channels only.  Induction over the schedule gives: what i does under ANY schedule
  is what it does when run alone.
-/
namespace YaegiVerif.Conc

def NoShare (cw : CW) (prog : List Stmt) : Prop := ∀ s ∈ prog, shared cw s = false

/-- distinct activations have disjoint channel tables (each goroutine was given private channels) -/
def Disjoint (σ : State) : Prop :=
  ∀ (i j : Nat) (a b : Act), i ≠ j → σ.acts[i]? = some a → σ.acts[j]? = some b → ∀ c ∈ a.chans, c ∉ b.chans

def ActOwned (a : Act) : Prop := ∀ c, some c ∈ a.scr.chs → c ∈ a.chans

/-- latched operands name only the activation's own channels -/
def Owned (σ : State) : Prop := ∀ (i : Nat) (a : Act), σ.acts[i]? = some a → ActOwned a

/-! ### one activation -/

theorem operands_owned (s : Stmt) (a : Act) (c : ChanId) (h : some c ∈ (operands s a).chs) : c ∈ a.chans := by
  cases s <;> simp [operands] at h
  case send ch src => exact List.mem_of_getElem? h.symm
  case recv dst ok ch => exact List.mem_of_getElem? h.symm
  case range dst ch t => exact List.mem_of_getElem? h.symm
  case close ch => exact List.mem_of_getElem? h.symm
  case select cs =>
    obtain ⟨k, _, hk⟩ := h
    exact List.mem_of_getElem? hk

theorem ch_mem {ops : Ops} {k : Nat} {id : ChanId} (h : ops.ch k = some id) : some id ∈ ops.chs := by
  unfold Ops.ch at h
  cases hk : ops.chs[k]? with
  | none => simp [hk] at h
  | some v =>
    simp [hk] at h
    subst h
    exact List.mem_of_getElem? hk

theorem doRecv_props {h : ChanId → Chan} {a a' : Act} {id dst next : Nat} {ok : Option Nat} {u : Option (ChanId × Chan)}
    (he : doRecv h a id dst ok next = some (a', u)) :
    a'.chans = a.chans ∧ a'.scr = a.scr ∧ (∀ k c, u = some (k, c) → k = id) := by
  unfold doRecv at he
  split at he
  · simp at he
    obtain ⟨h1, h2⟩ := he
    subst h1; subst h2
    simp
  · split at he
    · simp at he
      obtain ⟨h1, h2⟩ := he
      subst h1; subst h2
      simp
    · simp at he

theorem doRange_props {h : ChanId → Chan} {a a' : Act} {id dst body exit : Nat} {u : Option (ChanId × Chan)}
    (he : doRange h a id dst body exit = some (a', u)) :
    a'.chans = a.chans ∧ a'.scr = a.scr ∧ (∀ k c, u = some (k, c) → k = id) := by
  unfold doRange at he
  split at he
  · simp at he
    obtain ⟨h1, h2⟩ := he
    subst h1; subst h2
    simp
  · split at he
    · simp at he
      obtain ⟨h1, h2⟩ := he
      subst h1; subst h2
      simp
    · simp at he

theorem doSend_props {h : ChanId → Chan} {a a' : Act} {id next : Nat} {v : Val} {u : Option (ChanId × Chan)}
    (he : doSend h a id v next = some (a', u)) :
    a'.chans = a.chans ∧ a'.scr = a.scr ∧ (∀ k c, u = some (k, c) → k = id) := by
  unfold doSend at he
  split at he
  · simp at he
    obtain ⟨h1, h2⟩ := he
    subst h1; subst h2
    simp
  · simp at he

/-- acting keeps the channel table and the operand variables, and touches at most one channel, which is
    among the latched operands -/
theorem execR_props {s : Stmt} {ops : Ops} {a a' : Act} {h : ChanId → Chan} {choice : Nat} {u : Option (ChanId × Chan)}
    (he : execR s ops a h choice = some (a', u)) :
    a'.chans = a.chans ∧ a'.scr = a.scr ∧ (∀ k c, u = some (k, c) → some k ∈ ops.chs) := by
  cases s
  case set dst v => simp [execR] at he; obtain ⟨h1, h2⟩ := he; subst h1; subst h2; simp
  case add dst x y => simp [execR] at he; obtain ⟨h1, h2⟩ := he; subst h1; subst h2; simp
  case addc dst x c => simp [execR] at he; obtain ⟨h1, h2⟩ := he; subst h1; subst h2; simp
  case jlt x y t => simp [execR] at he; obtain ⟨h1, h2⟩ := he; subst h1; subst h2; simp
  case jmp t => simp [execR] at he; obtain ⟨h1, h2⟩ := he; subst h1; subst h2; simp
  case print src => simp [execR] at he; obtain ⟨h1, h2⟩ := he; subst h1; subst h2; simp
  case halt => simp [execR] at he
  case send ch src =>
    simp only [execR] at he
    cases hc : ops.ch 0 with
    | none => simp [hc] at he
    | some id =>
      simp only [hc] at he
      obtain ⟨h1, h2, h3⟩ := doSend_props he
      exact ⟨h1, h2, fun k c hu => by rw [h3 k c hu]; exact ch_mem hc⟩
  case recv dst ok ch =>
    simp only [execR] at he
    cases hc : ops.ch 0 with
    | none => simp [hc] at he
    | some id =>
      simp only [hc] at he
      obtain ⟨h1, h2, h3⟩ := doRecv_props he
      exact ⟨h1, h2, fun k c hu => by rw [h3 k c hu]; exact ch_mem hc⟩
  case range dst ch t =>
    simp only [execR] at he
    cases hc : ops.ch 0 with
    | none => simp [hc] at he
    | some id =>
      simp only [hc] at he
      obtain ⟨h1, h2, h3⟩ := doRange_props he
      exact ⟨h1, h2, fun k c hu => by rw [h3 k c hu]; exact ch_mem hc⟩
  case close ch =>
    simp only [execR] at he
    cases hc : ops.ch 0 with
    | none => simp [hc] at he
    | some id =>
      simp only [hc] at he
      simp at he
      obtain ⟨h1, h2⟩ := he
      subst h1; subst h2
      refine ⟨rfl, rfl, fun k c hu => ?_⟩
      simp at hu
      rw [← hu.1]; exact ch_mem hc
  case select cs =>
    simp only [execR] at he
    split at he
    · split at he
      · simp at he; obtain ⟨h1, h2⟩ := he; subst h1; subst h2; simp
      · simp at he
    · rename_i r rs _
      generalize (r :: rs).getD (choice % (r :: rs).length) r = kc at he
      split at he
      · rename_i id hd hc
        obtain ⟨h1, h2, h3⟩ := doRecv_props he
        exact ⟨h1, h2, fun k c hu => by rw [h3 k c hu]; exact ch_mem hc⟩
      · rename_i id hd hc
        obtain ⟨h1, h2, h3⟩ := doSend_props he
        exact ⟨h1, h2, fun k c hu => by rw [h3 k c hu]; exact ch_mem hc⟩
      · simp at he

theorem restrict_congr {ops : Ops} {h1 h2 : ChanId → Chan} (hag : ∀ id, some id ∈ ops.chs → h1 id = h2 id) :
    restrict ops h1 = restrict ops h2 := by
  funext id
  unfold restrict
  split
  · rename_i hm; exact hag id hm
  · rfl

/-- acting depends on the heap only through the channels among the latched operands -/
theorem exec_congr (s : Stmt) (ops : Ops) (a : Act) (choice : Nat) {h1 h2 : ChanId → Chan}
    (hag : ∀ id, some id ∈ ops.chs → h1 id = h2 id) : exec s ops a h1 choice = exec s ops a h2 choice := by
  unfold exec
  rw [restrict_congr hag]

theorem attempt_props (s : Stmt) (ops : Ops) (a : Act) (choice : Nat) (h : ChanId → Chan) :
    (attempt s ops a choice h).act.chans = a.chans ∧ (attempt s ops a choice h).act.scr = ops ∧
    (attempt s ops a choice h).st = none ∧
    (∀ k c, (attempt s ops a choice h).upd = some (k, c) → some k ∈ ops.chs) := by
  unfold attempt
  cases he : exec s ops a h choice with
  | none => simp
  | some r =>
    obtain ⟨a', u⟩ := r
    obtain ⟨h1, _, h3⟩ := execR_props (by unfold exec at he; exact he)
    simp [h1]
    exact h3

theorem attempt_congr (s : Stmt) (ops : Ops) (a : Act) (choice : Nat) {h1 h2 : ChanId → Chan}
    (hag : ∀ id, some id ∈ ops.chs → h1 id = h2 id) : attempt s ops a choice h1 = attempt s ops a choice h2 := by
  unfold attempt
  rw [exec_congr s ops a choice hag]

/-- one step of an activation without generator-level operand variables: channel table kept, operands
    stay owned, only own channels are updated, the statement state is untouched -/
theorem stepAct_props (cw : CW) (s : Stmt) (a : Act) (choice : Nat) (h : ChanId → Chan) (gv : Ops)
    (hs : shared cw s = false) (ho : ActOwned a) :
    (stepAct cw s a choice h gv).act.chans = a.chans ∧ ActOwned (stepAct cw s a choice h gv).act ∧
    (stepAct cw s a choice h gv).st = none ∧
    (∀ k c, (stepAct cw s a choice h gv).upd = some (k, c) → k ∈ a.chans) := by
  unfold stepAct
  cases hp : a.phase with
  | fresh =>
    simp [hs]
    intro c hc
    exact operands_owned s a c hc
  | filled =>
    simp only [hs, Bool.false_eq_true, if_false]
    obtain ⟨h1, h2, h3, h4⟩ := attempt_props s a.scr a choice h
    refine ⟨h1, ?_, h3, ?_⟩
    · intro c hc
      rw [h2] at hc
      rw [h1]; exact ho c hc
    · intro k c hu
      exact ho k (h4 k c hu)
  | waiting =>
    simp only []
    obtain ⟨h1, h2, h3, h4⟩ := attempt_props s a.scr a choice h
    refine ⟨h1, ?_, h3, ?_⟩
    · intro c hc
      rw [h2] at hc
      rw [h1]; exact ho c hc
    · intro k c hu
      exact ho k (h4 k c hu)

/-- … and it is a function of the activation and of its own channels -/
theorem stepAct_congr (cw : CW) (s : Stmt) (a : Act) (choice : Nat) {h1 h2 : ChanId → Chan} (gv1 gv2 : Ops)
    (hs : shared cw s = false) (ho : ActOwned a) (hag : ∀ c ∈ a.chans, h1 c = h2 c) :
    stepAct cw s a choice h1 gv1 = stepAct cw s a choice h2 gv2 := by
  unfold stepAct
  cases hp : a.phase with
  | fresh => simp [hs]
  | filled =>
    simp only [hs, Bool.false_eq_true, if_false]
    exact attempt_congr s a.scr a choice (fun id hid => hag id (ho id hid))
  | waiting =>
    simp only []
    exact attempt_congr s a.scr a choice (fun id hid => hag id (ho id hid))

/-! ### the whole state -/

theorem lt_of_getElem? {α : Type} {l : List α} {i : Nat} {a : α} (h : l[i]? = some a) : i < l.length := by
  obtain ⟨hl, _⟩ := List.getElem?_eq_some_iff.mp h
  exact hl

/-- either nothing happens or the picked activation takes one `stepAct` -/
theorem step_cases (cw : CW) (prog : List Stmt) (p : Pick) (σ : State) :
    step cw prog p σ = σ ∨
    ∃ a s, σ.acts[p.act]? = some a ∧ s ∈ prog ∧
      step cw prog p σ =
        { acts := σ.acts.set p.act (stepAct cw s a p.choice σ.heap (σ.stmt a.pc)).act,
          heap := applyUpd σ.heap (stepAct cw s a p.choice σ.heap (σ.stmt a.pc)).upd,
          stmt := applySt σ.stmt (stepAct cw s a p.choice σ.heap (σ.stmt a.pc)).st } := by
  unfold step
  cases ha : σ.acts[p.act]? with
  | none => left; rfl
  | some a =>
    cases hs : prog[a.pc]? with
    | none => left; simp only [hs]
    | some s => right; exact ⟨a, s, rfl, List.mem_of_getElem? hs, by simp only [hs]⟩

theorem step_acts_other (cw : CW) (prog : List Stmt) (p : Pick) (σ : State) (i : Nat) (h : p.act ≠ i) :
    (step cw prog p σ).acts[i]? = σ.acts[i]? := by
  rcases step_cases cw prog p σ with h0 | ⟨a, s, _, _, h1⟩
  · rw [h0]
  · rw [h1]; exact List.getElem?_set_ne h

/-- every activation after a step is an activation before the step with the same channel table, and is owned -/
theorem step_act_inv (cw : CW) (prog : List Stmt) (hns : NoShare cw prog) (p : Pick) (σ : State) (ho : Owned σ)
    (i : Nat) (a' : Act) (h : (step cw prog p σ).acts[i]? = some a') :
    ∃ a, σ.acts[i]? = some a ∧ a'.chans = a.chans ∧ ActOwned a' := by
  rcases step_cases cw prog p σ with h0 | ⟨a, s, ha, hs, h1⟩
  · rw [h0] at h; exact ⟨a', h, rfl, ho i a' h⟩
  · rw [h1] at h
    simp only [List.getElem?_set] at h
    split at h
    · rename_i hpi
      split at h
      · simp at h
        subst hpi
        obtain ⟨p1, p2, _, _⟩ := stepAct_props cw s a p.choice σ.heap (σ.stmt a.pc) (hns s hs) (ho p.act a ha)
        exact ⟨a, ha, by rw [← h]; exact p1, by rw [← h]; exact p2⟩
      · simp at h
    · exact ⟨a', h, rfl, ho i a' h⟩

theorem step_owned (cw : CW) (prog : List Stmt) (hns : NoShare cw prog) (p : Pick) (σ : State) (ho : Owned σ) :
    Owned (step cw prog p σ) := by
  intro i a' h
  obtain ⟨_, _, _, h3⟩ := step_act_inv cw prog hns p σ ho i a' h
  exact h3

theorem step_disjoint (cw : CW) (prog : List Stmt) (hns : NoShare cw prog) (p : Pick) (σ : State) (ho : Owned σ)
    (hd : Disjoint σ) : Disjoint (step cw prog p σ) := by
  intro i j a' b' hij ha hb c hc
  obtain ⟨a, ha0, hac, _⟩ := step_act_inv cw prog hns p σ ho i a' ha
  obtain ⟨b, hb0, hbc, _⟩ := step_act_inv cw prog hns p σ ho j b' hb
  rw [hbc]; rw [hac] at hc
  exact hd i j a b hij ha0 hb0 c hc

/-- a step of another activation leaves the channels of activation `i` alone -/
theorem step_heap_other (cw : CW) (prog : List Stmt) (hns : NoShare cw prog) (p : Pick) (σ : State) (ho : Owned σ)
    (hd : Disjoint σ) (i : Nat) (hpi : p.act ≠ i) (b : Act) (hb : σ.acts[i]? = some b) (c : ChanId) (hc : c ∈ b.chans) :
    (step cw prog p σ).heap c = σ.heap c := by
  rcases step_cases cw prog p σ with h0 | ⟨a, s, ha, hs, h1⟩
  · rw [h0]
  · rw [h1]
    obtain ⟨_, _, _, p4⟩ := stepAct_props cw s a p.choice σ.heap (σ.stmt a.pc) (hns s hs) (ho p.act a ha)
    simp only []
    cases hu : (stepAct cw s a p.choice σ.heap (σ.stmt a.pc)).upd with
    | none => rfl
    | some kc =>
      obtain ⟨k, ch⟩ := kc
      have hk : k ∈ a.chans := p4 k ch hu
      have : c ≠ k := by
        intro hck; subst hck
        exact hd i p.act b a (Ne.symm hpi) hb ha c hc hk
      simp [applyUpd, this]

/-- the view of activation `i`: the activation itself and its own channels -/
def Agree (i : Nat) (σ τ : State) : Prop :=
  σ.acts[i]? = τ.acts[i]? ∧ ∀ a, σ.acts[i]? = some a → ∀ c ∈ a.chans, σ.heap c = τ.heap c

theorem agree_step_other (cw : CW) (prog : List Stmt) (hns : NoShare cw prog) (p : Pick) (σ τ : State) (ho : Owned σ)
    (hd : Disjoint σ) (i : Nat) (hpi : p.act ≠ i) (hag : Agree i σ τ) : Agree i (step cw prog p σ) τ := by
  obtain ⟨h1, h2⟩ := hag
  refine ⟨by rw [step_acts_other cw prog p σ i hpi]; exact h1, ?_⟩
  intro a ha c hc
  rw [step_acts_other cw prog p σ i hpi] at ha
  rw [step_heap_other cw prog hns p σ ho hd i hpi a ha c hc]
  exact h2 a ha c hc

theorem agree_step_self (cw : CW) (prog : List Stmt) (hns : NoShare cw prog) (p : Pick) (σ τ : State) (ho : Owned σ)
    (i : Nat) (hpi : p.act = i) (hag : Agree i σ τ) : Agree i (step cw prog p σ) (step cw prog p τ) := by
  obtain ⟨h1, h2⟩ := hag
  subst hpi
  unfold step
  cases ha : σ.acts[p.act]? with
  | none =>
    rw [ha] at h1
    simp only [← h1]
    exact ⟨by rw [ha]; exact h1, fun a haa => by rw [ha] at haa; simp at haa⟩
  | some a =>
    rw [ha] at h1
    simp only [← h1]
    cases hs : prog[a.pc]? with
    | none =>
      simp only []
      exact ⟨by rw [ha]; exact h1, fun b hb c hc => h2 b hb c hc⟩
    | some s =>
      have hsm : s ∈ prog := List.mem_of_getElem? hs
      have hoa : ActOwned a := ho p.act a ha
      have hcg := stepAct_congr cw s a p.choice (σ.stmt a.pc) (τ.stmt a.pc) (hns s hsm) hoa (h2 a ha)
      obtain ⟨p1, _, _, _⟩ := stepAct_props cw s a p.choice σ.heap (σ.stmt a.pc) (hns s hsm) hoa
      simp only []
      rw [← hcg]
      have hl1 : p.act < σ.acts.length := lt_of_getElem? ha
      have hl2 : p.act < τ.acts.length := lt_of_getElem? h1.symm
      refine ⟨by rw [List.getElem?_set_self hl1, List.getElem?_set_self hl2], ?_⟩
      intro b hb c hc
      rw [List.getElem?_set_self hl1] at hb
      simp at hb
      rw [← hb, p1] at hc
      have hcc := h2 a ha c hc
      cases hu : (stepAct cw s a p.choice σ.heap (σ.stmt a.pc)).upd with
      | none => simpa [applyUpd] using hcc
      | some kc =>
        obtain ⟨k, ch⟩ := kc
        simp only [applyUpd]
        split
        · rfl
        · exact hcc

/-- main induction: two states that agree on activation `i`'s view keep agreeing when the left one runs
    the whole schedule and the right one only the picks of `i` -/
theorem agree_run (cw : CW) (prog : List Stmt) (hns : NoShare cw prog) (i : Nat) :
    ∀ (sched : List Pick) (σ τ : State), Owned σ → Disjoint σ → Agree i σ τ →
      Agree i (run cw prog sched σ) (run cw prog (picksOf i sched) τ) := by
  intro sched
  induction sched with
  | nil => intro σ τ _ _ h; exact h
  | cons p ps ih =>
    intro σ τ ho hd hag
    have ho' := step_owned cw prog hns p σ ho
    have hd' := step_disjoint cw prog hns p σ ho hd
    by_cases hpi : p.act = i
    · have : picksOf i (p :: ps) = p :: picksOf i ps := by simp [picksOf, hpi]
      rw [this]
      exact ih _ _ ho' hd' (agree_step_self cw prog hns p σ τ ho i hpi hag)
    · have : picksOf i (p :: ps) = picksOf i ps := by simp [picksOf, hpi]
      rw [this]
      exact ih _ _ ho' hd' (agree_step_other cw prog hns p σ τ ho hd i hpi hag)

theorem agree_refl (i : Nat) (σ : State) : Agree i σ σ := ⟨rfl, fun _ _ _ _ => rfl⟩

end YaegiVerif.Conc
