import YaegiVerif.Model.ConcFrames
/-
  C08 — frames (helper lemmas): with arguments copied into fresh cells, every cell reachable from a frame
  was allocated by that frame (`Owns`), for every sequence of writes, definitions and calls; hence distinct
  frames reach disjoint cells and an operation executed in one frame never changes what another frame reads.
-/
namespace YaegiVerif.ConcFrames

theorem lt_of_getElem? {α : Type} {l : List α} {i : Nat} {a : α} (h : l[i]? = some a) : i < l.length := by
  obtain ⟨hl, _⟩ := List.getElem?_eq_some_iff.mp h
  exact hl

theorem owns_disjoint {m : Mem} (ho : Owns m) {i j : Nat} {f g : List Nat} (hij : i ≠ j)
    (hf : m.frames[i]? = some f) (hg : m.frames[j]? = some g) : ∀ c ∈ f, c ∉ g := by
  intro c hc hc'
  have h1 := ho.2 i f hf c hc
  have h2 := ho.2 j g hg c hc'
  rw [h1] at h2
  simp at h2
  exact hij h2

theorem cellOf_mem {m : Mem} {fr slot c : Nat} (h : cellOf m fr slot = some c) :
    ∃ f, m.frames[fr]? = some f ∧ c ∈ f := by
  unfold cellOf at h
  cases hf : m.frames[fr]? with
  | none => simp [hf] at h
  | some f =>
    simp [hf] at h
    exact ⟨f, rfl, List.mem_of_getElem? h⟩

theorem stepOp_owns (m : Mem) (op : Op) (ho : Owns m) : Owns (stepOp true m op) := by
  obtain ⟨hlen, hown⟩ := ho
  cases op with
  | write fr slot v =>
    cases hc : cellOf m fr slot with
    | none => simp only [stepOp, hc]; exact ⟨hlen, hown⟩
    | some c => simp only [stepOp, hc]; exact ⟨by simp [hlen], hown⟩
  | define fr slot v =>
    cases hf : m.frames[fr]? with
    | none => simp only [stepOp, hf]; exact ⟨hlen, hown⟩
    | some f =>
      simp only [stepOp, hf]
      refine ⟨by simp [hlen], ?_⟩
      intro i g hg c hc
      simp only [List.getElem?_set] at hg
      split at hg
      · rename_i hfi
        split at hg
        · simp at hg
          subst hfi; subst hg
          rcases List.mem_or_eq_of_mem_set hc with hin | heq
          · have := hown fr f hf c hin
            rw [List.getElem?_append_left (lt_of_getElem? this)]
            exact this
          · subst heq
            rw [List.getElem?_append_right (by omega)]
            simp [hlen]
        · simp at hg
      · have := hown i g hg c hc
        rw [List.getElem?_append_left (lt_of_getElem? this)]
        exact this
  | call fr args =>
    simp only [stepOp, if_true]
    refine ⟨by simp [hlen], ?_⟩
    intro i g hg c hc
    by_cases hi : i < m.frames.length
    · rw [List.getElem?_append_left hi] at hg
      have := hown i g hg c hc
      rw [List.getElem?_append_left (lt_of_getElem? this)]
      exact this
    · rw [List.getElem?_append_right (by omega)] at hg
      have hi0 : i - m.frames.length = 0 := by
        cases hk : i - m.frames.length with
        | zero => rfl
        | succ k => rw [hk] at hg; simp at hg
      rw [hi0] at hg
      simp at hg
      subst hg
      have hcr := List.mem_range'_1.mp hc
      rw [List.getElem?_append_right (by omega)]
      rw [List.getElem?_replicate]
      have : c - m.owner.length < args.length := by omega
      simp [this]
      omega

theorem runOps_owns : ∀ (ops : List Op) (m : Mem), Owns m → Owns (runOps true ops m) := by
  intro ops
  induction ops with
  | nil => intro m h; exact h
  | cons o os ih => intro m h; exact ih _ (stepOp_owns m o h)

/-- an operation executed in another frame changes neither the slot array of frame `k` nor what it reads -/
theorem stepOp_other (m : Mem) (op : Op) (ho : Owns m) (k : Nat) (f : List Nat) (hk : m.frames[k]? = some f)
    (hne : op.frame ≠ k) :
    (stepOp true m op).frames[k]? = some f ∧ ∀ slot, read (stepOp true m op) k slot = read m k slot := by
  obtain ⟨hlen, hown⟩ := ho
  cases op with
  | write fr slot v =>
    simp only [Op.frame] at hne
    cases hc : cellOf m fr slot with
    | none => simp only [stepOp, hc]; exact ⟨hk, fun _ => trivial⟩
    | some c =>
      simp only [stepOp, hc]
      refine ⟨hk, fun sl => ?_⟩
      unfold read cellOf
      simp only [hk]
      cases hs : f[sl]? with
      | none => simp [hs]
      | some c' =>
        simp only [hs, Option.bind_some, List.getD_eq_getElem?_getD]
        obtain ⟨g, hg, hcg⟩ := cellOf_mem hc
        have hne' : c ≠ c' := by
          intro h; subst h
          exact owns_disjoint ⟨hlen, hown⟩ hne hg hk c hcg (List.mem_of_getElem? hs)
        rw [List.getElem?_set_ne hne']
  | define fr slot v =>
    simp only [Op.frame] at hne
    cases hf : m.frames[fr]? with
    | none => simp only [stepOp, hf]; exact ⟨hk, fun _ => trivial⟩
    | some g =>
      simp only [stepOp, hf]
      have hfk : (m.frames.set fr (g.set slot m.cells.length))[k]? = some f := by
        rw [List.getElem?_set_ne hne]; exact hk
      refine ⟨hfk, fun sl => ?_⟩
      unfold read cellOf
      simp only [hfk, hk]
      cases hs : f[sl]? with
      | none => simp [hs]
      | some c' =>
        simp only [hs, Option.bind_some, List.getD_eq_getElem?_getD]
        have := hown k f hk c' (List.mem_of_getElem? hs)
        have hlt : c' < m.cells.length := by rw [← hlen]; exact lt_of_getElem? this
        rw [List.getElem?_append_left hlt]
  | call fr args =>
    simp only [stepOp, if_true]
    have hkl : k < m.frames.length := lt_of_getElem? hk
    have hfk : (m.frames ++ [List.range' m.cells.length args.length])[k]? = some f := by
      rw [List.getElem?_append_left hkl]; exact hk
    refine ⟨hfk, fun sl => ?_⟩
    unfold read cellOf
    simp only [hfk, hk]
    cases hs : f[sl]? with
    | none => simp [hs]
    | some c' =>
      simp only [hs, Option.bind_some, List.getD_eq_getElem?_getD]
      have := hown k f hk c' (List.mem_of_getElem? hs)
      have hlt : c' < m.cells.length := by rw [← hlen]; exact lt_of_getElem? this
      rw [List.getElem?_append_left hlt]

theorem runOps_other : ∀ (ops : List Op) (m : Mem), Owns m → ∀ (k : Nat) (f : List Nat), m.frames[k]? = some f →
    (∀ op ∈ ops, op.frame ≠ k) → ∀ slot, read (runOps true ops m) k slot = read m k slot := by
  intro ops
  induction ops with
  | nil => intro m _ k f _ _ slot; rfl
  | cons o os ih =>
    intro m ho k f hk hall slot
    obtain ⟨h1, h2⟩ := stepOp_other m o ho k f hk (hall o (by simp))
    simp only [runOps]
    rw [ih (stepOp true m o) (stepOp_owns m o ho) k f h1 (fun op hop => hall op (by simp [hop])) slot]
    exact h2 slot

theorem read_new_frame (m : Mem) (vals : List Val) (own : List Nat) (n j : Nat) (hj : j < n) :
    read { cells := m.cells ++ vals, owner := own, frames := m.frames ++ [List.range' m.cells.length n] } m.frames.length j
      = vals.getD j 0 := by
  unfold read cellOf
  simp [hj, List.getD_eq_getElem?_getD]
  rw [List.getElem?_append_right (by omega)]
  simp

/-- the callee's parameters hold the argument values read at the call -/
theorem call_reads_args (m : Mem) (fr : Nat) (args : List Nat) (j : Nat) (hj : j < args.length) :
    read (stepOp true m (.call fr args)) m.frames.length j = read m fr (args.getD j 0) := by
  simp only [stepOp, if_true]
  rw [read_new_frame m _ _ args.length j hj]
  simp [List.getD_eq_getElem?_getD, hj]

end YaegiVerif.ConcFrames
