import YaegiVerif.Model.Unwind
import YaegiVerif.Spec.GoDefer
/-
  C06 — the decidable domain of the refinement theorem, and facts about the specification alone.
-/
namespace YaegiVerif.Unwind

/-- the tree contains a panic statement (explicit or fault) somewhere: in the body, in a callee, in a deferred callee -/
def mayPanic : Code → Bool
  | .done => false
  | .print _ k => mayPanic k
  | .printArg k => mayPanic k
  | .call f _ _ k => mayPanic f || mayPanic k
  | .defer f _ k => mayPanic f || mayPanic k
  | .deferBin _ _ k => mayPanic k
  | .deferDel _ k => mayPanic k
  | .probe _ k => mayPanic k
  | .panic _ _ => true
  | .recover _ k => mayPanic k
  | .repanic _ => true
  | .setRes _ k => mayPanic k
  | .setOuter _ k => mayPanic k

/-- `domBody code seen`, `seen` = a defer statement of this body has already executed. Excluded:
    * a deferred callee that may panic while another deferred call of the same frame is pending (F07);
    * `if x := recover(); x != nil { panic(x) }` (the value comes back boxed once more, F06-3).
    Statements after a `panic` are dead. (Until the repair of F06-1 a defer statement whose argument is the
    named result variable was excluded too: the three sites stored the frame slot, not its value.) -/
def domBody : Code → Bool → Bool
  | .done, _ => true
  | .print _ k, s => domBody k s
  | .printArg k, s => domBody k s
  | .call f _ _ k, s => domBody f false && domBody k s
  | .defer f _ k, s => domBody f false && (!s || !mayPanic f) && domBody k true
  | .deferBin _ _ k, _ => domBody k true
  | .deferDel _ k, _ => domBody k true
  | .probe _ k, s => domBody k s
  | .panic _ _, _ => true
  | .recover _ k, s => domBody k s
  | .repanic _, _ => false
  | .setRes _ k, s => domBody k s
  | .setOuter _ k, s => domBody k s

/-- `NoPanicInDeferred`-style domain of `defer_lifo_exactly_once_partial` (decidable) -/
def Dom (c : Code) : Bool := domBody c false

def Entry.quiet (e : Entry) : Bool :=
  match e.callee with
  | .src c => !mayPanic c
  | _ => true

def Entry.ok (e : Entry) : Bool :=
  (match e.callee with | .src c => Dom c | _ => true) &&
  (match e.arg with | .val _ => true | .refRes => false)

/-- every entry is in the domain, and every entry except the last (the first one registered) is quiet -/
def entriesOK : List Entry → Bool
  | [] => true
  | [e] => e.ok
  | e :: e' :: es => e.ok && e.quiet && entriesOK (e' :: es)

theorem entriesOK_cons (e : Entry) (es : List Entry) (h1 : e.ok = true) (h2 : es ≠ [] → e.quiet = true)
    (h3 : entriesOK es = true) : entriesOK (e :: es) = true := by
  cases es with
  | nil => simpa [entriesOK] using h1
  | cons e' es' => simp [entriesOK, h1, h2, h3]

namespace Spec

/-- a call that is not run by a panicking sequence hands back "nothing to recover" -/
def NoneStays (cs : CallFn) : Prop := ∀ code a outer w, (cs code a none outer w).2.1 = none

/-- a call tree without panic statements never ends in a panic -/
def Quiet (cs : CallFn) : Prop :=
  ∀ code a ctx outer w v, mayPanic code = false → (cs code a ctx outer w).1 ≠ .panic v

theorem execBody_none (cs : CallFn) :
    ∀ (code : Code) (a : Int) (outer : Int) (act : Act) (w : World),
      (execBody cs code a none outer act w).2.1 = none := by
  intro code
  induction code with
  | done => intros; rfl
  | print s k ih => intros; simp only [execBody]; apply ih
  | printArg k ih => intros; simp only [execBody]; apply ih
  | call f x sh k ihf ih =>
    intro a outer act w
    simp only [execBody]
    generalize cs f (evalArg x a act) none act.res w = r
    obtain ⟨sig, c', res', rr, w'⟩ := r
    cases sig with
    | normal => simp only; apply ih
    | panic v => rfl
    | fuel => rfl
  | defer f x k _ ih => intros; simp only [execBody]; apply ih
  | deferBin s x k ih => intros; simp only [execBody]; apply ih
  | deferDel t k ih => intros; simp only [execBody]; apply ih
  | probe t k ih => intros; simp only [execBody]; apply ih
  | panic v k _ => intros; rfl
  | recover sh k ih => intros; simp only [execBody]; apply ih
  | repanic k ih => intros; simp only [execBody]; apply ih
  | setRes n k ih => intros; simp only [execBody]; apply ih
  | setOuter n k ih => intros; simp only [execBody]; apply ih

theorem execFn_none : ∀ n, NoneStays (execFn n) := by
  intro n
  induction n with
  | zero => intro code a outer w; rfl
  | succ n ih =>
    intro code a outer w
    simp only [execFn]
    have hb := execBody_none (execFn n) code a outer ⟨[], 0⟩ w
    generalize execBody (execFn n) code a none outer ⟨[], 0⟩ w = r at hb ⊢
    obtain ⟨sig, c', o', act, w'⟩ := r
    simp only at hb
    subst hb
    cases sig <;> rfl

theorem allQuiet_push (c : Callee) (n : Int) (act : Act)
    (hc : (Entry.mk c (.val n)).quiet = true) (h : ∀ e ∈ act.defers, e.quiet = true) :
    ∀ e ∈ (push c n act).defers, e.quiet = true := by
  intro e he
  simp only [push, List.mem_cons] at he
  rcases he with rfl | he
  · exact hc
  · exact h e he

theorem execBody_quiet (cs : CallFn) (hq : Quiet cs) :
    ∀ (code : Code) (a : Int) (ctx : Option Val) (outer : Int) (act : Act) (w : World) (v : Val),
      mayPanic code = false → (∀ e ∈ act.defers, e.quiet = true) →
      (execBody cs code a ctx outer act w).1 ≠ .panic v ∧
      (∀ e ∈ (execBody cs code a ctx outer act w).2.2.2.1.defers, e.quiet = true) := by
  intro code
  induction code with
  | done => intro a ctx outer act w v _ h; exact ⟨by simp [execBody], by simpa [execBody] using h⟩
  | print s k ih => intro a ctx outer act w v hm h; simp only [execBody]; exact ih _ _ _ _ _ _ (by simpa [mayPanic] using hm) h
  | printArg k ih => intro a ctx outer act w v hm h; simp only [execBody]; exact ih _ _ _ _ _ _ (by simpa [mayPanic] using hm) h
  | call f x sh k ihf ih =>
    intro a ctx outer act w v hm h
    simp only [mayPanic, Bool.or_eq_false_iff] at hm
    simp only [execBody]
    have hf := hq f (evalArg x a act) none act.res w
    generalize cs f (evalArg x a act) none act.res w = r at hf ⊢
    obtain ⟨sig, c', res', rr, w'⟩ := r
    cases sig with
    | normal => simp only; exact ih _ _ _ _ _ _ hm.2 h
    | panic q => exact absurd rfl (hf q hm.1)
    | fuel => exact ⟨by simp, h⟩
  | defer f x k _ ih =>
    intro a ctx outer act w v hm h
    simp only [mayPanic, Bool.or_eq_false_iff] at hm
    simp only [execBody]
    exact ih _ _ _ _ _ _ hm.2 (allQuiet_push _ _ _ (by simp [Entry.quiet, hm.1]) h)
  | deferBin s x k ih =>
    intro a ctx outer act w v hm h
    simp only [execBody]
    exact ih _ _ _ _ _ _ (by simpa [mayPanic] using hm) (allQuiet_push _ _ _ (by simp [Entry.quiet]) h)
  | deferDel t k ih =>
    intro a ctx outer act w v hm h
    simp only [execBody]
    exact ih _ _ _ _ _ _ (by simpa [mayPanic] using hm) (allQuiet_push _ _ _ (by simp [Entry.quiet]) h)
  | probe t k ih => intro a ctx outer act w v hm h; simp only [execBody]; exact ih _ _ _ _ _ _ (by simpa [mayPanic] using hm) h
  | panic q k _ => intro a ctx outer act w v hm; simp [mayPanic] at hm
  | recover sh k ih => intro a ctx outer act w v hm h; simp only [execBody]; exact ih _ _ _ _ _ _ (by simpa [mayPanic] using hm) h
  | repanic k _ => intro a ctx outer act w v hm; simp [mayPanic] at hm
  | setRes n k ih => intro a ctx outer act w v hm h; simp only [execBody]; exact ih _ _ _ _ _ _ (by simpa [mayPanic] using hm) h
  | setOuter n k ih => intro a ctx outer act w v hm h; simp only [execBody]; exact ih _ _ _ _ _ _ (by simpa [mayPanic] using hm) h

/-- quiet entries run from a non-panicking state leave it non-panicking -/
theorem runDefers_quiet (cs : CallFn) (hq : Quiet cs) (hn : NoneStays cs) :
    ∀ (es : List Entry) (res : Int) (w : World), (∀ e ∈ es, e.quiet = true) →
      (runDefers cs es none res w).2.1 = none ∧ ∀ v, (runDefers cs es none res w).1 ≠ .panic v := by
  intro es
  induction es with
  | nil => intro res w _; exact ⟨rfl, by simp [runDefers]⟩
  | cons e es ih =>
    intro res w h
    have he := h e (by simp)
    have hes : ∀ e' ∈ es, e'.quiet = true := fun e' h' => h e' (by simp [h'])
    obtain ⟨callee, arg⟩ := e
    cases callee with
    | bin s => simp only [runDefers]; exact ih _ _ hes
    | del t => simp only [runDefers]; exact ih _ _ hes
    | src c =>
      simp only [runDefers]
      have hc : mayPanic c = false := by simpa [Entry.quiet] using he
      generalize arg.get res = n
      have h1 := hq c n none res w
      have h2 := hn c n res w
      generalize cs c n none res w = r at h1 h2 ⊢
      obtain ⟨sig, c', res', rr, w'⟩ := r
      simp only at h2
      subst h2
      cases sig with
      | normal => simp only; exact ih _ _ hes
      | panic q => exact absurd rfl (h1 q hc)
      | fuel => exact ⟨rfl, by simp⟩

theorem execFn_quiet : ∀ n, Quiet (execFn n) := by
  intro n
  induction n with
  | zero => intro code a ctx outer w v _; simp [execFn]
  | succ n ih =>
    intro code a ctx outer w v hm
    simp only [execFn]
    have hb := execBody_quiet (execFn n) ih code a ctx outer ⟨[], 0⟩ w
    generalize execBody (execFn n) code a ctx outer ⟨[], 0⟩ w = r at hb ⊢
    obtain ⟨sig, c', o', act, w'⟩ := r
    cases sig with
    | fuel => simp
    | panic q => exact absurd rfl ((hb q hm (by simp)).1)
    | normal =>
      simp only [pendingOf]
      have hd := runDefers_quiet (execFn n) ih (execFn_none n) act.defers act.res w' ((hb v hm (by simp)).2)
      generalize runDefers (execFn n) act.defers none act.res w' = r2 at hd ⊢
      obtain ⟨sig2, cur, res2, w2⟩ := r2
      obtain ⟨h1, h2⟩ := hd
      simp only at h1 h2
      subst h1
      cases sig2 with
      | normal => simp [finish]
      | fuel => simp [finish]
      | panic q => exact absurd rfl (h2 q)

end Spec

/-- depth of the call tree (statements after a panic are dead) -/
def depth : Code → Nat
  | .done => 0
  | .print _ k => depth k
  | .printArg k => depth k
  | .call f _ _ k => max (depth f + 1) (depth k)
  | .defer f _ k => max (depth f + 1) (depth k)
  | .deferBin _ _ k => depth k
  | .deferDel _ k => depth k
  | .probe _ k => depth k
  | .panic _ _ => 0
  | .recover _ k => depth k
  | .repanic k => depth k
  | .setRes _ k => depth k
  | .setOuter _ k => depth k

def Entry.shallow (n : Nat) (e : Entry) : Prop :=
  match e.callee with
  | .src c => depth c < n
  | _ => True

namespace Spec

/-- with `n` levels of fuel every tree of depth < n is executed completely -/
def Enough (n : Nat) (cs : CallFn) : Prop :=
  ∀ code a ctx outer w, depth code < n → (cs code a ctx outer w).1 ≠ .fuel

theorem execBody_enough (n : Nat) (cs : CallFn) (hcs : Enough n cs) :
    ∀ (code : Code) (a : Int) (ctx : Option Val) (outer : Int) (act : Act) (w : World),
      depth code ≤ n → (∀ e ∈ act.defers, e.shallow n) →
      (execBody cs code a ctx outer act w).1 ≠ .fuel ∧
      (∀ e ∈ (execBody cs code a ctx outer act w).2.2.2.1.defers, e.shallow n) := by
  intro code
  induction code with
  | done => intro a ctx outer act w _ h; exact ⟨by simp [execBody], h⟩
  | print s k ih => intro a ctx outer act w hd h; simp only [execBody]; exact ih _ _ _ _ _ (by simpa [depth] using hd) h
  | printArg k ih => intro a ctx outer act w hd h; simp only [execBody]; exact ih _ _ _ _ _ (by simpa [depth] using hd) h
  | probe t k ih => intro a ctx outer act w hd h; simp only [execBody]; exact ih _ _ _ _ _ (by simpa [depth] using hd) h
  | recover sh k ih => intro a ctx outer act w hd h; simp only [execBody]; exact ih _ _ _ _ _ (by simpa [depth] using hd) h
  | setRes m k ih => intro a ctx outer act w hd h; simp only [execBody]; exact ih _ _ _ _ _ (by simpa [depth] using hd) h
  | setOuter m k ih => intro a ctx outer act w hd h; simp only [execBody]; exact ih _ _ _ _ _ (by simpa [depth] using hd) h
  | panic v k _ => intro a ctx outer act w _ h; exact ⟨by simp [execBody], h⟩
  | repanic k ih =>
    intro a ctx outer act w hd h
    simp only [execBody]
    cases ctx with
    | none => exact ih _ _ _ _ _ (by simpa [depth] using hd) h
    | some v => exact ⟨by simp, h⟩
  | deferBin s x k ih =>
    intro a ctx outer act w hd h
    simp only [execBody]
    refine ih _ _ _ _ _ (by simpa [depth] using hd) ?_
    intro e he
    simp only [push, List.mem_cons] at he
    rcases he with rfl | he
    · simp [Entry.shallow]
    · exact h e he
  | deferDel t k ih =>
    intro a ctx outer act w hd h
    simp only [execBody]
    refine ih _ _ _ _ _ (by simpa [depth] using hd) ?_
    intro e he
    simp only [push, List.mem_cons] at he
    rcases he with rfl | he
    · simp [Entry.shallow]
    · exact h e he
  | defer f x k _ ih =>
    intro a ctx outer act w hd h
    simp only [depth] at hd
    simp only [execBody]
    refine ih _ _ _ _ _ (by omega) ?_
    intro e he
    simp only [push, List.mem_cons] at he
    rcases he with rfl | he
    · simp only [Entry.shallow]; omega
    · exact h e he
  | call f x sh k _ ih =>
    intro a ctx outer act w hd h
    simp only [depth] at hd
    simp only [execBody]
    have hf := hcs f (evalArg x a act) none act.res w (by omega)
    generalize cs f (evalArg x a act) none act.res w = r at hf ⊢
    obtain ⟨sig, c', res', rr, w'⟩ := r
    cases sig with
    | normal => simp only; exact ih _ _ _ _ _ (by omega) h
    | panic v => exact ⟨by simp, h⟩
    | fuel => exact absurd rfl hf

theorem runDefers_enough (n : Nat) (cs : CallFn) (hcs : Enough n cs) :
    ∀ (es : List Entry) (cur : Option Val) (res : Int) (w : World), (∀ e ∈ es, e.shallow n) →
      (runDefers cs es cur res w).1 ≠ .fuel := by
  intro es
  induction es with
  | nil => intro cur res w _; simp [runDefers]
  | cons e es ih =>
    intro cur res w h
    have he := h e (by simp)
    have hes : ∀ e' ∈ es, e'.shallow n := fun e' h' => h e' (by simp [h'])
    obtain ⟨callee, arg⟩ := e
    cases callee with
    | bin s => simp only [runDefers]; exact ih _ _ _ hes
    | del t => simp only [runDefers]; exact ih _ _ _ hes
    | src c =>
      simp only [runDefers]
      have hc := hcs c (arg.get res) cur res w he
      generalize cs c (arg.get res) cur res w = r at hc ⊢
      obtain ⟨sig, c', res', rr, w'⟩ := r
      cases sig with
      | normal => simp only; exact ih _ _ _ hes
      | panic q => simp only; exact ih _ _ _ hes
      | fuel => exact absurd rfl hc

theorem execFn_enough : ∀ n, Enough n (execFn n) := by
  intro n
  induction n with
  | zero => intro code a ctx outer w h; omega
  | succ n ih =>
    intro code a ctx outer w hd
    simp only [execFn]
    have hb := execBody_enough n (execFn n) ih code a ctx outer ⟨[], 0⟩ w (by omega) (by simp)
    generalize execBody (execFn n) code a ctx outer ⟨[], 0⟩ w = r at hb ⊢
    obtain ⟨sig, c', o', act, w'⟩ := r
    obtain ⟨h1, h2⟩ := hb
    simp only at h1 h2
    have key : ∀ p, (finish (runDefers (execFn n) act.defers p act.res w').1
        (runDefers (execFn n) act.defers p act.res w').2.1) ≠ .fuel := by
      intro p
      have hd := runDefers_enough n (execFn n) ih act.defers p act.res w' h2
      generalize runDefers (execFn n) act.defers p act.res w' = r2 at hd ⊢
      obtain ⟨sig2, cur, res2, w2⟩ := r2
      cases sig2 with
      | fuel => exact absurd rfl hd
      | normal => cases cur <;> simp [finish]
      | panic q => cases cur <;> simp [finish]
    cases sig with
    | fuel => exact absurd rfl h1
    | normal => exact key _
    | panic v => exact key _

end Spec
end YaegiVerif.Unwind
