import YaegiVerif.Model.Unwind
import YaegiVerif.Spec.GoDefer
/-
  C06 — the decidable domain of the refinement theorem, and facts about the specification alone.
-/
namespace YaegiVerif.Unwind

/-- `recover()` (in any of its forms) is written directly in this body, in live code -/
def directRecover : Code → Bool
  | .done => false
  | .print _ k => directRecover k
  | .printArg k => directRecover k
  | .call _ _ _ k => directRecover k
  | .defer _ _ k => directRecover k
  | .deferVar _ _ k => directRecover k
  | .deferBin _ _ k => directRecover k
  | .deferBinSpread _ _ k => directRecover k
  | .deferDel _ k => directRecover k
  | .deferPanic _ k => directRecover k
  | .probe _ k => directRecover k
  | .panic _ _ => false
  | .recover _ _ => true
  | .recoverIs _ _ => true
  | .repanic _ => true
  | .setRes _ k => directRecover k
  | .setOuter _ k => directRecover k

/-- Domain of the refinement theorem (decidable). Excluded, the one class that is still a listed finding:
    * a deferred function literal held as a value (variable, field, slice element) that calls `recover()` itself —
      its frame hangs off a stale copy of the defining frame, so it never sees the panic (F06-7).
    Statements after a `panic` are dead. (Excluded until their repairs: a defer argument that is the named result
    variable, F06-1; a deferred callee that may panic while another deferred call of the frame is pending, F07;
    re-panic of the recovered value, F06-3. `defer panic(v)`, F06-4, and literals held as values, F06-2, were
    outside the language.) -/
def Dom : Code → Bool
  | .done => true
  | .print _ k => Dom k
  | .printArg k => Dom k
  | .call f _ _ k => Dom f && Dom k
  | .defer f _ k => Dom f && Dom k
  | .deferVar f _ k => Dom f && !directRecover f && Dom k
  | .deferBin _ _ k => Dom k
  | .deferBinSpread _ _ k => Dom k
  | .deferDel _ k => Dom k
  | .deferPanic _ k => Dom k
  | .probe _ k => Dom k
  | .panic _ _ => true
  | .recover _ k => Dom k
  | .recoverIs _ k => Dom k
  | .repanic k => Dom k
  | .setRes _ k => Dom k
  | .setOuter _ k => Dom k

/-- every deferred callee is written at its defer statement (literal, named function, method, builtin):
    the program does not defer a function literal held as a value -/
def noHeld : Code → Bool
  | .done => true
  | .print _ k => noHeld k
  | .printArg k => noHeld k
  | .call f _ _ k => noHeld f && noHeld k
  | .defer f _ k => noHeld f && noHeld k
  | .deferVar _ _ _ => false
  | .deferBin _ _ k => noHeld k
  | .deferBinSpread _ _ k => noHeld k
  | .deferDel _ k => noHeld k
  | .deferPanic _ k => noHeld k
  | .probe _ k => noHeld k
  | .panic _ _ => true
  | .recover _ k => noHeld k
  | .recoverIs _ k => noHeld k
  | .repanic k => noHeld k
  | .setRes _ k => noHeld k
  | .setOuter _ k => noHeld k

theorem dom_of_noHeld : ∀ (c : Code), noHeld c = true → Dom c = true := by
  intro c
  induction c with
  | done => intro _; rfl
  | print s k ih => intro h; exact ih (by simpa [noHeld] using h)
  | printArg k ih => intro h; exact ih (by simpa [noHeld] using h)
  | call f x sh k ihf ih =>
    intro h
    simp only [noHeld, Bool.and_eq_true] at h
    simp [Dom, ihf h.1, ih h.2]
  | defer f x k ihf ih =>
    intro h
    simp only [noHeld, Bool.and_eq_true] at h
    simp [Dom, ihf h.1, ih h.2]
  | deferVar f x k _ _ => intro h; simp [noHeld] at h
  | deferBin s x k ih => intro h; exact ih (by simpa [noHeld] using h)
  | deferBinSpread s ns k ih => intro h; exact ih (by simpa [noHeld] using h)
  | deferDel t k ih => intro h; exact ih (by simpa [noHeld] using h)
  | deferPanic v k ih => intro h; exact ih (by simpa [noHeld] using h)
  | probe t k ih => intro h; exact ih (by simpa [noHeld] using h)
  | panic v k _ => intro _; rfl
  | recover sh k ih => intro h; exact ih (by simpa [noHeld] using h)
  | recoverIs v k ih => intro h; exact ih (by simpa [noHeld] using h)
  | repanic k ih => intro h; exact ih (by simpa [noHeld] using h)
  | setRes n k ih => intro h; exact ih (by simpa [noHeld] using h)
  | setOuter n k ih => intro h; exact ih (by simpa [noHeld] using h)

/-- a deferred entry the refinement covers: its callee is in the domain (a held literal does not call recover
    itself) and its argument was stored by value -/
def Entry.ok (e : Entry) : Bool :=
  (match e.callee with | .src c => Dom c | .held c => Dom c && !directRecover c | _ => true) &&
  (match e.arg with | .val _ => true | .refRes => false)

theorem allOK_cons (e : Entry) (es : List Entry) (h1 : e.ok = true) (h : ∀ x ∈ es, x.ok = true) :
    ∀ x ∈ e :: es, x.ok = true := by
  intro x hx
  simp only [List.mem_cons] at hx
  rcases hx with rfl | hx
  · exact h1
  · exact h x hx

namespace Spec

/-- a call that is not run by a panicking sequence hands back "nothing to recover" -/
def NoneStays (cs : CallFn) : Prop := ∀ code a outer w, (cs code a none outer w).2.1 = none

theorem execBody_none (cs : CallFn) :
    ∀ (code : Code) (a : Int) (outer : Int) (act : Act) (w : World),
      (execBody cs code a none outer act w).2.1 = none := by
  intro code
  induction code with
  | done => intros; rfl
  | print s k ih => intros; simp only [execBody]; apply ih
  | printArg k ih => intros; simp only [execBody]; apply ih
  | call f x sh k ihf ih =>
    intro a outer act w
    simp only [execBody]
    generalize cs f (evalArg x a act) none act.res w = r
    obtain ⟨sig, c', res', rr, w'⟩ := r
    cases sig with
    | normal => simp only; apply ih
    | panic v => rfl
    | fuel => rfl
  | defer f x k _ ih => intros; simp only [execBody]; apply ih
  | deferVar f x k _ ih => intros; simp only [execBody]; apply ih
  | deferBin s x k ih => intros; simp only [execBody]; apply ih
  | deferBinSpread s ns k ih => intros; simp only [execBody]; apply ih
  | deferDel t k ih => intros; simp only [execBody]; apply ih
  | deferPanic v k ih => intros; simp only [execBody]; apply ih
  | probe t k ih => intros; simp only [execBody]; apply ih
  | panic v k _ => intros; rfl
  | recover sh k ih => intros; simp only [execBody]; apply ih
  | recoverIs v k ih => intros; simp only [execBody]; apply ih
  | repanic k ih => intros; simp only [execBody]; apply ih
  | setRes n k ih => intros; simp only [execBody]; apply ih
  | setOuter n k ih => intros; simp only [execBody]; apply ih

theorem execFn_none : ∀ n, NoneStays (execFn n) := by
  intro n
  induction n with
  | zero => intro code a outer w; rfl
  | succ n ih =>
    intro code a outer w
    simp only [execFn]
    have hb := execBody_none (execFn n) code a outer ⟨[], 0⟩ w
    generalize execBody (execFn n) code a none outer ⟨[], 0⟩ w = r at hb ⊢
    obtain ⟨sig, c', o', act, w'⟩ := r
    simp only at hb
    subst hb
    cases sig <;> rfl

/-- what a call hands back when the callee never looks at the panic it could stop -/
def withCtx (ctx : Option Val) (r : Sig × Option Val × Int × Int × World) : Sig × Option Val × Int × Int × World :=
  (r.1, ctx, r.2.2)

/-- a function that does not call `recover()` itself behaves the same whether or not a panicking sequence runs it -/
def CtxFree (cs : CallFn) : Prop :=
  ∀ code a ctx outer w, directRecover code = false → cs code a ctx outer w = withCtx ctx (cs code a none outer w)

theorem execBody_ctxfree (cs : CallFn) :
    ∀ (code : Code) (a : Int) (ctx : Option Val) (outer : Int) (act : Act) (w : World),
      directRecover code = false →
      execBody cs code a ctx outer act w =
        ((execBody cs code a none outer act w).1, ctx, (execBody cs code a none outer act w).2.2) := by
  intro code
  induction code with
  | done => intros; rfl
  | print s k ih => intro a ctx outer act w h; simp only [execBody]; exact ih _ _ _ _ _ (by simpa [directRecover] using h)
  | printArg k ih => intro a ctx outer act w h; simp only [execBody]; exact ih _ _ _ _ _ (by simpa [directRecover] using h)
  | call f x sh k _ ih =>
    intro a ctx outer act w h
    simp only [execBody]
    generalize cs f (evalArg x a act) none act.res w = r
    obtain ⟨sig, c', res', rr, w'⟩ := r
    cases sig with
    | normal => simp only; exact ih _ _ _ _ _ (by simpa [directRecover] using h)
    | panic v => rfl
    | fuel => rfl
  | defer f x k _ ih => intro a ctx outer act w h; simp only [execBody]; exact ih _ _ _ _ _ (by simpa [directRecover] using h)
  | deferVar f x k _ ih => intro a ctx outer act w h; simp only [execBody]; exact ih _ _ _ _ _ (by simpa [directRecover] using h)
  | deferBin s x k ih => intro a ctx outer act w h; simp only [execBody]; exact ih _ _ _ _ _ (by simpa [directRecover] using h)
  | deferBinSpread s ns k ih => intro a ctx outer act w h; simp only [execBody]; exact ih _ _ _ _ _ (by simpa [directRecover] using h)
  | deferDel t k ih => intro a ctx outer act w h; simp only [execBody]; exact ih _ _ _ _ _ (by simpa [directRecover] using h)
  | deferPanic v k ih => intro a ctx outer act w h; simp only [execBody]; exact ih _ _ _ _ _ (by simpa [directRecover] using h)
  | probe t k ih => intro a ctx outer act w h; simp only [execBody]; exact ih _ _ _ _ _ (by simpa [directRecover] using h)
  | panic v k _ => intros; rfl
  | recover sh k _ => intro a ctx outer act w h; simp [directRecover] at h
  | recoverIs v k _ => intro a ctx outer act w h; simp [directRecover] at h
  | repanic k _ => intro a ctx outer act w h; simp [directRecover] at h
  | setRes n k ih => intro a ctx outer act w h; simp only [execBody]; exact ih _ _ _ _ _ (by simpa [directRecover] using h)
  | setOuter n k ih => intro a ctx outer act w h; simp only [execBody]; exact ih _ _ _ _ _ (by simpa [directRecover] using h)

theorem execFn_ctxfree : ∀ n, CtxFree (execFn n) := by
  intro n
  cases n with
  | zero => intro code a ctx outer w _; rfl
  | succ n =>
    intro code a ctx outer w h
    simp only [execFn, withCtx]
    rw [execBody_ctxfree (execFn n) code a ctx outer ⟨[], 0⟩ w h]
    generalize execBody (execFn n) code a none outer ⟨[], 0⟩ w = r
    obtain ⟨sig, c', o', act, w'⟩ := r
    cases sig <;> rfl

end Spec

/-- depth of the call tree (statements after a panic are dead) -/
def depth : Code → Nat
  | .done => 0
  | .print _ k => depth k
  | .printArg k => depth k
  | .call f _ _ k => max (depth f + 1) (depth k)
  | .defer f _ k => max (depth f + 1) (depth k)
  | .deferVar f _ k => max (depth f + 1) (depth k)
  | .deferBin _ _ k => depth k
  | .deferBinSpread _ _ k => depth k
  | .deferDel _ k => depth k
  | .deferPanic _ k => depth k
  | .probe _ k => depth k
  | .panic _ _ => 0
  | .recover _ k => depth k
  | .recoverIs _ k => depth k
  | .repanic k => depth k
  | .setRes _ k => depth k
  | .setOuter _ k => depth k

def Entry.shallow (n : Nat) (e : Entry) : Prop :=
  match e.callee with
  | .src c => depth c < n
  | .held c => depth c < n
  | _ => True

namespace Spec

/-- with `n` levels of fuel every tree of depth < n is executed completely -/
def Enough (n : Nat) (cs : CallFn) : Prop :=
  ∀ code a ctx outer w, depth code < n → (cs code a ctx outer w).1 ≠ .fuel

theorem execBody_enough (n : Nat) (cs : CallFn) (hcs : Enough n cs) :
    ∀ (code : Code) (a : Int) (ctx : Option Val) (outer : Int) (act : Act) (w : World),
      depth code ≤ n → (∀ e ∈ act.defers, e.shallow n) →
      (execBody cs code a ctx outer act w).1 ≠ .fuel ∧
      (∀ e ∈ (execBody cs code a ctx outer act w).2.2.2.1.defers, e.shallow n) := by
  intro code
  induction code with
  | done => intro a ctx outer act w _ h; exact ⟨by simp [execBody], h⟩
  | print s k ih => intro a ctx outer act w hd h; simp only [execBody]; exact ih _ _ _ _ _ (by simpa [depth] using hd) h
  | printArg k ih => intro a ctx outer act w hd h; simp only [execBody]; exact ih _ _ _ _ _ (by simpa [depth] using hd) h
  | probe t k ih => intro a ctx outer act w hd h; simp only [execBody]; exact ih _ _ _ _ _ (by simpa [depth] using hd) h
  | recover sh k ih => intro a ctx outer act w hd h; simp only [execBody]; exact ih _ _ _ _ _ (by simpa [depth] using hd) h
  | recoverIs v k ih => intro a ctx outer act w hd h; simp only [execBody]; exact ih _ _ _ _ _ (by simpa [depth] using hd) h
  | setRes m k ih => intro a ctx outer act w hd h; simp only [execBody]; exact ih _ _ _ _ _ (by simpa [depth] using hd) h
  | setOuter m k ih => intro a ctx outer act w hd h; simp only [execBody]; exact ih _ _ _ _ _ (by simpa [depth] using hd) h
  | panic v k _ => intro a ctx outer act w _ h; exact ⟨by simp [execBody], h⟩
  | repanic k ih =>
    intro a ctx outer act w hd h
    simp only [execBody]
    cases ctx with
    | none => exact ih _ _ _ _ _ (by simpa [depth] using hd) h
    | some v => exact ⟨by simp, h⟩
  | deferBin s x k ih =>
    intro a ctx outer act w hd h
    simp only [execBody]
    refine ih _ _ _ _ _ (by simpa [depth] using hd) ?_
    intro e he
    simp only [push, List.mem_cons] at he
    rcases he with rfl | he
    · simp [Entry.shallow]
    · exact h e he
  | deferDel t k ih =>
    intro a ctx outer act w hd h
    simp only [execBody]
    refine ih _ _ _ _ _ (by simpa [depth] using hd) ?_
    intro e he
    simp only [push, List.mem_cons] at he
    rcases he with rfl | he
    · simp [Entry.shallow]
    · exact h e he
  | deferBinSpread s ns k ih =>
    intro a ctx outer act w hd h
    simp only [execBody]
    refine ih _ _ _ _ _ (by simpa [depth] using hd) ?_
    intro e he
    simp only [push, List.mem_cons] at he
    rcases he with rfl | he
    · simp [Entry.shallow]
    · exact h e he
  | deferPanic v k ih =>
    intro a ctx outer act w hd h
    simp only [execBody]
    refine ih _ _ _ _ _ (by simpa [depth] using hd) ?_
    intro e he
    simp only [push, List.mem_cons] at he
    rcases he with rfl | he
    · simp [Entry.shallow]
    · exact h e he
  | defer f x k _ ih =>
    intro a ctx outer act w hd h
    simp only [depth] at hd
    simp only [execBody]
    refine ih _ _ _ _ _ (by omega) ?_
    intro e he
    simp only [push, List.mem_cons] at he
    rcases he with rfl | he
    · simp only [Entry.shallow]; omega
    · exact h e he
  | deferVar f x k _ ih =>
    intro a ctx outer act w hd h
    simp only [depth] at hd
    simp only [execBody]
    refine ih _ _ _ _ _ (by omega) ?_
    intro e he
    simp only [push, List.mem_cons] at he
    rcases he with rfl | he
    · simp only [Entry.shallow]; omega
    · exact h e he
  | call f x sh k _ ih =>
    intro a ctx outer act w hd h
    simp only [depth] at hd
    simp only [execBody]
    have hf := hcs f (evalArg x a act) none act.res w (by omega)
    generalize cs f (evalArg x a act) none act.res w = r at hf ⊢
    obtain ⟨sig, c', res', rr, w'⟩ := r
    cases sig with
    | normal => simp only; exact ih _ _ _ _ _ (by omega) h
    | panic v => exact ⟨by simp, h⟩
    | fuel => exact absurd rfl hf

theorem runDefers_enough (n : Nat) (cs : CallFn) (hcs : Enough n cs) :
    ∀ (es : List Entry) (cur : Option Val) (res : Int) (w : World), (∀ e ∈ es, e.shallow n) →
      (runDefers cs es cur res w).1 ≠ .fuel := by
  intro es
  induction es with
  | nil => intro cur res w _; simp [runDefers]
  | cons e es ih =>
    intro cur res w h
    have he := h e (by simp)
    have hes : ∀ e' ∈ es, e'.shallow n := fun e' h' => h e' (by simp [h'])
    obtain ⟨callee, arg⟩ := e
    cases callee with
    | bin s => simp only [runDefers]; exact ih _ _ _ hes
    | del t => simp only [runDefers]; exact ih _ _ _ hes
    | bins s ns sp => simp only [runDefers]; exact ih _ _ _ hes
    | pan v => simp only [runDefers]; exact ih _ _ _ hes
    | src c =>
      simp only [runDefers]
      have hc := hcs c (arg.get res) cur res w he
      generalize cs c (arg.get res) cur res w = r at hc ⊢
      obtain ⟨sig, c', res', rr, w'⟩ := r
      cases sig with
      | normal => simp only; exact ih _ _ _ hes
      | panic q => simp only; exact ih _ _ _ hes
      | fuel => exact absurd rfl hc
    | held c =>
      simp only [runDefers]
      have hc := hcs c (arg.get res) cur res w he
      generalize cs c (arg.get res) cur res w = r at hc ⊢
      obtain ⟨sig, c', res', rr, w'⟩ := r
      cases sig with
      | normal => simp only; exact ih _ _ _ hes
      | panic q => simp only; exact ih _ _ _ hes
      | fuel => exact absurd rfl hc

theorem execFn_enough : ∀ n, Enough n (execFn n) := by
  intro n
  induction n with
  | zero => intro code a ctx outer w h; omega
  | succ n ih =>
    intro code a ctx outer w hd
    simp only [execFn]
    have hb := execBody_enough n (execFn n) ih code a ctx outer ⟨[], 0⟩ w (by omega) (by simp)
    generalize execBody (execFn n) code a ctx outer ⟨[], 0⟩ w = r at hb ⊢
    obtain ⟨sig, c', o', act, w'⟩ := r
    obtain ⟨h1, h2⟩ := hb
    simp only at h1 h2
    have key : ∀ p, (finish (runDefers (execFn n) act.defers p act.res w').1
        (runDefers (execFn n) act.defers p act.res w').2.1) ≠ .fuel := by
      intro p
      have hd := runDefers_enough n (execFn n) ih act.defers p act.res w' h2
      generalize runDefers (execFn n) act.defers p act.res w' = r2 at hd ⊢
      obtain ⟨sig2, cur, res2, w2⟩ := r2
      cases sig2 with
      | fuel => exact absurd rfl hd
      | normal => cases cur <;> simp [finish]
      | panic q => cases cur <;> simp [finish]
    cases sig with
    | fuel => exact absurd rfl h1
    | normal => exact key _
    | panic v => exact key _

end Spec
end YaegiVerif.Unwind
