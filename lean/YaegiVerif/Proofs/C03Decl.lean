import YaegiVerif.Proofs.C03Main
/- C03: declarations around an integer constant expression -/
namespace YaegiVerif.Proofs.C03
open YaegiVerif YaegiVerif.Const

theorem unmodelledU_int (b : Bool) : ∀ e, intShape e = true → unmodelledU b e = none := by
  intro e
  induction e generalizing b with
  | un a x ih =>
    intro hs; simp only [intShape, Bool.and_eq_true] at hs
    simp [unmodelledU, isBoolAct_unarith a hs.1, ih b hs.2]
  | bin a x y ihx ihy =>
    intro hs; simp only [intShape, Bool.and_eq_true] at hs
    simp [unmodelledU, isBoolAct_arith a hs.1.1, ihx true hs.1.2, ihy true hs.2]
  | conv t x ih =>
    intro hs
    cases t <;> simp [intShape] at hs
    simp [unmodelledU, ih b hs]
  | par x ih => intro hs; simp only [intShape] at hs; simp [unmodelledU, ih b hs]
  | len x _ => intro hs; simp [intShape] at hs
  | bool _ => intro hs; simp [intShape] at hs
  | int _ => intro _; rfl
  | rune _ => intro _; rfl
  | flt _ => intro hs; simp [intShape] at hs
  | str _ => intro hs; simp [intShape] at hs
  | iota => intro _; rfl

/-- no character literal -/
def noRune : CExpr → Bool
  | .rune _ => false
  | .un _ x => noRune x
  | .bin _ x y => noRune x && noRune y
  | .conv _ x => noRune x
  | .par x => noRune x
  | .len x => noRune x
  | _ => true

theorem gtaNodeType_noRune : ∀ e, noRune e = true → (gtaNodeType e).1 = e := by
  intro e
  induction e with
  | rune _ => intro h; simp [noRune] at h
  | un a x ih => intro h; simp only [noRune] at h; simp [gtaNodeType, ih h]
  | par x ih => intro h; simp only [noRune] at h; simp [gtaNodeType, ih h]
  | bin a x y ihx ihy =>
    intro h; simp only [noRune, Bool.and_eq_true] at h
    simp only [gtaNodeType]
    split <;> simp [ihx h.1, ihy h.2]
  | conv t x _ => intro _; rfl
  | len x _ => intro _; rfl
  | int _ => intro _; rfl
  | flt _ => intro _; rfl
  | bool _ => intro _; rfl
  | str _ => intro _; rfl
  | iota => intro _; rfl

/-- the assignment of an accepted integer constant to the type Go gives it -/
theorem assign_materialise (n : NS) (g : Spec.GV) (hinv : Inv n g) (t : BT) (v : CV)
    (hgo : Spec.assignGo g t = .ok (v, t)) (hint : ∃ k, t = .i k) :
    (assignY F0 n t).bind materialiseY = .ok (v, t) := by
  obtain ⟨k, rfl⟩ := hint
  rcases hinv.shape with ⟨ka, p, hka, rfl, hty, hrv⟩ | ⟨k', p, rfl, hty, hrv, hp⟩
  · have hcond : ((Spec.isNumTy (.u ka) && Spec.isNumTy (.t (.i k))) || (Spec.isStrTy (.u ka) && BT.i k == BT.str) ||
        (Spec.isBoolTy (.u ka) && BT.i k == BT.bool)) = true := by rcases hka with rfl | rfl <;> rfl
    simp only [Spec.assignGo, hcond, if_true, Spec.representGo, CV.toInt] at hgo
    by_cases hr : Spec.reprGo k p = true
    · simp only [hr, if_true] at hgo
      injection hgo with hgo; injection hgo with hv _; subst hv
      have hcv := convertUntypedY_int n ka p k hty hrv hr
      simp [assignY, hty, Ty.untyped, hcv, materialiseY]
    · simp [hr] at hgo
  · simp only [Spec.assignGo] at hgo
    by_cases hk : (BT.i k' == BT.i k) = true
    · simp only [hk, if_true] at hgo
      injection hgo with hgo; injection hgo with hv _; subst hv
      have hkk : k' = k := by simpa using hk
      subst hkk
      simp [assignY, hty, Ty.untyped, materialiseY, hrv]
    · simp [hk] at hgo

/-- default type of an (integer-fragment) node is Go's -/
theorem defaultTypeY_int (n : NS) (g : Spec.GV) (hinv : Inv n g) : defaultTypeY n = Spec.defaultGo g.ty := by
  rcases hinv.shape with ⟨ka, p, hka, rfl, hty, hrv⟩ | ⟨k', p, rfl, hty, hrv, hp⟩
  · rcases hka with rfl | rfl <;> simp [defaultTypeY, hty, hrv, Spec.defaultGo]
  · simp [defaultTypeY, hty, Spec.defaultGo]

theorem defaultGo_int (g : Spec.GV) (n : NS) (hinv : Inv n g) : ∃ k, Spec.defaultGo g.ty = .i k := by
  rcases hinv.shape with ⟨ka, p, hka, rfl, _, _⟩ | ⟨k', p, rfl, _, _, _⟩
  · rcases hka with rfl | rfl <;> exact ⟨_, rfl⟩
  · exact ⟨k', rfl⟩

end YaegiVerif.Proofs.C03
