import YaegiVerif.Proofs.C03Main
/- C03: declarations around an integer constant expression -/
namespace YaegiVerif.Proofs.C03
open YaegiVerif YaegiVerif.Const

theorem unmodelledU_int (b : Bool) (e : CExpr) : unmodelledU b e = none := rfl

theorem unmodelled_none (e : CExpr) : unmodelled e = none := rfl

/-- the assignment of an accepted integer constant to the type Go gives it -/
theorem assign_materialise (n : NS) (g : Spec.GV) (hinv : Inv n g) (t : BT) (v : CV)
    (hgo : Spec.assignGo g t = .ok (v, t)) (hint : ∃ k, t = .i k) :
    (assignY F0 n t).bind materialiseY = .ok (v, t) := by
  obtain ⟨k, rfl⟩ := hint
  rcases hinv.shape with ⟨ka, p, hka, rfl, hty, hrv⟩ | ⟨k', p, rfl, hty, hrv, hp⟩
  · have hcond : ((Spec.isNumTy (.u ka) && Spec.isNumTy (.t (.i k))) || (Spec.isStrTy (.u ka) && BT.i k == BT.str) ||
        (Spec.isBoolTy (.u ka) && BT.i k == BT.bool)) = true := by rcases hka with rfl | rfl <;> rfl
    simp only [Spec.assignGo, hcond, if_true, Spec.representGo, CV.toInt] at hgo
    by_cases hr : Spec.reprGo k p = true
    · simp only [hr, if_true] at hgo
      injection hgo with hgo; injection hgo with hv _; subst hv
      have hcv := convertUntypedY_int n ka hka p k hty hrv hr
      simp [assignY, hty, Ty.untyped, hcv, materialiseY]
    · simp [hr] at hgo
  · simp only [Spec.assignGo] at hgo
    by_cases hk : (BT.i k' == BT.i k) = true
    · simp only [hk, if_true] at hgo
      injection hgo with hgo; injection hgo with hv _; subst hv
      have hkk : k' = k := by simpa using hk
      subst hkk
      simp [assignY, hty, Ty.untyped, materialiseY, hrv]
    · simp [hk] at hgo

/-- default type of an (integer-fragment) node is Go's -/
theorem defaultTypeY_int (n : NS) (g : Spec.GV) (hinv : Inv n g) : defaultTypeY n = Spec.defaultGo g.ty := by
  rcases hinv.shape with ⟨ka, p, hka, rfl, hty, hrv⟩ | ⟨k', p, rfl, hty, hrv, hp⟩
  · rcases hka with rfl | rfl <;> simp [defaultTypeY, hty, hrv, Spec.defaultGo]
  · simp [defaultTypeY, hty, Spec.defaultGo]

theorem defaultGo_int (g : Spec.GV) (n : NS) (hinv : Inv n g) : ∃ k, Spec.defaultGo g.ty = .i k := by
  rcases hinv.shape with ⟨ka, p, hka, rfl, _, _⟩ | ⟨k', p, rfl, _, _, _⟩
  · rcases hka with rfl | rfl <;> exact ⟨_, rfl⟩
  · exact ⟨k', rfl⟩

end YaegiVerif.Proofs.C03
