import YaegiVerif.Proofs.C04Lists
/-
  C04 — declarations: a variable declared by the mechanism (slot re-allocated with the zero value, then
  stored through) is the specification's new variable; the sequential multi-define equals the two-phase
  one when no right-hand side is one of the variables being declared (the F21 class).
-/
namespace YaegiVerif.Share
open YaegiVerif.Expected.C04 (share)

theorem lookupEnv_filter_ne (env : List (Name × Loc)) (x y : Name) (h : y ≠ x) :
    lookupEnv (env.filter (fun p => p.1 != x)) y = lookupEnv env y := by
  induction env with
  | nil => rfl
  | cons p env ih =>
    obtain ⟨z, l⟩ := p
    by_cases hz : z = x
    · subst hz
      have hyz : ¬ z = y := fun e => h e.symm
      simp [lookupEnv, hyz, ih]
    · have hb : (z != x) = true := by simp [hz]
      by_cases hzy : z = y
      · subst hzy; simp [hb, lookupEnv]
      · simp [hb, lookupEnv, hzy, ih]

theorem lookupEnv_bind_ne (st : St) (x y : Name) (l : Loc) (h : y ≠ x) :
    lookupEnv (st.bind x l).env y = lookupEnv st.env y := by
  have : ¬ x = y := fun e => h e.symm
  simp [St.bind, lookupEnv, this, lookupEnv_filter_ne _ _ _ h]

theorem lookupEnv_bind_eq (st : St) (x : Name) (l : Loc) : lookupEnv (st.bind x l).env x = some l := by
  simp [St.bind, lookupEnv]

/-- storing through the cell that was just allocated = allocating it with the stored value -/
theorem write_fresh (st : St) (x : Name) (z v : Val) :
    ((st.alloc z).2.bind x ⟨st.cells.length, []⟩).write ⟨st.cells.length, []⟩ v = .ok (Spec.declare st x v) := by
  simp [St.write, St.alloc, St.bind, writeLoc, Val.put, Spec.declare]

/-- a slot that is not the variable being declared reads the same after the declaration -/
theorem slotVal_declare (st : St) (x : Name) (w : Val) (s : Slot) (v : Val) (hs : isVarSlot x s = false)
    (h : slotVal st s = .ok v) : slotVal (Spec.declare st x w) s = .ok v := by
  have hext : Ext st (st.alloc w).2 := Ext.alloc st w
  cases s with
  | temp u => exact h
  | handle l =>
    have := hext.read l v h
    simpa [slotVal, Spec.declare, St.bind, St.read] using this
  | varslot y =>
    have hne : y ≠ x := by
      intro e; subst e; simp [isVarSlot] at hs
    simp only [slotVal, bind, Except.bind, St.var] at h ⊢
    have hl : lookupEnv (Spec.declare st x w).env y = lookupEnv st.env y := by
      simp only [Spec.declare]
      rw [lookupEnv_bind_ne _ _ _ _ hne]
      rfl
    rw [hl]
    cases hv : lookupEnv st.env y with
    | none => simp [hv] at h
    | some l =>
      simp only [hv] at h ⊢
      have := hext.read l v h
      simpa [Spec.declare, St.bind, St.read] using this

/-- slot-level version of `seqDep` -/
def slotDep : List Name → List Slot → List Name → Bool
  | x :: xs, s :: ss, seen => (x :: seen).any (fun y => isVarSlot y s) || slotDep xs ss (x :: seen)
  | [], s :: ss, seen => seen.any (fun y => isVarSlot y s) || slotDep [] ss seen
  | _, [], _ => false

theorem slotDep_seen : ∀ (xs : List Name) (ss : List Slot) (seen : List Name), slotDep xs ss seen = false →
    ∀ s ∈ ss, ∀ y ∈ seen, isVarSlot y s = false
  | _, [], _, _ => by intro s hs; cases hs
  | [], s :: ss, seen, h => by
    simp only [slotDep, Bool.or_eq_false_iff, List.any_eq_false] at h
    intro t ht y hy
    cases ht with
    | head => simpa using h.1 y hy
    | tail _ ht => exact slotDep_seen [] ss seen h.2 t ht y hy
  | x :: xs, s :: ss, seen, h => by
    simp only [slotDep, Bool.or_eq_false_iff, List.any_eq_false] at h
    intro t ht y hy
    cases ht with
    | head => simpa using h.1 y (List.mem_cons_of_mem _ hy)
    | tail _ ht => exact slotDep_seen xs ss (x :: seen) h.2 t ht y (List.mem_cons_of_mem _ hy)

theorem readSlots_declare (st : St) (x : Name) (w : Val) : ∀ (ss : List Slot) (vs : List Val),
    (∀ s ∈ ss, isVarSlot x s = false) → readSlots st ss = .ok vs → readSlots (Spec.declare st x w) ss = .ok vs := by
  intro ss
  induction ss with
  | nil => intro vs _ h; simpa [readSlots] using h
  | cons s ss ih =>
    intro vs hall h
    simp only [readSlots, bind, Except.bind] at h ⊢
    cases hs : slotVal st s with
    | error e => simp [hs] at h
    | ok v =>
      simp only [hs] at h
      rw [slotVal_declare st x w s v (hall s (List.mem_cons_self ..)) hs]
      cases hr : readSlots st ss with
      | error e => simp [hr] at h
      | ok ws =>
        simp only [hr] at h
        simp only [ih ws (fun t ht => hall t (List.mem_cons_of_mem _ ht)) hr]
        exact h

/-- **sequential multi-define = two-phase multi-define** when no right-hand side slot is one of the
    variables declared at or before its position and nothing is merely redeclared (the mechanism before commit
    3e30c22 of the repository: kept as the precise statement of what F21 was) -/
theorem bindFromSlots_spec : ∀ (xs : List Name) (rd : List Bool) (zs : List Val) (ss : List Slot) (vs : List Val)
    (seen : List Name) (st : St), rd.any id = false → readSlots st ss = .ok vs → slotDep xs ss seen = false →
    bindFromSlots share st xs rd zs ss = Spec.declareAll st xs rd vs
  | [], _, _, _, _, _, _, _, _, _ => by simp [bindFromSlots, Spec.declareAll]
  | _ :: _, [], _, _, _, _, _, _, _, _ => by simp [bindFromSlots, Spec.declareAll]
  | _ :: _, _ :: _, _, [], vs, _, st, _, hr, _ => by
    simp only [readSlots] at hr
    cases hr
    simp [bindFromSlots, Spec.declareAll]
  | x :: xs, r :: rd, zs, s :: ss, vs, seen, st, hrd, hr, hdep => by
    simp only [List.any_cons, id, Bool.or_eq_false_iff] at hrd
    obtain ⟨hr0, hrd⟩ := hrd
    subst hr0
    simp only [readSlots, bind, Except.bind] at hr
    cases hs : slotVal st s with
    | error e => simp [hs] at hr
    | ok v =>
      simp only [hs] at hr
      cases hrest : readSlots st ss with
      | error e => simp [hrest] at hr
      | ok ws =>
        simp only [hrest, Except.ok.injEq] at hr
        subst hr
        simp only [slotDep, Bool.or_eq_false_iff, List.any_eq_false] at hdep
        obtain ⟨hd0, hdep⟩ := hdep
        have hsx : isVarSlot x s = false := by simpa using hd0 x (List.mem_cons_self ..)
        have hall : ∀ t ∈ ss, isVarSlot x t = false := fun t ht => slotDep_seen xs ss (x :: seen) hdep t ht x (List.mem_cons_self ..)
        -- the slot read after re-allocation of x is the value read before
        have hv2 : slotVal ((st.alloc (zs.head?.getD .nil)).2.bind x ⟨st.cells.length, []⟩) s = .ok v := by
          exact slotVal_declare st x (zs.head?.getD .nil) s v hsx hs
        simp only [bindFromSlots, Spec.declareAll, Bool.false_and, Bool.false_eq_true, if_false, bind, Except.bind]
        have halloc : (st.alloc (zs.head?.getD .nil)).1 = st.cells.length := rfl
        simp only [halloc, hv2, write_fresh]
        exact bindFromSlots_spec xs rd zs.tail ss ws (x :: seen) (Spec.declare st x v) hrd
          (readSlots_declare st x v ss ws hall hrest) hdep

theorem evalSlots_dep : ∀ (rs : List RExp) (xs : List Name) (seen : List Name) (st : St) (ss : List Slot) (st1 : St),
    evalSlots st rs = .ok (ss, st1) → slotDep xs ss seen = seqDep xs rs seen
  | [], xs, seen, st, ss, st1, h => by
    simp only [evalSlots, Except.ok.injEq, Prod.mk.injEq] at h
    obtain ⟨rfl, _⟩ := h
    cases xs <;> simp [slotDep, seqDep]
  | r :: rs, xs, seen, st, ss, st2, h => by
    simp only [evalSlots, bind, Except.bind] at h
    cases he : evalSlot st r with
    | error e => simp [he] at h
    | ok p =>
      obtain ⟨s, st1⟩ := p
      simp only [he] at h
      cases hes : evalSlots st1 rs with
      | error e => simp [hes] at h
      | ok q =>
        obtain ⟨ss', st2'⟩ := q
        simp only [hes, Except.ok.injEq, Prod.mk.injEq] at h
        obtain ⟨rfl, rfl⟩ := h
        have hk : (fun y => isVarSlot y s) = (fun y => isLoadOf y r) := by
          funext y; exact ((evalSlot_spec r st).1 s st1 he).2.1.1 y
        cases xs with
        | nil => simp only [slotDep, seqDep, hk, evalSlots_dep rs [] seen st1 ss' st2' hes]
        | cons x xs => simp only [slotDep, seqDep, hk, evalSlots_dep rs xs (x :: seen) st1 ss' st2' hes]

/-- the stores of the two-phase multi-define: new variables are declared, variables that are only redeclared are
    assigned in place (since commits 8bd8040 / 6ebc898 of the repository) — exactly the specification's second phase -/
theorem bindAll_spec : ∀ (xs : List Name) (rd : List Bool) (vs : List Val) (st : St),
    bindAll share st xs rd vs = Spec.declareAll st xs rd vs
  | [], _, _, _ => by simp [bindAll, Spec.declareAll]
  | _ :: _, [], _, _ => by simp [bindAll, Spec.declareAll]
  | _ :: _, _ :: _, [], _ => by simp [bindAll, Spec.declareAll]
  | x :: xs, r :: rd, v :: vs, st => by
    cases r with
    | false =>
      simp only [bindAll, Spec.declareAll, Bool.false_and, Bool.false_eq_true, if_false]
      exact bindAll_spec xs rd vs _
    | true =>
      simp only [bindAll, Spec.declareAll, share_multiDefineRedeclAssigns, Bool.and_self, if_true, bind, Except.bind]
      cases st.var x with
      | error e => rfl
      | ok l =>
        simp only
        cases st.write l v with
        | error e => rfl
        | ok st1 => exact bindAll_spec xs rd vs st1

/-- `x1, x2, … := r1, r2, …` (two-phase since commit 3e30c22 of the repository; redeclared variables assigned in
    place, all sources copied first, since 8bd8040) -/
theorem multidefY_spec (st : St) (xs : List Name) (rd : List Bool) (zs : List Val) (rs : List RExp) (reexec : Bool) :
    multidefY share reexec st xs rd zs rs = Spec.multidef st xs rd rs := by
  unfold multidefY Spec.multidef
  simp only [share_shortcutGuardsSingle, share_multiDefineTemps, share_multiDefineRedeclCopies, Bool.not_true, Bool.false_and,
    Bool.and_false, Bool.false_eq_true, if_false, if_true, bind, Except.bind]
  obtain ⟨hok, herr⟩ := evalSlots_spec rs st
  cases he : evalSlots st rs with
  | error e => simp [herr e he]
  | ok p =>
    obtain ⟨ss, st1⟩ := p
    obtain ⟨_, vs, hrs, hall⟩ := hok ss st1 he
    simp only [hall, hrs]
    exact bindAll_spec xs rd vs st1

end YaegiVerif.Share
