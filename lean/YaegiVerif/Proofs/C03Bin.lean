import YaegiVerif.Proofs.C03Eval
/- C03: the post-order case `binaryExpr` (arithmetic operators) of the interpreter model agrees with the
   specification on integer constants whenever the specification accepts the operation. -/
namespace YaegiVerif.Proofs.C03
open YaegiVerif YaegiVerif.Const

theorem finish_untyped_int (r : Int) (u : UK) (hu : u = .int ∨ u = .rune) (gv : Spec.GV)
    (h : Spec.finish (.int r) (.u u) = .ok gv) : gv = ⟨.int r, .u u⟩ := by
  simp only [Spec.finish] at h
  split at h
  · cases h
  · injection h with h; exact h.symm

theorem finish_typed_int (r : Int) (k : IKind) (gv : Spec.GV)
    (h : Spec.finish (.int r) (.t (.i k)) = .ok gv) : gv = ⟨.int r, .t (.i k)⟩ ∧ Spec.reprGo k r = true := by
  simp only [Spec.finish, Spec.representGo, CV.toInt] at h
  by_cases hr : Spec.reprGo k r = true
  · simp [hr] at h; exact ⟨h.symm, hr⟩
  · simp [hr] at h

theorem zeroConstY_untyped (n : NS) (u : UK) (q : Int) (hty : n.ty = .u u) (hrv : n.rv = .c (.int q)) :
    zeroConstY n = .ok (decide (q = 0)) := by
  simp only [zeroConstY, hty, Ty.untyped, Bool.not_true, Bool.false_eq_true, if_false, hrv, CV.sign]
  by_cases h0 : q = 0
  · subst h0; simp
  · by_cases hneg : q < 0 <;> simp [h0, hneg]

theorem zeroConstY_typed (n : NS) (b : BT) (hty : n.ty = .t b) : zeroConstY n = .ok false := by
  simp [zeroConstY, hty, Ty.untyped]

theorem kindRank_u (u : UK) (hu : u = .int ∨ u = .rune) : (Ty.u u).kindRank = (if u = .int then 2 else 5) := by
  rcases hu with rfl | rfl <;> rfl

/-- the later of two untyped integer kinds (integer < rune) -/
def umax (ka kb : UK) : UK := if Spec.ukRank ka ≤ Spec.ukRank kb then kb else ka

/-- both operands untyped integer constants -/
theorem binNodeY_uu (env : Env) (a : Act) (ha : isArith a = true) (c0 c1 : NS)
    (ka kb : UK) (p q : Int) (hka : ka = .int ∨ ka = .rune) (hkb : kb = .int ∨ kb = .rune)
    (h0ty : c0.ty = .u ka) (h0rv : c0.rv = .c (.int p)) (h1ty : c1.ty = .u kb) (h1rv : c1.rv = .c (.int q))
    (hq : a = .quo → ¬ (ka = .rune ∧ kb = .int)) (hz : ¬ (needsNZ a = true ∧ q = 0)) :
    binNodeY F0 env none a c0 c1 =
      .ok { rv := .c (.int (iop a p q)), ty := .u (umax ka kb), inner := c0.loose || c1.loose } := by
  have hz1 := zeroConstY_untyped c1 kb q h1ty h1rv
  have hfold : ∀ nty : Ty, nty.untyped = true → nty.isInt = true →
      foldBinY F0 a nty (.c (.int p)) (.c (.int q)) = .ok (.c (.int (iop a p q))) :=
    fun nty _ _ => foldBinY_const a ha nty p q hz
  obtain ⟨rv0, ty0, s0, i0, f0⟩ := c0
  obtain ⟨rv1, ty1, s1, i1, f1⟩ := c1
  simp only at h0ty h0rv h1ty h1rv
  subst h0ty h0rv h1ty h1rv
  by_cases hquo : a = .quo
  · subst hquo
    have hne := hq rfl
    have hq0 : q ≠ 0 := fun h => hz ⟨rfl, h⟩
    rcases hka with rfl | rfl <;> rcases hkb with rfl | rfl <;>
      first
      | exact absurd ⟨rfl, rfl⟩ hne
      | (simp [binNodeY, checkBinaryY, hz1, hq0, binTypeY, Ty.untyped, Ty.isInt, Ty.isFloat, Ty.rtype, BT.isInt, BT.isFloat,
             fixUntypedY, umax, Spec.ukRank, NS.loose]
         rw [hfold _ rfl rfl]; rfl)
  · have hzz : a = .rem → q ≠ 0 := fun h0 h => hz ⟨by subst h0; rfl, h⟩
    rcases hka with rfl | rfl <;> rcases hkb with rfl | rfl <;>
      (cases a <;> simp [isArith] at ha <;> first
        | exact absurd rfl hquo
        | (simp [binNodeY, checkBinaryY, hz1, hzz, convertUntypedY, binaryPredY, binTypeY, Ty.untyped, Ty.isInt, Ty.isFloat,
             Ty.isNumber, Ty.kindRank, Ty.rtype, BT.isInt, BT.isFloat, fixUntypedY, umax, Spec.ukRank, NS.loose]
           rw [hfold _ rfl rfl]; rfl))

theorem convertUntypedY_typed (n : NS) (b : BT) (target : Ty) (hty : n.ty = .t b) :
    convertUntypedY F0 n target = .ok (some n) := by
  simp [convertUntypedY, hty, Ty.untyped]

/-- left operand of integer type `k`, right operand an untyped integer constant -/
theorem binNodeY_tu (env : Env) (a : Act) (ha : isArith a = true) (c0 c1 : NS)
    (k : IKind) (kb : UK) (p q : Int) (hkb : kb = .int ∨ kb = .rune)
    (h0ty : c0.ty = .t (.i k)) (h0rv : c0.rv = .r (.i k) (.int p)) (h1ty : c1.ty = .u kb) (h1rv : c1.rv = .c (.int q))
    (hp : Spec.reprGo k p = true) (hq : Spec.reprGo k q = true)
    (hz : ¬ (needsNZ a = true ∧ q = 0)) (hr : Spec.reprGo k (iop a p q) = true) :
    binNodeY F0 env none a c0 c1 = .ok { rv := .r (.i k) (.int (iop a p q)), ty := .t (.i k) } := by
  have hz1 := zeroConstY_untyped c1 kb q h1ty h1rv
  have hcv := convertUntypedY_int c1 kb q k h1ty h1rv hq
  have hc0 : ∀ target, convertUntypedY F0 c0 target = .ok (some c0) := fun t => convertUntypedY_typed c0 _ t h0ty
  have hf1 := foldBinY_typed a ha k (.r (.i k) (.int p)) (.r (.i k) (.int q)) p q (Or.inl rfl) (Or.inl rfl)
    (by simp) hp hq hz hr
  have hf2 := foldBinY_typed a ha k (.r (.i k) (.int p)) (.c (.int q)) p q (Or.inl rfl) (Or.inr rfl)
    (by simp) hp hq hz hr
  obtain ⟨rv0, ty0, s0, i0, f0⟩ := c0
  obtain ⟨rv1, ty1, s1, i1, f1⟩ := c1
  simp only at h0ty h0rv h1ty h1rv
  subst h0ty h0rv h1ty h1rv
  by_cases hquo : a = .quo
  · subst hquo
    have hq0 : q ≠ 0 := fun h => hz ⟨rfl, h⟩
    simp [binNodeY, checkBinaryY, hz1, hq0, binTypeY, Ty.untyped, hf2, fixUntypedY]
  · have hzz : a = .rem → q ≠ 0 := fun h0 h => hz ⟨by subst h0; rfl, h⟩
    cases a <;> simp [isArith] at ha <;> first
      | exact absurd rfl hquo
      | simp [binNodeY, checkBinaryY, hz1, hzz, hc0, hcv, binaryPredY, binTypeY, Ty.untyped, Ty.isInt, Ty.isNumber,
          Ty.rtype, BT.isInt, hf1, fixUntypedY]

/-- left operand an untyped integer constant, right operand of integer type `k` -/
theorem binNodeY_ut (env : Env) (a : Act) (ha : isArith a = true) (c0 c1 : NS)
    (k : IKind) (ka : UK) (p q : Int)
    (h0ty : c0.ty = .u ka) (h0rv : c0.rv = .c (.int p)) (h1ty : c1.ty = .t (.i k)) (h1rv : c1.rv = .r (.i k) (.int q))
    (hp : Spec.reprGo k p = true) (hq : Spec.reprGo k q = true)
    (hz : ¬ (needsNZ a = true ∧ q = 0)) (hr : Spec.reprGo k (iop a p q) = true) :
    binNodeY F0 env none a c0 c1 = .ok { rv := .r (.i k) (.int (iop a p q)), ty := .t (.i k) } := by
  have hz1 := zeroConstY_typed c1 _ h1ty
  have hcv := convertUntypedY_int c0 ka p k h0ty h0rv hp
  have hc1 : ∀ target, convertUntypedY F0 c1 target = .ok (some c1) := fun t => convertUntypedY_typed c1 _ t h1ty
  have hf1 := foldBinY_typed a ha k (.r (.i k) (.int p)) (.r (.i k) (.int q)) p q (Or.inl rfl) (Or.inl rfl)
    (by simp) hp hq hz hr
  have hf2 := foldBinY_typed a ha k (.c (.int p)) (.r (.i k) (.int q)) p q (Or.inr rfl) (Or.inl rfl)
    (by simp) hp hq hz hr
  obtain ⟨rv0, ty0, s0, i0, f0⟩ := c0
  obtain ⟨rv1, ty1, s1, i1, f1⟩ := c1
  simp only at h0ty h0rv h1ty h1rv
  subst h0ty h0rv h1ty h1rv
  by_cases hquo : a = .quo
  · subst hquo
    simp [binNodeY, checkBinaryY, hz1, binTypeY, Ty.untyped, hf2, fixUntypedY]
  · cases a <;> simp [isArith] at ha <;> first
      | exact absurd rfl hquo
      | simp [binNodeY, checkBinaryY, hz1, hc1, hcv, binaryPredY, binTypeY, Ty.untyped, Ty.isInt, Ty.isNumber,
          Ty.rtype, BT.isInt, hf1, fixUntypedY]

/-- both operands of the same integer type `k` -/
theorem binNodeY_tt (env : Env) (a : Act) (ha : isArith a = true) (c0 c1 : NS)
    (k : IKind) (p q : Int)
    (h0ty : c0.ty = .t (.i k)) (h0rv : c0.rv = .r (.i k) (.int p)) (h1ty : c1.ty = .t (.i k)) (h1rv : c1.rv = .r (.i k) (.int q))
    (hp : Spec.reprGo k p = true) (hq : Spec.reprGo k q = true)
    (hz : ¬ (needsNZ a = true ∧ q = 0)) (hr : Spec.reprGo k (iop a p q) = true) :
    binNodeY F0 env none a c0 c1 = .ok { rv := .r (.i k) (.int (iop a p q)), ty := .t (.i k) } := by
  have hz1 := zeroConstY_typed c1 _ h1ty
  have hc0 : ∀ target, convertUntypedY F0 c0 target = .ok (some c0) := fun t => convertUntypedY_typed c0 _ t h0ty
  have hc1 : ∀ target, convertUntypedY F0 c1 target = .ok (some c1) := fun t => convertUntypedY_typed c1 _ t h1ty
  have hf1 := foldBinY_typed a ha k (.r (.i k) (.int p)) (.r (.i k) (.int q)) p q (Or.inl rfl) (Or.inl rfl)
    (by simp) hp hq hz hr
  obtain ⟨rv0, ty0, s0, i0, f0⟩ := c0
  obtain ⟨rv1, ty1, s1, i1, f1⟩ := c1
  simp only at h0ty h0rv h1ty h1rv
  subst h0ty h0rv h1ty h1rv
  by_cases hquo : a = .quo
  · subst hquo
    simp [binNodeY, checkBinaryY, hz1, binTypeY, Ty.untyped, hf1, fixUntypedY]
  · cases a <;> simp [isArith] at ha <;> first
      | exact absurd rfl hquo
      | simp [binNodeY, checkBinaryY, hz1, hc0, hc1, binaryPredY, binTypeY, Ty.untyped, Ty.isInt, Ty.isNumber,
          Ty.rtype, BT.isInt, hf1, fixUntypedY]

/-! ### the Go side of the same four cases -/

theorem matchTypes_uu (ka kb : UK) (p q : Int) (hka : ka = .int ∨ ka = .rune) (hkb : kb = .int ∨ kb = .rune) :
    Spec.matchTypes ⟨.int p, .u ka⟩ ⟨.int q, .u kb⟩ = .ok (.int p, .int q, .u (umax ka kb)) := by
  rcases hka with rfl | rfl <;> rcases hkb with rfl | rfl <;>
    simp [Spec.matchTypes, Spec.ukRank, Spec.toKind, CV.toInt, umax]

theorem matchTypes_tu (k : IKind) (kb : UK) (p q : Int) (hkb : kb = .int ∨ kb = .rune) :
    Spec.matchTypes ⟨.int p, .t (.i k)⟩ ⟨.int q, .u kb⟩ =
      if Spec.reprGo k q = true then .ok (.int p, .int q, .t (.i k)) else .reject := by
  rcases hkb with rfl | rfl <;>
    (simp only [Spec.matchTypes, Spec.representGo, CV.toInt]
     by_cases h : Spec.reprGo k q = true <;> simp [h, Spec.isNumTy, Spec.isIntTy])

theorem matchTypes_ut (k : IKind) (ka : UK) (p q : Int) (hka : ka = .int ∨ ka = .rune) :
    Spec.matchTypes ⟨.int p, .u ka⟩ ⟨.int q, .t (.i k)⟩ =
      if Spec.reprGo k p = true then .ok (.int p, .int q, .t (.i k)) else .reject := by
  rcases hka with rfl | rfl <;>
    (simp only [Spec.matchTypes, Spec.representGo, CV.toInt]
     by_cases h : Spec.reprGo k p = true <;> simp [h, Spec.isNumTy, Spec.isIntTy])

theorem matchTypes_tt (k k' : IKind) (p q : Int) :
    Spec.matchTypes ⟨.int p, .t (.i k)⟩ ⟨.int q, .t (.i k')⟩ =
      if k = k' then .ok (.int p, .int q, .t (.i k)) else .reject := by
  by_cases h : k = k' <;> simp [Spec.matchTypes, h]

/-- **arithmetic node**: if the specification accepts `x op y` on integer constants, the interpreter's post-order
    case computes the same value and type (except that a rune/int quotient is typed int, which is excluded) -/
theorem binNode_correct (env : Env) (a : Act) (ha : isArith a = true) (c0 c1 : NS)
    (g0 g1 gv : Spec.GV) (i0 : Inv c0 g0) (i1 : Inv c1 g1)
    (hq : a = .quo → ¬ (g0.ty = .u .rune ∧ g1.ty = .u .int))
    (hgo : ((Spec.matchTypes g0 g1).bind fun x => Spec.arithGo a x.1 x.2.1 x.2.2) = .ok gv) :
    ∃ n, binNodeY F0 env none a c0 c1 = .ok n ∧ Inv n gv := by
  rcases i0.shape with ⟨ka, p, hka, rfl, h0ty, h0rv⟩ | ⟨k, p, rfl, h0ty, h0rv, hp⟩ <;>
  rcases i1.shape with ⟨kb, q, hkb, rfl, h1ty, h1rv⟩ | ⟨k', q, rfl, h1ty, h1rv, hq'⟩
  · -- untyped, untyped
    rw [matchTypes_uu ka kb p q hka hkb] at hgo
    simp only [bind_ok] at hgo
    have hint : Spec.isIntTy (.u (umax ka kb)) = true := by
      rcases hka with rfl | rfl <;> rcases hkb with rfl | rfl <;> rfl
    rw [arithGo_int a ha p q _ hint] at hgo
    by_cases hz : needsNZ a = true ∧ q = 0
    · rw [if_pos hz] at hgo; cases hgo
    · rw [if_neg hz] at hgo
      have humax : umax ka kb = .int ∨ umax ka kb = .rune := by
        rcases hka with rfl | rfl <;> rcases hkb with rfl | rfl <;> simp [umax, Spec.ukRank]
      have hgv := finish_untyped_int _ _ humax gv hgo
      subst hgv
      refine ⟨_, binNodeY_uu env a ha c0 c1 ka kb p q hka hkb h0ty h0rv h1ty h1rv ?_ hz, ?_⟩
      · intro haq ⟨h1, h2⟩; exact hq haq ⟨by rw [h1], by rw [h2]⟩
      · exact Inv.of_untyped _ _ _ humax rfl rfl
  · -- untyped, typed
    rw [matchTypes_ut k' ka p q hka] at hgo
    by_cases hp : Spec.reprGo k' p = true
    · rw [if_pos hp] at hgo
      simp only [bind_ok] at hgo
      rw [arithGo_int a ha p q _ rfl] at hgo
      by_cases hz : needsNZ a = true ∧ q = 0
      · rw [if_pos hz] at hgo; cases hgo
      · rw [if_neg hz] at hgo
        obtain ⟨hgv, hr⟩ := finish_typed_int _ _ gv hgo
        subst hgv
        exact ⟨_, binNodeY_ut env a ha c0 c1 k' ka p q h0ty h0rv h1ty h1rv hp hq' hz hr,
          Inv.of_typed _ _ _ rfl rfl hr⟩
    · rw [if_neg hp] at hgo; cases hgo
  · -- typed, untyped
    rw [matchTypes_tu k kb p q hkb] at hgo
    by_cases hq2 : Spec.reprGo k q = true
    · rw [if_pos hq2] at hgo
      simp only [bind_ok] at hgo
      rw [arithGo_int a ha p q _ rfl] at hgo
      by_cases hz : needsNZ a = true ∧ q = 0
      · rw [if_pos hz] at hgo; cases hgo
      · rw [if_neg hz] at hgo
        obtain ⟨hgv, hr⟩ := finish_typed_int _ _ gv hgo
        subst hgv
        exact ⟨_, binNodeY_tu env a ha c0 c1 k kb p q hkb h0ty h0rv h1ty h1rv hp hq2 hz hr,
          Inv.of_typed _ _ _ rfl rfl hr⟩
    · rw [if_neg hq2] at hgo; cases hgo
  · -- typed, typed
    rw [matchTypes_tt k k' p q] at hgo
    by_cases hk : k = k'
    · subst hk
      rw [if_pos rfl] at hgo
      simp only [bind_ok] at hgo
      rw [arithGo_int a ha p q _ rfl] at hgo
      by_cases hz : needsNZ a = true ∧ q = 0
      · rw [if_pos hz] at hgo; cases hgo
      · rw [if_neg hz] at hgo
        obtain ⟨hgv, hr⟩ := finish_typed_int _ _ gv hgo
        subst hgv
        exact ⟨_, binNodeY_tt env a ha c0 c1 k p q h0ty h0rv h1ty h1rv hp hq' hz hr,
          Inv.of_typed _ _ _ rfl rfl hr⟩
    · rw [if_neg hk] at hgo; cases hgo

end YaegiVerif.Proofs.C03
